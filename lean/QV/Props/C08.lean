/-
C08 — Observable estimators are unbiased for the operator they name.

"For each built-in observable (average X, Y and Z magnetisation, c-th neighbour ZZ interaction with
open or periodic boundaries), the average of its per-sample value over the model's exact basis-state
distribution equals the trace of the normalised reconstructed state with the corresponding operator,
for positive, complex and mixed states alike. Evaluating an observable returns one real number per
sample and leaves the sample array unchanged."

Conventions (computational basis indexed by `σ : Fin n → Bool`, site 0 first; a single-site matrix is a
function `(row, column) ↦ ℂ` of the two bit values):
  X = [[0,1],[1,0]],   Y = [[0,−i],[i,0]],   and, following the library's documented spin convention
  0 ↦ −1, 1 ↦ +1 (`to_pm1`),   Z = diag(−1,+1);
  `P_i` = P on site i, identity elsewhere:  P_i(σ,σ') = P(σ_i,σ'_i) · Π_{j≠i} [σ_j = σ'_j];
  M_P = (1/n) Σ_i P_i ;   N_c = (1/n) Σ_{(i,k) : k = i + c} Z_i Z_k   (open: k = i + c as numbers, so only
  i + c < n contribute — nothing at all when c ≥ n; periodic: k = (i + c) mod n).
  tr(R·O) = Σ_{σ,σ'} R(σ,σ') O(σ',σ).
  CONVENTION (one, stated once).  The observables read a sample bit through `to_pm1`: bit 0 ↦ spin −1, bit 1 ↦ spin +1
  (observables/utils.py:16-24, documented).  With `Z = diag(−1,+1)` on (|0⟩,|1⟩) and the standard X, Y matrices on the same
  ordered basis, the triple is LEFT-handed: `X·Y = −iZ` (`C08_pauli_triple`); each estimator matches the operator its own
  docstring names.  The Y matrix is read off the code's coefficient `i·to_pm1(σ_i)` (`C08_sigmaY`), so the per-observable
  theorems alone cannot detect a sign error; the independent anchor is the library's basis-rotation convention
  (utils/unitaries.py, property C04: rows of the default `X`, `Y` unitaries are the +1, −1 eigen-bras in that order, i.e.
  outcome 0 ↔ eigenvalue +1).  The two documented conventions differ by a sign on the meaning of outcome 0, hence
      Σ_σ p_P(σ)·SigmaZ.apply(σ) = −Σ_σ p(σ)·SigmaP.apply(σ),  P ∈ {X, Y},  p_P = Born distribution in the all-P basis
  (`C08_basis_rotation_sign`, `C08_rotated_Z`, `C08_rotated_Z_pure`, `C08_rotated_Z_mixed`); the harness evaluates exactly
  this relation on the real code with `rotate_psi` / `rotate_psi_inner_prod` / `rotate_rho_probs` (oracle "rotated-basis
  SigmaZ == −SigmaP").  This is an OBSERVATION about two documented conventions, not a violation of the property: a user who
  feeds X-basis measurement outcomes to `SigmaZ` obtains −⟨X⟩ relative to `SigmaX`.

States.  The observables see a state only through `importance_sampling_numerator/denominator`
(`ImpState`).  `Represents S G p` says which unnormalised density matrix `G` and which exact sampling
distribution `p` an interface `S` stands for; `C08_represents_pure` (ψ, for positive and complex
wavefunctions: G = |ψ⟩⟨ψ|, p = |ψ|²/Σ|ψ|²) and `C08_represents_mixed` (G = ρ, p = ρ_σσ / tr ρ) establish it for
the two implementations in the library under `ψ σ ≠ 0` resp. `ρ σσ = probability σ ≠ 0`; both hold for every RBM
state (`C08_rbm_psi_ne_zero` from C01, `C08_rbm_rho_diag` from C02_diagonal: `|ψ σ|² = ρ σσ = exp(−E(σ)) > 0`), so
`C08_mixed_rbm` is hypothesis-free.  No Hermiticity of ρ is needed for the real-part identities; for Hermitian ρ the
trace is real (`C08_trace_real`; RBM density matrix: `C08_rbm_rho_hermitian` from C02_hermitian_entry,
`C08_mixed_rbm_trace_real`).

Model definitions: QV.Model.Observables (executed against the code by the C08 correspondence check).
(`Obs.toC` is written qualified: QV.Lemmas.Cplx, imported through C04, has an identical decoding `QV.toC`; `obs_toC_eq`.)
-/
import Mathlib.Data.Complex.Basic
import Mathlib.Data.Complex.BigOperators
import Mathlib.Algebra.BigOperators.Field
import QV.Model.Observables
import QV.Model.States
import QV.Lemmas.Observables
import QV.Lemmas.PyFlag
import QV.Props.C01
import QV.Props.C02
import QV.Props.C04
import QV.Props.C05
import QV.Props.C13
import QV.Lemmas.Unbiased
import QV.GenBridge.SpinConv

namespace QV.Props
namespace C08
open QV QV.Obs Finset
open scoped ComplexConjugate

variable {n : ℕ}

/-! ### Specification: operators, traces, states (not part of the code) -/

/-- Pauli X = [[0,1],[1,0]] -/
def pauliX (a b : Bool) : ℂ := if a = b then 0 else 1
/-- Pauli Y = [[0,−i],[i,0]] (row/column 0 ≙ bit 0) -/
def pauliY (a b : Bool) : ℂ := if a = b then 0 else if a then Complex.I else -Complex.I
/-- Z = diag(−1,+1): bit 0 ↦ −1, bit 1 ↦ +1 (`to_pm1`) -/
def pauliZ (a b : Bool) : ℂ := if a = b then (if a then 1 else -1) else 0

example : pauliY false true = -Complex.I ∧ pauliY true false = Complex.I ∧ pauliY true true = 0 := by
  simp [pauliY]
example : pauliZ false false = -1 ∧ pauliZ true true = 1 ∧ pauliZ true false = 0 := by
  simp [pauliZ]

/-- an operator on `n` sites as its matrix in the computational basis -/
abbrev Op (n : ℕ) := Cfg n → Cfg n → ℂ

/-- `P_i`: the single-site matrix `P` on site `i` tensored with identities on all other sites -/
def siteOp (P : Bool → Bool → ℂ) (i : Fin n) : Op n :=
  fun σ σ' => if ∀ j, j ≠ i → σ j = σ' j then P (σ i) (σ' i) else 0

/-- operator (matrix) product -/
def opMul (O₁ O₂ : Op n) : Op n := fun σ σ' => ∑ τ, O₁ σ τ * O₂ τ σ'

/-- average magnetisation operator `M_P = (1/n) Σ_i P_i` -/
noncomputable def magnetOp (P : Bool → Bool → ℂ) : Op n := fun σ σ' => (1 / (n : ℂ)) * ∑ i, siteOp P i σ σ'

/-- `N_c` with open boundaries: `(1/n) Σ Z_i Z_k` over the pairs of sites with `k = i + c` -/
noncomputable def neighbourOpenOp (c : ℕ) : Op n := fun σ σ' =>
  (1 / (n : ℂ)) * ∑ i : Fin n, ∑ k : Fin n,
    if k.val = i.val + c then opMul (siteOp pauliZ i) (siteOp pauliZ k) σ σ' else 0

/-- `N_c` with periodic boundaries: pairs with `k = (i + c) mod n` -/
noncomputable def neighbourPeriodicOp (c : ℕ) : Op n := fun σ σ' =>
  (1 / (n : ℂ)) * ∑ i : Fin n, ∑ k : Fin n,
    if k.val = (i.val + c) % n then opMul (siteOp pauliZ i) (siteOp pauliZ k) σ σ' else 0

/-- `tr(R · O)` -/
def trOp (R O : Op n) : ℂ := ∑ σ, ∑ σ', R σ σ' * O σ' σ

/-- `R / tr R` -/
noncomputable def normalised (G : Op n) : Op n := fun σ σ' => G σ σ' / ∑ τ, G τ τ

/-- `|ψ⟩⟨ψ|` for a wavefunction given as real pairs -/
def dmPure (psi : Cfg n → C ℝ) : Op n := fun σ σ' => Obs.toC (psi σ) * conj (Obs.toC (psi σ'))

/-- the matrix of a mixed state given as real pairs -/
def dmMixed (rho : Cfg n → Cfg n → C ℝ) : Op n := fun σ σ' => Obs.toC (rho σ σ')

/-- exact sampling distribution of a pure state: `|ψ σ|² / Σ_τ |ψ τ|²` (= `probability(σ)/Z`, C01) -/
noncomputable def bornPure (psi : Cfg n → C ℝ) (σ : Cfg n) : ℝ :=
  C.normSq (psi σ) / ∑ τ, C.normSq (psi τ)

/-- exact sampling distribution of a mixed state: `probability(σ) / Σ_τ probability(τ)` -/
noncomputable def bornMixed (prob : Cfg n → ℝ) (σ : Cfg n) : ℝ := prob σ / ∑ τ, prob τ

/-- `⟨ψ|O|ψ⟩ / ⟨ψ|ψ⟩` -/
noncomputable def expectation (psi : Cfg n → C ℝ) (O : Op n) : ℂ :=
  (∑ σ, ∑ σ', conj (Obs.toC (psi σ)) * O σ σ' * Obs.toC (psi σ')) / ((∑ τ, C.normSq (psi τ) : ℝ) : ℂ)

/-- The importance-sampling interface `S` stands for the unnormalised density matrix `G`, sampled with
the exact distribution `p`:  `p σ = G σσ / tr G`,  `G σσ ≠ 0`, and
`numerator(σ', σ) / denominator(σ) = G σ'σ / G σσ`. -/
structure Represents (S : ImpState ℝ n) (G : Op n) (p : Cfg n → ℝ) : Prop where
  born : ∀ σ, (p σ : ℂ) = G σ σ / ∑ τ, G τ τ
  nz : ∀ σ, G σ σ ≠ 0
  ratio : ∀ vp v, Obs.toC (S.numer vp v) / Obs.toC (S.denom v) = G vp v / G v v

/-! ### The two state implementations -/

/-- **wavefunction states** (positive and complex): `numerator = ψ(σ')`, `denominator = ψ(σ)` represent
`|ψ⟩⟨ψ|` sampled with `|ψ|²/Σ|ψ|²`, provided `ψ` vanishes nowhere. -/
theorem C08_represents_pure (psi : Cfg n → C ℝ) (hψ : ∀ σ, psi σ ≠ (0, 0)) :
    Represents (ImpState.pure psi) (dmPure psi) (bornPure psi) := by
  have hd : ∀ σ, dmPure psi σ σ = ((C.normSq (psi σ) : ℝ) : ℂ) := by
    intro σ; rw [dmPure, Complex.mul_conj, Obs.toC_normSq]
  refine ⟨?_, ?_, ?_⟩
  · intro σ
    simp_rw [hd]
    rw [bornPure]; push_cast; rfl
  · intro σ
    have := Obs.toC_ne_zero (hψ σ)
    simp only [dmPure]
    exact mul_ne_zero this ((map_ne_zero _).2 this)
  · intro vp v
    have h1 := Obs.toC_ne_zero (hψ v)
    have h2 : conj (Obs.toC (psi v)) ≠ 0 := (map_ne_zero _).2 h1
    simp only [ImpState.pure, dmPure]
    rw [mul_div_mul_right _ _ h2]

/-- **density-matrix states**: `numerator = ρ(σ', σ)`, `denominator = (probability σ, 0)` represent `ρ`
sampled with `probability/Σ probability`, provided the reported probability is the diagonal of `ρ`
(C02_diagonal) and vanishes nowhere. -/
theorem C08_represents_mixed (rho : Cfg n → Cfg n → C ℝ) (prob : Cfg n → ℝ)
    (hdiag : ∀ σ, rho σ σ = (prob σ, 0)) (hpos : ∀ σ, prob σ ≠ 0) :
    Represents (ImpState.mixed rho prob) (dmMixed rho) (bornMixed prob) := by
  have hd : ∀ σ, dmMixed rho σ σ = ((prob σ : ℝ) : ℂ) := by
    intro σ; rw [dmMixed, hdiag]; rfl
  refine ⟨?_, ?_, ?_⟩
  · intro σ
    simp_rw [hd]
    rw [bornMixed]; push_cast; rfl
  · intro σ; rw [hd]; exact_mod_cast hpos σ
  · intro vp v
    simp only [ImpState.mixed, dmMixed]
    rw [hdiag]

/-- `importance_sampling_weight` is the ratio `G σ'σ / G σσ` (pure: `ψ(σ')/ψ(σ)`). -/
theorem C08_importance_weight {S : ImpState ℝ n} {G : Op n} {p : Cfg n → ℝ} (h : Represents S G p)
    (vp v : Cfg n) : Obs.toC (S.weight vp v) = G vp v / G v v := by
  rw [ImpState.weight, Obs.toC_div, h.ratio]

theorem C08_importance_weight_pure (psi : Cfg n → C ℝ) (vp v : Cfg n) :
    Obs.toC ((ImpState.pure psi).weight vp v) = Obs.toC (psi vp) / Obs.toC (psi v) := by
  rw [ImpState.weight, Obs.toC_div]; rfl

/-- for a pure state the trace with the normalised projector is the expectation value -/
theorem C08_pure_trace_eq_expectation (psi : Cfg n → C ℝ) (O : Op n) :
    trOp (normalised (dmPure psi)) O = expectation psi O := by
  have hT : ∑ τ, dmPure psi τ τ = ((∑ τ, C.normSq (psi τ) : ℝ) : ℂ) := by
    push_cast
    refine Finset.sum_congr rfl (fun τ _ => ?_)
    rw [dmPure, Complex.mul_conj, Obs.toC_normSq]
  unfold trOp expectation normalised
  rw [hT, Finset.sum_div, Finset.sum_comm]
  refine Finset.sum_congr rfl (fun σ _ => ?_)
  rw [Finset.sum_div]
  refine Finset.sum_congr rfl (fun σ' _ => ?_)
  simp only [dmPure]
  ring

/-! ### Unbiasedness -/

/-- **SigmaX**: `Σ_σ p(σ)·apply(σ) = Re tr(ρ̂ · M_X)`. -/
theorem C08_sigmaX {S : ImpState ℝ n} {G : Op n} {p : Cfg n → ℝ} (h : Represents S G p) :
    ∑ σ, p σ * sigmaXApply S false σ = (trOp (normalised G) (magnetOp pauliX)).re := by
  have := pauli_estimator S G p (∑ τ, G τ τ) h.born h.nz h.ratio pauliX (by simp [pauliX])
    (fun _ _ => 1) (by intro σ i; cases σ i <;> simp [pauliX])
  simp only [mul_one] at this
  refine Eq.trans ?_ this
  refine Finset.sum_congr rfl (fun σ _ => ?_)
  rw [sigmaXApply_eq]

/-- **SigmaY**: the code multiplies the numerator of the flip at site `i` by `i·to_pm1(σ_i)`, i.e. by
`−i` when `σ_i = 0` and `+i` when `σ_i = 1`; this is the matrix element `Y(σ_i, ¬σ_i)` of
`Y = [[0,−i],[i,0]]`, so `Σ_σ p(σ)·apply(σ) = Re tr(ρ̂ · M_Y)`. -/
theorem C08_sigmaY {S : ImpState ℝ n} {G : Op n} {p : Cfg n → ℝ} (h : Represents S G p) :
    ∑ σ, p σ * sigmaYApply S false σ = (trOp (normalised G) (magnetOp pauliY)).re := by
  have := pauli_estimator S G p (∑ τ, G τ τ) h.born h.nz h.ratio pauliY (by simp [pauliY])
    (fun σ i => Obs.toC ((0, spin (σ i)) : C ℝ))
    (by intro σ i; cases σ i <;> simp [pauliY, Complex.ext_iff])
  refine Eq.trans ?_ this
  refine Finset.sum_congr rfl (fun σ _ => ?_)
  rw [sigmaYApply_eq]

theorem pauliZ_offdiag : ∀ a b : Bool, a ≠ b → pauliZ a b = 0 := by
  intro a b h; simp [pauliZ, h]

theorem pauliZ_diag (a : Bool) : pauliZ a a = (((if a then (1 : ℝ) else -1) : ℝ) : ℂ) := by
  cases a <;> simp [pauliZ]

/-- **SigmaZ**: `Σ_σ p(σ)·apply(σ) = Re tr(ρ̂ · M_Z)` with `Z = diag(−1,+1)` (at least one site). -/
theorem C08_sigmaZ (hn : 0 < n) {S : ImpState ℝ n} {G : Op n} {p : Cfg n → ℝ} (h : Represents S G p) :
    ∑ σ, p σ * sigmaZApply false σ = (trOp (normalised G) (magnetOp pauliZ)).re := by
  rw [diag_estimator G p _ h.born (fun σ => sigmaZApply false σ)]
  congr 1
  refine Finset.sum_congr rfl (fun σ _ => Finset.sum_congr rfl (fun σ' _ => ?_))
  unfold normalised magnetOp siteOp
  rw [magnet_diag pauliZ pauliZ_offdiag σ' σ, sigmaZApply_eq hn]
  simp_rw [pauliZ_diag]
  push_cast
  rfl

/-- product `Z_i Z_k` of two single-site Z operators is diagonal with entry `s_i · s_k` -/
theorem zz_entry (i k : Fin n) (σ' σ : Cfg n) :
    opMul (siteOp pauliZ i) (siteOp pauliZ k) σ' σ
      = if σ' = σ then (((if σ' i then (1 : ℝ) else -1) * (if σ' k then (1 : ℝ) else -1) : ℝ) : ℂ) else 0 := by
  unfold opMul siteOp
  rw [zz_diag pauliZ pauliZ_offdiag, pauliZ_diag, pauliZ_diag]
  push_cast
  rfl

/-- **NeighbourInteraction, open boundaries**, every distance `c ≥ 1` (for `c ≥ n` both sides are 0:
Python's slices are empty and no pair of sites is `c` apart): the call does not raise and
`Σ_σ p(σ)·apply(σ) = Re tr(ρ̂ · N_c)`. -/
theorem C08_neighbour_open (c : ℕ) (hc : 1 ≤ c) {S : ImpState ℝ n} {G : Op n} {p : Cfg n → ℝ}
    (h : Represents S G p) :
    ∃ val : Cfg n → ℝ, (∀ σ, neighbourOpenApply c σ = .ok (val σ)) ∧
      ∑ σ, p σ * val σ = (trOp (normalised G) (neighbourOpenOp c)).re := by
  refine ⟨_, fun σ => neighbourOpenApply_eq c hc σ, ?_⟩
  rw [diag_estimator G p _ h.born]
  congr 1
  refine Finset.sum_congr rfl (fun σ _ => Finset.sum_congr rfl (fun σ' _ => ?_))
  unfold normalised neighbourOpenOp
  simp_rw [zz_entry]
  by_cases hσ : σ' = σ
  · simp only [hσ, if_true]
    push_cast
    simp only [apply_ite Complex.ofReal, Complex.ofReal_mul, Complex.ofReal_zero, Complex.ofReal_one,
      Complex.ofReal_neg]
  · simp [hσ]

/-- **NeighbourInteraction, periodic boundaries**, every distance `c` (including multiples of `n`, where
`Z_i Z_i = 1`): `Σ_σ p(σ)·apply(σ) = Re tr(ρ̂ · N_c)`. -/
theorem C08_neighbour_periodic (c : ℕ) {S : ImpState ℝ n} {G : Op n} {p : Cfg n → ℝ}
    (h : Represents S G p) :
    ∑ σ, p σ * neighbourPeriodicApply c σ = (trOp (normalised G) (neighbourPeriodicOp c)).re := by
  rw [diag_estimator G p _ h.born (fun σ => neighbourPeriodicApply c σ)]
  congr 1
  refine Finset.sum_congr rfl (fun σ _ => Finset.sum_congr rfl (fun σ' _ => ?_))
  unfold normalised neighbourPeriodicOp
  simp_rw [zz_entry, neighbourPeriodicApply_eq]
  by_cases hσ : σ' = σ
  · simp only [hσ, if_true]
    push_cast
    simp only [apply_ite Complex.ofReal, Complex.ofReal_mul, Complex.ofReal_zero, Complex.ofReal_one,
      Complex.ofReal_neg]
  · simp [hσ]

/-- open boundaries with `c = 0` is an error for chains of at least two sites (size mismatch of the
slices `[:, :0]` and `[:, 0:]`), as in the code. -/
theorem C08_neighbour_open_zero (hn : 2 ≤ n) (σ : Cfg n) :
    (neighbourOpenApply 0 σ : Except PyErr ℝ) = .error .RuntimeError := by
  simp [neighbourOpenApply, hn]

/-! ### Reality -/

/-- the trace of a Hermitian state with a Hermitian operator is real, so for Hermitian `ρ` the `Re` in
the theorems above loses nothing. -/
theorem C08_trace_real (R O : Op n) (hR : ∀ σ σ', R σ' σ = conj (R σ σ')) (hO : ∀ σ σ', O σ' σ = conj (O σ σ')) :
    (trOp R O).im = 0 := by
  have hc : conj (trOp R O) = trOp R O := by
    unfold trOp
    rw [map_sum, Finset.sum_comm]
    refine Finset.sum_congr rfl (fun σ' _ => ?_)
    rw [map_sum]
    refine Finset.sum_congr rfl (fun σ _ => ?_)
    rw [map_mul, ← hR, ← hO]
  have := congrArg Complex.im hc
  simp only [Complex.conj_im] at this
  linarith

/-- the built-in operators are Hermitian -/
theorem C08_ops_hermitian_site (P : Bool → Bool → ℂ) (hP : ∀ a b, P b a = conj (P a b)) (i : Fin n)
    (σ σ' : Cfg n) : siteOp P i σ' σ = conj (siteOp P i σ σ') := by
  unfold siteOp
  by_cases hall : ∀ j, j ≠ i → σ j = σ' j
  · rw [if_pos hall, if_pos (fun j hj => (hall j hj).symm), hP]
  · rw [if_neg hall, if_neg (fun h' => hall (fun j hj => (h' j hj).symm)), map_zero]

theorem C08_paulis_hermitian :
    (∀ a b, pauliX b a = conj (pauliX a b)) ∧ (∀ a b, pauliY b a = conj (pauliY a b))
      ∧ (∀ a b, pauliZ b a = conj (pauliZ a b)) := by
  refine ⟨?_, ?_, ?_⟩ <;> intro a b <;> cases a <;> cases b <;> simp [pauliX, pauliY, pauliZ]

/-- **one real number per sample**: the per-sample values are real by construction (the model functions
return a real, the real part of the importance ratio), and `absolute=True` is exactly the pointwise
absolute value of `absolute=False`. -/
theorem C08_real (S : ImpState ℝ n) (σ : Cfg n) :
    sigmaXApply S true σ = |sigmaXApply S false σ| ∧ sigmaYApply S true σ = |sigmaYApply S false σ|
      ∧ (sigmaZApply true σ : ℝ) = |sigmaZApply false σ| := ⟨rfl, rfl, rfl⟩

/-! ### The sample array is not modified -/

/-- **no mutation** (`SigmaX`, `SigmaY`; any scalar type): running `apply` on tensor `sid` of a heap
(`flip_spin` acts in place, but on the `clone()` allocated in each site iteration) leaves every tensor the
caller had — in particular `samples` itself — unchanged, and returns, row by row, the per-sample value
the unbiasedness theorems are about.  (`SigmaZ` and `NeighbourInteraction` only read `samples`:
`to_pm1`/`mean` allocate new tensors, so their model is a pure function of the rows.)
In the model of the mutant that drops `.clone()`, `flipSpinInPlace` would write to `sid` and both parts fail. -/
theorem C08_no_mutation {α : Type} [Add α] [Mul α] [Neg α] [Sub α] [Div α] [Zero α] [One α] [Transc α]
    (S : ImpState α n) (absolute : Bool) (h : THeap n) (sid : ℕ) (hs : sid < h.next) :
    ((∀ k, k < h.next → (sigmaXRun S absolute h sid).1.cells k = h.cells k) ∧
      (sigmaXRun S absolute h sid).2 = (h.cells sid).map (sigmaXApply S absolute)) ∧
    ((∀ k, k < h.next → (sigmaYRun S absolute h sid).1.cells k = h.cells k) ∧
      (sigmaYRun S absolute h sid).2 = (h.cells sid).map (sigmaYApply S absolute)) := by
  have hx := pauliRun_spec S none absolute h sid hs
  have hy := pauliRun_spec S (some (fun σ i => (0, spin (σ i)))) absolute h sid hs
  exact ⟨⟨hx.1.2, hx.2⟩, ⟨hy.1.2, hy.2⟩⟩

/-! ### Explicit forms for the three state types -/

/-- **positive and complex wavefunctions** (`ψ` nowhere zero): all five estimators average to the
expectation value `⟨ψ|O|ψ⟩/⟨ψ|ψ⟩` of their operator. -/
theorem C08_pure_states (psi : Cfg n → C ℝ) (hψ : ∀ σ, psi σ ≠ (0, 0)) (c : ℕ) :
    (∑ σ, bornPure psi σ * sigmaXApply (ImpState.pure psi) false σ = (expectation psi (magnetOp pauliX)).re)
    ∧ (∑ σ, bornPure psi σ * sigmaYApply (ImpState.pure psi) false σ = (expectation psi (magnetOp pauliY)).re)
    ∧ (0 < n → ∑ σ, bornPure psi σ * sigmaZApply false σ = (expectation psi (magnetOp pauliZ)).re)
    ∧ (∑ σ, bornPure psi σ * neighbourPeriodicApply c σ = (expectation psi (neighbourPeriodicOp c)).re)
    ∧ (1 ≤ c → ∃ val : Cfg n → ℝ, (∀ σ, neighbourOpenApply c σ = .ok (val σ)) ∧
        ∑ σ, bornPure psi σ * val σ = (expectation psi (neighbourOpenOp c)).re) := by
  have h := C08_represents_pure psi hψ
  simp only [← C08_pure_trace_eq_expectation]
  exact ⟨C08_sigmaX h, C08_sigmaY h, fun hn => C08_sigmaZ hn h, C08_neighbour_periodic c h,
    fun hc => C08_neighbour_open c hc h⟩

/-- **density matrices** (`ρ σσ = probability σ ≠ 0`): all five estimators average to `Re tr(ρ̂ O)`,
`ρ̂ = ρ / tr ρ`. -/
theorem C08_mixed_states (rho : Cfg n → Cfg n → C ℝ) (prob : Cfg n → ℝ)
    (hdiag : ∀ σ, rho σ σ = (prob σ, 0)) (hpos : ∀ σ, prob σ ≠ 0) (c : ℕ) :
    let S := ImpState.mixed rho prob
    let R := normalised (dmMixed rho)
    (∑ σ, bornMixed prob σ * sigmaXApply S false σ = (trOp R (magnetOp pauliX)).re)
    ∧ (∑ σ, bornMixed prob σ * sigmaYApply S false σ = (trOp R (magnetOp pauliY)).re)
    ∧ (0 < n → ∑ σ, bornMixed prob σ * sigmaZApply false σ = (trOp R (magnetOp pauliZ)).re)
    ∧ (∑ σ, bornMixed prob σ * neighbourPeriodicApply c σ = (trOp R (neighbourPeriodicOp c)).re)
    ∧ (1 ≤ c → ∃ val : Cfg n → ℝ, (∀ σ, neighbourOpenApply c σ = .ok (val σ)) ∧
        ∑ σ, bornMixed prob σ * val σ = (trOp R (neighbourOpenOp c)).re) := by
  have h := C08_represents_mixed rho prob hdiag hpos
  exact ⟨C08_sigmaX h, C08_sigmaY h, fun hn => C08_sigmaZ hn h, C08_neighbour_periodic c h,
    fun hc => C08_neighbour_open c hc h⟩

/-- the RBM wavefunctions vanish nowhere (C01: `|ψ σ|² = exp(−E_λ σ) > 0`), so the hypothesis of
`C08_pure_states` holds for every parameter setting of the positive and the complex state. -/
theorem C08_rbm_psi_ne_zero {hid : ℕ} (am ph : RBM ℝ n hid) (σ : Cfg n) :
    Wave.psiPos am (fun j => bit (σ j)) ≠ (0, 0) ∧ Wave.psiCplx am ph (fun j => bit (σ j)) ≠ (0, 0) := by
  constructor
  · intro h
    have := (C01_positive_real_pos am (fun j => bit (σ j))).2
    rw [h] at this; exact lt_irrefl _ this
  · intro h
    have := C01_normSq_psi_complex am ph (fun j => bit (σ j))
    rw [h] at this
    simp only [Wave.probability, transc_exp, div_one] at this
    have hpos := Real.exp_pos (-(am.effEnergy fun j => bit (σ j)))
    norm_num at this
    linarith

/-! ### The sign anchor: Pauli algebra and the library's own basis rotations (audit item C08-1)

The per-observable theorems above identify each estimator with the operator its docstring names; the Y and Z matrices were
read off the code (`i·to_pm1(σ_i)`, `to_pm1`).  This section ties the three SIGNS to each other through a part of the library
the observables do not share any code with: the default unitary dictionary of `utils/unitaries.py`, whose rows are the `+1`,
`−1` eigen-bras of Pauli X and Y IN THAT ORDER (property C04: `C04_dX_eigen`, `C04_dY_eigen`), i.e. measurement outcome `0` in
a rotated basis means eigenvalue `+1`, whereas the observables' spin convention `to_pm1` reads outcome `0` as `−1`.  The two
documented conventions together imply: `SigmaZ` evaluated on outcomes drawn in the all-X (all-Y) basis averages to MINUS the
average of `SigmaX` (`SigmaY`) on computational-basis samples (`C08_rotated_Z*`), and the spec operators form the
left-handed triple `X·Y = −iZ` (`C08_pauli_triple`).  A sign flip of the coefficient in `SigmaY` alone (or of `SigmaX`, or of
`to_pm1`) falsifies `C08_rotated_Z` without any reference to the `pauliY` / `pauliZ` matrices of this file. -/

/-- the two decodings of the model's real pairs (QV.Lemmas.Observables / QV.Lemmas.Cplx) are the same function -/
theorem obs_toC_eq (z : C ℝ) : Obs.toC z = QV.toC z := rfl

/-- product of two single-site matrices -/
def mul2 (P Q : Bool → Bool → ℂ) : Bool → Bool → ℂ := fun a b => ∑ c, P a c * Q c b

/-- single-site operators on the same site multiply site-wise -/
theorem siteOp_mul (P Q : Bool → Bool → ℂ) (i : Fin n) (σ σ' : Cfg n) :
    opMul (siteOp P i) (siteOp Q i) σ σ' = siteOp (mul2 P Q) i σ σ' := by
  unfold opMul
  have h := sum_site (fun τ => siteOp Q i τ σ') P i σ
  have e : ∀ τ, siteOp P i σ τ * siteOp Q i τ σ'
      = siteOp Q i τ σ' * (if ∀ j, j ≠ i → σ j = τ j then P (σ i) (τ i) else 0) := by
    intro τ; rw [mul_comm]; rfl
  simp_rw [e]
  rw [h]
  unfold siteOp mul2
  have hf : (∀ j, j ≠ i → flipSpin i σ j = σ' j) ↔ (∀ j, j ≠ i → σ j = σ' j) := by
    constructor <;> intro hh j hj
    · rw [← flipSpin_other σ hj]; exact hh j hj
    · rw [flipSpin_other σ hj]; exact hh j hj
  by_cases hall : ∀ j, j ≠ i → σ j = σ' j
  · rw [if_pos hall, if_pos (hf.2 hall), if_pos hall, flipSpin_same, Fintype.sum_bool]
    cases σ i <;> simp <;> ring
  · rw [if_neg hall, if_neg (fun h' => hall (hf.1 h')), if_neg hall]; simp

/-- **the Pauli triple of the spec operators is left-handed**: `X·Y = −i·Z`, `Y·X = +i·Z` (with the library's
`Z = diag(−1,+1)`), as 2×2 matrices and as operators on site `i` of an `n`-site chain.  (With the textbook
`Z = diag(+1,−1)` it would be `X·Y = +iZ`: the difference is the documented `to_pm1` convention.) -/
theorem C08_pauli_triple :
    (∀ a b, mul2 pauliX pauliY a b = -Complex.I * pauliZ a b)
    ∧ (∀ a b, mul2 pauliY pauliX a b = Complex.I * pauliZ a b)
    ∧ (∀ (i : Fin n) (σ σ' : Cfg n),
        opMul (siteOp pauliX i) (siteOp pauliY i) σ σ' = -Complex.I * siteOp pauliZ i σ σ') := by
  have h1 : ∀ a b, mul2 pauliX pauliY a b = -Complex.I * pauliZ a b := by
    intro a b; cases a <;> cases b <;> simp [mul2, pauliX, pauliY, pauliZ, Fintype.sum_bool]
  refine ⟨h1, ?_, ?_⟩
  · intro a b; cases a <;> cases b <;> simp [mul2, pauliX, pauliY, pauliZ, Fintype.sum_bool]
  · intro i σ σ'
    rw [siteOp_mul]
    unfold siteOp
    split
    · exact h1 _ _
    · simp


/-- the operator `uᴴ · diag(D) · u` on one site -/
def conjDiag (u : Matrix Bool Bool ℂ) (D : Bool → ℂ) : Bool → Bool → ℂ :=
  fun a b => ∑ c, star (u c a) * D c * u c b

theorem rot_site (u : Matrix Bool Bool ℂ) (hu : u.conjTranspose * u = 1) (D : Bool → ℂ) (i : Fin n)
    (τ τ' : Cfg n) :
    ∑ σ : Cfg n, star (∏ j, u (σ j) (τ j)) * D (σ i) * ∏ j, u (σ j) (τ' j)
      = siteOp (conjDiag u D) i τ τ' := by
  have key : ∀ j, ∑ b : Bool, star (u b (τ j)) * u b (τ' j) = if τ j = τ' j then 1 else 0 := by
    intro j
    have := congrFun (congrFun hu (τ j)) (τ' j)
    simpa [Matrix.mul_apply, Matrix.conjTranspose_apply, Matrix.one_apply] using this
  have h1 : ∀ σ : Cfg n, star (∏ j, u (σ j) (τ j)) * D (σ i) * ∏ j, u (σ j) (τ' j)
      = ∏ j, (star (u (σ j) (τ j)) * (if j = i then D (σ j) else 1) * u (σ j) (τ' j)) := by
    intro σ
    rw [Finset.prod_mul_distrib, Finset.prod_mul_distrib, Finset.prod_ite_eq' Finset.univ i (fun j => D (σ j)),
      if_pos (Finset.mem_univ i), star_prod]
  simp_rw [h1]
  have hsum : (∑ σ : Cfg n, ∏ j, (star (u (σ j) (τ j)) * (if j = i then D (σ j) else 1) * u (σ j) (τ' j)))
      = ∏ j, ∑ b : Bool, (star (u b (τ j)) * (if j = i then D b else 1) * u b (τ' j)) := by
    rw [Finset.prod_univ_sum, Fintype.piFinset_univ]
  rw [hsum]
  have hf : ∀ j, ∑ b : Bool, (star (u b (τ j)) * (if j = i then D b else 1) * u b (τ' j))
      = if j = i then conjDiag u D (τ j) (τ' j) else if τ j = τ' j then 1 else 0 := by
    intro j
    by_cases hj : j = i
    · simp only [hj, if_true, conjDiag]
    · simp only [hj, if_false, mul_one]; exact key j
  simp_rw [hf]
  unfold siteOp
  by_cases hall : ∀ j, j ≠ i → τ j = τ' j
  · rw [if_pos hall]
    have : ∀ j ∈ (Finset.univ : Finset (Fin n)),
        (if j = i then conjDiag u D (τ j) (τ' j) else if τ j = τ' j then (1 : ℂ) else 0)
          = if j = i then conjDiag u D (τ j) (τ' j) else 1 := by
      intro j _
      by_cases hj : j = i
      · simp [hj]
      · simp [hj, hall j hj]
    rw [Finset.prod_congr rfl this, Finset.prod_ite_eq' Finset.univ i, if_pos (Finset.mem_univ i)]
  · rw [if_neg hall]
    push Not at hall
    obtain ⟨j, hj, hne⟩ := hall
    exact Finset.prod_eq_zero (Finset.mem_univ j) (by simp [hj, hne])

/-- **rotated-basis expectation of a diagonal magnetisation.**  `K = ⊗_j u` a tensor power of a unitary, `R` any matrix:
`Σ_σ (K R Kᴴ)_σσ · (1/n) Σ_i D(σ_i) = tr(R · M_Q)` with `Q = uᴴ diag(D) u`. -/
theorem rotated_magnet (u : Matrix Bool Bool ℂ) (hu : u.conjTranspose * u = 1) (D : Bool → ℂ)
    (K : Matrix (Cfg n) (Cfg n) ℂ) (hK : ∀ σ τ, K σ τ = ∏ j, u (σ j) (τ j)) (R : Op n) :
    ∑ σ : Cfg n, (K * Matrix.of R * K.conjTranspose) σ σ * ((1 / (n : ℂ)) * ∑ i, D (σ i))
      = trOp R (magnetOp (conjDiag u D)) := by
  let T : Cfg n → Cfg n → Cfg n → Fin n → ℂ := fun σ τ τ' i =>
    K σ τ * R τ τ' * star (K σ τ') * ((1 / (n : ℂ)) * D (σ i))
  have hL : ∀ σ : Cfg n, (K * Matrix.of R * K.conjTranspose) σ σ * ((1 / (n : ℂ)) * ∑ i, D (σ i))
      = ∑ τ, ∑ τ', ∑ i, T σ τ τ' i := by
    intro σ
    simp only [Matrix.mul_apply, Matrix.conjTranspose_apply, Matrix.of_apply, Finset.sum_mul, Finset.mul_sum, T]
    rw [Finset.sum_comm]
    refine (Finset.sum_congr rfl (fun τ' _ => Finset.sum_comm)).trans ?_
    exact Finset.sum_comm
  have hR : ∀ τ τ' : Cfg n, R τ τ' * magnetOp (conjDiag u D) τ' τ = ∑ i, ∑ σ, T σ τ τ' i := by
    intro τ τ'
    unfold magnetOp
    simp only [Finset.mul_sum, T]
    refine Finset.sum_congr rfl (fun i _ => ?_)
    rw [← rot_site u hu D i τ' τ]
    simp only [Finset.mul_sum, hK]
    refine Finset.sum_congr rfl (fun σ _ => ?_)
    ring
  unfold trOp
  simp_rw [hL, hR]
  -- Σ_σ Σ_τ Σ_τ' Σ_i  =  Σ_τ Σ_τ' Σ_i Σ_σ
  rw [Finset.sum_comm]
  refine Finset.sum_congr rfl (fun τ _ => ?_)
  rw [Finset.sum_comm]
  refine Finset.sum_congr rfl (fun τ' _ => ?_)
  rw [Finset.sum_comm]

/-- the `to_pm1` spin values `0 ↦ −1`, `1 ↦ +1`: the diagonal of `Z` -/
def zDiag (c : Bool) : ℂ := pauliZ c c

/-- if the rows of the unitary `u` are the `+1`, `−1` eigen-bras of `P` in that order (`u P = diag(+1,−1) u`, C04) then, with
the observables' spin convention `Z = diag(−1,+1)`, `uᴴ Z u = −P`. -/
theorem conjDiag_of_eigen (u P : Matrix Bool Bool ℂ) (hu : u.conjTranspose * u = 1) (he : u * P = diagPM * u) :
    ∀ a b, conjDiag u zDiag a b = -P a b := by
  have hP : P = u.conjTranspose * (diagPM * u) := by rw [← he, ← Matrix.mul_assoc, hu, Matrix.one_mul]
  intro a b
  rw [hP]
  simp only [conjDiag, zDiag, Matrix.mul_apply, Matrix.conjTranspose_apply, diagPM, pauliZ, Fintype.sum_bool]
  simp
  ring

/-- Born probabilities of the outcomes in a rotated basis: the diagonal of `K G Kᴴ / tr G`, `K = ⊗_j U_j` (C04) -/
noncomputable def rotatedBorn (us : Fin n → M2 ℝ) (G : Op n) (σ : Cfg n) : ℝ :=
  ((denseK us * Matrix.of G * (denseK us).conjTranspose) σ σ / ∑ τ, G τ τ).re

theorem trOp_normalised (G O : Op n) : trOp (normalised G) O = trOp G O / ∑ τ, G τ τ := by
  unfold trOp normalised
  rw [Finset.sum_div]
  refine Finset.sum_congr rfl (fun σ _ => ?_)
  rw [Finset.sum_div]
  refine Finset.sum_congr rfl (fun σ' _ => ?_)
  ring

theorem magnetOp_neg (P Q : Bool → Bool → ℂ) (h : ∀ a b, Q a b = -P a b) (G : Op n) :
    trOp G (magnetOp Q) = -trOp G (magnetOp P) := by
  unfold trOp magnetOp siteOp
  rw [← Finset.sum_neg_distrib]
  refine Finset.sum_congr rfl (fun σ _ => ?_)
  rw [← Finset.sum_neg_distrib]
  refine Finset.sum_congr rfl (fun σ' _ => ?_)
  rw [← mul_neg, ← mul_neg, ← Finset.sum_neg_distrib]
  congr 2
  refine Finset.sum_congr rfl (fun i _ => ?_)
  split
  · exact h _ _
  · simp

/-- **SigmaZ on rotated-basis outcomes.**  For a per-site unitary `U` whose rows are the `+1`, `−1` eigen-bras of `P`,
the exact average of `SigmaZ.apply` over the Born distribution of the outcomes in the all-`U` basis is MINUS the
expectation of the magnetisation `M_P`. -/
theorem rotated_Z_expectation (hn : 0 < n) (U : M2 ℝ) (P : Bool → Bool → ℂ)
    (hu : (m2c U).conjTranspose * m2c U = 1) (hQ : ∀ a b, conjDiag (m2c U) zDiag a b = -P a b) (G : Op n) :
    ∑ σ, rotatedBorn (fun _ => U) G σ * sigmaZApply false σ = -(trOp (normalised G) (magnetOp P)).re := by
  have hz : ∀ σ : Cfg n, ((sigmaZApply false σ : ℝ) : ℂ) = (1 / (n : ℂ)) * ∑ i, zDiag (σ i) := by
    intro σ
    rw [sigmaZApply_eq hn]
    simp only [zDiag, pauliZ_diag]
    push_cast
    rfl
  have key := rotated_magnet (m2c U) hu zDiag (denseK (fun _ : Fin n => U)) (fun σ τ => rfl) G
  have hL : ∀ σ : Cfg n, rotatedBorn (fun _ => U) G σ * sigmaZApply false σ
      = (((denseK (fun _ : Fin n => U) * Matrix.of G * (denseK (fun _ : Fin n => U)).conjTranspose) σ σ
          * ((1 / (n : ℂ)) * ∑ i, zDiag (σ i))) / ∑ τ, G τ τ).re := by
    intro σ
    rw [← hz, rotatedBorn, ← Complex.re_mul_ofReal]
    congr 1
    ring
  simp_rw [hL]
  rw [← Complex.re_sum, ← Finset.sum_div, key, magnetOp_neg P _ hQ, trOp_normalised, neg_div, Complex.neg_re]

theorem dmPure_trace (psi : Cfg n → C ℝ) : ∑ τ, dmPure psi τ τ = ((∑ τ, C.normSq (psi τ) : ℝ) : ℂ) := by
  push_cast
  refine Finset.sum_congr rfl (fun τ _ => ?_)
  rw [dmPure, Complex.mul_conj, Obs.toC_normSq]

/-- for a wavefunction the rotated Born probabilities are what `rotate_psi_inner_prod` (as coded: enumeration of the expanded
states, C04) gives: `|Σ_i Ut_i ψ(v_i)|² / Σ|ψ|²`, all sites rotated. -/
theorem rotatedBorn_pure (us : Fin n → M2 ℝ) (psi : Cfg n → C ℝ) (σ : Cfg n) :
    rotatedBorn us (dmPure psi) σ
      = C.normSq (Unitaries.rotatePsiInnerProdE n us (fun _ => true) psi σ) / ∑ τ, C.normSq (psi τ) := by
  have h := C04_inner_prod_enum_dense us (fun _ => true) psi σ (by intro j hj; simp at hj)
  rw [rotatedBorn, dmPure_trace, Complex.div_ofReal_re, Obs.toC_normSq]
  congr 1
  have hx : (denseK us * Matrix.of (dmPure psi) * (denseK us).conjTranspose) σ σ
      = (denseK us).mulVec (fun τ => QV.toC (psi τ)) σ * conj ((denseK us).mulVec (fun τ => QV.toC (psi τ)) σ) := by
    simp only [Matrix.mul_apply, Matrix.conjTranspose_apply, Matrix.of_apply, Matrix.mulVec, dotProduct, dmPure,
      map_sum, Finset.sum_mul, Finset.mul_sum, map_mul]
    refine Finset.sum_congr rfl (fun τ _ => Finset.sum_congr rfl (fun τ' _ => ?_))
    simp only [obs_toC_eq, ← starRingEnd_apply]
    ring
  rw [hx, ← h, Complex.mul_conj, Complex.ofReal_re]
  rfl

/-- for a density matrix the rotated Born probabilities are what `rotate_rho_probs` (as coded, C04) gives, divided by the
trace `Σ probability`. -/
theorem rotatedBorn_mixed (us : Fin n → M2 ℝ) (rho : Cfg n → Cfg n → C ℝ) (prob : Cfg n → ℝ)
    (hdiag : ∀ σ, rho σ σ = (prob σ, 0)) (σ : Cfg n) :
    rotatedBorn us (dmMixed rho) σ
      = Unitaries.rotateRhoProbsE n us (fun _ => true) rho σ / ∑ τ, prob τ := by
  have h := C04_rho_probs_enum_dense us (fun _ => true) rho σ (by intro j hj; simp at hj)
  have hT : ∑ τ, dmMixed rho τ τ = ((∑ τ, prob τ : ℝ) : ℂ) := by
    push_cast
    refine Finset.sum_congr rfl (fun τ _ => ?_)
    rw [dmMixed, hdiag]; rfl
  rw [rotatedBorn, hT, Complex.div_ofReal_re, h]
  rfl

open Unitaries in
/-- **sign anchor, single site**: for the default dictionary's `U_X`, `U_Y` (C04: unitary, rows = `+1`,`−1` eigen-bras of
`σ_x`, `σ_y` in that order) and the observables' `Z = diag(−1,+1)`:  `U_Xᴴ Z U_X = −X`,  `U_Yᴴ Z U_Y = −Y`. -/
theorem C08_basis_rotation_sign :
    (∀ a b, conjDiag (m2c (dX : M2 ℝ)) zDiag a b = -pauliX a b)
    ∧ (∀ a b, conjDiag (m2c (dY : M2 ℝ)) zDiag a b = -pauliY a b) :=
  ⟨conjDiag_of_eigen _ QV.Props.pauliX C04_dX_unitary C04_dX_eigen,
   conjDiag_of_eigen _ QV.Props.pauliY C04_dY_unitary C04_dY_eigen⟩

open Unitaries in
/-- **SigmaZ on rotated-basis outcomes = −SigmaX / −SigmaY on computational-basis samples**, for every state the
importance-sampling interface represents: with `p_P(σ) = (K_P G K_Pᴴ)_σσ / tr G` the Born distribution of the outcomes when
every site is measured in the `P` basis of the default dictionary,
`Σ_σ p_X(σ)·SigmaZ.apply(σ) = −Σ_σ p(σ)·SigmaX.apply(σ)` and the same for Y.  The statement mentions model functions and
C04's `denseK` only — no Pauli matrix of this file. -/
theorem C08_rotated_Z (hn : 0 < n) {S : ImpState ℝ n} {G : Op n} {p : Cfg n → ℝ} (h : Represents S G p) :
    (∑ σ, rotatedBorn (fun _ => dX) G σ * sigmaZApply false σ = -∑ σ, p σ * sigmaXApply S false σ)
    ∧ (∑ σ, rotatedBorn (fun _ => dY) G σ * sigmaZApply false σ = -∑ σ, p σ * sigmaYApply S false σ) := by
  rw [C08_sigmaX h, C08_sigmaY h]
  exact ⟨rotated_Z_expectation hn dX pauliX C04_dX_unitary C08_basis_rotation_sign.1 G,
    rotated_Z_expectation hn dY pauliY C04_dY_unitary C08_basis_rotation_sign.2 G⟩

open Unitaries in
/-- … for wavefunctions, with `p_P` computed by the model of `rotate_psi_inner_prod` as coded (C04):
`p_P(σ) = |rotatePsiInnerProdE …|² / Σ|ψ|²`. -/
theorem C08_rotated_Z_pure (hn : 0 < n) (psi : Cfg n → C ℝ) (hψ : ∀ σ, psi σ ≠ (0, 0)) :
    (∑ σ, C.normSq (rotatePsiInnerProdE n (fun _ => dX) (fun _ => true) psi σ) / (∑ τ, C.normSq (psi τ))
          * sigmaZApply false σ
        = -∑ σ, bornPure psi σ * sigmaXApply (ImpState.pure psi) false σ)
    ∧ (∑ σ, C.normSq (rotatePsiInnerProdE n (fun _ => dY) (fun _ => true) psi σ) / (∑ τ, C.normSq (psi τ))
          * sigmaZApply false σ
        = -∑ σ, bornPure psi σ * sigmaYApply (ImpState.pure psi) false σ) := by
  have h := C08_rotated_Z hn (C08_represents_pure psi hψ)
  simp only [rotatedBorn_pure] at h
  exact h

open Unitaries in
/-- … for density matrices, with `p_P` computed by the model of `rotate_rho_probs` as coded (C04), divided by the trace. -/
theorem C08_rotated_Z_mixed (hn : 0 < n) (rho : Cfg n → Cfg n → C ℝ) (prob : Cfg n → ℝ)
    (hdiag : ∀ σ, rho σ σ = (prob σ, 0)) (hpos : ∀ σ, prob σ ≠ 0) :
    (∑ σ, rotateRhoProbsE n (fun _ => dX) (fun _ => true) rho σ / (∑ τ, prob τ) * sigmaZApply false σ
        = -∑ σ, bornMixed prob σ * sigmaXApply (ImpState.mixed rho prob) false σ)
    ∧ (∑ σ, rotateRhoProbsE n (fun _ => dY) (fun _ => true) rho σ / (∑ τ, prob τ) * sigmaZApply false σ
        = -∑ σ, bornMixed prob σ * sigmaYApply (ImpState.mixed rho prob) false σ) := by
  have h := C08_rotated_Z hn (C08_represents_mixed rho prob hdiag hpos)
  simp only [rotatedBorn_mixed _ rho prob hdiag] at h
  exact h

/-! ### The RBM density matrix satisfies the mixed-state hypotheses (audit item C08-2; from C02) -/
section rbmMixed
variable {hid a : ℕ}

/-- the RBM density matrix on basis states, as the driver instantiates `ImpState.mixed` -/
noncomputable abbrev rbmRho (am ph : PRBM ℝ n hid a) : Cfg n → Cfg n → C ℝ :=
  fun σ σ' => Density.rho am ph (fun j => bit (σ j)) (fun j => bit (σ' j))
/-- the reported unnormalised probability on basis states -/
noncomputable abbrev rbmProb (am : PRBM ℝ n hid a) : Cfg n → ℝ := fun σ => Density.probability am (fun j => bit (σ j)) 1

/-- `ρ σσ = (probability σ, 0)` and `probability σ = exp(−E_λ σ) > 0` for EVERY parameter setting (C02_diagonal):
the hypotheses `hdiag`, `hpos` of `C08_represents_mixed` / `C08_mixed_states` hold for the RBM density matrix. -/
theorem C08_rbm_rho_diag (am ph : PRBM ℝ n hid a) (σ : Cfg n) :
    rbmRho am ph σ σ = (rbmProb am σ, 0) ∧ 0 < rbmProb am σ := by
  have h := C02.C02_diagonal am ph (fun j => bit (σ j))
  refine ⟨h.2, ?_⟩
  have := h.1.symm.trans h.2
  have h1 := congrArg Prod.fst this
  simp only at h1
  show 0 < Density.probability am (fun j => bit (σ j)) 1
  rw [← h1]
  exact Real.exp_pos _

/-- **density-matrix RBM, no hypotheses**: all five estimators average to `Re tr(ρ̂ O)` for every parameter setting. -/
theorem C08_mixed_rbm (am ph : PRBM ℝ n hid a) (c : ℕ) :
    let S := ImpState.mixed (rbmRho am ph) (rbmProb am)
    let R := normalised (dmMixed (rbmRho am ph))
    (∑ σ, bornMixed (rbmProb am) σ * sigmaXApply S false σ = (trOp R (magnetOp pauliX)).re)
    ∧ (∑ σ, bornMixed (rbmProb am) σ * sigmaYApply S false σ = (trOp R (magnetOp pauliY)).re)
    ∧ (0 < n → ∑ σ, bornMixed (rbmProb am) σ * sigmaZApply false σ = (trOp R (magnetOp pauliZ)).re)
    ∧ (∑ σ, bornMixed (rbmProb am) σ * neighbourPeriodicApply c σ = (trOp R (neighbourPeriodicOp c)).re)
    ∧ (1 ≤ c → ∃ val : Cfg n → ℝ, (∀ σ, neighbourOpenApply c σ = .ok (val σ)) ∧
        ∑ σ, bornMixed (rbmProb am) σ * val σ = (trOp R (neighbourOpenOp c)).re) :=
  C08_mixed_states (rbmRho am ph) (rbmProb am) (fun σ => (C08_rbm_rho_diag am ph σ).1)
    (fun σ => (C08_rbm_rho_diag am ph σ).2.ne') c

open Unitaries in
/-- the rotated-basis sign relation for the RBM density matrix, no hypotheses beyond `n > 0` -/
theorem C08_rotated_Z_mixed_rbm (hn : 0 < n) (am ph : PRBM ℝ n hid a) :
    (∑ σ, rotateRhoProbsE n (fun _ => dX) (fun _ => true) (rbmRho am ph) σ / (∑ τ, rbmProb am τ) * sigmaZApply false σ
        = -∑ σ, bornMixed (rbmProb am) σ * sigmaXApply (ImpState.mixed (rbmRho am ph) (rbmProb am)) false σ)
    ∧ (∑ σ, rotateRhoProbsE n (fun _ => dY) (fun _ => true) (rbmRho am ph) σ / (∑ τ, rbmProb am τ) * sigmaZApply false σ
        = -∑ σ, bornMixed (rbmProb am) σ * sigmaYApply (ImpState.mixed (rbmRho am ph) (rbmProb am)) false σ) :=
  C08_rotated_Z_mixed hn _ _ (fun σ => (C08_rbm_rho_diag am ph σ).1) (fun σ => (C08_rbm_rho_diag am ph σ).2.ne')

end rbmMixed

/-! ### Hermiticity of the five operators; the traces with the RBM density matrix are real -/

theorem zz_hermitian (i k : Fin n) (σ σ' : Cfg n) :
    opMul (siteOp pauliZ i) (siteOp pauliZ k) σ' σ = conj (opMul (siteOp pauliZ i) (siteOp pauliZ k) σ σ') := by
  rw [zz_entry, zz_entry]
  by_cases h : σ = σ'
  · subst h; simp only [if_true, Complex.conj_ofReal]
  · rw [if_neg h, if_neg (fun h' => h h'.symm), map_zero]

theorem conj_inv_n : conj (1 / (n : ℂ)) = 1 / (n : ℂ) := by
  rw [map_div₀, map_one, Complex.conj_natCast]

/-- the five built-in operators are Hermitian -/
theorem C08_ops_hermitian (c : ℕ) :
    (∀ P : Bool → Bool → ℂ, (∀ a b, P b a = conj (P a b)) →
        ∀ σ σ' : Cfg n, magnetOp P σ' σ = conj (magnetOp P σ σ'))
    ∧ (∀ σ σ' : Cfg n, neighbourOpenOp c σ' σ = conj (neighbourOpenOp c σ σ'))
    ∧ (∀ σ σ' : Cfg n, neighbourPeriodicOp c σ' σ = conj (neighbourPeriodicOp c σ σ')) := by
  refine ⟨fun P hP σ σ' => ?_, fun σ σ' => ?_, fun σ σ' => ?_⟩
  · unfold magnetOp
    rw [map_mul, conj_inv_n, map_sum]
    congr 1
    exact Finset.sum_congr rfl (fun i _ => C08_ops_hermitian_site P hP i σ σ')
  · unfold neighbourOpenOp
    rw [map_mul, conj_inv_n, map_sum]
    congr 1
    refine Finset.sum_congr rfl (fun i _ => ?_)
    rw [map_sum]
    refine Finset.sum_congr rfl (fun k _ => ?_)
    split
    · exact zz_hermitian i k σ σ'
    · simp
  · unfold neighbourPeriodicOp
    rw [map_mul, conj_inv_n, map_sum]
    congr 1
    refine Finset.sum_congr rfl (fun i _ => ?_)
    rw [map_sum]
    refine Finset.sum_congr rfl (fun k _ => ?_)
    split
    · exact zz_hermitian i k σ σ'
    · simp

section rbmMixed2
variable {hid a : ℕ}

theorem rbm_trace (am ph : PRBM ℝ n hid a) :
    ∑ τ, dmMixed (rbmRho am ph) τ τ = ((∑ τ, rbmProb am τ : ℝ) : ℂ) := by
  push_cast
  refine Finset.sum_congr rfl (fun τ _ => ?_)
  rw [dmMixed, (C08_rbm_rho_diag am ph τ).1]; rfl

theorem rbm_trace_pos (am : PRBM ℝ n hid a) : 0 < ∑ τ, rbmProb am τ :=
  Finset.sum_pos (fun σ _ => (C08_rbm_rho_diag am am σ).2) Finset.univ_nonempty

/-- the normalised RBM density matrix is Hermitian for EVERY parameter setting (C02_hermitian_entry, no guard) -/
theorem C08_rbm_rho_hermitian (am ph : PRBM ℝ n hid a) (σ σ' : Cfg n) :
    normalised (dmMixed (rbmRho am ph)) σ' σ = conj (normalised (dmMixed (rbmRho am ph)) σ σ') := by
  unfold normalised
  rw [rbm_trace, map_div₀, Complex.conj_ofReal]
  congr 1
  exact C02.C02_hermitian_entry am ph (fun j => bit (σ j)) (fun j => bit (σ' j))

/-- hence the traces of all five observables with the RBM density matrix are real: the `Re` in `C08_mixed_rbm` loses nothing -/
theorem C08_mixed_rbm_trace_real (am ph : PRBM ℝ n hid a) (c : ℕ) :
    let R := normalised (dmMixed (rbmRho am ph))
    (trOp R (magnetOp pauliX)).im = 0 ∧ (trOp R (magnetOp pauliY)).im = 0 ∧ (trOp R (magnetOp pauliZ)).im = 0
      ∧ (trOp R (neighbourPeriodicOp c)).im = 0 ∧ (trOp R (neighbourOpenOp c)).im = 0 := by
  intro R
  have hR := C08_rbm_rho_hermitian am ph
  have hO := C08_ops_hermitian (n := n) c
  exact ⟨C08_trace_real R _ hR (hO.1 pauliX C08_paulis_hermitian.1),
    C08_trace_real R _ hR (hO.1 pauliY C08_paulis_hermitian.2.1),
    C08_trace_real R _ hR (hO.1 pauliZ C08_paulis_hermitian.2.2),
    C08_trace_real R _ hR hO.2.2, C08_trace_real R _ hR hO.2.1⟩

end rbmMixed2

/-! ### One value per sample (audit item C08-3) -/

/-- **one value per sample**: the heap runs of `SigmaX` / `SigmaY` return a list exactly as long as the batch (the
`zipWith`s of the site loop never truncate).  `SigmaZ` and `NeighbourInteraction` have no batch-level model: the code performs
no in-place operation on `samples` there (`to_pm1` is `x.mul(2.0).sub(1.0)`, out of place; `mean`, slicing and `*` allocate),
so the driver maps the per-sample function over the rows and the length is the batch length by construction; the harness
checks shape, dtype and the bytes of the sample tensor for all five observables on the real code. -/
theorem C08_one_value_per_sample {α : Type} [Add α] [Mul α] [Neg α] [Sub α] [Div α] [Zero α] [One α] [Transc α]
    (S : ImpState α n) (absolute : Bool) (h : THeap n) (sid : ℕ) (hs : sid < h.next) :
    (sigmaXRun S absolute h sid).2.length = (h.cells sid).length
      ∧ (sigmaYRun S absolute h sid).2.length = (h.cells sid).length := by
  have := C08_no_mutation S absolute h sid hs
  rw [this.1.2, this.2.2, List.length_map, List.length_map]
  exact ⟨rfl, rfl⟩

/-- non-vacuity of the sign anchor: a complex RBM state on two sites -/
example : let am : RBM ℝ 2 3 := ⟨fun i j => (i.val : ℝ) - j.val + 0.5, fun j => if j = 0 then -1.5 else 2,
      fun i => if i = 0 then 0.7 else -0.3⟩
    let ph : RBM ℝ 2 3 := ⟨fun i j => 0.25 * (i.val : ℝ) + j.val, fun j => if j = 0 then 1 else -2,
      fun i => if i = 0 then -0.4 else 0.9⟩
    let psi : Cfg 2 → C ℝ := fun σ => Wave.psiCplx am ph (fun j => bit (σ j))
    ∑ σ, C.normSq (Unitaries.rotatePsiInnerProdE 2 (fun _ => Unitaries.dY) (fun _ => true) psi σ) / (∑ τ, C.normSq (psi τ))
          * sigmaZApply false σ
      = -∑ σ, bornPure psi σ * sigmaYApply (ImpState.pure psi) false σ :=
  (C08_rotated_Z_pure (by norm_num) _ (fun σ => (C08_rbm_psi_ne_zero _ _ σ).2)).2

/-- non-vacuity: a complex RBM state with `h ≠ n`, non-zero biases and a non-trivial phase network
satisfies the hypotheses; here SigmaY. -/
example : let am : RBM ℝ 2 3 := ⟨fun i j => (i.val : ℝ) - j.val + 0.5, fun j => if j = 0 then -1.5 else 2,
      fun i => if i = 0 then 0.7 else -0.3⟩
    let ph : RBM ℝ 2 3 := ⟨fun i j => 0.25 * (i.val : ℝ) + j.val, fun j => if j = 0 then 1 else -2,
      fun i => if i = 0 then -0.4 else 0.9⟩
    let psi : Cfg 2 → C ℝ := fun σ => Wave.psiCplx am ph (fun j => bit (σ j))
    ∑ σ, bornPure psi σ * sigmaYApply (ImpState.pure psi) false σ = (expectation psi (magnetOp pauliY)).re :=
  (C08_pure_states _ (fun σ => (C08_rbm_psi_ne_zero _ _ σ).2) 1).2.1


/-- **RBM wavefunctions, no hypotheses** (second audit, item C08-A1): for EVERY parameter setting of the complex
wavefunction `ψ_λμ` all five estimators average to `⟨ψ|O|ψ⟩/⟨ψ|ψ⟩` — `C08_pure_states` with its hypothesis discharged by
`C08_rbm_psi_ne_zero` (C01: `|ψ σ|² = exp(−E_λ σ) > 0`). -/
theorem C08_pure_rbm {hid : ℕ} (am ph : RBM ℝ n hid) (c : ℕ) :
    let psi : Cfg n → C ℝ := fun σ => Wave.psiCplx am ph (fun j => bit (σ j))
    (∑ σ, bornPure psi σ * sigmaXApply (ImpState.pure psi) false σ = (expectation psi (magnetOp pauliX)).re)
    ∧ (∑ σ, bornPure psi σ * sigmaYApply (ImpState.pure psi) false σ = (expectation psi (magnetOp pauliY)).re)
    ∧ (0 < n → ∑ σ, bornPure psi σ * sigmaZApply false σ = (expectation psi (magnetOp pauliZ)).re)
    ∧ (∑ σ, bornPure psi σ * neighbourPeriodicApply c σ = (expectation psi (neighbourPeriodicOp c)).re)
    ∧ (1 ≤ c → ∃ val : Cfg n → ℝ, (∀ σ, neighbourOpenApply c σ = .ok (val σ)) ∧
        ∑ σ, bornPure psi σ * val σ = (expectation psi (neighbourOpenOp c)).re) :=
  C08_pure_states _ (fun σ => (C08_rbm_psi_ne_zero am ph σ).2) c

/-- … and of the positive wavefunction `ψ_λ`. -/
theorem C08_pure_rbm_pos {hid : ℕ} (am : RBM ℝ n hid) (c : ℕ) :
    let psi : Cfg n → C ℝ := fun σ => Wave.psiPos am (fun j => bit (σ j))
    (∑ σ, bornPure psi σ * sigmaXApply (ImpState.pure psi) false σ = (expectation psi (magnetOp pauliX)).re)
    ∧ (∑ σ, bornPure psi σ * sigmaYApply (ImpState.pure psi) false σ = (expectation psi (magnetOp pauliY)).re)
    ∧ (0 < n → ∑ σ, bornPure psi σ * sigmaZApply false σ = (expectation psi (magnetOp pauliZ)).re)
    ∧ (∑ σ, bornPure psi σ * neighbourPeriodicApply c σ = (expectation psi (neighbourPeriodicOp c)).re)
    ∧ (1 ≤ c → ∃ val : Cfg n → ℝ, (∀ σ, neighbourOpenApply c σ = .ok (val σ)) ∧
        ∑ σ, bornPure psi σ * val σ = (expectation psi (neighbourOpenOp c)).re) :=
  C08_pure_states _ (fun σ => (C08_rbm_psi_ne_zero am am σ).1) c

/-- **`SigmaY` on a real wavefunction is identically zero, sample by sample** (late theorem): if `ψ` has zero imaginary part
everywhere (e.g. `PositiveWaveFunction`), every numerator `ψ(σ^{(i)})·(i·s_i)` is purely imaginary and the denominator `ψ(σ)` is
real, so the real part `SigmaY.apply` keeps is exactly `0` for every sample (also where `ψ σ = 0`: the model's real division by zero
gives `0`; the float code gives `nan` there — not reachable for an RBM state, `C08_rbm_psi_ne_zero`). -/
theorem C08_sigmaY_real_state_zero (psi : Cfg n → C ℝ) (hreal : ∀ σ, (psi σ).2 = 0) (σ : Cfg n) :
    sigmaYApply (ImpState.pure psi) false σ = 0 := by
  have hre : (Obs.toC (C.div (C.sum n (fun i => C.mul ((ImpState.pure psi).numer (flipSpin i σ) σ) (0, spin (σ i))))
      ((ImpState.pure psi).denom σ))).re = 0 := by
    rw [Obs.toC_div, Obs.toC_sum, Complex.div_re]
    have h1 : (∑ i, Obs.toC (C.mul ((ImpState.pure psi).numer (flipSpin i σ) σ) (0, spin (σ i)))).re = 0 := by
      rw [Complex.re_sum]
      refine Finset.sum_eq_zero (fun i _ => ?_)
      simp [ImpState.pure, Obs.toC, hreal, C.mul]
    have h2 : (Obs.toC ((ImpState.pure psi).denom σ)).im = 0 := by
      simp [ImpState.pure, Obs.toC, hreal]
    rw [h1, h2]; simp
  have : (C.div (C.sum n (fun i => C.mul ((ImpState.pure psi).numer (flipSpin i σ) σ) (0, spin (σ i))))
      ((ImpState.pure psi).denom σ)).1 = 0 := hre
  simp only [sigmaYApply, absIf, this]
  simp

/-- … hence for the positive RBM wavefunction every `SigmaY` sample value is `0` and `Re ⟨ψ|M_Y|ψ⟩/⟨ψ|ψ⟩ = 0` (from the
estimator theorem `C08_pure_rbm_pos`, clause 2: the exact average of the zero function). -/
theorem C08_sigmaY_pos_zero {hid : ℕ} (am : RBM ℝ n hid) :
    let psi : Cfg n → C ℝ := fun σ => Wave.psiPos am (fun j => bit (σ j))
    (∀ σ, sigmaYApply (ImpState.pure psi) false σ = 0) ∧ (expectation psi (magnetOp pauliY)).re = 0 := by
  intro psi
  have h0 : ∀ σ, sigmaYApply (ImpState.pure psi) false σ = 0 := C08_sigmaY_real_state_zero psi (fun _ => rfl)
  refine ⟨h0, ?_⟩
  rw [← (C08_pure_rbm_pos am 1).2.1]
  exact Finset.sum_eq_zero (fun σ _ => mul_eq_zero_of_right _ (h0 σ))



/-! ### Composition with the sampler (C05) and the streaming statistics (C13): unbiased ON THE SAMPLES THE LIBRARY DRAWS

The theorems above average `apply` over the EXACT distribution `p`.  The library never sees `p`: it draws samples with the
block-Gibbs sampler of property C05 and averages with the streaming statistics of property C13.  This section composes the
three: `p` (= `bornPure ψ` / `bornMixed`, = the distribution the state reports, normalised) is invariant under the `k`-step
kernel of the MODEL sampler (`C05_invariant_k`), hence for a chain started from `p` the expectation — under
`Prog.expect (gibbsSteps k ·)`, the law of the sampler the C05 driver replays — of ANY function of the state after `k` steps is
its `p`-average (`C08_unbiased_stationary*`, clause 1), in particular `tr(ρ̂ O)` for the five observables; and the expectation of the
MEAN that `ObservableBase.statistics` reports (`C13_statistics_one_pass` ∘ the threaded loop `Stats.drawsProg` over `T` draws of
`B` independent chains with the schedule `[burn_in, steps, …]`) is `tr(ρ̂ O)` as well, whatever `burn_in`, `steps`, `num_samples`
are (`C08_unbiased_statistics*`).
NOT proved (and not claimed): convergence from an arbitrary start.  `sample`/`statistics` without `initial_state` start from
fair coins (`C05_sample_start`), which is not `p`; that the `k`-step law then approaches `p` as `k → ∞` (ergodicity: the kernel
is strictly positive, `C05_kernel_pos`) and at which rate is not formalised. -/
section sampler
open Prog Stats
variable {hid a : ℕ}

theorem born_cplx_eq (am ph : RBM ℝ n hid) (σ : Cfg n) :
    bornPure (fun σ => Wave.psiCplx am ph (fun j => bit (σ j))) σ
      = C05.rbmPi am 1 σ / ∑ τ, C05.rbmPi am 1 τ := by
  have h : ∀ τ : Cfg n, C.normSq (Wave.psiCplx am ph (fun j => bit (τ j))) = C05.rbmPi am 1 τ := by
    intro τ
    have := C01_normSq_psi_complex am ph (fun j => bit (τ j))
    simp only [pow_two] at this
    exact this
  simp only [bornPure, h]

theorem born_pos_eq (am : RBM ℝ n hid) (σ : Cfg n) :
    bornPure (fun σ => Wave.psiPos am (fun j => bit (σ j))) σ
      = C05.rbmPi am 1 σ / ∑ τ, C05.rbmPi am 1 τ := by
  have h : ∀ τ : Cfg n, C.normSq (Wave.psiPos am (fun j => bit (τ j))) = C05.rbmPi am 1 τ := by
    intro τ
    have := C01_normSq_psi_positive am (fun j => bit (τ j))
    simp only [pow_two] at this
    exact this
  simp only [bornPure, h]

theorem born_mixed_eq (am : PRBM ℝ n hid a) (σ : Cfg n) :
    bornMixed (rbmProb am) σ = C05.prbmPi am 1 σ / ∑ τ, C05.prbmPi am 1 τ := rfl

theorem rbmPi_pos (am : RBM ℝ n hid) (σ : Cfg n) : 0 < C05.rbmPi am 1 σ := by
  simp only [C05.rbmPi, Wave.probability, transc_exp, div_one]; exact Real.exp_pos _

theorem prbmPi_pos (am : PRBM ℝ n hid a) (σ : Cfg n) : 0 < C05.prbmPi am 1 σ := by
  simp only [C05.prbmPi, Density.probability, transc_exp, div_one]; exact Real.exp_pos _

theorem hat_sum_one (w : Cfg n → ℝ) (hw : ∀ σ, 0 < w σ) : ∑ σ, w σ / ∑ τ, w τ = 1 := by
  rw [← Finset.sum_div]
  exact div_self (Finset.sum_pos (fun σ _ => hw σ) Finset.univ_nonempty).ne'

theorem hat_stationary (w : Cfg n → ℝ) (prog : Cfg n → Prog ℝ (Cfg n))
    (h : ∀ x, ∑ v, w v * (prog v).law x = w x) (x : Cfg n) :
    ∑ v, (w v / ∑ τ, w τ) * (prog v).law x = w x / ∑ τ, w τ := by
  simp only [div_mul_eq_mul_div]
  rw [← Finset.sum_div, h]

/-- **the exact sampling distribution is stationary for the `k`-step sampler** (C05_invariant_k, in the normalised form the
estimator theorems use), for the three state types; each is a probability distribution. -/
theorem C08_born_stationary (am ph : RBM ℝ n hid) (q : PRBM ℝ n hid a) (k : ℕ) (w : Cfg n) :
    (∑ v, bornPure (fun σ => Wave.psiCplx am ph (fun j => bit (σ j))) v * (am.gibbsSteps k v).law w
        = bornPure (fun σ => Wave.psiCplx am ph (fun j => bit (σ j))) w)
    ∧ (∑ v, bornPure (fun σ => Wave.psiPos am (fun j => bit (σ j))) v * (am.gibbsSteps k v).law w
        = bornPure (fun σ => Wave.psiPos am (fun j => bit (σ j))) w)
    ∧ (∑ v, bornMixed (rbmProb q) v * (q.gibbsSteps k v).law w = bornMixed (rbmProb q) w)
    ∧ (∑ σ, bornPure (fun σ => Wave.psiCplx am ph (fun j => bit (σ j))) σ = 1)
    ∧ (∑ σ, bornPure (fun σ => Wave.psiPos am (fun j => bit (σ j))) σ = 1)
    ∧ (∑ σ, bornMixed (rbmProb q) σ = 1) := by
  have h1 : ∀ x, ∑ v, C05.rbmPi am 1 v * (am.gibbsSteps k v).law x = C05.rbmPi am 1 x := fun x =>
    (C05.C05_invariant_k_law am q 1 k x).1
  have h2 : ∀ x, ∑ v, C05.prbmPi q 1 v * (q.gibbsSteps k v).law x = C05.prbmPi q 1 x := fun x =>
    (C05.C05_invariant_k_law am q 1 k x).2
  simp only [born_cplx_eq, born_pos_eq, born_mixed_eq]
  exact ⟨hat_stationary _ _ h1 w, hat_stationary _ _ h1 w, hat_stationary _ _ h2 w,
    hat_sum_one _ (rbmPi_pos am), hat_sum_one _ (rbmPi_pos am), hat_sum_one _ (prbmPi_pos q)⟩

/-- **(a) unbiased on a stationary chain, complex wavefunction.**  Start state `v₀ ~ p = |ψ|²/Σ|ψ|²`, then `k` passes of the
amplitude network's block-Gibbs sampler (what `sample`/`gibbs_steps` run): for EVERY `k` the expected value of ANY per-sample
function of the resulting state is its exact `p`-average; for the five observables it is `⟨ψ|O|ψ⟩/⟨ψ|ψ⟩`. -/
theorem C08_unbiased_stationary (am ph : RBM ℝ n hid) (k c : ℕ) :
    let psi : Cfg n → C ℝ := fun σ => Wave.psiCplx am ph (fun j => bit (σ j))
    let E : (Cfg n → ℝ) → ℝ := fun f => ∑ v₀, bornPure psi v₀ * (am.gibbsSteps k v₀).expect f
    (∀ f, E f = ∑ σ, bornPure psi σ * f σ)
    ∧ (E (fun σ => sigmaXApply (ImpState.pure psi) false σ) = (expectation psi (magnetOp pauliX)).re)
    ∧ (E (fun σ => sigmaYApply (ImpState.pure psi) false σ) = (expectation psi (magnetOp pauliY)).re)
    ∧ (0 < n → E (fun σ => sigmaZApply false σ) = (expectation psi (magnetOp pauliZ)).re)
    ∧ (E (fun σ => neighbourPeriodicApply c σ) = (expectation psi (neighbourPeriodicOp c)).re)
    ∧ (1 ≤ c → ∃ val : Cfg n → ℝ, (∀ σ, neighbourOpenApply c σ = .ok (val σ)) ∧
        E val = (expectation psi (neighbourOpenOp c)).re) := by
  intro psi E
  have hE : ∀ f, E f = ∑ σ, bornPure psi σ * f σ := fun f =>
    Prog.expect_stationary (bornPure psi) (am.gibbsSteps k)
      (fun w => (C08_born_stationary am ph (⟨fun _ _ => 0, fun _ _ => 0, fun _ => 0, fun _ => 0, fun _ => 0⟩ :
        PRBM ℝ n hid 0) k w).1) f
  obtain ⟨h1, h2, h3, h4, h5⟩ := C08_pure_rbm am ph c
  refine ⟨hE, (hE _).trans h1, (hE _).trans h2, fun hn => (hE _).trans (h3 hn), (hE _).trans h4, fun hc => ?_⟩
  obtain ⟨val, hv, he⟩ := h5 hc
  exact ⟨val, hv, (hE _).trans he⟩

/-- … positive wavefunction. -/
theorem C08_unbiased_stationary_pos (am : RBM ℝ n hid) (k c : ℕ) :
    let psi : Cfg n → C ℝ := fun σ => Wave.psiPos am (fun j => bit (σ j))
    let E : (Cfg n → ℝ) → ℝ := fun f => ∑ v₀, bornPure psi v₀ * (am.gibbsSteps k v₀).expect f
    (∀ f, E f = ∑ σ, bornPure psi σ * f σ)
    ∧ (E (fun σ => sigmaXApply (ImpState.pure psi) false σ) = (expectation psi (magnetOp pauliX)).re)
    ∧ (E (fun σ => sigmaYApply (ImpState.pure psi) false σ) = (expectation psi (magnetOp pauliY)).re)
    ∧ (0 < n → E (fun σ => sigmaZApply false σ) = (expectation psi (magnetOp pauliZ)).re)
    ∧ (E (fun σ => neighbourPeriodicApply c σ) = (expectation psi (neighbourPeriodicOp c)).re)
    ∧ (1 ≤ c → ∃ val : Cfg n → ℝ, (∀ σ, neighbourOpenApply c σ = .ok (val σ)) ∧
        E val = (expectation psi (neighbourOpenOp c)).re) := by
  intro psi E
  have hE : ∀ f, E f = ∑ σ, bornPure psi σ * f σ := fun f =>
    Prog.expect_stationary (bornPure psi) (am.gibbsSteps k)
      (fun w => (C08_born_stationary am am (⟨fun _ _ => 0, fun _ _ => 0, fun _ => 0, fun _ => 0, fun _ => 0⟩ :
        PRBM ℝ n hid 0) k w).2.1) f
  obtain ⟨h1, h2, h3, h4, h5⟩ := C08_pure_rbm_pos am c
  refine ⟨hE, (hE _).trans h1, (hE _).trans h2, fun hn => (hE _).trans (h3 hn), (hE _).trans h4, fun hc => ?_⟩
  obtain ⟨val, hv, he⟩ := h5 hc
  exact ⟨val, hv, (hE _).trans he⟩

/-- … density matrix (purification RBM; the sampler is the three-block pass `h, a | v` then `v | h, a` of the amplitude
network): expected value `Re tr(ρ̂ O)`, no hypotheses. -/
theorem C08_unbiased_stationary_mixed (am ph : PRBM ℝ n hid a) (k c : ℕ) :
    let S := ImpState.mixed (rbmRho am ph) (rbmProb am)
    let R := normalised (dmMixed (rbmRho am ph))
    let E : (Cfg n → ℝ) → ℝ := fun f => ∑ v₀, bornMixed (rbmProb am) v₀ * (am.gibbsSteps k v₀).expect f
    (∀ f, E f = ∑ σ, bornMixed (rbmProb am) σ * f σ)
    ∧ (E (fun σ => sigmaXApply S false σ) = (trOp R (magnetOp pauliX)).re)
    ∧ (E (fun σ => sigmaYApply S false σ) = (trOp R (magnetOp pauliY)).re)
    ∧ (0 < n → E (fun σ => sigmaZApply false σ) = (trOp R (magnetOp pauliZ)).re)
    ∧ (E (fun σ => neighbourPeriodicApply c σ) = (trOp R (neighbourPeriodicOp c)).re)
    ∧ (1 ≤ c → ∃ val : Cfg n → ℝ, (∀ σ, neighbourOpenApply c σ = .ok (val σ)) ∧
        E val = (trOp R (neighbourOpenOp c)).re) := by
  intro S R E
  have hE : ∀ f, E f = ∑ σ, bornMixed (rbmProb am) σ * f σ := fun f =>
    Prog.expect_stationary (bornMixed (rbmProb am)) (am.gibbsSteps k)
      (fun w => (C08_born_stationary (⟨fun _ _ => 0, fun _ => 0, fun _ => 0⟩ : RBM ℝ n hid)
        ⟨fun _ _ => 0, fun _ => 0, fun _ => 0⟩ am k w).2.2.1) f
  obtain ⟨h1, h2, h3, h4, h5⟩ := C08_mixed_rbm am ph c
  refine ⟨hE, (hE _).trans h1, (hE _).trans h2, fun hn => (hE _).trans (h3 hn), (hE _).trans h4, fun hc => ?_⟩
  obtain ⟨val, hv, he⟩ := h5 hc
  exact ⟨val, hv, (hE _).trans he⟩

/-! #### (b) the mean reported by `statistics` -/

/-- an observable evaluated on a batch of `B` chain states: one value per chain, in row order (for `SigmaX`/`SigmaY` this is what
the heap runs return, `C08_no_mutation`; `SigmaZ`/`NeighbourInteraction` are row-wise by construction) -/
def batchVals {B : ℕ} (f : Cfg n → ℝ) (st : Fin B → Cfg n) : List ℝ := List.ofFn (fun b => f (st b))

theorem mean_batchVals {B : ℕ} (f : Cfg n → ℝ) (st : Fin B → Cfg n) :
    C13.mean (batchVals f st) = (∑ b, f (st b)) / B := by
  simp [C13.mean, batchVals, List.sum_ofFn]

/-- **(b) generic.**  `B ≥ 1` independent chains whose single-chain `k`-step programs `stepK k` leave the probability
distribution `p` invariant, batched as `stepKB k` (product law), every chain started from `p`: for every `num_samples ≥ 1`,
`burn_in`, `steps`, with `T = ⌈num_samples / B⌉` draws — (i) on every execution `statistics` returns the one-pass statistics of the
`T·B` values, the sampler having been called with `k = [burn_in, steps, …, steps]`, and (ii) the expectation of the reported MEAN
over the joint law of all `T` draws of all `B` chains is the exact `p`-average of the per-sample value. -/
theorem C08_statistics_mean_generic (p : Cfg n → ℝ) (hp : ∑ σ, p σ = 1)
    (stepK : ℕ → Cfg n → Prog ℝ (Cfg n)) (B : ℕ)
    (stepKB : ℕ → (Fin B → Cfg n) → Prog ℝ (Fin B → Cfg n))
    (hlaw : ∀ k vs ws, (stepKB k vs).law ws = ∏ b, (stepK k (vs b)).law (ws b))
    (hinv : ∀ k w, ∑ v, p v * (stepK k v).law w = p w)
    (f : Cfg n → ℝ) (hB : 1 ≤ B) (ns nc burnIn steps T : ℕ) (hns : 1 ≤ ns) (hT : numTimeSteps ns B = .ok T)
    (ow : Bool) (dflt : Fin B → Cfg n) :
    (∀ (s₀ : Fin B → Cfg n) (sts : List (Fin B → Cfg n)), sts.length = T →
        ∃ calls, obsStatistics (recEnv B sts dflt) (batchVals f) ⟨ns, nc, burnIn, steps, some s₀, ow⟩
            = .ok (C13.onePass ((sts.map (batchVals f)).flatten), calls)
          ∧ calls.map (·.k) = burnIn :: List.replicate (T - 1) steps)
    ∧ ∑ vs₀ : Fin B → Cfg n, (∏ b, p (vs₀ b)) *
          (drawsProg stepKB burnIn steps T 0 vs₀).expect (fun sts => C13.mean ((sts.map (batchVals f)).flatten))
        = ∑ σ, p σ * f σ := by
  have hinvB : ∀ k ws, ∑ vs : Fin B → Cfg n, (∏ b, p (vs b)) * (stepKB k vs).law ws = ∏ b, p (ws b) := by
    intro k ws
    simp only [hlaw]
    exact prod_invariant p (fun v w => (stepK k v).law w) (hinv k) ws
  obtain ⟨T', hT', _, _, hrec, hexp⟩ := C13.C13_mean_stationary stepKB (fun vs => ∏ b, p (vs b)) hinvB
    (batchVals f) B hB (by intro st; simp [batchVals]) ns nc burnIn steps hns ow dflt
  have hTT : T' = T := by rw [hT] at hT'; exact (Except.ok.inj hT').symm
  subst hTT
  refine ⟨hrec, hexp.trans ?_⟩
  have hBR : (B : ℝ) ≠ 0 := by positivity
  simp only [mean_batchVals, ← mul_div_assoc, Finset.mul_sum]
  rw [← Finset.sum_div, Finset.sum_comm]
  simp only [sum_prod_marginal1 p hp]
  rw [Finset.sum_const, Finset.card_univ, Fintype.card_fin, nsmul_eq_mul]
  field_simp

/-- the batched sampler of the model is the product of the single-chain samplers (C05_batch_law) -/
theorem gibbsStepsB_law (am : RBM ℝ n hid) (q : PRBM ℝ n hid a) {B : ℕ} (k : ℕ) (vs ws : Fin B → Cfg n) :
    ((am.gibbsStepsB k vs).law ws = ∏ b, (am.gibbsSteps k (vs b)).law (ws b))
    ∧ ((q.gibbsStepsB k vs).law ws = ∏ b, (q.gibbsSteps k (vs b)).law (ws b)) := by
  simp only [C05.C05_batch_law, C05.C05_batch_law_purif, C05.C05_k_step_law, C05.C05_k_step_law_purif, and_self]

/-- **(b) the mean reported by `ObservableBase.statistics` is unbiased, complex wavefunction**: `B ≥ 1` chains started i.i.d.
from `p = |ψ|²/Σ|ψ|²` (the caller's `initial_state`), the loop's sampler calls being the model's batched block-Gibbs program
`gibbsStepsB k` (C05) with `k = burn_in` once and `k = steps` afterwards, `T = ⌈num_samples/B⌉` draws: the expectation of the
reported mean is the exact average for ANY per-sample function, and `⟨ψ|O|ψ⟩/⟨ψ|ψ⟩` for the five observables. -/
theorem C08_unbiased_statistics (am ph : RBM ℝ n hid) (c B : ℕ) (hB : 1 ≤ B) (ns burnIn steps T : ℕ) (hns : 1 ≤ ns)
    (hT : numTimeSteps ns B = .ok T) :
    let psi : Cfg n → C ℝ := fun σ => Wave.psiCplx am ph (fun j => bit (σ j))
    let E : (Cfg n → ℝ) → ℝ := fun f => ∑ vs₀ : Fin B → Cfg n, (∏ b, bornPure psi (vs₀ b)) *
      (drawsProg (fun k => am.gibbsStepsB k) burnIn steps T 0 vs₀).expect
        (fun sts => C13.mean ((sts.map (batchVals f)).flatten))
    (∀ f, E f = ∑ σ, bornPure psi σ * f σ)
    ∧ (E (fun σ => sigmaXApply (ImpState.pure psi) false σ) = (expectation psi (magnetOp pauliX)).re)
    ∧ (E (fun σ => sigmaYApply (ImpState.pure psi) false σ) = (expectation psi (magnetOp pauliY)).re)
    ∧ (0 < n → E (fun σ => sigmaZApply false σ) = (expectation psi (magnetOp pauliZ)).re)
    ∧ (E (fun σ => neighbourPeriodicApply c σ) = (expectation psi (neighbourPeriodicOp c)).re)
    ∧ (1 ≤ c → ∃ val : Cfg n → ℝ, (∀ σ, neighbourOpenApply c σ = .ok (val σ)) ∧
        E val = (expectation psi (neighbourOpenOp c)).re) := by
  intro psi E
  have q0 : PRBM ℝ n hid 0 := ⟨fun _ _ => 0, fun _ _ => 0, fun _ => 0, fun _ => 0, fun _ => 0⟩
  have hE : ∀ f, E f = ∑ σ, bornPure psi σ * f σ := fun f =>
    (C08_statistics_mean_generic (bornPure psi) (C08_born_stationary am ph q0 0 (fun _ => false)).2.2.2.1
      (fun k => am.gibbsSteps k) B (fun k => am.gibbsStepsB k) (fun k vs ws => (gibbsStepsB_law am q0 k vs ws).1)
      (fun k w => (C08_born_stationary am ph q0 k w).1) f hB ns 0 burnIn steps T hns hT false (fun _ _ => false)).2
  obtain ⟨h1, h2, h3, h4, h5⟩ := C08_pure_rbm am ph c
  refine ⟨hE, (hE _).trans h1, (hE _).trans h2, fun hn => (hE _).trans (h3 hn), (hE _).trans h4, fun hc => ?_⟩
  obtain ⟨val, hv, he⟩ := h5 hc
  exact ⟨val, hv, (hE _).trans he⟩

/-- … density matrix: the expectation of the mean reported by `statistics` is `Re tr(ρ̂ O)`. -/
theorem C08_unbiased_statistics_mixed (am ph : PRBM ℝ n hid a) (c B : ℕ) (hB : 1 ≤ B) (ns burnIn steps T : ℕ)
    (hns : 1 ≤ ns) (hT : numTimeSteps ns B = .ok T) :
    let S := ImpState.mixed (rbmRho am ph) (rbmProb am)
    let R := normalised (dmMixed (rbmRho am ph))
    let E : (Cfg n → ℝ) → ℝ := fun f => ∑ vs₀ : Fin B → Cfg n, (∏ b, bornMixed (rbmProb am) (vs₀ b)) *
      (drawsProg (fun k => am.gibbsStepsB k) burnIn steps T 0 vs₀).expect
        (fun sts => C13.mean ((sts.map (batchVals f)).flatten))
    (∀ f, E f = ∑ σ, bornMixed (rbmProb am) σ * f σ)
    ∧ (E (fun σ => sigmaXApply S false σ) = (trOp R (magnetOp pauliX)).re)
    ∧ (E (fun σ => sigmaYApply S false σ) = (trOp R (magnetOp pauliY)).re)
    ∧ (0 < n → E (fun σ => sigmaZApply false σ) = (trOp R (magnetOp pauliZ)).re)
    ∧ (E (fun σ => neighbourPeriodicApply c σ) = (trOp R (neighbourPeriodicOp c)).re)
    ∧ (1 ≤ c → ∃ val : Cfg n → ℝ, (∀ σ, neighbourOpenApply c σ = .ok (val σ)) ∧
        E val = (trOp R (neighbourOpenOp c)).re) := by
  intro S R E
  have r0 : RBM ℝ n hid := ⟨fun _ _ => 0, fun _ => 0, fun _ => 0⟩
  have hE : ∀ f, E f = ∑ σ, bornMixed (rbmProb am) σ * f σ := fun f =>
    (C08_statistics_mean_generic (bornMixed (rbmProb am)) (C08_born_stationary r0 r0 am 0 (fun _ => false)).2.2.2.2.2
      (fun k => am.gibbsSteps k) B (fun k => am.gibbsStepsB k) (fun k vs ws => (gibbsStepsB_law r0 am k vs ws).2)
      (fun k w => (C08_born_stationary r0 r0 am k w).2.2.1) f hB ns 0 burnIn steps T hns hT false (fun _ _ => false)).2
  obtain ⟨h1, h2, h3, h4, h5⟩ := C08_mixed_rbm am ph c
  refine ⟨hE, (hE _).trans h1, (hE _).trans h2, fun hn => (hE _).trans (h3 hn), (hE _).trans h4, fun hc => ?_⟩
  obtain ⟨val, hv, he⟩ := h5 hc
  exact ⟨val, hv, (hE _).trans he⟩

/-- **(b) … positive wavefunction** (late theorem; the instance the extension round left open): the same statement as
`C08_unbiased_statistics` for `ψ_λ = sqrt(p_λ)` (`PositiveWaveFunction`), i.e. `C08_statistics_mean_generic` instantiated with
`C08_born_stationary` clause 2/5 and `gibbsStepsB_law`, then `C08_pure_rbm_pos`.  `B ≥ 1` chains started i.i.d. from
`p = ψ_λ²/Σψ_λ²`, threaded through `gibbsStepsB k` with `k = [burn_in, steps, …]`, `T = ⌈num_samples/B⌉` draws: the expectation of
the mean `statistics` reports is the exact `p`-average of ANY per-sample function, and `⟨ψ|O|ψ⟩/⟨ψ|ψ⟩` for `SigmaX`, `SigmaY`,
`SigmaZ`, `NeighbourInteraction` periodic / open.  (For `SigmaY` the right-hand side is what `C08_pure_states` gives, the real part
of `⟨ψ|Y|ψ⟩/⟨ψ|ψ⟩`; that both sides vanish for the real positive `ψ` is `C08_sigmaY_pos_zero`.) -/
theorem C08_unbiased_statistics_pos (am : RBM ℝ n hid) (c B : ℕ) (hB : 1 ≤ B) (ns burnIn steps T : ℕ) (hns : 1 ≤ ns)
    (hT : numTimeSteps ns B = .ok T) :
    let psi : Cfg n → C ℝ := fun σ => Wave.psiPos am (fun j => bit (σ j))
    let E : (Cfg n → ℝ) → ℝ := fun f => ∑ vs₀ : Fin B → Cfg n, (∏ b, bornPure psi (vs₀ b)) *
      (drawsProg (fun k => am.gibbsStepsB k) burnIn steps T 0 vs₀).expect
        (fun sts => C13.mean ((sts.map (batchVals f)).flatten))
    (∀ f, E f = ∑ σ, bornPure psi σ * f σ)
    ∧ (E (fun σ => sigmaXApply (ImpState.pure psi) false σ) = (expectation psi (magnetOp pauliX)).re)
    ∧ (E (fun σ => sigmaYApply (ImpState.pure psi) false σ) = (expectation psi (magnetOp pauliY)).re)
    ∧ (0 < n → E (fun σ => sigmaZApply false σ) = (expectation psi (magnetOp pauliZ)).re)
    ∧ (E (fun σ => neighbourPeriodicApply c σ) = (expectation psi (neighbourPeriodicOp c)).re)
    ∧ (1 ≤ c → ∃ val : Cfg n → ℝ, (∀ σ, neighbourOpenApply c σ = .ok (val σ)) ∧
        E val = (expectation psi (neighbourOpenOp c)).re) := by
  intro psi E
  have q0 : PRBM ℝ n hid 0 := ⟨fun _ _ => 0, fun _ _ => 0, fun _ => 0, fun _ => 0, fun _ => 0⟩
  have hE : ∀ f, E f = ∑ σ, bornPure psi σ * f σ := fun f =>
    (C08_statistics_mean_generic (bornPure psi) (C08_born_stationary am am q0 0 (fun _ => false)).2.2.2.2.1
      (fun k => am.gibbsSteps k) B (fun k => am.gibbsStepsB k) (fun k vs ws => (gibbsStepsB_law am q0 k vs ws).1)
      (fun k w => (C08_born_stationary am am q0 k w).2.1) f hB ns 0 burnIn steps T hns hT false (fun _ _ => false)).2
  obtain ⟨h1, h2, h3, h4, h5⟩ := C08_pure_rbm_pos am c
  refine ⟨hE, (hE _).trans h1, (hE _).trans h2, fun hn => (hE _).trans (h3 hn), (hE _).trans h4, fun hc => ?_⟩
  obtain ⟨val, hv, he⟩ := h5 hc
  exact ⟨val, hv, (hE _).trans he⟩

/-- non-vacuity of `C08_unbiased_statistics_pos`: a positive RBM state on two sites (`h = 3`), 3 chains, 7 requested samples
(= 3 draws), burn-in 5, 2 steps between draws, `NeighbourInteraction(periodic_bcs=True, c=1)`. -/
example : let am : RBM ℝ 2 3 := ⟨fun i j => (i.val : ℝ) - j.val + 0.5, fun j => if j = 0 then -1.5 else 2,
      fun i => if i = 0 then 0.7 else -0.3⟩
    let psi : Cfg 2 → C ℝ := fun σ => Wave.psiPos am (fun j => bit (σ j))
    ∑ vs₀ : Fin 3 → Cfg 2, (∏ b, bornPure psi (vs₀ b)) *
      (drawsProg (fun k => am.gibbsStepsB k) 5 2 3 0 vs₀).expect
        (fun sts => C13.mean ((sts.map (batchVals (fun σ => neighbourPeriodicApply 1 σ))).flatten))
      = (expectation psi (neighbourPeriodicOp 1)).re :=
  (C08_unbiased_statistics_pos _ 1 3 (by norm_num) 7 5 2 3 (by norm_num) (by decide)).2.2.2.2.1

/-- non-vacuity: a concrete complex RBM state on two sites (`h = 3 ≠ n`, biases of both signs), 3 chains, 7 requested samples
(= 3 draws), burn-in 5, 2 steps between draws: the expectation of the reported `SigmaY` mean is `⟨Y⟩`. -/
example : let am : RBM ℝ 2 3 := ⟨fun i j => (i.val : ℝ) - j.val + 0.5, fun j => if j = 0 then -1.5 else 2,
      fun i => if i = 0 then 0.7 else -0.3⟩
    let ph : RBM ℝ 2 3 := ⟨fun i j => 0.25 * (i.val : ℝ) + j.val, fun j => if j = 0 then 1 else -2,
      fun i => if i = 0 then -0.4 else 0.9⟩
    let psi : Cfg 2 → C ℝ := fun σ => Wave.psiCplx am ph (fun j => bit (σ j))
    ∑ vs₀ : Fin 3 → Cfg 2, (∏ b, bornPure psi (vs₀ b)) *
      (drawsProg (fun k => am.gibbsStepsB k) 5 2 3 0 vs₀).expect
        (fun sts => C13.mean ((sts.map (batchVals (fun σ => sigmaYApply (ImpState.pure psi) false σ))).flatten))
      = (expectation psi (magnetOp pauliY)).re :=
  (C08_unbiased_statistics _ _ 1 3 (by norm_num) 7 5 2 3 (by norm_num) (by decide)).2.2.1

/-- non-vacuity of (a): the same state, 4 Gibbs passes from a stationary start, `SigmaX`. -/
example : let am : RBM ℝ 2 3 := ⟨fun i j => (i.val : ℝ) - j.val + 0.5, fun j => if j = 0 then -1.5 else 2,
      fun i => if i = 0 then 0.7 else -0.3⟩
    let ph : RBM ℝ 2 3 := ⟨fun i j => 0.25 * (i.val : ℝ) + j.val, fun j => if j = 0 then 1 else -2,
      fun i => if i = 0 then -0.4 else 0.9⟩
    let psi : Cfg 2 → C ℝ := fun σ => Wave.psiCplx am ph (fun j => bit (σ j))
    ∑ v₀, bornPure psi v₀ * (am.gibbsSteps 4 v₀).expect (fun σ => sigmaXApply (ImpState.pure psi) false σ)
      = (expectation psi (magnetOp pauliX)).re :=
  (C08_unbiased_stationary _ _ 4 1).2.1

/-! #### (c) `absolute=True` (late theorem) -/

/-- stationary expectation of the `absolute=True` values, any stationary kernel, any state: by `C08_real` the per-sample value
is the pointwise `|·|` of the signed one, so this is `Prog.expect_stationary` with `f = |apply|` -/
theorem absolute_stationary (p : Cfg n → ℝ) (prog : Cfg n → Prog ℝ (Cfg n))
    (hinv : ∀ w, ∑ v, p v * (prog v).law w = p w) (S : ImpState ℝ n) :
    (∑ v₀, p v₀ * (prog v₀).expect (fun σ => sigmaXApply S true σ) = ∑ σ, p σ * |sigmaXApply S false σ|)
    ∧ (∑ v₀, p v₀ * (prog v₀).expect (fun σ => sigmaYApply S true σ) = ∑ σ, p σ * |sigmaYApply S false σ|)
    ∧ (∑ v₀, p v₀ * (prog v₀).expect (fun σ => sigmaZApply true σ) = ∑ σ, p σ * |sigmaZApply false σ|) :=
  ⟨Prog.expect_stationary p prog hinv _, Prog.expect_stationary p prog hinv _, Prog.expect_stationary p prog hinv _⟩

/-- **(c) `absolute=True` on a stationary chain**: for `SigmaX`, `SigmaY`, `SigmaZ` constructed with `absolute=True` the
per-sample value is `|value with absolute=False|` (`C08_real`, `C08_flag_absolute`), so after `k` sampler passes from a start
drawn from the exact sampling distribution `p` the expected value is `Σ_σ p(σ)·|apply(σ)|` — the corollary of clause (i) of
`C08_unbiased_stationary` / `_pos` / `_mixed` (any `f`) with `f = |apply|`, for the complex wavefunction, the positive
wavefunction and the density matrix.  This is ALL the property states about `absolute=True`.  It is NOT `tr(ρ̂|O|)` in general:
`|M_X| = 1` on one qubit (`X² = 1`), so `tr(ρ̂|X|) = 1` for every state, while for `ψ = (1, 2)` the samples give
`1/5·2 + 4/5·1/2 = 4/5` (the `example` below).  (For the diagonal `SigmaZ` the two coincide; nothing is claimed either way.)
The content beyond `C08_real` is by stationarity only (`Prog.expect_stationary` + `C08_born_stationary`). -/
theorem C08_unbiased_absolute (am ph : RBM ℝ n hid) (qa qp : PRBM ℝ n hid a) (k : ℕ) :
    let psiC : Cfg n → C ℝ := fun σ => Wave.psiCplx am ph (fun j => bit (σ j))
    let psiP : Cfg n → C ℝ := fun σ => Wave.psiPos am (fun j => bit (σ j))
    let SM := ImpState.mixed (rbmRho qa qp) (rbmProb qa)
    let EC : (Cfg n → ℝ) → ℝ := fun f => ∑ v₀, bornPure psiC v₀ * (am.gibbsSteps k v₀).expect f
    let EP : (Cfg n → ℝ) → ℝ := fun f => ∑ v₀, bornPure psiP v₀ * (am.gibbsSteps k v₀).expect f
    let EM : (Cfg n → ℝ) → ℝ := fun f => ∑ v₀, bornMixed (rbmProb qa) v₀ * (qa.gibbsSteps k v₀).expect f
    ((EC (fun σ => sigmaXApply (ImpState.pure psiC) true σ) = ∑ σ, bornPure psiC σ * |sigmaXApply (ImpState.pure psiC) false σ|)
      ∧ (EC (fun σ => sigmaYApply (ImpState.pure psiC) true σ)
          = ∑ σ, bornPure psiC σ * |sigmaYApply (ImpState.pure psiC) false σ|)
      ∧ (EC (fun σ => sigmaZApply true σ) = ∑ σ, bornPure psiC σ * |sigmaZApply false σ|))
    ∧ ((EP (fun σ => sigmaXApply (ImpState.pure psiP) true σ) = ∑ σ, bornPure psiP σ * |sigmaXApply (ImpState.pure psiP) false σ|)
      ∧ (EP (fun σ => sigmaYApply (ImpState.pure psiP) true σ)
          = ∑ σ, bornPure psiP σ * |sigmaYApply (ImpState.pure psiP) false σ|)
      ∧ (EP (fun σ => sigmaZApply true σ) = ∑ σ, bornPure psiP σ * |sigmaZApply false σ|))
    ∧ ((EM (fun σ => sigmaXApply SM true σ) = ∑ σ, bornMixed (rbmProb qa) σ * |sigmaXApply SM false σ|)
      ∧ (EM (fun σ => sigmaYApply SM true σ) = ∑ σ, bornMixed (rbmProb qa) σ * |sigmaYApply SM false σ|)
      ∧ (EM (fun σ => sigmaZApply true σ) = ∑ σ, bornMixed (rbmProb qa) σ * |sigmaZApply false σ|)) := by
  intro psiC psiP SM EC EP EM
  exact ⟨absolute_stationary _ _ (fun w => (C08_born_stationary am ph qa k w).1) _,
    absolute_stationary _ _ (fun w => (C08_born_stationary am am qa k w).2.1) _,
    absolute_stationary _ _ (fun w => (C08_born_stationary am ph qa k w).2.2.1) _⟩

/-- `absolute=True` does NOT estimate `tr(ρ̂|O|)`: one qubit, `ψ = (ψ(0), ψ(1)) = (1, 2)` (nowhere zero, so `C08_represents_pure`
applies), `SigmaX`: `|X| = 1`, `tr(ρ̂|X|) = 1`, but the exact average of the `absolute=True` values is `4/5`. -/
example : let psi : Cfg 1 → C ℝ := fun σ => if σ 0 then (2, 0) else (1, 0)
    (∀ σ, psi σ ≠ (0, 0))
    ∧ ∑ σ, bornPure psi σ * |sigmaXApply (ImpState.pure psi) false σ| = 4 / 5 := by
  intro psi
  refine ⟨fun σ => by simp only [psi]; split <;> simp, ?_⟩
  have hsum : ∀ g : Cfg 1 → ℝ, ∑ τ, g τ = g (fun _ => true) + g (fun _ => false) := by
    intro g
    rw [← (Equiv.funUnique (Fin 1) Bool).symm.sum_comp, Fintype.sum_bool]
    rfl
  simp only [hsum, bornPure]
  simp [sigmaXApply, ImpState.pure, psi, C.sum, C.div, C.normSq, absIf, flipSpin, Fin.foldl_succ, C.add, C.zero, C.mul,
    C.conj]
  norm_num

/-- non-vacuity of `C08_unbiased_absolute`: the concrete two-site complex state, 4 passes, `SigmaY(absolute=True)`. -/
example : let am : RBM ℝ 2 3 := ⟨fun i j => (i.val : ℝ) - j.val + 0.5, fun j => if j = 0 then -1.5 else 2,
      fun i => if i = 0 then 0.7 else -0.3⟩
    let ph : RBM ℝ 2 3 := ⟨fun i j => 0.25 * (i.val : ℝ) + j.val, fun j => if j = 0 then 1 else -2,
      fun i => if i = 0 then -0.4 else 0.9⟩
    let psi : Cfg 2 → C ℝ := fun σ => Wave.psiCplx am ph (fun j => bit (σ j))
    ∑ v₀, bornPure psi v₀ * (am.gibbsSteps 4 v₀).expect (fun σ => sigmaYApply (ImpState.pure psi) true σ)
      = ∑ σ, bornPure psi σ * |sigmaYApply (ImpState.pure psi) false σ| :=
  (C08_unbiased_absolute _ _ (⟨fun _ _ => 0, fun _ _ => 0, fun _ => 0, fun _ => 0, fun _ => 0⟩ : PRBM ℝ 2 3 0)
    ⟨fun _ _ => 0, fun _ _ => 0, fun _ => 0, fun _ => 0, fun _ => 0⟩ 4).1.2.1

end sampler

/-! ### Constructor flags as the objects the caller passed -/

/-- **`absolute` as an object** (documented as `bool`; `1`, `numpy.bool_`, 0-dim bool arrays / tensors are what callers also pass, and
the attribute may be reassigned): the observable stores the object and `apply` tests its TRUTH VALUE, so for every object the values
are the pointwise absolute values of the signed estimator exactly when the object is truthy, the signed estimator itself otherwise,
and the caller's tensors are untouched either way.  (In the model of a slip that tests `self.absolute is True` the first three clauses
fail for `PyFlag.npBool true`.) -/
theorem C08_flag_absolute (S : ImpState ℝ n) (absolute : PyFlag) (h : THeap n) (sid : ℕ) (hs : sid < h.next) :
    (sigmaXRunF S absolute h sid).2
        = (h.cells sid).map (fun σ => if absolute.truthy then |sigmaXApply S false σ| else sigmaXApply S false σ)
      ∧ (sigmaYRunF S absolute h sid).2
        = (h.cells sid).map (fun σ => if absolute.truthy then |sigmaYApply S false σ| else sigmaYApply S false σ)
      ∧ (∀ σ : Cfg n, (sigmaZApplyF absolute σ : ℝ)
          = if absolute.truthy then |sigmaZApply false σ| else sigmaZApply false σ)
      ∧ (∀ k, k < h.next → (sigmaXRunF S absolute h sid).1.cells k = h.cells k)
      ∧ (∀ k, k < h.next → (sigmaYRunF S absolute h sid).1.cells k = h.cells k) := by
  have hm := C08_no_mutation S absolute.truthy h sid hs
  unfold sigmaXRunF sigmaYRunF sigmaZApplyF
  refine ⟨?_, ?_, ?_, hm.1.1, hm.2.1⟩
  · rw [hm.1.2]; cases absolute.truthy
    · simp
    · simp only [if_true]; exact List.map_congr_left (fun σ _ => (C08_real S σ).1)
  · rw [hm.2.2]; cases absolute.truthy
    · simp
    · simp only [if_true]; exact List.map_congr_left (fun σ _ => (C08_real S σ).2.1)
  · intro σ; cases absolute.truthy
    · simp
    · simp only [if_true]; exact (C08_real S σ).2.2

/-- **`periodic_bcs` as an object**: for every object passed (and every distance `c ≥ 1`) the call does not raise and the estimator is
unbiased for the periodic operator exactly when the object is truthy, for the open-chain operator otherwise. -/
theorem C08_flag_periodic (periodic : PyFlag) (c : ℕ) (hc : 1 ≤ c) {S : ImpState ℝ n} {G : Op n} {p : Cfg n → ℝ}
    (h : Represents S G p) :
    ∃ val : Cfg n → ℝ, (∀ σ, neighbourApplyF periodic c σ = .ok (val σ)) ∧
      ∑ σ, p σ * val σ
        = (trOp (normalised G) (if periodic.truthy then neighbourPeriodicOp c else neighbourOpenOp c)).re := by
  unfold neighbourApplyF
  cases periodic.truthy
  · simpa using C08_neighbour_open c hc h
  · exact ⟨fun σ => neighbourPeriodicApply c σ, fun σ => by simp, by simpa using C08_neighbour_periodic c h⟩

/-- whichever kind of object (`form` 0…4) says `b`: the same estimator as with the singleton -/
theorem C08_flag_any_form (S : ImpState ℝ n) (form : ℕ) (b : Bool) (h : THeap n) (sid : ℕ) (c : ℕ) (σ : Cfg n) :
    sigmaXRunF S (PyFlag.ofBool form b) h sid = sigmaXRun S b h sid
      ∧ sigmaYRunF S (PyFlag.ofBool form b) h sid = sigmaYRun S b h sid
      ∧ (sigmaZApplyF (PyFlag.ofBool form b) σ : ℝ) = sigmaZApply b σ
      ∧ (neighbourApplyF (PyFlag.ofBool form b) c σ : Except PyErr ℝ)
          = if b then .ok (neighbourPeriodicApply c σ) else neighbourOpenApply c σ := by
  unfold sigmaXRunF sigmaYRunF sigmaZApplyF neighbourApplyF
  rw [PyFlag.truthy_ofBool]
  exact ⟨rfl, rfl, rfl, rfl⟩

end C08
end QV.Props
