/-
C08 — Observable estimators are unbiased for the operator they name.

"For each built-in observable (average X, Y and Z magnetisation, c-th neighbour ZZ interaction with
open or periodic boundaries), the average of its per-sample value over the model's exact basis-state
distribution equals the trace of the normalised reconstructed state with the corresponding operator,
for positive, complex and mixed states alike. Evaluating an observable returns one real number per
sample and leaves the sample array unchanged."

Conventions (computational basis indexed by `σ : Fin n → Bool`, site 0 first; a single-site matrix is a
function `(row, column) ↦ ℂ` of the two bit values):
  X = [[0,1],[1,0]],   Y = [[0,−i],[i,0]],   and, following the library's documented spin convention
  0 ↦ −1, 1 ↦ +1 (`to_pm1`),   Z = diag(−1,+1);
  `P_i` = P on site i, identity elsewhere:  P_i(σ,σ') = P(σ_i,σ'_i) · Π_{j≠i} [σ_j = σ'_j];
  M_P = (1/n) Σ_i P_i ;   N_c = (1/n) Σ_{(i,k) : k = i + c} Z_i Z_k   (open: k = i + c as numbers, so only
  i + c < n contribute — nothing at all when c ≥ n; periodic: k = (i + c) mod n).
  tr(R·O) = Σ_{σ,σ'} R(σ,σ') O(σ',σ).
  (With these documented conventions X·Y = −iZ; each estimator matches the operator its own docstring names.
   The Y convention is DERIVED from the code's coefficient `i·to_pm1(σ_i)`, see `C08_sigmaY`.)

States.  The observables see a state only through `importance_sampling_numerator/denominator`
(`ImpState`).  `Represents S G p` says which unnormalised density matrix `G` and which exact sampling
distribution `p` an interface `S` stands for; `C08_represents_pure` (ψ, for positive and complex
wavefunctions: G = |ψ⟩⟨ψ|, p = |ψ|²/Σ|ψ|²) and `C08_represents_mixed` (G = ρ, p = ρ_σσ / tr ρ) establish it for
the two implementations in the library under `ψ σ ≠ 0` resp. `ρ σσ = probability σ ≠ 0` (which C01/C02
give for every RBM state: `|ψ σ|² = ρ σσ = exp(−E(σ)) > 0`).  No Hermiticity of ρ is needed for the
real-part identities; for Hermitian ρ the trace is real (`C08_trace_real`).

Model definitions: QV.Model.Observables (executed against the code by the C08 correspondence check).
-/
import Mathlib.Data.Complex.Basic
import Mathlib.Data.Complex.BigOperators
import Mathlib.Algebra.BigOperators.Field
import QV.Model.Observables
import QV.Model.States
import QV.Lemmas.Observables
import QV.Props.C01

namespace QV.Props
namespace C08
open QV QV.Obs Finset
open scoped ComplexConjugate

variable {n : ℕ}

/-! ### Specification: operators, traces, states (not part of the code) -/

/-- Pauli X = [[0,1],[1,0]] -/
def pauliX (a b : Bool) : ℂ := if a = b then 0 else 1
/-- Pauli Y = [[0,−i],[i,0]] (row/column 0 ≙ bit 0) -/
def pauliY (a b : Bool) : ℂ := if a = b then 0 else if a then Complex.I else -Complex.I
/-- Z = diag(−1,+1): bit 0 ↦ −1, bit 1 ↦ +1 (`to_pm1`) -/
def pauliZ (a b : Bool) : ℂ := if a = b then (if a then 1 else -1) else 0

example : pauliY false true = -Complex.I ∧ pauliY true false = Complex.I ∧ pauliY true true = 0 := by
  simp [pauliY]
example : pauliZ false false = -1 ∧ pauliZ true true = 1 ∧ pauliZ true false = 0 := by
  simp [pauliZ]

/-- an operator on `n` sites as its matrix in the computational basis -/
abbrev Op (n : ℕ) := Cfg n → Cfg n → ℂ

/-- `P_i`: the single-site matrix `P` on site `i` tensored with identities on all other sites -/
def siteOp (P : Bool → Bool → ℂ) (i : Fin n) : Op n :=
  fun σ σ' => if ∀ j, j ≠ i → σ j = σ' j then P (σ i) (σ' i) else 0

/-- operator (matrix) product -/
def opMul (O₁ O₂ : Op n) : Op n := fun σ σ' => ∑ τ, O₁ σ τ * O₂ τ σ'

/-- average magnetisation operator `M_P = (1/n) Σ_i P_i` -/
noncomputable def magnetOp (P : Bool → Bool → ℂ) : Op n := fun σ σ' => (1 / (n : ℂ)) * ∑ i, siteOp P i σ σ'

/-- `N_c` with open boundaries: `(1/n) Σ Z_i Z_k` over the pairs of sites with `k = i + c` -/
noncomputable def neighbourOpenOp (c : ℕ) : Op n := fun σ σ' =>
  (1 / (n : ℂ)) * ∑ i : Fin n, ∑ k : Fin n,
    if k.val = i.val + c then opMul (siteOp pauliZ i) (siteOp pauliZ k) σ σ' else 0

/-- `N_c` with periodic boundaries: pairs with `k = (i + c) mod n` -/
noncomputable def neighbourPeriodicOp (c : ℕ) : Op n := fun σ σ' =>
  (1 / (n : ℂ)) * ∑ i : Fin n, ∑ k : Fin n,
    if k.val = (i.val + c) % n then opMul (siteOp pauliZ i) (siteOp pauliZ k) σ σ' else 0

/-- `tr(R · O)` -/
def trOp (R O : Op n) : ℂ := ∑ σ, ∑ σ', R σ σ' * O σ' σ

/-- `R / tr R` -/
noncomputable def normalised (G : Op n) : Op n := fun σ σ' => G σ σ' / ∑ τ, G τ τ

/-- `|ψ⟩⟨ψ|` for a wavefunction given as real pairs -/
def dmPure (psi : Cfg n → C ℝ) : Op n := fun σ σ' => toC (psi σ) * conj (toC (psi σ'))

/-- the matrix of a mixed state given as real pairs -/
def dmMixed (rho : Cfg n → Cfg n → C ℝ) : Op n := fun σ σ' => toC (rho σ σ')

/-- exact sampling distribution of a pure state: `|ψ σ|² / Σ_τ |ψ τ|²` (= `probability(σ)/Z`, C01) -/
noncomputable def bornPure (psi : Cfg n → C ℝ) (σ : Cfg n) : ℝ :=
  C.normSq (psi σ) / ∑ τ, C.normSq (psi τ)

/-- exact sampling distribution of a mixed state: `probability(σ) / Σ_τ probability(τ)` -/
noncomputable def bornMixed (prob : Cfg n → ℝ) (σ : Cfg n) : ℝ := prob σ / ∑ τ, prob τ

/-- `⟨ψ|O|ψ⟩ / ⟨ψ|ψ⟩` -/
noncomputable def expectation (psi : Cfg n → C ℝ) (O : Op n) : ℂ :=
  (∑ σ, ∑ σ', conj (toC (psi σ)) * O σ σ' * toC (psi σ')) / ((∑ τ, C.normSq (psi τ) : ℝ) : ℂ)

/-- The importance-sampling interface `S` stands for the unnormalised density matrix `G`, sampled with
the exact distribution `p`:  `p σ = G σσ / tr G`,  `G σσ ≠ 0`, and
`numerator(σ', σ) / denominator(σ) = G σ'σ / G σσ`. -/
structure Represents (S : ImpState ℝ n) (G : Op n) (p : Cfg n → ℝ) : Prop where
  born : ∀ σ, (p σ : ℂ) = G σ σ / ∑ τ, G τ τ
  nz : ∀ σ, G σ σ ≠ 0
  ratio : ∀ vp v, toC (S.numer vp v) / toC (S.denom v) = G vp v / G v v

/-! ### The two state implementations -/

/-- **wavefunction states** (positive and complex): `numerator = ψ(σ')`, `denominator = ψ(σ)` represent
`|ψ⟩⟨ψ|` sampled with `|ψ|²/Σ|ψ|²`, provided `ψ` vanishes nowhere. -/
theorem C08_represents_pure (psi : Cfg n → C ℝ) (hψ : ∀ σ, psi σ ≠ (0, 0)) :
    Represents (ImpState.pure psi) (dmPure psi) (bornPure psi) := by
  have hd : ∀ σ, dmPure psi σ σ = ((C.normSq (psi σ) : ℝ) : ℂ) := by
    intro σ; rw [dmPure, Complex.mul_conj, toC_normSq]
  refine ⟨?_, ?_, ?_⟩
  · intro σ
    simp_rw [hd]
    rw [bornPure]; push_cast; rfl
  · intro σ
    have := toC_ne_zero (hψ σ)
    simp only [dmPure]
    exact mul_ne_zero this ((map_ne_zero _).2 this)
  · intro vp v
    have h1 := toC_ne_zero (hψ v)
    have h2 : conj (toC (psi v)) ≠ 0 := (map_ne_zero _).2 h1
    simp only [ImpState.pure, dmPure]
    rw [mul_div_mul_right _ _ h2]

/-- **density-matrix states**: `numerator = ρ(σ', σ)`, `denominator = (probability σ, 0)` represent `ρ`
sampled with `probability/Σ probability`, provided the reported probability is the diagonal of `ρ`
(C02_diagonal) and vanishes nowhere. -/
theorem C08_represents_mixed (rho : Cfg n → Cfg n → C ℝ) (prob : Cfg n → ℝ)
    (hdiag : ∀ σ, rho σ σ = (prob σ, 0)) (hpos : ∀ σ, prob σ ≠ 0) :
    Represents (ImpState.mixed rho prob) (dmMixed rho) (bornMixed prob) := by
  have hd : ∀ σ, dmMixed rho σ σ = ((prob σ : ℝ) : ℂ) := by
    intro σ; rw [dmMixed, hdiag]; rfl
  refine ⟨?_, ?_, ?_⟩
  · intro σ
    simp_rw [hd]
    rw [bornMixed]; push_cast; rfl
  · intro σ; rw [hd]; exact_mod_cast hpos σ
  · intro vp v
    simp only [ImpState.mixed, dmMixed]
    rw [hdiag]

/-- `importance_sampling_weight` is the ratio `G σ'σ / G σσ` (pure: `ψ(σ')/ψ(σ)`). -/
theorem C08_importance_weight {S : ImpState ℝ n} {G : Op n} {p : Cfg n → ℝ} (h : Represents S G p)
    (vp v : Cfg n) : toC (S.weight vp v) = G vp v / G v v := by
  rw [ImpState.weight, toC_div, h.ratio]

theorem C08_importance_weight_pure (psi : Cfg n → C ℝ) (vp v : Cfg n) :
    toC ((ImpState.pure psi).weight vp v) = toC (psi vp) / toC (psi v) := by
  rw [ImpState.weight, toC_div]; rfl

/-- for a pure state the trace with the normalised projector is the expectation value -/
theorem C08_pure_trace_eq_expectation (psi : Cfg n → C ℝ) (O : Op n) :
    trOp (normalised (dmPure psi)) O = expectation psi O := by
  have hT : ∑ τ, dmPure psi τ τ = ((∑ τ, C.normSq (psi τ) : ℝ) : ℂ) := by
    push_cast
    refine Finset.sum_congr rfl (fun τ _ => ?_)
    rw [dmPure, Complex.mul_conj, toC_normSq]
  unfold trOp expectation normalised
  rw [hT, Finset.sum_div, Finset.sum_comm]
  refine Finset.sum_congr rfl (fun σ _ => ?_)
  rw [Finset.sum_div]
  refine Finset.sum_congr rfl (fun σ' _ => ?_)
  simp only [dmPure]
  ring

/-! ### Unbiasedness -/

/-- **SigmaX**: `Σ_σ p(σ)·apply(σ) = Re tr(ρ̂ · M_X)`. -/
theorem C08_sigmaX {S : ImpState ℝ n} {G : Op n} {p : Cfg n → ℝ} (h : Represents S G p) :
    ∑ σ, p σ * sigmaXApply S false σ = (trOp (normalised G) (magnetOp pauliX)).re := by
  have := pauli_estimator S G p (∑ τ, G τ τ) h.born h.nz h.ratio pauliX (by simp [pauliX])
    (fun _ _ => 1) (by intro σ i; cases σ i <;> simp [pauliX])
  simp only [mul_one] at this
  refine Eq.trans ?_ this
  refine Finset.sum_congr rfl (fun σ _ => ?_)
  rw [sigmaXApply_eq]

/-- **SigmaY**: the code multiplies the numerator of the flip at site `i` by `i·to_pm1(σ_i)`, i.e. by
`−i` when `σ_i = 0` and `+i` when `σ_i = 1`; this is the matrix element `Y(σ_i, ¬σ_i)` of
`Y = [[0,−i],[i,0]]`, so `Σ_σ p(σ)·apply(σ) = Re tr(ρ̂ · M_Y)`. -/
theorem C08_sigmaY {S : ImpState ℝ n} {G : Op n} {p : Cfg n → ℝ} (h : Represents S G p) :
    ∑ σ, p σ * sigmaYApply S false σ = (trOp (normalised G) (magnetOp pauliY)).re := by
  have := pauli_estimator S G p (∑ τ, G τ τ) h.born h.nz h.ratio pauliY (by simp [pauliY])
    (fun σ i => toC ((0, spin (σ i)) : C ℝ))
    (by intro σ i; cases σ i <;> simp [pauliY, Complex.ext_iff])
  refine Eq.trans ?_ this
  refine Finset.sum_congr rfl (fun σ _ => ?_)
  rw [sigmaYApply_eq]

theorem pauliZ_offdiag : ∀ a b : Bool, a ≠ b → pauliZ a b = 0 := by
  intro a b h; simp [pauliZ, h]

theorem pauliZ_diag (a : Bool) : pauliZ a a = (((if a then (1 : ℝ) else -1) : ℝ) : ℂ) := by
  cases a <;> simp [pauliZ]

/-- **SigmaZ**: `Σ_σ p(σ)·apply(σ) = Re tr(ρ̂ · M_Z)` with `Z = diag(−1,+1)` (at least one site). -/
theorem C08_sigmaZ (hn : 0 < n) {S : ImpState ℝ n} {G : Op n} {p : Cfg n → ℝ} (h : Represents S G p) :
    ∑ σ, p σ * sigmaZApply false σ = (trOp (normalised G) (magnetOp pauliZ)).re := by
  rw [diag_estimator G p _ h.born (fun σ => sigmaZApply false σ)]
  congr 1
  refine Finset.sum_congr rfl (fun σ _ => Finset.sum_congr rfl (fun σ' _ => ?_))
  unfold normalised magnetOp siteOp
  rw [magnet_diag pauliZ pauliZ_offdiag σ' σ, sigmaZApply_eq hn]
  simp_rw [pauliZ_diag]
  push_cast
  rfl

/-- product `Z_i Z_k` of two single-site Z operators is diagonal with entry `s_i · s_k` -/
theorem zz_entry (i k : Fin n) (σ' σ : Cfg n) :
    opMul (siteOp pauliZ i) (siteOp pauliZ k) σ' σ
      = if σ' = σ then (((if σ' i then (1 : ℝ) else -1) * (if σ' k then (1 : ℝ) else -1) : ℝ) : ℂ) else 0 := by
  unfold opMul siteOp
  rw [zz_diag pauliZ pauliZ_offdiag, pauliZ_diag, pauliZ_diag]
  push_cast
  rfl

/-- **NeighbourInteraction, open boundaries**, every distance `c ≥ 1` (for `c ≥ n` both sides are 0:
Python's slices are empty and no pair of sites is `c` apart): the call does not raise and
`Σ_σ p(σ)·apply(σ) = Re tr(ρ̂ · N_c)`. -/
theorem C08_neighbour_open (c : ℕ) (hc : 1 ≤ c) {S : ImpState ℝ n} {G : Op n} {p : Cfg n → ℝ}
    (h : Represents S G p) :
    ∃ val : Cfg n → ℝ, (∀ σ, neighbourOpenApply c σ = .ok (val σ)) ∧
      ∑ σ, p σ * val σ = (trOp (normalised G) (neighbourOpenOp c)).re := by
  refine ⟨_, fun σ => neighbourOpenApply_eq c hc σ, ?_⟩
  rw [diag_estimator G p _ h.born]
  congr 1
  refine Finset.sum_congr rfl (fun σ _ => Finset.sum_congr rfl (fun σ' _ => ?_))
  unfold normalised neighbourOpenOp
  simp_rw [zz_entry]
  by_cases hσ : σ' = σ
  · simp only [hσ, if_true]
    push_cast
    simp only [apply_ite Complex.ofReal, Complex.ofReal_mul, Complex.ofReal_zero, Complex.ofReal_one,
      Complex.ofReal_neg]
  · simp [hσ]

/-- **NeighbourInteraction, periodic boundaries**, every distance `c` (including multiples of `n`, where
`Z_i Z_i = 1`): `Σ_σ p(σ)·apply(σ) = Re tr(ρ̂ · N_c)`. -/
theorem C08_neighbour_periodic (c : ℕ) {S : ImpState ℝ n} {G : Op n} {p : Cfg n → ℝ}
    (h : Represents S G p) :
    ∑ σ, p σ * neighbourPeriodicApply c σ = (trOp (normalised G) (neighbourPeriodicOp c)).re := by
  rw [diag_estimator G p _ h.born (fun σ => neighbourPeriodicApply c σ)]
  congr 1
  refine Finset.sum_congr rfl (fun σ _ => Finset.sum_congr rfl (fun σ' _ => ?_))
  unfold normalised neighbourPeriodicOp
  simp_rw [zz_entry, neighbourPeriodicApply_eq]
  by_cases hσ : σ' = σ
  · simp only [hσ, if_true]
    push_cast
    simp only [apply_ite Complex.ofReal, Complex.ofReal_mul, Complex.ofReal_zero, Complex.ofReal_one,
      Complex.ofReal_neg]
  · simp [hσ]

/-- open boundaries with `c = 0` is an error for chains of at least two sites (size mismatch of the
slices `[:, :0]` and `[:, 0:]`), as in the code. -/
theorem C08_neighbour_open_zero (hn : 2 ≤ n) (σ : Cfg n) :
    (neighbourOpenApply 0 σ : Except PyErr ℝ) = .error .RuntimeError := by
  simp [neighbourOpenApply, hn]

/-! ### Reality -/

/-- the trace of a Hermitian state with a Hermitian operator is real, so for Hermitian `ρ` the `Re` in
the theorems above loses nothing. -/
theorem C08_trace_real (R O : Op n) (hR : ∀ σ σ', R σ' σ = conj (R σ σ')) (hO : ∀ σ σ', O σ' σ = conj (O σ σ')) :
    (trOp R O).im = 0 := by
  have hc : conj (trOp R O) = trOp R O := by
    unfold trOp
    rw [map_sum, Finset.sum_comm]
    refine Finset.sum_congr rfl (fun σ' _ => ?_)
    rw [map_sum]
    refine Finset.sum_congr rfl (fun σ _ => ?_)
    rw [map_mul, ← hR, ← hO]
  have := congrArg Complex.im hc
  simp only [Complex.conj_im] at this
  linarith

/-- the built-in operators are Hermitian -/
theorem C08_ops_hermitian_site (P : Bool → Bool → ℂ) (hP : ∀ a b, P b a = conj (P a b)) (i : Fin n)
    (σ σ' : Cfg n) : siteOp P i σ' σ = conj (siteOp P i σ σ') := by
  unfold siteOp
  by_cases hall : ∀ j, j ≠ i → σ j = σ' j
  · rw [if_pos hall, if_pos (fun j hj => (hall j hj).symm), hP]
  · rw [if_neg hall, if_neg (fun h' => hall (fun j hj => (h' j hj).symm)), map_zero]

theorem C08_paulis_hermitian :
    (∀ a b, pauliX b a = conj (pauliX a b)) ∧ (∀ a b, pauliY b a = conj (pauliY a b))
      ∧ (∀ a b, pauliZ b a = conj (pauliZ a b)) := by
  refine ⟨?_, ?_, ?_⟩ <;> intro a b <;> cases a <;> cases b <;> simp [pauliX, pauliY, pauliZ]

/-- **one real number per sample**: the per-sample values are real by construction (the model functions
return a real, the real part of the importance ratio), and `absolute=True` is exactly the pointwise
absolute value of `absolute=False`. -/
theorem C08_real (S : ImpState ℝ n) (σ : Cfg n) :
    sigmaXApply S true σ = |sigmaXApply S false σ| ∧ sigmaYApply S true σ = |sigmaYApply S false σ|
      ∧ (sigmaZApply true σ : ℝ) = |sigmaZApply false σ| := ⟨rfl, rfl, rfl⟩

/-! ### The sample array is not modified -/

/-- **no mutation** (`SigmaX`, `SigmaY`; any scalar type): running `apply` on tensor `sid` of a heap
(`flip_spin` acts in place, but on the `clone()` allocated in each site iteration) leaves every tensor the
caller had — in particular `samples` itself — unchanged, and returns, row by row, the per-sample value
the unbiasedness theorems are about.  (`SigmaZ` and `NeighbourInteraction` only read `samples`:
`to_pm1`/`mean` allocate new tensors, so their model is a pure function of the rows.)
In the model of the mutant that drops `.clone()`, `flipSpinInPlace` would write to `sid` and both parts fail. -/
theorem C08_no_mutation {α : Type} [Add α] [Mul α] [Neg α] [Sub α] [Div α] [Zero α] [One α] [Transc α]
    (S : ImpState α n) (absolute : Bool) (h : THeap n) (sid : ℕ) (hs : sid < h.next) :
    ((∀ k, k < h.next → (sigmaXRun S absolute h sid).1.cells k = h.cells k) ∧
      (sigmaXRun S absolute h sid).2 = (h.cells sid).map (sigmaXApply S absolute)) ∧
    ((∀ k, k < h.next → (sigmaYRun S absolute h sid).1.cells k = h.cells k) ∧
      (sigmaYRun S absolute h sid).2 = (h.cells sid).map (sigmaYApply S absolute)) := by
  have hx := pauliRun_spec S none absolute h sid hs
  have hy := pauliRun_spec S (some (fun σ i => (0, spin (σ i)))) absolute h sid hs
  exact ⟨⟨hx.1.2, hx.2⟩, ⟨hy.1.2, hy.2⟩⟩

/-! ### Explicit forms for the three state types -/

/-- **positive and complex wavefunctions** (`ψ` nowhere zero): all five estimators average to the
expectation value `⟨ψ|O|ψ⟩/⟨ψ|ψ⟩` of their operator. -/
theorem C08_pure_states (psi : Cfg n → C ℝ) (hψ : ∀ σ, psi σ ≠ (0, 0)) (c : ℕ) :
    (∑ σ, bornPure psi σ * sigmaXApply (ImpState.pure psi) false σ = (expectation psi (magnetOp pauliX)).re)
    ∧ (∑ σ, bornPure psi σ * sigmaYApply (ImpState.pure psi) false σ = (expectation psi (magnetOp pauliY)).re)
    ∧ (0 < n → ∑ σ, bornPure psi σ * sigmaZApply false σ = (expectation psi (magnetOp pauliZ)).re)
    ∧ (∑ σ, bornPure psi σ * neighbourPeriodicApply c σ = (expectation psi (neighbourPeriodicOp c)).re)
    ∧ (1 ≤ c → ∃ val : Cfg n → ℝ, (∀ σ, neighbourOpenApply c σ = .ok (val σ)) ∧
        ∑ σ, bornPure psi σ * val σ = (expectation psi (neighbourOpenOp c)).re) := by
  have h := C08_represents_pure psi hψ
  simp only [← C08_pure_trace_eq_expectation]
  exact ⟨C08_sigmaX h, C08_sigmaY h, fun hn => C08_sigmaZ hn h, C08_neighbour_periodic c h,
    fun hc => C08_neighbour_open c hc h⟩

/-- **density matrices** (`ρ σσ = probability σ ≠ 0`): all five estimators average to `Re tr(ρ̂ O)`,
`ρ̂ = ρ / tr ρ`. -/
theorem C08_mixed_states (rho : Cfg n → Cfg n → C ℝ) (prob : Cfg n → ℝ)
    (hdiag : ∀ σ, rho σ σ = (prob σ, 0)) (hpos : ∀ σ, prob σ ≠ 0) (c : ℕ) :
    let S := ImpState.mixed rho prob
    let R := normalised (dmMixed rho)
    (∑ σ, bornMixed prob σ * sigmaXApply S false σ = (trOp R (magnetOp pauliX)).re)
    ∧ (∑ σ, bornMixed prob σ * sigmaYApply S false σ = (trOp R (magnetOp pauliY)).re)
    ∧ (0 < n → ∑ σ, bornMixed prob σ * sigmaZApply false σ = (trOp R (magnetOp pauliZ)).re)
    ∧ (∑ σ, bornMixed prob σ * neighbourPeriodicApply c σ = (trOp R (neighbourPeriodicOp c)).re)
    ∧ (1 ≤ c → ∃ val : Cfg n → ℝ, (∀ σ, neighbourOpenApply c σ = .ok (val σ)) ∧
        ∑ σ, bornMixed prob σ * val σ = (trOp R (neighbourOpenOp c)).re) := by
  have h := C08_represents_mixed rho prob hdiag hpos
  exact ⟨C08_sigmaX h, C08_sigmaY h, fun hn => C08_sigmaZ hn h, C08_neighbour_periodic c h,
    fun hc => C08_neighbour_open c hc h⟩

/-- the RBM wavefunctions vanish nowhere (C01: `|ψ σ|² = exp(−E_λ σ) > 0`), so the hypothesis of
`C08_pure_states` holds for every parameter setting of the positive and the complex state. -/
theorem C08_rbm_psi_ne_zero {hid : ℕ} (am ph : RBM ℝ n hid) (σ : Cfg n) :
    Wave.psiPos am (fun j => bit (σ j)) ≠ (0, 0) ∧ Wave.psiCplx am ph (fun j => bit (σ j)) ≠ (0, 0) := by
  constructor
  · intro h
    have := (C01_positive_real_pos am (fun j => bit (σ j))).2
    rw [h] at this; exact lt_irrefl _ this
  · intro h
    have := C01_normSq_psi_complex am ph (fun j => bit (σ j))
    rw [h] at this
    simp only [Wave.probability, transc_exp, div_one] at this
    have hpos := Real.exp_pos (-(am.effEnergy fun j => bit (σ j)))
    norm_num at this
    linarith

/-- non-vacuity: a complex RBM state with `h ≠ n`, non-zero biases and a non-trivial phase network
satisfies the hypotheses; here SigmaY. -/
example : let am : RBM ℝ 2 3 := ⟨fun i j => (i.val : ℝ) - j.val + 0.5, fun j => if j = 0 then -1.5 else 2,
      fun i => if i = 0 then 0.7 else -0.3⟩
    let ph : RBM ℝ 2 3 := ⟨fun i j => 0.25 * (i.val : ℝ) + j.val, fun j => if j = 0 then 1 else -2,
      fun i => if i = 0 then -0.4 else 0.9⟩
    let psi : Cfg 2 → C ℝ := fun σ => Wave.psiCplx am ph (fun j => bit (σ j))
    ∑ σ, bornPure psi σ * sigmaYApply (ImpState.pure psi) false σ = (expectation psi (magnetOp pauliY)).re :=
  (C08_pure_states _ (fun σ => (C08_rbm_psi_ne_zero _ _ σ).2) 1).2.1

end C08
end QV.Props
