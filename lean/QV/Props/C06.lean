/-
C06 — Each training step applies exactly the contrastive-divergence update.

"For every batch processed during training, the gradient handed to the optimizer for the amplitude network
is the batch's positive-phase gradient minus the mean effective-energy gradient of the states reached by k
Gibbs steps from the negative-phase batch (divided by the negative batch size), the phase network receives
the positive phase only, and each value lands on the parameter it belongs to. With plain SGD the parameters
therefore move by exactly minus the learning rate times that gradient, once per batch, and a learning-rate
scheduler is advanced exactly once per epoch."

Model: QV.Model.CDStep (+ Grads, Prob). The chain end states `vk` are the result of `gibbs_steps(k, neg_batch)`:
`cdGradAm`/`cdStep…` are programs over the block-Gibbs sampler of property C05 STARTED FROM THE NEGATIVE BATCH
(`C06_chain…`: k = 0 returns the negative batch itself; the expected gradient is the positive phase minus the mean
over the negative rows of the `k`-step kernel's expectation of the energy gradient, `rbmP ^ k` being C05's kernel);
`C06_batch_grad` etc. are the statements for given chain end states. Whole runs: `foldRun`/`foldTrace`
(`C06_history`, `C06_run_unfold…`); learning-rate schedule per epoch: `tagEpochs`, `lrAfter` (`C06_scheduler_lr`,
`C06_steplr`). That the scheduler is stepped once per epoch AS AN EVENT is part of the event-protocol model
(C12_scheduler_once_per_epoch); here it shows as the learning rate in force in each epoch.
-/
import QV.Model.CDStep
import QV.Lemmas.GradLin
import QV.Lemmas.CDChain
import QV.Model.CallForm
import QV.Lemmas.CallForm
import QV.Props.C05
import QV.Lemmas.ArgConv
import Mathlib.Data.List.Basic

namespace QV.Props
open QV Finset Grads CDStep

variable {n h a : ℕ}

/-- **C06.1a** the amplitude gradient handed to the optimizer pairs as
`⟨positive phase, d⟩ − (1/|neg|) Σ_m ⟨∇E_λ(v_k^m), d⟩`: positive phase minus the MEAN energy gradient of the chain end states. -/
theorem C06_batch_grad (posPhase am d : RBM ℝ n h) {M : ℕ} (vk : Fin M → Fin n → ℝ) :
    (batchGradAm posPhase am vk).pair d
      = posPhase.pair d - (∑ m, (am.effEnergyGrad1 (vk m)).pair d) / M := by
  simp only [batchGradAm, RBM.pair_sub, RBM.pair_sdiv, RBM.pair_effEnergyGrad, transc_ofNat]

theorem C06_batch_grad_prbm (posPhase am d : PRBM ℝ n h a) {M : ℕ} (vk : Fin M → Fin n → ℝ) :
    (batchGradAmDM posPhase am vk).pair d
      = posPhase.pair d - (∑ m, (am.effEnergyGrad1 (vk m)).pair d) / M := by
  simp only [batchGradAmDM, PRBM.pair_sub, PRBM.pair_sdiv, PRBM.pair_effEnergyGrad, transc_ofNat]

/-- **C06.1b** the phase network receives the positive phase only (complex and mixed states). -/
theorem C06_phase_gets_positive_phase_only (lr : ℝ) (am ph : RBM ℝ n h) (dict : Char → M2 ℝ) (D : List (Sample n))
    {M : ℕ} (vk : Fin M → Fin n → ℝ) :
    (stepCplx lr am ph dict D vk).1.2 = (positivePhaseCplx am ph dict D).2
    ∧ (stepCplx lr am ph dict D vk).1.1 = batchGradAm (positivePhaseCplx am ph dict D).1 am vk := ⟨rfl, rfl⟩

theorem C06_phase_gets_positive_phase_only_dm (lr eps : ℝ) (am ph : PRBM ℝ n h a) (dict : Char → M2 ℝ)
    (D : List (Sample n)) {M : ℕ} (vk : Fin M → Fin n → ℝ) :
    (stepDM lr eps am ph dict D vk).1.2 = (positivePhaseDM am ph dict eps D).2
    ∧ (stepDM lr eps am ph dict D vk).1.1 = batchGradAmDM (positivePhaseDM am ph dict eps D).1 am vk := ⟨rfl, rfl⟩

/-- **C06.2a** `vector_to_grads` inverts concatenation: slicing a concatenation of blocks by the blocks' lengths
returns the blocks (any number of parameters, any sizes). -/
theorem C06_slices {α : Type} (blocks : List (List α)) :
    vectorToGrads blocks.flatten (blocks.map List.length) = blocks := by
  induction blocks with
  | nil => rfl
  | cons b bs ih =>
    simp only [List.flatten_cons, List.map_cons, vectorToGrads, List.take_left', List.drop_left', ih]

theorem length_flatMap_rows {α : Type} (r c : ℕ) (f : Fin r → Fin c → α) :
    ((List.finRange r).flatMap (fun i => (List.finRange c).map (fun j => f i j))).length = r * c := by
  induction r with
  | zero => simp
  | succ k ih =>
    rw [List.finRange_succ, List.flatMap_cons, List.length_append, List.flatMap_map]
    have := ih (fun i j => f i.succ j)
    simp only [List.length_map, List.length_finRange] at this ⊢
    rw [this]; ring

/-- **C06.2b** each value lands on the parameter it belongs to: for a BinaryRBM the three gradient tensors the
optimizer sees are the `W` block (row-major), the `b` block and the `c` block of the model's gradient record. -/
theorem C06_lands_on_parameter (g : RBM ℝ n h) :
    rbmParamGrads g
      = [(List.finRange h).flatMap (fun i => (List.finRange n).map (fun j => g.W i j)),
         (List.finRange n).map g.b, (List.finRange h).map g.c] := by
  have := C06_slices [(List.finRange h).flatMap (fun i => (List.finRange n).map (fun j => g.W i j)),
         (List.finRange n).map g.b, (List.finRange h).map g.c]
  simp only [List.map_cons, List.map_nil, List.length_map, List.length_finRange, length_flatMap_rows] at this
  simpa [rbmParamGrads, rbmSizes, RBM.flatten, List.flatten] using this

theorem C06_lands_on_parameter_prbm (g : PRBM ℝ n h a) :
    prbmParamGrads g
      = [(List.finRange h).flatMap (fun i => (List.finRange n).map (fun j => g.W i j)),
         (List.finRange a).flatMap (fun k => (List.finRange n).map (fun j => g.U k j)),
         (List.finRange n).map g.b, (List.finRange h).map g.c, (List.finRange a).map g.d] := by
  have := C06_slices [(List.finRange h).flatMap (fun i => (List.finRange n).map (fun j => g.W i j)),
         (List.finRange a).flatMap (fun k => (List.finRange n).map (fun j => g.U k j)),
         (List.finRange n).map g.b, (List.finRange h).map g.c, (List.finRange a).map g.d]
  simp only [List.map_cons, List.map_nil, List.length_map, List.length_finRange, length_flatMap_rows] at this
  simpa [prbmParamGrads, prbmSizes, PRBM.flatten, List.flatten] using this

/-- row-major view: entry `(i, j)` of the weight gradient is element `i*n + j` of its block -/
theorem C06_weight_block_entry (g : RBM ℝ n h) (i : Fin h) (j : Fin n) :
    ((List.finRange h).flatMap (fun i => (List.finRange n).map (fun j => g.W i j)))[i.val * n + j.val]?
      = some (g.W i j) := by
  induction h with
  | zero => exact i.elim0
  | succ k ih =>
    rw [List.finRange_succ, List.flatMap_cons, List.flatMap_map]
    refine Fin.cases ?_ (fun i' => ?_) i
    · simp [List.getElem?_append_left, j.isLt]
    · have := ih ⟨fun a b => g.W a.succ b, g.b, fun a => g.c a.succ⟩ i'
      rw [List.getElem?_append_right (by simp; nlinarith [i'.isLt, j.isLt])]
      simp only [List.length_map, List.length_finRange, Fin.val_succ]
      have e : (i'.val + 1) * n + j.val - n = i'.val * n + j.val := by
        rw [Nat.add_mul, Nat.one_mul]; omega
      rw [e]
      exact this

/-- **C06.3a** plain SGD: every parameter moves by exactly `−lr · gradient`. -/
theorem C06_sgd_step (lr : ℝ) (p g : RBM ℝ n h) :
    (∀ i j, (sgdStep lr p g).W i j = p.W i j - lr * g.W i j)
    ∧ (∀ j, (sgdStep lr p g).b j = p.b j - lr * g.b j) ∧ (∀ i, (sgdStep lr p g).c i = p.c i - lr * g.c i) :=
  ⟨fun _ _ => rfl, fun _ => rfl, fun _ => rfl⟩

/-- **C06.3b** over a whole run the parameters are the fold of single updates, batch `t`'s gradient being evaluated at
the result of all earlier updates; the number of updates is the number of batches processed. -/
theorem C06_run_unfold (lr : ℝ) (am0 : RBM ℝ n h)
    (bs : List ((Σ B : ℕ, Fin B → Fin n → ℝ) × (Σ M : ℕ, Fin M → Fin n → ℝ)))
    (b : (Σ B : ℕ, Fin B → Fin n → ℝ) × (Σ M : ℕ, Fin M → Fin n → ℝ)) :
    runPos lr am0 (bs ++ [b]) = (stepPos lr (runPos lr am0 bs) b.1.2 b.2.2).2 := by
  simp [runPos, List.foldl_append]

/-! ## Gap-closing round: the chain starts from the negative batch (C06-1) -/

section chain
variable {α : Type} [Add α] [Mul α] [Neg α] [Sub α] [Div α] [Zero α] [One α] [Transc α]

/-- **C06.1c** `k = 0`: no sampling at all; the chain end states ARE the negative batch and the gradient is the
positive phase minus the mean energy gradient of the negative-batch rows themselves (any carrier). -/
theorem C06_chain_zero (pp am : RBM α n h) (ppd amd : PRBM α n h a) {M : ℕ} (neg : Fin M → Fin n → Bool) :
    cdGradAm pp am 0 neg = Prog.ret (neg, batchGradAm pp am (bmat neg))
    ∧ cdGradAmDM ppd amd 0 neg = Prog.ret (neg, batchGradAmDM ppd amd (bmat neg)) := ⟨rfl, rfl⟩

/-- **C06.1d** replay: an execution of the gradient program on recorded draws is an execution of
`gibbs_steps(k, neg_batch)` (C05's batched sampler started from the negative batch) on the same draws — same
probabilities presented, same leftover — and the gradient is `batchGradAm` at the chain end states it returns
(any carrier: this is the statement the driver's Float replay instantiates). -/
theorem C06_chain_run (pp am : RBM α n h) (ppd amd : PRBM α n h a) (k : ℕ) {M : ℕ} (neg : Fin M → Fin n → Bool)
    (ds : List Bool) :
    (cdGradAm pp am k neg).run ds
        = ((am.gibbsStepsB k neg).run ds).map (fun x => ((x.1, batchGradAm pp am (bmat x.1)), x.2))
    ∧ (cdGradAmDM ppd amd k neg).run ds
        = ((amd.gibbsStepsB k neg).run ds).map (fun x => ((x.1, batchGradAmDM ppd amd (bmat x.1)), x.2)) :=
  ⟨Prog.run_map _ _ _, Prog.run_map _ _ _⟩

/-- **C06.1e** the full step programs are the `stepPos/stepCplx/stepDM` of the statements above evaluated at the end
states of the chain started from the negative batch. -/
theorem C06_chain_step [LT α] [DecidableLT α] (lr eps : α) (am ph : RBM α n h) (amd phd : PRBM α n h a) (dict : Char → M2 α)
    (D : List (Sample n)) (k : ℕ) {B M : ℕ} (pos : Fin B → Fin n → α) (neg : Fin M → Fin n → Bool) :
    cdStepPos lr am k pos neg = (am.gibbsStepsB k neg).map (fun vk => (vk, stepPos lr am pos (bmat vk)))
    ∧ cdStepCplx lr am ph dict D k neg = (am.gibbsStepsB k neg).map (fun vk => (vk, stepCplx lr am ph dict D (bmat vk)))
    ∧ cdStepDM lr eps amd phd dict D k neg
        = (amd.gibbsStepsB k neg).map (fun vk => (vk, stepDM lr eps amd phd dict D (bmat vk))) := by
  refine ⟨?_, ?_, ?_⟩ <;> simp only [cdStepPos, cdStepCplx, cdStepDM, cdGradAm, cdGradAmDM, Prog.map_map] <;> rfl

end chain

/-- **C06.1f (`C06_chain`)** the CD-`k` gradient in terms of the `k`-step chain FROM THE NEGATIVE BATCH: its expectation
(pairing with any direction `d`) is the positive phase minus the mean, over the rows `neg m` of the negative batch, of
the expectation of the energy gradient under row `neg m` of the `k`-th power of C05's Gibbs kernel.
(Composes `C06_batch_grad` with `C05_batch_law` and `C05_k_step_law`.) -/
theorem C06_chain (pp am d : RBM ℝ n h) (k : ℕ) {M : ℕ} (neg : Fin M → Fin n → Bool) :
    (cdGradAm pp am k neg).expect (fun r => r.2.pair d)
      = pp.pair d - (∑ m, ∑ w, (C05.rbmP am ^ k) (neg m) w * (am.effEnergyGrad1 (bvec w)).pair d) / M := by
  rw [cdGradAm, Prog.expect_map]
  simp only [C06_batch_grad]
  rw [Prog.expect_sub_const_div, Prog.expect_finset_sum]
  congr 2
  refine Finset.sum_congr rfl (fun m _ => ?_)
  have hlaw : ∀ ws, (am.gibbsStepsB k neg).law ws = ∏ b, (am.gibbsSteps k (neg b)).law (ws b) := by
    intro ws
    rw [C05.C05_batch_law]
    simp only [C05.C05_k_step_law]
  have hm := Prog.expect_batch_coord (am.gibbsStepsB k neg) (fun b => am.gibbsSteps k (neg b)) hlaw m
    (fun w => (am.effEnergyGrad1 (bvec w)).pair d)
  simp only [C05.C05_k_step_law] at hm
  exact hm

theorem C06_chain_prbm (pp am d : PRBM ℝ n h a) (k : ℕ) {M : ℕ} (neg : Fin M → Fin n → Bool) :
    (cdGradAmDM pp am k neg).expect (fun r => r.2.pair d)
      = pp.pair d - (∑ m, ∑ w, (C05.prbmP am ^ k) (neg m) w * (am.effEnergyGrad1 (bvec w)).pair d) / M := by
  rw [cdGradAmDM, Prog.expect_map]
  simp only [C06_batch_grad_prbm]
  rw [Prog.expect_sub_const_div, Prog.expect_finset_sum]
  congr 2
  refine Finset.sum_congr rfl (fun m _ => ?_)
  have hlaw : ∀ ws, (am.gibbsStepsB k neg).law ws = ∏ b, (am.gibbsSteps k (neg b)).law (ws b) := by
    intro ws
    rw [C05.C05_batch_law_purif]
    simp only [C05.C05_k_step_law_purif]
  have hm := Prog.expect_batch_coord (am.gibbsStepsB k neg) (fun b => am.gibbsSteps k (neg b)) hlaw m
    (fun w => (am.effEnergyGrad1 (bvec w)).pair d)
  simp only [C05.C05_k_step_law_purif] at hm
  exact hm

/-- **C06.1g** the law of the chain end states handed to the gradient: independent chains, chain `m` distributed as row
`neg m` of `P ^ k` (so a chain started anywhere else — the positive batch, a persistent buffer — has another law). -/
theorem C06_chain_law (pp am : RBM ℝ n h) (k : ℕ) {M : ℕ} (neg : Fin M → Fin n → Bool) (g : (Fin M → Fin n → Bool) → ℝ) :
    (cdGradAm pp am k neg).expect (fun r => g r.1) = ∑ ws, (∏ m, (C05.rbmP am ^ k) (neg m) (ws m)) * g ws := by
  rw [cdGradAm, Prog.expect_map, Prog.expect_eq_sum]
  simp only [C05.C05_batch_law]

/-- **C06.1h** why the chain must start where it does: if the rows of the negative batch are distributed as the model's
reported distribution `π` (which the data approach as training converges), the expected negative phase of CD-`k` is, for
EVERY `k`, the exact negative phase `Σ_w π(w) ∇E(w)` of `compute_exact_gradients` (C03): the `k`-step kernel leaves `π`
invariant (C05_invariant_k). -/
theorem C06_chain_stationary (am d : RBM ℝ n h) (amd dd : PRBM ℝ n h a) (Z : ℝ) (k : ℕ) :
    (∑ v, C05.rbmPi am Z v * ∑ w, (C05.rbmP am ^ k) v w * (am.effEnergyGrad1 (bvec w)).pair d
        = ∑ w, C05.rbmPi am Z w * (am.effEnergyGrad1 (bvec w)).pair d)
    ∧ (∑ v, C05.prbmPi amd Z v * ∑ w, (C05.prbmP amd ^ k) v w * (amd.effEnergyGrad1 (bvec w)).pair dd
        = ∑ w, C05.prbmPi amd Z w * (amd.effEnergyGrad1 (bvec w)).pair dd) := by
  constructor
  · have hinv := C05.C05_invariant_k am Z k
    simp only [Finset.mul_sum]
    rw [Finset.sum_comm]
    refine Finset.sum_congr rfl (fun w _ => ?_)
    have hw := congrFun hinv w
    simp only [Matrix.vecMul, dotProduct] at hw
    rw [← hw, Finset.sum_mul]
    refine Finset.sum_congr rfl (fun v _ => by ring)
  · have hinv := C05.C05_invariant_k_purif amd Z k
    simp only [Finset.mul_sum]
    rw [Finset.sum_comm]
    refine Finset.sum_congr rfl (fun w _ => ?_)
    have hw := congrFun hinv w
    simp only [Matrix.vecMul, dotProduct] at hw
    rw [← hw, Finset.sum_mul]
    refine Finset.sum_congr rfl (fun v _ => by ring)

/-! ## Gap-closing round: histories (C06-2) and the learning-rate schedule (C06-4) -/

/-- **C06.3c** plain SGD on the purification RBM: every parameter (incl. `U`, `d`) moves by exactly `−lr · gradient`. -/
theorem C06_sgd_step_dm (lr : ℝ) (p g : PRBM ℝ n h a) :
    (∀ i j, (sgdStepDM lr p g).W i j = p.W i j - lr * g.W i j) ∧ (∀ k j, (sgdStepDM lr p g).U k j = p.U k j - lr * g.U k j)
    ∧ (∀ j, (sgdStepDM lr p g).b j = p.b j - lr * g.b j) ∧ (∀ i, (sgdStepDM lr p g).c i = p.c i - lr * g.c i)
    ∧ (∀ k, (sgdStepDM lr p g).d k = p.d k - lr * g.d k) :=
  ⟨fun _ _ => rfl, fun _ _ => rfl, fun _ => rfl, fun _ => rfl, fun _ => rfl⟩

/-- **C06.3d (history)** for any update rule: the recording of the parameters after every batch has exactly one entry per
batch; entry `t` is ONE update, with batch `t`, applied to the fold of all earlier batches; that equals the fold over the
first `t + 1` batches (so the parameters before batch `t + 1` are the parameters after batch `t`); the last entry is the
result of the run. Instantiated below for the three state types. -/
theorem C06_history {P β : Type} (step : P → β → P) (p0 : P) (bs : List β) :
    (foldTrace step p0 bs).length = bs.length
    ∧ (∀ t (ht : t < bs.length),
        (foldTrace step p0 bs)[t]? = some (step (foldRun step p0 (bs.take t)) bs[t])
        ∧ (foldTrace step p0 bs)[t]? = some (foldRun step p0 (bs.take (t + 1))))
    ∧ ((foldTrace step p0 bs).getLast?).getD p0 = foldRun step p0 bs :=
  ⟨foldTrace_length step p0 bs,
   fun t ht => ⟨foldTrace_getElem? step p0 bs t ht, foldTrace_getElem?_eq_run step p0 bs t ht⟩,
   foldTrace_getLast step p0 bs⟩

/-- the driver materialises the (function-valued) parameter records into arrays after every update; any such
normalisation that is extensionally the identity leaves the trace unchanged, so what the driver computes IS `foldTrace` -/
theorem C06_trace_norm {P β : Type} (step : P → β → P) (norm : P → P) (hnorm : ∀ p, norm p = p) (p0 : P) (bs : List β) :
    foldTrace (fun p b => norm (step p b)) p0 bs = foldTrace step p0 bs := by
  have : (fun p b => norm (step p b)) = step := by funext p b; exact hnorm _
  rw [this]

/-- the run of the positive state (`runPos`, `C06_run_unfold`) is this fold with the constant learning rate -/
theorem C06_runPos_fold (lr : ℝ) (am0 : RBM ℝ n h) (bs : List (PosBatch ℝ n)) :
    runPos lr am0 bs = foldRun updPos am0 (bs.map fun b => (lr, b)) := by
  simp only [runPos, foldRun, List.foldl_map, updPos]

/-- **C06.3e** whole runs of the complex and the mixed state: batch `t`'s gradients (amplitude AND phase network) are
evaluated at the result of all earlier updates of BOTH networks; one update per batch. -/
theorem C06_run_unfold_cplx (lr : ℝ) (dict : Char → M2 ℝ) (am0 ph0 : RBM ℝ n h) (bs : List (SmpBatch ℝ n))
    (b : SmpBatch ℝ n) :
    runCplx lr dict am0 ph0 (bs ++ [b])
        = (stepCplx lr (runCplx lr dict am0 ph0 bs).1 (runCplx lr dict am0 ph0 bs).2 dict b.1 b.2.2).2
    ∧ (foldTrace (updCplx dict) (am0, ph0) ((bs ++ [b]).map fun x => (lr, x))).length = bs.length + 1 := by
  refine ⟨?_, by simp [foldTrace_length]⟩
  simp only [runCplx, List.map_append, List.map_cons, List.map_nil, foldRun_append]
  rfl

theorem C06_run_unfold_dm (lr eps : ℝ) (dict : Char → M2 ℝ) (am0 ph0 : PRBM ℝ n h a) (bs : List (SmpBatch ℝ n))
    (b : SmpBatch ℝ n) :
    runDM lr eps dict am0 ph0 (bs ++ [b])
        = (stepDM lr eps (runDM lr eps dict am0 ph0 bs).1 (runDM lr eps dict am0 ph0 bs).2 dict b.1 b.2.2).2
    ∧ (foldTrace (updDM dict eps) (am0, ph0) ((bs ++ [b]).map fun x => (lr, x))).length = bs.length + 1 := by
  refine ⟨?_, by simp [foldTrace_length]⟩
  simp only [runDM, List.map_append, List.map_cons, List.map_nil, foldRun_append]
  rfl

/-- **C06.4a** the learning rate in force: every batch of epoch `i` (0-based within one `fit` call) is processed with the
rate obtained after exactly `i` scheduler steps — the scheduler is advanced once per epoch, after the epoch's batches —
and the run has one update per batch of every epoch. -/
theorem C06_scheduler_lr {β : Type} (next : ℕ → ℝ → ℝ) (lr0 : ℝ) (epochs : List (List β)) :
    tagEpochs next lr0 0 epochs
        = (List.range epochs.length).flatMap (fun i => (epochs.getD i []).map fun b => (lrAfter next lr0 i, b))
    ∧ (tagEpochs next lr0 0 epochs).length = (epochs.map List.length).sum := by
  refine ⟨?_, tagEpochs_length next lr0 0 epochs⟩
  have := tagEpochs_eq next lr0 0 epochs
  simpa [lrAfter] using this

/-- **C06.4b** `StepLR(step_size = s, gamma)`: after `e` epochs the rate is `lr · gamma ^ ⌊e / s⌋` (`s = 1`: `lr · gamma ^ e`);
without a scheduler it stays `lr`. -/
theorem C06_steplr (gamma lr0 : ℝ) (s e : ℕ) :
    lrAfter (stepLRNext gamma s) lr0 e = lr0 * gamma ^ (e / s)
    ∧ lrAfter (stepLRNext gamma 1) lr0 e = lr0 * gamma ^ e
    ∧ lrAfter noSched lr0 e = lr0 := by
  refine ⟨lrAfter_stepLR gamma lr0 s e, ?_, ?_⟩
  · simpa using lrAfter_stepLR gamma lr0 1 e
  · induction e with
    | zero => rfl
    | succ e ih => simpa [lrAfter, noSched] using ih

/-- **C06.4c** whole `fit` calls: one recorded update per batch of every epoch, for the three state types. -/
theorem C06_fit_trace_length (next : ℕ → ℝ → ℝ) (lr0 eps : ℝ) (dict : Char → M2 ℝ) (am0 ph0 : RBM ℝ n h)
    (amd phd : PRBM ℝ n h a) (ep : List (List (PosBatch ℝ n))) (es : List (List (SmpBatch ℝ n))) :
    (fitTracePos next lr0 am0 ep).length = (ep.map List.length).sum
    ∧ (fitTraceCplx next lr0 dict am0 ph0 es).length = (es.map List.length).sum
    ∧ (fitTraceDM next lr0 eps dict amd phd es).length = (es.map List.length).sum := by
  simp only [fitTracePos, fitTraceCplx, fitTraceDM, foldTrace_length, tagEpochs_length, and_self]

/-! ## Hardening round 4: the scheduler in runs that are cut short; call forms -/

/-- **C06.4d** the learning rate LEFT in the optimizer (and the scheduler's step count) when `fit` returns: for ANY list of entered
epochs — full ones, ones cut short by a stop request after `m ≥ 0` batches — the rate is the one after exactly `epochs.length`
scheduler steps and the scheduler has been stepped `epochs.length` times: once per entered epoch, independently of how many batches
the epoch processed. Under `StepLR(s, gamma)`: `lr · gamma ^ ⌊E / s⌋`. (An implementation that skips `scheduler.step()` in the epoch in
which a stop was requested leaves `lrAfter … (E − 1)` instead.) -/
theorem C06_final_lr {β : Type} (next : ℕ → ℝ → ℝ) (gamma lr0 : ℝ) (s : ℕ) (epochs : List (List β)) :
    lrEnd next lr0 0 epochs = lrAfter next lr0 epochs.length
    ∧ schedSteps epochs = epochs.length
    ∧ lrEnd (stepLRNext gamma s) lr0 0 epochs = lr0 * gamma ^ (epochs.length / s)
    ∧ lrEnd noSched lr0 0 epochs = lr0 := by
  have h := fun nx => lrEnd_eq (β := β) nx lr0 0 epochs
  simp only [lrAfter, Nat.zero_add] at h
  exact ⟨h next, schedSteps_eq epochs, by rw [h, (C06_steplr gamma lr0 s epochs.length).1],
    by rw [h, (C06_steplr gamma lr0 s epochs.length).2.2]⟩

/-- the final rate is consistent with the per-batch tagging: a further epoch appended to the run would be processed with exactly the
rate `lrEnd` reports (so `lrEnd` IS the rate "in force after the run") -/
theorem C06_final_lr_next_epoch {β : Type} (next : ℕ → ℝ → ℝ) (lr0 : ℝ) (epochs : List (List β)) (bs : List β) :
    tagEpochs next lr0 0 (epochs ++ [bs]) = tagEpochs next lr0 0 epochs ++ bs.map fun b => (lrEnd next lr0 0 epochs, b) := by
  have key : ∀ (lr : ℝ) (e : ℕ), tagEpochs next lr e (epochs ++ [bs])
      = tagEpochs next lr e epochs ++ bs.map fun b => (lrEnd next lr e epochs, b) := by
    induction epochs with
    | nil => intro lr e; simp [tagEpochs, lrEnd]
    | cons x rest ih => intro lr e; simp only [List.cons_append, tagEpochs, lrEnd, ih, List.append_assoc]
  exact key lr0 0

/-- **C06.5 (call forms)** `k`, `lr`, `optimizer`, `optimizer_args`, `scheduler`, `scheduler_args` (and every other documented parameter)
given POSITIONALLY in the documented order mean what the keyword call means: the values this property speaks about (number of Gibbs
steps, learning rate, scheduler) are those the caller wrote at the documented positions. Same statement as `C07_positional_call`. -/
theorem C06_positional_call (hasBases : Bool) (ps₁ ps₂ : List String) (hsig : CallForm.fitParams hasBases = ps₁ ++ ps₂)
    (vs₁ : List CallForm.Arg) (hlen : vs₁.length = ps₁.length) (kw : List (String × CallForm.Arg))
    (hkw : ∀ p ∈ ps₁, CallForm.kwLookup kw p = none) :
    CallForm.fitBind hasBases vs₁ kw = CallForm.fitBind hasBases [] (ps₁.zip vs₁ ++ kw)
    ∧ ∀ r, CallForm.fitBind hasBases vs₁ kw = .ok r →
        (∀ p v, (p, v) ∈ ps₁.zip vs₁ → CallForm.bound r p = some v)
        ∧ (∀ p ∈ ps₂, CallForm.bound r p = CallForm.kwOrDefault CallForm.fitDefault kw p)
        ∧ (hasBases = false → CallForm.bound r "input_bases" = some CallForm.Arg.none) :=
  CallForm.fitBind_positional hasBases ps₁ ps₂ hsig vs₁ hlen kw hkw

/-- non-vacuity: a concrete step with `|neg| ≠ |pos|` -/
example : let am : RBM ℝ 2 1 := ⟨fun _ _ => 0.5, fun _ => -0.25, fun _ => 1⟩
    ∀ d, (batchGradAm (positivePhasePos am (fun (_ : Fin 3) _ => 1)) am (fun (_ : Fin 2) _ => 0)).pair d
      = (positivePhasePos am (fun (_ : Fin 3) _ => 1)).pair d
        - (∑ m : Fin 2, (am.effEnergyGrad1 (fun _ => 0)).pair d) / (2 : ℕ) := by
  intro am d; exact C06_batch_grad _ _ _ _

/-- non-vacuity of the schedule: 3 epochs of 2, 0 and 1 batches under `StepLR(1, 1/2)` from `lr = 8` -/
example : tagEpochs (stepLRNext (1 / 2 : ℚ) 1) 8 0 [["a", "b"], [], ["c"]] = [(8, "a"), (8, "b"), (2, "c")] := by
  simp [tagEpochs, stepLRNext]; norm_num

/-- non-vacuity of the trace: integer "parameters", update = add the batch -/
example : foldTrace (fun (p : ℤ) (b : ℤ) => p + b) 10 [1, 2, 3] = [11, 13, 16] := rfl

/-- non-vacuity of the final rate: 3 entered epochs, the last cut short after one batch, `StepLR(1, 1/2)` from `lr = 8`: the optimizer is
left with `8 · (1/2)^3 = 1` (an implementation skipping the step of the cut-short epoch would leave 2) -/
example : lrEnd (β := String) (stepLRNext (1 / 2 : ℚ) 1) 8 0 [["a", "b"], ["c", "d"], ["e"]] = 1 := by
  simp [lrEnd, stepLRNext]; norm_num

/-- `fit(data, 3, 4, 2, 1, lr)` on a complex state: `k = 1`, `lr` the sixth argument, `input_bases` the seventh -/
example : (CallForm.fitBind true [.ref 7, .int 3, .int 4, .int 2, .int 1, .ref 8, .ref 9] []).toOption.map
      (fun r => (CallForm.bound r "k", CallForm.bound r "lr", CallForm.bound r "input_bases", CallForm.bound r "optimizer"))
    = some (some (.int 1), some (.ref 8), some (.ref 9), some (.ref CallForm.refDefaultOptimizer)) := by rfl


/-! ## Extension round 2 (code inside the model): the refusals and the silent truncation of `vector_to_grads`

`ArgConv.vectorToGradsE` models `gradients_utils.py:21-52` with its branches: `TypeError` for a non-tensor vector (`:31-34`), the
`.view(param.size())` failure for a vector that runs out (`:49`), the refused `.grad` assignment for a vector of another element
type than the (double) parameters, and NO check that the vector is used up. -/

open ArgConv in
/-- **C06.2c** `vector_to_grads` with its refusals: a call is accepted IFF the vector is a tensor with at least as many entries as the
parameters have in total (and of the parameters' element type, unless there is no parameter at all); every accepted call gives every
parameter exactly its slice of the vector — the slices, concatenated in `parameters()` order, are the first `Σ sizes` entries and
parameter `i` receives `sizes[i]` of them (`C06_slices` is the case of an exact-length vector). -/
theorem C06_slices_exact {α : Type} (v : VecArg α) (sizes : List ℕ) :
    ((∃ gs, vectorToGradsE v sizes = .ok gs) ↔
      ∃ dt vec, v = .tensor dt vec ∧ sizes.sum ≤ vec.length ∧ (dt = .float64 ∨ sizes = [])) ∧
    (∀ gs, vectorToGradsE v sizes = .ok gs → ∃ dt vec, v = .tensor dt vec ∧ gs = vectorToGrads vec sizes ∧
      gs.flatten = vec.take sizes.sum ∧ gs.map List.length = sizes) := by
  cases v with
  | other => simp [vectorToGradsE]
  | tensor dt vec =>
    by_cases hlen : sizes.sum ≤ vec.length
    · by_cases hd : dt = .float64
      · subst hd
        have h := assignLoop_ok vec sizes [] hlen
        obtain ⟨f1, f2⟩ := vectorToGrads_flatten vec sizes hlen
        simp only [vectorToGradsE, h, List.nil_append]
        refine ⟨⟨fun _ => ⟨_, _, rfl, hlen, Or.inl rfl⟩, fun _ => ⟨_, rfl⟩⟩, ?_⟩
        intro gs hgs
        cases hgs
        exact ⟨_, _, rfl, rfl, f1, f2⟩
      · cases sizes with
        | nil => simp [vectorToGradsE, assignLoop, vectorToGrads]
        | cons k ks =>
          have h := assignLoop_other hd vec k ks []
          have : vectorToGradsE (.tensor dt vec) (k :: ks) = .error .RuntimeError := by
            simp only [vectorToGradsE]; split <;> simp_all
          simp [this, hd]
    · have h := assignLoop_short dt vec sizes [] hlen
      have : vectorToGradsE (.tensor dt vec) sizes = .error .RuntimeError := by
        simp only [vectorToGradsE]; split <;> simp_all
      simp only [this]
      refine ⟨⟨fun hx => ?_, fun hx => ?_⟩, fun _ hx => by cases hx⟩
      · obtain ⟨_, hx⟩ := hx; cases hx
      · obtain ⟨_, _, he, hl, _⟩ := hx
        cases he; exact absurd hl hlen

open ArgConv in
/-- **C06.2d** the silent truncation: entries of the vector beyond the total parameter count never reach a parameter — a vector that is
too LONG is accepted and gives exactly what its leading part gives (no error tells the caller that values were dropped). -/
theorem C06_slices_tail_ignored {α : Type} (vec tail : List α) (sizes : List ℕ) (h : sizes.sum ≤ vec.length) :
    vectorToGradsE (.tensor .float64 (vec ++ tail)) sizes = vectorToGradsE (.tensor .float64 vec) sizes ∧
    vectorToGradsE (.tensor .float64 vec) sizes = .ok (vectorToGrads vec sizes) := by
  have h1 := assignLoop_ok vec sizes [] h
  have h2 := assignLoop_ok (vec ++ tail) sizes [] (by simp; omega)
  simp only [vectorToGradsE, h1, h2, List.nil_append, vectorToGrads_append vec tail sizes h, and_self]

theorem length_flatten_rbm (g : RBM ℝ n h) : g.flatten.length = (rbmSizes n h).sum := by
  simp [RBM.flatten, rbmSizes]

theorem length_flatten_prbm (g : PRBM ℝ n h a) : g.flatten.length = (prbmSizes n h a).sum := by
  simp [PRBM.flatten, prbmSizes]

open ArgConv in
/-- **C06.2e** `fit` never relies on the truncation: the flat gradient of a network (`compute_batch_gradients` returns one per network:
`effective_energy_gradient` / the positive phase in `parameters_to_vector` layout, `RBM.flatten`; every gradient record of the step
models `stepPos` / `stepCplx` / `stepDM` is such a `g`) has EXACTLY the total parameter count of that network, so the call
`vector_to_grads(all_grads[i], rbm.parameters())` is accepted, uses the vector up (`take` of the whole length) and gives the blocks
of `C06_lands_on_parameter`. -/
theorem C06_fit_vector_length (g : RBM ℝ n h) (gd : PRBM ℝ n h a) :
    g.flatten.length = (rbmSizes n h).sum ∧
    vectorToGradsE (.tensor .float64 g.flatten) (rbmSizes n h) = .ok (rbmParamGrads g) ∧
    (rbmParamGrads g).flatten = g.flatten ∧
    gd.flatten.length = (prbmSizes n h a).sum ∧
    vectorToGradsE (.tensor .float64 gd.flatten) (prbmSizes n h a) = .ok (prbmParamGrads gd) ∧
    (prbmParamGrads gd).flatten = gd.flatten := by
  have l1 := length_flatten_rbm g
  have l2 := length_flatten_prbm gd
  have a1 := vectorToGrads_flatten g.flatten (rbmSizes n h) (le_of_eq l1.symm)
  have a2 := vectorToGrads_flatten gd.flatten (prbmSizes n h a) (le_of_eq l2.symm)
  refine ⟨l1, (C06_slices_tail_ignored _ [] _ (le_of_eq l1.symm)).2, ?_, l2, (C06_slices_tail_ignored _ [] _ (le_of_eq l2.symm)).2, ?_⟩
  · rw [rbmParamGrads, a1.1, ← l1, List.take_length]
  · rw [prbmParamGrads, a2.1, ← l2, List.take_length]

-- the hypotheses are satisfiable and the branches distinct: exact, too long (tail dropped), too short (refused after the first
-- parameter was assigned), single-precision vector, non-tensor
example : ArgConv.vectorToGradsE (.tensor .float64 [1, 2, 3, 4, 5]) [2, 3] = .ok [[1, 2], [3, 4, 5]] := rfl
example : ArgConv.vectorToGradsE (.tensor .float64 [1, 2, 3, 4, 5, 6, 7]) [2, 3] = .ok [[1, 2], [3, 4, 5]] := rfl
example : ArgConv.vectorToGradsE (.tensor .float64 [1, 2, 3, 4]) [2, 3] = .error .RuntimeError := rfl
example : ArgConv.vectorToGradsAssigned (.tensor .float64 [1, 2, 3, 4]) [2, 3] = [[1, 2]] := rfl
example : ArgConv.vectorToGradsE (.tensor .float32 [1, 2, 3, 4, 5]) [2, 3] = .error .RuntimeError := rfl
example : ArgConv.vectorToGradsE (ArgConv.VecArg.other (α := ℕ)) [2, 3] = .error .TypeError := rfl

end QV.Props
