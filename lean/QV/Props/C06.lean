/-
C06 — Each training step applies exactly the contrastive-divergence update.

"For every batch processed during training, the gradient handed to the optimizer for the amplitude network
is the batch's positive-phase gradient minus the mean effective-energy gradient of the states reached by k
Gibbs steps from the negative-phase batch (divided by the negative batch size), the phase network receives
the positive phase only, and each value lands on the parameter it belongs to. With plain SGD the parameters
therefore move by exactly minus the learning rate times that gradient, once per batch, and a learning-rate
scheduler is advanced exactly once per epoch."

Model: QV.Model.CDStep (+ Grads). The chain end states `vk` are the result of `gibbs_steps` (property C05);
that the scheduler is stepped once per epoch is part of the event-protocol model (C12_scheduler_once_per_epoch).
-/
import QV.Model.CDStep
import QV.Lemmas.GradLin
import Mathlib.Data.List.Basic

namespace QV.Props
open QV Finset Grads CDStep

variable {n h a : ℕ}

/-- **C06.1a** the amplitude gradient handed to the optimizer pairs as
`⟨positive phase, d⟩ − (1/|neg|) Σ_m ⟨∇E_λ(v_k^m), d⟩`: positive phase minus the MEAN energy gradient of the chain end states. -/
theorem C06_batch_grad (posPhase am d : RBM ℝ n h) {M : ℕ} (vk : Fin M → Fin n → ℝ) :
    (batchGradAm posPhase am vk).pair d
      = posPhase.pair d - (∑ m, (am.effEnergyGrad1 (vk m)).pair d) / M := by
  simp only [batchGradAm, RBM.pair_sub, RBM.pair_sdiv, RBM.pair_effEnergyGrad, transc_ofNat]

theorem C06_batch_grad_prbm (posPhase am d : PRBM ℝ n h a) {M : ℕ} (vk : Fin M → Fin n → ℝ) :
    (batchGradAmDM posPhase am vk).pair d
      = posPhase.pair d - (∑ m, (am.effEnergyGrad1 (vk m)).pair d) / M := by
  simp only [batchGradAmDM, PRBM.pair_sub, PRBM.pair_sdiv, PRBM.pair_effEnergyGrad, transc_ofNat]

/-- **C06.1b** the phase network receives the positive phase only (complex and mixed states). -/
theorem C06_phase_gets_positive_phase_only (lr : ℝ) (am ph : RBM ℝ n h) (dict : Char → M2 ℝ) (D : List (Sample n))
    {M : ℕ} (vk : Fin M → Fin n → ℝ) :
    (stepCplx lr am ph dict D vk).1.2 = (positivePhaseCplx am ph dict D).2
    ∧ (stepCplx lr am ph dict D vk).1.1 = batchGradAm (positivePhaseCplx am ph dict D).1 am vk := ⟨rfl, rfl⟩

theorem C06_phase_gets_positive_phase_only_dm (lr eps : ℝ) (am ph : PRBM ℝ n h a) (dict : Char → M2 ℝ)
    (D : List (Sample n)) {M : ℕ} (vk : Fin M → Fin n → ℝ) :
    (stepDM lr eps am ph dict D vk).1.2 = (positivePhaseDM am ph dict eps D).2
    ∧ (stepDM lr eps am ph dict D vk).1.1 = batchGradAmDM (positivePhaseDM am ph dict eps D).1 am vk := ⟨rfl, rfl⟩

/-- **C06.2a** `vector_to_grads` inverts concatenation: slicing a concatenation of blocks by the blocks' lengths
returns the blocks (any number of parameters, any sizes). -/
theorem C06_slices {α : Type} (blocks : List (List α)) :
    vectorToGrads blocks.flatten (blocks.map List.length) = blocks := by
  induction blocks with
  | nil => rfl
  | cons b bs ih =>
    simp only [List.flatten_cons, List.map_cons, vectorToGrads, List.take_left', List.drop_left', ih]

theorem length_flatMap_rows {α : Type} (r c : ℕ) (f : Fin r → Fin c → α) :
    ((List.finRange r).flatMap (fun i => (List.finRange c).map (fun j => f i j))).length = r * c := by
  induction r with
  | zero => simp
  | succ k ih =>
    rw [List.finRange_succ, List.flatMap_cons, List.length_append, List.flatMap_map]
    have := ih (fun i j => f i.succ j)
    simp only [List.length_map, List.length_finRange] at this ⊢
    rw [this]; ring

/-- **C06.2b** each value lands on the parameter it belongs to: for a BinaryRBM the three gradient tensors the
optimizer sees are the `W` block (row-major), the `b` block and the `c` block of the model's gradient record. -/
theorem C06_lands_on_parameter (g : RBM ℝ n h) :
    rbmParamGrads g
      = [(List.finRange h).flatMap (fun i => (List.finRange n).map (fun j => g.W i j)),
         (List.finRange n).map g.b, (List.finRange h).map g.c] := by
  have := C06_slices [(List.finRange h).flatMap (fun i => (List.finRange n).map (fun j => g.W i j)),
         (List.finRange n).map g.b, (List.finRange h).map g.c]
  simp only [List.map_cons, List.map_nil, List.length_map, List.length_finRange, length_flatMap_rows] at this
  simpa [rbmParamGrads, rbmSizes, RBM.flatten, List.flatten] using this

theorem C06_lands_on_parameter_prbm (g : PRBM ℝ n h a) :
    prbmParamGrads g
      = [(List.finRange h).flatMap (fun i => (List.finRange n).map (fun j => g.W i j)),
         (List.finRange a).flatMap (fun k => (List.finRange n).map (fun j => g.U k j)),
         (List.finRange n).map g.b, (List.finRange h).map g.c, (List.finRange a).map g.d] := by
  have := C06_slices [(List.finRange h).flatMap (fun i => (List.finRange n).map (fun j => g.W i j)),
         (List.finRange a).flatMap (fun k => (List.finRange n).map (fun j => g.U k j)),
         (List.finRange n).map g.b, (List.finRange h).map g.c, (List.finRange a).map g.d]
  simp only [List.map_cons, List.map_nil, List.length_map, List.length_finRange, length_flatMap_rows] at this
  simpa [prbmParamGrads, prbmSizes, PRBM.flatten, List.flatten] using this

/-- row-major view: entry `(i, j)` of the weight gradient is element `i*n + j` of its block -/
theorem C06_weight_block_entry (g : RBM ℝ n h) (i : Fin h) (j : Fin n) :
    ((List.finRange h).flatMap (fun i => (List.finRange n).map (fun j => g.W i j)))[i.val * n + j.val]?
      = some (g.W i j) := by
  induction h with
  | zero => exact i.elim0
  | succ k ih =>
    rw [List.finRange_succ, List.flatMap_cons, List.flatMap_map]
    refine Fin.cases ?_ (fun i' => ?_) i
    · simp [List.getElem?_append_left, j.isLt]
    · have := ih ⟨fun a b => g.W a.succ b, g.b, fun a => g.c a.succ⟩ i'
      rw [List.getElem?_append_right (by simp; nlinarith [i'.isLt, j.isLt])]
      simp only [List.length_map, List.length_finRange, Fin.val_succ]
      have e : (i'.val + 1) * n + j.val - n = i'.val * n + j.val := by
        rw [Nat.add_mul, Nat.one_mul]; omega
      rw [e]
      exact this

/-- **C06.3a** plain SGD: every parameter moves by exactly `−lr · gradient`. -/
theorem C06_sgd_step (lr : ℝ) (p g : RBM ℝ n h) :
    (∀ i j, (sgdStep lr p g).W i j = p.W i j - lr * g.W i j)
    ∧ (∀ j, (sgdStep lr p g).b j = p.b j - lr * g.b j) ∧ (∀ i, (sgdStep lr p g).c i = p.c i - lr * g.c i) :=
  ⟨fun _ _ => rfl, fun _ => rfl, fun _ => rfl⟩

/-- **C06.3b** over a whole run the parameters are the fold of single updates, batch `t`'s gradient being evaluated at
the result of all earlier updates; the number of updates is the number of batches processed. -/
theorem C06_run_unfold (lr : ℝ) (am0 : RBM ℝ n h)
    (bs : List ((Σ B : ℕ, Fin B → Fin n → ℝ) × (Σ M : ℕ, Fin M → Fin n → ℝ)))
    (b : (Σ B : ℕ, Fin B → Fin n → ℝ) × (Σ M : ℕ, Fin M → Fin n → ℝ)) :
    runPos lr am0 (bs ++ [b]) = (stepPos lr (runPos lr am0 bs) b.1.2 b.2.2).2 := by
  simp [runPos, List.foldl_append]

/-- non-vacuity: a concrete step with `|neg| ≠ |pos|` -/
example : let am : RBM ℝ 2 1 := ⟨fun _ _ => 0.5, fun _ => -0.25, fun _ => 1⟩
    ∀ d, (batchGradAm (positivePhasePos am (fun (_ : Fin 3) _ => 1)) am (fun (_ : Fin 2) _ => 0)).pair d
      = (positivePhasePos am (fun (_ : Fin 3) _ => 1)).pair d
        - (∑ m : Fin 2, (am.effEnergyGrad1 (fun _ => 0)).pair d) / (2 : ℕ) := by
  intro am d; exact C06_batch_grad _ _ _ _

end QV.Props
