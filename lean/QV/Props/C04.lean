/-
C04 — Measurement-basis rotations equal the tensor-product unitary they denote.

"For every basis string over the state's unitary dictionary, rotating a wavefunction or density
matrix (given explicitly or taken from the model), and computing rotated amplitudes or rotated Born
probabilities of any batch of outcomes, gives exactly what the dense Kronecker product of the per-site
unitaries gives: U psi, U rho U^dagger, and their entries/diagonal. The default dictionary maps Z to
the identity and X, Y to unitaries whose rows are the +1 and -1 eigenvectors (in that order) of the
Pauli X and Y operators, and the rotated probabilities of a physical state are non-negative and sum to
its normalisation in every basis."

Model: QV.Model.Unitaries (executed against qucumber/utils/unitaries.py by the C04 correspondence).
All theorems: ∀ n, ∀ per-site 2×2 complex matrices (not only the default dictionary), ∀ ψ, ρ.
-/
import Mathlib.LinearAlgebra.Matrix.PosDef
import Mathlib.LinearAlgebra.Matrix.Kronecker
import Mathlib.Analysis.SpecialFunctions.Sqrt
import QV.Lemmas.Kron
import QV.Lemmas.KronLoop
import QV.Lemmas.Hilbert
import QV.Lemmas.Expand
import QV.Real
import QV.Props.C01
import QV.Props.C02
import QV.Lemmas.ArgConv

namespace QV.Props
open QV Finset Unitaries Matrix
open scoped ComplexOrder

variable {n : ℕ}

/-- a per-site matrix decoded as a complex 2×2 matrix indexed by bits -/
def m2c (m : M2 ℝ) : Matrix Bool Bool ℂ := fun r c => toC (m r c)

/-- **Specification**: the dense tensor-product operator, `K(σ,τ) = Π_j U_j(σ_j, τ_j)`. -/
def denseK (us : Fin n → M2 ℝ) : Matrix (Fin n → Bool) (Fin n → Bool) ℂ :=
  fun σ τ => ∏ j, m2c (us j) (σ j) (τ j)

/-- a flat complex vector (position `k` ↔ basis state with big-endian index `k`) as a vector over bit-strings -/
def psiVec (ψ : ℕ → C ℝ) : (Fin n → Bool) → ℂ := fun τ => toC (ψ (idxOf τ))
/-- a flat complex matrix as a matrix over bit-strings -/
def rhoMat (ρ : ℕ → ℕ → C ℝ) : Matrix (Fin n → Bool) (Fin n → Bool) ℂ :=
  fun σ τ => toC (ρ (idxOf σ) (idxOf τ))

/-- position `k` of every array is the basis state whose big-endian expansion is `k`:
`idxOf` agrees with the model of `_convert_basis_element_to_index`. -/
theorem C04_index_convention (σ : Fin n → Bool) : basisIndex σ = idxOf σ := by
  unfold basisIndex
  induction n with
  | zero => simp [idxOf, basisIndexL]
  | succ k ih =>
    rw [List.finRange_succ, List.map_cons, basisIndexL, idxOf_succ, List.map_map]
    have := ih (fun j => σ j.succ)
    simp only [List.length_map, List.length_finRange]
    rw [← this]
    rfl

/-- **C04.1/3a** `rotate_psi` (= `_kron_mult` stage by stage, with the code's strides) is the dense
operator applied to ψ. -/
theorem C04_rotate_psi (us : Fin n → M2 ℝ) (ψ : ℕ → C ℝ) :
    psiVec (rotatePsi n us ψ) = (denseK us).mulVec (psiVec ψ) := by
  funext σ
  have := kronMult_dense (V := ℂ) C.add C.mul toC toC_add (fun c a => by simp) us ψ σ
  simp only [psiVec, rotatePsi, Matrix.mulVec, dotProduct, denseK, m2c]
  rw [this]
  simp [smul_eq_mul]

/-- row-valued `_kron_mult` decoded entrywise -/
theorem kronRow (us : Fin n → M2 ℝ) (x : ℕ → Row ℝ) (σ : Fin n → Bool) (j : ℕ) :
      toC (kronMult addRow actRow n us x (idxOf σ) j)
        = ∑ τ' : Fin n → Bool, (∏ k, toC (us k (σ k) (τ' k))) * toC (x (idxOf τ') j) := by
  have := congrFun (kronMult_dense (V := ℕ → ℂ) addRow actRow (fun r j => toC (r j))
    (fun a b => by funext j; simp [addRow]) (fun c a => by funext j; simp [actRow]) us x σ) j
  simpa [Finset.sum_apply, Pi.smul_apply, smul_eq_mul] using this

/-- **C04.3b** `rotate_rho` is `K ρᴴ Kᴴ` for EVERY complex matrix ρ (the code conjugate-transposes between
its two `_kron_mult` calls) … -/
theorem C04_rotate_rho (us : Fin n → M2 ℝ) (ρ : ℕ → ℕ → C ℝ) :
    rhoMat (n := n) (rotateRho n us ρ) = denseK us * (rhoMat ρ)ᴴ * (denseK us)ᴴ := by
  funext σ τ
  simp only [rhoMat, rotateRho]
  rw [kronRow]
  simp only [toC_conj, kronRow, map_sum, map_mul, map_prod]
  simp only [Matrix.mul_apply, Matrix.conjTranspose_apply, denseK, m2c, rhoMat, Finset.sum_mul, Finset.mul_sum,
    ← starRingEnd_apply, map_prod]
  rw [Finset.sum_comm]
  refine Finset.sum_congr rfl (fun a _ => Finset.sum_congr rfl (fun b _ => ?_))
  ring

/-- … hence `K ρ Kᴴ` for a Hermitian ρ. -/
theorem C04_rotate_rho_hermitian (us : Fin n → M2 ℝ) (ρ : ℕ → ℕ → C ℝ)
    (hρ : (rhoMat (n := n) ρ).IsHermitian) :
    rhoMat (n := n) (rotateRho n us ρ) = denseK us * rhoMat ρ * (denseK us)ᴴ := by
  rw [C04_rotate_rho, hρ.eq]

/-- **C04.2** the dense operator is the iterated Kronecker product, site 0 the LEFTMOST factor … -/
theorem C04_dense_eq_kronecker (us : Fin (n + 1) → M2 ℝ) (σ τ : Fin (n + 1) → Bool) :
    denseK us σ τ
      = (Matrix.kroneckerMap (· * ·) (m2c (us 0)) (denseK (fun j : Fin n => us j.succ)))
          (σ 0, fun j => σ j.succ) (τ 0, fun j => τ j.succ) := by
  simp [denseK, Fin.prod_univ_succ, Matrix.kroneckerMap_apply]

/-- … and the most significant bit of the array position (C19): `idx σ = σ_0·2^n + idx (tail σ)`. -/
theorem C04_site0_msb (σ : Fin (n + 1) → Bool) :
    idxOf σ = (if σ 0 then 2 ^ n else 0) + idxOf (fun j : Fin n => σ j.succ) := idxOf_succ σ

/-! ### the fast paths `rotate_psi_inner_prod` / `rotate_rho_probs` -/

/-- the operator the fast path applies: the dictionary matrix on rotated sites, the IDENTITY on sites whose
letter is `Z` (whatever the dictionary says for `Z`). -/
def fastK (us : Fin n → M2 ℝ) (rot : Fin n → Bool) : Matrix (Fin n → Bool) (Fin n → Bool) ℂ :=
  fun σ τ => ∏ j, if rot j then m2c (us j) (σ j) (τ j) else if σ j = τ j then 1 else 0

theorem fastK_apply (us : Fin n → M2 ℝ) (rot : Fin n → Bool) (σ τ : Fin n → Bool) :
    fastK us rot σ τ = if agreesOff n rot σ τ then toC (rotCoeff n us rot σ τ) else 0 := by
  unfold fastK agreesOff rotCoeff
  split
  · rename_i h
    rw [toC_prod]
    refine Finset.prod_congr rfl (fun j _ => ?_)
    have hj := List.all_eq_true.mp h j (List.mem_finRange j)
    by_cases hr : rot j
    · simp [hr, m2c]
    · simp only [hr, Bool.false_or, beq_iff_eq] at hj
      simp [hr, hj]
  · rename_i h
    have : ∃ j, ¬ (rot j || (σ j == τ j)) = true := by
      by_contra hcon
      push Not at hcon
      exact h (List.all_eq_true.mpr (fun j _ => hcon j))
    obtain ⟨j, hj⟩ := this
    apply Finset.prod_eq_zero (mem_univ j)
    have hr : rot j = false := by cases h' : rot j <;> simp_all
    have hne : σ j ≠ τ j := by intro e; simp [e] at hj
    simp [hr, hne]

/-- the fast path's operator is the dense one whenever the dictionary maps every non-rotated letter to 1 -/
theorem C04_fastK_eq_dense (us : Fin n → M2 ℝ) (rot : Fin n → Bool)
    (hZ : ∀ j, rot j = false → m2c (us j) = 1) : fastK us rot = denseK us := by
  funext σ τ
  unfold fastK denseK
  refine Finset.prod_congr rfl (fun j _ => ?_)
  by_cases hr : rot j
  · simp [hr]
  · have := hZ j (by simpa using hr)
    simp [hr, this, Matrix.one_apply]

/-- **C04.4** `rotate_psi_inner_prod(basis, σ)` is entry σ of `K ψ` (ψ from the model or given explicitly —
the explicit path only looks ψ up by index, `C04_index_convention`). -/
theorem C04_inner_prod (us : Fin n → M2 ℝ) (rot : Fin n → Bool) (ψ : (Fin n → Bool) → C ℝ)
    (σ : Fin n → Bool) :
    toC (rotatePsiInnerProd n us rot ψ σ) = (fastK us rot).mulVec (fun τ => toC (ψ τ)) σ := by
  unfold rotatePsiInnerProd
  rw [toC_sum]
  simp only [Matrix.mulVec, dotProduct]
  rw [← sum_rows n (fun τ => fastK us rot σ τ * toC (ψ τ))]
  refine Finset.sum_congr rfl (fun k _ => ?_)
  rw [fastK_apply]
  show toC (if agreesOff n rot σ (rowBits n k.val) = true then _ else _) = _
  by_cases h : agreesOff n rot σ (rowBits n k.val) = true
  · rw [if_pos h, if_pos h, toC_mul]; rfl
  · rw [if_neg h, if_neg h, toC_zero, zero_mul]

theorem C04_inner_prod_dense (us : Fin n → M2 ℝ) (rot : Fin n → Bool) (ψ : (Fin n → Bool) → C ℝ)
    (σ : Fin n → Bool) (hZ : ∀ j, rot j = false → m2c (us j) = 1) :
    toC (rotatePsiInnerProd n us rot ψ σ) = (denseK us).mulVec (fun τ => toC (ψ τ)) σ := by
  rw [C04_inner_prod, C04_fastK_eq_dense us rot hZ]

/-- **C04.5** `rotate_rho_probs(basis, σ)` is the real part of the diagonal entry of `K ρ Kᴴ`. -/
theorem C04_rho_probs (us : Fin n → M2 ℝ) (rot : Fin n → Bool)
    (ρ : (Fin n → Bool) → (Fin n → Bool) → C ℝ) (σ : Fin n → Bool) :
    rotateRhoProbs n us rot ρ σ
      = ((fastK us rot * (Matrix.of fun a b => toC (ρ a b)) * (fastK us rot)ᴴ) σ σ).re := by
  unfold rotateRhoProbs
  simp only [sumFin_eq]
  simp only [Matrix.mul_apply, Matrix.conjTranspose_apply, Matrix.of_apply, Complex.re_sum, Finset.sum_mul]
  conv_rhs => rw [Finset.sum_comm]
  rw [← sum_rows n (fun τ1 => ∑ τ2, (fastK us rot σ τ1 * toC (ρ τ1 τ2) * star (fastK us rot σ τ2)).re)]
  refine Finset.sum_congr rfl (fun k _ => ?_)
  rw [← sum_rows n (fun τ2 => (fastK us rot σ (rowBits n k.val) * toC (ρ (rowBits n k.val) τ2) * star (fastK us rot σ τ2)).re)]
  refine Finset.sum_congr rfl (fun l _ => ?_)
  rw [fastK_apply, fastK_apply]
  show (if (agreesOff n rot σ (rowBits n k.val) && agreesOff n rot σ (rowBits n l.val)) = true then
      (C.mul (C.mul (rotCoeff n us rot σ (rowBits n k.val)) (C.conj (rotCoeff n us rot σ (rowBits n l.val))))
        (ρ (rowBits n k.val) (rowBits n l.val))).1 else 0) = _
  by_cases a1 : agreesOff n rot σ (rowBits n k.val) = true <;> by_cases a2 : agreesOff n rot σ (rowBits n l.val) = true
  · simp only [a1, a2, Bool.and_self, if_true, ← toC_re, toC_mul, toC_conj, starRingEnd_apply]
    congr 1; ring
  all_goals simp [a1, a2]

/-- with an identity for every non-rotated letter: the diagonal of the dense `K ρ Kᴴ` -/
theorem C04_rho_probs_dense (us : Fin n → M2 ℝ) (rot : Fin n → Bool)
    (ρ : (Fin n → Bool) → (Fin n → Bool) → C ℝ) (σ : Fin n → Bool)
    (hZ : ∀ j, rot j = false → m2c (us j) = 1) :
    rotateRhoProbs n us rot ρ σ
      = ((denseK us * (Matrix.of fun a b => toC (ρ a b)) * (denseK us)ᴴ) σ σ).re := by
  rw [C04_rho_probs, C04_fastK_eq_dense us rot hZ]


/-! ### the fast paths AS CODED: `_rotate_basis_state` enumerates the expanded states (what the driver executes)

`rotatePsiInnerProdE` / `rotateRhoProbsE` fold over `expandStates n rot σ` — the list `v` the code builds by writing
`generate_hilbert_space(size = #rotated)` into the rotated sites — in list order. -/

/-- **C04.4/5 (enumeration)** what `_rotate_basis_state` enumerates, for every basis pattern and sample:
the expanded states are pairwise distinct; they are exactly the states that agree with the sample on every non-rotated
site; there are `2^#rotated` of them; the list is a reordering of the full space (in `generate_hilbert_space()` order)
filtered by `agreesOff`; and the ORDER is the code's: state number `i` carries, at the `p`-th rotated site (sites in
increasing order, `rotSites n rot = (finRange n).filter rot`), bit `m-1-p` of `i` — row `i` of the size-`m` space, big-endian. -/
theorem C04_expand_enumerates (rot σ : Fin n → Bool) :
    (expandStates n rot σ).Nodup
    ∧ (∀ τ, τ ∈ expandStates n rot σ ↔ ∀ j, rot j = false → τ j = σ j)
    ∧ (expandStates n rot σ).length = 2 ^ (univ.filter (fun s : Fin n => rot s = true)).card
    ∧ (expandStates n rot σ).Perm ((allStates n).filter (fun τ => agreesOff n rot σ τ))
    ∧ (∀ (i : ℕ) (hi : i < (expandStates n rot σ).length) (p : Fin (rotSites n rot).length),
        (expandStates n rot σ)[i] ((rotSites n rot)[p.val])
          = Nat.testBit i ((rotSites n rot).length - 1 - p.val)) := by
  refine ⟨expandStates_nodup rot σ, fun τ => ?_, expandStates_length rot σ, expandStates_perm rot σ, ?_⟩
  · rw [mem_expandStates_iff, agreesOff_iff]
  · intro i hi p
    rw [expandStates_getElem]
    exact expandAt_site rot σ i p

/-- **C04.4 (as coded)** `rotate_psi_inner_prod(basis, σ)` computed by enumerating the expanded states is entry σ of `K ψ`. -/
theorem C04_inner_prod_enum (us : Fin n → M2 ℝ) (rot : Fin n → Bool) (ψ : (Fin n → Bool) → C ℝ)
    (σ : Fin n → Bool) :
    toC (rotatePsiInnerProdE n us rot ψ σ) = (fastK us rot).mulVec (fun τ => toC (ψ τ)) σ := by
  rw [rotatePsiInnerProdE_eq, C04_inner_prod]

theorem C04_inner_prod_enum_dense (us : Fin n → M2 ℝ) (rot : Fin n → Bool) (ψ : (Fin n → Bool) → C ℝ)
    (σ : Fin n → Bool) (hZ : ∀ j, rot j = false → m2c (us j) = 1) :
    toC (rotatePsiInnerProdE n us rot ψ σ) = (denseK us).mulVec (fun τ => toC (ψ τ)) σ := by
  rw [C04_inner_prod_enum, C04_fastK_eq_dense us rot hZ]

/-- **C04.5 (as coded)** `rotate_rho_probs(basis, σ)` computed by the double enumeration is the real part of the diagonal
entry of `K ρ Kᴴ`. -/
theorem C04_rho_probs_enum (us : Fin n → M2 ℝ) (rot : Fin n → Bool)
    (ρ : (Fin n → Bool) → (Fin n → Bool) → C ℝ) (σ : Fin n → Bool) :
    rotateRhoProbsE n us rot ρ σ
      = ((fastK us rot * (Matrix.of fun a b => toC (ρ a b)) * (fastK us rot)ᴴ) σ σ).re := by
  rw [rotateRhoProbsE_eq, C04_rho_probs]

theorem C04_rho_probs_enum_dense (us : Fin n → M2 ℝ) (rot : Fin n → Bool)
    (ρ : (Fin n → Bool) → (Fin n → Bool) → C ℝ) (σ : Fin n → Bool)
    (hZ : ∀ j, rot j = false → m2c (us j) = 1) :
    rotateRhoProbsE n us rot ρ σ
      = ((denseK us * (Matrix.of fun a b => toC (ρ a b)) * (denseK us)ᴴ) σ σ).re := by
  rw [C04_rho_probs_enum, C04_fastK_eq_dense us rot hZ]

/-- the coefficients `Ut_i` paired with the states by `_rotate_basis_state` are the entries of row σ of the fast-path
operator at the enumerated states -/
theorem C04_rotate_basis_state (us : Fin n → M2 ℝ) (rot σ : Fin n → Bool) :
    (rotateBasisState n us rot σ).map (fun cv => (toC cv.1, cv.2))
      = (expandStates n rot σ).map (fun v => (fastK us rot σ v, v)) := by
  unfold rotateBasisState
  rw [List.map_map]
  refine List.map_congr_left (fun v hv => ?_)
  simp only [Function.comp, fastK_apply, (mem_expandStates_iff rot σ v).mp hv, if_true]

/-- non-vacuity / order witness: 3 sites, the middle one not rotated, sample `σ = (1,1,0)`: the four expanded states in the
code's order are `010, 011, 110, 111` (site 0 is the slow bit of the size-2 space) -/
example :
    (expandStates 3 ![true, false, true] ![true, true, false]).map (fun v => (List.finRange 3).map v)
      = [[false, true, false], [false, true, true], [true, true, false], [true, true, true]] := by
  decide


/-! ### the loop form of `_kron_mult` (what the driver executes) -/

/-- **C04.1 (loops)** `rotate_psi` computed with the code's three nested loops and in-place slice updates is the dense
operator applied to ψ. -/
theorem C04_rotate_psi_loop (us : Fin n → M2 ℝ) (ψ : List (C ℝ)) (hψ : ψ.length = 2 ^ n) :
    (fun σ : Fin n → Bool => toC ((rotatePsiL n us ψ).getD (idxOf σ) default))
      = (denseK us).mulVec (fun τ => toC (ψ.getD (idxOf τ) default)) := by
  have h := C04_rotate_psi us (fun j => ψ.getD j default)
  have h' : (denseK us).mulVec (fun τ : Fin n → Bool => toC (ψ.getD (idxOf τ) default))
      = psiVec (rotatePsi n us (fun j => ψ.getD j default)) := h.symm
  rw [h']
  funext σ
  simp only [psiVec, rotatePsi, rotatePsiL]
  rw [kronMultLoop_eq C.add C.mul n us ψ hψ (idxOf σ) (idxOf_lt σ)]

/-- **C04.3 (loops)** `rotate_rho` computed with the code's loops (rows carried along, conjugate transpose in between) is
`K ρᴴ Kᴴ`, entry by entry. -/
theorem C04_rotate_rho_loop (us : Fin n → M2 ℝ) (ρ : List (Row ℝ)) (hρ : ρ.length = 2 ^ n) :
    (Matrix.of fun σ τ : Fin n → Bool => toC ((rotateRhoL n us ρ).getD (idxOf σ) default (idxOf τ)))
      = denseK us * (rhoMat (fun i j => ρ.getD i default j))ᴴ * (denseK us)ᴴ := by
  rw [← C04_rotate_rho us (fun i j => ρ.getD i default j)]
  funext σ τ
  simp only [rhoMat, Matrix.of_apply]
  rw [rotateRhoL_eq n us ρ hρ _ _ (idxOf_lt σ) (idxOf_lt τ)]

/-! ### unitarity and physical probabilities -/

/-- if every per-site matrix is unitary, so is the dense operator -/
theorem C04_dense_unitary (us : Fin n → M2 ℝ) (hU : ∀ j, (m2c (us j))ᴴ * m2c (us j) = 1) :
    (denseK us)ᴴ * denseK us = 1 := by
  funext τ τ'
  have key : ∀ j, ∑ b : Bool, (starRingEnd ℂ) (m2c (us j) b (τ j)) * m2c (us j) b (τ' j)
      = if τ j = τ' j then 1 else 0 := by
    intro j
    have := congrFun (congrFun (hU j) (τ j)) (τ' j)
    simpa [Matrix.mul_apply, Matrix.conjTranspose_apply, Matrix.one_apply] using this
  have hsum : (∑ σ : Fin n → Bool, ∏ j, (starRingEnd ℂ) (m2c (us j) (σ j) (τ j)) * m2c (us j) (σ j) (τ' j))
      = ∏ j, ∑ b : Bool, (starRingEnd ℂ) (m2c (us j) b (τ j)) * m2c (us j) b (τ' j) := by
    rw [Finset.prod_univ_sum, Fintype.piFinset_univ]
  have lhs : ((denseK us)ᴴ * denseK us) τ τ'
      = ∑ σ : Fin n → Bool, ∏ j, (starRingEnd ℂ) (m2c (us j) (σ j) (τ j)) * m2c (us j) (σ j) (τ' j) := by
    simp only [Matrix.mul_apply, Matrix.conjTranspose_apply, denseK, ← starRingEnd_apply, map_prod,
      Finset.prod_mul_distrib]
  rw [lhs, hsum]
  simp only [key, Matrix.one_apply]
  by_cases h : τ = τ'
  · subst h; simp
  · rw [if_neg h]
    obtain ⟨j, hj⟩ := Function.ne_iff.mp h
    exact Finset.prod_eq_zero (mem_univ j) (by simp [hj])

/-- **C04.7a** rotated Born probabilities of a wavefunction sum to its squared norm in every basis -/
theorem C04_psi_probs_sum (us : Fin n → M2 ℝ) (hU : ∀ j, (m2c (us j))ᴴ * m2c (us j) = 1) (ψ : ℕ → C ℝ) :
    ∑ σ : Fin n → Bool, Complex.normSq (psiVec (rotatePsi n us ψ) σ)
      = ∑ σ : Fin n → Bool, Complex.normSq (psiVec (n := n) ψ σ) := by
  rw [C04_rotate_psi]
  have hK := C04_dense_unitary us hU
  have : star ((denseK us).mulVec (psiVec ψ)) ⬝ᵥ ((denseK us).mulVec (psiVec ψ))
       = star (psiVec (n := n) ψ) ⬝ᵥ psiVec ψ := by
    rw [Matrix.star_mulVec, Matrix.dotProduct_mulVec, Matrix.vecMul_vecMul, hK, Matrix.vecMul_one]
  have conv : ∀ v : (Fin n → Bool) → ℂ, ((star v ⬝ᵥ v : ℂ)).re = ∑ σ, Complex.normSq (v σ) := by
    intro v
    simp only [dotProduct, Pi.star_apply, Complex.re_sum]
    refine Finset.sum_congr rfl (fun σ _ => ?_)
    simp [Complex.normSq_apply, Complex.mul_re]
  rw [← conv, ← conv, this]

/-- **C04.7b** rotated probabilities of a positive-semidefinite ρ are non-negative … -/
theorem C04_rho_probs_nonneg (K ρ : Matrix (Fin n → Bool) (Fin n → Bool) ℂ) (hρ : ρ.PosSemidef)
    (σ : Fin n → Bool) : 0 ≤ ((K * ρ * Kᴴ) σ σ).re := by
  have h := hρ.mul_mul_conjTranspose_same K
  have := h.diag_nonneg (i := σ)
  exact (Complex.nonneg_iff.mp this).1

/-- … and sum to the trace of ρ when `K` is unitary. -/
theorem C04_rho_probs_sum (K ρ : Matrix (Fin n → Bool) (Fin n → Bool) ℂ) (hK : Kᴴ * K = 1) :
    ∑ σ, (K * ρ * Kᴴ) σ σ = Matrix.trace ρ := by
  have : Matrix.trace (K * ρ * Kᴴ) = Matrix.trace ρ := by
    rw [Matrix.trace_mul_cycle, hK, Matrix.one_mul]
  simpa [Matrix.trace] using this

/-! ### the default dictionary -/

theorem invSqrt2_sq : (invSqrt2 : ℝ) * invSqrt2 = 1 / 2 := by
  simp only [invSqrt2, two_eq, transc_sqrt]
  rw [div_mul_div_comm, Real.mul_self_sqrt (by norm_num)]; norm_num

/-- Pauli matrices and the eigenvalue pattern, rows/columns indexed by the bit (false = 0, true = 1) -/
def pauliX : Matrix Bool Bool ℂ := fun r c => if r = c then 0 else 1
def pauliY : Matrix Bool Bool ℂ := fun r c => if r = c then 0 else if r then Complex.I else -Complex.I
def diagPM : Matrix Bool Bool ℂ := fun r c => if r = c then (if r then -1 else 1) else 0

/-- **C04.6a** `Z ↦ identity` -/
theorem C04_dZ : m2c (dZ : M2 ℝ) = 1 := by
  funext r c
  cases r <;> cases c <;> simp [m2c, dZ, Matrix.one_apply] <;> rfl

/-- **C04.6b** `X` is unitary and its rows are the bras of the +1, −1 eigenvectors of σ_x, in that order:
`U σ_x = diag(+1,−1) U`. -/
theorem C04_dX_unitary : (m2c (dX : M2 ℝ))ᴴ * m2c dX = 1 := by
  have h := invSqrt2_sq
  funext r c
  cases r <;> cases c <;>
    simp [m2c, dX, Matrix.mul_apply, Matrix.conjTranspose_apply, Matrix.one_apply, Complex.ext_iff, h] <;> norm_num

theorem C04_dX_eigen : m2c (dX : M2 ℝ) * pauliX = diagPM * m2c dX := by
  funext r c
  cases r <;> cases c <;>
    simp [m2c, dX, pauliX, diagPM, Matrix.mul_apply, Complex.ext_iff]

theorem C04_dY_unitary : (m2c (dY : M2 ℝ))ᴴ * m2c dY = 1 := by
  have h := invSqrt2_sq
  funext r c
  cases r <;> cases c <;>
    simp [m2c, dY, Matrix.mul_apply, Matrix.conjTranspose_apply, Matrix.one_apply, Complex.ext_iff, h] <;> norm_num

theorem C04_dY_eigen : m2c (dY : M2 ℝ) * pauliY = diagPM * m2c dY := by
  funext r c
  cases r <;> cases c <;>
    simp [m2c, dY, pauliY, diagPM, Matrix.mul_apply, Complex.ext_iff]

/-- non-vacuity: the default dictionary satisfies the unitarity hypothesis used above, for any basis string -/
example (basis : Fin 3 → Fin 3) :
    let us : Fin 3 → M2 ℝ := fun j => match basis j with | 0 => dX | 1 => dY | _ => dZ
    ∀ j, (m2c (us j))ᴴ * m2c (us j) = 1 := by
  intro us j
  simp only [us]
  split
  · exact C04_dX_unitary
  · exact C04_dY_unitary
  · rw [C04_dZ]; simp


/-! ## Audit round: dictionary resolution (`_unitaries_of`, `create_dict`), the `Z` letter, composed physical probabilities -/

/-- SPEC side: the per-site matrices a basis string denotes over a dictionary -/
def usOfDict (d : UDict ℝ) (basis : Fin n → Char) : Fin n → M2 ℝ := fun j => (d.lookup (basis j)).getD dZ

theorem siteUs_ok (d : UDict ℝ) (use : Fin n → Bool) (basis : Fin n → Char)
    (h : ∀ j, use j = true → (d.lookup (basis j)).isSome = true) :
    siteUs d use basis = .ok (usOfDict d basis) := by
  unfold siteUs
  rw [if_pos]
  · rfl
  · refine List.all_eq_true.mpr (fun j _ => ?_)
    cases hu : use j
    · simp
    · simp [h j hu]

theorem siteUs_err (d : UDict ℝ) (use : Fin n → Bool) (basis : Fin n → Char)
    (h : ∃ j, use j = true ∧ d.lookup (basis j) = none) :
    siteUs d use basis = .error .KeyError := by
  obtain ⟨j, hu, hl⟩ := h
  unfold siteUs
  rw [if_neg]
  intro hall
  have := List.all_eq_true.mp hall j (List.mem_finRange j)
  simp [hu, hl] at this

theorem C04_unitaries_of (given own : Option (UDict ℝ)) :
    (∀ e d, given = some (e :: d) → unitariesOf given own = e :: d)
    ∧ ((given = none ∨ given = some []) → ∀ o, own = some o → unitariesOf given own = o)
    ∧ ((given = none ∨ given = some []) → own = none → unitariesOf given own = createDict []) := by
  refine ⟨?_, ?_, ?_⟩
  · rintro e d rfl; rfl
  · rintro (rfl | rfl) o rfl <;> rfl
  · rintro (rfl | rfl) rfl <;> rfl

theorem C04_create_dict (kw : UDict ℝ) (c : Char) :
    (createDict kw).lookup c = (kw.lookup c).or ((createDict ([] : UDict ℝ)).lookup c)
    ∧ (createDict ([] : UDict ℝ)).lookup 'X' = some dX
    ∧ (createDict ([] : UDict ℝ)).lookup 'Y' = some dY
    ∧ (createDict ([] : UDict ℝ)).lookup 'Z' = some dZ
    ∧ (c ≠ 'X' → c ≠ 'Y' → c ≠ 'Z' → (createDict ([] : UDict ℝ)).lookup c = none) := by
  refine ⟨?_, ?_, ?_, ?_, ?_⟩
  · simp [createDict, List.lookup_append]
  · simp [createDict]
  · simp [createDict, List.lookup]
  · simp [createDict, List.lookup]
  · intro h1 h2 h3
    have e1 : (c == 'X') = false := by simpa using h1
    have e2 : (c == 'Y') = false := by simpa using h2
    have e3 : (c == 'Z') = false := by simpa using h3
    simp [createDict, List.lookup, e1, e2, e3]


/-! ### the four entry points from the dictionary resolution on -/

theorem C04_rotate_psi_dict (given own : Option (UDict ℝ)) (basis : Fin n → Char) (ψ : List (C ℝ)) :
    (∀ j, ((unitariesOf given own).lookup (basis j)).isSome = true) → ψ.length = 2 ^ n →
      ∃ out, rotatePsiD given own basis ψ = .ok out ∧
        (fun σ : Fin n → Bool => toC (out.getD (idxOf σ) default))
          = (denseK (usOfDict (unitariesOf given own) basis)).mulVec (fun τ => toC (ψ.getD (idxOf τ) default)) := by
  intro hall hψ
  refine ⟨rotatePsiL n (usOfDict (unitariesOf given own) basis) ψ, ?_, C04_rotate_psi_loop _ ψ hψ⟩
  unfold rotatePsiD
  rw [siteUs_ok _ _ _ (fun j _ => hall j)]
  simp [hψ, bind, Except.bind, pure, Except.pure]

theorem C04_rotate_psi_dict_errors (given own : Option (UDict ℝ)) (basis : Fin n → Char) (ψ : List (C ℝ)) :
    ((∃ j, (unitariesOf given own).lookup (basis j) = none) → rotatePsiD given own basis ψ = .error .KeyError)
    ∧ ((∀ j, ((unitariesOf given own).lookup (basis j)).isSome = true) → ψ.length ≠ 2 ^ n →
        rotatePsiD given own basis ψ = .error .ValueError) := by
  constructor
  · rintro ⟨j, hj⟩
    unfold rotatePsiD
    rw [siteUs_err _ _ _ ⟨j, rfl, hj⟩]
    rfl
  · intro hall hψ
    unfold rotatePsiD
    rw [siteUs_ok _ _ _ (fun j _ => hall j)]
    have : (2 ^ n != ψ.length) = true := by simpa using fun h => hψ h.symm
    simp [this, bind, Except.bind, throw, throwThe, MonadExceptOf.throw]

theorem C04_rotate_rho_dict (given own : Option (UDict ℝ)) (basis : Fin n → Char) (ρ : List (Row ℝ)) :
    (∀ j, ((unitariesOf given own).lookup (basis j)).isSome = true) → ρ.length = 2 ^ n →
      ∃ out, rotateRhoD given own basis ρ = .ok out ∧
        (Matrix.of fun σ τ : Fin n → Bool => toC (out.getD (idxOf σ) default (idxOf τ)))
          = denseK (usOfDict (unitariesOf given own) basis) * (rhoMat (fun i j => ρ.getD i default j))ᴴ
              * (denseK (usOfDict (unitariesOf given own) basis))ᴴ := by
  intro hall hρ
  refine ⟨rotateRhoL n (usOfDict (unitariesOf given own) basis) ρ, ?_, C04_rotate_rho_loop _ ρ hρ⟩
  unfold rotateRhoD
  rw [siteUs_ok _ _ _ (fun j _ => hall j)]
  simp [hρ, bind, Except.bind, pure, Except.pure]

/-- the dictionary-level form of `hZ`: at every site whose letter is `Z` the matrix the basis string denotes is the identity
as soon as the dictionary's `Z` entry (if any) is -/
theorem usOfDict_Z (d : UDict ℝ) (basis : Fin n → Char) (hZ : ∀ m, d.lookup 'Z' = some m → m2c m = 1) :
    ∀ j, rotOf basis j = false → m2c (usOfDict d basis j) = 1 := by
  intro j hj
  have hb : basis j = 'Z' := by simpa [rotOf] using hj
  unfold usOfDict
  rw [hb]
  cases hl : d.lookup 'Z' with
  | none => simpa using C04_dZ
  | some m => simpa using hZ m hl

theorem C04_inner_prod_dict (given own : Option (UDict ℝ)) (basis : Fin n → Char)
    (ψ : (Fin n → Bool) → C ℝ) (σ : Fin n → Bool) :
    ((∀ j, basis j ≠ 'Z' → ((unitariesOf given own).lookup (basis j)).isSome = true) →
      ∃ z, rotatePsiInnerProdD given own basis ψ σ = .ok z
        ∧ toC z = (fastK (usOfDict (unitariesOf given own) basis) (rotOf basis)).mulVec (fun τ => toC (ψ τ)) σ
        ∧ ((∀ m, (unitariesOf given own).lookup 'Z' = some m → m2c m = 1) →
            toC z = (denseK (usOfDict (unitariesOf given own) basis)).mulVec (fun τ => toC (ψ τ)) σ))
    ∧ ((∃ j, basis j ≠ 'Z' ∧ (unitariesOf given own).lookup (basis j) = none) →
        rotatePsiInnerProdD given own basis ψ σ = .error .KeyError) := by
  constructor
  · intro hall
    refine ⟨rotatePsiInnerProdE n (usOfDict (unitariesOf given own) basis) (rotOf basis) ψ σ, ?_,
      C04_inner_prod_enum _ _ ψ σ, fun hZ => C04_inner_prod_enum_dense _ _ ψ σ (usOfDict_Z _ basis hZ)⟩
    unfold rotatePsiInnerProdD
    rw [siteUs_ok _ _ _ (fun j hj => hall j (by simpa [rotOf] using hj))]
    rfl
  · rintro ⟨j, hj, hl⟩
    unfold rotatePsiInnerProdD
    rw [siteUs_err _ _ _ ⟨j, by simpa [rotOf] using hj, hl⟩]
    rfl

theorem C04_rho_probs_dict (given own : Option (UDict ℝ)) (basis : Fin n → Char)
    (ρ : (Fin n → Bool) → (Fin n → Bool) → C ℝ) (σ : Fin n → Bool) :
    ((∀ j, basis j ≠ 'Z' → ((unitariesOf given own).lookup (basis j)).isSome = true) →
      ∃ p, rotateRhoProbsD given own basis ρ σ = .ok p
        ∧ p = ((fastK (usOfDict (unitariesOf given own) basis) (rotOf basis) * (Matrix.of fun a b => toC (ρ a b))
                * (fastK (usOfDict (unitariesOf given own) basis) (rotOf basis))ᴴ) σ σ).re
        ∧ ((∀ m, (unitariesOf given own).lookup 'Z' = some m → m2c m = 1) →
            p = ((denseK (usOfDict (unitariesOf given own) basis) * (Matrix.of fun a b => toC (ρ a b))
                * (denseK (usOfDict (unitariesOf given own) basis))ᴴ) σ σ).re))
    ∧ ((∃ j, basis j ≠ 'Z' ∧ (unitariesOf given own).lookup (basis j) = none) →
        rotateRhoProbsD given own basis ρ σ = .error .KeyError) := by
  constructor
  · intro hall
    refine ⟨rotateRhoProbsE n (usOfDict (unitariesOf given own) basis) (rotOf basis) ρ σ, ?_,
      C04_rho_probs_enum _ _ ρ σ, fun hZ => C04_rho_probs_enum_dense _ _ ρ σ (usOfDict_Z _ basis hZ)⟩
    unfold rotateRhoProbsD
    rw [siteUs_ok _ _ _ (fun j hj => hall j (by simpa [rotOf] using hj))]
    rfl
  · rintro ⟨j, hj, hl⟩
    unfold rotateRhoProbsD
    rw [siteUs_err _ _ _ ⟨j, by simpa [rotOf] using hj, hl⟩]
    rfl

/-! ### the fast paths never read the matrix of a non-rotated site (audit item C04-3) -/

/-- the fast-path operator is the dense operator of the basis string in which every non-rotated site carries the
IDENTITY (the default `Z`), whatever `us` holds there -/
theorem C04_fastK_eq_dense_patched (us : Fin n → M2 ℝ) (rot : Fin n → Bool) :
    fastK us rot = denseK (fun j => if rot j then us j else dZ) := by
  funext σ τ
  unfold fastK denseK
  refine Finset.prod_congr rfl (fun j _ => ?_)
  by_cases hr : rot j
  · simp [hr]
  · simp [hr, C04_dZ, Matrix.one_apply]

/-- `rotate_psi_inner_prod` / `rotate_rho_probs` do not depend on the matrices at sites whose letter is `Z` -/
theorem C04_fast_paths_ignore_unrotated (us us' : Fin n → M2 ℝ) (rot : Fin n → Bool)
    (h : ∀ j, rot j = true → us j = us' j) (σ : Fin n → Bool) :
    (∀ ψ, rotatePsiInnerProdE n us rot ψ σ = rotatePsiInnerProdE n us' rot ψ σ)
    ∧ (∀ ρ, rotateRhoProbsE n us rot ρ σ = rotateRhoProbsE n us' rot ρ σ) := by
  have hK : fastK us rot = fastK us' rot := by
    rw [C04_fastK_eq_dense_patched, C04_fastK_eq_dense_patched]
    congr 1
    funext j
    by_cases hr : rot j
    · simp [hr, h j hr]
    · simp [hr]
  constructor
  · intro ψ
    apply toC_injective
    rw [C04_inner_prod_enum, C04_inner_prod_enum, hK]
  · intro ρ
    rw [C04_rho_probs_enum, C04_rho_probs_enum, hK]

/-- unitarity of the fast-path operator needs unitarity at the ROTATED sites only -/
theorem C04_fastK_unitary (us : Fin n → M2 ℝ) (rot : Fin n → Bool)
    (hU : ∀ j, rot j = true → (m2c (us j))ᴴ * m2c (us j) = 1) :
    (fastK us rot)ᴴ * fastK us rot = 1 := by
  rw [C04_fastK_eq_dense_patched]
  apply C04_dense_unitary
  intro j
  by_cases hr : rot j
  · simpa [hr] using hU j hr
  · simp [hr, C04_dZ]

/-! ### physical probabilities of the MODEL's states through the fast paths (audit item C04-4) -/

/-- a unitary matrix preserves the sum of squared moduli -/
theorem unitary_mulVec_normSq (K : Matrix (Fin n → Bool) (Fin n → Bool) ℂ) (hK : Kᴴ * K = 1)
    (v : (Fin n → Bool) → ℂ) :
    ∑ σ, Complex.normSq (K.mulVec v σ) = ∑ σ, Complex.normSq (v σ) := by
  have : star (K.mulVec v) ⬝ᵥ (K.mulVec v) = star v ⬝ᵥ v := by
    rw [Matrix.star_mulVec, Matrix.dotProduct_mulVec, Matrix.vecMul_vecMul, hK, Matrix.vecMul_one]
  have conv : ∀ w : (Fin n → Bool) → ℂ, ((star w ⬝ᵥ w : ℂ)).re = ∑ σ, Complex.normSq (w σ) := by
    intro w
    simp only [dotProduct, Pi.star_apply, Complex.re_sum]
    refine Finset.sum_congr rfl (fun σ _ => ?_)
    simp [Complex.normSq_apply, Complex.mul_re]
  rw [← conv, ← conv, this]

/-- **C04.7a (fast path)** the rotated Born probabilities `|rotate_psi_inner_prod(basis, σ)|²` summed over all outcomes
equal `Σ|ψ|²`, for every ψ and every basis pattern whose ROTATED sites carry unitaries. -/
theorem C04_inner_prod_probs_sum (us : Fin n → M2 ℝ) (rot : Fin n → Bool)
    (hU : ∀ j, rot j = true → (m2c (us j))ᴴ * m2c (us j) = 1) (ψ : (Fin n → Bool) → C ℝ) :
    ∑ σ, Complex.normSq (toC (rotatePsiInnerProdE n us rot ψ σ)) = ∑ σ, Complex.normSq (toC (ψ σ)) := by
  simp_rw [C04_inner_prod_enum]
  exact unitary_mulVec_normSq _ (C04_fastK_unitary us rot hU) _

/-- **C04.7 (model wavefunction)** for the model's complex wavefunction `ψ_λμ` the rotated probabilities computed by the
fast path are non-negative (squared moduli) and sum to the reported normalisation `Z_λ`, in every basis. -/
theorem C04_model_probs_physical_psi {h : ℕ} (am ph : RBM ℝ n h) (us : Fin n → M2 ℝ) (rot : Fin n → Bool)
    (hU : ∀ j, rot j = true → (m2c (us j))ᴴ * m2c (us j) = 1) :
    ∑ σ, Complex.normSq (toC (rotatePsiInnerProdE n us rot (fun τ => Wave.psiCplx am ph (fun j => bit (τ j))) σ))
      = Wave.normalization am (fun k : Fin (2 ^ n) => (spaceRow n k.val : Fin n → ℝ)) := by
  rw [C04_inner_prod_probs_sum us rot hU, C01_normalization]
  refine Finset.sum_congr rfl (fun σ _ => ?_)
  rw [← C01_normSq_psi_complex am ph]
  simp [Complex.normSq_apply, sq]

/-- … and for the positive wavefunction. -/
theorem C04_model_probs_physical_pos {h : ℕ} (am : RBM ℝ n h) (us : Fin n → M2 ℝ) (rot : Fin n → Bool)
    (hU : ∀ j, rot j = true → (m2c (us j))ᴴ * m2c (us j) = 1) :
    ∑ σ, Complex.normSq (toC (rotatePsiInnerProdE n us rot (fun τ => Wave.psiPos am (fun j => bit (τ j))) σ))
      = Wave.normalization am (fun k : Fin (2 ^ n) => (spaceRow n k.val : Fin n → ℝ)) := by
  rw [C04_inner_prod_probs_sum us rot hU, C01_normalization]
  refine Finset.sum_congr rfl (fun σ _ => ?_)
  rw [← C01_normSq_psi_positive am]
  simp [Complex.normSq_apply, sq]

/-- **C04.7 (model density matrix)** "the rotated probabilities of a physical state are non-negative and sum to its
normalisation in every basis", for the MODEL's density matrix through the fast path AS CODED: under the guard of C02
(`NZ` for all pairs of basis states; see `C02_NZ_of_amp_off_hyperplanes`) `rotate_rho_probs(basis, σ) ≥ 0`, and — when the
rotated sites carry unitaries — they sum over all `2ⁿ` outcomes to `normalization`. No hypothesis on the dictionary's `Z`. -/
theorem C04_model_probs_physical {h a : ℕ} (am ph : PRBM ℝ n h a) (us : Fin n → M2 ℝ) (rot : Fin n → Bool)
    (hNZ : ∀ σ τ : Fin n → Bool, C02.NZ am ph (C02.bits σ) (C02.bits τ)) :
    (∀ σ, 0 ≤ rotateRhoProbsE n us rot (fun s t => Density.rho am ph (C02.bits s) (C02.bits t)) σ)
    ∧ ((∀ j, rot j = true → (m2c (us j))ᴴ * m2c (us j) = 1) →
        ∑ σ, rotateRhoProbsE n us rot (fun s t => Density.rho am ph (C02.bits s) (C02.bits t)) σ
          = Density.normalization am (fun k : Fin (2 ^ n) => (spaceRow n k.val : Fin n → ℝ))) := by
  have hM : (Matrix.of fun a b : Fin n → Bool => toC (Density.rho am ph (C02.bits a) (C02.bits b)))
      = C02.rhoMat am ph := rfl
  have hpsd : (C02.rhoMat am ph).PosSemidef := by
    rw [C02.rhoMat_eq_mul_conjTranspose am ph hNZ]
    exact Matrix.posSemidef_self_mul_conjTranspose _
  constructor
  · intro σ
    rw [C04_rho_probs_enum, hM]
    exact C04_rho_probs_nonneg _ _ hpsd σ
  · intro hU
    simp_rw [C04_rho_probs_enum, hM]
    rw [← Complex.re_sum, C04_rho_probs_sum _ _ (C04_fastK_unitary us rot hU), ← (C02.C02_trace am ph).1,
      Matrix.trace, Complex.re_sum, ← sum_rows n (fun σ => (Matrix.diag (C02.rhoMat am ph) σ).re)]
    rfl

/-- row `idxOf σ` of the generated Hilbert space is the basis state `σ` (bit `n-1-j` of the big-endian index is `σ j`) -/
theorem spaceBit_idxOf (σ : Fin n → Bool) (j : Fin n) : spaceBit n (idxOf σ) j = σ j := by
  unfold spaceBit
  rw [Nat.testBit_eq_decide_div_mod_eq, idxOf_div_mod]
  cases σ j <;> simp

theorem spaceRow_idxOf (σ : Fin n → Bool) : (spaceRow n (idxOf σ) : Fin n → ℝ) = C02.bits σ := by
  funext j
  simp only [spaceRow, C02.bits, spaceBit_idxOf]

/-- **C04.3c (density matrix TAKEN FROM THE MODEL; second audit, item C04-1)**: `rotate_rho(nn_state, basis, space)` with
`rho = nn_state.rho(space, space)` — the matrix of the PRBM model over the generated Hilbert space — is EXACTLY
`U ρ_λμ U†`, for every parameter setting and with no hypothesis: `C04_rotate_rho_hermitian` composed with the Hermiticity of
the model's matrix (C02: `C02_hermitian_entry`, the fact behind `C02_hermitian`). -/
theorem C04_rotate_rho_model {h a : ℕ} (am ph : PRBM ℝ n h a) (us : Fin n → M2 ℝ) :
    rhoMat (n := n) (rotateRho n us (fun k l => Density.rho am ph (spaceRow n k) (spaceRow n l)))
      = denseK us * C02.rhoMat am ph * (denseK us)ᴴ := by
  have hM : rhoMat (n := n) (fun k l => Density.rho am ph (spaceRow n k) (spaceRow n l)) = C02.rhoMat am ph := by
    funext σ τ
    simp only [rhoMat, spaceRow_idxOf]
    rfl
  have hH : (C02.rhoMat am ph).IsHermitian := by
    ext σ τ
    rw [Matrix.conjTranspose_apply]
    exact (C02.C02_hermitian_entry am ph (C02.bits τ) (C02.bits σ)).symm
  rw [C04_rotate_rho_hermitian _ _ (by rw [hM]; exact hH), hM]

/-- **C04.1c (wavefunction TAKEN FROM THE MODEL)**: `rotate_psi(nn_state, basis, space)` with `psi = nn_state.psi(space)` is the
dense operator applied to the model's `ψ_λμ` (complex) resp. `ψ_λ` (positive) indexed by basis states. -/
theorem C04_rotate_psi_model {h : ℕ} (am ph : RBM ℝ n h) (us : Fin n → M2 ℝ) :
    psiVec (rotatePsi n us (fun k => Wave.psiCplx am ph (spaceRow n k)))
        = (denseK us).mulVec (fun τ => toC (Wave.psiCplx am ph (C02.bits τ)))
    ∧ psiVec (rotatePsi n us (fun k => Wave.psiPos am (spaceRow n k)))
        = (denseK us).mulVec (fun τ => toC (Wave.psiPos am (C02.bits τ))) := by
  constructor <;>
  · rw [C04_rotate_psi]
    congr 1
    funext τ
    simp only [psiVec, spaceRow_idxOf]

/-- **FINDING witness (C04-3, `create_dict(Z=<Hadamard>)`)**: one qubit, basis string `"Z"`, dictionary
`create_dict(Z = X-matrix)`, `ψ = |0⟩`, outcome `σ = 1`. The fast path `rotate_psi_inner_prod` returns `ψ(1) = 0` (the
letter `Z` is "not rotated"), while the dense Kronecker product of the per-site unitaries the basis string denotes over that
dictionary — what `rotate_psi` computes, `C04_rotate_psi_dict` — has entry `1/√2`. So for a dictionary whose `Z` entry is not
the identity the statement "gives exactly what the dense Kronecker product gives" fails for the fast paths. -/
theorem C04_Z_override_fast_ne_dense :
    let d : UDict ℝ := createDict [('Z', dX)]
    let basis : Fin 1 → Char := fun _ => 'Z'
    let ψ : (Fin 1 → Bool) → C ℝ := fun τ => if τ 0 then C.zero else C.one
    let σ : Fin 1 → Bool := fun _ => true
    ∃ z, rotatePsiInnerProdD (some d) none basis ψ σ = .ok z ∧ toC z = 0
      ∧ (denseK (usOfDict (unitariesOf (some d) none) basis)).mulVec (fun τ => toC (ψ τ)) σ = ((invSqrt2 : ℝ) : ℂ)
      ∧ ((invSqrt2 : ℝ) : ℂ) ≠ 0 := by
  intro d basis ψ σ
  have hsum : ∀ f : (Fin 1 → Bool) → ℂ, ∑ τ, f τ = f (fun _ => false) + f (fun _ => true) := by
    intro f
    rw [← (Equiv.funUnique (Fin 1) Bool).symm.sum_comp]
    simp [add_comm]
    rfl
  obtain ⟨z, hz, hfast, -⟩ := (C04_inner_prod_dict (some d) none basis ψ σ).1 (by intro j hj; exact absurd rfl hj)
  refine ⟨z, hz, ?_, ?_, ?_⟩
  · rw [hfast]
    simp only [Matrix.mulVec, dotProduct, hsum, fastK, rotOf, basis]
    simp [ψ, σ]
  · simp only [Matrix.mulVec, dotProduct, hsum, denseK, usOfDict, unitariesOf, d, createDict, basis, m2c]
    simp [ψ, σ, dX]
    apply Complex.ext <;> simp
  · have h := invSqrt2_sq
    intro h0
    have : (invSqrt2 : ℝ) = 0 := by exact_mod_cast h0
    rw [this] at h
    norm_num at h


/-! ## Extension round 2 (code inside the model): the keyword conversion of `create_dict`

`ArgConv.createDictM2` models `unitaries.py:36-59` on a heap of storages: the three defaults are new double tensors; every keyword is
`(matrix.clone().detach() if isinstance(matrix, torch.Tensor) else torch.tensor(matrix)).to(dtype=torch.double)` with torch's
allocation behaviour (`torch.tensor` and `clone` copy, `.to` returns the tensor itself when the type already matches).
`readDict h d` is the dictionary of MATRICES the rotation helpers see when the heap is `h` (it reads the storages: an aliased entry
would follow the caller's later writes). -/

section create_dict_arg
open ArgConv
variable {α : Type} [Add α] [Mul α] [Neg α] [Sub α] [Div α] [Zero α] [One α] [Transc α]
set_option linter.unusedSectionVars false

/-- **C04.6c** `create_dict(**kwargs)` from the caller's OBJECTS on. For every accepted container form (torch tensor or numpy array of
any element type, rectangular nested list of Python bools / ints / floats / numpy scalars) whose content survives the conversion —
every form except a nested list of Python FLOATS under torch's default dtype float32, and that form too when its entries are
float32-representable (`r32` fixes them) — the call succeeds and
* no storage of the caller is written (the heap is only extended);
* every entry of the dictionary, defaults included, is a double tensor in a storage that did not exist before the call (it shares
  memory with no object of the caller: `clone` / `torch.tensor` were not skipped);
* the dictionary of matrices is `Unitaries.createDict` (the verified core: `C04_create_dict` — keywords override defaults, `X`, `Y`,
  `Z` present otherwise) of the matrices the caller's objects denote, entry by entry EXACTLY;
* whatever the caller later writes in place into ANY of its storages, the dictionary of matrices stays the same. -/
theorem C04_create_dict_exact (r32 : α → α) (dd : Bool) (h : Heap (List α)) (kw : List (Char × Obj)) (hacc : Accepted h kw)
    (hex : ∀ e ∈ kw, lossy dd e.2.box = true → ∀ v, h.read e.2.sid = some v → v.map r32 = v) :
    ∃ h' d, createDictM2 r32 dd h kw = .ok (h', d) ∧
      (∀ i, i < h.cells.length → h'.read i = h.read i) ∧
      (∀ r ∈ d, h.cells.length ≤ r.2.sid ∧ r.2.dt = .float64) ∧
      readDict h' d = createDict (kw.map (fun e => (e.1, toM2 ((h.read e.2.sid).getD [])))) ∧
      (∀ i, i < h.cells.length → ∀ w, readDict (h'.write i w) d = readDict h' d) := by
  have hc : ∀ v : List α, castList r32 DType.float64 v = v := by
    intro v; simp [castList, castScalar]
  obtain ⟨h', ts, ds, e, p, f1, f0⟩ := createDictArg_spec (castList r32) hc dd defaultCells h kw hacc
  have fresh : ∀ r ∈ ts ++ ds, h.cells.length ≤ r.2.sid ∧ r.2.dt = .float64 := by
    intro r hr
    rcases List.mem_append.mp hr with hr | hr
    · obtain ⟨a, _, ha⟩ := forall₂_right f1 hr; exact ⟨ha.2.1, ha.2.2.1⟩
    · obtain ⟨a, _, ha⟩ := forall₂_right f0 hr; exact ⟨ha.2.1, ha.2.2.1⟩
  refine ⟨h', ts ++ ds, e, fun i hi => read_of_prefix p hi, fresh, ?_, ?_⟩
  · rw [readDict, List.map_append, createDict]
    congr 1
    · refine forall₂_map_eq f1 ?_
      intro a b ha hab
      obtain ⟨hk, _, _, v, hv, hw⟩ := hab
      have hst : storedU (castList r32) dd a.2.box v = v := by
        unfold storedU
        by_cases hl : lossy dd a.2.box = true
        · simpa [hl, castList, castScalar] using hex a ha hl v hv
        · simp [hl]
      simp only [hw, hst, hv, Option.getD_some, hk]
    · have := forall₂_map_eq (f := fun e : Char × TRef => (e.1, toM2 ((h'.read e.2.sid).getD [])))
        (g := fun e : Char × List α => (e.1, toM2 e.2)) f0 (by
          intro a b _ hab
          simp only [hab.2.2.2, Option.getD_some, hab.1])
      rw [this]
      simp [defaultCells, toM2_flatM2]
  · intro i hi w
    unfold readDict
    refine List.map_congr_left ?_
    intro r hr
    rw [write_read_ne _ (by have := (fresh r hr).1; omega)]

/-- **C04.6d** which form loses precision, precisely: a nested list of Python floats handed to `create_dict` while torch's default
dtype is float32 is stored as the `r32`-ROUNDING of its entries (`torch.tensor(matrix)` without `dtype=` comes before
`.to(torch.double)`), in a fresh double tensor; with default dtype float64, and in every other form, the entries are stored as given
(`C04_create_dict_exact`). proposed/F_C04_create_dict_list_precision.md. -/
theorem C04_create_dict_list_rounds (r32 : α → α) (h : Heap (List α)) (l : Char) (sid : ℕ) (v : List α) (hv : h.read sid = some v) :
    ∃ h' d, createDictM2 r32 false h [(l, ⟨.pyList .pyFloat, sid⟩)] = .ok (h', d) ∧
      (readDict h' d).lookup l = some (toM2 (v.map r32)) := by
  have hc : ∀ v : List α, castList r32 DType.float64 v = v := by
    intro v; simp [castList, castScalar]
  have hacc : Accepted h [(l, (⟨.pyList .pyFloat, sid⟩ : Obj))] := by
    intro e he
    rw [List.mem_singleton] at he
    subst he
    exact ⟨rfl, read_some_lt hv⟩
  obtain ⟨h', ts, ds, e, p, f1, f0⟩ := createDictArg_spec (castList r32) hc false defaultCells h _ hacc
  refine ⟨h', ts ++ ds, e, ?_⟩
  cases f1 with
  | cons hab hnil =>
    cases hnil
    obtain ⟨hk, _, _, v', hv', hw⟩ := hab
    rw [hv] at hv'
    cases hv'
    simp only [readDict, List.map_append, List.map_cons, List.map_nil, List.cons_append, List.nil_append, hk, hw,
      Option.getD_some, List.lookup_cons_self]
    simp [storedU, lossy, castList, castScalar]

/-- a refused keyword (ragged nested list, an object that is not array-like) makes `create_dict` raise: no dictionary -/
theorem C04_create_dict_refused (r32 : α → α) (dd : Bool) (h : Heap (List α)) (l : Char) (o : Obj) (rest : List (Char × Obj))
    (hb : srcDType o.box = none) : ∃ e, createDictM2 r32 dd h ((l, o) :: rest) = .error e := by
  obtain ⟨e, he⟩ := convertUnitary_refused (castList r32) dd
    (allocDefaults h (defaultCells (α := α))).1 o hb
  exact ⟨e, by simp [createDictM2, createDictArg, convertAll, he, bind, Except.bind]⟩

end create_dict_arg

/-- witness for `C04_create_dict_list_rounds` (the rounding `r32 := ⌊·⌋` stands for any rounding that moves 1/2): the list
`[[[1/2, 0], [0, 1]], [[0, 0], [0, 0]]]` is stored as `diag(0, 1)` -/
example : ∃ h' d, ArgConv.createDictM2 (fun x : ℝ => (⌊x⌋ : ℝ)) false ⟨[[1 / 2, 0, 0, 1, 0, 0, 0, 0]]⟩ [('A', ⟨.pyList .pyFloat, 0⟩)] = .ok (h', d) ∧
    ((ArgConv.readDict h' d).lookup 'A').map (fun m => (m false false).1) = some 0 := by
  obtain ⟨h', d, e, hl⟩ := C04_create_dict_list_rounds (fun x : ℝ => (⌊x⌋ : ℝ)) ⟨[[1 / 2, 0, 0, 1, 0, 0, 0, 0]]⟩ 'A' 0 _ rfl
  refine ⟨h', d, e, ?_⟩
  rw [hl]
  simp [ArgConv.toM2]
  norm_num

/-- the hypotheses of `C04_create_dict_exact` are satisfiable by a non-trivial call: a float32 tensor, an int64 numpy array that
overrides `X`, and a list of Python floats with float32-representable entries, in a heap that also holds another object -/
example : ArgConv.Accepted (⟨[[1, 0, 0, 1, 0, 0, 0, 0], [0, 1, 1, 0, 0, 0, 0, 0], [1, 0, 0, 0, 0, 0, 0, 1], [7]]⟩ : ArgConv.Heap (List ℝ))
    [('A', ⟨.tensor .float32, 0⟩), ('X', ⟨.ndarray .int64, 1⟩), ('B', ⟨.pyList .pyFloat, 2⟩)] := by
  intro e he
  simp only [List.mem_cons, List.not_mem_nil, or_false] at he
  rcases he with rfl | rfl | rfl <;> exact ⟨rfl, by decide⟩

/-! ## Late theorems: the 1-D `states` call form and the batched index conversion -/

/-- **C04_vector_states_outcome.** `states` given as ONE 1-D vector instead of a batch (`vectorStatesOutcome`, the outcome class the
harness compares with). The classification itself is by construction of the model: any rotated site → `RuntimeError` on both fast
paths; all-`Z` basis → `rotate_rho_probs` is refused (`ValueError`) and `rotate_psi_inner_prod` is the ONLY accepted combination.
What is proved against the batched definitions is that the accepted case returns the batch-of-one value: for a basis pattern without
a rotated site (`anyRotated = (finRange n).any rot = false`, for every `n`, every per-site matrices, every ψ, σ)
`_rotate_basis_state` enumerates the single state σ with coefficient one, and both the enumerated (`rotatePsiInnerProdE`) and the
filtered (`rotatePsiInnerProd`) batched amplitude of the row σ are EXACTLY `ψ(σ)` — the single amplitude the 1-D form returns; from
the dictionary resolution on (`rotatePsiInnerProdD`) an all-`Z` basis string succeeds with `ψ(σ)` for EVERY dictionary (no letter is
looked up, so not even a dictionary without `Z` raises `KeyError`). -/
theorem C04_vector_states_outcome (us : Fin n → M2 ℝ) (rot : Fin n → Bool) (ψ : (Fin n → Bool) → C ℝ) (σ : Fin n → Bool)
    (given own : Option (UDict ℝ)) (basis : Fin n → Char) :
    (∀ p r, vectorStatesOutcome p r = .ok () ↔ p = .innerProd ∧ r = false)
    ∧ (∀ p, vectorStatesOutcome p true = .error .RuntimeError)
    ∧ vectorStatesOutcome .rhoProbs false = .error .ValueError
    ∧ (vectorStatesOutcome .innerProd ((List.finRange n).any rot) = .ok () ↔ ∀ j, rot j = false)
    ∧ ((∀ j, rot j = false) →
        expandStates n rot σ = [σ] ∧ rotateBasisState n us rot σ = [(C.one, σ)]
        ∧ rotatePsiInnerProdE n us rot ψ σ = ψ σ ∧ rotatePsiInnerProd n us rot ψ σ = ψ σ)
    ∧ ((∀ j, basis j = 'Z') → rotatePsiInnerProdD given own basis ψ σ = .ok (ψ σ)) := by
  have key : ∀ (us : Fin n → M2 ℝ) (rot : Fin n → Bool), (∀ j, rot j = false) →
      expandStates n rot σ = [σ] ∧ rotateBasisState n us rot σ = [(C.one, σ)]
        ∧ rotatePsiInnerProdE n us rot ψ σ = ψ σ ∧ rotatePsiInnerProd n us rot ψ σ = ψ σ := by
    intro us rot hr
    have hrot : rot = fun _ => false := funext hr
    subst hrot
    have hE : expandStates n (fun _ => false) σ = [σ] := by simp [expandStates]
    have hc : ∀ τ, rotCoeff n us (fun _ => false) σ τ = C.one := by
      intro τ; apply toC_injective; simp [rotCoeff]
    have hv : rotatePsiInnerProdE n us (fun _ => false) ψ σ = ψ σ := by
      apply toC_injective
      simp [rotatePsiInnerProdE, hE, hc]
    refine ⟨hE, ?_, hv, ?_⟩
    · simp [rotateBasisState, hE, hc]
    · rw [← rotatePsiInnerProdE_eq]; exact hv
  refine ⟨?_, ?_, rfl, ?_, key us rot, ?_⟩
  · intro p r; cases p <;> cases r <;> simp [vectorStatesOutcome]
  · intro p; cases p <;> rfl
  · cases hany : (List.finRange n).any rot
    · simp only [vectorStatesOutcome, Bool.false_eq_true, if_false, true_iff]
      intro j
      have := List.any_eq_false.mp hany j (List.mem_finRange j)
      simpa using this
    · simp only [vectorStatesOutcome, if_true, reduceCtorEq, false_iff, not_forall]
      obtain ⟨j, -, hj⟩ := List.any_eq_true.mp hany
      exact ⟨j, by simp [hj]⟩
  · intro hZ
    have hr : ∀ j, rotOf basis j = false := fun j => by simp [rotOf, hZ j]
    have hs : siteUs (unitariesOf given own) (rotOf basis) basis
        = .ok (fun j => ((unitariesOf given own).lookup (basis j)).getD dZ) := by
      simp [siteUs, hr]
    simp only [rotatePsiInnerProdD, hs]
    exact congrArg Except.ok (key _ _ hr).2.2.1

/-- the accepted case of `C04_vector_states_outcome` on a non-trivial instance: 2 sites, basis `ZZ`, an EMPTY-lookup dictionary
(only `X` defined, by a non-unitary matrix), ψ = the index of the state as a complex number: the value for σ = (1,0) is ψ(σ) = 2 -/
example : rotatePsiInnerProdD (some [('X', fun _ _ => ((7 : ℝ), 0))]) none (fun _ : Fin 2 => 'Z')
      (fun τ => ((if τ 0 then 2 else 0) + (if τ 1 then 1 else 0), 0)) (fun j => j = 0) = .ok (2, 0) := by
  rw [(C04_vector_states_outcome (fun _ => dZ) (fun _ => false) _ _ _ none _).2.2.2.2.2 (fun _ => rfl)]
  simp

/-- **C04_convert_basis_batch.** `_convert_basis_element_to_index` on a batch (`convertBasisBatch`, the `(N, n)` `matmul` with
`powers`): for EVERY batch of 0/1 rows the result has one entry per row and entry `i` is `convertBasisElementToIndex` of row `i`
(by construction of the model: the row-wise map) = the big-endian index `Σ_j row[j]·2^(len-1-j)` of that row, which is `< 2^len`;
rows of equal length with equal entries are equal (the conversion loses nothing); the conversion of a batch of function-form states
is `idxOf` row by row (the position convention of every array of C04, `C04_index_convention`); and the batch
`generate_hilbert_space(size)` returns is mapped to `0, 1, …, 2^size - 1` in order (row `k` of the space has index `k`: the batched
form of `C19_index_roundtrip`). -/
theorem C04_convert_basis_batch (sts : List (List Bool)) :
    (convertBasisBatch sts).length = sts.length
    ∧ (∀ i (hi : i < sts.length), (convertBasisBatch sts)[i]'(by simpa [convertBasisBatch] using hi)
          = convertBasisElementToIndex sts[i]
        ∧ convertBasisElementToIndex sts[i] = basisIndexL sts[i]
        ∧ convertBasisElementToIndex sts[i] < 2 ^ sts[i].length)
    ∧ (∀ i j (hi : i < sts.length) (hj : j < sts.length), sts[i].length = sts[j].length →
        (convertBasisBatch sts)[i]'(by simpa [convertBasisBatch] using hi)
          = (convertBasisBatch sts)[j]'(by simpa [convertBasisBatch] using hj) → sts[i] = sts[j])
    ∧ (∀ (m : ℕ) (rows : List (Fin m → Bool)),
        convertBasisBatch (rows.map fun σ => (List.finRange m).map σ) = rows.map idxOf)
    ∧ (∀ (size : Option ℕ) (nv : ℕ) (sp : List (List Bool)), generateHilbertSpace size nv = .ok sp →
        convertBasisBatch sp = List.range (2 ^ effSize size nv)) := by
  refine ⟨by simp [convertBasisBatch], fun i hi => ⟨by simp [convertBasisBatch], convertBasisElementToIndex_eq _, ?_⟩, ?_, ?_, ?_⟩
  · rw [convertBasisElementToIndex_eq]; exact basisIndexL_lt _
  · intro i j hi hj hlen heq
    simp only [convertBasisBatch, List.getElem_map, convertBasisElementToIndex_eq] at heq
    rw [← maskRow_basisIndexL sts[i], ← maskRow_basisIndexL sts[j], heq, hlen]
  · intro m rows
    simp only [convertBasisBatch, List.map_map]
    refine List.map_congr_left (fun σ _ => ?_)
    simp only [Function.comp, convertBasisElementToIndex_eq]
    exact C04_index_convention σ
  · intro size nv sp hsp
    unfold generateHilbertSpace at hsp
    rw [spaceGuard_eq] at hsp
    split_ifs at hsp with hbig
    simp only [Except.ok.injEq] at hsp
    subst hsp
    simp only [convertBasisBatch, List.map_map]
    conv_rhs => rw [← List.map_id (List.range (2 ^ effSize size nv))]
    refine List.map_congr_left (fun k hk => ?_)
    simp only [Function.comp, convertBasisElementToIndex_eq, basisIndexL_maskRow, id]
    exact Nat.mod_eq_of_lt (List.mem_range.mp hk)

/-- `C04_convert_basis_batch` on a concrete batch with rows of different content (and the injectivity hypothesis `equal lengths`
satisfied): `[[1,0,1],[0,1,1],[1,0,1]] ↦ [5, 3, 5]`; and the 2-site space is mapped to `[0,1,2,3]`. -/
example : convertBasisBatch [[true, false, true], [false, true, true], [true, false, true]] = [5, 3, 5]
    ∧ (∃ sp, generateHilbertSpace (some 2) 7 = .ok sp ∧ convertBasisBatch sp = [0, 1, 2, 3]) := by
  refine ⟨by decide, _, rfl, by decide⟩

end QV.Props
