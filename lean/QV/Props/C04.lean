/-
C04 — Measurement-basis rotations equal the tensor-product unitary they denote.

"For every basis string over the state's unitary dictionary, rotating a wavefunction or density
matrix (given explicitly or taken from the model), and computing rotated amplitudes or rotated Born
probabilities of any batch of outcomes, gives exactly what the dense Kronecker product of the per-site
unitaries gives: U psi, U rho U^dagger, and their entries/diagonal. The default dictionary maps Z to
the identity and X, Y to unitaries whose rows are the +1 and -1 eigenvectors (in that order) of the
Pauli X and Y operators, and the rotated probabilities of a physical state are non-negative and sum to
its normalisation in every basis."

Model: QV.Model.Unitaries (executed against qucumber/utils/unitaries.py by the C04 correspondence).
All theorems: ∀ n, ∀ per-site 2×2 complex matrices (not only the default dictionary), ∀ ψ, ρ.
-/
import Mathlib.LinearAlgebra.Matrix.PosDef
import Mathlib.LinearAlgebra.Matrix.Kronecker
import Mathlib.Analysis.SpecialFunctions.Sqrt
import QV.Lemmas.Kron
import QV.Lemmas.KronLoop
import QV.Lemmas.Hilbert
import QV.Lemmas.Expand
import QV.Real

namespace QV.Props
open QV Finset Unitaries Matrix
open scoped ComplexOrder

variable {n : ℕ}

/-- a per-site matrix decoded as a complex 2×2 matrix indexed by bits -/
def m2c (m : M2 ℝ) : Matrix Bool Bool ℂ := fun r c => toC (m r c)

/-- **Specification**: the dense tensor-product operator, `K(σ,τ) = Π_j U_j(σ_j, τ_j)`. -/
def denseK (us : Fin n → M2 ℝ) : Matrix (Fin n → Bool) (Fin n → Bool) ℂ :=
  fun σ τ => ∏ j, m2c (us j) (σ j) (τ j)

/-- a flat complex vector (position `k` ↔ basis state with big-endian index `k`) as a vector over bit-strings -/
def psiVec (ψ : ℕ → C ℝ) : (Fin n → Bool) → ℂ := fun τ => toC (ψ (idxOf τ))
/-- a flat complex matrix as a matrix over bit-strings -/
def rhoMat (ρ : ℕ → ℕ → C ℝ) : Matrix (Fin n → Bool) (Fin n → Bool) ℂ :=
  fun σ τ => toC (ρ (idxOf σ) (idxOf τ))

/-- position `k` of every array is the basis state whose big-endian expansion is `k`:
`idxOf` agrees with the model of `_convert_basis_element_to_index`. -/
theorem C04_index_convention (σ : Fin n → Bool) : basisIndex σ = idxOf σ := by
  unfold basisIndex
  induction n with
  | zero => simp [idxOf, basisIndexL]
  | succ k ih =>
    rw [List.finRange_succ, List.map_cons, basisIndexL, idxOf_succ, List.map_map]
    have := ih (fun j => σ j.succ)
    simp only [List.length_map, List.length_finRange]
    rw [← this]
    rfl

/-- **C04.1/3a** `rotate_psi` (= `_kron_mult` stage by stage, with the code's strides) is the dense
operator applied to ψ. -/
theorem C04_rotate_psi (us : Fin n → M2 ℝ) (ψ : ℕ → C ℝ) :
    psiVec (rotatePsi n us ψ) = (denseK us).mulVec (psiVec ψ) := by
  funext σ
  have := kronMult_dense (V := ℂ) C.add C.mul toC toC_add (fun c a => by simp) us ψ σ
  simp only [psiVec, rotatePsi, Matrix.mulVec, dotProduct, denseK, m2c]
  rw [this]
  simp [smul_eq_mul]

/-- row-valued `_kron_mult` decoded entrywise -/
theorem kronRow (us : Fin n → M2 ℝ) (x : ℕ → Row ℝ) (σ : Fin n → Bool) (j : ℕ) :
      toC (kronMult addRow actRow n us x (idxOf σ) j)
        = ∑ τ' : Fin n → Bool, (∏ k, toC (us k (σ k) (τ' k))) * toC (x (idxOf τ') j) := by
  have := congrFun (kronMult_dense (V := ℕ → ℂ) addRow actRow (fun r j => toC (r j))
    (fun a b => by funext j; simp [addRow]) (fun c a => by funext j; simp [actRow]) us x σ) j
  simpa [Finset.sum_apply, Pi.smul_apply, smul_eq_mul] using this

/-- **C04.3b** `rotate_rho` is `K ρᴴ Kᴴ` for EVERY complex matrix ρ (the code conjugate-transposes between
its two `_kron_mult` calls) … -/
theorem C04_rotate_rho (us : Fin n → M2 ℝ) (ρ : ℕ → ℕ → C ℝ) :
    rhoMat (n := n) (rotateRho n us ρ) = denseK us * (rhoMat ρ)ᴴ * (denseK us)ᴴ := by
  funext σ τ
  simp only [rhoMat, rotateRho]
  rw [kronRow]
  simp only [toC_conj, kronRow, map_sum, map_mul, map_prod]
  simp only [Matrix.mul_apply, Matrix.conjTranspose_apply, denseK, m2c, rhoMat, Finset.sum_mul, Finset.mul_sum,
    ← starRingEnd_apply, map_prod]
  rw [Finset.sum_comm]
  refine Finset.sum_congr rfl (fun a _ => Finset.sum_congr rfl (fun b _ => ?_))
  ring

/-- … hence `K ρ Kᴴ` for a Hermitian ρ. -/
theorem C04_rotate_rho_hermitian (us : Fin n → M2 ℝ) (ρ : ℕ → ℕ → C ℝ)
    (hρ : (rhoMat (n := n) ρ).IsHermitian) :
    rhoMat (n := n) (rotateRho n us ρ) = denseK us * rhoMat ρ * (denseK us)ᴴ := by
  rw [C04_rotate_rho, hρ.eq]

/-- **C04.2** the dense operator is the iterated Kronecker product, site 0 the LEFTMOST factor … -/
theorem C04_dense_eq_kronecker (us : Fin (n + 1) → M2 ℝ) (σ τ : Fin (n + 1) → Bool) :
    denseK us σ τ
      = (Matrix.kroneckerMap (· * ·) (m2c (us 0)) (denseK (fun j : Fin n => us j.succ)))
          (σ 0, fun j => σ j.succ) (τ 0, fun j => τ j.succ) := by
  simp [denseK, Fin.prod_univ_succ, Matrix.kroneckerMap_apply]

/-- … and the most significant bit of the array position (C19): `idx σ = σ_0·2^n + idx (tail σ)`. -/
theorem C04_site0_msb (σ : Fin (n + 1) → Bool) :
    idxOf σ = (if σ 0 then 2 ^ n else 0) + idxOf (fun j : Fin n => σ j.succ) := idxOf_succ σ

/-! ### the fast paths `rotate_psi_inner_prod` / `rotate_rho_probs` -/

/-- the operator the fast path applies: the dictionary matrix on rotated sites, the IDENTITY on sites whose
letter is `Z` (whatever the dictionary says for `Z`). -/
def fastK (us : Fin n → M2 ℝ) (rot : Fin n → Bool) : Matrix (Fin n → Bool) (Fin n → Bool) ℂ :=
  fun σ τ => ∏ j, if rot j then m2c (us j) (σ j) (τ j) else if σ j = τ j then 1 else 0

theorem fastK_apply (us : Fin n → M2 ℝ) (rot : Fin n → Bool) (σ τ : Fin n → Bool) :
    fastK us rot σ τ = if agreesOff n rot σ τ then toC (rotCoeff n us rot σ τ) else 0 := by
  unfold fastK agreesOff rotCoeff
  split
  · rename_i h
    rw [toC_prod]
    refine Finset.prod_congr rfl (fun j _ => ?_)
    have hj := List.all_eq_true.mp h j (List.mem_finRange j)
    by_cases hr : rot j
    · simp [hr, m2c]
    · simp only [hr, Bool.false_or, beq_iff_eq] at hj
      simp [hr, hj]
  · rename_i h
    have : ∃ j, ¬ (rot j || (σ j == τ j)) = true := by
      by_contra hcon
      push Not at hcon
      exact h (List.all_eq_true.mpr (fun j _ => hcon j))
    obtain ⟨j, hj⟩ := this
    apply Finset.prod_eq_zero (mem_univ j)
    have hr : rot j = false := by cases h' : rot j <;> simp_all
    have hne : σ j ≠ τ j := by intro e; simp [e] at hj
    simp [hr, hne]

/-- the fast path's operator is the dense one whenever the dictionary maps every non-rotated letter to 1 -/
theorem C04_fastK_eq_dense (us : Fin n → M2 ℝ) (rot : Fin n → Bool)
    (hZ : ∀ j, rot j = false → m2c (us j) = 1) : fastK us rot = denseK us := by
  funext σ τ
  unfold fastK denseK
  refine Finset.prod_congr rfl (fun j _ => ?_)
  by_cases hr : rot j
  · simp [hr]
  · have := hZ j (by simpa using hr)
    simp [hr, this, Matrix.one_apply]

/-- **C04.4** `rotate_psi_inner_prod(basis, σ)` is entry σ of `K ψ` (ψ from the model or given explicitly —
the explicit path only looks ψ up by index, `C04_index_convention`). -/
theorem C04_inner_prod (us : Fin n → M2 ℝ) (rot : Fin n → Bool) (ψ : (Fin n → Bool) → C ℝ)
    (σ : Fin n → Bool) :
    toC (rotatePsiInnerProd n us rot ψ σ) = (fastK us rot).mulVec (fun τ => toC (ψ τ)) σ := by
  unfold rotatePsiInnerProd
  rw [toC_sum]
  simp only [Matrix.mulVec, dotProduct]
  rw [← sum_rows n (fun τ => fastK us rot σ τ * toC (ψ τ))]
  refine Finset.sum_congr rfl (fun k _ => ?_)
  rw [fastK_apply]
  show toC (if agreesOff n rot σ (rowBits n k.val) = true then _ else _) = _
  by_cases h : agreesOff n rot σ (rowBits n k.val) = true
  · rw [if_pos h, if_pos h, toC_mul]; rfl
  · rw [if_neg h, if_neg h, toC_zero, zero_mul]

theorem C04_inner_prod_dense (us : Fin n → M2 ℝ) (rot : Fin n → Bool) (ψ : (Fin n → Bool) → C ℝ)
    (σ : Fin n → Bool) (hZ : ∀ j, rot j = false → m2c (us j) = 1) :
    toC (rotatePsiInnerProd n us rot ψ σ) = (denseK us).mulVec (fun τ => toC (ψ τ)) σ := by
  rw [C04_inner_prod, C04_fastK_eq_dense us rot hZ]

/-- **C04.5** `rotate_rho_probs(basis, σ)` is the real part of the diagonal entry of `K ρ Kᴴ`. -/
theorem C04_rho_probs (us : Fin n → M2 ℝ) (rot : Fin n → Bool)
    (ρ : (Fin n → Bool) → (Fin n → Bool) → C ℝ) (σ : Fin n → Bool) :
    rotateRhoProbs n us rot ρ σ
      = ((fastK us rot * (Matrix.of fun a b => toC (ρ a b)) * (fastK us rot)ᴴ) σ σ).re := by
  unfold rotateRhoProbs
  simp only [sumFin_eq]
  simp only [Matrix.mul_apply, Matrix.conjTranspose_apply, Matrix.of_apply, Complex.re_sum, Finset.sum_mul]
  conv_rhs => rw [Finset.sum_comm]
  rw [← sum_rows n (fun τ1 => ∑ τ2, (fastK us rot σ τ1 * toC (ρ τ1 τ2) * star (fastK us rot σ τ2)).re)]
  refine Finset.sum_congr rfl (fun k _ => ?_)
  rw [← sum_rows n (fun τ2 => (fastK us rot σ (rowBits n k.val) * toC (ρ (rowBits n k.val) τ2) * star (fastK us rot σ τ2)).re)]
  refine Finset.sum_congr rfl (fun l _ => ?_)
  rw [fastK_apply, fastK_apply]
  show (if (agreesOff n rot σ (rowBits n k.val) && agreesOff n rot σ (rowBits n l.val)) = true then
      (C.mul (C.mul (rotCoeff n us rot σ (rowBits n k.val)) (C.conj (rotCoeff n us rot σ (rowBits n l.val))))
        (ρ (rowBits n k.val) (rowBits n l.val))).1 else 0) = _
  by_cases a1 : agreesOff n rot σ (rowBits n k.val) = true <;> by_cases a2 : agreesOff n rot σ (rowBits n l.val) = true
  · simp only [a1, a2, Bool.and_self, if_true, ← toC_re, toC_mul, toC_conj, starRingEnd_apply]
    congr 1; ring
  all_goals simp [a1, a2]

/-- with an identity for every non-rotated letter: the diagonal of the dense `K ρ Kᴴ` -/
theorem C04_rho_probs_dense (us : Fin n → M2 ℝ) (rot : Fin n → Bool)
    (ρ : (Fin n → Bool) → (Fin n → Bool) → C ℝ) (σ : Fin n → Bool)
    (hZ : ∀ j, rot j = false → m2c (us j) = 1) :
    rotateRhoProbs n us rot ρ σ
      = ((denseK us * (Matrix.of fun a b => toC (ρ a b)) * (denseK us)ᴴ) σ σ).re := by
  rw [C04_rho_probs, C04_fastK_eq_dense us rot hZ]


/-! ### the fast paths AS CODED: `_rotate_basis_state` enumerates the expanded states (what the driver executes)

`rotatePsiInnerProdE` / `rotateRhoProbsE` fold over `expandStates n rot σ` — the list `v` the code builds by writing
`generate_hilbert_space(size = #rotated)` into the rotated sites — in list order. -/

/-- **C04.4/5 (enumeration)** what `_rotate_basis_state` enumerates, for every basis pattern and sample:
the expanded states are pairwise distinct; they are exactly the states that agree with the sample on every non-rotated
site; there are `2^#rotated` of them; the list is a reordering of the full space (in `generate_hilbert_space()` order)
filtered by `agreesOff`; and the ORDER is the code's: state number `i` carries, at the `p`-th rotated site (sites in
increasing order, `rotSites n rot = (finRange n).filter rot`), bit `m-1-p` of `i` — row `i` of the size-`m` space, big-endian. -/
theorem C04_expand_enumerates (rot σ : Fin n → Bool) :
    (expandStates n rot σ).Nodup
    ∧ (∀ τ, τ ∈ expandStates n rot σ ↔ ∀ j, rot j = false → τ j = σ j)
    ∧ (expandStates n rot σ).length = 2 ^ (univ.filter (fun s : Fin n => rot s = true)).card
    ∧ (expandStates n rot σ).Perm ((allStates n).filter (fun τ => agreesOff n rot σ τ))
    ∧ (∀ (i : ℕ) (hi : i < (expandStates n rot σ).length) (p : Fin (rotSites n rot).length),
        (expandStates n rot σ)[i] ((rotSites n rot)[p.val])
          = Nat.testBit i ((rotSites n rot).length - 1 - p.val)) := by
  refine ⟨expandStates_nodup rot σ, fun τ => ?_, expandStates_length rot σ, expandStates_perm rot σ, ?_⟩
  · rw [mem_expandStates_iff, agreesOff_iff]
  · intro i hi p
    rw [expandStates_getElem]
    exact expandAt_site rot σ i p

/-- **C04.4 (as coded)** `rotate_psi_inner_prod(basis, σ)` computed by enumerating the expanded states is entry σ of `K ψ`. -/
theorem C04_inner_prod_enum (us : Fin n → M2 ℝ) (rot : Fin n → Bool) (ψ : (Fin n → Bool) → C ℝ)
    (σ : Fin n → Bool) :
    toC (rotatePsiInnerProdE n us rot ψ σ) = (fastK us rot).mulVec (fun τ => toC (ψ τ)) σ := by
  rw [rotatePsiInnerProdE_eq, C04_inner_prod]

theorem C04_inner_prod_enum_dense (us : Fin n → M2 ℝ) (rot : Fin n → Bool) (ψ : (Fin n → Bool) → C ℝ)
    (σ : Fin n → Bool) (hZ : ∀ j, rot j = false → m2c (us j) = 1) :
    toC (rotatePsiInnerProdE n us rot ψ σ) = (denseK us).mulVec (fun τ => toC (ψ τ)) σ := by
  rw [C04_inner_prod_enum, C04_fastK_eq_dense us rot hZ]

/-- **C04.5 (as coded)** `rotate_rho_probs(basis, σ)` computed by the double enumeration is the real part of the diagonal
entry of `K ρ Kᴴ`. -/
theorem C04_rho_probs_enum (us : Fin n → M2 ℝ) (rot : Fin n → Bool)
    (ρ : (Fin n → Bool) → (Fin n → Bool) → C ℝ) (σ : Fin n → Bool) :
    rotateRhoProbsE n us rot ρ σ
      = ((fastK us rot * (Matrix.of fun a b => toC (ρ a b)) * (fastK us rot)ᴴ) σ σ).re := by
  rw [rotateRhoProbsE_eq, C04_rho_probs]

theorem C04_rho_probs_enum_dense (us : Fin n → M2 ℝ) (rot : Fin n → Bool)
    (ρ : (Fin n → Bool) → (Fin n → Bool) → C ℝ) (σ : Fin n → Bool)
    (hZ : ∀ j, rot j = false → m2c (us j) = 1) :
    rotateRhoProbsE n us rot ρ σ
      = ((denseK us * (Matrix.of fun a b => toC (ρ a b)) * (denseK us)ᴴ) σ σ).re := by
  rw [C04_rho_probs_enum, C04_fastK_eq_dense us rot hZ]

/-- the coefficients `Ut_i` paired with the states by `_rotate_basis_state` are the entries of row σ of the fast-path
operator at the enumerated states -/
theorem C04_rotate_basis_state (us : Fin n → M2 ℝ) (rot σ : Fin n → Bool) :
    (rotateBasisState n us rot σ).map (fun cv => (toC cv.1, cv.2))
      = (expandStates n rot σ).map (fun v => (fastK us rot σ v, v)) := by
  unfold rotateBasisState
  rw [List.map_map]
  refine List.map_congr_left (fun v hv => ?_)
  simp only [Function.comp, fastK_apply, (mem_expandStates_iff rot σ v).mp hv, if_true]

/-- non-vacuity / order witness: 3 sites, the middle one not rotated, sample `σ = (1,1,0)`: the four expanded states in the
code's order are `010, 011, 110, 111` (site 0 is the slow bit of the size-2 space) -/
example :
    (expandStates 3 ![true, false, true] ![true, true, false]).map (fun v => (List.finRange 3).map v)
      = [[false, true, false], [false, true, true], [true, true, false], [true, true, true]] := by
  decide


/-! ### the loop form of `_kron_mult` (what the driver executes) -/

/-- **C04.1 (loops)** `rotate_psi` computed with the code's three nested loops and in-place slice updates is the dense
operator applied to ψ. -/
theorem C04_rotate_psi_loop (us : Fin n → M2 ℝ) (ψ : List (C ℝ)) (hψ : ψ.length = 2 ^ n) :
    (fun σ : Fin n → Bool => toC ((rotatePsiL n us ψ).getD (idxOf σ) default))
      = (denseK us).mulVec (fun τ => toC (ψ.getD (idxOf τ) default)) := by
  have h := C04_rotate_psi us (fun j => ψ.getD j default)
  have h' : (denseK us).mulVec (fun τ : Fin n → Bool => toC (ψ.getD (idxOf τ) default))
      = psiVec (rotatePsi n us (fun j => ψ.getD j default)) := h.symm
  rw [h']
  funext σ
  simp only [psiVec, rotatePsi, rotatePsiL]
  rw [kronMultLoop_eq C.add C.mul n us ψ hψ (idxOf σ) (idxOf_lt σ)]

/-- **C04.3 (loops)** `rotate_rho` computed with the code's loops (rows carried along, conjugate transpose in between) is
`K ρᴴ Kᴴ`, entry by entry. -/
theorem C04_rotate_rho_loop (us : Fin n → M2 ℝ) (ρ : List (Row ℝ)) (hρ : ρ.length = 2 ^ n) :
    (Matrix.of fun σ τ : Fin n → Bool => toC ((rotateRhoL n us ρ).getD (idxOf σ) default (idxOf τ)))
      = denseK us * (rhoMat (fun i j => ρ.getD i default j))ᴴ * (denseK us)ᴴ := by
  rw [← C04_rotate_rho us (fun i j => ρ.getD i default j)]
  funext σ τ
  simp only [rhoMat, Matrix.of_apply]
  rw [rotateRhoL_eq n us ρ hρ _ _ (idxOf_lt σ) (idxOf_lt τ)]

/-! ### unitarity and physical probabilities -/

/-- if every per-site matrix is unitary, so is the dense operator -/
theorem C04_dense_unitary (us : Fin n → M2 ℝ) (hU : ∀ j, (m2c (us j))ᴴ * m2c (us j) = 1) :
    (denseK us)ᴴ * denseK us = 1 := by
  funext τ τ'
  have key : ∀ j, ∑ b : Bool, (starRingEnd ℂ) (m2c (us j) b (τ j)) * m2c (us j) b (τ' j)
      = if τ j = τ' j then 1 else 0 := by
    intro j
    have := congrFun (congrFun (hU j) (τ j)) (τ' j)
    simpa [Matrix.mul_apply, Matrix.conjTranspose_apply, Matrix.one_apply] using this
  have hsum : (∑ σ : Fin n → Bool, ∏ j, (starRingEnd ℂ) (m2c (us j) (σ j) (τ j)) * m2c (us j) (σ j) (τ' j))
      = ∏ j, ∑ b : Bool, (starRingEnd ℂ) (m2c (us j) b (τ j)) * m2c (us j) b (τ' j) := by
    rw [Finset.prod_univ_sum, Fintype.piFinset_univ]
  have lhs : ((denseK us)ᴴ * denseK us) τ τ'
      = ∑ σ : Fin n → Bool, ∏ j, (starRingEnd ℂ) (m2c (us j) (σ j) (τ j)) * m2c (us j) (σ j) (τ' j) := by
    simp only [Matrix.mul_apply, Matrix.conjTranspose_apply, denseK, ← starRingEnd_apply, map_prod,
      Finset.prod_mul_distrib]
  rw [lhs, hsum]
  simp only [key, Matrix.one_apply]
  by_cases h : τ = τ'
  · subst h; simp
  · rw [if_neg h]
    obtain ⟨j, hj⟩ := Function.ne_iff.mp h
    exact Finset.prod_eq_zero (mem_univ j) (by simp [hj])

/-- **C04.7a** rotated Born probabilities of a wavefunction sum to its squared norm in every basis -/
theorem C04_psi_probs_sum (us : Fin n → M2 ℝ) (hU : ∀ j, (m2c (us j))ᴴ * m2c (us j) = 1) (ψ : ℕ → C ℝ) :
    ∑ σ : Fin n → Bool, Complex.normSq (psiVec (rotatePsi n us ψ) σ)
      = ∑ σ : Fin n → Bool, Complex.normSq (psiVec (n := n) ψ σ) := by
  rw [C04_rotate_psi]
  have hK := C04_dense_unitary us hU
  have : star ((denseK us).mulVec (psiVec ψ)) ⬝ᵥ ((denseK us).mulVec (psiVec ψ))
       = star (psiVec (n := n) ψ) ⬝ᵥ psiVec ψ := by
    rw [Matrix.star_mulVec, Matrix.dotProduct_mulVec, Matrix.vecMul_vecMul, hK, Matrix.vecMul_one]
  have conv : ∀ v : (Fin n → Bool) → ℂ, ((star v ⬝ᵥ v : ℂ)).re = ∑ σ, Complex.normSq (v σ) := by
    intro v
    simp only [dotProduct, Pi.star_apply, Complex.re_sum]
    refine Finset.sum_congr rfl (fun σ _ => ?_)
    simp [Complex.normSq_apply, Complex.mul_re]
  rw [← conv, ← conv, this]

/-- **C04.7b** rotated probabilities of a positive-semidefinite ρ are non-negative … -/
theorem C04_rho_probs_nonneg (K ρ : Matrix (Fin n → Bool) (Fin n → Bool) ℂ) (hρ : ρ.PosSemidef)
    (σ : Fin n → Bool) : 0 ≤ ((K * ρ * Kᴴ) σ σ).re := by
  have h := hρ.mul_mul_conjTranspose_same K
  have := h.diag_nonneg (i := σ)
  exact (Complex.nonneg_iff.mp this).1

/-- … and sum to the trace of ρ when `K` is unitary. -/
theorem C04_rho_probs_sum (K ρ : Matrix (Fin n → Bool) (Fin n → Bool) ℂ) (hK : Kᴴ * K = 1) :
    ∑ σ, (K * ρ * Kᴴ) σ σ = Matrix.trace ρ := by
  have : Matrix.trace (K * ρ * Kᴴ) = Matrix.trace ρ := by
    rw [Matrix.trace_mul_cycle, hK, Matrix.one_mul]
  simpa [Matrix.trace] using this

/-! ### the default dictionary -/

theorem invSqrt2_sq : (invSqrt2 : ℝ) * invSqrt2 = 1 / 2 := by
  simp only [invSqrt2, two_eq, transc_sqrt]
  rw [div_mul_div_comm, Real.mul_self_sqrt (by norm_num)]; norm_num

/-- Pauli matrices and the eigenvalue pattern, rows/columns indexed by the bit (false = 0, true = 1) -/
def pauliX : Matrix Bool Bool ℂ := fun r c => if r = c then 0 else 1
def pauliY : Matrix Bool Bool ℂ := fun r c => if r = c then 0 else if r then Complex.I else -Complex.I
def diagPM : Matrix Bool Bool ℂ := fun r c => if r = c then (if r then -1 else 1) else 0

/-- **C04.6a** `Z ↦ identity` -/
theorem C04_dZ : m2c (dZ : M2 ℝ) = 1 := by
  funext r c
  cases r <;> cases c <;> simp [m2c, dZ, Matrix.one_apply] <;> rfl

/-- **C04.6b** `X` is unitary and its rows are the bras of the +1, −1 eigenvectors of σ_x, in that order:
`U σ_x = diag(+1,−1) U`. -/
theorem C04_dX_unitary : (m2c (dX : M2 ℝ))ᴴ * m2c dX = 1 := by
  have h := invSqrt2_sq
  funext r c
  cases r <;> cases c <;>
    simp [m2c, dX, Matrix.mul_apply, Matrix.conjTranspose_apply, Matrix.one_apply, Complex.ext_iff, h] <;> norm_num

theorem C04_dX_eigen : m2c (dX : M2 ℝ) * pauliX = diagPM * m2c dX := by
  funext r c
  cases r <;> cases c <;>
    simp [m2c, dX, pauliX, diagPM, Matrix.mul_apply, Complex.ext_iff]

theorem C04_dY_unitary : (m2c (dY : M2 ℝ))ᴴ * m2c dY = 1 := by
  have h := invSqrt2_sq
  funext r c
  cases r <;> cases c <;>
    simp [m2c, dY, Matrix.mul_apply, Matrix.conjTranspose_apply, Matrix.one_apply, Complex.ext_iff, h] <;> norm_num

theorem C04_dY_eigen : m2c (dY : M2 ℝ) * pauliY = diagPM * m2c dY := by
  funext r c
  cases r <;> cases c <;>
    simp [m2c, dY, pauliY, diagPM, Matrix.mul_apply, Complex.ext_iff]

/-- non-vacuity: the default dictionary satisfies the unitarity hypothesis used above, for any basis string -/
example (basis : Fin 3 → Fin 3) :
    let us : Fin 3 → M2 ℝ := fun j => match basis j with | 0 => dX | 1 => dY | _ => dZ
    ∀ j, (m2c (us j))ᴴ * m2c (us j) = 1 := by
  intro us j
  simp only [us]
  split
  · exact C04_dX_unitary
  · exact C04_dY_unitary
  · rw [C04_dZ]; simp

end QV.Props
