/-
C19 — Basis-state indexing and data loading are mutually consistent.

"Row k of the generated Hilbert space, the single basis vector requested for index k, the index
computed back from that vector, and position k of every wavefunction / density-matrix array the
library produces or accepts all denote the same basis state: the n-bit big-endian binary expansion
of k, site 0 being the most significant bit and the leftmost factor of every tensor product; spaces
beyond the size limit are refused. The data loaders return samples, targets and bases exactly as
written in the files (targets to single precision), and reference-basis extraction returns precisely
the rows whose basis is all Z, in order."

All theorems: ∀ sizes, ∀ indices, ∀ bit lists, ∀ tables of tokens. Model definitions:
`QV.Model.Hilbert` (`maskRow` = the code's mask-and-reverse, `generateHilbertSpace`, `subspaceVector`,
`spaceGuard`, `convertBasisElementToIndex` = the code's `matmul` with `2 ** (arange(n,0,-1) - 1)`) and
`QV.Model.DataLoad` (tokenizer, `np.loadtxt` shape logic, `loadData`, `loadDataDM`, `extractRefbasis`);
all executed against the code by the C19 correspondence check (`harness/c19.py`, ops `c19.*`).
Specification side: `Nat.testBit`, Mathlib `∑`, `finProdFinEquiv` (the row-major flattening of a
Kronecker product), `List.Sublist`, `List.finRange`-indexed filters, the table printer `printTable`, and the
writer-side predicates `GoodTok` / `GoodRow` / `RectTable` (any `N ≥ 0`, `n ≥ 1`) / `BigTable` (targets only)
(`QV/Lemmas/DataLoad.lean`).

Gap round: the loaders are modelled with fix F18 (`proposed/F18_loadtxt_ndmin.diff`, applied in /repo e29340c: samples and
per-sample bases read with `ndmin=2`), so the round-trip theorems hold for one-sample and one-site files too;
`C19_position_k(_states)` name the "position k of every array the library produces" clause on the generated space
(`overSpace`, `overSpace2`, executed by driver op `c19.arrays`); `QV.Model.HilbertInt` gives the int64 outcome
classes for arguments outside the documented domain (`C19_subspace_int64`, `C19_size_guard_int`).
-/
import Mathlib.Algebra.BigOperators.Fin
import Mathlib.Logic.Equiv.Fin.Basic
import QV.Lemmas.Hilbert
import QV.Lemmas.DataLoad
import QV.Model.Unitaries
import QV.Model.Density
import QV.Lemmas.HilbertInt

namespace QV.Props
namespace C19
open QV QV.DataLoad Finset

/-! ## Part 1 — indexing -/

/-- **C19.1a** `generate_hilbert_space` (within the size limit) returns `2^s` rows and row `k` is the
`s`-bit big-endian binary expansion of `k`: entry `j` is bit `s-1-j` of `k`. (The model computes the row
as the code does: masks `k & (1 << i)`, `i = 0..s-1`, then reversal — dropping the reversal or reversing
the wrong axis falsifies this.) -/
theorem C19_row_is_binary_expansion (size : Option ℕ) (nv k : ℕ)
    (hs : effSize size nv ≤ 20) (hk : k < 2 ^ effSize size nv) :
    ∃ rows, generateHilbertSpace size nv = .ok rows ∧ rows.length = 2 ^ effSize size nv ∧
      rows[k]? = some (List.ofFn (fun j : Fin (effSize size nv) => k.testBit (effSize size nv - 1 - j.val))) := by
  have hg : spaceGuard size nv = .ok (effSize size nv) := by
    rw [spaceGuard_eq, if_neg (by omega)]
  refine ⟨(List.range (2 ^ effSize size nv)).map (maskRow (effSize size nv)),
    by simp only [generateHilbertSpace, hg], by simp, ?_⟩
  rw [List.getElem?_map, List.getElem?_range hk]
  simp [maskRow_eq_ofFn]

/-- **C19.1b** the same as a positional statement: the big-endian digit sum of row `k` is `k`. -/
theorem C19_row_digit_sum (n k : ℕ) (hk : k < 2 ^ n) :
    ∑ j : Fin n, (if k.testBit (n - 1 - j.val) then 2 ^ (n - 1 - j.val) else 0) = k := by
  have h := basisIndex_eq_sum (fun j : Fin n => k.testBit (n - 1 - j.val))
  rw [← h, basisIndex, ← List.ofFn_eq_map, basisIndexL_ofFn_testBit, Nat.mod_eq_of_lt hk]

/-- **C19.1c** the generated space lists every `s`-bit state exactly once. -/
theorem C19_space_enumerates_all (size : Option ℕ) (nv : ℕ) (rows : List (List Bool))
    (h : generateHilbertSpace size nv = .ok rows) :
    rows.Nodup ∧ ∀ σ : List Bool, σ ∈ rows ↔ σ.length = effSize size nv := by
  simp only [generateHilbertSpace] at h
  cases hg : spaceGuard size nv with
  | error e => rw [hg] at h; cases h
  | ok s =>
    rw [hg] at h
    have hs : s = effSize size nv := by
      rw [spaceGuard_eq] at hg; split at hg <;> cases hg; rfl
    subst hs
    cases h
    constructor
    · refine List.Nodup.map_on ?_ List.nodup_range
      intro a ha b hb hab
      have h1 := congrArg basisIndexL hab
      rw [basisIndexL_maskRow, basisIndexL_maskRow, Nat.mod_eq_of_lt (List.mem_range.1 ha),
        Nat.mod_eq_of_lt (List.mem_range.1 hb)] at h1
      exact h1
    · intro σ
      constructor
      · intro hσ
        obtain ⟨k, _, rfl⟩ := List.mem_map.1 hσ
        simp
      · intro hl
        refine List.mem_map.2 ⟨basisIndexL σ, List.mem_range.2 (hl ▸ basisIndexL_lt σ), ?_⟩
        rw [← hl, maskRow_basisIndexL]

/-- **C19.2a** `subspace_vector(num, size)` is the big-endian expansion of `num` (its low `s` bits), for
every `num` and every size (there is no size guard in the code). -/
theorem C19_subspace_is_binary_expansion (num : ℕ) (size : Option ℕ) (nv : ℕ) :
    subspaceVector num size nv
      = List.ofFn (fun j : Fin (effSize size nv) => num.testBit (effSize size nv - 1 - j.val)) := by
  simp [subspaceVector, maskRow_eq_ofFn]

/-- **C19.2b** the single vector requested for index `k` IS row `k` of the generated space. -/
theorem C19_subspace_eq_row (size : Option ℕ) (nv k : ℕ) (rows : List (List Bool))
    (h : generateHilbertSpace size nv = .ok rows) (hk : k < 2 ^ effSize size nv) :
    rows[k]? = some (subspaceVector k size nv) := by
  simp only [generateHilbertSpace] at h
  cases hg : spaceGuard size nv with
  | error e => rw [hg] at h; cases h
  | ok s =>
    rw [hg] at h
    have hs : s = effSize size nv := by
      rw [spaceGuard_eq] at hg; split at hg <;> cases hg; rfl
    subst hs
    cases h
    rw [List.getElem?_map, List.getElem?_range hk]
    rfl

/-- **C19.3a** the index computed back from the vector for `k` is `k` (for any `num`: its low `s` bits). -/
theorem C19_index_roundtrip (size : Option ℕ) (nv k : ℕ) (hk : k < 2 ^ effSize size nv) :
    convertBasisElementToIndex (subspaceVector k size nv) = k := by
  rw [convertBasisElementToIndex_eq, subspaceVector, basisIndexL_maskRow, Nat.mod_eq_of_lt hk]

theorem C19_index_roundtrip_mod (size : Option ℕ) (nv num : ℕ) :
    convertBasisElementToIndex (subspaceVector num size nv) = num % 2 ^ effSize size nv := by
  rw [convertBasisElementToIndex_eq, subspaceVector, basisIndexL_maskRow]

/-- **C19.3b** conversely every 0/1 state is the vector of its own index. -/
theorem C19_state_roundtrip (σ : List Bool) :
    subspaceVector (convertBasisElementToIndex σ) (some σ.length) σ.length = σ := by
  have he : effSize (some σ.length) σ.length = σ.length := by
    cases h : σ.length <;> simp [effSize]
  rw [subspaceVector, he, convertBasisElementToIndex_eq, maskRow_basisIndexL]

/-- **C19.3c** the index is in range. -/
theorem C19_index_lt (σ : List Bool) : convertBasisElementToIndex σ < 2 ^ σ.length := by
  rw [convertBasisElementToIndex_eq]; exact basisIndexL_lt σ

/-- **C19.3d** row ↦ index is a bijection `Fin 2ⁿ ≃ (Fin n → Bool)`: forward map = binary expansion
(`spaceBit`, the function form of a row), inverse = the code's index. -/
theorem C19_index_equiv (n : ℕ) :
    ∃ e : Fin (2 ^ n) ≃ (Fin n → Bool),
      (∀ k j, e k j = k.val.testBit (n - 1 - j.val)) ∧
      (∀ σ, (e.symm σ).val = convertBasisElementToIndex (List.ofFn σ)) := by
  refine ⟨rowEquiv n, fun k j => rfl, fun σ => ?_⟩
  have hlen : (List.ofFn σ).length = n := by simp
  have h1 : convertBasisElementToIndex (List.ofFn σ) < 2 ^ n := by
    have := C19_index_lt (List.ofFn σ); rwa [hlen] at this
  have h2 : rowEquiv n ⟨_, h1⟩ = σ := by
    funext j
    have hm := maskRow_basisIndexL (List.ofFn σ)
    rw [hlen, maskRow_eq_ofFn] at hm
    have := congrArg (fun l => l[j.val]?) hm
    simp only [List.getElem?_ofFn, j.isLt, dite_true] at this
    simp only [rowEquiv_apply, rowBits, spaceBit, convertBasisElementToIndex_eq]
    exact Option.some.inj this
  rw [← h2, Equiv.symm_apply_apply, h2]

/-- **C19.3e** the code's index (a `matmul` with descending powers of two) is the big-endian digit sum
`Σ_j σ_j 2^(n-1-j)`. Ascending (little-endian) powers falsify this. -/
theorem C19_index_is_big_endian_sum {n : ℕ} (σ : Fin n → Bool) :
    convertBasisElementToIndex (List.ofFn σ) = ∑ j : Fin n, (if σ j then 2 ^ (n - 1 - j.val) else 0) := by
  rw [convertBasisElementToIndex_eq, ← basisIndex_eq_sum, basisIndex, List.ofFn_eq_map]

/-- **C19.4a** site `j` carries weight `2^(n-1-j)`: turning a 0 at site `j` into a 1 raises the index by
exactly that much. -/
theorem C19_msb_first (σ : List Bool) (j : ℕ) (hj : j < σ.length) (h0 : σ[j] = false) :
    convertBasisElementToIndex (σ.set j true) = convertBasisElementToIndex σ + 2 ^ (σ.length - 1 - j) := by
  rw [convertBasisElementToIndex_eq, convertBasisElementToIndex_eq, basisIndexL_set_true σ j hj h0]

/-- **C19.4b** site 0 is the most significant bit: it decides in which half of the index range the state lies. -/
theorem C19_site0_is_msb (b : Bool) (rest : List Bool) :
    (2 ^ rest.length ≤ convertBasisElementToIndex (b :: rest)) ↔ b = true := by
  rw [convertBasisElementToIndex_eq, basisIndexL]
  have := basisIndexL_lt rest
  cases b
  · simp; omega
  · simp

/-- **C19.5a** `generate_hilbert_space` raises (a `ValueError`, nothing else) iff the effective size exceeds 20
— 20 itself is accepted. -/
theorem C19_size_guard (size : Option ℕ) (nv : ℕ) :
    (generateHilbertSpace size nv = .error .ValueError ↔ 20 < effSize size nv) ∧
    (∀ e, generateHilbertSpace size nv = .error e → e = .ValueError) ∧
    ((∃ rows, generateHilbertSpace size nv = .ok rows) ↔ effSize size nv ≤ 20) := by
  by_cases h : effSize size nv > 20
  · have hg : spaceGuard size nv = .error .ValueError := by
      rw [spaceGuard_eq, if_pos h]
    simp only [generateHilbertSpace, hg]
    refine ⟨by simp [h], ?_, ?_⟩
    · intro e he; cases he; rfl
    · constructor
      · rintro ⟨rows, hr⟩; cases hr
      · intro h'; omega
  · have hg : spaceGuard size nv = .ok (effSize size nv) := by
      rw [spaceGuard_eq, if_neg h]
    simp only [generateHilbertSpace, hg]
    refine ⟨?_, ?_, ?_⟩
    · constructor
      · intro he; cases he
      · intro h'; omega
    · intro e he; cases he
    · constructor
      · intro _; omega
      · intro _; exact ⟨_, rfl⟩

/-- **C19.5b** the effective size: `size if size else num_visible` — `None` and `0` both select the
default, any positive size is used as given. -/
theorem C19_effective_size (nv s : ℕ) :
    effSize none nv = nv ∧ effSize (some 0) nv = nv ∧ effSize (some (s + 1)) nv = s + 1 := by
  simp [effSize]

/-- **C19.6a** concatenating two registers multiplies the left index by the dimension of the right one:
`idx (σ ++ τ) = idx σ · 2^|τ| + idx τ` — the left factor of a tensor product is the more significant. -/
theorem C19_kron_index (σ τ : List Bool) :
    convertBasisElementToIndex (σ ++ τ)
      = convertBasisElementToIndex σ * 2 ^ τ.length + convertBasisElementToIndex τ := by
  simp only [convertBasisElementToIndex_eq, basisIndexL_append]

/-- **C19.6b** the same against Mathlib's flattening of a product index (the index convention of
`Matrix.kronecker` after `finProdFinEquiv`, and of `np.kron`): position of `(σ, τ)` = position of `σ ++ τ`. -/
theorem C19_kron_index_finProd (σ τ : List Bool) :
    (finProdFinEquiv (⟨convertBasisElementToIndex σ, C19_index_lt σ⟩,
        (⟨convertBasisElementToIndex τ, C19_index_lt τ⟩ : Fin (2 ^ τ.length)))).val
      = convertBasisElementToIndex (σ ++ τ) := by
  rw [C19_kron_index]
  simp [finProdFinEquiv, Nat.mul_comm, Nat.add_comm]

/-- **C19.6c** the stride test used by the Kronecker sweep (`QV.Model.Unitaries.stage`, the model of
`_kron_mult`, stride `2^(n-1-s)` for site `s`) reads exactly the site-`s` entry of row `idx`. -/
theorem C19_kron_stage_bit (n idx : ℕ) (s : Fin n) :
    ((idx / 2 ^ (n - 1 - s.val)) % 2 == 1) = spaceBit n idx s := by
  simp only [spaceBit, Nat.testBit_eq_decide_div_mod_eq]
  cases h : decide (idx / 2 ^ (n - 1 - s.val) % 2 = 1) <;> simp_all

/-- **C19.6d** position `k` of the arrays the library PRODUCES from the generated space: for a row-wise function
`f` (`psi`, `amplitude`, `probability`) entry `k` of `f(space)` is `f` at the big-endian expansion of `k`
(`spaceRow n k`, the vector the state models of C01/C02/C04/C10 are stated on); for a pair function `g` with
`expand=True` (`rho(space, space)`, `pi`, `gamma`) entry `[k][l]` is `g(row k, row l)` — row index from the first
argument, column index from the second; and the single vector `subspace_vector(k)` denotes the same state.
The space is the list the model of `generate_hilbert_space` computes (masks, reversal). A dropped reversal,
a transposed `expand`, or an enumeration in another order falsifies this. -/
theorem C19_position_k {α β γ : Type} [Zero α] [One α] (n : ℕ) (rows : List (List Bool))
    (h : generateHilbertSpace none n = .ok rows) (f : (Fin n → α) → β) (g : (Fin n → α) → (Fin n → α) → γ)
    (k l : ℕ) (hk : k < 2 ^ n) (hl : l < 2 ^ n) :
    (overSpace n f rows)[k]? = some (f (spaceRow n k)) ∧
    ((overSpace2 n g rows)[k]?.bind (fun r => r[l]?)) = some (g (spaceRow n k) (spaceRow n l)) ∧
    (rowVec n (subspaceVector k none n) : Fin n → α) = spaceRow n k := by
  have he : effSize none n = n := rfl
  simp only [generateHilbertSpace] at h
  cases hg : spaceGuard none n with
  | error e => rw [hg] at h; cases h
  | ok s =>
    rw [hg] at h
    have hs : s = n := by
      rw [spaceGuard_eq] at hg; split at hg <;> cases hg; rfl
    subst hs
    cases h
    refine ⟨?_, ?_, ?_⟩
    · simp [overSpace, List.getElem?_map, List.getElem?_range hk, rowVec_maskRow]
    · simp [overSpace2, List.getElem?_map, List.getElem?_range hk, List.getElem?_range hl, rowVec_maskRow]
    · simp only [subspaceVector, he, rowVec_maskRow]

/-- **C19.6e** the instance the property names: `rho(space, space)[k][l]` computed over the generated space is the
entry `Density.rhoFull am ph k l` that C02's theorems (Hermitian, PSD, trace) are about, and `psi(space)[k]` is the
wavefunction at row `k`. -/
theorem C19_position_k_states {α : Type} [Add α] [Mul α] [Neg α] [Sub α] [Div α] [Zero α] [One α] [Transc α]
    {n h a : ℕ} (rows : List (List Bool)) (hr : generateHilbertSpace none n = .ok rows)
    (am ph : PRBM α n h a) (wam wph : RBM α n h) (k l : Fin (2 ^ n)) :
    ((overSpace2 n (Density.rho am ph) rows)[k.val]?.bind (fun r => r[l.val]?)) = some (Density.rhoFull am ph k l) ∧
    (overSpace n (Wave.psiCplx wam wph) rows)[k.val]? = some (Wave.psiCplx wam wph (spaceRow n k.val)) ∧
    (overSpace n (Wave.psiPos wam) rows)[k.val]? = some (Wave.psiPos wam (spaceRow n k.val)) ∧
    (overSpace n (fun v => Wave.probability wam v 1) rows)[k.val]? = some (Wave.probability wam (spaceRow n k.val) 1) :=
  ⟨(C19_position_k n rows hr (fun _ => ()) (Density.rho am ph) k.val l.val k.isLt l.isLt).2.1,
   (C19_position_k n rows hr (Wave.psiCplx wam wph) (fun _ _ => ()) k.val k.val k.isLt k.isLt).1,
   (C19_position_k n rows hr (Wave.psiPos wam) (fun _ _ => ()) k.val k.val k.isLt k.isLt).1,
   (C19_position_k n rows hr (fun v => Wave.probability wam v 1) (fun _ _ => ()) k.val k.val k.isLt k.isLt).1⟩

/-! ### arguments outside the documented domain, as outcome classes (`QV.Model.HilbertInt`) -/

/-- **C19.5c** `generate_hilbert_space` with a Python-int size: on non-negative sizes the int64 model IS the `Nat`
model (`C19_size_guard` applies); a negative size is never answered with a space — it is refused (`TypeError`). -/
theorem C19_size_guard_int (nv : ℕ) :
    (∀ size : Option ℕ, spaceGuardZ (size.map Int.ofNat) nv = spaceGuard size nv) ∧
    (∀ s : ℤ, s < 0 → spaceGuardZ (some s) nv = .error .TypeError) :=
  ⟨fun size => spaceGuardZ_nat nv size, fun s hs => spaceGuardZ_neg nv s hs⟩

/-- **C19.2c** `subspace_vector` in int64 arithmetic: an index that does not fit a C long is refused
(`OverflowError`); for EVERY index `0 ≤ num < 2^63` and EVERY size `s ≥ 0` — also `s > 62`, where `1 << i` wraps
around — the result is the `s`-bit big-endian expansion of `num` (the `Nat` model `subspaceVector`, hence
`C19_subspace_is_binary_expansion`); a negative size gives the empty vector. (Negative indices are read in two's
complement, `intBit`; they are outside the property.) -/
theorem C19_subspace_int64 (nv : ℕ) :
    (∀ (num : ℤ) (size : Option ℤ), (num < -(2 ^ 63) ∨ 2 ^ 63 ≤ num) →
        subspaceVectorZ num size nv = .overflowError) ∧
    (∀ (m : ℕ) (size : Option ℕ), m < 2 ^ 63 →
        subspaceVectorZ (m : ℤ) (size.map Int.ofNat) nv = .ok (subspaceVector m size nv)) ∧
    (∀ (m : ℕ) (s : ℤ), m < 2 ^ 63 → s < 0 → subspaceVectorZ (m : ℤ) (some s) nv = .ok []) :=
  ⟨fun num size h => subspaceVectorZ_overflow nv num size h,
   fun m size hm => subspaceVectorZ_nat nv m size hm,
   fun m s hm hs => subspaceVectorZ_negsize nv m s hm hs⟩

/-! ## Part 2 — data files -/

/-- **C19.7a** reading back a printed table gives exactly the token rows, in order (any number of rows
and columns; tokens non-empty without whitespace, line ends or `#`). -/
theorem C19_table_roundtrip_tokens (rows : List (List Token)) (h : ∀ r ∈ rows, GoodRow r) :
    tokenize (printTable rows) = rows :=
  tokenize_printTable rows h

/-- **C19.7b** `np.loadtxt(dtype=str)` of a printed `N × m` table, `N, m ≥ 2`: the 2-D array of the tokens. -/
theorem C19_table_roundtrip (ndmin1 : Bool) (rows : List (List Token)) (m : ℕ) (h : ∀ r ∈ rows, GoodRow r)
    (hN : 2 ≤ rows.length) (hm : 2 ≤ m) (hrect : ∀ r ∈ rows, r.length = m) :
    loadtxtStr ndmin1 (printTable rows) = .ok (.mat rows) := by
  rw [loadtxtStr, tokenize_printTable rows h, shapeTable_mat ndmin1 rows m hN hm hrect]

/-- **C19.7c** the squeezed shapes: one row → 1-D of its tokens; one column → 1-D of the column; a single
token → 0-d, or 1-D of length one under `ndmin=1` (the `bases_path` call). -/
theorem C19_table_squeezed (ndmin1 : Bool) :
    (∀ r : List Token, GoodRow r → 2 ≤ r.length → loadtxtStr ndmin1 (printTable [r]) = .ok (.vec r)) ∧
    (∀ col : List Token, (∀ t ∈ col, GoodTok t) → 2 ≤ col.length →
        loadtxtStr ndmin1 (printTable (col.map fun t => [t])) = .ok (.vec col)) ∧
    (∀ t : Token, GoodTok t →
        loadtxtStr ndmin1 (printTable [[t]]) = .ok (if ndmin1 then .vec [t] else .scalar t)) := by
  refine ⟨?_, ?_, ?_⟩
  · intro r hr h2
    rw [loadtxtStr, tokenize_printTable [r] (by simpa using hr), shapeTable_one_row ndmin1 r h2]
  · intro col hc h2
    have hg : ∀ r ∈ col.map (fun t => [t]), GoodRow r := by
      intro r hr
      obtain ⟨t, ht, rfl⟩ := List.mem_map.1 hr
      exact ⟨by simp, by simpa using hc t ht⟩
    rw [loadtxtStr, tokenize_printTable _ hg,
      shapeTable_one_col ndmin1 _ (by simpa using h2) (by
        intro r hr; obtain ⟨t, _, rfl⟩ := List.mem_map.1 hr; rfl)]
    congr 2
    clear hc h2 hg
    induction col with
    | nil => rfl
    | cons a l ih => simpa using ih
  · intro t ht
    have hg : ∀ r ∈ [[t]], GoodRow r := by
      intro r hr; simp only [List.mem_singleton] at hr; subst hr; exact ⟨by simp, by simpa using ht⟩
    rw [loadtxtStr, tokenize_printTable _ hg, shapeTable_single]

/-- **C19.7d** a table whose rows have different lengths is refused (`ValueError`). -/
theorem C19_table_ragged (ndmin1 : Bool) (r0 : List Token) (rest : List (List Token))
    (h : ∀ r ∈ r0 :: rest, GoodRow r) (hne : ∃ r ∈ rest, r.length ≠ r0.length) :
    loadtxtStr ndmin1 (printTable (r0 :: rest)) = .error .ValueError := by
  rw [loadtxtStr, tokenize_printTable _ h, shapeTable_ragged ndmin1 r0 rest hne]

/-- **C19.7e** files are read line by line; a blank or comment-only line contributes nothing, a trailing
`# comment` is ignored, runs of whitespace (also leading / trailing) separate fields. -/
theorem C19_lines_comments_whitespace :
    (∀ (l rest : List Char) (c : Char), isNl c = true → (∀ x ∈ l, isNl x = false) →
        tokenize (l ++ c :: rest)
          = (if (parseLine l).isEmpty then [] else [parseLine l]) ++ tokenize rest) ∧
    (∀ (l c : List Char), (∀ x ∈ l, x ≠ '#') → parseLine (l ++ '#' :: c) = parseLine l) ∧
    (∀ (a b : List Char) (c : Char), isWs c = true → splitWs (a ++ c :: b) = splitWs a ++ splitWs b) ∧
    parseLine [] = [] :=
  ⟨fun l rest _ hc h => tokenize_append_nl l rest hc h, fun _ c h => parseLine_comment c h,
   fun a b _ hc => splitWs_append_ws a b hc, by simp [parseLine, stripComment, splitWs_nil]⟩

/-- **C19.8a** a numeric file is returned exactly as written: every token parsed (by numpy's parser, a
parameter) and rounded once to single precision, in the same layout; shape logic as for strings. -/
theorem C19_numeric_table_roundtrip {ν : Type} (parse : Token → Option ν) (round : ν → ν) (val : Token → ν)
    (rows : List (List Token)) (h : ∀ r ∈ rows, GoodRow r)
    (hp : ∀ r ∈ rows, ∀ t ∈ r, parse t = some (val t)) :
    loadtxtNum parse round (printTable rows)
      = shapeTable false (rows.map (fun r => r.map (fun t => round (val t)))) := by
  rw [loadtxtNum, tokenize_printTable rows h, convertRows_ok parse round val rows hp]

/-- a token numpy cannot convert makes the whole load fail with `ValueError` -/
theorem C19_numeric_table_bad_token {ν : Type} (parse : Token → Option ν) (round : ν → ν)
    (rows : List (List Token)) (h : ∀ r ∈ rows, GoodRow r)
    (hbad : ∃ r ∈ rows, ∃ t ∈ r, parse t = none) :
    loadtxtNum parse round (printTable rows) = .error .ValueError := by
  rw [loadtxtNum, tokenize_printTable rows h, convertRows_bad parse round rows hbad]

/-- **C19.7f** (F18) `np.loadtxt(dtype=str, ndmin=2)` — the `tr_bases_path` call — of ANY printed rectangular
table, `N ≥ 0` rows and `m ≥ 1` columns, is the 2-D array of the tokens: one-row and one-column files keep
their shapes `(1, m)` / `(N, 1)`. (A squeezing read — the call without `ndmin=2` — falsifies this for `N = 1`
and for `m = 1`, see `C19_table_squeezed`.) -/
theorem C19_table_ndmin2 (rows : List (List Token)) (m : ℕ) (h : RectTable rows m) :
    loadtxtStr2 (printTable rows) = .ok (.mat rows) ∧
    (rows ≠ [] → (Arr.mat rows).shape = [rows.length, m]) := by
  refine ⟨loadtxtStr2_rect rows m h, fun hne => ?_⟩
  cases rows with
  | nil => exact absurd rfl hne
  | cons r rs => simp [Arr.shape, h.2 r (by simp)]

/-- **C19.7g** the numeric counterpart (the samples call): every token parsed and rounded once, layout and
shape `(N, m)` kept for every `N ≥ 0`, `m ≥ 1`; ragged tables and unparsable tokens are `ValueError`s. -/
theorem C19_numeric_table_ndmin2 {ν : Type} (parse : Token → Option ν) (round : ν → ν) (val : Token → ν)
    (rows : List (List Token)) (m : ℕ) (h : RectTable rows m) :
    ((∀ r ∈ rows, ∀ t ∈ r, parse t = some (val t)) →
      loadtxtNum2 parse round (printTable rows)
        = .ok (.mat (rows.map (fun r => r.map (fun t => round (val t)))))) ∧
    ((∃ r ∈ rows, ∃ t ∈ r, parse t = none) →
      loadtxtNum2 parse round (printTable rows) = .error .ValueError) := by
  refine ⟨fun hp => loadtxtNum2_rect parse round val rows m h hp, fun hbad => ?_⟩
  rw [loadtxtNum2, tokenize_printTable rows h.1, convertRows_bad parse round rows hbad]

/-- a ragged table is refused also under `ndmin=2` -/
theorem C19_table_ragged_ndmin2 (r0 : List Token) (rest : List (List Token))
    (h : ∀ r ∈ r0 :: rest, GoodRow r) (hne : ∃ r ∈ rest, r.length ≠ r0.length) :
    loadtxtStr2 (printTable (r0 :: rest)) = .error .ValueError := by
  rw [loadtxtStr2, tokenize_printTable _ h, shapeTable2_ragged r0 rest hne]

/-- what `load_data` / `load_data_DM` append for the two bases files, as written: the per-sample table `B` as the
2-D array `(N, n)` whatever `N, n ≥ 1` are; the list of bases `U` (`bases_path`, `ndmin=1`) as `basesAsWritten`:
1-D list of words for a one-column (or one-row) file, 2-D otherwise. -/
def basesItems {ν : Type} (B U : Option (List (List Token))) (mU : ℕ) : List (Item ν) :=
  (B.map (fun T => Item.str (.mat T))).toList ++ (U.map (fun T => Item.str (basesAsWritten T mU))).toList

theorem loadBases_written {ν : Type} (B U : Option (List (List Token))) (mB mU : ℕ)
    (hB : ∀ T ∈ B, RectTable T mB) (hU : ∀ T ∈ U, RectTable T mU) :
    loadBases (ν := ν) (B.map printTable) (U.map printTable) = .ok (basesItems B U mU) := by
  have h2 : optStr2 (ν := ν) (B.map printTable) = .ok (B.map (fun X => Item.str (.mat X))).toList := by
    cases B with
    | none => rfl
    | some X => simp [optStr2, loadtxtStr2_rect X mB (hB X rfl)]
  have h1 : optStr (ν := ν) true (U.map printTable)
      = .ok (U.map (fun X => Item.str (basesAsWritten X mU))).toList := by
    cases U with
    | none => rfl
    | some X => simp [optStr, loadtxtStr_true_rect X mU (hU X rfl)]
  simp only [loadBases, h2, h1, basesItems]

/-- **C19.8b** `load_data` on printed files, ANY number of samples `N ≥ 0` and sites `n ≥ 1` (F18: no `BigTable`
hypothesis on the samples and per-sample bases; the target `P` is a `2^n × 2` table, hence `BigTable`): the outputs
are, in this order, the samples as the `(N, n)` array of the rounded values, then — only if given — the target
as the `2 × N` real-pair layout (row 0 = first column, row 1 = second column of the psi file), the per-sample
bases as the `(N, n)` array, the list of bases; nothing else.
(Tie to the code: `N ≥ 1`. For an EMPTY samples file numpy returns shape `(0, 1)` whatever `n` is, the model `.mat []`;
the harness treats empty files as malformed input.) -/
theorem C19_load_data_roundtrip {ν : Type} [Inhabited ν] (parse : Token → Option ν) (round : ν → ν)
    (val : Token → ν) (S : List (List Token)) (P B U : Option (List (List Token))) (n mU : ℕ)
    (hS : RectTable S n) (hP : ∀ T ∈ P, BigTable T) (hB : ∀ T ∈ B, RectTable T n) (hU : ∀ T ∈ U, RectTable T mU)
    (hpS : ∀ r ∈ S, ∀ t ∈ r, parse t = some (val t))
    (hpP : ∀ T ∈ P, ∀ r ∈ T, ∀ t ∈ r, parse t = some (val t)) :
    loadData parse round (printTable S) (P.map printTable) (B.map printTable) (U.map printTable)
      = .ok (Item.num (.mat (S.map (fun r => r.map (fun t => round (val t)))))
          :: (P.map (fun T => Item.cplx (.vec (T.map (fun r => round (val (r.getD 0 [])))))
                                         (.vec (T.map (fun r => round (val (r.getD 1 []))))))).toList
          ++ basesItems B U mU) := by
  have hpsi : optPsi parse round (P.map printTable)
      = .ok (P.map (fun T => Item.cplx (.vec (T.map (fun r => round (val (r.getD 0 [])))))
                                         (.vec (T.map (fun r => round (val (r.getD 1 []))))))).toList := by
    cases P with
    | none => rfl
    | some T =>
      have hT := hP T rfl
      obtain ⟨_, _, m, hm, hrect⟩ := hT
      simp only [Option.map_some, optPsi, loadtxtNum_big parse round val T (hP T rfl) (hpP T rfl), psiColumns,
        Option.toList_some, List.map_map]
      congr 4
      · refine List.map_congr_left (fun r hr => ?_)
        have : 0 < r.length := by rw [hrect r hr]; omega
        simp [List.getD_eq_getElem?_getD, this]
      · refine List.map_congr_left (fun r hr => ?_)
        have : 1 < r.length := by rw [hrect r hr]; omega
        simp [List.getD_eq_getElem?_getD, this]
  simp only [loadData, loadtxtNum2_rect parse round val S n hS hpS, hpsi, loadBases_written B U n mU hB hU]

/-- **C19.8b'** the shape clause made explicit: for `N ≥ 1` samples of `n` sites the first output of `load_data`
has shape `(N, n)` and the per-sample bases (when given) have shape `(N, n)` — in particular for a single sample
and for a single site. (Before F18: shape `(n,)` resp. `(N,)`.) -/
theorem C19_load_data_shape {ν : Type} [Inhabited ν] (parse : Token → Option ν) (round : ν → ν)
    (val : Token → ν) (S B : List (List Token)) (n : ℕ) (hS : RectTable S n) (hB : RectTable B n) (hN : S ≠ [])
    (hNB : B.length = S.length) (hpS : ∀ r ∈ S, ∀ t ∈ r, parse t = some (val t)) :
    ∃ a b, loadData parse round (printTable S) none (some (printTable B)) none = .ok [Item.num a, Item.str b] ∧
      a.shape = [S.length, n] ∧ b.shape = [S.length, n] := by
  have h := C19_load_data_roundtrip parse round val S none (some B) none n 0 hS (by simp)
    (by intro T hT; cases hT; exact hB) (by simp) hpS (by simp)
  refine ⟨_, _, by simpa [basesItems] using h, ?_, ?_⟩
  · cases S with
    | nil => exact absurd rfl hN
    | cons r rs => simp [Arr.shape, hS.2 r (by simp)]
  · cases B with
    | nil => cases S with
      | nil => exact absurd rfl hN
      | cons _ _ => simp at hNB
    | cons r rs =>
      have := hB.2 r (by simp)
      simp only [Arr.shape, List.headD_cons, this]
      rw [hNB]

/-- **C19.8c** `load_data_DM` (same generality for samples and bases; the matrix parts are `2^n × 2^n`, hence
`BigTable`): exactly one of the two matrix parts → `ValueError`; both → the pair `(real, imag)` right after the
samples; neither → only the samples (bases as for `load_data`). -/
theorem C19_load_data_DM_roundtrip {ν : Type} (parse : Token → Option ν) (round : ν → ν)
    (val : Token → ν) (S : List (List Token)) (Re Im B U : Option (List (List Token))) (n mU : ℕ)
    (hS : RectTable S n) (hRe : ∀ T ∈ Re, BigTable T) (hIm : ∀ T ∈ Im, BigTable T)
    (hB : ∀ T ∈ B, RectTable T n) (hU : ∀ T ∈ U, RectTable T mU)
    (hpS : ∀ r ∈ S, ∀ t ∈ r, parse t = some (val t))
    (hpRe : ∀ T ∈ Re, ∀ r ∈ T, ∀ t ∈ r, parse t = some (val t))
    (hpIm : ∀ T ∈ Im, ∀ r ∈ T, ∀ t ∈ r, parse t = some (val t)) :
    loadDataDM parse round (printTable S) (Re.map printTable) (Im.map printTable) (B.map printTable)
        (U.map printTable)
      = match Re, Im with
        | none, none =>
          .ok (Item.num (.mat (S.map (fun r => r.map (fun t => round (val t))))) :: basesItems B U mU)
        | some R, some I =>
          if (Arr.mat (R.map (fun r => r.map (fun t => round (val t))))).shape
              == (Arr.mat (I.map (fun r => r.map (fun t => round (val t))))).shape then
            .ok (Item.num (.mat (S.map (fun r => r.map (fun t => round (val t)))))
              :: Item.cplx (.mat (R.map (fun r => r.map (fun t => round (val t)))))
                           (.mat (I.map (fun r => r.map (fun t => round (val t)))))
              :: basesItems B U mU)
          else .error .RuntimeError
        | _, _ => .error .ValueError := by
  have hnum : ∀ (T : Option (List (List Token))), (∀ X ∈ T, BigTable X) →
      (∀ X ∈ T, ∀ r ∈ X, ∀ t ∈ r, parse t = some (val t)) →
      optNum parse round (T.map printTable)
        = .ok (T.map (fun X => Arr.mat (X.map (fun r => r.map (fun t => round (val t)))))) := by
    intro T hT hp
    cases T with
    | none => rfl
    | some X => simp [optNum, loadtxtNum_big parse round val X (hT X rfl) (hp X rfl)]
  simp only [loadDataDM, loadtxtNum2_rect parse round val S n hS hpS, hnum Re hRe hpRe, hnum Im hIm hpIm,
    loadBases_written B U n mU hB hU]
  cases Re with
  | none => cases Im <;> simp [combineDM]
  | some R =>
    cases Im with
    | none => simp [combineDM]
    | some I =>
      simp only [Option.map_some, combineDM]
      by_cases hsh : ((Arr.mat (R.map (fun r => r.map (fun t => round (val t))))).shape
              == (Arr.mat (I.map (fun r => r.map (fun t => round (val t))))).shape) = true
      · rw [if_pos hsh, if_pos hsh]; rfl
      · rw [if_neg hsh, if_neg hsh]

/-- **C19.9** `extract_refbasis_samples` on `N` sample rows and `N` basis rows returns exactly the sample
rows at the positions `i` whose basis row consists of `"Z"` only — all of them, no others, in increasing
position order (so duplicates among the samples are handled by position, not by value). -/
theorem C19_refbasis {τ : Type} (samples : List (List τ)) (bases : List (List Token))
    (h : samples.length = bases.length) :
    extractRefbasis (.mat samples) (.mat bases)
      = .ok (.mat (((List.finRange samples.length).filter
            (fun i => decide (∀ t ∈ bases[i.val]'(h ▸ i.isLt), t = ['Z']))).map (fun i => samples[i.val]))) := by
  have hz : ∀ r : List Token, rowAllZ r = decide (∀ t ∈ r, t = ['Z']) := by
    intro r
    simp only [rowAllZ, zTok]
    rw [Bool.eq_iff_iff]
    simp [List.all_eq_true]
  have hfun : rowAllZ = fun r : List Token => decide (∀ t ∈ r, t = ['Z']) := funext hz
  simp only [extractRefbasis, List.length_map, h, beq_self_eq_true, if_true]
  rw [hfun, maskSelect_map_eq_finRange samples bases _ h]

/-- **C19.9'** consequences: the result is an order-preserving sub-list of the samples, and its length is
the number of all-`Z` basis rows. -/
theorem C19_refbasis_sublist {τ : Type} (samples : List (List τ)) (bases : List (List Token))
    (h : samples.length = bases.length) :
    ∃ res, extractRefbasis (.mat samples) (.mat bases) = .ok (.mat res) ∧ res.Sublist samples ∧
      res.length = bases.countP (fun r => decide (∀ t ∈ r, t = ['Z'])) := by
  have hz : ∀ r : List Token, rowAllZ r = decide (∀ t ∈ r, t = ['Z']) := by
    intro r
    simp only [rowAllZ, zTok]
    rw [Bool.eq_iff_iff]
    simp [List.all_eq_true]
  refine ⟨maskSelect samples (bases.map rowAllZ), ?_, maskSelect_sublist _ _, ?_⟩
  · simp [extractRefbasis, h]
  · rw [maskSelect_length _ _ (by simpa using h), List.count_eq_countP, List.countP_map]
    congr 1
    funext r
    simp [hz]

/-- **C19.9''** call-form errors: a bases array that is not 2-D (one-row / one-column file), or a row-count
mismatch, is an `IndexError`, never a silently wrong selection. -/
theorem C19_refbasis_errors {τ : Type} (samples : Arr τ) :
    (∀ xs, extractRefbasis samples (.vec xs) = .error .IndexError) ∧
    (∀ x, extractRefbasis samples (.scalar x) = .error .IndexError) ∧
    (∀ rows bases, rows.length ≠ bases.length →
        extractRefbasis (.mat rows : Arr τ) (.mat bases) = .error .IndexError) := by
  refine ⟨fun _ => rfl, fun _ => rfl, fun rows bases hne => ?_⟩
  simp [extractRefbasis, hne]

/-- **C19.9c** (F18) end to end: files of `N ≥ 1` samples on `n ≥ 1` sites and their `N` basis rows, loaded with
`load_data` and handed to `extract_refbasis_samples`, give — for EVERY `N` and `n`, in particular a single sample or
a single site — the loaded sample rows whose basis row is all `"Z"`, in order; never an `IndexError`.
(Before F18 the one-row and one-column cases lost their 2-D shape and ended in `C19_refbasis_errors`.) -/
theorem C19_load_then_refbasis {ν : Type} [Inhabited ν] (parse : Token → Option ν) (round : ν → ν)
    (val : Token → ν) (S B : List (List Token)) (n : ℕ) (hS : RectTable S n) (hB : RectTable B n)
    (hNB : S.length = B.length) (hpS : ∀ r ∈ S, ∀ t ∈ r, parse t = some (val t)) :
    ∃ rows, rows = S.map (fun r => r.map (fun t => round (val t))) ∧
      loadData parse round (printTable S) none (some (printTable B)) none
        = .ok [Item.num (.mat rows), Item.str (.mat B)] ∧
      ∃ hl : rows.length = B.length,
        extractRefbasis (.mat rows) (.mat B)
          = .ok (.mat (((List.finRange rows.length).filter
              (fun i => decide (∀ t ∈ B[i.val]'(hl ▸ i.isLt), t = ['Z']))).map (fun i => rows[i.val]))) := by
  have h := C19_load_data_roundtrip parse round val S none (some B) none n 0 hS (by simp)
    (by intro T hT; cases hT; exact hB) (by simp) hpS (by simp)
  have hlen : (S.map (fun r => r.map (fun t => round (val t)))).length = B.length := by simpa using hNB
  exact ⟨_, rfl, by simpa [basesItems] using h, hlen, C19_refbasis _ B hlen⟩

/-! ## Non-vacuity: concrete instances -/

/-- `n = 3`: the generated space is `itertools.product([0,1], repeat=3)` in order. -/
example : generateHilbertSpace none 3 = .ok
    [[false, false, false], [false, false, true], [false, true, false], [false, true, true],
     [true, false, false], [true, false, true], [true, true, false], [true, true, true]] := by decide

example : subspaceVector 6 (some 4) 9 = [false, true, true, false] := by decide
example : convertBasisElementToIndex [true, false, true, true] = 11 := by decide
example : generateHilbertSpace (some 21) 2 = .error .ValueError := by decide
example : generateHilbertSpace (some 0) 21 = .error .ValueError := by decide

/-- a non-trivial good table: two rows, a multi-character token, and the hypotheses of `C19_table_roundtrip`. -/
example : BigTable [[['X'], ['Z', 'Z']], [['0', '.', '5'], ['-', '1', 'e', '-', '3']]] := by
  refine ⟨?_, by decide, 2, by decide, by decide⟩
  intro r hr
  simp only [List.mem_cons, List.not_mem_nil, or_false] at hr
  rcases hr with rfl | rfl <;> exact ⟨by decide, by
    intro t ht
    simp only [List.mem_cons, List.not_mem_nil, or_false] at ht
    rcases ht with rfl | rfl <;> exact ⟨by decide, by decide⟩⟩

/-- the tokenizer on a file with a comment line, a blank line, a trailing comment, tabs and `\r\n`. -/
example : tokenize ['#', 'h', '\n', '1', ' ', '0', ' ', '#', 'c', '\n', '\n', '\t', '0', '\t', ' ', '1', '\r', '\n']
    = [[['1'], ['0']], [['0'], ['1']]] := by decide

/-- reference-basis extraction keeps rows 0 and 2 (all `Z`), drops the `X Z` row and the `ZZ`-token row. -/
example : extractRefbasis (.mat [[1, 0], [0, 1], [1, 1], [0, 0]])
    (.mat [[['Z'], ['Z']], [['X'], ['Z']], [['Z'], ['Z']], [['Z', 'Z'], ['Z']]])
    = .ok (.mat [[1, 0], [1, 1]]) := by decide

/-- F18: a single sample of three sites and three samples of a single site keep their 2-D shapes. -/
example : loadData (ν := Nat) (fun t => if t = ['1'] then some 1 else if t = ['0'] then some 0 else none) id
    ['1', ' ', '0', ' ', '1', '\n'] none (some ['Z', ' ', 'Z', ' ', 'Z', '\n']) none
    = .ok [Item.num (.mat [[1, 0, 1]]), Item.str (.mat [[['Z'], ['Z'], ['Z']]])] := by decide
example : loadData (ν := Nat) (fun t => if t = ['1'] then some 1 else if t = ['0'] then some 0 else none) id
    ['1', '\n', '0', '\n', '1', '\n'] none (some ['Z', '\n', 'X', '\n', 'Z', '\n']) none
    = .ok [Item.num (.mat [[1], [0], [1]]), Item.str (.mat [[['Z']], [['X']], [['Z']]])] := by decide

/-- int64 outcome classes: `subspace_vector(-1, 3)` is all ones (two's complement), `subspace_vector(5, 65)` is the
65-entry expansion of 5, `2^63` is refused, a negative size gives the empty vector / a refusal. -/
example : subspaceVectorZ (-1) (some 3) 9 = .ok [true, true, true] := by decide
example : subspaceVectorZ (-3) (some 4) 9 = .ok [true, true, false, true] := by decide
example : subspaceVectorZ (2 ^ 63) (some 4) 9 = .overflowError := by decide
example : subspaceVectorZ 5 (some (-1)) 9 = .ok [] := by decide
example : spaceGuardZ (some (-1)) 3 = .error .TypeError := by decide

end C19
end QV.Props
