/-
C01 — Wavefunction states satisfy the Born rule they are defined by.

"For every parameter setting of a positive or complex wavefunction state, the squared
modulus of the wavefunction at each basis state equals the unnormalised probability the
state reports for it, which equals the hidden-unit marginal of the amplitude network's
Boltzmann weight, and the reported normalisation equals the sum of those probabilities
over the whole basis (so the normalised state has unit norm and its probabilities sum to
one). The complex state's modulus depends only on the amplitude network and its phase is
exactly half the negated effective energy of the phase network; the positive state is
real and non-negative everywhere."

All theorems: ∀ n h, ∀ real parameters, ∀ visible vectors (not only 0/1 ones).
Model definitions: QV.Model.{Rbm,States,Hilbert}; executed against the code by the C01
correspondence check.
-/
import Mathlib.Analysis.SpecialFunctions.Trigonometric.Basic
import Mathlib.Analysis.SpecialFunctions.Sqrt
import Mathlib.Analysis.SpecialFunctions.Complex.Circle
import Mathlib.Algebra.BigOperators.Field
import QV.Model.States
import QV.Lemmas.Basic
import QV.Lemmas.Hilbert
import QV.Lemmas.CallShape

namespace QV.Props
open QV Finset

variable {n h : ℕ}

/-- `-E_λ(v)` in closed form over ℝ. -/
theorem neg_effEnergy_eq (r : RBM ℝ n h) (v : Fin n → ℝ) :
    -(r.effEnergy v) = ∑ j, v j * r.b j + ∑ i, Real.log (1 + Real.exp (r.preact v i)) := by
  simp [RBM.effEnergy]

/-- The joint Boltzmann weight `exp(-E(v, hid))` of the amplitude RBM:
`exp(Σ_j v_j b_j + Σ_i hid_i (c_i + Σ_j W_ij v_j))`. (Specification, not part of the code.) -/
noncomputable def jointWeight (r : RBM ℝ n h) (v : Fin n → ℝ) (hid : Fin h → Bool) : ℝ :=
  Real.exp (∑ j, v j * r.b j + ∑ i, (if hid i then (∑ j, v j * r.W i j) + r.c i else 0))

/-- **C01.2** the unnormalised probability `exp(-E_λ(v))` is the hidden-unit marginal of the
joint Boltzmann weight. -/
theorem C01_hidden_marginal (r : RBM ℝ n h) (v : Fin n → ℝ) :
    Wave.probability r v 1 = ∑ hid : Fin h → Bool, jointWeight r v hid := by
  simp only [Wave.probability, transc_exp, div_one, neg_effEnergy_eq]
  rw [Real.exp_add]
  have hterm : ∀ i, Real.exp (Real.log (1 + Real.exp (r.preact v i)))
      = ∑ t : Bool, Real.exp (if t then r.preact v i else 0) := by
    intro i
    rw [Real.exp_log (by positivity), Fintype.sum_bool]
    simp only [if_true, Bool.false_eq_true, if_false, Real.exp_zero]
    ring
  have h2 : Real.exp (∑ i, Real.log (1 + Real.exp (r.preact v i)))
      = ∑ hid : Fin h → Bool, ∏ i, Real.exp (if hid i then r.preact v i else 0) := by
    rw [Real.exp_sum]
    simp_rw [hterm]
    rw [Finset.prod_univ_sum, Fintype.piFinset_univ]
  rw [h2, Finset.mul_sum]
  refine Finset.sum_congr rfl (fun hid _ => ?_)
  unfold jointWeight
  rw [Real.exp_add]
  congr 1
  rw [Real.exp_sum]
  refine Finset.prod_congr rfl (fun i _ => ?_)
  simp [RBM.preact]

/-- **C01.1 (positive)** `|ψ(v)|² = probability(v, Z=1)`. -/
theorem C01_normSq_psi_positive (am : RBM ℝ n h) (v : Fin n → ℝ) :
    (Wave.psiPos am v).1 ^ 2 + (Wave.psiPos am v).2 ^ 2 = Wave.probability am v 1 := by
  simp [Wave.psiPos, Wave.amplitude, Wave.probability, Real.sq_sqrt (Real.exp_pos _).le]

/-- **C01.1 (complex)** `|ψ(v)|² = probability(v, Z=1)`, whatever the phase network is. -/
theorem C01_normSq_psi_complex (am ph : RBM ℝ n h) (v : Fin n → ℝ) :
    (Wave.psiCplx am ph v).1 ^ 2 + (Wave.psiCplx am ph v).2 ^ 2 = Wave.probability am v 1 := by
  simp only [Wave.psiCplx, Wave.probability, transc_cos, transc_sin, transc_exp, div_one]
  have hs := Real.sin_sq_add_cos_sq (Wave.phase ph v)
  have ha : Wave.amplitude am v ^ 2 = Real.exp (-(am.effEnergy v)) := by
    simp [Wave.amplitude, Real.sq_sqrt (Real.exp_pos _).le]
  rw [← ha]
  nlinarith [hs]

/-- **C01.5a** the modulus of the complex state does not depend on the phase network. -/
theorem C01_modulus_indep_phase_net (am ph ph' : RBM ℝ n h) (v : Fin n → ℝ) :
    (Wave.psiCplx am ph v).1 ^ 2 + (Wave.psiCplx am ph v).2 ^ 2
      = (Wave.psiCplx am ph' v).1 ^ 2 + (Wave.psiCplx am ph' v).2 ^ 2 := by
  rw [C01_normSq_psi_complex, C01_normSq_psi_complex]

/-- **C01.5b** the phase is exactly half the negated effective energy of the phase network. -/
theorem C01_phase (ph : RBM ℝ n h) (v : Fin n → ℝ) :
    Wave.phase ph v = -(ph.effEnergy v) / 2 := by
  simp [Wave.phase]; ring

/-- **C01.5c** `ψ = amplitude · e^{i·phase}` as a complex number, `amplitude = exp(-E_λ/2) > 0`. -/
theorem C01_psi_polar (am ph : RBM ℝ n h) (v : Fin n → ℝ) :
    (⟨(Wave.psiCplx am ph v).1, (Wave.psiCplx am ph v).2⟩ : ℂ)
      = ((Wave.amplitude am v : ℝ) : ℂ) * Complex.exp (((Wave.phase ph v : ℝ) : ℂ) * Complex.I) := by
  apply Complex.ext <;>
    simp [Wave.psiCplx, Complex.exp_re, Complex.exp_im, Complex.mul_re, Complex.mul_im]

theorem C01_amplitude_eq (am : RBM ℝ n h) (v : Fin n → ℝ) :
    Wave.amplitude am v = Real.exp (-(am.effEnergy v) / 2) := by
  simp only [Wave.amplitude, transc_sqrt, transc_exp]
  rw [Real.sqrt_eq_iff_mul_self_eq (Real.exp_pos _).le (Real.exp_pos _).le, ← Real.exp_add]
  congr 1; ring

/-- **C01.6** the positive state is real and strictly positive everywhere. -/
theorem C01_positive_real_pos (am : RBM ℝ n h) (v : Fin n → ℝ) :
    (Wave.psiPos am v).2 = 0 ∧ 0 < (Wave.psiPos am v).1 := by
  refine ⟨rfl, ?_⟩
  simp only [Wave.psiPos, Wave.amplitude, transc_sqrt, transc_exp]
  exact Real.sqrt_pos.mpr (Real.exp_pos _)

/-- **C01.3** the reported normalisation (partition function evaluated on the generated
Hilbert space) is the sum over ALL bit-vectors of the unnormalised probabilities, for the
model's stable log-sum-exp. -/
theorem C01_normalization (am : RBM ℝ n h) :
    Wave.normalization am (fun k : Fin (2 ^ n) => (spaceRow n k.val : Fin n → ℝ))
      = ∑ σ : Fin n → Bool, Wave.probability am (fun j => bit (σ j)) 1 := by
  simp only [Wave.normalization, RBM.partition, transc_exp]
  rw [exp_logSumExp _ _ (Nat.pos_of_ne_zero (by positivity))]
  rw [← sum_rows n (fun σ => Wave.probability am (fun j => bit (σ j)) 1)]
  refine Finset.sum_congr rfl (fun k _ => ?_)
  simp only [Wave.probability, rowBits, transc_exp, div_one]
  rfl

/-- the normalisation is strictly positive -/
theorem C01_normalization_pos (am : RBM ℝ n h) :
    0 < Wave.normalization am (fun k : Fin (2 ^ n) => (spaceRow n k.val : Fin n → ℝ)) := by
  simp only [Wave.normalization, RBM.partition, transc_exp]
  exact Real.exp_pos _

/-- **C01.4** with `Z = normalization`, the probabilities over the whole basis sum to one
(equivalently, by C01.1, the normalised wavefunction has unit norm). -/
theorem C01_unit_norm (am : RBM ℝ n h) :
    ∑ σ : Fin n → Bool, Wave.probability am (fun j => bit (σ j))
        (Wave.normalization am (fun k : Fin (2 ^ n) => (spaceRow n k.val : Fin n → ℝ))) = 1 := by
  have hZ := C01_normalization_pos am
  have h1 : ∀ σ : Fin n → Bool, Wave.probability am (fun j => bit (σ j))
        (Wave.normalization am (fun k : Fin (2 ^ n) => (spaceRow n k.val : Fin n → ℝ)))
      = Wave.probability am (fun j => bit (σ j)) 1
        / (Wave.normalization am (fun k : Fin (2 ^ n) => (spaceRow n k.val : Fin n → ℝ))) := by
    intro σ; simp [Wave.probability]
  simp_rw [h1]
  rw [← Finset.sum_div, ← C01_normalization, div_self hZ.ne']

/-- **C01.4'** unit norm of the normalised complex wavefunction `ψ/√Z`. -/
theorem C01_unit_norm_psi (am ph : RBM ℝ n h) :
    ∑ σ : Fin n → Bool,
      ((Wave.psiCplx am ph (fun j => bit (σ j))).1 ^ 2 + (Wave.psiCplx am ph (fun j => bit (σ j))).2 ^ 2)
        / (Wave.normalization am (fun k : Fin (2 ^ n) => (spaceRow n k.val : Fin n → ℝ))) = 1 := by
  simp_rw [C01_normSq_psi_complex]
  rw [← Finset.sum_div, ← C01_normalization, div_self (C01_normalization_pos am).ne']

/-- non-vacuity: a concrete architecture with `h ≠ n` and non-zero biases of both signs is an
instance of every theorem above (they have no hypotheses); here the marginal identity is
specialised to it. -/
example : let r : RBM ℝ 2 3 := ⟨fun i j => (i.val : ℝ) - j.val + 0.5, fun j => if j = 0 then -1.5 else 2,
      fun i => if i = 0 then 0.7 else -0.3⟩
    Wave.probability r (fun _ => 1) 1 = ∑ hid : Fin 3 → Bool, jointWeight r (fun _ => 1) hid :=
  C01_hidden_marginal _ _


/-! ### Extension round 2: "vector and batched call forms" — the code path of the 1-D forms is inside the model

`BinaryRBM.effective_energy` and `PositiveWaveFunction.phase` are wrapped by `auto_unsqueeze_args` (qucumber/utils/__init__.py:20-43:
`unsqueeze(0)` a 1-D argument, call, `squeeze_(0)`); `amplitude`, `phase`, `psi`, `probability` are elementwise on their results.
`RBM.effectiveEnergy`, `Wave.amplitudeCall`, `phaseCall`, `psiCplxCall`, `psiPosCall`, `probabilityCall`, `phasePosCall` model these
methods on TENSORS (`FT`, QV/Model/CallShape.lean); `CallFormsAgree f core` (QV/Lemmas/CallShape.lean) is the specification:
1-D argument ↦ 0-dim result holding `core v`; argument with leading axes ↦ result of exactly that leading shape, entry by entry
`core` of the row — where `core` is the per-state definition every theorem above is about. -/

/-- **C01.9** (planned as `C01_batch_is_map`) every public evaluation method of both wavefunction states satisfies the call-form
specification with the per-state definition of the theorems above as its `core` — for all architectures, parameters, batch sizes and
ranks (vector `(n,)`, batch `(B, n)` incl. `B = 1`, rank-3 `(B1, B2, n)`, …).  A decorator that forgets `squeeze_(0)` (vector form
of shape `(1,)`), squeezes unconditionally (a `(1, n)` batch losing its axis) or tests the wrong argument would change
`autoUnsqueeze1` and break this. -/
theorem C01_call_forms (am ph : RBM ℝ n h) (Z : ℝ) :
    CallFormsAgree am.effectiveEnergy am.effEnergy
      ∧ CallFormsAgree (Wave.amplitudeCall am) (Wave.amplitude am)
      ∧ CallFormsAgree (Wave.phaseCall ph) (Wave.phase ph)
      ∧ CallFormsAgree (Wave.psiCplxCall am ph) (Wave.psiCplx am ph)
      ∧ CallFormsAgree (Wave.psiPosCall am) (Wave.psiPos am)
      ∧ CallFormsAgree (fun v => Wave.probabilityCall am v Z) (fun v => Wave.probability am v Z) := by
  have hE : ∀ r : RBM ℝ n h, CallFormsAgree r.effectiveEnergy r.effEnergy := fun r => callFormsAgree_map r.effEnergy
  have hA : CallFormsAgree (Wave.amplitudeCall am) (Wave.amplitude am) := (hE am).map _
  have hP : CallFormsAgree (Wave.phaseCall ph) (Wave.phase ph) := (hE ph).map _
  exact ⟨hE am, hA, hP, hA.bzip hP _, hA.map _, (hE am).map _⟩

/-- **C01.9'** the statement in the words of the work plan: the vector form on `v` returns a 0-dim tensor, the batched form on a
`(B, n)` batch a `(B,)` tensor, and the former IS entry `i` of the latter for any batch whose row `i` is `v` — for effective energy,
amplitude, phase, psi (complex pair) and probability. -/
theorem C01_vector_form_is_row (am ph : RBM ℝ n h) (Z : ℝ) (v : Fin n → ℝ) (B : ℕ) (vs : ℕ → Fin n → ℝ)
    (i : ℕ) (hi : i < B) (hv : vs i = v) :
    (∃ o oB, am.effectiveEnergy (.scalar v) = .ok o ∧ am.effectiveEnergy (.ofRows B vs) = .ok oB ∧ o.shape = [] ∧ oB.shape = [B]
        ∧ o.get [] = am.effEnergy v ∧ oB.get [i] = o.get [])
      ∧ (∃ o oB, Wave.amplitudeCall am (.scalar v) = .ok o ∧ Wave.amplitudeCall am (.ofRows B vs) = .ok oB ∧ o.shape = []
        ∧ oB.shape = [B] ∧ o.get [] = Wave.amplitude am v ∧ oB.get [i] = o.get [])
      ∧ (∃ o oB, Wave.phaseCall ph (.scalar v) = .ok o ∧ Wave.phaseCall ph (.ofRows B vs) = .ok oB ∧ o.shape = []
        ∧ oB.shape = [B] ∧ o.get [] = Wave.phase ph v ∧ oB.get [i] = o.get [])
      ∧ (∃ o oB, Wave.psiCplxCall am ph (.scalar v) = .ok o ∧ Wave.psiCplxCall am ph (.ofRows B vs) = .ok oB ∧ o.shape = []
        ∧ oB.shape = [B] ∧ o.get [] = Wave.psiCplx am ph v ∧ oB.get [i] = o.get [])
      ∧ (∃ o oB, Wave.psiPosCall am (.scalar v) = .ok o ∧ Wave.psiPosCall am (.ofRows B vs) = .ok oB ∧ o.shape = []
        ∧ oB.shape = [B] ∧ o.get [] = Wave.psiPos am v ∧ oB.get [i] = o.get [])
      ∧ (∃ o oB, Wave.probabilityCall am (.scalar v) Z = .ok o ∧ Wave.probabilityCall am (.ofRows B vs) Z = .ok oB ∧ o.shape = []
        ∧ oB.shape = [B] ∧ o.get [] = Wave.probability am v Z ∧ oB.get [i] = o.get []) := by
  obtain ⟨h1, h2, h3, h4, h5, h6⟩ := C01_call_forms am ph Z
  have key : ∀ {β : Type} {f : FT (Fin n → ℝ) → Except PyErr (FT β)} {core : (Fin n → ℝ) → β}, CallFormsAgree f core →
      ∃ o oB, f (.scalar v) = .ok o ∧ f (.ofRows B vs) = .ok oB ∧ o.shape = [] ∧ oB.shape = [B] ∧ o.get [] = core v
        ∧ oB.get [i] = o.get [] := fun hf => by
    obtain ⟨o, oB, a1, a2, a3, a4, a5, _, a7⟩ := hf.vector_is_row v B vs
    exact ⟨o, oB, a1, a2, a3, a4, a5, a7 i hi hv⟩
  exact ⟨key h1, key h2, key h3, key h4, key h5, key h6⟩

/-- **C01.10** `PositiveWaveFunction.phase` (zeros of the shape of the batch) and the OVERRIDE `PositiveWaveFunction.psi`
(`make_complex(amplitude)`) against the base-class formula `amplitude · (cos, sin)(phase)` (wavefunction.py:62-81) that the override
replaces: for the vector form and every `(B, n)` batch the decorated `phase` returns zeros of shape `()` / `(B,)`, the base-class `psi`
evaluated with that `phase` accepts the call, has the same shape as the override and the same entries, and both are the per-state
`Wave.psiPos` (real part the amplitude, imaginary part 0: "the positive state is real").  A `phase` that returned a non-zero constant,
or zeros of another shape (`(B, 1)`: the base formula would broadcast to `(B, B)`), would break this.  (Rank-3 arguments:
`phasePosCall_rank3`, scope note C01-1.) -/
theorem C01_psiPos_polar (am : RBM ℝ n h) (v : Fin n → ℝ) (B : ℕ) (vs : ℕ → Fin n → ℝ) :
    Wave.psiPos am v = (Wave.amplitude am v * Real.cos (Wave.phasePos v), Wave.amplitude am v * Real.sin (Wave.phasePos v))
      ∧ Wave.phasePosCall (FT.scalar v) = .ok (FT.scalar 0)
      ∧ (∃ p, Wave.phasePosCall (FT.ofRows B vs) = .ok p ∧ p.shape = [B] ∧ ∀ i, p.get [i] = 0)
      ∧ (∃ o o', Wave.psiPosCall am (.scalar v) = .ok o ∧ Wave.psiBase am Wave.phasePosCall (.scalar v) = .ok o'
          ∧ o.shape = [] ∧ o'.shape = [] ∧ o.get [] = Wave.psiPos am v ∧ o'.get [] = o.get [])
      ∧ (∃ o o', Wave.psiPosCall am (.ofRows B vs) = .ok o ∧ Wave.psiBase am Wave.phasePosCall (.ofRows B vs) = .ok o'
          ∧ o.shape = [B] ∧ o'.shape = [B] ∧ ∀ i, i < B → o.get [i] = Wave.psiPos am (vs i) ∧ o'.get [i] = o.get [i]) := by
  obtain ⟨_, hA, _, _, hPos, _⟩ := C01_call_forms am am 1
  have hpolar : ∀ w : Fin n → ℝ, Wave.psiPos am w
      = (Wave.amplitude am w * Real.cos (Wave.phasePos w), Wave.amplitude am w * Real.sin (Wave.phasePos w)) := by
    intro w; simp [Wave.psiPos, Wave.phasePos]
  refine ⟨hpolar v, Wave.phasePosCall_scalar v, Wave.phasePosCall_batch B vs, ?_, ?_⟩
  · obtain ⟨o, ho, hs, hg⟩ := hPos.1 v
    obtain ⟨u, hu, hus, hug⟩ := hA.1 v
    have hb : ∃ o', Wave.psiBase am Wave.phasePosCall (.scalar v) = .ok o' ∧ o'.shape = [] ∧ o'.get [] = Wave.psiPos am v := by
      rw [Wave.psiBase, hu, Wave.phasePosCall_scalar]
      simp only [FT.bzipE, FT.bzip, hus, FT.scalar, bs_nil_nil]
      exact ⟨_, rfl, rfl, by simp [Cplx.bidx, hug, Wave.psiPos]⟩
    obtain ⟨o', ho', hs', hg'⟩ := hb
    exact ⟨o, o', ho, ho', hs, hs', hg, by rw [hg, hg']⟩
  · obtain ⟨o, ho, hs, hg⟩ := hPos.2 (.ofRows B vs) (by simp [FT.ofRows])
    obtain ⟨u, hu, hus, hug⟩ := hA.2 (.ofRows B vs) (by simp [FT.ofRows])
    obtain ⟨p, hp, hps, hpg⟩ := Wave.phasePosCall_batch (α := ℝ) B vs
    have hin : ∀ i, i < B → InRange [i] (FT.ofRows B vs).shape := fun i hi => by simp [FT.ofRows, InRange, hi]
    have hus' : u.shape = [B] := by simpa [FT.ofRows] using hus
    have hb : ∃ o', Wave.psiBase am Wave.phasePosCall (.ofRows B vs) = .ok o' ∧ o'.shape = [B]
        ∧ ∀ i, i < B → o'.get [i] = Wave.psiPos am (vs i) := by
      rw [Wave.psiBase, hu, hp]
      simp only [FT.bzipE, FT.bzip, hus', hps, bs_same]
      refine ⟨_, rfl, rfl, fun i hi => ?_⟩
      have h2 := hug [i] (hin i hi)
      simp only [FT.ofRows] at h2
      simp [Cplx.bidx, bsel_lt hi, h2, hpg, Wave.psiPos]
    obtain ⟨o', ho', hs', hg'⟩ := hb
    refine ⟨o, o', ho, ho', by simpa [FT.ofRows] using hs, hs', fun i hi => ?_⟩
    have h1 := hg [i] (hin i hi)
    simp only [FT.ofRows] at h1
    exact ⟨by simpa using h1, by rw [hg' i hi]; simpa using h1.symm⟩

/-- non-vacuity of the call-form theorems: a concrete 2×3 network, a 1-D argument and a 3-row batch whose middle row is that
argument — the vector form of `psi` of the complex state is entry 1 of the batched form. -/
example : let r : RBM ℝ 2 3 := ⟨fun i j => (i.val : ℝ) - j.val + 0.5, fun j => if j = 0 then -1.5 else 2,
      fun i => if i = 0 then 0.7 else -0.3⟩
    let v : Fin 2 → ℝ := fun j => if j = 0 then 1 else 0
    ∃ o oB, Wave.psiCplxCall r r (.scalar v) = .ok o ∧
      Wave.psiCplxCall r r (.ofRows 3 (fun i => if i = 1 then v else fun _ => 1)) = .ok oB ∧ o.shape = [] ∧ oB.shape = [3]
        ∧ o.get [] = Wave.psiCplx r r v ∧ oB.get [1] = o.get [] := by
  intro r v
  exact (C01_vector_form_is_row r r 1 v 3 _ 1 (by norm_num) (by simp)).2.2.2.1

end QV.Props
