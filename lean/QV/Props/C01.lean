/-
C01 — Wavefunction states satisfy the Born rule they are defined by.

"For every parameter setting of a positive or complex wavefunction state, the squared
modulus of the wavefunction at each basis state equals the unnormalised probability the
state reports for it, which equals the hidden-unit marginal of the amplitude network's
Boltzmann weight, and the reported normalisation equals the sum of those probabilities
over the whole basis (so the normalised state has unit norm and its probabilities sum to
one). The complex state's modulus depends only on the amplitude network and its phase is
exactly half the negated effective energy of the phase network; the positive state is
real and non-negative everywhere."

All theorems: ∀ n h, ∀ real parameters, ∀ visible vectors (not only 0/1 ones).
Model definitions: QV.Model.{Rbm,States,Hilbert}; executed against the code by the C01
correspondence check.
-/
import Mathlib.Analysis.SpecialFunctions.Trigonometric.Basic
import Mathlib.Analysis.SpecialFunctions.Sqrt
import Mathlib.Analysis.SpecialFunctions.Complex.Circle
import Mathlib.Algebra.BigOperators.Field
import QV.Model.States
import QV.Lemmas.Basic
import QV.Lemmas.Hilbert

namespace QV.Props
open QV Finset

variable {n h : ℕ}

/-- `-E_λ(v)` in closed form over ℝ. -/
theorem neg_effEnergy_eq (r : RBM ℝ n h) (v : Fin n → ℝ) :
    -(r.effEnergy v) = ∑ j, v j * r.b j + ∑ i, Real.log (1 + Real.exp (r.preact v i)) := by
  simp [RBM.effEnergy]

/-- The joint Boltzmann weight `exp(-E(v, hid))` of the amplitude RBM:
`exp(Σ_j v_j b_j + Σ_i hid_i (c_i + Σ_j W_ij v_j))`. (Specification, not part of the code.) -/
noncomputable def jointWeight (r : RBM ℝ n h) (v : Fin n → ℝ) (hid : Fin h → Bool) : ℝ :=
  Real.exp (∑ j, v j * r.b j + ∑ i, (if hid i then (∑ j, v j * r.W i j) + r.c i else 0))

/-- **C01.2** the unnormalised probability `exp(-E_λ(v))` is the hidden-unit marginal of the
joint Boltzmann weight. -/
theorem C01_hidden_marginal (r : RBM ℝ n h) (v : Fin n → ℝ) :
    Wave.probability r v 1 = ∑ hid : Fin h → Bool, jointWeight r v hid := by
  simp only [Wave.probability, transc_exp, div_one, neg_effEnergy_eq]
  rw [Real.exp_add]
  have hterm : ∀ i, Real.exp (Real.log (1 + Real.exp (r.preact v i)))
      = ∑ t : Bool, Real.exp (if t then r.preact v i else 0) := by
    intro i
    rw [Real.exp_log (by positivity), Fintype.sum_bool]
    simp only [if_true, Bool.false_eq_true, if_false, Real.exp_zero]
    ring
  have h2 : Real.exp (∑ i, Real.log (1 + Real.exp (r.preact v i)))
      = ∑ hid : Fin h → Bool, ∏ i, Real.exp (if hid i then r.preact v i else 0) := by
    rw [Real.exp_sum]
    simp_rw [hterm]
    rw [Finset.prod_univ_sum, Fintype.piFinset_univ]
  rw [h2, Finset.mul_sum]
  refine Finset.sum_congr rfl (fun hid _ => ?_)
  unfold jointWeight
  rw [Real.exp_add]
  congr 1
  rw [Real.exp_sum]
  refine Finset.prod_congr rfl (fun i _ => ?_)
  simp [RBM.preact]

/-- **C01.1 (positive)** `|ψ(v)|² = probability(v, Z=1)`. -/
theorem C01_normSq_psi_positive (am : RBM ℝ n h) (v : Fin n → ℝ) :
    (Wave.psiPos am v).1 ^ 2 + (Wave.psiPos am v).2 ^ 2 = Wave.probability am v 1 := by
  simp [Wave.psiPos, Wave.amplitude, Wave.probability, Real.sq_sqrt (Real.exp_pos _).le]

/-- **C01.1 (complex)** `|ψ(v)|² = probability(v, Z=1)`, whatever the phase network is. -/
theorem C01_normSq_psi_complex (am ph : RBM ℝ n h) (v : Fin n → ℝ) :
    (Wave.psiCplx am ph v).1 ^ 2 + (Wave.psiCplx am ph v).2 ^ 2 = Wave.probability am v 1 := by
  simp only [Wave.psiCplx, Wave.probability, transc_cos, transc_sin, transc_exp, div_one]
  have hs := Real.sin_sq_add_cos_sq (Wave.phase ph v)
  have ha : Wave.amplitude am v ^ 2 = Real.exp (-(am.effEnergy v)) := by
    simp [Wave.amplitude, Real.sq_sqrt (Real.exp_pos _).le]
  rw [← ha]
  nlinarith [hs]

/-- **C01.5a** the modulus of the complex state does not depend on the phase network. -/
theorem C01_modulus_indep_phase_net (am ph ph' : RBM ℝ n h) (v : Fin n → ℝ) :
    (Wave.psiCplx am ph v).1 ^ 2 + (Wave.psiCplx am ph v).2 ^ 2
      = (Wave.psiCplx am ph' v).1 ^ 2 + (Wave.psiCplx am ph' v).2 ^ 2 := by
  rw [C01_normSq_psi_complex, C01_normSq_psi_complex]

/-- **C01.5b** the phase is exactly half the negated effective energy of the phase network. -/
theorem C01_phase (ph : RBM ℝ n h) (v : Fin n → ℝ) :
    Wave.phase ph v = -(ph.effEnergy v) / 2 := by
  simp [Wave.phase]; ring

/-- **C01.5c** `ψ = amplitude · e^{i·phase}` as a complex number, `amplitude = exp(-E_λ/2) > 0`. -/
theorem C01_psi_polar (am ph : RBM ℝ n h) (v : Fin n → ℝ) :
    (⟨(Wave.psiCplx am ph v).1, (Wave.psiCplx am ph v).2⟩ : ℂ)
      = ((Wave.amplitude am v : ℝ) : ℂ) * Complex.exp (((Wave.phase ph v : ℝ) : ℂ) * Complex.I) := by
  apply Complex.ext <;>
    simp [Wave.psiCplx, Complex.exp_re, Complex.exp_im, Complex.mul_re, Complex.mul_im]

theorem C01_amplitude_eq (am : RBM ℝ n h) (v : Fin n → ℝ) :
    Wave.amplitude am v = Real.exp (-(am.effEnergy v) / 2) := by
  simp only [Wave.amplitude, transc_sqrt, transc_exp]
  rw [Real.sqrt_eq_iff_mul_self_eq (Real.exp_pos _).le (Real.exp_pos _).le, ← Real.exp_add]
  congr 1; ring

/-- **C01.6** the positive state is real and strictly positive everywhere. -/
theorem C01_positive_real_pos (am : RBM ℝ n h) (v : Fin n → ℝ) :
    (Wave.psiPos am v).2 = 0 ∧ 0 < (Wave.psiPos am v).1 := by
  refine ⟨rfl, ?_⟩
  simp only [Wave.psiPos, Wave.amplitude, transc_sqrt, transc_exp]
  exact Real.sqrt_pos.mpr (Real.exp_pos _)

/-- **C01.3** the reported normalisation (partition function evaluated on the generated
Hilbert space) is the sum over ALL bit-vectors of the unnormalised probabilities, for the
model's stable log-sum-exp. -/
theorem C01_normalization (am : RBM ℝ n h) :
    Wave.normalization am (fun k : Fin (2 ^ n) => (spaceRow n k.val : Fin n → ℝ))
      = ∑ σ : Fin n → Bool, Wave.probability am (fun j => bit (σ j)) 1 := by
  simp only [Wave.normalization, RBM.partition, transc_exp]
  rw [exp_logSumExp _ _ (Nat.pos_of_ne_zero (by positivity))]
  rw [← sum_rows n (fun σ => Wave.probability am (fun j => bit (σ j)) 1)]
  refine Finset.sum_congr rfl (fun k _ => ?_)
  simp only [Wave.probability, rowBits, transc_exp, div_one]
  rfl

/-- the normalisation is strictly positive -/
theorem C01_normalization_pos (am : RBM ℝ n h) :
    0 < Wave.normalization am (fun k : Fin (2 ^ n) => (spaceRow n k.val : Fin n → ℝ)) := by
  simp only [Wave.normalization, RBM.partition, transc_exp]
  exact Real.exp_pos _

/-- **C01.4** with `Z = normalization`, the probabilities over the whole basis sum to one
(equivalently, by C01.1, the normalised wavefunction has unit norm). -/
theorem C01_unit_norm (am : RBM ℝ n h) :
    ∑ σ : Fin n → Bool, Wave.probability am (fun j => bit (σ j))
        (Wave.normalization am (fun k : Fin (2 ^ n) => (spaceRow n k.val : Fin n → ℝ))) = 1 := by
  have hZ := C01_normalization_pos am
  have h1 : ∀ σ : Fin n → Bool, Wave.probability am (fun j => bit (σ j))
        (Wave.normalization am (fun k : Fin (2 ^ n) => (spaceRow n k.val : Fin n → ℝ)))
      = Wave.probability am (fun j => bit (σ j)) 1
        / (Wave.normalization am (fun k : Fin (2 ^ n) => (spaceRow n k.val : Fin n → ℝ))) := by
    intro σ; simp [Wave.probability]
  simp_rw [h1]
  rw [← Finset.sum_div, ← C01_normalization, div_self hZ.ne']

/-- **C01.4'** unit norm of the normalised complex wavefunction `ψ/√Z`. -/
theorem C01_unit_norm_psi (am ph : RBM ℝ n h) :
    ∑ σ : Fin n → Bool,
      ((Wave.psiCplx am ph (fun j => bit (σ j))).1 ^ 2 + (Wave.psiCplx am ph (fun j => bit (σ j))).2 ^ 2)
        / (Wave.normalization am (fun k : Fin (2 ^ n) => (spaceRow n k.val : Fin n → ℝ))) = 1 := by
  simp_rw [C01_normSq_psi_complex]
  rw [← Finset.sum_div, ← C01_normalization, div_self (C01_normalization_pos am).ne']

/-- non-vacuity: a concrete architecture with `h ≠ n` and non-zero biases of both signs is an
instance of every theorem above (they have no hypotheses); here the marginal identity is
specialised to it. -/
example : let r : RBM ℝ 2 3 := ⟨fun i j => (i.val : ℝ) - j.val + 0.5, fun j => if j = 0 then -1.5 else 2,
      fun i => if i = 0 then 0.7 else -0.3⟩
    Wave.probability r (fun _ => 1) 1 = ∑ hid : Fin 3 → Bool, jointWeight r (fun _ => 1) hid :=
  C01_hidden_marginal _ _

end QV.Props
