/-
C16 — Composite observables evaluate to the same arithmetic on their parts.

"Any observable built from observables and real scalars with unary minus, addition, subtraction and scalar
multiplication (on either side) evaluates on any batch to exactly that arithmetic expression applied to the
per-sample values of its leaves, and its statistics are those of that combined per-sample value. Combinations
that are not linear (observable times observable, non-numeric operands) are rejected when built."

All theorems: ∀ expression trees (any depth, by structural induction), ∀ leaf values in any commutative ring
(ℝ, ℤ, …), ∀ batches. Model definitions: QV.Model.Composite (`build`, `Obs.apply`, `eval`,
`Obs.statisticsFromSamples`, `Obs.statistics`, `mkSum`, `mkProd`), executed over `Int` and `Float` against the
real operator overloads and constructors by the C16 correspondence check.
-/
import Mathlib.Algebra.Ring.Defs
import Mathlib.Algebra.Ring.Int.Defs
import Mathlib.Tactic.Ring
import QV.Model.Composite
import QV.Lemmas.Composite
import QV.Props.C13

namespace QV.Props
namespace C16
open QV.Props.C13
open QV QV.Composite

section value
variable {R : Type} [CommRing R]

/-- the value of whatever `build` returns (a plain scalar for an observable-free expression, else the built
observable's `apply`) is the expression evaluated on the leaf values — one sample. -/
theorem C16_value_eq_eval (vals : Nat → R) (e : Expr R) {v : Arg R} (h : build e = .ok v) :
    v.value vals = eval vals e := by
  induction e generalizing v with
  | leaf i => simp only [build] at h; cases h; rfl
  | const k c => simp only [build] at h; cases h; rfl
  | neg e ih =>
    simp only [build] at h
    split at h
    · contradiction
    · rename_i w hw
      rw [pyNeg_value vals h, ih hw]; rfl
  | add a b iha ihb =>
    simp only [build] at h
    split at h
    · contradiction
    · rename_i va hva
      split at h
      · contradiction
      · rename_i vb hvb
        rw [pyAdd_value vals h, iha hva, ihb hvb]; rfl
  | sub a b iha ihb =>
    simp only [build] at h
    split at h
    · contradiction
    · rename_i va hva
      split at h
      · contradiction
      · rename_i vb hvb
        rw [pySub_value vals h, iha hva, ihb hvb]; rfl
  | mul a b iha ihb =>
    simp only [build] at h
    split at h
    · contradiction
    · rename_i va hva
      split at h
      · contradiction
      · rename_i vb hvb
        rw [pyMul_value vals h, iha hva, ihb hvb]; rfl

/-- **C16.1** if the expression builds to an observable `o`, then on every batch `o.apply` is, sample by sample,
the arithmetic expression applied to the per-sample values of the leaves. -/
theorem C16_apply_eq_eval (e : Expr R) {o : Obs R} (h : build e = .ok (.obs o)) (batch : List (Nat → R)) :
    o.applyBatch batch = evalBatch e batch := by
  unfold Obs.applyBatch evalBatch
  refine List.map_congr_left (fun vals _ => ?_)
  exact C16_value_eq_eval vals e h

/-- an observable-free expression is evaluated by Python itself to the same number -/
theorem C16_scalar_eq_eval (e : Expr R) {k : Kind} {c : R} (h : build e = .ok (.scal k c)) (vals : Nat → R) :
    c = eval vals e :=
  C16_value_eq_eval vals e h

end value

/-! ### Which expressions build, and which exception the others raise -/

section shape
variable {α : Type}

/-- the expression denotes an observable (it mentions at least one leaf observable) -/
def hasLeaf : Expr α → Bool
  | .leaf _ => true
  | .const _ _ => false
  | .neg e => hasLeaf e
  | .add a b => hasLeaf a || hasLeaf b
  | .sub a b => hasLeaf a || hasLeaf b
  | .mul a b => hasLeaf a || hasLeaf b

/-- the operand is a non-numeric literal (`None`, a string, …) -/
def isBad : Expr α → Bool
  | .const .bad _ => true
  | _ => false

/-- Linear expressions: no operator has a non-numeric operand, and no product has two observable factors. -/
inductive Linear : Expr α → Prop
  | leaf (i : Nat) : Linear (.leaf i)
  | const (k : Kind) (c : α) : Linear (.const k c)
  | neg {e} : Linear e → isBad e = false → Linear (.neg e)
  | add {a b} : Linear a → Linear b → isBad a = false → isBad b = false → Linear (.add a b)
  | sub {a b} : Linear a → Linear b → isBad a = false → isBad b = false → Linear (.sub a b)
  | mul {a b} : Linear a → Linear b → isBad a = false → isBad b = false →
      (hasLeaf a && hasLeaf b) = false → Linear (.mul a b)

/-- what goes wrong AT a binary operator whose operands evaluated fine: a non-numeric operand is a `TypeError`
(checked first, by Python or by the constructors' `isinstance` tests), a product of two observables a `ValueError`. -/
def opError (isMul : Bool) (a b : Expr α) : Option PyErr :=
  if isBad a || isBad b then some .TypeError
  else if isMul && hasLeaf a && hasLeaf b then some .ValueError
  else none

/-- the first thing that goes wrong in Python's evaluation order (left operand, right operand, operator) -/
def firstError : Expr α → Option PyErr
  | .leaf _ => none
  | .const _ _ => none
  | .neg e =>
    match firstError e with
    | some k => some k
    | none => if isBad e then some .TypeError else none
  | .add a b =>
    match firstError a with
    | some k => some k
    | none => match firstError b with
      | some k => some k
      | none => opError false a b
  | .sub a b =>
    match firstError a with
    | some k => some k
    | none => match firstError b with
      | some k => some k
      | none => opError false a b
  | .mul a b =>
    match firstError a with
    | some k => some k
    | none => match firstError b with
      | some k => some k
      | none => opError true a b

theorem linear_iff_firstError_none (e : Expr α) : Linear e ↔ firstError e = none := by
  induction e with
  | leaf i => exact ⟨fun _ => rfl, fun _ => .leaf i⟩
  | const k c => exact ⟨fun _ => rfl, fun _ => .const k c⟩
  | neg e ih =>
    constructor
    · intro h; cases h with
      | neg he hb => simp [firstError, ih.mp he, hb]
    · intro h
      simp only [firstError] at h
      split at h
      · contradiction
      · rename_i hn
        exact .neg (ih.mpr hn) (by simpa using h)
  | add a b iha ihb =>
    constructor
    · intro h; cases h with
      | add ha hb ba bb => simp [firstError, iha.mp ha, ihb.mp hb, opError, ba, bb]
    · intro h
      simp only [firstError] at h
      split at h
      · contradiction
      · rename_i hna
        split at h
        · contradiction
        · rename_i hnb
          simp only [opError, Bool.false_and, Bool.false_eq_true, ite_false] at h
          split at h
          · contradiction
          · rename_i hbad
            simp only [Bool.or_eq_true, not_or, Bool.not_eq_true] at hbad
            exact .add (iha.mpr hna) (ihb.mpr hnb) hbad.1 hbad.2
  | sub a b iha ihb =>
    constructor
    · intro h; cases h with
      | sub ha hb ba bb => simp [firstError, iha.mp ha, ihb.mp hb, opError, ba, bb]
    · intro h
      simp only [firstError] at h
      split at h
      · contradiction
      · rename_i hna
        split at h
        · contradiction
        · rename_i hnb
          simp only [opError, Bool.false_and, Bool.false_eq_true, ite_false] at h
          split at h
          · contradiction
          · rename_i hbad
            simp only [Bool.or_eq_true, not_or, Bool.not_eq_true] at hbad
            exact .sub (iha.mpr hna) (ihb.mpr hnb) hbad.1 hbad.2
  | mul a b iha ihb =>
    constructor
    · intro h; cases h with
      | mul ha hb ba bb hl =>
        simp only [firstError, iha.mp ha, ihb.mp hb, opError, ba, bb, Bool.true_and]
        simp [hl]
    · intro h
      simp only [firstError] at h
      split at h
      · contradiction
      · rename_i hna
        split at h
        · contradiction
        · rename_i hnb
          simp only [opError, Bool.true_and] at h
          split at h
          · contradiction
          · rename_i hbad
            simp only [Bool.or_eq_true, not_or, Bool.not_eq_true] at hbad
            split at h
            · contradiction
            · rename_i hl
              exact .mul (iha.mpr hna) (ihb.mpr hnb) hbad.1 hbad.2 (by simpa using hl)

end shape

section classify
variable {α : Type} [Add α] [Mul α] [Neg α] [Sub α] [Zero α] [One α]

/-- complete description of `build`: it raises exactly `firstError e`, and otherwise returns an observable iff the
expression mentions a leaf, and a non-numeric scalar only for a bare non-numeric literal. -/
theorem build_char (e : Expr α) :
    (∀ k, firstError e = some k → build e = .error k) ∧
    (firstError e = none → ∃ v, build e = .ok v ∧ v.isObs = hasLeaf e ∧ argOk v = !isBad e) := by
  induction e with
  | leaf i => exact ⟨by simp [firstError], fun _ => ⟨_, rfl, rfl, rfl⟩⟩
  | const k c =>
    refine ⟨by simp [firstError], fun _ => ⟨_, rfl, rfl, ?_⟩⟩
    cases k <;> rfl
  | neg e ih =>
    obtain ⟨ihE, ihO⟩ := ih
    cases hfe : firstError e with
    | some k =>
      refine ⟨fun k' hk' => ?_, fun hn => ?_⟩
      · simp only [firstError, hfe, Option.some.injEq] at hk'
        subst hk'
        simp [build, ihE k hfe]
      · simp [firstError, hfe] at hn
    | none =>
      obtain ⟨v, hv, hobs, hok⟩ := ihO hfe
      have key := pyNeg_char v
      have hb' : isBad (Expr.neg e) = false := rfl
      simp only [firstError, hfe, build, hv, hasLeaf, hb']
      rw [hok, hobs] at key
      cases hb : isBad e <;> simp_all
  | add a b iha ihb =>
    obtain ⟨ihaE, ihaO⟩ := iha
    obtain ⟨ihbE, ihbO⟩ := ihb
    cases hfa : firstError a with
    | some k =>
      refine ⟨fun k' hk' => ?_, fun hn => ?_⟩
      · simp only [firstError, hfa, Option.some.injEq] at hk'
        subst hk'
        simp [build, ihaE k hfa]
      · simp [firstError, hfa] at hn
    | none =>
      obtain ⟨va, hva, hobsa, hoka⟩ := ihaO hfa
      cases hfb : firstError b with
      | some k =>
        refine ⟨fun k' hk' => ?_, fun hn => ?_⟩
        · simp only [firstError, hfa, hfb, Option.some.injEq] at hk'
          subst hk'
          simp [build, hva, ihbE k hfb]
        · simp [firstError, hfa, hfb] at hn
      | none =>
        obtain ⟨vb, hvb, hobsb, hokb⟩ := ihbO hfb
        have key := pyAdd_char va vb
        have hb' : isBad (Expr.add a b) = false := rfl
        simp only [firstError, hfa, hfb, build, hva, hvb, hasLeaf, hb', opError]
        rw [hoka, hokb, hobsa, hobsb] at key
        cases hba : isBad a <;> cases hbb : isBad b <;> simp_all
  | sub a b iha ihb =>
    obtain ⟨ihaE, ihaO⟩ := iha
    obtain ⟨ihbE, ihbO⟩ := ihb
    cases hfa : firstError a with
    | some k =>
      refine ⟨fun k' hk' => ?_, fun hn => ?_⟩
      · simp only [firstError, hfa, Option.some.injEq] at hk'
        subst hk'
        simp [build, ihaE k hfa]
      · simp [firstError, hfa] at hn
    | none =>
      obtain ⟨va, hva, hobsa, hoka⟩ := ihaO hfa
      cases hfb : firstError b with
      | some k =>
        refine ⟨fun k' hk' => ?_, fun hn => ?_⟩
        · simp only [firstError, hfa, hfb, Option.some.injEq] at hk'
          subst hk'
          simp [build, hva, ihbE k hfb]
        · simp [firstError, hfa, hfb] at hn
      | none =>
        obtain ⟨vb, hvb, hobsb, hokb⟩ := ihbO hfb
        have key := pySub_char va vb
        have hb' : isBad (Expr.sub a b) = false := rfl
        simp only [firstError, hfa, hfb, build, hva, hvb, hasLeaf, hb', opError]
        rw [hoka, hokb, hobsa, hobsb] at key
        cases hba : isBad a <;> cases hbb : isBad b <;> simp_all
  | mul a b iha ihb =>
    obtain ⟨ihaE, ihaO⟩ := iha
    obtain ⟨ihbE, ihbO⟩ := ihb
    cases hfa : firstError a with
    | some k =>
      refine ⟨fun k' hk' => ?_, fun hn => ?_⟩
      · simp only [firstError, hfa, Option.some.injEq] at hk'
        subst hk'
        simp [build, ihaE k hfa]
      · simp [firstError, hfa] at hn
    | none =>
      obtain ⟨va, hva, hobsa, hoka⟩ := ihaO hfa
      cases hfb : firstError b with
      | some k =>
        refine ⟨fun k' hk' => ?_, fun hn => ?_⟩
        · simp only [firstError, hfa, hfb, Option.some.injEq] at hk'
          subst hk'
          simp [build, hva, ihbE k hfb]
        · simp [firstError, hfa, hfb] at hn
      | none =>
        obtain ⟨vb, hvb, hobsb, hokb⟩ := ihbO hfb
        have key := pyMul_char va vb
        have hb' : isBad (Expr.mul a b) = false := rfl
        simp only [firstError, hfa, hfb, build, hva, hvb, hasLeaf, hb', opError]
        rw [hoka, hokb, hobsa, hobsb] at key
        cases hba : isBad a <;> cases hbb : isBad b <;> cases hla : hasLeaf a <;> cases hlb : hasLeaf b <;>
          simp_all

/-- **C16.2a** an expression builds (to an observable, or to a plain number when it mentions no observable) iff it
is linear: every operand is an observable or a numeric scalar and no product has two observable factors. -/
theorem C16_linear_iff_ok (e : Expr α) : (∃ v, build e = .ok v) ↔ Linear e := by
  rw [linear_iff_firstError_none]
  obtain ⟨hE, hO⟩ := build_char e
  constructor
  · rintro ⟨v, hv⟩
    cases hfe : firstError e with
    | none => rfl
    | some k => rw [hE k hfe] at hv; cases hv
  · intro h
    obtain ⟨v, hv, _⟩ := hO h
    exact ⟨v, hv⟩

/-- **C16.2b** otherwise it raises exactly the first error in evaluation order: `TypeError` for a non-numeric
operand, `ValueError` for an observable-times-observable product. -/
theorem C16_error_kind (e : Expr α) (k : PyErr) : build e = .error k ↔ firstError e = some k := by
  obtain ⟨hE, hO⟩ := build_char e
  constructor
  · intro h
    cases hfe : firstError e with
    | none => obtain ⟨v, hv, _⟩ := hO hfe; rw [hv] at h; cases h
    | some k' => rw [hE k' hfe] at h; cases h; rfl
  · exact hE k

/-- **C16.2c** what is built is an observable object exactly when the expression mentions an observable. -/
theorem C16_result_is_observable (e : Expr α) {v : Arg α} (h : build e = .ok v) : v.isObs = hasLeaf e := by
  obtain ⟨hE, hO⟩ := build_char e
  cases hfe : firstError e with
  | none => obtain ⟨v', hv', ho, _⟩ := hO hfe; rw [hv'] at h; cases h; exact ho
  | some k => rw [hE k hfe] at h; cases h

/-- only `TypeError` and `ValueError` are ever raised while building -/
theorem C16_only_type_or_value_error (e : Expr α) (k : PyErr) (h : build e = .error k) :
    k = .TypeError ∨ k = .ValueError := by
  rw [C16_error_kind] at h
  induction e with
  | leaf i => simp [firstError] at h
  | const kk c => simp [firstError] at h
  | neg e ih =>
    simp only [firstError] at h
    split at h
    · rename_i k' hk'; cases h; exact ih hk'
    · split at h <;> simp_all
  | add a b iha ihb | sub a b iha ihb | mul a b iha ihb =>
    simp only [firstError] at h
    split at h
    · rename_i k' hk'; cases h; exact iha hk'
    · split at h
      · rename_i k' hk'; cases h; exact ihb hk'
      · simp only [opError] at h
        split at h
        · cases h; exact Or.inl rfl
        · split at h
          · cases h; exact Or.inr rfl
          · contradiction

end classify

/-! ### Statistics of a composite -/

section stats
variable {F : Type} [Field F] [Transc F]

/-- **C16.3** the statistics of a built composite are the (shared, C13) `statistics_from_samples` of the
expression's per-sample values. -/
theorem C16_statistics (e : Expr F) {o : Obs F} (h : build e = .ok (.obs o)) (batch : List (Nat → F)) :
    o.statisticsFromSamples batch = Stats.fromSamples (evalBatch e batch) := by
  unfold Obs.statisticsFromSamples
  rw [C16_apply_eq_eval e h batch]

/-- **C16.3'** over ℝ: mean, unbiased variance, standard error and count of the combined per-sample values. -/
theorem C16_statistics_real (e : Expr ℝ) {o : Obs ℝ} (h : build e = .ok (.obs o)) (batch : List (Nat → ℝ))
    (hb : batch ≠ []) :
    o.statisticsFromSamples batch = .ok (onePass (evalBatch e batch)) := by
  rw [C16_statistics e h batch]
  exact C13_fromSamples _ (by simpa [evalBatch] using hb)

end stats

/-! ### `statistics()` of a composite: chunked draws merged by the streaming routine (C13) -/

section sampled
variable {σ : Type}

/-- **C16.3''** `statistics()` of a built composite (any split of the requested samples into chains and successive
draws): with at least one requested sample and one chain, the call succeeds and returns the one-pass mean / unbiased
variance / standard error / count of the EXPRESSION evaluated on the leaves' per-sample values of every drawn chain
state, the count being `T·c ≥ num_samples`; the sampler calls are those of the C13 schedule. (`leaves st` = per-chain
leaf values on the chain states `st`, one entry per chain.) Composition of `C16_apply_eq_eval` with C13's
`C13_statistics_one_pass`. -/
theorem C16_statistics_sampled (env : Stats.Env σ) (e : Expr ℝ) {o : Obs ℝ} (h : build e = .ok (.obs o))
    (leaves : σ → List (Nat → ℝ)) (a : Stats.Args σ) (hns : 1 ≤ a.numSamples)
    (hc : 1 ≤ (Stats.chainSetup env a).2) (hrows : ∀ st, (leaves st).length = (Stats.chainSetup env a).2) :
    ∃ T, Stats.numTimeSteps a.numSamples (Stats.chainSetup env a).2 = .ok T ∧ 1 ≤ T ∧
      let ds := Stats.draws env (Stats.chainSetup env a).2 a.burnIn a.steps T 0 (Stats.chainSetup env a).1
      o.statistics env leaves a
        = .ok (onePass (ds.map (fun d => evalBatch e (leaves d.2))).flatten, ds.map (·.1)) ∧
      ((ds.map (fun d => evalBatch e (leaves d.2))).flatten).length = T * (Stats.chainSetup env a).2 ∧
      a.numSamples ≤ T * (Stats.chainSetup env a).2 := by
  have hfun : (fun st => o.applyBatch (leaves st)) = (fun st => evalBatch e (leaves st)) :=
    funext (fun st => C16_apply_eq_eval e h (leaves st))
  obtain ⟨T, hT, hT1, hrest⟩ := C13_statistics_one_pass env (fun st => evalBatch e (leaves st)) a hns hc
    (fun st => by simp [evalBatch, hrows st])
  refine ⟨T, hT, hT1, ?_⟩
  unfold Obs.statistics
  rw [hfun]
  exact hrest

end sampled

/-! ### The constructors called directly -/

section ctor
variable {α : Type}

/-- `SumObservable(o1, o2)` called directly: `TypeError` iff an operand is neither numeric nor an observable
(nothing else is checked — two plain numbers are accepted), else the object storing both operands in order. -/
theorem C16_constructor_sum (a b : Arg α) :
    mkSum a b = if argOk a && argOk b then .ok (.sum a b) else .error .TypeError := by
  unfold mkSum
  cases ha : argOk a <;> cases hb : argOk b <;> simp

/-- `ProdObservable(o1, o2)` called directly: `TypeError` iff an operand is neither numeric nor an observable;
otherwise `ValueError` unless EXACTLY one operand is an observable; then the scalar is stored on the left and the
observable on the right, whichever order they were given in. -/
theorem C16_constructor_prod (a b : Arg α) :
    ((argOk a && argOk b) = false → mkProd a b = .error .TypeError) ∧
    ((argOk a && argOk b) = true → a.isObs = b.isObs → mkProd a b = .error .ValueError) ∧
    (∀ k c o, a = .scal k c → b = .obs o → k.numeric = true → mkProd a b = .ok (.prod k c o)) ∧
    (∀ k c o, a = .obs o → b = .scal k c → k.numeric = true → mkProd a b = .ok (.prod k c o)) := by
  refine ⟨?_, ?_, ?_, ?_⟩
  · intro h
    unfold mkProd
    cases ha : argOk a <;> cases hb : argOk b <;> simp_all
  · intro h hobs
    cases a <;> cases b <;> simp_all [mkProd, argOk, Arg.isObs]
  · rintro k c o rfl rfl hk
    simp [mkProd, argOk, hk]
  · rintro k c o rfl rfl hk
    simp [mkProd, argOk, hk]

end ctor

section ctor_value
variable {R : Type} [CommRing R]

/-- what the directly constructed objects evaluate to, at every sample: the sum / the product of the operands' values -/
theorem C16_constructor_value (vals : Nat → R) (a b : Arg R) {o : Obs R} :
    (mkSum a b = .ok o → o.apply vals = a.value vals + b.value vals) ∧
    (mkProd a b = .ok o → o.apply vals = a.value vals * b.value vals) :=
  ⟨mkSum_value vals, mkProd_value vals⟩

end ctor_value

/-! ### Names and symbols (the keys under which `System` / `ObservableEvaluator` report a composite: C13, C17) -/

section names
set_option linter.unusedSectionVars false
variable {α : Type} [Add α] [Mul α] [Neg α] [Sub α] [Zero α] [One α]

/-- the builder that also carries the `name` / `symbol` strings (`buildN`: the constructors' `name=` / `symbol=`
arguments, `__neg__`'s explicit strings, the reflected operators) is `build` plus strings — the same object or the
same exception — and the strings are the specified function `exprText` of the expression tree. -/
theorem buildN_spec (R : Render α) (ids : Nat → Ident) (e : Expr α) :
    match buildN R ids e with
    | .ok v => build e = .ok v.arg ∧ v.isScal = e.isScalar ∧ (∀ nm, v.text R nm = exprText R ids nm e)
    | .error err => build e = .error err := by
  induction e with
  | leaf i =>
    simp only [buildN, build, NArg.arg, NArg.isScal, Expr.isScalar, NArg.text, exprText, true_and]
    intro nm; cases nm <;> first | rfl | trivial | simp
  | const k c => simp [buildN, build, NArg.arg, NArg.isScal, Expr.isScalar, NArg.text, exprText]
  | neg a ih =>
    simp only [buildN, build]
    cases ha : buildN R ids a with
    | error err => rw [ha] at ih; simp only at ih ⊢; rw [ih]
    | ok va =>
      rw [ha] at ih
      obtain ⟨hb, hs, ht⟩ := ih
      simp only [hb]
      have key := pyNegN_spec R va
      cases hn : pyNegN R va with
      | error err => rw [hn] at key; exact key
      | ok w =>
        rw [hn] at key
        obtain ⟨k1, k2, k3, _⟩ := key
        refine ⟨k1, by simp [Expr.isScalar, k2, hs], ?_⟩
        intro nm
        rw [k3 nm]
        cases va with
        | scal k c =>
          have hsc : a.isScalar = true := by simpa [NArg.isScal] using hs.symm
          simp only [NArg.arg] at hb k1
          simp only [exprText, hsc, if_true, scalText, build, hb, k1]
          cases w with
          | scal k' c' =>
            have h3 := k3 nm
            simp only [NArg.text] at h3
            rw [← h3]
          | obs n => simp [NArg.isScal] at k2
        | obs n =>
          have hsc : a.isScalar = false := by simpa [NArg.isScal] using hs.symm
          simp only [exprText, hsc, negText, ← ht nm, NArg.text]
          simp
  | add a b iha ihb =>
    simp only [buildN, build]
    cases ha : buildN R ids a with
    | error err => rw [ha] at iha; simp only at iha ⊢; rw [iha]
    | ok va =>
      rw [ha] at iha
      obtain ⟨hba, hsa, hta⟩ := iha
      simp only [hba]
      cases hb : buildN R ids b with
      | error err => rw [hb] at ihb; simp only at ihb ⊢; rw [ihb]
      | ok vb =>
        rw [hb] at ihb
        obtain ⟨hbb, hsb, htb⟩ := ihb
        simp only [hbb]
        have key := pyAddN_spec R va vb
        cases hn : pyAddN R va vb with
        | error err => rw [hn] at key; exact key
        | ok v =>
          rw [hn] at key
          obtain ⟨k1, k2, k3⟩ := key
          refine ⟨k1, by simp [Expr.isScalar, k2, hsa, hsb], ?_⟩
          intro nm
          cases hv : v.isScal with
          | true =>
            have hsc : (a.isScalar && b.isScalar) = true := by rw [← hsa, ← hsb, ← k2]; exact hv
            cases v with
            | scal k c =>
              have k1' : pyAdd va.arg vb.arg = .ok (.scal k c) := k1
              simp [exprText, hsc, scalText, build, hba, hbb, k1', NArg.text]
            | obs n => simp [NArg.isScal] at hv
          | false =>
            have hsc : (a.isScalar && b.isScalar) = false := by rw [← hsa, ← hsb, ← k2]; exact hv
            rw [k3 nm hv, hta nm, htb nm]
            simp [exprText, hsc]
  | sub a b iha ihb =>
    simp only [buildN, build]
    cases ha : buildN R ids a with
    | error err => rw [ha] at iha; simp only at iha ⊢; rw [iha]
    | ok va =>
      rw [ha] at iha
      obtain ⟨hba, hsa, hta⟩ := iha
      simp only [hba]
      cases hb : buildN R ids b with
      | error err => rw [hb] at ihb; simp only at ihb ⊢; rw [ihb]
      | ok vb =>
        rw [hb] at ihb
        obtain ⟨hbb, hsb, htb⟩ := ihb
        simp only [hbb]
        have key := pySubN_spec R va vb
        cases hn : pySubN R va vb with
        | error err => rw [hn] at key; exact key
        | ok v =>
          rw [hn] at key
          obtain ⟨k1, k2, k3, k4⟩ := key
          refine ⟨k1, by simp [Expr.isScalar, k2, hsa, hsb], ?_⟩
          intro nm
          cases hv : v.isScal with
          | true =>
            have hsc : (a.isScalar && b.isScalar) = true := by rw [← hsa, ← hsb, ← k2]; exact hv
            cases v with
            | scal k c =>
              have k1' : pySub va.arg vb.arg = .ok (.scal k c) := k1
              simp [exprText, hsc, scalText, build, hba, hbb, k1', NArg.text]
            | obs n => simp [NArg.isScal] at hv
          | false =>
            have hsc : (a.isScalar && b.isScalar) = false := by rw [← hsa, ← hsb, ← k2]; exact hv
            rw [k3 nm hv, hta nm]
            cases vb with
            | scal k c =>
              have hbs : b.isScalar = true := by simpa [NArg.isScal] using hsb.symm
              have hnum := k4 hv k c rfl
              have has : a.isScalar = false := by simpa [hbs] using hsc
              simp only [NArg.arg] at hbb
              simp [exprText, has, hbs, negText, scalText, build, hbb, pyNeg, hnum]
            | obs n =>
              have hbs : b.isScalar = false := by simpa [NArg.isScal] using hsb.symm
              have := htb nm
              simp only [NArg.text] at this
              simp [exprText, hbs, negText, this]
  | mul a b iha ihb =>
    simp only [buildN, build]
    cases ha : buildN R ids a with
    | error err => rw [ha] at iha; simp only at iha ⊢; rw [iha]
    | ok va =>
      rw [ha] at iha
      obtain ⟨hba, hsa, hta⟩ := iha
      simp only [hba]
      cases hb : buildN R ids b with
      | error err => rw [hb] at ihb; simp only at ihb ⊢; rw [ihb]
      | ok vb =>
        rw [hb] at ihb
        obtain ⟨hbb, hsb, htb⟩ := ihb
        simp only [hbb]
        have key := pyMulN_spec R va vb
        cases hn : pyMulN R va vb with
        | error err => rw [hn] at key; exact key
        | ok v =>
          rw [hn] at key
          obtain ⟨k1, k2, k3⟩ := key
          refine ⟨k1, by simp [Expr.isScalar, k2, hsa, hsb], ?_⟩
          intro nm
          cases hv : v.isScal with
          | true =>
            have hsc : (a.isScalar && b.isScalar) = true := by rw [← hsa, ← hsb, ← k2]; exact hv
            cases v with
            | scal k c =>
              have k1' : pyMul va.arg vb.arg = .ok (.scal k c) := k1
              simp [exprText, hsc, scalText, build, hba, hbb, k1', NArg.text]
            | obs n => simp [NArg.isScal] at hv
          | false =>
            have hsc : (a.isScalar && b.isScalar) = false := by rw [← hsa, ← hsb, ← k2]; exact hv
            rw [k3 nm hv, hta nm, htb nm, hsa]
            simp [exprText, hsc]

/-- **C16 names** — the object `buildN` returns is the object `build` returns (same structure, or the same
exception), so every C16 theorem about `build` speaks about the named object. -/
theorem C16_named_build_is_build (R : Render α) (ids : Nat → Ident) (e : Expr α) :
    (match buildN R ids e with
      | .ok v => Except.ok v.arg
      | .error err => .error err) = build e := by
  have := buildN_spec R ids e
  cases h : buildN R ids e with
  | error err => rw [h] at this; exact this.symm
  | ok v => rw [h] at this; exact this.1.symm

/-- **C16 names** — the `name` (and the `symbol`) of the observable built from an expression is the stated function
`exprText` of the expression tree: leaves read as their own name (class name by default, the string given through the
setter otherwise), scalar sub-expressions as Python prints their folded value, `-e` as `-E`, `a + b` as `(A + B)`,
`a - b` as `(A + -B)`, and a product as `(c * E)` with the scalar FIRST on whichever side it was written. For every
expression tree, by structural induction through the operator overloads, the reflected operators, `__neg__`'s
explicit strings and the two constructors' default strings. -/
theorem C16_name_of_build (R : Render α) (ids : Nat → Ident) (e : Expr α) (n : NObs α)
    (h : buildN R ids e = .ok (.obs n)) :
    n.name = exprText R ids true e ∧ n.symbol = exprText R ids false e ∧ build e = .ok (.obs n.o) := by
  have := buildN_spec R ids e
  rw [h] at this
  obtain ⟨h1, _, h3⟩ := this
  exact ⟨by simpa [NArg.text] using h3 true, by simpa [NArg.text] using h3 false, h1⟩

/-- consequence: the two ways of writing a scalar multiple have the SAME name (`System` merges them: harmless, they
are the same observable), whereas `-e` and `(-1) * e` — the same values — have different names. -/
theorem C16_name_prod_side (R : Render α) (ids : Nat → Ident) (k : Kind) (c : α) (i : Nat) :
    exprText R ids true (.mul (.const k c) (.leaf i)) = exprText R ids true (.mul (.leaf i) (.const k c)) := by
  simp [exprText, Expr.isScalar]

end names

/-- the names of a list of built observables are the texts of their expressions -/
theorem C16_names_of_built {α : Type} [Add α] [Mul α] [Neg α] [Sub α] [Zero α] [One α]
    (R : Render α) (ids : Nat → Ident) :
    ∀ (es : List (Expr α)) (ns : List (NObs α)),
      List.Forall₂ (fun e n => buildN R ids e = .ok (.obs n)) es ns → ns.map (·.name) = es.map (exprText R ids true)
  | _, _, .nil => rfl
  | _, _, .cons h1 h2 => by
    simp only [List.map_cons]
    rw [(C16_name_of_build R ids _ _ h1).1, C16_names_of_built R ids _ _ h2]

/-- **names as dictionary keys (C13)** — observables built from the expressions `es` and handed to `System`: the keys
of the dictionary `System.statistics` returns are the texts `exprText … e` of the expressions, each once, in order of
first occurrence. Two built observables are therefore reported separately iff their expressions READ differently
(`2 * X` and `X * 2` read the same and are the same observable; two leaves of one class with different options read the
same and are NOT the same observable — known finding F19). -/
theorem C16_system_keys_of_built {σ : Type} (env : Stats.Env σ) (R : Render ℝ) (ids : Nat → Ident)
    (es : List (Expr ℝ)) (ns : List (NObs ℝ)) (hb : List.Forall₂ (fun e n => buildN R ids e = .ok (.obs n)) es ns)
    (vals : NObs ℝ → σ → List ℝ) (a : Stats.Args σ) (hne : ∀ n ∈ ns, ∀ st, vals n st ≠ [])
    (r : List (String × Stats.Stat ℝ) × List (Stats.SampleCall σ))
    (h : Stats.systemStatistics env (ns.map (fun n => (n.name, vals n))) a = .ok r) :
    r.1.map (·.1) = Stats.firstOcc (es.map (exprText R ids true)) := by
  have key := C13_system_keys_of_names env (ns.map (fun n => (n.name, vals n))) a
    (by
      intro o ho st
      obtain ⟨n, hn, rfl⟩ := List.mem_map.mp ho
      exact hne n hn st) r h
  rw [key, List.map_map, ← C16_names_of_built R ids es ns hb]
  rfl

/-! ### Non-vacuity -/

/-- `-O₀ - 3*O₁ + 1` (the expression of the repository's smoke test) builds, to the nested
Sum/Prod object the overloads produce. -/
example : build (α := ℤ) (.add (.sub (.neg (.leaf 0)) (.mul (.const .int 3) (.leaf 1))) (.const .int 1))
    = .ok (.obs (.sum (.obs (.sum (.obs (.prod .int (-1) (.leaf 0)))
        (.obs (.prod .int (-1) (.prod .int 3 (.leaf 1)))))) (.scal .int 1))) := by
  rfl

/-- `2.0 - O₀` with a numpy float on the left goes through `__rsub__`, which receives the numpy scalar itself
(`__array_ufunc__ = None`: numpy defers instead of re-dispatching with a converted Python float) -/
example : build (α := ℤ) (.sub (.const .npfloat 2) (.leaf 0))
    = .ok (.obs (.sum (.scal .npfloat 2) (.obs (.prod .int (-1) (.leaf 0))))) := by rfl

/-- a non-numeric operand on the LEFT of an observable (`None`, a `str`, a numpy array, `numpy.int64(3)`, …) is
rejected by the reflected method's constructor exactly like on the right -/
example : build (α := ℤ) (.mul (.const .bad 0) (.leaf 0)) = .error .TypeError := by rfl
example : build (α := ℤ) (.mul (.leaf 0) (.const .bad 0)) = .error .TypeError := by rfl

/-- the direct constructor calls: `SumObservable(2, 3)` is accepted (no observable inside: outside the property),
`ProdObservable(2, 3)` and `ProdObservable(O₀, O₁)` are `ValueError`s, a `None` operand a `TypeError` -/
example : mkSum (α := ℤ) (.scal .int 2) (.scal .int 3) = .ok (.sum (.scal .int 2) (.scal .int 3)) := by rfl
example : mkProd (α := ℤ) (.scal .int 2) (.scal .int 3) = .error .ValueError := by rfl
example : mkProd (α := ℤ) (.obs (.leaf 0)) (.obs (.leaf 1)) = .error .ValueError := by rfl
example : mkProd (α := ℤ) (.obs (.leaf 0)) (.scal .bad 0) = .error .TypeError := by rfl

/-- observable × observable is a `ValueError`, a `None` operand a `TypeError`, and the left one wins -/
example : build (α := ℤ) (.add (.mul (.leaf 0) (.leaf 1)) (.const .bad 0)) = .error .ValueError := by rfl
example : build (α := ℤ) (.mul (.add (.leaf 0) (.const .bad 0)) (.leaf 1)) = .error .TypeError := by rfl
example : Linear (α := ℤ) (.mul (.const .float 2) (.sub (.leaf 0) (.const .int 1))) :=
  .mul (.const _ _) (.sub (.leaf 0) (.const _ _) rfl rfl) rfl rfl rfl

/-- names: `-O₀ - 3*O₁ + 1` with leaves named `SigmaX` (built-in constant) and a user class with default name -/
example : (match buildN (α := ℤ) ⟨fun _ c => toString c, fun _ c => toString c⟩
      (fun i => if i = 0 then ⟨"SigmaX", some "SigmaX", some "X"⟩ else ⟨"MyObs", none, none⟩)
      (.add (.sub (.neg (.leaf 0)) (.mul (.leaf 1) (.const .int 3))) (.const .int 1)) with
    | .ok (.obs n) => (n.name, n.symbol)
    | _ => ("", "")) = ("((-SigmaX + -(3 * MyObs)) + 1)", "((-X + -(3 * MyObs)) + 1)") := by decide


end C16
end QV.Props
