/-
C14 — Seeded runs are reproducible and evaluation never alters the model.   (PARTIAL)

"After seeding through the library's seeding call, the same sequence of operations
(initialisation, sampling, statistics, training) yields bit-identical samples, statistics and
trained parameters on every run, regardless of the state of any other random source in the
process, while a different seed yields different draws. Sampling, evaluating observables or
metrics, rotating, saving and computing gradients never change any model parameter."

What is proved here, and what is not.
In Lean every definition is a function, so "same inputs ⇒ same outputs" holds for any model by
construction.  The content of C14 is a FRAME statement: results depend on torch's generator,
the parameters and the arguments ONLY, and read-only operations write NO parameter.  The
model (`QV.Model.Frame`) is an op-level state machine with three separate global generators
(torch / numpy / Python `random`) in which each operation names the generator it reads, the
ordered list of calls it makes with their element counts, and the objects it writes; results
are `S.out op arch params draws` for an ARBITRARY function family `S` and an ARBITRARY stream
function `S.mix`.  All theorems hold ∀ S, ∀ histories (lists of operations), ∀ start states.

NOT proved (runtime facts no model of this code base exhibits; see `claims.d/C14.json`):
 * bit-identity of torch's CPU kernels across runs (the theorems say "equal inputs to `S.out`",
   the harness's two-process replay examines the implementation);
 * "a different seed yields different draws": only `C14_different_seed_partial` and
   `C14_same_stream_same_results` — the results are a function of the STREAM of the seed word torch
   derives from the seed (`seedWord`: any Python int in [-2^63, 2^64), reduced mod 2^64; everything
   else is refused, `C14_seed_accepted` / `C14_seed_rejected`) — are proved; that two seed words have
   different streams is a property of torch's PRNG (it reads the low 32 bits of the word; the harness
   measures this directly on torch and requires different draws exactly when torch's own streams differ).
   Full statement, not proved:
     theorem C14_different_seed : seedWord s ≠ seedWord s' → (run S st (.setSeed s true :: ops)).2
                                          ≠ (run S st (.setSeed s' true :: ops)).2
   (false for a constant `mix`, for torch's seeds congruent mod 2^32, and for histories that draw nothing).
-/
import QV.Model.Frame
import QV.Lemmas.Frame

namespace QV.Props
namespace C14
open QV.Frame

variable {P O : Type}

/-! ## 1. noninterference of numpy's / Python's generators -/

/-- **C14.1 (frame, noninterference).** Two processes that agree on torch's generator, the
objects and the files — and differ ARBITRARILY in numpy's and Python's generator states —
execute histories with the same library part (the foreign `numpy.random` / `random` operations
may be different and differently interleaved).  Then every recorded result is the same, and
the final torch generator, objects (all parameters) and files are the same. -/
theorem C14_frame_rng (S : Sem P O) (st₁ st₂ : St P)
    (htorch : st₁.torchGen = st₂.torchGen) (hid : st₁.nextId = st₂.nextId)
    (hobjs : st₁.objs = st₂.objs) (hfiles : st₁.files = st₂.files)
    (ops₁ ops₂ : List Op) (hlib : lib ops₁ = lib ops₂) :
    (run S st₁ ops₁).2 = (run S st₂ ops₂).2
      ∧ (run S st₁ ops₁).1.torchGen = (run S st₂ ops₂).1.torchGen
      ∧ (run S st₁ ops₁).1.objs = (run S st₂ ops₂).1.objs
      ∧ (run S st₁ ops₁).1.files = (run S st₂ ops₂).1.files := by
  have hA : Agree 0 st₁ st₂ := ⟨htorch, hid, fun i _ => by rw [hobjs], fun p => by rw [hfiles]⟩
  obtain ⟨h1, h2⟩ := run_agree S hA ops₁ ops₂ hlib (fun _ _ _ _ => Nat.zero_le _)
  exact ⟨h2, h1.torch, funext (fun i => h1.objs i (Nat.zero_le _)), funext h1.files⟩

/-- **C14.1' (the other two sources are returned unchanged).** A history without foreign
operations — any interleaving of library calls and torch draws — leaves numpy's and Python's
generators exactly as they were. -/
theorem C14_frame_rng_unchanged (S : Sem P O) (ops : List Op) (hlibonly : ∀ op ∈ ops, op.isExternal = false) :
    ∀ st : St P, (run S st ops).1.numpyGen = st.numpyGen ∧ (run S st ops).1.pyGen = st.pyGen := by
  induction ops with
  | nil => intro st; exact ⟨rfl, rfl⟩
  | cons op ops ih =>
    intro st
    rw [run_cons]
    obtain ⟨a, b⟩ := step_other_gens S st op (hlibonly op List.mem_cons_self)
    obtain ⟨c, d⟩ := ih (fun o ho => hlibonly o (List.mem_cons_of_mem _ ho)) (step S st op).1
    exact ⟨c.trans a, d.trans b⟩

/-! ## 2. seeded determinism -/

/-- **C14.2 (seeded determinism).** `m₁`, `m₂` are two processes at the moment
`set_random_seed(s)` is called.  Their three generators are ARBITRARY (whatever preceded the
seeding does not matter).  They have allocated the same number of objects, hold the same files,
and agree on the objects in slots `≥ b`; the histories after the seeding have the same library
part and address only slots `≥ b`; the seed is ANY Python int torch accepts (`seedWord s = some w`:
`-2^63 ≤ s < 2^64`).  Then all results after the seeding are equal, and so are
the final torch generator, all parameters in slots `≥ b`, and the files. -/
theorem C14_seeded_determinism (S : Sem P O) (b : Nat) (m₁ m₂ : St P)
    (hid : m₁.nextId = m₂.nextId) (hobjs : ∀ i, b ≤ i → m₁.objs i = m₂.objs i)
    (hfiles : m₁.files = m₂.files) (s : Int) (w : Nat) (hs : seedWord s = some w)
    (suf₁ suf₂ : List Op) (hlib : lib suf₁ = lib suf₂) (hclosed : ClosedAbove b suf₁) :
    (run S m₁ (.setSeed s true :: suf₁)).2 = (run S m₂ (.setSeed s true :: suf₂)).2
      ∧ Agree b (run S m₁ (.setSeed s true :: suf₁)).1 (run S m₂ (.setSeed s true :: suf₂)).1 := by
  have hA : Agree b (step S m₁ (.setSeed s true)).1 (step S m₂ (.setSeed s true)).1 := by
    rw [step_setSeed_ok S m₁ s w hs, step_setSeed_ok S m₂ s w hs]
    exact ⟨rfl, hid, hobjs, fun p => by show m₁.files p = m₂.files p; rw [hfiles]⟩
  obtain ⟨h1, h2⟩ := run_agree S hA suf₁ suf₂ hlib hclosed
  rw [run_cons, run_cons]
  refine ⟨?_, h1⟩
  simp only [Op.isExternal, Bool.false_eq_true, if_false, h2]
  rw [step_setSeed_ok S m₁ s w hs, step_setSeed_ok S m₂ s w hs]

/-- **C14.2a** equal parameter stores at the seeding point: nothing else is needed. -/
theorem C14_seeded_determinism_same_store (S : Sem P O) (m₁ m₂ : St P)
    (hid : m₁.nextId = m₂.nextId) (hobjs : m₁.objs = m₂.objs) (hfiles : m₁.files = m₂.files)
    (s : Int) (w : Nat) (hs : seedWord s = some w) (suf₁ suf₂ : List Op) (hlib : lib suf₁ = lib suf₂) :
    (run S m₁ (.setSeed s true :: suf₁)).2 = (run S m₂ (.setSeed s true :: suf₂)).2
      ∧ (run S m₁ (.setSeed s true :: suf₁)).1.objs = (run S m₂ (.setSeed s true :: suf₂)).1.objs := by
  obtain ⟨h1, h2⟩ := C14_seeded_determinism S 0 m₁ m₂ hid (fun i _ => by rw [hobjs]) hfiles s w hs suf₁ suf₂ hlib
    (fun _ _ _ _ => Nat.zero_le _)
  exact ⟨h1, funext (fun i => h2.objs i (Nat.zero_le _))⟩

/-- **C14.2b** ARBITRARY (different) parameter stores at the seeding point, as long as the
history after the seeding only uses objects it constructs itself (slots `≥ nextId`): results and
the parameters of all those objects are equal. -/
theorem C14_seeded_determinism_fresh_objects (S : Sem P O) (m₁ m₂ : St P)
    (hid : m₁.nextId = m₂.nextId)
    (hwf₁ : ∀ i, m₁.nextId ≤ i → m₁.objs i = none) (hwf₂ : ∀ i, m₂.nextId ≤ i → m₂.objs i = none)
    (hfiles : m₁.files = m₂.files) (s : Int) (w : Nat) (hs : seedWord s = some w)
    (suf₁ suf₂ : List Op) (hlib : lib suf₁ = lib suf₂) (hclosed : ClosedAbove m₁.nextId suf₁) :
    (run S m₁ (.setSeed s true :: suf₁)).2 = (run S m₂ (.setSeed s true :: suf₂)).2
      ∧ ∀ i, m₁.nextId ≤ i →
          (run S m₁ (.setSeed s true :: suf₁)).1.objs i = (run S m₂ (.setSeed s true :: suf₂)).1.objs i := by
  obtain ⟨h1, h2⟩ := C14_seeded_determinism S m₁.nextId m₁ m₂ hid
    (fun i hi => by rw [hwf₁ i hi, hwf₂ i (hid ▸ hi)]) hfiles s w hs suf₁ suf₂ hlib hclosed
  exact ⟨h1, h2.objs⟩

/-- **C14.2c (whole histories).** Two runs from arbitrary processes with arbitrary, different
prefixes `pre₁`, `pre₂`, then `set_random_seed(s)`, then histories with the same library part:
if the prefixes left the same store (from slot `b` on) and files, the results recorded after the
prefix coincide. -/
theorem C14_seeded_determinism_histories (S : Sem P O) (b : Nat) (st₁ st₂ : St P) (pre₁ pre₂ : List Op)
    (hid : (run S st₁ pre₁).1.nextId = (run S st₂ pre₂).1.nextId)
    (hobjs : ∀ i, b ≤ i → (run S st₁ pre₁).1.objs i = (run S st₂ pre₂).1.objs i)
    (hfiles : (run S st₁ pre₁).1.files = (run S st₂ pre₂).1.files) (s : Int) (w : Nat) (hs : seedWord s = some w)
    (suf₁ suf₂ : List Op) (hlib : lib suf₁ = lib suf₂) (hclosed : ClosedAbove b suf₁) :
    (run S st₁ (pre₁ ++ .setSeed s true :: suf₁)).2.drop (run S st₁ pre₁).2.length
      = (run S st₂ (pre₂ ++ .setSeed s true :: suf₂)).2.drop (run S st₂ pre₂).2.length
    ∧ Agree b (run S st₁ (pre₁ ++ .setSeed s true :: suf₁)).1 (run S st₂ (pre₂ ++ .setSeed s true :: suf₂)).1 := by
  obtain ⟨h1, h2⟩ := C14_seeded_determinism S b _ _ hid hobjs hfiles s w hs suf₁ suf₂ hlib hclosed
  rw [run_append, run_append]
  simp only [List.drop_left]
  exact ⟨h1, h2⟩

/-! ## 3. read-only evaluation -/

/-- **C14.3 (one step).** Every operation other than construction, `reinitialize_parameters`,
`fit` and `load` — in particular `sample`, `statistics`, observable evaluation, metrics,
rotations, every gradient method and `save` — leaves EVERY parameter of EVERY object unchanged. -/
theorem C14_read_only_step (S : Sem P O) (st : St P) (op : Op) (h : op.writesParams = false) :
    (step S st op).1.objs = st.objs :=
  (step_objs_of_not_writes S st op h).1

/-- the operations the property names are among them -/
theorem C14_read_only_ops (i k num ns nc bi stp arg rows path : Nat) (init : Option Nat) :
    (Op.sample i k num init arg).writesParams = false
    ∧ (Op.statistics i ns nc bi stp init arg).writesParams = false
    ∧ (Op.eval i arg).writesParams = false ∧ (Op.metric i arg).writesParams = false
    ∧ (Op.rotate i arg).writesParams = false ∧ (Op.gradient i arg).writesParams = false
    ∧ (Op.batchGradient i k rows arg).writesParams = false ∧ (Op.save i path).writesParams = false :=
  ⟨rfl, rfl, rfl, rfl, rfl, rfl, rfl, rfl⟩

/-- **C14.3 (all histories).** After any history `ops₁`, any further history `ops₂` made of
non-writing operations leaves all parameters as `ops₁` left them. -/
theorem C14_read_only (S : Sem P O) (st : St P) (ops₁ ops₂ : List Op)
    (h : ∀ op ∈ ops₂, op.writesParams = false) :
    (run S st (ops₁ ++ ops₂)).1.objs = (run S st ops₁).1.objs := by
  rw [run_append]
  show (run S (run S st ops₁).1 ops₂).1.objs = _
  generalize (run S st ops₁).1 = m
  induction ops₂ generalizing m with
  | nil => rfl
  | cons op ops ih =>
    rw [run_cons]
    show (run S (step S m op).1 ops).1.objs = m.objs
    rw [ih (fun o ho => h o (List.mem_cons_of_mem _ ho)), C14_read_only_step S m op (h op List.mem_cons_self)]

/-- **C14.3' (other objects).** An existing object is changed only by operations addressed to
it: training, re-initialising or loading ANOTHER object, or constructing new ones, leaves its
parameters unchanged. -/
theorem C14_read_only_other_objects (S : Sem P O) (j : Nat) (ops : List Op)
    (h : ∀ op ∈ ops, op.slot? ≠ some j) :
    ∀ st : St P, j < st.nextId → (run S st ops).1.objs j = st.objs j := by
  induction ops with
  | nil => intro st _; rfl
  | cons op ops ih =>
    intro st hj
    rw [run_cons]
    show (run S (step S st op).1 ops).1.objs j = st.objs j
    rw [ih (fun o ho => h o (List.mem_cons_of_mem _ ho)) _ (Nat.lt_of_lt_of_le hj (step_nextId_le S st op)),
      step_objs_other S st op j (h op List.mem_cons_self) hj]

/-- **C14.3'' (sub-history of the writing operations).** The final process state (generators,
all parameters, files) of a history equals that of the history in which every read-only
operation (sample, statistics, evaluation, metric, rotation, gradient) is replaced by merely
drawing the same number of values from torch's generator.  (Dropping them altogether would
shift the stream seen by later `fit`s; that shift is their ONLY effect.) -/
theorem C14_read_only_skeleton (S : Sem P O) (st : St P) (ops : List Op) :
    (run S st ops).1 = (run S st (skeleton S st ops)).1 :=
  (run_skeleton S ops st).symm

/-! ## 4. how much of torch's stream each operation consumes -/

/-- **C14.4 (one step).** An operation other than an effective `set_random_seed` keeps the seed
and advances torch's generator by exactly the total element count of the random calls the model
lists for it (`stepCalls`; the harness compares the element TOTAL per operation with what the recorders observe —
which torch function draws the elements and in which order inside one operation is not compared). -/
theorem C14_draw_count_step (S : Sem P O) (st : St P) (op : Op) (h : ∀ s', op ≠ .setSeed s' true) :
    (step S st op).1.torchGen = ⟨st.torchGen.seedOf, st.torchGen.pos + stepDraws st op⟩ :=
  step_torchGen S st op h

/-- **C14.4 (histories).** After `set_random_seed(s)` and any history without a further
effective seeding, torch's generator is at position `Σ draws` of the stream of the seed word of `s`. -/
theorem C14_draw_count (S : Sem P O) (s : Int) (w : Nat) (hs : seedWord s = some w) (ops : List Op)
    (h : ∀ op ∈ ops, ∀ s', op ≠ .setSeed s' true) :
    ∀ st : St P, (run S st (.setSeed s true :: ops)).1.torchGen
      = ⟨w, histDraws S (step S st (.setSeed s true)).1 ops⟩ := by
  intro st
  rw [run_cons]
  show (run S (step S st (.setSeed s true)).1 ops).1.torchGen = _
  have hg : (step S st (.setSeed s true)).1.torchGen = ⟨w, 0⟩ := by rw [step_setSeed_ok S st s w hs]
  have key : ∀ (ops : List Op), (∀ op ∈ ops, ∀ s', op ≠ .setSeed s' true) → ∀ (m : St P),
      (run S m ops).1.torchGen = ⟨m.torchGen.seedOf, m.torchGen.pos + histDraws S m ops⟩ := by
    intro ops
    induction ops with
    | nil => intro _ m; rfl
    | cons op ops ih =>
      intro h m
      rw [run_cons]
      show (run S (step S m op).1 ops).1.torchGen = _
      rw [ih (fun o ho => h o (List.mem_cons_of_mem _ ho)), step_torchGen S m op (h op List.mem_cons_self)]
      simp only [histDraws, Nat.add_assoc]
  rw [key ops h, hg]
  simp

/-- **C14.4 closed forms.** The ordered call lists (written with the code's loop structure)
add up to the stated functions of the arguments:
construction `h·n [+ a·n]` normals per network; `sample` `B·n` start bits (unless an initial
state is given) `+ k·B·(h[+a]+n)`; `statistics` a burn-in sample plus `⌈num_samples/chains⌉ - 1`
continuations; a completed `fit` per epoch `N + [numBatches·negB] + k·(negative rows)·(h[+a]+n)`. -/
theorem C14_draw_count_closed_forms (A : Arch) :
    callsTotal (initCalls A) = initDraws A
    ∧ (∀ k num init, callsTotal (sampleCalls A k num init) = sampleDraws A k num init)
    ∧ (∀ k rows, callsTotal (gibbsCalls A k rows) = k * (rows * units A))
    ∧ (∀ ns nc bi stp init, (statCalls A ns nc bi stp init).2 = none →
        callsTotal (statCalls A ns nc bi stp init).1 = statDraws A ns nc bi stp init)
    ∧ (∀ c : FitCfg, (fitCalls A c).2 = none → callsTotal (fitCalls A c).1 = fitDraws A c) :=
  ⟨callsTotal_init A, callsTotal_sample A, callsTotal_gibbs A, callsTotal_stat A, callsTotal_fit A⟩

/-- `_shuffle_data`'s batches partition the epoch: `range(0, N, B)` slices have sizes adding up
to `N`, and there are `⌈N/B⌉` of them. -/
theorem C14_draw_count_batches (N B : Nat) (hB : 0 < B) :
    listSum (sliceSizes N B) = N ∧ (sliceSizes N B).length = ceilDiv N B :=
  ⟨sliceSizes_sum N B hB, sliceSizes_length N B hB⟩

/-! ## 4b. operations added after the audit: `Observable.sample`, `fit` with an evaluator callback -/

/-- **C14.3 (the write set, complete).** An operation of the model may assign to a parameter ONLY if it is a
construction, `reinitialize_parameters`, `fit` or `load`; every other operation — in particular `Observable.sample`
(`obsSample`: it draws exactly what `NeuralState.sample` with the same arguments draws and is read-only) — is covered
by `C14_read_only_step` / `C14_read_only`.  (Which PUBLIC callables of the library fall into which operation class is
established by the correspondence harness, by introspection of the API; a public callable without a class breaks the check.) -/
theorem C14_read_only_ops_ext (i k num arg : Nat) (init : Option Nat) :
    (Op.obsSample i k num init arg).writesParams = false ∧ (Op.obsSample i k num init arg).isPure = true ∧
    (∀ (st : St P), stepCalls st (.obsSample i k num init arg) = stepCalls st (.sample i k num init arg)) ∧
    (∀ op : Op, op.writesParams = true →
      (∃ kd n h a, op = .construct kd n h a) ∨ (∃ j, op = .reinit j) ∨ (∃ j c, op = .fit j c) ∨ (∃ j p, op = .load j p)) := by
  refine ⟨rfl, rfl, fun st => ?_, fun op h => ?_⟩
  · simp only [stepCalls, Op.slot?]
    cases st.objs i <;> rfl
  · cases op <;> simp [Op.writesParams] at h
    · exact Or.inl ⟨_, _, _, _, rfl⟩
    · exact Or.inr (Or.inl ⟨_, rfl⟩)
    · exact Or.inr (Or.inr (Or.inl ⟨_, _, rfl⟩))
    · exact Or.inr (Or.inr (Or.inr ⟨_, _, rfl⟩))

/-- **C14.4 (training with a sampling callback).** `fit(…, callbacks=[ObservableEvaluator(period, …)])` draws from
torch's generator INSIDE the epoch loop. Whether the call raises is not affected by the evaluator, and when it
completes there is one block `E` of training calls (shuffle + Gibbs chains of the batches) such that the plain
`fit` makes `E` once per epoch while the `fit` with the evaluator makes, epoch by epoch, `E` followed — exactly in
the epochs `e` with `e % period == 0`, and after that epoch's last batch — by the calls of one `statistics(num_samples,
num_chains, burn_in, steps)`.  So the later epochs' shuffles see a stream shifted by the evaluator's draws: a seeded
run with an evaluator is reproducible (`C14_seeded_determinism` is about every `Op`, hence about this one), but it
is NOT the same run as without the evaluator. -/
theorem C14_fit_evaluator_calls (A : Arch) (c : FitCfg) :
    (fitCalls A c).2 = (fitCalls A c.noEval).2 ∧
    ((fitCalls A c).2 = none → ∃ E : List Call,
      (fitCalls A c.noEval).1 = (List.replicate c.numEpochs E).flatten ∧
      (fitCalls A c).1 = ((List.range c.numEpochs).map (fun j => E ++ evalCalls A c (c.startEpoch + j))).flatten) := by
  have hrep : ∀ (n : Nat) (E : List Call), ((List.range n).map (fun _ => E)).flatten
      = (List.replicate n E).flatten := by
    intro n E
    induction n with
    | zero => rfl
    | succ n ih =>
      rw [List.range_succ, List.map_append, List.flatten_append, ih, List.replicate_succ']
      simp
  unfold fitCalls
  simp only [FitCfg.noEval, FitCfg.numEpochs, FitCfg.negB', effBases]
  by_cases h1 : A.kind ≠ .pos ∧ c.bases = none
  · simp [h1]
  simp only [h1, if_false]
  by_cases h2 : c.posB = 0
  · simp [h2]
  simp only [h2, if_false]
  by_cases h3 : c.epochs + 1 - c.startEpoch = 0
  · simp only [h3, if_true]
    exact ⟨by trivial, fun _ => ⟨[], by simp⟩⟩
  simp only [h3, if_false]
  split
  · rename_i e he
    simp [he]
  · rename_i he
    refine ⟨by trivial, fun _ => ⟨_, ?_, rfl⟩⟩
    simp only [evalCalls, List.append_nil]
    exact (hrep _ _).symm ▸ rfl

/-- **C14.4 closed form with an evaluator.** A completed `fit` with an evaluator draws what the plain `fit` draws plus
one `statistics` worth of elements per epoch divisible by the period. -/
theorem C14_fit_evaluator_draws (A : Arch) (c : FitCfg) (cb : EvalCb) (h : c.evalCb = some cb)
    (hok : (fitCalls A c).2 = none) :
    callsTotal (fitCalls A c).1 = fitDraws A c.noEval
      + evalEpochs c cb.period * statDraws A cb.numSamples cb.numChains cb.burnIn cb.steps none := by
  rw [callsTotal_fit A c hok]
  unfold fitDraws evalDraws
  simp only [FitCfg.noEval, FitCfg.numEpochs, FitCfg.negB', effBases, h, Nat.add_zero]
  rfl

/-- number of multiples of `p` among `a, a+1, …, a+n-1` -/
theorem multiples_count (p : Nat) (hp : 0 < p) (a n : Nat) :
    ((List.range n).filter (fun j => (a + j) % p = 0)).length + ceilDiv a p = ceilDiv (a + n) p := by
  induction n with
  | zero => simp
  | succ n ih =>
    rw [List.range_succ, List.filter_append, List.length_append, Nat.add_right_comm, ih]
    unfold ceilDiv
    have e : a + (n + 1) + p - 1 = (a + n + p - 1) + 1 := by omega
    rw [e, Nat.succ_div]
    by_cases hd : (a + n) % p = 0
    · have : p ∣ a + n + p - 1 + 1 := by
        have : a + n + p - 1 + 1 = a + n + p := by omega
        rw [this]
        exact (Nat.dvd_add_right (Nat.dvd_of_mod_eq_zero hd)).mpr (Nat.dvd_refl p)
      simp [hd, this]
    · have : ¬ p ∣ a + n + p - 1 + 1 := by
        have e2 : a + n + p - 1 + 1 = a + n + p := by omega
        rw [e2]
        intro hdiv
        exact hd (Nat.mod_eq_zero_of_dvd ((Nat.dvd_add_left (Nat.dvd_refl p)).mp hdiv))
      simp [hd, this]

/-- **C14.4 (how often the evaluator samples).** Among the epochs `starting_epoch … epochs` exactly
`⌈(epochs+1)/p⌉ − ⌈starting_epoch/p⌉` are divisible by the period `p` (for `starting_epoch ≤ epochs + 1`). -/
theorem C14_eval_epochs_closed (c : FitCfg) (p : Nat) (hp : 0 < p) (hse : c.startEpoch ≤ c.epochs + 1) :
    evalEpochs c p = ceilDiv (c.epochs + 1) p - ceilDiv c.startEpoch p := by
  have := multiples_count p hp c.startEpoch c.numEpochs
  have e : c.startEpoch + c.numEpochs = c.epochs + 1 := by unfold FitCfg.numEpochs; omega
  rw [e] at this
  unfold evalEpochs
  omega

/-! ## 5. dependence on the seed — partial -/

/-- **C14.5 (partial).** The whole run after `set_random_seed(s)` — every result, every
parameter, the files — depends on the stream function only through the streams of the seeds
used: replacing `S.mix` by any `mix'` with the same stream for `s` (and for any later seed)
changes nothing.  I.e. the draws are a function of the seed's stream.
NOT proved: that different seeds have different streams (a property of torch's PRNG), hence not
"a different seed yields different draws". -/
theorem C14_different_seed_partial (S : Sem P O) (mix' : Nat → Nat → Nat) (s : Int) (w : Nat)
    (hw : seedWord s = some w) (st : St P)
    (ops : List Op) (hs : StreamEq S.mix mix' w)
    (hseeds : ∀ op ∈ ops, ∀ s' w', op = .setSeed s' true → seedWord s' = some w' → StreamEq S.mix mix' w')
    (hlibonly : ∀ op ∈ ops, op.isExternal = false) :
    run (S.withMix mix') st (.setSeed s true :: ops) = run S st (.setSeed s true :: ops) := by
  rw [run_cons, run_cons]
  have h0 : step (S.withMix mix') st (.setSeed s true) = step S st (.setSeed s true) := rfl
  have hg : (step S st (.setSeed s true)).1.torchGen.seedOf = w := by rw [step_setSeed_ok S st s w hw]
  rw [h0, run_withMix S mix' ops (step S st (.setSeed s true)).1 (by rw [hg]; exact hs) hseeds hlibonly]

/-- **C14.5' (which seeds are seeds).** `set_random_seed(s)` hands `s` to torch unchanged, so it is an effective
seeding exactly for the Python ints torch accepts, `-2^63 ≤ s < 2^64`, and then the generator restarts at
position 0 of the stream of `s mod 2^64`. In particular two accepted seeds are identified by the library
ONLY if they are congruent modulo 2^64 (`-1` and `2^64 - 1`) — not modulo 2^31 or 2^32. -/
theorem C14_seed_accepted (S : Sem P O) (st : St P) (s : Int)
    (hlo : -9223372036854775808 ≤ s) (hhi : s < 18446744073709551616) :
    step S st (.setSeed s true) = ({ st with torchGen := ⟨(s % 18446744073709551616).toNat, 0⟩ }, .none) :=
  step_setSeed_ok S st s _ (by simp [seedWord, hlo, hhi])

/-- … every other int is refused with `ValueError` and NOTHING changes (the process is not seeded); with
`cpu=False` the call never touches torch's CPU generator, whatever the seed. -/
theorem C14_seed_rejected (S : Sem P O) (st : St P) (s : Int)
    (h : s < -9223372036854775808 ∨ 18446744073709551616 ≤ s) :
    step S st (.setSeed s true) = (st, .err .ValueError) ∧ step S st (.setSeed s false) = (st, .none) := by
  refine ⟨step_setSeed_rejected S st s ?_, rfl⟩
  unfold seedWord
  rw [if_neg]
  omega

theorem C14_seed_cpu_false (S : Sem P O) (st : St P) (s : Int) : step S st (.setSeed s false) = (st, .none) := rfl

/-- distinct accepted seeds give distinct seed words unless they differ by exactly 2^64 -/
theorem C14_seed_word_injective (s s' : Int) (w : Nat) (h : seedWord s = some w) (h' : seedWord s' = some w) :
    s = s' ∨ s = s' + 18446744073709551616 ∨ s' = s + 18446744073709551616 := by
  unfold seedWord at h h'
  split at h <;> split at h' <;> simp only [Option.some.injEq, reduceCtorEq] at h h'
  omega

/-- **C14.5'' (same stream ⇒ same results).** Two seedings whose seed words have the same stream under `S.mix`
(for torch: words congruent modulo 2^32) are followed by exactly the same results, for every history — the
converse direction of "a different seed yields different draws" that IS a theorem: results depend on the seed
through its stream only. -/
theorem C14_same_stream_same_results (S : Sem P O) (st : St P) (s s' : Int) (w w' : Nat)
    (hw : seedWord s = some w) (hw' : seedWord s' = some w') (hstream : ∀ i, S.mix w i = S.mix w' i)
    (ops : List Op) :
    (run S st (.setSeed s true :: ops)).2 = (run S st (.setSeed s' true :: ops)).2 := by
  rw [run_cons, run_cons, step_setSeed_ok S st s w hw, step_setSeed_ok S st s' w' hw']
  simp only [Op.isExternal, Bool.false_eq_true, if_false]
  have := run_relabel S ops { st with torchGen := ⟨w, 0⟩ } w' hstream
  rw [← this]
  rfl

/-- the consumed draws are the next segment of the stream of the current seed -/
theorem C14_draws_are_stream_segment (S : Sem P O) (g : Gen) (m : Nat) :
    (Gen.take S.mix m g).1 = (List.range m).map (fun i => S.mix g.seedOf (g.pos + i)) :=
  take_fst S.mix m g

/-! ## non-vacuity: concrete instances (token semantics, executed by the driver) -/

section examples

/-- two processes at the seeding point: different torch / numpy / Python generator states -/
def exM₁ : St Nat := St.fresh Nat ⟨11, 5⟩ ⟨1, 0⟩ ⟨2, 0⟩
def exM₂ : St Nat := St.fresh Nat ⟨77, 123⟩ ⟨8, 41⟩ ⟨9, 3⟩

/-- a history after the seeding: a density matrix and a positive state are built, sampled,
statistics, a gradient with Gibbs chain, save; numpy / `random` perturbed differently -/
def exSuf₁ : List Op :=
  [.perturbNumpy 3, .construct .dens 2 (some 3) (some 1), .construct .pos 3 none none, .seedPy 4,
   .sample 0 2 5 none 0, .statistics 1 7 2 3 1 none 0, .batchGradient 0 2 4 1, .save 0 0, .reinit 1,
   .sample 1 0 4 none 0]
def exSuf₂ : List Op :=
  [.construct .dens 2 (some 3) (some 1), .seedNumpy 99, .construct .pos 3 none none,
   .sample 0 2 5 none 0, .perturbPy 17, .statistics 1 7 2 3 1 none 0, .batchGradient 0 2 4 1, .save 0 0,
   .perturbNumpy 1, .reinit 1, .sample 1 0 4 none 0]

example : lib exSuf₁ = lib exSuf₂ := by decide
example : ClosedAbove exM₁.nextId exSuf₁ := fun _ _ _ _ => Nat.zero_le _
example : exSuf₁ ≠ exSuf₂ := by decide

/-- the hypothesis "seeded" matters: WITHOUT the seeding call the two processes (different torch
generator states) produce different results under the token semantics … -/
example : (run tokenSem exM₁ exSuf₁).2 ≠ (run tokenSem exM₂ exSuf₂).2 := by decide +kernel

/-- … and WITH it they produce the same ones (instance of `C14_seeded_determinism`). -/
example : (run tokenSem exM₁ (.setSeed 5 true :: exSuf₁)).2 = (run tokenSem exM₂ (.setSeed 5 true :: exSuf₂)).2 :=
  (C14_seeded_determinism tokenSem 0 exM₁ exM₂ rfl (fun _ _ => rfl) rfl 5 5 (by decide) exSuf₁ exSuf₂ (by decide)
    (fun _ _ _ _ => Nat.zero_le _)).1

/-- `set_random_seed(s, cpu=False)` is NOT a seeding: the conclusion fails for it. -/
example : (run tokenSem exM₁ (.setSeed 5 false :: exSuf₁)).2 ≠ (run tokenSem exM₂ (.setSeed 5 false :: exSuf₂)).2 := by
  decide +kernel

/-- under the token semantics a different seed does give different results (this is a fact about
`tokenSem.mix`, the analogue of the PRNG-quality assumption, not a theorem about all `S`). -/
example : (run tokenSem exM₁ (.setSeed 5 true :: exSuf₁)).2 ≠ (run tokenSem exM₁ (.setSeed 6 true :: exSuf₁)).2 := by
  decide +kernel

/-- … also for seeds that differ only in bit 31 (`7` and `7 + 2^31`) and for a negative seed and its absolute
value; whereas `7` and `7 + 2^32` have the same stream under the token semantics (as they have for torch's
mt19937) and, by `C14_same_stream_same_results`, the same results; and `-1` is the same seed as `2^64 - 1`. -/
example : (run tokenSem exM₁ (.setSeed 7 true :: exSuf₁)).2 ≠ (run tokenSem exM₁ (.setSeed 2147483655 true :: exSuf₁)).2 := by
  decide +kernel
example : (run tokenSem exM₁ (.setSeed 5 true :: exSuf₁)).2 ≠ (run tokenSem exM₁ (.setSeed (-5) true :: exSuf₁)).2 := by
  decide +kernel
example : (run tokenSem exM₁ (.setSeed 7 true :: exSuf₁)).2 = (run tokenSem exM₁ (.setSeed 4294967303 true :: exSuf₁)).2 :=
  C14_same_stream_same_results tokenSem exM₁ 7 4294967303 7 4294967303 (by decide) (by decide) (fun _ => rfl) exSuf₁
example : seedWord (-1) = seedWord 18446744073709551615 := by decide
example : seedWord 18446744073709551616 = none ∧ seedWord (-9223372036854775809) = none := by decide

/-- The CONTENT of `initial_state` is part of the operation (`arg` of `Op.sample`): two histories that differ only in the
start chains handed to one `sample(k = 0, initial_state = …)` call (same row count, same `num_samples`) are NOT "the same
sequence of operations" — `lib` separates them, so `C14_seeded_determinism` says nothing about the pair — and under the
token semantics the two calls return different values although they sit at the same position of the same stream on the
same unchanged object (as the library does: `k = 0` returns the clone of the start chains). -/
example : lib (exSuf₁ ++ [.sample 0 0 2 (some 4) 17]) ≠ lib (exSuf₁ ++ [.sample 0 0 2 (some 4) 18]) := by decide
example : (run tokenSem exM₁ (.setSeed 5 true :: exSuf₁ ++ [.sample 0 0 2 (some 4) 17])).2
    ≠ (run tokenSem exM₁ (.setSeed 5 true :: exSuf₁ ++ [.sample 0 0 2 (some 4) 18])).2 := by decide +kernel
/-- … whereas the SAME call repeated at the same stream position on the unchanged object (re-seeding in between) returns the
same value: the pattern the harness' `pattern/results` point relies on. -/
def exRep : List (Out Nat) :=
  (run tokenSem exM₁ [.setSeed 5 true, .construct .pos 3 none none, .setSeed 9 true, .sample 0 0 2 (some 4) 17,
      .setSeed 9 true, .sample 0 0 2 (some 4) 17, .setSeed 9 true, .sample 0 0 2 (some 4) 18]).2
example : exRep[3]? = exRep[5]? ∧ exRep[3]? ≠ exRep[7]? ∧ exRep[3]? ≠ some .none ∧ exRep.length = 8 := by decide +kernel

/-- draw counts of the example: density matrix n=2,h=3,a=1 → 2·(3·2+1·2) = 16 normals;
`sample(k=2, 5 chains)` → 5·2 + 2·5·(3+1+2) = 70; a fit of a positive state with N=10, B=4,
k=2, 3 epochs, n=3, h=3: 3·(10 + 2·10·6) = 390; with neg_batch_size=3: 3·(10 + 9 + 2·9·6) = 381. -/
example : initDraws (resolveArch .dens 2 (some 3) (some 1)) = 16 := by decide
example : sampleDraws (resolveArch .dens 2 (some 3) (some 1)) 2 5 none = 70 := by decide
example : fitDraws (resolveArch .pos 3 none none) ⟨10, 3, 1, 4, none, 2, none, 0, none⟩ = 390 := by decide
example : fitDraws (resolveArch .pos 3 none none) ⟨10, 3, 1, 4, some 3, 2, none, 0, none⟩ = 381 := by decide

/-- with an evaluator of period 2 (5 samples, 2 chains, burn-in 3, 1 step) on epochs 1..3: one extra `statistics` (epoch 2):
2·3 + 3·2·6 + 2·(1·2·6) = 66 more elements -/
example : fitDraws (resolveArch .pos 3 none none) ⟨10, 3, 1, 4, none, 2, none, 0, some ⟨1, 4, 2, 3, 1⟩⟩ = 390 + 66 := by decide
example : evalEpochs (⟨10, 7, 2, 4, none, 2, none, 0, none⟩ : FitCfg) 3 = 2 := by decide

end examples

/-! ## Extension round 2: attribute forwarding (`NeuralStateBase.__getattr__`, `WaveFunctionBase.__getattr__`) and the
`compute_normalization` alias. Model: `QV.Frame.resolveMethod`, `rbmMethods`, `fwdOp`, `normalizationOp`; driver op `c14.resolve`. -/
section forwarding

/-- SPECIFICATION (independent list): the ten read-only evaluators of the two RBM classes -/
def fwdEvaluatorNames (kd : Kind) : List String :=
  match kd with
  | .dens => ["effective_energy", "effective_energy_gradient", "gamma", "gamma_grad", "mixing_term", "partition",
      "prob_a_given_v", "prob_h_given_v", "prob_v_given_ha"]
  | _ => ["effective_energy", "effective_energy_gradient", "partition", "prob_h_given_v", "prob_v_given_h"]

/-- **a forwarded call is the RBM method on `rbm_am`, and — unless it is `initialize_parameters` — read-only.** If `state.<name>` is answered
by `__getattr__` (`resolveMethod … = forwarded c`) then the state does not define the name, `c` is the class of the method of that
name of the RBM class of `rbm_am`, and the operation it denotes (`fwdOp`) writes no parameter of any object; an EVALUATOR moreover draws
nothing (torch's generator is left where it was), `gibbs_steps` draws exactly the Bernoulli calls of `k` Gibbs steps on `rows` chains
(the same frame as `compute_batch_gradients`' negative phase). Fails if e.g. `partition` were classified as a sampler, `gibbs_steps`
as an evaluator, `initialize_parameters` as an operation, or resolution preferred the RBM over the state's own attribute. -/
theorem C14_forwarded_read_only (S : Sem P O) (own : String → Bool) (kd : Kind) (name : String) (c : FwdClass)
    (h : resolveMethod own kd name = .forwarded c) :
    own name = false ∧ methodLookup (rbmMethods kd) name = some c ∧
    ∀ (slot arg k rows : Nat) (op : Op), fwdOp slot arg k rows c = some op →
      op.writesParams = false ∧ op.isPure = true ∧ op.slot? = some slot ∧
      (∀ st : St P, (step S st op).1.objs = st.objs) ∧
      (c = .evaluator → op = .eval slot arg ∧ ∀ st : St P, stepDraws st op = 0 ∧ (step S st op).1.torchGen = st.torchGen) ∧
      (c = .gibbs → op = .batchGradient slot k rows arg ∧
        ∀ (st : St P) (ob : Obj P), st.objs slot = some ob → stepCalls st op = gibbsCalls ob.arch k rows) := by
  have hown : own name = false := by
    cases ho : own name with
    | false => rfl
    | true => simp [resolveMethod, ho] at h
  have hl : methodLookup (rbmMethods kd) name = some c := by
    simp only [resolveMethod, hown] at h
    cases hm : methodLookup (rbmMethods kd) name with
    | none => simp [hm] at h
    | some c' => simp only [hm] at h; cases h; rfl
  refine ⟨hown, hl, fun slot arg k rows op hop => ?_⟩
  cases c with
  | evaluator =>
    simp only [fwdOp, Option.some.injEq] at hop
    subst hop
    have hd : ∀ st : St P, stepDraws st (.eval slot arg) = 0 := by
      intro st
      simp only [stepDraws, stepCalls, Op.slot?]
      cases st.objs slot <;> rfl
    refine ⟨rfl, rfl, rfl, fun st => C14_read_only_step S st _ rfl, fun _ => ⟨rfl, fun st => ⟨hd st, ?_⟩⟩, fun hc => (by cases hc)⟩
    rw [C14_draw_count_step S st _ (fun s' hh => by cases hh), hd st]
    cases st.torchGen; rfl
  | gibbs =>
    simp only [fwdOp, Option.some.injEq] at hop
    subst hop
    refine ⟨rfl, rfl, rfl, fun st => C14_read_only_step S st _ rfl, fun hc => (by cases hc), fun _ => ⟨rfl, fun st ob hob => ?_⟩⟩
    simp only [stepCalls, Op.slot?, hob, Op.plan]
  | halfStep => simp [fwdOp] at hop
  | initParams => simp [fwdOp] at hop

/-- the table side: on a state that defines none of these names, exactly the names of `fwdEvaluatorNames` resolve to forwarded
EVALUATORS; `gibbs_steps` is the forwarded sampler; `initialize_parameters` is forwarded and is NOT an operation the read-only theorem
covers (it writes); an unknown name is an `AttributeError`; an own name is never forwarded -/
theorem C14_forwarded_table (kd : Kind) :
    ((rbmMethods kd).filter (fun e => e.2 = .evaluator)).map Prod.fst = fwdEvaluatorNames kd
    ∧ (∀ name ∈ fwdEvaluatorNames kd, resolveMethod (fun _ => false) kd name = .forwarded .evaluator)
    ∧ resolveMethod (fun _ => false) kd "gibbs_steps" = .forwarded .gibbs
    ∧ resolveMethod (fun _ => false) kd "initialize_parameters" = .forwarded .initParams
    ∧ resolveMethod (fun _ => false) kd "no_such_attribute" = .attributeError
    ∧ (∀ own name, own name = true → resolveMethod own kd name = .own) := by
  refine ⟨?_, ?_, ?_, ?_, ?_, fun own name h => by simp [resolveMethod, h]⟩ <;> cases kd <;> decide

example : resolveMethod (fun n => n == "normalization" || n == "compute_normalization") .cplx "partition" = .forwarded .evaluator := by decide
example : resolveMethod (fun n => n == "normalization" || n == "compute_normalization") .cplx "compute_normalization" = .own := by decide
example : resolveMethod (fun _ => false) .pos "gamma" = .attributeError := by decide

end forwarding

end C14
end QV.Props
