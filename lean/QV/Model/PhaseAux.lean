/-
QV.Model.PhaseAux — numeric model of what training does to the AUXILIARY BIAS OF THE PHASE NETWORK
of a `DensityMatrix` ("The auxiliary bias of the phase RBM is always zero", purification_rbm.py:57):

  * the aux-bias blocks of `pi_grad(v, vp, phase)` (density_matrix.py:204-216: for `phase=True`
    `ab_grad_real = zeros_like(rbm_ph.aux_bias)`, `ab_grad_imag = ab_grad_real.clone()`) and of
    `gamma_grad` (purification_rbm.py:438-447: `ab_grad = zeros_like(aux_bias)`, imaginary part from
    `make_complex(x)` = zeros), their combination in `ph_grads` (density_matrix.py:321-323), the
    contraction in `rotated_gradient` (density_matrix.py:296-300), the accumulation over the unique
    bases in `gradient` (neural_state.py:343-368, `0.0` for an all-`Z` basis) and the division by the batch
    size in `positive_phase_gradients` (neural_state.py:381-383; the negative phase only touches `grad[0]`);
  * the update rules of `torch.optim.SGD` (weight decay, momentum, dampening, Nesterov) and
    `torch.optim.Adam` (weight decay, no amsgrad) for ONE scalar coordinate, as in torch's
    `_single_tensor_sgd` / `_single_tensor_adam`.

Generic over the numeric carrier (run at `Float` by the driver against `torch.optim`, at any field for
the theorems).  Import-free apart from `Scalar`/`CplxScalar`.
-/
import QV.Model.Scalar
import QV.Model.CplxScalar
namespace QV.PhaseAux

variable {α : Type} [Add α] [Mul α] [Neg α] [Sub α] [Div α] [Zero α] [One α] [Transc α]

/-- aux-bias entry (one auxiliary unit, one pair `(v, vp)`) of `pi_grad(v, vp, phase)`:
`phase=True`: `(zeros, zeros.clone())`; `phase=False`: `(real(sig), imag(sig))`. -/
def piGradAux (phase : Bool) (sig : C α) : C α :=
  if phase then (0, 0) else sig

/-- aux-bias entry of `gamma_grad(v, vp, eta)`: `make_complex(zeros_like(aux_bias))` -/
def gammaGradAux : C α := (0, 0)

/-- aux-bias entry of `ph_grads(v)`:
`scalar_mult(rbm_ph.gamma_grad(v, v, eta=-1), I) + pi_grad(v, v, phase=True)` -/
def phGradsAux (sig : C α) : C α :=
  C.add (C.mul gammaGradAux C.I) (piGradAux true sig)

/-- aux-bias entry of `rotated_gradient(basis, sample)[1]`:
`einsum("b,bg->g", 1/(UrhoU+1e-8), -cplx.einsum("ijb,ijbg->bg", UrhoU_v, g, imag_part=False))`
with `cplx.einsum`'s real part `Σ re·re − Σ im·im` (two separate sums, as coded). -/
def rotatedAux (N B : Nat) (UrhoUv : Fin N → Fin N → Fin B → C α) (inv : Fin B → α)
    (g : Fin N → Fin N → Fin B → C α) : α :=
  sumFin B (fun b => inv b *
    (-(sumFin N (fun i => sumFin N (fun j => (UrhoUv i j b).1 * (g i j b).1))
        - sumFin N (fun i => sumFin N (fun j => (UrhoUv i j b).2 * (g i j b).2)))))

/-- aux-bias entry of `positive_phase_gradients(batch, bases)[1]`: `grad[1]` starts at zero, every
unique basis adds its contribution (`0.0` for an all-`Z` basis, else `rotated_gradient(...)[1]`), then
the sum is divided by the batch size. `compute_batch_gradients` subtracts nothing from `grad[1]`. -/
def batchGradAux (contribs : List α) (batchSize : α) : α :=
  contribs.foldl (fun acc c => acc + c) 0 / batchSize

/-! ### torch.optim.SGD for one coordinate -/

/-- hyper-parameters; `hasWd` = `weight_decay != 0`, `hasMomentum` = `momentum != 0` -/
structure SGDCfg (α : Type) where
  lr : α
  momentum : α
  dampening : α
  wd : α
  nesterov : Bool
  hasMomentum : Bool
  hasWd : Bool

/-- parameter value and momentum buffer (`None` before the first step) -/
structure SGDState (α : Type) where
  p : α
  buf : Option α

/-- one `optimizer.step()` of SGD with gradient `g` -/
def sgdStep (c : SGDCfg α) (s : SGDState α) (g : α) : SGDState α :=
  let g1 := if c.hasWd then g + c.wd * s.p else g
  if c.hasMomentum then
    let buf := match s.buf with
      | none => g1
      | some b => b * c.momentum + (1 - c.dampening) * g1
    let g2 := if c.nesterov then g1 + c.momentum * buf else buf
    ⟨s.p + (-c.lr) * g2, some buf⟩
  else ⟨s.p + (-c.lr) * g1, s.buf⟩

def sgdRun (c : SGDCfg α) (s : SGDState α) (gs : List α) : SGDState α := gs.foldl (sgdStep c) s

/-! ### torch.optim.Adam for one coordinate -/

structure AdamCfg (α : Type) where
  lr : α
  beta1 : α
  beta2 : α
  eps : α
  wd : α
  hasWd : Bool

structure AdamState (α : Type) where
  p : α
  m : α
  v : α
  t : Nat

/-- `b ** t` for the bias corrections -/
def powN (b : α) : Nat → α
  | 0 => 1
  | k + 1 => powN b k * b

/-- one `optimizer.step()` of Adam with gradient `g`:
`exp_avg.lerp_(grad, 1-β1)`, `exp_avg_sq.mul_(β2).addcmul_(grad, grad, value=1-β2)`,
`denom = sqrt(exp_avg_sq)/sqrt(1-β2^t) + eps`, `param.addcdiv_(exp_avg, denom, value=-lr/(1-β1^t))`. -/
def adamStep (c : AdamCfg α) (s : AdamState α) (g : α) : AdamState α :=
  let t := s.t + 1
  let g1 := if c.hasWd then g + c.wd * s.p else g
  let m := s.m + (1 - c.beta1) * (g1 - s.m)
  let v := s.v * c.beta2 + (1 - c.beta2) * (g1 * g1)
  let stepSize := c.lr / (1 - powN c.beta1 t)
  let denom := Transc.sqrt v / Transc.sqrt (1 - powN c.beta2 t) + c.eps
  ⟨s.p + (-stepSize) * (m / denom), m, v, t⟩

def adamRun (c : AdamCfg α) (s : AdamState α) (gs : List α) : AdamState α := gs.foldl (adamStep c) s

end QV.PhaseAux
