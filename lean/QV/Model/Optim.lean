/-
QV.Model.Optim — update rules of `torch.optim` for ONE scalar coordinate, as an abstract `Rule`
(state, hyper-parameters of the step, gradient ↦ new state) and the concrete single-tensor rules of
torch 2.x that `NeuralStateBase.fit(optimizer=…, optimizer_args=…, scheduler=…)` can be given:

  `sgdRule`      torch.optim.SGD       (weight decay, momentum, dampening, Nesterov, maximize)   — `_single_tensor_sgd`
  `adamRule`     torch.optim.Adam / AdamW (weight decay coupled or decoupled, amsgrad, maximize) — `_single_tensor_adam`
  `adadeltaRule` torch.optim.Adadelta  (rho, eps, weight decay, maximize)                        — `_single_tensor_adadelta`
  `adagradRule`  torch.optim.Adagrad   (lr_decay, eps, weight decay, initial accumulator, maximize) — `_single_tensor_adagrad`
  `rmspropRule`  torch.optim.RMSprop   (alpha, eps, weight decay, momentum, centered, maximize)  — `_single_tensor_rmsprop`
  `adamaxRule`   torch.optim.Adamax    (betas, eps, weight decay, maximize)                      — `_single_tensor_adamax`
  `nadamRule`    torch.optim.NAdam     (betas, eps, weight decay coupled/decoupled, momentum_decay, maximize) — `_single_tensor_nadam`

The hyper-parameters are an argument of EVERY step: a learning-rate scheduler (`scheduler.step()` after each epoch in
`fit`) or any other change of `param_groups` between steps is a sequence of different hyper-parameter records.
Tests the code makes on hyper-parameters (`weight_decay != 0`, `momentum != 0`, `momentum > 0`) are Boolean fields.
Generic over the numeric carrier (run at `Float` by the driver against `torch.optim`, at any field for the theorems).
Import-free apart from `QV.Model.PhaseAux` (the SGD / Adam rules already modelled there are reused).
-/
import QV.Model.PhaseAux
namespace QV.Optim
open QV.PhaseAux

/-- an update rule for one coordinate: `κ` hyper-parameters of a step, `σ` per-coordinate optimizer state
(parameter value included), `α` gradients -/
structure Rule (α κ σ : Type) where
  step : κ → σ → α → σ
  param : σ → α

/-- the state after the steps `(hyper-parameters, gradient)₁, …, (hyper-parameters, gradient)ₖ` -/
def Rule.run {α κ σ : Type} (r : Rule α κ σ) (s : σ) (cgs : List (κ × α)) : σ :=
  cgs.foldl (fun s cg => r.step cg.1 s cg.2) s

/-- the parameter value after every step, in order (what a per-batch observer sees) -/
def Rule.trace {α κ σ : Type} (r : Rule α κ σ) : σ → List (κ × α) → List α
  | _, [] => []
  | s, cg :: rest => r.param (r.step cg.1 s cg.2) :: r.trace (r.step cg.1 s cg.2) rest

variable {α : Type} [Add α] [Mul α] [Neg α] [Sub α] [Div α] [Zero α] [One α] [Transc α]

/-- `grad if not maximize else -grad` -/
def signed (maximize : Bool) (g : α) : α := if maximize then -g else g

/-! ### SGD -/
structure SGDX (α : Type) where
  base : SGDCfg α
  maximize : Bool

def sgdRule : Rule α (SGDX α) (SGDState α) where
  step c s g := sgdStep c.base s (signed c.maximize g)
  param s := s.p

/-! ### Adam / AdamW -/
structure AdamX (α : Type) where
  lr : α
  beta1 : α
  beta2 : α
  eps : α
  wd : α
  hasWd : Bool
  /-- `decoupled_weight_decay` (`torch.optim.AdamW` = Adam with this flag) -/
  decoupled : Bool
  amsgrad : Bool
  maximize : Bool

structure AdamXState (α : Type) where
  p : α
  m : α
  v : α
  vmax : α
  t : Nat

def adamXStep (c : AdamX α) (s : AdamXState α) (g : α) : AdamXState α :=
  let g0 := signed c.maximize g
  let t := s.t + 1
  let p1 := if c.hasWd && c.decoupled then s.p * (1 - c.lr * c.wd) else s.p
  let g1 := if c.hasWd && !c.decoupled then g0 + c.wd * s.p else g0
  let m := s.m + (1 - c.beta1) * (g1 - s.m)
  let v := s.v * c.beta2 + (1 - c.beta2) * (g1 * g1)
  let stepSize := c.lr / (1 - powN c.beta1 t)
  let vmax := if c.amsgrad then Transc.max s.vmax v else s.vmax
  let denom := Transc.sqrt (if c.amsgrad then vmax else v) / Transc.sqrt (1 - powN c.beta2 t) + c.eps
  ⟨p1 + (-stepSize) * (m / denom), m, v, vmax, t⟩

def adamRule : Rule α (AdamX α) (AdamXState α) where
  step := adamXStep
  param s := s.p

/-! ### Adadelta -/
structure AdadeltaCfg (α : Type) where
  lr : α
  rho : α
  eps : α
  wd : α
  hasWd : Bool
  maximize : Bool

structure AdadeltaState (α : Type) where
  p : α
  sq : α
  acc : α

/-- `square_avg.mul_(rho).addcmul_(grad, grad, value=1-rho)`, `std = (square_avg+eps).sqrt()`,
`delta = (acc_delta+eps).sqrt()/std*grad`, `acc_delta.mul_(rho).addcmul_(delta, delta, value=1-rho)`, `param.add_(delta, alpha=-lr)` -/
def adadeltaStep (c : AdadeltaCfg α) (s : AdadeltaState α) (g : α) : AdadeltaState α :=
  let g0 := signed c.maximize g
  let g1 := if c.hasWd then g0 + c.wd * s.p else g0
  let sq := s.sq * c.rho + (1 - c.rho) * (g1 * g1)
  let std := Transc.sqrt (sq + c.eps)
  let delta := Transc.sqrt (s.acc + c.eps) / std * g1
  let acc := s.acc * c.rho + (1 - c.rho) * (delta * delta)
  ⟨s.p + (-c.lr) * delta, sq, acc⟩

def adadeltaRule : Rule α (AdadeltaCfg α) (AdadeltaState α) where
  step := adadeltaStep
  param s := s.p

/-! ### Adagrad -/
structure AdagradCfg (α : Type) where
  lr : α
  lrDecay : α
  eps : α
  wd : α
  hasWd : Bool
  maximize : Bool

structure AdagradState (α : Type) where
  p : α
  /-- `state_sum`, initialised with `initial_accumulator_value` -/
  sum : α
  t : Nat

/-- `clr = lr / (1 + (step-1)*lr_decay)`, `state_sum.addcmul_(grad, grad, value=1)`, `std = state_sum.sqrt() + eps`,
`param.addcdiv_(grad, std, value=-clr)` -/
def adagradStep (c : AdagradCfg α) (s : AdagradState α) (g : α) : AdagradState α :=
  let g0 := signed c.maximize g
  let t := s.t + 1
  let g1 := if c.hasWd then g0 + c.wd * s.p else g0
  let clr := c.lr / (1 + Transc.ofNat (t - 1) * c.lrDecay)
  let sum := s.sum + g1 * g1
  let std := Transc.sqrt sum + c.eps
  ⟨s.p + (-clr) * (g1 / std), sum, t⟩

def adagradRule : Rule α (AdagradCfg α) (AdagradState α) where
  step := adagradStep
  param s := s.p

/-! ### RMSprop -/
structure RMSpropCfg (α : Type) where
  lr : α
  alpha : α
  eps : α
  wd : α
  hasWd : Bool
  momentum : α
  /-- `momentum > 0` -/
  hasMomentum : Bool
  centered : Bool
  maximize : Bool

structure RMSpropState (α : Type) where
  p : α
  sq : α
  gavg : α
  buf : α

def rmspropStep (c : RMSpropCfg α) (s : RMSpropState α) (g : α) : RMSpropState α :=
  let g0 := signed c.maximize g
  let g1 := if c.hasWd then g0 + c.wd * s.p else g0
  let sq := s.sq * c.alpha + (1 - c.alpha) * (g1 * g1)
  let gavg := if c.centered then s.gavg + (1 - c.alpha) * (g1 - s.gavg) else s.gavg
  let avg := (if c.centered then Transc.sqrt (sq + (-1) * (gavg * gavg)) else Transc.sqrt sq) + c.eps
  if c.hasMomentum then
    let buf := s.buf * c.momentum + g1 / avg
    ⟨s.p + (-c.lr) * buf, sq, gavg, buf⟩
  else ⟨s.p + (-c.lr) * (g1 / avg), sq, gavg, s.buf⟩

def rmspropRule : Rule α (RMSpropCfg α) (RMSpropState α) where
  step := rmspropStep
  param s := s.p

/-! ### Adamax -/
structure AdamaxCfg (α : Type) where
  lr : α
  beta1 : α
  beta2 : α
  eps : α
  wd : α
  hasWd : Bool
  maximize : Bool

structure AdamaxState (α : Type) where
  p : α
  m : α
  u : α
  t : Nat

/-- `exp_avg.lerp_(grad, 1-β1)`, `exp_inf = max(exp_inf*β2, |grad| + eps)`, `clr = lr/(1-β1^t)`,
`param.addcdiv_(exp_avg, exp_inf, value=-clr)` -/
def adamaxStep (c : AdamaxCfg α) (s : AdamaxState α) (g : α) : AdamaxState α :=
  let g0 := signed c.maximize g
  let t := s.t + 1
  let g1 := if c.hasWd then g0 + c.wd * s.p else g0
  let m := s.m + (1 - c.beta1) * (g1 - s.m)
  let u := Transc.max (s.u * c.beta2) (Transc.abs g1 + c.eps)
  let clr := c.lr / (1 - powN c.beta1 t)
  ⟨s.p + (-clr) * (m / u), m, u, t⟩

def adamaxRule : Rule α (AdamaxCfg α) (AdamaxState α) where
  step := adamaxStep
  param s := s.p

/-! ### NAdam -/
structure NAdamCfg (α : Type) where
  lr : α
  beta1 : α
  beta2 : α
  eps : α
  wd : α
  hasWd : Bool
  decoupled : Bool
  momentumDecay : α
  maximize : Bool

structure NAdamState (α : Type) where
  p : α
  m : α
  v : α
  muProd : α
  t : Nat

/-- `0.96 ** x` as `exp (x · log 0.96)` -/
def pow096 (x : α) : α := Transc.exp (x * Transc.log (Transc.ofNat 96 / Transc.ofNat 100))

/-- `mu = β1 (1 − 0.5·0.96^(step·momentum_decay))` -/
def nadamMu (c : NAdamCfg α) (step : Nat) : α :=
  c.beta1 * (1 - (1 / two) * pow096 (Transc.ofNat step * c.momentumDecay))

def nadamStep (c : NAdamCfg α) (s : NAdamState α) (g : α) : NAdamState α :=
  let g0 := signed c.maximize g
  let t := s.t + 1
  let bc2 := 1 - powN c.beta2 t
  let p1 := if c.hasWd && c.decoupled then s.p * (1 - c.lr * c.wd) else s.p
  let g1 := if c.hasWd && !c.decoupled then g0 + c.wd * s.p else g0
  let mu := nadamMu c t
  let muNext := nadamMu c (t + 1)
  let muProd := s.muProd * mu
  let m := s.m + (1 - c.beta1) * (g1 - s.m)
  let v := s.v * c.beta2 + (1 - c.beta2) * (g1 * g1)
  let denom := Transc.sqrt (v / bc2) + c.eps
  let p2 := p1 + ((-c.lr) * (1 - mu) / (1 - muProd)) * (g1 / denom)
  ⟨p2 + (((-c.lr) * muNext) / (1 - muProd * muNext)) * (m / denom), m, v, muProd, t⟩

def nadamRule : Rule α (NAdamCfg α) (NAdamState α) where
  step := nadamStep
  param s := s.p

end QV.Optim
