/-
QV.Model.Stats — model of the streaming statistics of observables:
 * `_update_statistics`                       qucumber/observables/utils.py:36-53   (with the F6 guards)
 * `ObservableBase.statistics_from_samples`   qucumber/observables/observable.py:231-257
 * `ObservableBase.statistics`                qucumber/observables/observable.py:143-229
 * `System.statistics`                        qucumber/observables/system.py:32-126
 * `System.__init__` (dictionary keyed by `obs.name`), `System.statistics_from_samples`   system.py:29-30, 128-150
 * `ObservableBase.sample`                    qucumber/observables/observable.py:115-141
(line numbers as of /repo 28c06be, i.e. after fix F16 = ac95f92, numpy left operand, which added 8 lines to observable.py)

The variance of fewer than two values is `none` (Python: `nan`), never `x / 0`.
`nn_state.sample` is an external, random call: it is a parameter (`Env.samp`, indexed by the call number so that
a recorded run can be replayed); the model produces the exact list of calls made to it.
Import-free apart from `Scalar` and `Hilbert` (for `PyErr`).
-/
import QV.Model.Scalar
import QV.Model.Hilbert
namespace QV
namespace Stats

section numeric
variable {α : Type} [Add α] [Mul α] [Neg α] [Sub α] [Div α] [Zero α] [One α] [Transc α]

/-- left-fold sum of a list (a reduction over a 1-D tensor) -/
def sumList (xs : List α) : α := xs.foldl (fun acc x => acc + x) 0

/-- the dictionary returned by `statistics_from_samples` / `statistics`:
`mean`, `variance`, `std_error`, `num_samples`; `none` is Python's `nan`. -/
structure Stat (α : Type) where
  mean : α
  variance : Option α
  stdError : Option α
  n : Nat

/-- `torch.var_mean(x)[1]`: the mean of a non-empty 1-D tensor. -/
def meanL (xs : List α) : α := sumList xs / Transc.ofNat xs.length

/-- `torch.var_mean(x)[0]` (unbiased): `Σ (x - mean)² / (len - 1)`; `nan` (`none`) for fewer than two values. -/
def uvarL (xs : List α) : Option α :=
  if xs.length > 1 then
    some (sumList (xs.map (fun x => (x - meanL xs) * (x - meanL xs))) / Transc.ofNat (xs.length - 1))
  else none

/-- `np.sqrt(variance / length)` with `nan` propagated. -/
def stdErr (v : Option α) (len : Nat) : Option α := v.map (fun v => Transc.sqrt (v / Transc.ofNat len))

/-- body of `statistics_from_samples` for a non-empty tensor of per-sample values (observable.py:246-257). -/
def statOf (xs : List α) : Stat α :=
  ⟨meanL xs, uvarL xs, stdErr (uvarL xs) xs.length, xs.length⟩

/-- `statistics_from_samples` on the per-sample values `xs = self.apply(nn_state, samples)`:
for an empty batch `variance / len(obs_samples)` is a Python `float / 0` → `ZeroDivisionError`. -/
def fromSamples (xs : List α) : Except PyErr (Stat α) :=
  if xs.isEmpty then .error .ZeroDivisionError else .ok (statOf xs)

/-- `var * (len - 1) if len > 1 else 0.0` (utils.py:46-47) -/
def scaledVar (v : Option α) (len : Nat) : Option α :=
  if len > 1 then v.map (fun v => v * Transc.ofNat (len - 1)) else some 0

/-- `nan`-propagating addition -/
def oadd (a b : Option α) : Option α :=
  match a, b with
  | some x, some y => some (x + y)
  | _, _ => none

/-- `_update_statistics(avg_a, var_a, len_a, avg_b, var_b, len_b)` (utils.py:36-53), operation by operation. -/
def updateStatistics (avgA : α) (varA : Option α) (lenA : Nat) (avgB : α) (varB : Option α) (lenB : Nat) :
    α × Option α × Nat :=
  if lenA == 0 && lenB == 0 then (0, some 0, 0)
  else
    let newLen := lenA + lenB
    let newMean := ((avgA * Transc.ofNat lenA) + (avgB * Transc.ofNat lenB)) / Transc.ofNat newLen
    let delta := avgB - avgA
    let newVar := oadd (scaledVar varA lenA) (scaledVar varB lenB)
    let newVar := oadd newVar (some ((((delta * delta) * Transc.ofNat lenA) * Transc.ofNat lenB) / Transc.ofNat newLen))
    let newVar := if newLen > 1 then newVar.map (fun v => v / Transc.ofNat (newLen - 1)) else none
    (newMean, newVar, newLen)

/-- one iteration's accumulator update in `ObservableBase.statistics` (observable.py:211-220): the chunk's
`mean`/`variance` are merged in with `len_b = num_chains`. -/
def accStep (c : Nat) (acc : α × Option α × Nat) (s : Stat α) : α × Option α × Nat :=
  updateStatistics acc.1 acc.2.1 acc.2.2 s.mean s.variance c

/-- the running triple after all draws, starting from `running_mean = 0.0, running_variance = 0.0, running_length = 0`. -/
def foldStats (c : Nat) (chunks : List (Stat α)) : α × Option α × Nat :=
  chunks.foldl (accStep c) (0, some 0, 0)

/-- the returned dictionary (observable.py:222-229); `running_variance / running_length` with
`running_length = 0` is a Python `float / 0` → `ZeroDivisionError`. -/
def finish (acc : α × Option α × Nat) : Except PyErr (Stat α) :=
  if acc.2.2 == 0 then .error .ZeroDivisionError
  else .ok ⟨acc.1, acc.2.1, stdErr acc.2.1 acc.2.2, acc.2.2⟩

/-- inner loop of `System.statistics` for one draw (system.py:102-112): every observable is merged with
`len_a = total_samples` (the value BEFORE this draw) and `len_b = num_chains`; the third result is discarded. -/
def sysInner (c total : Nat) (accs : List (α × Option α)) (row : List (Stat α)) : List (α × Option α) :=
  List.zipWith (fun a s =>
    let r := updateStatistics a.1 a.2 total s.mean s.variance c
    (r.1, r.2.1)) accs row

/-- one draw of `System.statistics`: inner loop, then `total_samples += num_chains` (system.py:114). -/
def sysStep (c : Nat) (st : List (α × Option α) × Nat) (row : List (Stat α)) : List (α × Option α) × Nat :=
  (sysInner c st.2 st.1 row, st.2 + c)

/-- all draws of `System.statistics` for `m` observables, from `means = variances = 0.0`, `total_samples = 0`. -/
def sysFold (c m : Nat) (rows : List (List (Stat α))) : List (α × Option α) × Nat :=
  rows.foldl (sysStep c) (List.replicate m (0, some 0), 0)

/-- the dictionary comprehension at the end of `System.statistics` (system.py:116-125): one division
`variances[name] / total_samples` per observable. -/
def sysFinish (st : List (α × Option α) × Nat) : Except PyErr (List (Stat α)) :=
  if st.1.isEmpty then .ok []
  else if st.2 == 0 then .error .ZeroDivisionError
  else .ok (st.1.map (fun a => ⟨a.1, a.2, stdErr a.2 st.2, st.2⟩))

end numeric

/-- first failure of a list of results, else all values (evaluation order of a Python loop). -/
def collect {β : Type} : List (Except PyErr β) → Except PyErr (List β)
  | [] => .ok []
  | x :: xs =>
    match x with
    | .error e => .error e
    | .ok b =>
      match collect xs with
      | .error e => .error e
      | .ok bs => .ok (b :: bs)

section schedule
variable {σ : Type}

/-- arguments of one `nn_state.sample(num_samples=…, k=…, initial_state=…, overwrite=…)` call -/
structure SampleCall (σ : Type) where
  numSamples : Nat
  k : Nat
  init : Option σ
  overwrite : Bool

/-- what the statistics loop needs from its environment: the sampler (`samp i call` = tensor returned by the
`i`-th call), `Tensor.clone`, `len(tensor)`. -/
structure Env (σ : Type) where
  samp : Nat → SampleCall σ → σ
  clone : σ → σ
  rows : σ → Nat

/-- arguments of `statistics(nn_state, num_samples, num_chains, burn_in, steps, initial_state, overwrite)` -/
structure Args (σ : Type) where
  numSamples : Nat
  numChains : Nat
  burnIn : Nat
  steps : Nat
  init : Option σ
  overwrite : Bool

/-- chain set-up (observable.py:191-198, system.py:82-89): the starting `chains` object and `num_chains`. -/
def chainSetup (env : Env σ) (a : Args σ) : Option σ × Nat :=
  match a.init with
  | some s => (some (if a.overwrite then s else env.clone s), env.rows s)
  | none => (none, if a.numChains != 0 then min a.numChains a.numSamples else a.numSamples)

/-- `int(np.ceil(num_samples / num_chains))`; Python's `int / 0` raises. -/
def numTimeSteps (numSamples c : Nat) : Except PyErr Nat :=
  if c == 0 then .error .ZeroDivisionError
  else .ok (if numSamples % c == 0 then numSamples / c else numSamples / c + 1)

/-- `burn_in if i == 0 else steps` -/
def gibbsK (burnIn steps i : Nat) : Nat := if i == 0 then burnIn else steps

/-- the sampling calls of the loop `for i in range(num_time_steps)` from iteration `i` on, `rem` iterations left:
each call passes the current `chains` with `overwrite=True` and rebinds `chains` to what it returns. -/
def draws (env : Env σ) (c burnIn steps : Nat) : (rem i : Nat) → Option σ → List (SampleCall σ × σ)
  | 0, _, _ => []
  | rem + 1, i, chains =>
    let call : SampleCall σ := ⟨c, gibbsK burnIn steps i, chains, true⟩
    let st := env.samp i call
    (call, st) :: draws env c burnIn steps rem (i + 1) (some st)

variable {α : Type} [Add α] [Mul α] [Neg α] [Sub α] [Div α] [Zero α] [One α] [Transc α]

/-- `ObservableBase.statistics`: `f st` are the per-sample values `self.apply(nn_state, st)` of the observable on
the chain states `st`. Returns the dictionary and the list of sampler calls made. -/
def obsStatistics (env : Env σ) (f : σ → List α) (a : Args σ) : Except PyErr (Stat α × List (SampleCall σ)) :=
  let (chains0, c) := chainSetup env a
  match numTimeSteps a.numSamples c with
  | .error e => .error e
  | .ok T =>
    let ds := draws env c a.burnIn a.steps T 0 chains0
    match collect (ds.map (fun d => fromSamples (f d.2))) with
    | .error e => .error e
    | .ok chunks =>
      match finish (foldStats c chunks) with
      | .error e => .error e
      | .ok s => .ok (s, ds.map (·.1))

/-- `System.statistics` for the observables `fs` (in dictionary order). -/
def sysStatistics (env : Env σ) (fs : List (σ → List α)) (a : Args σ) :
    Except PyErr (List (Stat α) × List (SampleCall σ)) :=
  let (chains0, c) := chainSetup env a
  match numTimeSteps a.numSamples c with
  | .error e => .error e
  | .ok T =>
    let ds := draws env c a.burnIn a.steps T 0 chains0
    match collect (ds.map (fun d => collect (fs.map (fun f => fromSamples (f d.2))))) with
    | .error e => .error e
    | .ok rows =>
      match sysFinish (sysFold c fs.length rows) with
      | .error e => .error e
      | .ok ss => .ok (ss, ds.map (·.1))

/-- `ObservableBase.sample(nn_state, k, num_samples, initial_state, overwrite)` (observable.py:115-141): ONE sampler
call that receives exactly the caller's four arguments, and the observable applied to the tensor it returns. -/
def obsSample (env : Env σ) (f : σ → List α) (k numSamples : Nat) (init : Option σ) (overwrite : Bool) :
    List α × SampleCall σ :=
  let call : SampleCall σ := ⟨numSamples, k, init, overwrite⟩
  (f (env.samp 0 call), call)

end schedule

/-! ### `System`: the dictionary of observables keyed by name -/

section system_dict
variable {κ β : Type} [BEq κ]

/-- `d[k] = v` on an insertion-ordered Python `dict`: an existing key keeps its position and takes the new value,
a new key is appended. -/
def dictSet (d : List (κ × β)) (k : κ) (v : β) : List (κ × β) :=
  if d.any (fun e => e.1 == k) then d.map (fun e => if e.1 == k then (e.1, v) else e) else d ++ [(k, v)]

/-- `System.__init__` (system.py:29-30): `self.observables = {obs.name: obs for obs in observables}` — observables
with the same `name` collapse to ONE entry (the last one, at the position of the first). -/
def systemInit (obs : List (κ × β)) : List (κ × β) := obs.foldl (fun d o => dictSet d o.1 o.2) []

variable {σ : Type} {α : Type} [Add α] [Mul α] [Neg α] [Sub α] [Div α] [Zero α] [One α] [Transc α]

/-- `System(*observables).statistics(...)` for named observables `(obs.name, per-sample values of obs)`: the
returned dictionary `name ↦ {mean, variance, std_error, num_samples}` in dictionary order, and the sampler calls. -/
def systemStatistics (env : Env σ) (obs : List (κ × (σ → List α))) (a : Args σ) :
    Except PyErr (List (κ × Stat α) × List (SampleCall σ)) :=
  let d := systemInit obs
  match sysStatistics env (d.map (·.2)) a with
  | .error e => .error e
  | .ok r => .ok ((d.map (·.1)).zip r.1, r.2)

/-- `System.statistics_from_samples(nn_state, samples)` (system.py:128-150): one `statistics_from_samples` per
dictionary entry, in dictionary order; the first failure propagates. -/
def systemFromSamples (obs : List (κ × (σ → List α))) (samples : σ) : Except PyErr (List (κ × Stat α)) :=
  collect ((systemInit obs).map (fun o =>
    match fromSamples (o.2 samples) with
    | .error e => .error e
    | .ok s => .ok (o.1, s)))

end system_dict
end Stats
end QV
