/-
QV.Model.StoreLoc — the LOCATION forms of save / load / autoload and of the model-saving callback (C11, extension round 2).

`QV.Model.Store` is location-form agnostic (`path ↦ file`).  This module models what the code does when the
location is an OPEN FILE OBJECT, and where `ModelSaver` puts its files:

  * a stream = the bytes of an open binary file object as a list of back-to-back segments (a `torch.save`
    archive, or bytes that are no checkpoint: a header the caller wrote) plus the current position;
    `torch.load(fileobj)` reads ONE archive starting at the current position and advances; `torch.save(obj, fileobj)`
    writes one archive at the current position;
  * `NeuralStateBase.save(fileobj, metadata)` (neural_state.py:199-226), `NeuralStateBase.load(fileobj)` (228-246),
    `<Kind>.autoload(fileobj)` with the remember-and-rewind step `start = location.tell()` … `location.seek(start)`
    (positive_wavefunction.py:232-245, complex_wavefunction.py:258-272, density_matrix.py:375-390; fix F21);
  * `ModelSaver.__init__` (callbacks/model_saver.py:51-69: `Path(folder_path)`, `mkdir(parents=True, exist_ok=True)`,
    `resolve()`), `_save` (71-82, including the fall-through when `metadata` is neither callable, dict nor None),
    `on_train_start` / `on_epoch_end` (84-92: `os.path.join(self.path, self.file_name.format(epoch))`).
Import-free (only `QV.Model.Store`).
-/
import QV.Model.Store
namespace QV.Store

/-! ### streams: open binary file objects -/

/-- one segment of the bytes of a file object: `size` bytes holding one `torch.save` archive (`data = some file`)
or bytes that are not a checkpoint (`none`: a header the caller wrote, the remains of an overwritten archive) -/
structure Rec where
  size : Nat
  data : Option File
  deriving Repr, Inhabited

/-- an open, seekable binary file object: its bytes as back-to-back segments and the current position (`tell()`) -/
structure Stream where
  recs : List Rec
  pos : Nat
  deriving Repr, Inhabited

/-- number of bytes of a list of segments -/
def totalSize : List Rec → Nat
  | [] => 0
  | r :: rs => r.size + totalSize rs

/-- byte offset at which segment `k` starts (a "checkpoint boundary") -/
def offset (rs : List Rec) (k : Nat) : Nat := totalSize (rs.take k)

/-- the segment that STARTS at byte position `p`, if `p` is the start of a segment -/
def recAt : List Rec → Nat → Option Rec
  | [], _ => none
  | r :: rest, p => if p = 0 then some r else if p < r.size then none else recAt rest (p - r.size)

/-- `location.tell()` -/
def Stream.tell (s : Stream) : Nat := s.pos

/-- `location.seek(p)` -/
def Stream.seek (s : Stream) (p : Nat) : Stream := { s with pos := p }

/-- `torch.load(fileobj)`: reads ONE archive starting at the current position and leaves the object positioned behind it;
a position that is not the start of an archive is refused (`UnpicklingError` / `RuntimeError` / `EOFError` in torch:
one kind here, `RuntimeError`).  The archive format is trusted to be self-delimiting; which offsets the INSTALLED torch can
in fact read when further data follows is probed by the harness. -/
def torchLoadS (s : Stream) : Except SErr (File × Stream) :=
  match recAt s.recs s.pos with
  | some ⟨sz, some f⟩ => .ok (f, { s with pos := s.pos + sz })
  | _ => .error .RuntimeError

/-- the segments lying entirely in front of byte position `p`, and the number of bytes they cover -/
def keepBefore : List Rec → Nat → List Rec × Nat
  | [], _ => ([], 0)
  | r :: rest, p =>
    if r.size ≤ p then
      let q := keepBefore rest (p - r.size)
      (r :: q.1, r.size + q.2)
    else ([], 0)

/-- `fileobj.write(bytes)` / `torch.save(obj, fileobj)` of `size` bytes at the current position: the segments in front of
the position stay as they are; bytes between them and the position (the head of a partly overwritten segment, or the
zero fill behind the old end) are no checkpoint; then the new segment; whatever older bytes remain behind it are no longer
known to be a checkpoint.  The object is left positioned behind what was written. -/
def writeS (s : Stream) (size : Nat) (data : Option File) : Stream :=
  let k := keepBefore s.recs s.pos
  let gap := s.pos - k.2
  let tot := totalSize s.recs
  let front := if gap = 0 then k.1 else k.1 ++ [⟨gap, none⟩]
  let back : List Rec := if s.pos + size < tot then [⟨tot - (s.pos + size), none⟩] else []
  { recs := front ++ ⟨size, data⟩ :: back, pos := s.pos + size }

/-- `NeuralStateBase.save(fileobj, metadata)` (neural_state.py:199-226): everything up to the last statement is the
path-form `save` (metadata copy, reserved names, `state_dict()`s, `**metadata`); the last statement `torch.save(data, location)`
writes the archive (of `size` bytes: a function of the data the model does not compute) at the object's CURRENT position.
A refused save has not reached `torch.save`: the object is untouched. -/
def saveStream (h : Heap) (s : Stream) (st : NState) (md : Option ObjId) (size : Nat) : Except SErr (Stream × Heap) :=
  match save h (fun _ => none) st md 0 with
  | .error e => .error e
  | .ok (fs', h') =>
    match fs' 0 with
    | some file => .ok (writeS s size (some file), h')
    | none => .error .RuntimeError

/-- `NeuralStateBase.load(fileobj)` (neural_state.py:228-246): `torch.load(location)` reads the archive at the current
position, then the networks and the unitary dictionary are installed exactly as for a path. -/
def loadStream (h : Heap) (s : Stream) (st : NState) : Heap × NState × Stream × Option SErr :=
  match torchLoadS s with
  | .error e => (h, st, s, some e)
  | .ok (file, s') =>
    let r := load h (fun _ => some file) st 0
    (r.1, r.2.1, s', r.2.2)

/-- `<Kind>.autoload(fileobj)` with the remember-and-rewind step as a parameter:
```
start = location.tell() if hasattr(location, "seek") else None
state_dict = torch.load(location)            # first read: sizes, unitary_dict
obj = Kind(…sizes read from state_dict…)
if start is not None: location.seek(start)    # `rewind start`
obj.load(location)                            # second read
```
`rewind = some` is the code as it is (F21 fix); `fun _ => some 0` rewinds to the start of the FILE (mutant class M4_C11_2);
`fun _ => none` is the code before the fix (no rewind: the second read starts behind the archive). -/
def autoloadStreamWith (rewind : Nat → Option Nat) (h : Heap) (s : Stream) (kind : Kind) (rand : List (List Tok)) :
    Except SErr (Heap × NState × Stream) :=
  let start := s.tell
  match torchLoadS s with
  | .error e => .error e
  | .ok (file, s1) =>
    match autoloadArgs file kind with
    | .error e => .error e
    | .ok (ud, nv, nh, na) =>
      let c := constructSizes h kind nv (some nh) na ud rand
      let s2 := match rewind start with
        | some p => s1.seek p
        | none => s1
      let r := loadStream c.1 s2 c.2
      match r.2.2.2 with
      | some e => .error e
      | none => .ok (r.1, r.2.1, r.2.2.1)

/-- `<Kind>.autoload(fileobj)` as it now is -/
def autoloadStream := autoloadStreamWith some

/-! ### the history machine with file objects -/

/-- a world whose caller also holds open file objects -/
structure SWorld where
  w : World
  streams : Nat → Option Stream

def SWorld.empty : SWorld := ⟨World.empty, fun _ => none⟩

inductive SOp where
  /-- an operation that does not involve a file object -/
  | base (op : Op)
  /-- `open(p, "w+b")` / `io.BytesIO()`: a new, empty file object -/
  | openS (sid : Nat)
  /-- the caller writes `n` bytes of his own (a header) at the current position -/
  | writeHdr (sid : Nat) (n : Nat)
  /-- `fileobj.seek(pos)` -/
  | seekS (sid : Nat) (pos : Nat)
  /-- `state.save(fileobj, metadata)`; `size`: length of the archive -/
  | saveS (slot : Nat) (md : Option Nat) (sid : Nat) (size : Nat)
  /-- `state.load(fileobj)` -/
  | loadS (slot : Nat) (sid : Nat)
  /-- `state = Kind.autoload(fileobj)` -/
  | autoloadS (slot : Nat) (kind : Kind) (sid : Nat) (rand : List (List Tok))

/-- one operation.  (Where a refused `load` / `autoload` leaves the file object is not modelled: the stream is kept.) -/
def sstep (sw : SWorld) : SOp → SWorld × Option SErr
  | .base op => let r := step sw.w op; ({ sw with w := r.1 }, r.2)
  | .openS sid => ({ sw with streams := upd sw.streams sid ⟨[], 0⟩ }, none)
  | .writeHdr sid n =>
    match sw.streams sid with
    | none => (sw, some unbound)
    | some s => ({ sw with streams := upd sw.streams sid (writeS s n none) }, none)
  | .seekS sid pos =>
    match sw.streams sid with
    | none => (sw, some unbound)
    | some s => ({ sw with streams := upd sw.streams sid (s.seek pos) }, none)
  | .saveS slot md sid size =>
    match sw.w.states slot, sw.streams sid with
    | some st, some s =>
      let mdE : Except SErr (Option ObjId) := match md with
        | none => .ok none
        | some m => match sw.w.metas m with
          | none => .error unbound
          | some id => .ok (some id)
      match mdE with
      | .error e => (sw, some e)
      | .ok mdId =>
        match saveStream sw.w.heap s st mdId size with
        | .error e => (sw, some e)
        | .ok r => ({ w := { sw.w with heap := r.2 }, streams := upd sw.streams sid r.1 }, none)
    | _, _ => (sw, some unbound)
  | .loadS slot sid =>
    match sw.w.states slot, sw.streams sid with
    | some st, some s =>
      let r := loadStream sw.w.heap s st
      ({ w := { sw.w with heap := r.1, states := upd sw.w.states slot r.2.1 },
         streams := upd sw.streams sid r.2.2.1 }, r.2.2.2)
    | _, _ => (sw, some unbound)
  | .autoloadS slot kind sid rand =>
    match sw.streams sid with
    | none => (sw, some unbound)
    | some s =>
      match autoloadStream sw.w.heap s kind rand with
      | .error e => (sw, some e)
      | .ok r => ({ w := { sw.w with heap := r.1, states := upd sw.w.states slot r.2.1 },
                    streams := upd sw.streams sid r.2.2 }, none)

def srun (sw : SWorld) : List SOp → SWorld
  | [] => sw
  | op :: ops => srun (sstep sw op).1 ops

/-- the worlds (and errors) after each operation (what the driver prints) -/
def strace (sw : SWorld) : List SOp → List (SWorld × Option SErr)
  | [] => []
  | op :: ops => let r := sstep sw op; r :: strace r.1 ops

/-! ### where `ModelSaver` writes -/

/-- error kinds of the path / format / metadata handling of `ModelSaver` -/
inductive PErr where
  | FileExistsError | NotADirectoryError | IndexError | KeyError | ValueError | ZeroDivisionError | UnboundLocalError
  /-- an error raised by `NeuralStateBase.save` -/
  | inner (e : SErr)
  deriving DecidableEq, Repr, Inhabited

def PErr.toString : PErr → String
  | .FileExistsError => "FileExistsError" | .NotADirectoryError => "NotADirectoryError" | .IndexError => "IndexError"
  | .KeyError => "KeyError" | .ValueError => "ValueError" | .ZeroDivisionError => "ZeroDivisionError"
  | .UnboundLocalError => "UnboundLocalError" | .inner e => e.toString

/-- a directory path as the caller writes it: absolute or relative to the working directory; components may be
`"."`, `""` (doubled slash) and `".."` -/
structure PathArg where
  isAbs : Bool
  comps : List String
  deriving DecidableEq, Repr, Inhabited

/-- a component that names no directory level -/
def isDot (c : String) : Bool := c == "." || c == ""

/-- lexical normalisation (`Path.resolve()` on a tree without symbolic links): `.` and empty components dropped, `..` removes
the level before it (at the root it stays at the root).  `acc`: the levels so far, innermost first. -/
def normComps : List String → List String → List String
  | acc, [] => acc.reverse
  | acc, c :: rest =>
    if isDot c then normComps acc rest
    else if c == ".." then normComps acc.tail rest
    else normComps (c :: acc) rest

/-- the absolute, normalised directory a path denotes while the working directory is `cwd` (`Path(p).resolve()`; also what
the operating system does with a relative path handed to `open`) -/
def resolvePath (cwd : List String) (p : PathArg) : List String :=
  normComps [] ((if p.isAbs then [] else cwd) ++ p.comps)

/-- which absolute paths exist: `some true` a directory, `some false` a regular file, `none` nothing -/
abbrev DirFs := List String → Option Bool

/-- `Path.mkdir(parents=True, exist_ok=True)` on the levels `pre/c₁/…/cₖ`: every level that exists as a directory is kept, a
missing one is created, a level that exists as a regular file refuses the call (`FileExistsError` for the last level,
`NotADirectoryError` for a parent). -/
def mkdirAll (fs : DirFs) (pre : List String) : List String → Except PErr DirFs
  | [] => .ok fs
  | c :: rest =>
    match fs (pre ++ [c]) with
    | some false => .error (if rest.isEmpty then .FileExistsError else .NotADirectoryError)
    | _ => mkdirAll (fun q => if q = pre ++ [c] then some true else fs q) (pre ++ [c]) rest

/-- a piece of a `str.format` template -/
inductive Seg where
  | lit (s : String)
  /-- `{}` -/
  | auto
  /-- `{n}` -/
  | idx (n : Nat)
  /-- `{name}` -/
  | named (s : String)
  deriving DecidableEq, Repr, Inhabited

/-- the one argument `file_name.format(·)` is called with: an epoch number or the word "initial" -/
inductive EpochArg where
  | num (e : Nat)
  | initial
  deriving DecidableEq, Repr, Inhabited

def EpochArg.str : EpochArg → String
  | .num e => toString e
  | .initial => "initial"

/-- `template.format(arg)` with ONE positional argument, left to right: literal text is copied; the first `{}` / every `{0}` is
the argument; a second `{}` or `{n}` with n ≥ 1 → `IndexError`; `{name}` → `KeyError`; mixing `{}` with `{n}` → `ValueError`.
State: text so far, number of `{}` seen, whether a `{n}` was seen. -/
def formatGo (a : String) : List Seg → String → Nat → Bool → Except PErr String
  | [], out, _, _ => .ok out
  | .lit s :: rest, out, na, ui => formatGo a rest (out ++ s) na ui
  | .auto :: rest, out, na, ui =>
    if ui then .error .ValueError
    else if na = 0 then formatGo a rest (out ++ a) 1 ui
    else .error .IndexError
  | .idx n :: rest, out, na, _ =>
    if na ≠ 0 then .error .ValueError
    else if n = 0 then formatGo a rest (out ++ a) na true
    else .error .IndexError
  | .named _ :: _, _, _, _ => .error .KeyError

def formatName (t : List Seg) (a : EpochArg) : Except PErr String := formatGo a.str t "" 0 false

/-- the attributes of a `ModelSaver` that decide WHERE and WHEN it writes -/
structure PSaver where
  period : Nat
  /-- `self.path` -/
  path : PathArg
  fileName : List Seg
  saveInitial : Bool
  deriving Repr, Inhabited

/-- `ModelSaver.__init__` (model_saver.py:59-69) run while the working directory is `cwd`: the folder is created (with its
parents; an existing directory is fine, a regular file in the way refuses the construction) and `self.path` becomes the
RESOLVED, absolute folder.  `resolveAtInit = false` is the variant that keeps the path as written (mutant class M5_C11_1). -/
def PSaver.init (resolveAtInit : Bool) (fs : DirFs) (cwd : List String) (period : Nat) (folder : PathArg)
    (fileName : List Seg) (saveInitial : Bool) : Except PErr (PSaver × DirFs) :=
  match mkdirAll fs [] (resolvePath cwd folder) with
  | .error e => .error e
  | .ok fs' =>
    .ok (⟨period, if resolveAtInit then ⟨true, resolvePath cwd folder⟩ else folder, fileName, saveInitial⟩, fs')

/-- `os.path.join(self.path, self.file_name.format(arg))` as the operating system resolves it while the working directory is
`cwdNow`: (absolute directory, file name).  (File names without path separators.) -/
def PSaver.target (s : PSaver) (cwdNow : List String) (a : EpochArg) : Except PErr (List String × String) :=
  match formatName s.fileName a with
  | .error e => .error e
  | .ok name => .ok (resolvePath cwdNow s.path, name)

/-- `on_epoch_end(nn_state, epoch)`: `if epoch % self.period == 0:` write to the target of `epoch` -/
def PSaver.epochEndTarget (s : PSaver) (cwdNow : List String) (epoch : Nat) : Except PErr (Option (List String × String)) :=
  if s.period = 0 then .error .ZeroDivisionError
  else if epoch % s.period = 0 then
    match s.target cwdNow (.num epoch) with
    | .error e => .error e
    | .ok t => .ok (some t)
  else .ok none

/-- `on_train_start(nn_state)`: `if self.save_initial:` write to the target of the word "initial" -/
def PSaver.trainStartTarget (s : PSaver) (cwdNow : List String) : Except PErr (Option (List String × String)) :=
  if s.saveInitial then
    match s.target cwdNow .initial with
    | .error e => .error e
    | .ok t => .ok (some t)
  else .ok none

/-- the `metadata` argument of `ModelSaver` in every form: the three documented ones, or any other object -/
inductive MetaArg where
  | absent
  | dict (id : ObjId)
  | callable (entries : MDict)
  /-- neither callable, nor a `dict`, nor `None` (a list, a number, a string …) -/
  | other

/-- `ModelSaver._save` (model_saver.py:71-82) for every form of `self.metadata`: the `if callable / elif dict / elif None` chain
has no `else`, so for another object the name `metadata` is never bound and the next statement (either branch of
`if self.metadata_only`) raises `UnboundLocalError` before anything is written. -/
def saverSaveArg (h : Heap) (fs : Files) (st : NState) (m : MetaArg) (metadataOnly : Bool) (path : Nat) :
    Except PErr (Files × Heap) :=
  let lift (r : Except SErr (Files × Heap)) : Except PErr (Files × Heap) :=
    match r with
    | .error e => .error (.inner e)
    | .ok x => .ok x
  match m with
  | .absent => lift (saverSave h fs st .absent metadataOnly path)
  | .dict id => lift (saverSave h fs st (.dict id) metadataOnly path)
  | .callable es => lift (saverSave h fs st (.callable es) metadataOnly path)
  | .other => .error .UnboundLocalError

end QV.Store
