/-
QV.Model.States — model of the three neural-state classes:
`WaveFunctionBase`/`PositiveWaveFunction`/`ComplexWaveFunction`
(qucumber/nn_states/{wavefunction,positive_wavefunction,complex_wavefunction}.py),
`DensityMatrix` (qucumber/nn_states/density_matrix.py) and the parts of
`NeuralStateBase` (neural_state.py) that are pure functions of the parameters.
-/
import QV.Model.Rbm
import QV.Model.Hilbert
import QV.Model.CallShape
namespace QV

variable {α : Type} [Add α] [Mul α] [Neg α] [Sub α] [Div α] [Zero α] [One α] [Transc α]

/-- real-pair complex number `(re, im)` as `cplx.make_complex` stores it. -/
abbrev CPair (α : Type) := α × α

namespace Wave
variable {n h : Nat}

/-- `WaveFunctionBase.amplitude`: `(-E_λ(v)).exp().sqrt()` -/
def amplitude (am : RBM α n h) (v : Fin n → α) : α :=
  Transc.sqrt (Transc.exp (-(am.effEnergy v)))

/-- `ComplexWaveFunction.phase`: `-0.5 * E_μ(v)` -/
def phase (ph : RBM α n h) (v : Fin n → α) : α := (-(1 / two)) * ph.effEnergy v

/-- `PositiveWaveFunction.psi`: `make_complex(amplitude)` (imaginary part `zeros_like`). -/
def psiPos (am : RBM α n h) (v : Fin n → α) : CPair α := (amplitude am v, 0)

/-- `WaveFunctionBase.psi` for the complex state: `amplitude * (cos, sin)(phase)`. -/
def psiCplx (am ph : RBM α n h) (v : Fin n → α) : CPair α :=
  (amplitude am v * Transc.cos (phase ph v), amplitude am v * Transc.sin (phase ph v))

/-- `NeuralStateBase.probability(v, Z)`: `exp(-E_λ(v)) / Z` -/
def probability (am : RBM α n h) (v : Fin n → α) (Z : α) : α :=
  Transc.exp (-(am.effEnergy v)) / Z

/-- `normalization(space)` = `rbm_am.partition(space)` -/
def normalization (am : RBM α n h) {N : Nat} (space : Fin N → Fin n → α) : α := am.partition space

/-! ### the public methods on TENSORS (vector `(n,)`, batch `(B, n)`, rank-3 `(B1, B2, n)` arguments): the shape side.
`rbm_am.effective_energy` carries `@auto_unsqueeze_args()` (`RBM.effectiveEnergy`); everything else is elementwise on its
result, except `PositiveWaveFunction.phase`, which is decorated itself and builds its result from `v.shape[0]`. -/

/-- `PositiveWaveFunction.phase(v)` for one visible state: zero (positive_wavefunction.py:94-106) -/
def phasePos (_v : Fin n → α) : α := 0

/-- `WaveFunctionBase.amplitude(v)` on a tensor (wavefunction.py:33-45): `(-rbm_am.effective_energy(v)).exp().sqrt()` -/
def amplitudeCall (am : RBM α n h) (v : FT (Fin n → α)) : Except PyErr (FT α) :=
  (am.effectiveEnergy v).map (FT.map fun e => Transc.sqrt (Transc.exp (-e)))

/-- `ComplexWaveFunction.phase(v)` on a tensor (complex_wavefunction.py:130-143): `-0.5 * rbm_ph.effective_energy(v)` -/
def phaseCall (ph : RBM α n h) (v : FT (Fin n → α)) : Except PyErr (FT α) :=
  (ph.effectiveEnergy v).map (FT.map fun e => (-(1 / two)) * e)

/-- `PositiveWaveFunction.phase(v)` on a tensor (positive_wavefunction.py:94-106): `@auto_unsqueeze_args()` around
`torch.zeros(v.shape[0])` — ONE leading axis of the (unsqueezed) argument, whatever its rank: for a rank-3 argument
`(B1, B2, n)` the result is `(B1,)`, not `(B1, B2)` (scope note C01-1; `psi` of the positive state never calls it) -/
def phasePosCall (v : FT (Fin n → α)) : Except PyErr (FT α) :=
  autoUnsqueeze1 (fun w : FT (Fin n → α) =>
    match w.shape with
    | B :: _ => .ok ⟨[B], fun idx => phasePos (w.get [idx.headD 0])⟩
    | [] => .ok ⟨[n], fun _ => 0⟩) v

/-- `WaveFunctionBase.psi(v)` (wavefunction.py:62-81): `amplitude, phase = self.amplitude(v), self.phase(v)`, then
`make_complex(amplitude * phase.cos(), amplitude * phase.sin())` (elementwise, broadcasting), for a given `phase` method -/
def psiBase (am : RBM α n h) (phaseM : FT (Fin n → α) → Except PyErr (FT α)) (v : FT (Fin n → α)) :
    Except PyErr (FT (CPair α)) :=
  FT.bzipE (fun x p => (x * Transc.cos p, x * Transc.sin p)) (amplitudeCall am v) (phaseM v)

/-- `ComplexWaveFunction.psi(v)` = the base-class method with `ComplexWaveFunction.phase` -/
def psiCplxCall (am ph : RBM α n h) : FT (Fin n → α) → Except PyErr (FT (CPair α)) := psiBase am (phaseCall ph)

/-- the OVERRIDE `PositiveWaveFunction.psi(v)` (positive_wavefunction.py:108-124): `make_complex(self.amplitude(v))`
(imaginary part `zeros_like`) -/
def psiPosCall (am : RBM α n h) (v : FT (Fin n → α)) : Except PyErr (FT (CPair α)) :=
  (amplitudeCall am v).map (FT.map fun x => (x, 0))

/-- `NeuralStateBase.probability(v, Z)` on a tensor (neural_state.py:90-105): `(-rbm_am.effective_energy(v)).exp() / Z` -/
def probabilityCall (am : RBM α n h) (v : FT (Fin n → α)) (Z : α) : Except PyErr (FT α) :=
  (am.effectiveEnergy v).map (FT.map fun e => Transc.exp (-e) / Z)

end Wave

namespace Density
variable {n h a : Nat}

/-- argument `x_k` of the auxiliary trace: `((U_λ v + d_λ) + (U_λ v' + d_λ))/2` -/
def piArgRe (am : PRBM α n h a) (v vp : Fin n → α) (k : Fin a) : α :=
  (am.preactA v k + am.preactA vp k) / two

/-- argument `y_k`: `(U_μ v − U_μ v')/2` — the phase network's auxiliary bias is NOT used -/
def piArgIm (ph : PRBM α n h a) (v vp : Fin n → α) (k : Fin a) : α :=
  (sumFin n (fun j => v j * ph.U k j) - sumFin n (fun j => vp j * ph.U k j)) / two

/-- one auxiliary unit's contribution to `Re Π`: `log sqrt(1 + 2 e^x cos y + e^{2x})` -/
def piRe1 (x y : α) : α :=
  Transc.log (Transc.sqrt (1 + two * Transc.exp x * Transc.cos y + Transc.exp (two * x)))

/-- one auxiliary unit's contribution to `Im Π`: `atan2(e^x sin y, 1 + e^x cos y)` -/
def piIm1 (x y : α) : α :=
  Transc.atan2 (Transc.exp x * Transc.sin y) (1 + Transc.exp x * Transc.cos y)

/-- `DensityMatrix.pi(v, vp)` -/
def pi (am ph : PRBM α n h a) (v vp : Fin n → α) : CPair α :=
  (sumFin a (fun k => piRe1 (piArgRe am v vp k) (piArgIm ph v vp k)),
   sumFin a (fun k => piIm1 (piArgRe am v vp k) (piArgIm ph v vp k)))

/-- `DensityMatrix.rho(v, vp)`: `exp(Γ⁺_λ + Re Π) · (cos, sin)(Γ⁻_μ + Im Π)` -/
def rho (am ph : PRBM α n h a) (v vp : Fin n → α) : CPair α :=
  let p := pi am ph v vp
  let amp := Transc.exp (am.gamma 1 v vp + p.1)
  let phs := ph.gamma (-1) v vp + p.2
  (amp * Transc.cos phs, amp * Transc.sin phs)

/-- `probability(v, Z)` of the mixed state: `exp(-E_λ(v))/Z` with the traced effective energy -/
def probability (am : PRBM α n h a) (v : Fin n → α) (Z : α) : α :=
  Transc.exp (-(am.effEnergy v)) / Z

/-- `rho(v, expand=False)` with `vp=None`: `make_complex(probability(v))` -/
def rhoDiag (am : PRBM α n h a) (v : Fin n → α) : CPair α := (probability am v 1, 0)

def normalization (am : PRBM α n h a) {N : Nat} (space : Fin N → Fin n → α) : α := am.partition space

end Density
end QV
