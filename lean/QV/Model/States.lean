/-
QV.Model.States — model of the three neural-state classes:
`WaveFunctionBase`/`PositiveWaveFunction`/`ComplexWaveFunction`
(qucumber/nn_states/{wavefunction,positive_wavefunction,complex_wavefunction}.py),
`DensityMatrix` (qucumber/nn_states/density_matrix.py) and the parts of
`NeuralStateBase` (neural_state.py) that are pure functions of the parameters.
-/
import QV.Model.Rbm
import QV.Model.Hilbert
namespace QV

variable {α : Type} [Add α] [Mul α] [Neg α] [Sub α] [Div α] [Zero α] [One α] [Transc α]

/-- real-pair complex number `(re, im)` as `cplx.make_complex` stores it. -/
abbrev CPair (α : Type) := α × α

namespace Wave
variable {n h : Nat}

/-- `WaveFunctionBase.amplitude`: `(-E_λ(v)).exp().sqrt()` -/
def amplitude (am : RBM α n h) (v : Fin n → α) : α :=
  Transc.sqrt (Transc.exp (-(am.effEnergy v)))

/-- `ComplexWaveFunction.phase`: `-0.5 * E_μ(v)` -/
def phase (ph : RBM α n h) (v : Fin n → α) : α := (-(1 / two)) * ph.effEnergy v

/-- `PositiveWaveFunction.psi`: `make_complex(amplitude)` (imaginary part `zeros_like`). -/
def psiPos (am : RBM α n h) (v : Fin n → α) : CPair α := (amplitude am v, 0)

/-- `WaveFunctionBase.psi` for the complex state: `amplitude * (cos, sin)(phase)`. -/
def psiCplx (am ph : RBM α n h) (v : Fin n → α) : CPair α :=
  (amplitude am v * Transc.cos (phase ph v), amplitude am v * Transc.sin (phase ph v))

/-- `NeuralStateBase.probability(v, Z)`: `exp(-E_λ(v)) / Z` -/
def probability (am : RBM α n h) (v : Fin n → α) (Z : α) : α :=
  Transc.exp (-(am.effEnergy v)) / Z

/-- `normalization(space)` = `rbm_am.partition(space)` -/
def normalization (am : RBM α n h) {N : Nat} (space : Fin N → Fin n → α) : α := am.partition space

end Wave

namespace Density
variable {n h a : Nat}

/-- argument `x_k` of the auxiliary trace: `((U_λ v + d_λ) + (U_λ v' + d_λ))/2` -/
def piArgRe (am : PRBM α n h a) (v vp : Fin n → α) (k : Fin a) : α :=
  (am.preactA v k + am.preactA vp k) / two

/-- argument `y_k`: `(U_μ v − U_μ v')/2` — the phase network's auxiliary bias is NOT used -/
def piArgIm (ph : PRBM α n h a) (v vp : Fin n → α) (k : Fin a) : α :=
  (sumFin n (fun j => v j * ph.U k j) - sumFin n (fun j => vp j * ph.U k j)) / two

/-- one auxiliary unit's contribution to `Re Π`: `log sqrt(1 + 2 e^x cos y + e^{2x})` -/
def piRe1 (x y : α) : α :=
  Transc.log (Transc.sqrt (1 + two * Transc.exp x * Transc.cos y + Transc.exp (two * x)))

/-- one auxiliary unit's contribution to `Im Π`: `atan2(e^x sin y, 1 + e^x cos y)` -/
def piIm1 (x y : α) : α :=
  Transc.atan2 (Transc.exp x * Transc.sin y) (1 + Transc.exp x * Transc.cos y)

/-- `DensityMatrix.pi(v, vp)` -/
def pi (am ph : PRBM α n h a) (v vp : Fin n → α) : CPair α :=
  (sumFin a (fun k => piRe1 (piArgRe am v vp k) (piArgIm ph v vp k)),
   sumFin a (fun k => piIm1 (piArgRe am v vp k) (piArgIm ph v vp k)))

/-- `DensityMatrix.rho(v, vp)`: `exp(Γ⁺_λ + Re Π) · (cos, sin)(Γ⁻_μ + Im Π)` -/
def rho (am ph : PRBM α n h a) (v vp : Fin n → α) : CPair α :=
  let p := pi am ph v vp
  let amp := Transc.exp (am.gamma 1 v vp + p.1)
  let phs := ph.gamma (-1) v vp + p.2
  (amp * Transc.cos phs, amp * Transc.sin phs)

/-- `probability(v, Z)` of the mixed state: `exp(-E_λ(v))/Z` with the traced effective energy -/
def probability (am : PRBM α n h a) (v : Fin n → α) (Z : α) : α :=
  Transc.exp (-(am.effEnergy v)) / Z

/-- `rho(v, expand=False)` with `vp=None`: `make_complex(probability(v))` -/
def rhoDiag (am : PRBM α n h a) (v : Fin n → α) : CPair α := (probability am v 1, 0)

def normalization (am : PRBM α n h a) {N : Nat} (space : Fin N → Fin n → α) : α := am.partition space

end Density
end QV
