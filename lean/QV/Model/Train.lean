/-
QV.Model.Train — `NeuralStateBase.fit` (qucumber/nn_states/neural_state.py:500-636) as a pure state
machine producing a log, together with `CallbackList` dispatch
(qucumber/callbacks/callback_list.py:60-82) and `Timer` (qucumber/callbacks/timer.py).

The numeric content of a batch update (gradients, optimizer rule) is NOT modelled here (C06/C03);
an update is the log entry `optStep e b` and a bump of the parameter-version counter.
User callbacks are arbitrary Python; the only thing `fit` reads back from them is the sticky
`stop_training` flag, so they are modelled by `Req.cb i ev` = "callback `i` sets
`nn_state.stop_training = True` while it handles `ev`", and `Req.mid e b` = "the flag is set between
`on_batch_start` and `on_batch_end` of batch `(e,b)`" (e.g. from inside a wrapped
`compute_batch_gradients` / optimizer). Every event occurs at most once in a run, so this is
fully general for deterministic callbacks.

The second half (`CbArg`, `batchesPerEpoch`, `Args`, `fitArgs`, `session`) models how the arguments the
caller passes determine the configuration (`callbacks=` container forms, number of zipped batches per
epoch from `N`, `pos_batch_size`, `neg_batch_size`, bases) and several consecutive `fit` calls on the
same object (only the flag survives a call).
-/
import QV.Model.Batching
namespace QV.Train

/-- The six callback events (`CallbackBase.on_*`, qucumber/callbacks/callback.py). -/
inductive Event where
  | trainStart
  | epochStart (e : Int)
  | batchStart (e : Int) (b : Nat)
  | batchEnd (e : Int) (b : Nat)
  | epochEnd (e : Int)
  | trainEnd
  deriving DecidableEq, Repr, Inhabited

/-- Lines printed by `Timer(verbose=True)` (timer.py:36-57); the elapsed time itself is not modelled. -/
inductive TimerMsg where
  | terminatedBatch (e : Int) (b : Nat)   -- "Training terminated at epoch: e, batch: b"
  | terminatedEpoch (e : Int)             -- "Training terminated at epoch: e"
  | total                                 -- "Total time elapsed during training: …"
  deriving DecidableEq, Repr, Inhabited

/-- What happens during `fit`, in program order. -/
inductive Entry where
  /-- `fit` calls `callbacks.on_<ev>(self, …)` -/
  | emit (ev : Event)
  /-- the handler of the callback with identity `i` runs for `ev`; `seen` = value of
  `nn_state.stop_training` when it is entered, `ver` = parameter version it observes -/
  | call (i : Nat) (ev : Event) (seen : Bool) (ver : Nat)
  /-- a line printed by the `Timer` -/
  | print (m : TimerMsg)
  /-- `callbacks.on_<ev>` has returned; `stop` = value of `self.stop_training` now -/
  | ret (ev : Event) (stop : Bool)
  /-- `self._shuffle_data(…)` for epoch `e` (neural_state.py:601) -/
  | shuffle (e : Int)
  /-- `optimizer.step()` of batch `(e,b)` (neural_state.py:623) -/
  | optStep (e : Int) (b : Nat)
  /-- `scheduler.step()` of epoch `e` (neural_state.py:629-630) -/
  | schedStep (e : Int)
  deriving DecidableEq, Repr, Inhabited

/-- Stop requests (see the file header). -/
structure Req where
  cb : Nat → Event → Bool
  mid : Int → Nat → Bool

/-- Arguments of `fit` that shape the control flow. -/
structure Cfg where
  /-- `starting_epoch` -/
  start : Int
  /-- `epochs` (index of the last epoch) -/
  epochs : Int
  /-- number of batches the zipped `data_iterator` yields per epoch (C07: `⌈N / pos_batch_size⌉`) -/
  numBatches : Nat
  /-- identities of the user callbacks, in list order (`callbacks=`; the same object may occur twice) -/
  cbs : List Nat
  /-- `time=True`: a `Timer()` is appended after the user callbacks (neural_state.py:565-566) -/
  timer : Bool
  /-- `scheduler is not None` -/
  hasSched : Bool

/-- Mutable state threaded through `fit`. -/
structure S where
  /-- `self._stop_training` -/
  stop : Bool
  /-- `Timer.already_notified` -/
  notified : Bool
  /-- parameter version = number of `optimizer.step()` calls so far -/
  ver : Nat
  /-- number of `scheduler.step()` calls so far -/
  sched : Nat
  deriving DecidableEq, Repr, Inhabited

/-- `for cb in self.callbacks: cb.on_<ev>(rbm, …)` over the user callbacks (callback_list.py:60-82):
each callback in list order; a stop requested by one callback is seen by all later ones. -/
def dispatchCbs (R : Req) (ev : Event) (ver : Nat) : List Nat → Bool → List Entry × Bool
  | [], stop => ([], stop)
  | i :: rest, stop =>
    let r := dispatchCbs R ev ver rest (stop || R.cb i ev)
    (.call i ev stop ver :: r.1, r.2)

/-- The `Timer` handlers (timer.py:36-57), `verbose=True`. -/
def timerHandle (ev : Event) (s : S) : List Entry × S :=
  match ev with
  | .batchEnd e b =>
    if s.stop && !s.notified then ([.print (.terminatedBatch e b)], { s with notified := true }) else ([], s)
  | .epochEnd e =>
    if s.stop && !s.notified then ([.print (.terminatedEpoch e)], { s with notified := true }) else ([], s)
  | .trainEnd => ([.print .total], s)
  | _ => ([], s)

/-- `callbacks.on_<ev>(self, …)`: user callbacks in list order, then the `Timer` if `time=True`. -/
def dispatch (c : Cfg) (R : Req) (ev : Event) (s : S) : List Entry × S :=
  let r1 := dispatchCbs R ev s.ver c.cbs s.stop
  let s1 : S := { s with stop := r1.2 }
  let r2 := if c.timer then timerHandle ev s1 else ([], s1)
  (.emit ev :: (r1.1 ++ r2.1 ++ [.ret ev r2.2.stop]), r2.2)

/-- One iteration of the batch loop body (neural_state.py:612-625): `on_batch_start`, the update
(`optimizer.step()` bumps the parameter version; a stop may be raised meanwhile), `on_batch_end`. -/
def batchStep (c : Cfg) (R : Req) (e : Int) (b : Nat) (s : S) : List Entry × S :=
  let r1 := dispatch c R (.batchStart e b) s
  let s2 : S := { r1.2 with stop := r1.2.stop || R.mid e b, ver := r1.2.ver + 1 }
  let r3 := dispatch c R (.batchEnd e b) s2
  (r1.1 ++ .optStep e b :: r3.1, r3.2)

/-- The batch loop `for b, batch in enumerate(data_iterator): …; if self.stop_training: break`
(neural_state.py:611-627) over the remaining batch indices. -/
def batchLoop (c : Cfg) (R : Req) (e : Int) : List Nat → S → List Entry × S
  | [], s => ([], s)
  | b :: bs, s =>
    let r1 := batchStep c R e b s
    if r1.2.stop then r1
    else
      let r2 := batchLoop c R e bs r1.2
      (r1.1 ++ r2.1, r2.2)

/-- `if scheduler is not None: scheduler.step()` (neural_state.py:629-630). -/
def schedPhase (c : Cfg) (e : Int) (s : S) : List Entry × S :=
  if c.hasSched then ([.schedStep e], { s with sched := s.sched + 1 }) else ([], s)

/-- One iteration of the epoch loop body (neural_state.py:601-632), without the trailing `break` test. -/
def runEpoch (c : Cfg) (R : Req) (e : Int) (s : S) : List Entry × S :=
  let r1 := dispatch c R (.epochStart e) s
  let r2 := batchLoop c R e (List.range c.numBatches) r1.2
  let r3 := schedPhase c e r2.2
  let r4 := dispatch c R (.epochEnd e) r3.2
  (.shuffle e :: (r1.1 ++ r2.1 ++ r3.1 ++ r4.1), r4.2)

/-- `for ep in range(starting_epoch, epochs + 1): …; if self.stop_training: break`
(neural_state.py:598-634) over the remaining epoch numbers. -/
def epochLoop (c : Cfg) (R : Req) : List Int → S → List Entry × S
  | [], s => ([], s)
  | e :: es, s =>
    let r1 := runEpoch c R e s
    if r1.2.stop then r1
    else
      let r2 := epochLoop c R es r1.2
      (r1.1 ++ r2.1, r2.2)

/-- `range(starting_epoch, epochs + 1)` as a list (empty when `epochs < starting_epoch`). -/
def epochRange (start epochs : Int) : List Int :=
  (List.range (epochs + 1 - start).toNat).map (fun (k : Nat) => start + (k : Int))

/-- `fit` (neural_state.py:558-636): early return without any event when `stop_training` is already
set; otherwise `on_train_start`, the epoch loop, `on_train_end`. The flag is never cleared. -/
def fit (c : Cfg) (R : Req) (stop₀ : Bool) : List Entry × S :=
  let s0 : S := { stop := stop₀, notified := false, ver := 0, sched := 0 }
  if stop₀ then ([], s0)
  else
    let r1 := dispatch c R .trainStart s0
    let r2 := epochLoop c R (epochRange c.start c.epochs) r1.2
    let r3 := dispatch c R .trainEnd r2.2
    (r1.1 ++ r2.1 ++ r3.1, r3.2)

/-! ### The arguments of `fit` as the caller passes them; consecutive calls on one object -/

/-- The `callbacks=` argument as Python sees it: `None` (the default), a `list`, a `tuple`, a
`CallbackList` instance (a `MutableSequence` with `__len__`/`__iter__`, callback_list.py:21-45) or a
one-shot iterator / generator (no `__len__`, no `__bool__`). Elements are callback identities. -/
inductive CbArg where
  | none
  | list (l : List Nat)
  | tuple (l : List Nat)
  | cbList (l : List Nat)
  | iter (l : List Nat)
  deriving DecidableEq, Repr, Inhabited

/-- the callbacks the caller listed, in order (`None`: none) -/
def CbArg.elems : CbArg → List Nat
  | .none => []
  | .list l => l
  | .tuple l => l
  | .cbList l => l
  | .iter l => l

/-- Python truthiness (`if callbacks`): `None` and empty sized containers are falsy (`__len__() == 0`),
an iterator object is always truthy -/
def CbArg.truthy : CbArg → Bool
  | .none => false
  | .list l => !l.isEmpty
  | .tuple l => !l.isEmpty
  | .cbList l => !l.isEmpty
  | .iter _ => true

/-- `CallbackList(callbacks if callbacks else [])` (neural_state.py:564) with
`self.callbacks = list(callbacks)` (callback_list.py:22-24): the user callbacks `fit` dispatches to.
(`list(x)` of a truthy argument enumerates its elements; for `None` the branch is not taken.) -/
def wrapCallbacks (a : CbArg) : List Nat :=
  if a.truthy then a.elems else []

/-- The negative-phase index draw of `_shuffle_data` (neural_state.py:458-477), as far as it can fail:
with bases `torch.randint(len(z_samples), …)`, without bases `torch.randint(N, …)` unless the two batch
sizes agree (then the positive permutation is re-used and nothing is drawn). `torch.randint(0, size)`
raises `RuntimeError` for every size, also the empty one (`Batching.randintReq`; same branch structure as
`Batching.shuffleData`). `nZ` = number of rows of the data whose basis is all `Z` (`z_samples.shape[0]`). -/
def shuffleDraw (N nZ posB : Nat) (negB : Option Nat) (hasBases : Bool) : Except PyErr Unit :=
  if hasBases then Batching.randintReq nZ
  else if Batching.effNegB negB posB = posB then .ok ()
  else Batching.randintReq N

/-- Number of items the zipped `data_iterator` of one epoch yields, from the sizes only
(neural_state.py:568 `neg_batch_size` default, :597 `num_batches`, :458-498 `_shuffle_data`):
`⌈N/pos⌉` positive (and bases) slices; the negative samples have `N` rows when there are no bases and
the two sizes agree (same permutation), otherwise `num_batches * neg` rows (`torch.randint`), sliced by
`neg`; `zip` stops at the shortest. `ZeroDivisionError` for `pos_batch_size = 0`; `RuntimeError` when the
negative indices are to be drawn from an empty set (`shuffleDraw`: no reference-basis row although bases
are given; no row at all and `neg_batch_size ≠ pos_batch_size`) — never defaulted. -/
def batchesPerEpoch (N nZ posB : Nat) (negB : Option Nat) (hasBases : Bool) : Except PyErr Nat :=
  match Batching.numBatches N posB with
  | .error e => .error e
  | .ok nb =>
    match shuffleDraw N nZ posB negB hasBases with
    | .error e => .error e
    | .ok () =>
      let neg := Batching.effNegB negB posB
      let posCount := (Batching.batchStarts N posB).length
      let negRows := if !hasBases && neg == posB then N else nb * neg
      let negCount := (Batching.batchStarts negRows neg).length
      .ok (if hasBases then min posCount (min negCount posCount) else min posCount negCount)

/-- The arguments of one `fit` call that shape the control flow, as the caller passes them. -/
structure Args where
  /-- `starting_epoch` -/
  start : Int
  /-- `epochs` -/
  epochs : Int
  /-- number of training rows `len(data)` (any container: tensor of any dtype/stride, ndarray, list) -/
  N : Nat
  /-- `pos_batch_size` -/
  posB : Nat
  /-- `neg_batch_size` (`None` = default) -/
  negB : Option Nat
  /-- `input_bases is not None` -/
  hasBases : Bool
  /-- number of rows of `data` measured in the reference basis (every entry of the row of `input_bases` is
  `"Z"`): `z_samples.shape[0]` (neural_state.py:589-592, data.py:115-133); read only when `hasBases` -/
  nZ : Nat
  /-- `callbacks=` -/
  callbacks : CbArg
  /-- `time=` -/
  time : Bool
  /-- `scheduler is not None` -/
  hasSched : Bool

/-- the configuration `fit` derives from its arguments, given the number of batches per epoch -/
def Args.cfg (a : Args) (nb : Nat) : Cfg :=
  { start := a.start, epochs := a.epochs, numBatches := nb, cbs := wrapCallbacks a.callbacks,
    timer := a.time, hasSched := a.hasSched }

/-- `fit(data, epochs, pos_batch_size, neg_batch_size, …, callbacks=…)` from the caller's arguments.
The early return (neural_state.py:558) precedes every other evaluation. `num_batches = ceil(N / pos_batch_size)`
(:597, `ZeroDivisionError` for 0) is evaluated once before the epoch loop; `_shuffle_data` (which raises
`RuntimeError` when it has to draw negative indices from an empty set, `shuffleDraw`) only inside the loop
body, hence never when `range(starting_epoch, epochs + 1)` is empty. An exception propagates out of `fit`:
the value is `.error`; what the callbacks have seen by then is `fitArgsAbortLog`. -/
def fitArgs (a : Args) (R : Req) (stop₀ : Bool) : Except PyErr (List Entry × S) :=
  if stop₀ then .ok (fit (a.cfg 0) R true)
  else
    match Batching.numBatches a.N a.posB with
    | .error e => .error e
    | .ok nb₀ =>
      if a.epochs < a.start then .ok (fit (a.cfg nb₀) R false)
      else
        match batchesPerEpoch a.N a.nZ a.posB a.negB a.hasBases with
        | .error e => .error e
        | .ok nb => .ok (fit (a.cfg nb) R false)

/-- What has happened when `fitArgs a R false` is an `.error` (both exceptions are raised after
`callbacks.on_train_start(self)` (neural_state.py:595) and before the first `on_epoch_start`: `ceil(N / 0)` at :597,
the first `_shuffle_data` at :601): `on_train_start` has been dispatched to every callback (and the `Timer`),
nothing else — in particular NO `on_train_end`. -/
def fitArgsAbortLog (a : Args) (R : Req) : List Entry :=
  (dispatch (a.cfg 0) R .trainStart { stop := false, notified := false, ver := 0, sched := 0 }).1

/-- One call of a session: what the caller does to the flag before it (`pre = some v`:
`nn_state.stop_training = v`; `none`: nothing), the arguments, the behaviour of the callbacks. -/
structure Run where
  pre : Option Bool
  args : Args
  req : Req

/-- Consecutive `fit` calls on the same object: the only thing a call leaves behind that the next call
reads is `stop_training` (optimizer, scheduler, `CallbackList`, `Timer`, batches are rebuilt per call). -/
def session : List Run → Bool → Except PyErr (List (List Entry × S))
  | [], _ => .ok []
  | r :: rest, stop =>
    match fitArgs r.args r.req (match r.pre with | some v => v | none => stop) with
    | .error e => .error e
    | .ok out =>
      match session rest out.2.stop with
      | .error e => .error e
      | .ok outs => .ok (out :: outs)

/-! ### Projections of a log (used by the theorems and by the driver) -/

/-- the event trace: events in the order `fit` emits them -/
def events (l : List Entry) : List Event :=
  l.filterMap fun | .emit ev => some ev | _ => none

/-- for each event, the value of the stop flag `fit` finds after the dispatch returns -/
def rets (l : List Entry) : List (Event × Bool) :=
  l.filterMap fun | .ret ev f => some (ev, f) | _ => none

/-- handler invocations `(callback identity, event)` in program order -/
def calls (l : List Entry) : List (Nat × Event) :=
  l.filterMap fun | .call i ev _ _ => some (i, ev) | _ => none

/-- the control skeleton: everything except handler invocations, prints and returns -/
def skeleton (l : List Entry) : List Entry :=
  l.filter fun | .call .. => false | .print _ => false | .ret .. => false | _ => true

/-- lines printed by the timer -/
def prints (l : List Entry) : List TimerMsg :=
  l.filterMap fun | .print m => some m | _ => none

/-- does this entry carry a stop request? -/
def Req.at (R : Req) : Entry → Bool
  | .call i ev _ _ => R.cb i ev
  | .optStep e b => R.mid e b
  | _ => false

/-- is this entry an `optimizer.step()`? -/
def Entry.isOpt : Entry → Bool
  | .optStep .. => true
  | _ => false

/-- is this entry a `scheduler.step()`? -/
def Entry.isSched : Entry → Bool
  | .schedStep _ => true
  | _ => false

/-! ### The `stop_training` setter; an exception raised by a callback inside `fit` -/

/-- A value a caller / callback may assign to `nn_state.stop_training`, by kind: a Python `bool`, a `numpy.bool_`
(e.g. the result of a numpy comparison `loss < tol`), a Python `int`, a 0-d boolean tensor / ndarray, `None`, a `str`. -/
inductive PyVal where
  | pyBool (b : Bool)
  | npBool (b : Bool)
  | int (n : Int)
  | tensor0 (b : Bool)
  | none
  | str (s : String)
  deriving DecidableEq, Repr, Inhabited

/-- `isinstance(v, bool)`: only the two Python singletons (`numpy.bool_` is not a subclass of `bool`; `bool` is a
subclass of `int`, not the other way round). -/
def PyVal.isBool : PyVal → Bool
  | .pyBool _ => true
  | _ => false

/-- Python truthiness `bool(v)` of the value (what `if self.stop_training` would read had it been stored). -/
def PyVal.truthy : PyVal → Bool
  | .pyBool b => b
  | .npBool b => b
  | .int n => n != 0
  | .tensor0 b => b
  | .none => false
  | .str s => s != ""

/-- The `stop_training` setter (nn_states/neural_state.py:46-50): `if isinstance(new_val, bool): self._stop_training = new_val`
`else: raise ValueError(...)`. The value stored, or the exception; nothing is stored when it raises. -/
def setStop (v : PyVal) : Except PyErr Bool :=
  match v with
  | .pyBool b => .ok b
  | _ => .error .ValueError

/-- The statement `nn_state.stop_training = v`: the exception it raises (if any) and the state after it. -/
def assignStop (v : PyVal) (s : S) : Option PyErr × S :=
  match setStop v with
  | .ok b => (none, { s with stop := b })
  | .error e => (some e, s)

/-- What the user callbacks do to the flag, as code: callback `i`, while handling `ev`, executes
`nn_state.stop_training = v` (`some (v, catches)`; `catches` = the statement sits in a `try/except` of the callback, so an
exception raised by the setter does not leave the handler) or leaves the flag alone (`none`). Only assignments that
can SET the flag are meant here: `v = False` is faithful only while the flag is clear (a no-op then); clearing a request
in the middle of a run is not modelled (between calls it is: `Run.pre`). -/
abbrev Asg := Nat → Event → Option (PyVal × Bool)

/-- the stop requests the assignments amount to: exactly the ACCEPTED assignments of a true value -/
def Asg.req (A : Asg) (mid : Int → Nat → Bool) : Req :=
  { cb := fun i ev => match A i ev with
      | some (v, _) => (match setStop v with | .ok b => b | .error _ => false)
      | none => false,
    mid := mid }

/-- does the handler of callback `i` for `ev` end with an exception? (a refused assignment that is not caught) -/
def Asg.raises (A : Asg) (i : Nat) (ev : Event) : Option PyErr :=
  match A i ev with
  | some (v, catches) => (match setStop v with | .ok _ => none | .error e => if catches then none else some e)
  | none => none

/-- The log of a run up to and including the first handler invocation that ends with an exception (with that
exception), or `none` when no handler raises. Neither `CallbackList.on_*` (callback_list.py:60-82) nor `fit`
(neural_state.py:558-636) has a `try`: the exception leaves the handler, the dispatch loop (the later callbacks and the
`Timer` do not see the event) and `fit` — nothing later in program order happens. -/
def cutAtRaise (X : Nat → Event → Option PyErr) : List Entry → Option (List Entry × PyErr)
  | [] => none
  | .call i ev seen ver :: l =>
    match X i ev with
    | some e => some ([.call i ev seen ver], e)
    | none => (cutAtRaise X l).map (fun p => (.call i ev seen ver :: p.1, p.2))
  | x :: l => (cutAtRaise X l).map (fun p => (x :: p.1, p.2))

/-- what is left behind when an exception escapes `fit`: the log so far, the exception, and — read off the raising
invocation — `self._stop_training` (what the handler saw on entry, or-ed with a request it made itself before
raising) and the parameter version -/
structure Abort where
  log : List Entry
  err : PyErr
  stop : Bool
  ver : Nat
  deriving DecidableEq, Repr, Inhabited

/-- state left by the last entry of an abort log (always the raising `call`) -/
def abortState (R : Req) (stop₀ : Bool) (pre : List Entry) : Bool × Nat :=
  match pre.getLast? with
  | some (.call i ev seen ver) => (seen || R.cb i ev, ver)
  | _ => (stop₀, 0)

/-- `fit` with callbacks that assign to `stop_training` (and may raise doing so): the completed run (`.ok`), or
what is left when the first uncaught exception escapes (`.error`). -/
def fitAsg (c : Cfg) (A : Asg) (mid : Int → Nat → Bool) (stop₀ : Bool) : Except Abort (List Entry × S) :=
  let R := A.req mid
  let full := fit c R stop₀
  match cutAtRaise A.raises full.1 with
  | none => .ok full
  | some (pre, e) =>
    let st := abortState R stop₀ pre
    .error { log := pre, err := e, stop := st.1, ver := st.2 }

/-! ### `CallbackList` as a mutable sequence (callbacks/callback_list.py:22-55) -/

/-- an object offered to a `CallbackList`: a callback (`isinstance(value, CallbackBase)`, identity `i`) or anything else -/
inductive CbItem where
  | cb (i : Nat)
  | other
  deriving DecidableEq, Repr, Inhabited

/-- Python index normalisation for `l[k]`, `l[k] = v`, `del l[k]` on a list of length `n`: negative indices count from
the end; `none` = `IndexError`. -/
def pyIdx (n : Nat) (k : Int) : Option Nat :=
  let j : Int := if k < 0 then k + (n : Int) else k
  if j < 0 then none else if j.toNat < n then some j.toNat else none

/-- index clamping of `list.insert(k, v)`: negative indices count from the end, then clamp into `0 … n` -/
def insIdx (n : Nat) (k : Int) : Nat :=
  let j : Int := if k < 0 then k + (n : Int) else k
  if j < 0 then 0 else min j.toNat n

/-- one operation of the container API on a `CallbackList` holding the callbacks `l` -/
inductive CbOp where
  /-- `cl[k] = v` (`__setitem__`, callback_list.py:32-38) -/
  | setItem (k : Int) (v : CbItem)
  /-- `del cl[k]` (`__delitem__`, :40-41) -/
  | delItem (k : Int)
  /-- `cl.insert(k, v)` (:49-55) -/
  | insert (k : Int) (v : CbItem)
  /-- `cl.append(v)` (`MutableSequence.append` = `self.insert(len(self), v)`) -/
  | append (v : CbItem)
  /-- `cl = cl + CallbackList(other)` (`__add__`, :46-47: a NEW list `self.callbacks + other.callbacks`) -/
  | add (other : List Nat)
  /-- `cl = CallbackList(other) + cl` -/
  | radd (other : List Nat)
  deriving DecidableEq, Repr, Inhabited

/-- `cl.insert(k, v)` (callback_list.py:49-55): the `isinstance` guard, then `list.insert` -/
def cbInsert (l : List Nat) (k : Int) : CbItem → Except PyErr (List Nat)
  | .cb i => .ok (l.insertIdx (insIdx l.length k) i)
  | .other => .error .TypeError

/-- the container operation applied to the callbacks `l`: the new contents, or the exception (contents untouched).
`__setitem__` tests `isinstance` BEFORE indexing (TypeError wins over IndexError). -/
def CbOp.apply (l : List Nat) : CbOp → Except PyErr (List Nat)
  | .setItem k (.cb i) => (match pyIdx l.length k with | some j => .ok (l.set j i) | none => .error .IndexError)
  | .setItem _ .other => .error .TypeError
  | .delItem k => (match pyIdx l.length k with | some j => .ok (l.eraseIdx j) | none => .error .IndexError)
  | .insert k v => cbInsert l k v
  | .append v => cbInsert l (l.length : Int) v
  | .add o => .ok (l ++ o)
  | .radd o => .ok (o ++ l)

/-- `cl[k]` (`__getitem__`, :29-30), `len(cl)` (:26-27) and `list(cl)` (`__iter__`, :43-44) read the same list -/
def cbGetItem (l : List Nat) (k : Int) : Except PyErr Nat :=
  match pyIdx l.length k with
  | some j => (match l[j]? with | some x => .ok x | none => .error .IndexError)
  | none => .error .IndexError

/-- a caller's sequence of container operations, each in a `try/except`: a refused operation leaves the contents as
they were; returns the final contents and, per operation, the exception it raised -/
def cbRunOps : List Nat → List CbOp → List Nat × List (Option PyErr)
  | l, [] => (l, [])
  | l, op :: ops =>
    match op.apply l with
    | .ok l' => let r := cbRunOps l' ops; (r.1, none :: r.2)
    | .error e => let r := cbRunOps l ops; (r.1, some e :: r.2)

end QV.Train
