/-
QV.Model.EarlyStop — model of `EarlyStopping` (qucumber/callbacks/early_stopping.py, as it is AFTER the
`fix:` for F7: lookback index `-self.patience - 1`, gate `len(evaluator) > patience`; and AFTER the `fix:` for F8:
`_relative_change` divides with `np.divide`, so a zero reference gives inf/nan instead of a `ZeroDivisionError`
for Python floats) and of the deprecated
`VarianceBasedEarlyStopping` (variance_based_early_stopping.py), on top of the evaluator state of
`QV.Model.Callbacks`, together with the part of `fit` that matters for it: the epoch loop that dispatches
`on_epoch_end` to [evaluator, stopper] in LIST ORDER and breaks when `stop_training` is set
(neural_state.py:558-559, 598-634).

Numbers: a monitored value is a `Num α` = (Python result kind, value).  Python `float / float` raises
`ZeroDivisionError` on a zero divisor, `numpy.float64` division returns ±inf / nan (a warning only); the
kind of a result follows numpy's operator dispatch (`np.float64` wins over `float`).  The arithmetic is
polymorphic in `α` (run at `Float`, theorems at `ℝ`).

DEGENERATE QUOTIENTS ARE EXPLICIT.  A quotient by zero and the square root of a negative number have no value
in `ℝ` (Mathlib totalises `x / 0 = 0`, `√(-1) = 0`), while IEEE gives ±inf / nan, for which every comparison
`dev < tolerance` is False.  The model therefore never divides by a zero divisor: such a quotient is the extended
value `none` ("inf or nan: below no tolerance"), produced by an explicit test `divisor == 0` / `x < 0`.  At `Float`
the test changes no decision (IEEE `x / 0` is ±inf or nan, `sqrt` of a negative is nan, and `<` is False for those);
at `ℝ` it keeps the totalisation out of the theorems.  The tolerance is an `Option α`: `none` is `float("inf")`
(`dev < inf` holds exactly for the finite `dev`, tested as `dev - dev == 0`).

Import-free (only QV.Model.*).
-/
import QV.Model.Callbacks

namespace QV.Cb

/-- Python-level kind of a scalar: built-in `float` or `numpy.float64` -/
inductive NumKind where
  | py
  | np
  deriving DecidableEq, Repr

/-- a scalar together with its Python kind -/
structure Num (α : Type) where
  kind : NumKind
  x : α

/-- kind of the result of a binary arithmetic operation: `float` only if both operands are -/
def NumKind.join : NumKind → NumKind → NumKind
  | .py, .py => .py
  | _, _ => .np

section
variable {α : Type} [Sub α] [Div α] [Zero α] [BEq α] [LT α] [DecidableLT α] [Transc α]

/-- `a - b` -/
def Num.sub (a b : Num α) : Num α := ⟨a.kind.join b.kind, a.x - b.x⟩

/-- Python `a / b`: `ZeroDivisionError` iff both are Python floats and `b == 0.0`; a numpy zero divisor gives
±inf / nan (`none`, a warning only); otherwise the IEEE quotient -/
def Num.div (a b : Num α) : Except PyErr (Option (Num α)) :=
  if a.kind = .py ∧ b.kind = .py ∧ (b.x == 0) = true then .error .ZeroDivisionError
  else if (b.x == 0) = true then .ok none
  else .ok (some ⟨a.kind.join b.kind, a.x / b.x⟩)

/-- `np.divide(a, b)` (inside `np.errstate(divide="ignore", invalid="ignore")`): never raises, always a numpy
scalar; a zero divisor gives ±inf / nan (`none`) -/
def Num.npDivide (a b : Num α) : Option (Num α) :=
  if (b.x == 0) = true then none else some ⟨.np, a.x / b.x⟩

/-- `abs(a)` keeps the kind -/
def Num.abs (a : Num α) : Num α := ⟨a.kind, Transc.abs a.x⟩

/-- `np.sqrt(a)` always returns a numpy scalar; nan (`none`) for a negative input (a warning only) -/
def Num.npSqrt (a : Num α) : Option (Num α) :=
  if a.x < 0 then none else some ⟨.np, Transc.sqrt a.x⟩

/-- `dev < tolerance`; `tolerance = none` is `float("inf")`: `dev < inf` iff `dev` is finite, i.e. `dev - dev == 0`
(IEEE: `inf - inf` and `nan - nan` are nan) -/
def belowTol (d : α) : Option α → Bool
  | some t => decide (d < t)
  | none => d - d == 0
end

/-! ### constructor -/

/-- the convergence criteria (`convergence_criteria` table, early_stopping.py:104-108) -/
inductive Criterion where
  | relative
  | absolute
  | variance
  deriving DecidableEq, Repr

/-- characters removed by `str.strip()` (ASCII part of Python's whitespace set) -/
def isPySpace (c : Char) : Bool :=
  c == ' ' || c == '\t' || c == '\n' || c == '\r' || c == '\x0b' || c == '\x0c' ||
  c == '\x1c' || c == '\x1d' || c == '\x1e' || c == '\x1f'

/-- `criterion.strip().lower()` (ASCII: non-ASCII whitespace / case mappings are not modelled) -/
def normCriterion (s : String) : String :=
  let cs := s.toList.dropWhile isPySpace
  let cs := (cs.reverse.dropWhile isPySpace).reverse
  String.ofList (cs.map Char.toLower)

/-- lookup in the `convergence_criteria` dict (`KeyError` ↦ `none`) -/
def criterionOfString (s : String) : Option Criterion :=
  if s = "relative" then some .relative
  else if s = "absolute" then some .absolute
  else if s = "variance" then some .variance
  else none

/-- what `evaluator_callback` is an instance of -/
inductive EvalKind where
  | metric
  | observable
  | other
  deriving DecidableEq, Repr

/-- the `patience` argument as `int(patience)` sees it: an int (identity), a float already truncated
toward zero by the caller (`int(2.7) = 2`), `None`/a non-number (`TypeError`), a non-numeric string (`ValueError`). -/
inductive PatArg where
  | int (i : Int)
  | none
  | badStr
  deriving DecidableEq, Repr

/-- `int(patience)` -/
def PatArg.toInt : PatArg → Except PyErr Int
  | .int i => .ok i
  | .none => .error .TypeError
  | .badStr => .error .ValueError

/-- the fields `EarlyStopping.__init__` stores -/
structure EarlyStopping (α : Type) where
  period : Int
  /-- `none` = `float("inf")` -/
  tolerance : Option α
  patience : Int
  quantityName : String
  criterion : Criterion
  /-- which evaluator class the getters were built for -/
  evalKind : EvalKind

/-- `EarlyStopping.__init__` (early_stopping.py:71-123), in the code's order:
`int(patience)`; MetricEvaluator ⇒ `TypeError` if the normalised criterion is "variance";
ObservableEvaluator ⇒ getters on "mean"/"variance"; anything else ⇒ `TypeError`;
then the criterion table ⇒ `ValueError` for an unknown name. -/
def EarlyStopping.new {α : Type} (period : Int) (tolerance : Option α) (patience : PatArg) (ek : EvalKind)
    (quantityName : String) (criterion : String) : Except PyErr (EarlyStopping α) :=
  match patience.toInt with
  | .error e => .error e
  | .ok p =>
    let crit := normCriterion criterion
    match ek with
    | .other => .error .TypeError
    | .metric =>
      if crit = "variance" then .error .TypeError
      else match criterionOfString crit with
        | none => .error .ValueError
        | some c => .ok ⟨period, tolerance, p, quantityName, c, .metric⟩
    | .observable =>
      match criterionOfString crit with
      | none => .error .ValueError
      | some c => .ok ⟨period, tolerance, p, quantityName, c, .observable⟩

/-- `VarianceBasedEarlyStopping.__init__` (variance_based_early_stopping.py:63-85): a deprecation warning,
then `super().__init__(…, criterion="variance")`; `variance_name` is ignored. -/
def VarianceBasedEarlyStopping.new {α : Type} (period : Int) (tolerance : Option α) (patience : PatArg) (ek : EvalKind)
    (quantityName : String) (_varianceName : Option String) : Except PyErr (EarlyStopping α) :=
  EarlyStopping.new period tolerance patience ek quantityName "variance"

/-! ### the evaluator as the stopper sees it -/

/-- a metric or an observable evaluator (configuration together with its state) whose values are `Num α` -/
inductive AnyEval (W α : Type) where
  | metric (c : MetricEvaluator W (Num α)) (s : EvalState (Num α) (Num α))
  | observable (c : ObservableEvaluator W (Num α)) (s : EvalState (Dict String (Num α)) (Num α))

namespace AnyEval
variable {W α : Type}

/-- `len(self.evaluator_callback)` -/
def len : AnyEval W α → Nat
  | .metric _ s => s.len
  | .observable _ s => s.len

/-- epochs recorded so far -/
def epochs : AnyEval W α → List Int
  | .metric _ s => s.epochs
  | .observable _ s => s.epochs

/-- `self.value_getter(name, index)` (early_stopping.py:79-80 / 89-91):
`get_value(name, index)` for a MetricEvaluator, `get_value(name, index)["mean"]` for an ObservableEvaluator -/
def value : AnyEval W α → String → Option Int → Except PyErr (Num α)
  | .metric _ s, name, idx => s.getValue name idx
  | .observable _ s, name, idx =>
    match s.getValue name idx with
    | .error e => .error e
    | .ok d => d.getItem "mean"

/-- `self.variance_getter(name, index)` (early_stopping.py:92-94); the attribute does not exist for a
MetricEvaluator (`AttributeError`, unreachable because the constructor refuses that combination) -/
def variance : AnyEval W α → String → Option Int → Except PyErr (Num α)
  | .metric _ _, _, _ => .error .AttributeError
  | .observable _ s, name, idx =>
    match s.getValue name idx with
    | .error e => .error e
    | .ok d => d.getItem "variance"

/-- the evaluator's own `on_epoch_end` -/
def onEpochEnd : AnyEval W α → Int → W → Except PyErr (AnyEval W α)
  | .metric c s, e, w => (c.onEpochEnd s e w).map (.metric c)
  | .observable c s, e, w => (c.onEpochEnd s e w).map (.observable c)

/-- the evaluator's `clear_history()` (metric_evaluator.py:107-111, observable_evaluator.py:158-161) -/
def clearHistory : AnyEval W α → AnyEval W α
  | .metric c s => .metric c s.clearHistory
  | .observable c s => .observable c s.clearHistory

end AnyEval

/-! ### deviations and `on_epoch_end` -/

section
variable {W α : Type} [Sub α] [Div α] [Zero α] [BEq α] [LT α] [DecidableLT α] [Transc α]

namespace EarlyStopping

/-- `_change_in_metric` (early_stopping.py:125-128): `value(name, -patience - 1) - value(name)` -/
def changeInMetric (es : EarlyStopping α) (ev : AnyEval W α) : Except PyErr (Num α) :=
  match ev.value es.quantityName (some (-es.patience - 1)) with
  | .error e => .error e
  | .ok ref =>
    match ev.value es.quantityName none with
    | .error e => .error e
    | .ok cur => .ok (ref.sub cur)

/-- `_relative_change` (early_stopping.py:130-138, after the F8 fix):
`abs(np.divide(change, value(name, -patience - 1)))`; `none` = inf / nan (zero reference) -/
def relativeChange (es : EarlyStopping α) (ev : AnyEval W α) : Except PyErr (Option (Num α)) :=
  match es.changeInMetric ev with
  | .error e => .error e
  | .ok ch =>
    match ev.value es.quantityName (some (-es.patience - 1)) with
    | .error e => .error e
    | .ok ref => .ok ((ch.npDivide ref).map Num.abs)

/-- `_absolute_change` -/
def absoluteChange (es : EarlyStopping α) (ev : AnyEval W α) : Except PyErr (Option (Num α)) :=
  match es.changeInMetric ev with
  | .error e => .error e
  | .ok ch => .ok (some ch.abs)

/-- `_variance_scaled_abs_change`: `abs(change) / np.sqrt(variance(name, -patience - 1))`;
`none` = inf / nan (variance zero, negative or nan-producing) -/
def varianceScaledAbsChange (es : EarlyStopping α) (ev : AnyEval W α) : Except PyErr (Option (Num α)) :=
  match es.changeInMetric ev with
  | .error e => .error e
  | .ok ch =>
    match ev.variance es.quantityName (some (-es.patience - 1)) with
    | .error e => .error e
    | .ok var =>
      match var.npSqrt with
      | none => .ok none
      | some sd => ch.abs.div sd

/-- `self.deviation()`: an extended value, `none` = inf or nan -/
def deviation (es : EarlyStopping α) (ev : AnyEval W α) : Except PyErr (Option (Num α)) :=
  match es.criterion with
  | .relative => es.relativeChange ev
  | .absolute => es.absoluteChange ev
  | .variance => es.varianceScaledAbsChange ev

end EarlyStopping

/-- what the stopper writes: `nn_state.stop_training` and its own `last_epoch` -/
structure StopState where
  stop : Bool
  lastEpoch : Option Int
  deriving DecidableEq, Repr

/-- `EarlyStopping.on_epoch_end`: period gate, length gate `len > patience`,
`deviation() < tolerance` ⇒ set the stop flag and `last_epoch`; an inf / nan deviation is below no tolerance. -/
def EarlyStopping.onEpochEnd (es : EarlyStopping α) (ev : AnyEval W α) (st : StopState) (e : Int) :
    Except PyErr StopState :=
  match gate e es.period with
  | .error err => .error err
  | .ok false => .ok st
  | .ok true =>
    if (ev.len : Int) > es.patience then
      match es.deviation ev with
      | .error err => .error err
      | .ok none => .ok st
      | .ok (some d) => if belowTol d.x es.tolerance then .ok ⟨true, some e⟩ else .ok st
    else .ok st

/-! ### the epoch loop of `fit` with the two callbacks -/

/-- state of a run: the evaluator, the stop flag / `last_epoch`, and the epochs whose `on_epoch_end` fired -/
structure FitState (W α : Type) where
  ev : AnyEval W α
  st : StopState
  fired : List Int

/-- `callbacks.on_epoch_end(self, ep)` for the list `[evaluator, stopper]` (`evalFirst = true`) or
`[stopper, evaluator]` (`evalFirst = false`): in the second order the stopper looks at the evaluator
BEFORE this epoch's evaluation has been appended. -/
def epochEndBoth (es : EarlyStopping α) (evalFirst : Bool) (s : FitState W α) (e : Int) (w : W) :
    Except PyErr (FitState W α) :=
  if evalFirst then
    match s.ev.onEpochEnd e w with
    | .error err => .error err
    | .ok ev' =>
      match es.onEpochEnd ev' s.st e with
      | .error err => .error err
      | .ok st' => .ok ⟨ev', st', s.fired ++ [e]⟩
  else
    match es.onEpochEnd s.ev s.st e with
    | .error err => .error err
    | .ok st' =>
      match s.ev.onEpochEnd e w with
      | .error err => .error err
      | .ok ev' => .ok ⟨ev', st', s.fired ++ [e]⟩

/-- the loop `for ep in range(starting_epoch, epochs + 1): … on_epoch_end …; if stop_training: break`
(neural_state.py:598-634) over the candidate epochs with their world tokens -/
def fitLoop (es : EarlyStopping α) (evalFirst : Bool) : FitState W α → List (Int × W) → Except PyErr (FitState W α)
  | s, [] => .ok s
  | s, (e, w) :: rest =>
    match epochEndBoth es evalFirst s e w with
    | .error err => .error err
    | .ok s' => if s'.st.stop then .ok s' else fitLoop es evalFirst s' rest

/-- `fit`: returns immediately when `stop_training` is already set (neural_state.py:558-559) -/
def fitRun (es : EarlyStopping α) (evalFirst : Bool) (s : FitState W α) (cands : List (Int × W)) :
    Except PyErr (FitState W α) :=
  if s.st.stop then .ok s else fitLoop es evalFirst s cands

/-! ### sessions: several consecutive `fit` calls re-using the SAME evaluator and stopper objects

The evaluator keeps its history and the stopper its `last_epoch` from call to call ("train a bit more until converged");
between two calls the user may call `evaluator.clear_history()` and / or reset `nn_state.stop_training = False` (resume
after a stop).  A call entered with the flag still set returns immediately (neural_state.py:558-559). -/

/-- one `fit` call of a session: `clear` = `clear_history()` is called before it, `reset` = `stop_training = False` is
assigned before it, `cands` = its epochs with their world tokens (numbering restarts or continues: any epochs) -/
structure Segment (W : Type) where
  clear : Bool
  reset : Bool
  cands : List (Int × W)

/-- the consecutive `fit` calls of a session on the same objects; the result of every call, in order -/
def sessionRun (es : EarlyStopping α) (evalFirst : Bool) :
    AnyEval W α → StopState → List (Segment W) → Except PyErr (List (FitState W α))
  | _, _, [] => .ok []
  | ev, st, seg :: rest =>
    let ev1 := if seg.clear then ev.clearHistory else ev
    let st1 : StopState := ⟨if seg.reset then false else st.stop, st.lastEpoch⟩
    match fitRun es evalFirst ⟨ev1, st1, []⟩ seg.cands with
    | .error err => .error err
    | .ok r =>
      match sessionRun es evalFirst r.ev r.st rest with
      | .error err => .error err
      | .ok rs => .ok (r :: rs)

/-! ### several stop sources in ONE fit

The callback list of a `fit` may contain several `EarlyStopping` callbacks (other criteria, patience, periods, quantities)
and other callbacks that ask for a stop (`nn_state.stop_training = True` in their own `on_epoch_end`, or at the end of a
batch of that epoch, which `fit` lets reach the epoch-end dispatch: neural_state.py:626-633).  `on_epoch_end` is
dispatched in list order; every callback sees the flag as the earlier ones left it; the loop tests the flag only after
the whole dispatch (neural_state.py:632-634).  `EarlyStopping.on_epoch_end` only ever WRITES `True`
(early_stopping.py:149-154): a request made earlier in the same dispatch stands. -/

/-- a callback of the list other than the evaluator, as far as the stop flag is concerned: an `EarlyStopping`, or any
other callback that assigns `nn_state.stop_training = True` at the end of the listed epochs (and does nothing at the
others) -/
inductive StopSrc (α : Type) where
  | stopper (es : EarlyStopping α)
  | request (epochs : List Int)

/-- one source's `on_epoch_end`, given the flag as the earlier callbacks left it and the source's own `last_epoch` -/
def StopSrc.onEpochEnd (src : StopSrc α) (ev : AnyEval W α) (stop : Bool) (last : Option Int) (e : Int) :
    Except PyErr StopState :=
  match src with
  | .stopper es => es.onEpochEnd ev ⟨stop, last⟩ e
  | .request eps => .ok ⟨stop || eps.contains e, last⟩

/-- `on_epoch_end` of consecutive sources of the list (each paired with its own `last_epoch`), in list order; the stop
flag is threaded through. Returns the sources with their new `last_epoch` and the flag after the last one. -/
def srcsEpochEnd (ev : AnyEval W α) (e : Int) :
    List (StopSrc α × Option Int) → Bool → Except PyErr (List (StopSrc α × Option Int) × Bool)
  | [], stop => .ok ([], stop)
  | (src, last) :: rest, stop =>
    match src.onEpochEnd ev stop last e with
    | .error err => .error err
    | .ok st =>
      match srcsEpochEnd ev e rest st.stop with
      | .error err => .error err
      | .ok (rest', stop') => .ok ((src, st.lastEpoch) :: rest', stop')

/-- state of a run with several stop sources: the evaluator, the sources listed BEFORE it and AFTER it in the callback
list (each with its own `last_epoch`), the stop flag, the epochs whose `on_epoch_end` dispatch completed -/
structure MultiState (W α : Type) where
  ev : AnyEval W α
  before : List (StopSrc α × Option Int)
  after : List (StopSrc α × Option Int)
  stop : Bool
  fired : List Int

/-- `callbacks.on_epoch_end(self, ep)` for the list `before ++ [evaluator] ++ after`: the sources before the evaluator
look at its history WITHOUT this epoch's evaluation, those after it see it -/
def epochEndMulti (s : MultiState W α) (e : Int) (w : W) : Except PyErr (MultiState W α) :=
  match srcsEpochEnd s.ev e s.before s.stop with
  | .error err => .error err
  | .ok (before', stop1) =>
    match s.ev.onEpochEnd e w with
    | .error err => .error err
    | .ok ev' =>
      match srcsEpochEnd ev' e s.after stop1 with
      | .error err => .error err
      | .ok (after', stop2) => .ok ⟨ev', before', after', stop2, s.fired ++ [e]⟩

/-- the epoch loop of `fit` (neural_state.py:598-634) with several stop sources -/
def fitLoopMulti : MultiState W α → List (Int × W) → Except PyErr (MultiState W α)
  | s, [] => .ok s
  | s, (e, w) :: rest =>
    match epochEndMulti s e w with
    | .error err => .error err
    | .ok s' => if s'.stop then .ok s' else fitLoopMulti s' rest

/-- `fit` with several stop sources: returns immediately when `stop_training` is already set (neural_state.py:558-559) -/
def fitRunMulti (s : MultiState W α) (cands : List (Int × W)) : Except PyErr (MultiState W α) :=
  if s.stop then .ok s else fitLoopMulti s cands

end

end QV.Cb
