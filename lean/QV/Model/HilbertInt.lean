/-
QV.Model.HilbertInt — `subspace_vector(num, size)` and the guard of `generate_hilbert_space(size)`
(qucumber/nn_states/neural_state.py:133-176) for ARBITRARY Python integers (negative, beyond int64), as
outcome classes.  `QV.Model.Hilbert` models the documented domain with `Nat`; here the arguments are `Int`
and the int64 arithmetic of `num & (1 << np.arange(size))` is made explicit:

  * `1 << np.arange(size)` is an int64 array: entry `i` is `2^i` for `i ≤ 62`, `-2^63` for `i = 63` and `0` for
    `i ≥ 64` (numpy defines an over-wide shift as 0);
  * `num & …` converts the Python int `num` to int64: outside `[-2^63, 2^63)` → `OverflowError`
    ("Python int too large to convert to C long"), also when the array is empty;
  * `(… > 0)`: for `i ≤ 62` the two's-complement bit `i` of `num`; for `i = 63` the masked value is `-2^63` or `0`,
    never `> 0`; for `i ≥ 64` it is `0`;
  * a negative `size` gives `np.arange(size)` = empty: `subspace_vector` returns an empty vector;
    `generate_hilbert_space` first tests `size > max_size` (false), then `2 ** size` is a Python float,
    `np.arange(float)` a float array and `&` raises `TypeError`.

Import-free apart from `QV.Model.Hilbert`.
-/
import QV.Model.Hilbert
namespace QV

/-- two's-complement bit `i` of an unbounded integer: the truth value of `num & (1 << i)` for Python ints -/
def intBit (num : Int) (i : Nat) : Bool :=
  match num with
  | .ofNat m => m.testBit i
  | .negSucc m => !(m.testBit i)

/-- `num` fits a C long (int64) -/
def inInt64 (z : Int) : Bool := decide (-(2 ^ 63 : Int) ≤ z) && decide (z < (2 ^ 63 : Int))

/-- outcome classes of `subspace_vector` on arbitrary integers -/
inductive SubOutcome where
  | overflowError
  | ok (v : List Bool)
  deriving DecidableEq, Repr

/-- `size = int(size) if size else self.num_visible` for a Python int `size` (`None` and `0` select the default;
a negative size is truthy and is used as given) -/
def effSizeZ (size : Option Int) (numVisible : Nat) : Int :=
  match size with
  | none => numVisible
  | some s => if s = 0 then numVisible else s

/-- `((num & (1 << np.arange(size))) > 0)[::-1]` in int64 arithmetic (`num` already known to fit) -/
def maskRowZ (size : Nat) (num : Int) : List Bool :=
  ((List.range size).map (fun i => decide (i ≤ 62) && intBit num i)).reverse

/-- `subspace_vector(num, size)` for Python ints -/
def subspaceVectorZ (num : Int) (size : Option Int) (numVisible : Nat) : SubOutcome :=
  if inInt64 num then .ok (maskRowZ (effSizeZ size numVisible).toNat num) else .overflowError

/-- the head of `generate_hilbert_space(size)` for a Python int `size`: `size > max_size` → `ValueError` (tested
first); a negative size → `TypeError` (`np.arange(2 ** size)` is a float array); otherwise the size. -/
def spaceGuardZ (size : Option Int) (numVisible : Nat) : Except PyErr Nat :=
  let s := effSizeZ size numVisible
  if s > (maxSize : Int) then .error .ValueError
  else if s < 0 then .error .TypeError
  else .ok s.toNat

end QV
