/-
QV.Model.Unitaries — model of `qucumber/utils/unitaries.py`:
default dictionary, `_kron_mult`, `rotate_psi`, `rotate_rho`, `_rotate_basis_state`,
`rotate_psi_inner_prod`, `rotate_rho_probs`.

Representation. A per-site unitary is `M2 α := Bool → Bool → C α` (row, column ∈ {0,1} as Bool).
A basis string enters the model as the per-site matrices `us : Fin n → M2 α` (dictionary lookup
is glue done by the harness) together with `rot : Fin n → Bool` (`basis[s] != "Z"`, a test on the
LETTER, as in the code).  Basis states are `Fin n → Bool`, site 0 the most significant bit.

`_kron_mult` is modelled stage by stage: stage `s` (stride `r = 2^(n-1-s)`) replaces, for every index
pair `(i0, i0 + r)` whose bit `s` is 0/1, the two entries by the 2×2 matrix applied to them — exactly
what the code's slices `k*2r + i, (k+1)*2r + i step r` select. The double loop over `(k, i)` that
enumerates the pairs is not modelled as a loop (each index belongs to exactly one pair).
-/
import QV.Model.CplxScalar
import QV.Model.Hilbert
namespace QV

abbrev M2 (α : Type) := Bool → Bool → C α

section
variable {α : Type} [Add α] [Mul α] [Neg α] [Sub α] [Zero α] [One α]

namespace Unitaries

/-- one stage of `_kron_mult` on a vector indexed by `Nat` (entries beyond the length are never read
for in-range indices): stride `r`, 2×2 block `m`, scalar action `act : C α → β → β`. -/
def stage {β : Type} (addβ : β → β → β) (act : C α → β → β) (m : M2 α) (r : Nat) (y : Nat → β) : Nat → β :=
  fun idx =>
    let b := (idx / r) % 2 == 1
    let base := if b then idx - r else idx
    addβ (act (m b false) (y base)) (act (m b true) (y (base + r)))

/-- `_kron_mult(matrices, x)` for `n` two-dimensional sites: stages `s = n-1, …, 0`
(`for s in reversed(range(n))`, stride doubling each time). -/
def kronMult {β : Type} (addβ : β → β → β) (act : C α → β → β) (n : Nat) (us : Fin n → M2 α)
    (x : Nat → β) : Nat → β :=
  Fin.foldr n (fun s y => stage addβ act (us s) (2 ^ (n - 1 - s.val)) y) x
  -- NOTE: `Fin.foldr n f x = f 0 (f 1 (… (f (n-1) x)))`: the innermost (first applied) stage is s = n-1.


/-! ### `_kron_mult` with the code's loops (flat list in place of the tensor's index axis) -/

section loop
variable {β : Type} [Inhabited β]

/-- `y[:, slc] = cplx.matmul(m, y[:, slc])` for ONE slice `slc = slice(i0, i0 + 2r, r)`, i.e. the two positions
`i0` and `i0 + r`: both old values are read, then both positions are overwritten. -/
def updPair (addβ : β → β → β) (act : C α → β → β) (m : M2 α) (i0 r : Nat) (y : List β) : List β :=
  let t0 := y.getD i0 default
  let t1 := y.getD (i0 + r) default
  (y.set i0 (addβ (act (m false false) t0) (act (m false true) t1))).set (i0 + r)
    (addβ (act (m true false) t0) (act (m true true) t1))

/-- one `s`-iteration of `_kron_mult`: `for k in range(l): for i in range(r): slc = slice(k*n_s*r + i, (k+1)*n_s*r + i, r)`
with `n_s = 2` -/
def stageLoop (addβ : β → β → β) (act : C α → β → β) (m : M2 α) (r l : Nat) (y : List β) : List β :=
  (List.range l).foldl (fun y k => (List.range r).foldl (fun y i => updPair addβ act m (k * (2 * r) + i) r y) y) y

/-- `_kron_mult(matrices, x)`: `l, r = prod(n), 1; for s in reversed(range(n)): l //= 2; (stage); r *= 2` -/
def kronMultLoop (addβ : β → β → β) (act : C α → β → β) (n : Nat) (us : Fin n → M2 α) (x : List β) : List β :=
  Fin.foldr n (fun s y => stageLoop addβ act (us s) (2 ^ (n - 1 - s.val)) (2 ^ s.val) y) x

end loop

/-- `rotate_psi`: `_kron_mult(us, psi)` on a complex vector of length `2^n`. -/
def rotatePsi (n : Nat) (us : Fin n → M2 α) (psi : Nat → C α) : Nat → C α :=
  kronMult C.add C.mul n us psi

/-- rows of a complex matrix: the `...` axes `_kron_mult` carries along -/
abbrev Row (α : Type) := Nat → C α

/-- entrywise sum of two rows -/
def addRow (a b : Row α) : Row α := fun j => C.add (a j) (b j)
/-- a complex scalar times a row -/
def actRow (c : C α) (a : Row α) : Row α := fun j => C.mul c (a j)

/-- `rotate_rho`: `_kron_mult(us, conjugate(_kron_mult(us, rho)))`,
`cplx.conjugate` = conjugate transpose of a matrix. Entry `(i, j)` of the result. -/
def rotateRho (n : Nat) (us : Fin n → M2 α) (rho : Nat → Nat → C α) : Nat → Nat → C α :=
  kronMult addRow actRow n us (fun i j => C.conj (kronMult addRow actRow n us rho j i))


instance : Inhabited (C α) := ⟨C.zero⟩

/-- `rotate_psi` with the code's loops: `_kron_mult(us, psi)` on the flat complex vector -/
def rotatePsiL (n : Nat) (us : Fin n → M2 α) (psi : List (C α)) : List (C α) :=
  kronMultLoop C.add C.mul n us psi

instance : Inhabited (Row α) := ⟨fun _ => C.zero⟩

/-- `rotate_rho` with the code's loops; the matrix is a list of rows (the `...` axis carried along by `_kron_mult`) -/
def rotateRhoL (n : Nat) (us : Fin n → M2 α) (rho : List (Row α)) : List (Row α) :=
  let r1 := kronMultLoop addRow actRow n us rho
  kronMultLoop addRow actRow n us ((List.range (2 ^ n)).map (fun i => fun j => C.conj ((r1.getD j default) i)))

/-- coefficient `Π_{s ∈ rot} U_s[σ_s, σ'_s]` of `_rotate_basis_state` (`Ut`), for an expanded state `σ'`. -/
def rotCoeff (n : Nat) (us : Fin n → M2 α) (rot : Fin n → Bool) (σ σ' : Fin n → Bool) : C α :=
  C.prod n (fun s => if rot s then us s (σ s) (σ' s) else C.one)

/-- `σ'` is one of the expanded states `v_i` of `_rotate_basis_state`: it agrees with `σ` on every
non-rotated site. -/
def agreesOff (n : Nat) (rot : Fin n → Bool) (σ σ' : Fin n → Bool) : Bool :=
  (List.finRange n).all (fun s => rot s || (σ s == σ' s))

/-- `rotate_psi_inner_prod(basis, σ)`: `Σ_i Ut_i · ψ(v_i)` over the expanded states. -/
def rotatePsiInnerProd (n : Nat) (us : Fin n → M2 α) (rot : Fin n → Bool)
    (psi : (Fin n → Bool) → C α) (σ : Fin n → Bool) : C α :=
  C.sum (2 ^ n) (fun k =>
    let σ' : Fin n → Bool := fun j => spaceBit n k.val j
    if agreesOff n rot σ σ' then C.mul (rotCoeff n us rot σ σ') (psi σ') else C.zero)

/-- `rotate_rho_probs(basis, σ)`: `Σ_{i,j} Re[Ut_i · conj(Ut_j) · ρ(v_i, v_j)]`. -/
def rotateRhoProbs (n : Nat) (us : Fin n → M2 α) (rot : Fin n → Bool)
    (rho : (Fin n → Bool) → (Fin n → Bool) → C α) (σ : Fin n → Bool) : α :=
  sumFin (2 ^ n) (fun k => sumFin (2 ^ n) (fun l =>
    let σ1 : Fin n → Bool := fun j => spaceBit n k.val j
    let σ2 : Fin n → Bool := fun j => spaceBit n l.val j
    if agreesOff n rot σ σ1 && agreesOff n rot σ σ2 then
      (C.mul (C.mul (rotCoeff n us rot σ σ1) (C.conj (rotCoeff n us rot σ σ2))) (rho σ1 σ2)).1
    else 0))

/-- the expanded states in the code's order (`generate_hilbert_space(size = #rot)` written into the
rotated sites), for the `include_extras=True` outputs. -/
def expandStates (n : Nat) (rot : Fin n → Bool) (σ : Fin n → Bool) : List (Fin n → Bool) :=
  let sites := (List.finRange n).filter (fun s => rot s)
  let m := sites.length
  (List.range (2 ^ m)).map (fun i => fun j =>
    if rot j then
      let rank := (sites.takeWhile (fun t => t.val < j.val)).length
      Nat.testBit i (m - 1 - rank)
    else σ j)

/-- which fast path -/
inductive FastPath where
  | innerProd
  | rhoProbs
  deriving DecidableEq, Repr

/-- outcome class when `states` is ONE 1-D vector `(n,)` instead of a batch `(B, n)` (outside the property's quantifier,
"any batch of outcome states"; audit item C04-6). With a rotated site, `v[..., sites] = generate_hilbert_space(size=m).unsqueeze(1)`
(`unitaries.py:177`) writes a `(2^m, 1, m)` tensor into a `(2^m, m)` slice: `RuntimeError`. With an all-`Z` basis
`v = states.unsqueeze(0)`, `Ut = ones((1,))`: `rotate_psi_inner_prod` returns the single amplitude, `rotate_rho_probs` fails in
`np.einsum("ib,jb->ijb", Ut, conj(Ut))` on the 1-D `Ut` (`ValueError`). -/
def vectorStatesOutcome (p : FastPath) (anyRotated : Bool) : Except PyErr Unit :=
  if anyRotated then .error .RuntimeError
  else match p with
    | .innerProd => .ok ()
    | .rhoProbs => .error .ValueError

/-! ### the fast paths as the code computes them: enumeration of the expanded states

`_rotate_basis_state` (`unitaries.py:154-181`), line by line against `expandStates` / `rotCoeff`:
* `sites = np.where(basis != "Z")[0]` — the rotated sites in INCREASING order = `(finRange n).filter rot`; `m = sites.size`;
* `v = states.unsqueeze(0).repeat(2**m, …)` — `2^m` copies of the sample σ (`List.range (2^m)`, non-rotated `j ↦ σ j`);
* `v[..., sites] = generate_hilbert_space(size=m).unsqueeze(1)` — copy `i`, site `sites[t]` receives entry `[i, t]` of the
  size-`m` space, i.e. `spaceBit m i t` = bit `m-1-t` of `i` (big-endian); `t` = position of the site in `sites` =
  number of rotated sites before it (`rank`);
* `Ut[i] = np.prod_t Us[t][:, int_sample[t], int_vp[i, t]]` — row = the SAMPLE's bit, column = the expanded state's bit
  (`rotCoeff`: `us s (σ s) (σ' s)`; the factors `C.one` of the non-rotated sites are exact no-ops);
* `sites.size == 0`: `v = states.unsqueeze(0)`, `Ut = ones` — `expandStates` gives the single state σ, `rotCoeff` the empty
  product `C.one`. -/

/-- `Ut, v = _rotate_basis_state(...)` for one sample σ: the expanded states in the code's order, each with its
coefficient `Ut_i` (`unitaries.py:154-181`). -/
def rotateBasisState (n : Nat) (us : Fin n → M2 α) (rot : Fin n → Bool) (σ : Fin n → Bool) :
    List (C α × (Fin n → Bool)) :=
  (expandStates n rot σ).map (fun v => (rotCoeff n us rot σ v, v))

/-- `rotate_psi_inner_prod(basis, σ)` as coded (`unitaries.py:189-233`): `Ut *= psi(v)`, then
`torch.sum(Upsi_v, dim=1)`: the left-to-right sum over the ENUMERATED expanded states `v_i` of `Ut_i · ψ(v_i)`. -/
def rotatePsiInnerProdE (n : Nat) (us : Fin n → M2 α) (rot : Fin n → Bool)
    (psi : (Fin n → Bool) → C α) (σ : Fin n → Bool) : C α :=
  (expandStates n rot σ).foldl (fun acc v => C.add acc (C.mul (rotCoeff n us rot σ v) (psi v))) C.zero

/-- `rotate_rho_probs(basis, σ)` as coded (`unitaries.py:236-283`): `Ut = einsum("ib,jb->ijb", Ut, conj(Ut))`,
`Ut *= rho(v_i, v_j)`, `torch.sum(real(·), dim=(0, 1))`: the double sum (i outer, j inner) over the ENUMERATED
expanded states of `Re[Ut_i · conj(Ut_j) · ρ(v_i, v_j)]`. -/
def rotateRhoProbsE (n : Nat) (us : Fin n → M2 α) (rot : Fin n → Bool)
    (rho : (Fin n → Bool) → (Fin n → Bool) → C α) (σ : Fin n → Bool) : α :=
  let vs := expandStates n rot σ
  vs.foldl (fun acc vi => acc + vs.foldl (fun a vj =>
    a + (C.mul (C.mul (rotCoeff n us rot σ vi) (C.conj (rotCoeff n us rot σ vj))) (rho vi vj)).1) 0) 0

end Unitaries
end

section
variable {α : Type} [Add α] [Mul α] [Neg α] [Sub α] [Div α] [Zero α] [One α] [Transc α]
namespace Unitaries

/-- `1/np.sqrt(2)` -/
def invSqrt2 : α := 1 / Transc.sqrt two

/-- default dictionary `create_dict()`: `X = [[1,1],[1,-1]]/√2`, `Y = [[1,-i],[1,i]]/√2`, `Z = 1`. -/
def dX : M2 α := fun r c => ((if r && c then -invSqrt2 else invSqrt2), 0)
def dY : M2 α := fun r c =>
  ((if c then 0 else invSqrt2),
   (if c then (if r then invSqrt2 else -invSqrt2) else 0))
def dZ : M2 α := fun r c => ((if r == c then 1 else 0), 0)

/-! ### dictionaries of unitaries: `create_dict`, `_unitaries_of`, lookup by basis letter

`unitaries.py:22-61` (`create_dict`), `:64-72` (`_unitaries_of`, new with `fix:` 4aa6393), and the lookups
`us = [unitaries[b] for b in basis]` (`rotate_psi` `:125`, `rotate_rho` `:156`) resp.
`Us = torch.stack([unitaries[b] for b in basis[sites]])` (`_rotate_basis_state` `:173`: ROTATED sites only). -/

/-- a Python `dict(str, tensor)` of single-qubit matrices: association list, the FIRST entry of a key is the value -/
abbrev UDict (α : Type) := List (Char × M2 α)

/-- `create_dict(**kwargs)`: the default entries `X`, `Y`, `Z`, then `dictionary.update(kwargs)` — a keyword that
shares a default key OVERWRITES the default matrix (docstring `:29-31`), also for `Z`. -/
def createDict (kw : UDict α) : UDict α := kw ++ [('X', dX), ('Y', dY), ('Z', dZ)]

/-- `_unitaries_of(nn_state, unitaries)` (`:64-72`): `if unitaries: return unitaries` (Python truthiness: `None` and
the EMPTY dict are falsy); else `nn_state.unitary_dict` if the state has one (`own = some …`: ComplexWaveFunction,
DensityMatrix); else (`own = none`: PositiveWaveFunction) the default dictionary `create_dict()`. -/
def unitariesOf (given own : Option (UDict α)) : UDict α :=
  match given with
  | some (e :: d) => e :: d
  | _ =>
    match own with
    | some o => o
    | none => createDict []

/-- the per-site matrices of a basis string: `unitaries[b]` for every site `j` with `use j` (`KeyError` when such a
letter is not a key of the dictionary). `use = fun _ => true` for `rotate_psi` / `rotate_rho`; `use j = (basis j != 'Z')`
for `_rotate_basis_state`, which never looks up the letter of a non-rotated site (the matrix placed there, `dZ`, is never
read by the fast-path model). -/
def siteUs {n : Nat} (d : UDict α) (use : Fin n → Bool) (basis : Fin n → Char) : Except PyErr (Fin n → M2 α) :=
  if (List.finRange n).all (fun j => !use j || (d.lookup (basis j)).isSome) then
    .ok (fun j => (d.lookup (basis j)).getD dZ)
  else .error .KeyError

/-- `sites = np.where(basis != "Z")[0]` as a flag per site: a test on the LETTER (`:170`) -/
def rotOf {n : Nat} (basis : Fin n → Char) : Fin n → Bool := fun j => basis j != 'Z'

/-- `rotate_psi(nn_state, basis, space, unitaries, psi)` (`:117-126`) from the dictionary resolution on: lookup of every
letter (`KeyError`), then `_kron_mult`, whose size check `l != x.shape[1]` raises `ValueError`. -/
def rotatePsiD {n : Nat} (given own : Option (UDict α)) (basis : Fin n → Char) (psi : List (C α)) :
    Except PyErr (List (C α)) := do
  let us ← siteUs (unitariesOf given own) (fun _ => true) basis
  if 2 ^ n != psi.length then throw .ValueError
  return rotatePsiL n us psi

/-- `rotate_rho(nn_state, basis, space, unitaries, rho)` (`:148-161`) likewise (`rho` as a list of rows). -/
def rotateRhoD {n : Nat} (given own : Option (UDict α)) (basis : Fin n → Char) (rho : List (Row α)) :
    Except PyErr (List (Row α)) := do
  let us ← siteUs (unitariesOf given own) (fun _ => true) basis
  if 2 ^ n != rho.length then throw .ValueError
  return rotateRhoL n us rho

/-- `rotate_psi_inner_prod(nn_state, basis, σ, unitaries, …)` (`:226-239`) from the dictionary resolution on: only the
letters of rotated sites are looked up; sites whose LETTER is `Z` are left alone whatever the dictionary holds for `Z`. -/
def rotatePsiInnerProdD {n : Nat} (given own : Option (UDict α)) (basis : Fin n → Char)
    (psi : (Fin n → Bool) → C α) (σ : Fin n → Bool) : Except PyErr (C α) := do
  let us ← siteUs (unitariesOf given own) (rotOf basis) basis
  return rotatePsiInnerProdE n us (rotOf basis) psi σ

/-- `rotate_rho_probs(nn_state, basis, σ, unitaries, …)` (`:273-289`) likewise. -/
def rotateRhoProbsD {n : Nat} (given own : Option (UDict α)) (basis : Fin n → Char)
    (rho : (Fin n → Bool) → (Fin n → Bool) → C α) (σ : Fin n → Bool) : Except PyErr α := do
  let us ← siteUs (unitariesOf given own) (rotOf basis) basis
  return rotateRhoProbsE n us (rotOf basis) rho σ

end Unitaries
end
end QV
