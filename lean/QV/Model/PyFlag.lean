/-
QV.Model.PyFlag — the Python objects a caller may hand to an argument documented as `bool`
(`expand`, `overwrite`, `absolute`, `periodic_bcs`, `gpu`) and what the two idioms found in the code do with them:

 * `if flag:` / `x if flag else y` / `flag and …`  — Python TRUTHINESS (`bool(flag)`): every one of the forms below is
   accepted; the singleton `True`, the int `1`, `numpy.bool_(True)` (a flag read from a numpy array or the result of a
   numpy comparison), a 0-dim numpy bool array and a 0-dim `torch.bool` tensor all count as true;
 * `flag is True` / `flag is False` — IDENTITY with the singleton: true for the Python `bool` only.

The code under `/repo` uses truthiness everywhere except `DensityMatrix.rho`'s `if expand is False and vp is None`
(density_matrix.py:265), which is modelled as written (`isFalseSingleton`).
Import-free.
-/
namespace QV

/-- a value passed where the signature documents `bool` -/
inductive PyFlag where
  /-- the singletons `True` / `False` -/
  | pyBool (b : Bool)
  /-- a Python `int` (`0`, `1`, …): truthy iff non-zero; never identical to `True` / `False` -/
  | pyInt (i : Int)
  /-- `numpy.bool_` (`np.True_`, `np.bool_(x)`, `a > b` on numpy scalars / 0-dim arrays) -/
  | npBool (b : Bool)
  /-- a 0-dim numpy array of dtype bool (`np.array(True)`) -/
  | npArr0 (b : Bool)
  /-- a 0-dim `torch.bool` tensor (`torch.tensor(True)`) -/
  | tensor0 (b : Bool)
  deriving DecidableEq, Repr

namespace PyFlag

/-- `bool(flag)`: what `if flag:` tests -/
def truthy : PyFlag → Bool
  | pyBool b => b
  | pyInt i => i != 0
  | npBool b => b
  | npArr0 b => b
  | tensor0 b => b

/-- `flag is True` -/
def isTrueSingleton : PyFlag → Bool
  | pyBool b => b
  | _ => false

/-- `flag is False` -/
def isFalseSingleton : PyFlag → Bool
  | pyBool b => !b
  | _ => false

/-- the flag a caller means: `ofBool form b` is the object of kind `form` (0 … 4, in the order of the constructors) with the
truth value `b` (`int`: `1` / `0`) -/
def ofBool (form : Nat) (b : Bool) : PyFlag :=
  match form with
  | 0 => pyBool b
  | 1 => pyInt (if b then 1 else 0)
  | 2 => npBool b
  | 3 => npArr0 b
  | _ => tensor0 b

end PyFlag
end QV
