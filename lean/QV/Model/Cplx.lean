/-
QV.Model.Cplx — model of `qucumber/utils/cplx.py` (whole file), the real-pair complex tensor kernel.

Representation (as in the code): a tensor is a shape plus ROW-MAJOR data; a *complex* tensor is a
REAL tensor whose leading axis has length 2 (`x[0,...]` real part, `x[1,...]` imaginary part), so
`dim()` of the code is `shape.length` here and counts the complex axis.  Every function below is
composed from models of the torch primitives the code calls (`x[0,...]`, `cat`, broadcasting `mul`,
`matmul`, `dot`, `ger`, `einsum`, `transpose`, `reshape`, in-place `sub_/add_/div_/sqrt_/pow_`) in the
same order and with the same sign conventions as the code.

Everything up to `kroneckerProd` needs ring operations only, so it runs over `Int` (exact tier of the
correspondence check) as well as over `Float`; division / sqrt / exp occur only in the last section.

Object identity (`out is x or out is y`) and dtype (`y.to(x)`) are modelled by `Obj` (id tag + dtype tag).
-/
import QV.Model.CplxScalar
import QV.Model.Hilbert
import QV.Model.PyFlag
namespace QV.Cplx

/-- torch dtypes the kernel meets: `cplx.I` is float32, everything else float64. -/
inductive DType where
  | f32 | f64
  deriving DecidableEq, Repr, Inhabited

/-- a (real) torch tensor / numpy array: shape and row-major (C-contiguous) data -/
structure Tensor (α : Type) where
  shape : List Nat
  data : List α
  deriving Repr

/-- number of elements of a shape -/
def numel : List Nat → Nat
  | [] => 1
  | d :: s => d * numel s

/-- row-major offset of a multi-index -/
def flatten : List Nat → List Nat → Nat
  | _ :: s, i :: is => i * numel s + flatten s is
  | _, _ => 0

/-- multi-index of a row-major offset -/
def unflatten : List Nat → Nat → List Nat
  | [], _ => []
  | _ :: s, o => o / numel s :: unflatten s (o % numel s)

/-- all multi-indices of a shape in row-major order -/
def allIdx : List Nat → List (List Nat)
  | [] => [[]]
  | d :: s => (List.range d).flatMap (fun i => (allIdx s).map (fun is => i :: is))

/-- `data.length = numel shape` (every tensor torch hands out satisfies this) -/
def Tensor.wf {α : Type} (t : Tensor α) : Bool := t.data.length == numel t.shape

/-- the tensor of shape `s` whose entry at multi-index `idx` is `f idx` -/
def build {α : Type} (s : List Nat) (f : List Nat → α) : Tensor α :=
  ⟨s, (List.range (numel s)).map (fun o => f (unflatten s o))⟩

/-! ### broadcasting (torch / numpy rule: right-aligned, size-1 axes expand) -/

/-- pad a shape on the left with 1s up to rank `n` -/
def padL (n : Nat) (s : List Nat) : List Nat := List.replicate (n - s.length) 1 ++ s

/-- broadcast of two axis lengths -/
def bdim (a b : Nat) : Option Nat :=
  if a = b then some a else if a = 1 then some b else if b = 1 then some a else none

/-- broadcast of two shapes of equal rank -/
def bshapeEq : List Nat → List Nat → Option (List Nat)
  | [], [] => some []
  | a :: as, b :: bs =>
    match bdim a b, bshapeEq as bs with
    | some d, some r => some (d :: r)
    | _, _ => none
  | _, _ => none

/-- `torch.broadcast_shapes`; torch raises `RuntimeError` when the shapes do not broadcast -/
def broadcastShape (sx sy : List Nat) : Except PyErr (List Nat) :=
  let n := max sx.length sy.length
  match bshapeEq (padL n sx) (padL n sy) with
  | some r => .ok r
  | none => .error .RuntimeError

/-- the index of operand shape `src` read for result index `idx`: drop the leading axes the operand
does not have, read position 0 along its size-1 axes -/
def bidx (src idx : List Nat) : List Nat :=
  List.zipWith (fun d i => if d = 1 then 0 else i) src (idx.drop (idx.length - src.length))

section ring
variable {α : Type} [Add α] [Mul α] [Neg α] [Sub α] [Zero α] [One α]

/-- entry at a multi-index (0 outside the data; never used for valid indices of a well-formed tensor) -/
def Tensor.at (t : Tensor α) (idx : List Nat) : α := t.data.getD (flatten t.shape idx) 0

/-- left-fold sum of a list -/
def lsum (l : List α) : α := l.foldl (fun acc v => acc + v) 0

/-- elementwise map (`-t`, `sqrt_`, `pow_(2)`) -/
def Tensor.map (f : α → α) (t : Tensor α) : Tensor α := ⟨t.shape, t.data.map f⟩

/-- in-place elementwise combination `a.sub_(b)` / `a.add_(b)` of two tensors of the SAME shape
(in the code both are results of the same primitive on equally shaped operands) -/
def Tensor.zip (f : α → α → α) (a b : Tensor α) : Tensor α := ⟨a.shape, List.zipWith f a.data b.data⟩

/-- `torch.zeros_like` -/
def zerosLike (t : Tensor α) : Tensor α := ⟨t.shape, t.data.map (fun _ => 0)⟩

/-- broadcasting binary operation (`torch.mul`, `/`, `div_`, numpy `+`) -/
def bop (f : α → α → α) (x y : Tensor α) : Except PyErr (Tensor α) :=
  match broadcastShape x.shape y.shape with
  | .ok r => .ok (build r (fun idx => f (x.at (bidx x.shape idx)) (y.at (bidx y.shape idx))))
  | .error e => .error e

/-! ### construction and conversion (cplx.py:23-80) -/

/-- `real(x) = x[0, ...]` (cplx.py:59-68): `IndexError` for a 0-d tensor or an empty leading axis -/
def real (x : Tensor α) : Except PyErr (Tensor α) :=
  match x.shape with
  | [] => .error .IndexError
  | 0 :: _ => .error .IndexError
  | (_ + 1) :: s => .ok ⟨s, x.data.take (numel s)⟩

/-- `imag(x) = x[1, ...]` (cplx.py:71-80): `IndexError` unless the leading axis has length ≥ 2 -/
def imag (x : Tensor α) : Except PyErr (Tensor α) :=
  match x.shape with
  | [] => .error .IndexError
  | 0 :: _ => .error .IndexError
  | 1 :: _ => .error .IndexError
  | (_ + 2) :: s => .ok ⟨s, (x.data.drop (numel s)).take (numel s)⟩

/-- `torch.cat((x.unsqueeze(0), y.unsqueeze(0)), dim=0)`: `RuntimeError` unless the shapes are equal -/
def cat2 (x y : Tensor α) : Except PyErr (Tensor α) :=
  if x.shape = y.shape then .ok ⟨2 :: x.shape, x.data ++ y.data⟩ else .error .RuntimeError

/-- `make_complex(x, y=None)` for torch tensors (cplx.py:41-43) -/
def makeComplex (x : Tensor α) (y : Option (Tensor α)) : Except PyErr (Tensor α) :=
  match y with
  | none => cat2 x (zerosLike x)
  | some y => cat2 x y

/-- `make_complex(z)` for a complex numpy array `z` (cplx.py:38-39): `make_complex(z.real, z.imag)` -/
def ofNdarray (z : Tensor (C α)) : Except PyErr (Tensor α) :=
  makeComplex ⟨z.shape, z.data.map (fun c => c.1)⟩ (some ⟨z.shape, z.data.map (fun c => c.2)⟩)

/-- `numpy(x) = real(x).numpy() + 1j * imag(x).numpy()` (cplx.py:46-56): a complex ndarray -/
def numpy (x : Tensor α) : Except PyErr (Tensor (C α)) := do
  let re ← real x
  let im ← imag x
  pure ⟨re.shape, List.zipWith (fun a b => (a, b)) re.data im.data⟩

/-! ### real torch primitives used by the products -/

/-- `(batch, m, k)` of a shape of rank ≥ 2 -/
def splitMat : List Nat → Option (List Nat × Nat × Nat)
  | [] => none
  | [_] => none
  | [m, k] => some ([], m, k)
  | d :: s => (splitMat s).map (fun r => (d :: r.1, r.2.1, r.2.2))

/-- `torch.matmul` on real tensors: 1-D·1-D dot, 2-D·2-D, 2-D·1-D, 1-D·2-D, and batched with broadcast
batch axes (a 1-D first operand is promoted to `1×k`, a 1-D second operand to `k×1`, the added axis is
removed afterwards). `RuntimeError` for 0-d operands, contraction length or batch mismatch. -/
def matmulR (x y : Tensor α) : Except PyErr (Tensor α) :=
  match x.shape, y.shape with
  | [], _ => .error .RuntimeError
  | _, [] => .error .RuntimeError
  | _, _ =>
    let xv := x.shape.length == 1
    let yv := y.shape.length == 1
    let xs := if xv then 1 :: x.shape else x.shape
    let ys := if yv then y.shape ++ [1] else y.shape
    match splitMat xs, splitMat ys with
    | some (xb, m, k), some (yb, k', p) =>
      if k ≠ k' then .error .RuntimeError else
      match broadcastShape xb yb with
      | .error e => .error e
      | .ok bs =>
        let nb := bs.length
        let xp : Tensor α := ⟨xs, x.data⟩
        let yp : Tensor α := ⟨ys, y.data⟩
        let full := build (bs ++ [m, p]) (fun idx =>
          let bi := idx.take nb
          let i := idx.getD nb 0
          let j := idx.getD (nb + 1) 0
          sumFin k (fun c => xp.at (bidx xb bi ++ [i, c.val]) * yp.at (bidx yb bi ++ [c.val, j])))
        let shape := bs ++ (if xv then [] else [m]) ++ (if yv then [] else [p])
        .ok ⟨shape, full.data⟩
    | _, _ => .error .RuntimeError

/-- `torch.dot`: both 1-D of equal length, result 0-d -/
def dotR (x y : Tensor α) : Except PyErr (Tensor α) :=
  match x.shape, y.shape with
  | [n], [m] =>
    if n = m then .ok ⟨[], [sumFin n (fun c => x.at [c.val] * y.at [c.val])]⟩ else .error .RuntimeError
  | _, _ => .error .RuntimeError

/-- `torch.ger(a, b)`: outer product of two 1-D tensors -/
def gerR (x y : Tensor α) : Except PyErr (Tensor α) :=
  match x.shape, y.shape with
  | [n], [m] => .ok (build [n, m] (fun idx => x.at [idx.getD 0 0] * y.at [idx.getD 1 0]))
  | _, _ => .error .RuntimeError

/-- `torch.transpose(t, 0, 1)` (`IndexError` below rank 2) -/
def transpose01 (t : Tensor α) : Except PyErr (Tensor α) :=
  match t.shape with
  | d0 :: d1 :: s =>
    .ok (build (d1 :: d0 :: s) (fun idx =>
      match idx with
      | j :: i :: rest => t.at (i :: j :: rest)
      | _ => 0))
  | _ => .error .IndexError

/-- `t.reshape(s)` of a contiguous tensor: same data, `RuntimeError` if the sizes differ -/
def reshape (t : Tensor α) (s : List Nat) : Except PyErr (Tensor α) :=
  if numel t.shape = numel s then .ok ⟨s, t.data⟩ else .error .RuntimeError

/-! ### Einstein summation (two operands, explicit output `"A,B->C"`, labels as numbers) -/

/-- a parsed equation `a,b->out` -/
structure EinEq where
  a : List Nat
  b : List Nat
  out : List Nat
  deriving Repr

/-- keep first occurrences -/
def dedup : List Nat → List Nat
  | [] => []
  | x :: xs => x :: (dedup xs).filter (fun y => y != x)

def nodupB : List Nat → Bool
  | [] => true
  | x :: xs => !(xs.contains x) && nodupB xs

/-- the axis length recorded for label `l` in an operand with subscripts `ls` and shape `s` -/
def labelDim (ls s : List Nat) (l : Nat) : Option Nat := (ls.zip s).lookup l

/-- one subscript per axis, and a label repeated inside one operand has equal axis lengths -/
def operandOk (ls s : List Nat) : Bool :=
  ls.length == s.length && (ls.zip s).all (fun p => labelDim ls s p.1 == some p.2)

/-- length of label `l`: the two operands broadcast against each other (size-1 axes expand) -/
def labelSize (eq : EinEq) (sa sb : List Nat) (l : Nat) : Option Nat :=
  match labelDim eq.a sa l, labelDim eq.b sb l with
  | some da, some db => bdim da db
  | some da, none => some da
  | none, some db => some db
  | none, none => none

/-- everything `torch.einsum` checks (each failure is a `RuntimeError`) -/
def einOk (eq : EinEq) (sa sb : List Nat) : Bool :=
  operandOk eq.a sa && operandOk eq.b sb
    && (eq.a ++ eq.b).all (fun l => (labelSize eq sa sb l).isSome)
    && nodupB eq.out && eq.out.all (fun l => (eq.a ++ eq.b).contains l)

/-- the contracted labels: those of the operands that are not in the output, each once -/
def sumLabels (eq : EinEq) : List Nat := (dedup (eq.a ++ eq.b)).filter (fun l => !eq.out.contains l)

/-- value of label `l` under an assignment -/
def envVal (env : List (Nat × Nat)) (l : Nat) : Nat := (env.lookup l).getD 0

/-- the multi-index read from an operand (position 0 along broadcast size-1 axes) -/
def opIdx (ls s : List Nat) (env : List (Nat × Nat)) : List Nat :=
  (ls.zip s).map (fun p => if p.2 = 1 then 0 else envVal env p.1)

/-- `torch.einsum(equation, x, y)` on real tensors -/
def einsumR (eq : EinEq) (x y : Tensor α) : Except PyErr (Tensor α) :=
  if einOk eq x.shape y.shape then
    let size := fun l => (labelSize eq x.shape y.shape l).getD 0
    let sl := sumLabels eq
    .ok (build (eq.out.map size) (fun idx =>
      lsum ((allIdx (sl.map size)).map (fun sidx =>
        let env := eq.out.zip idx ++ sl.zip sidx
        x.at (opIdx eq.a x.shape env) * y.at (opIdx eq.b y.shape env)))))
  else .error .RuntimeError

/-! ### the equation string: implicit output and the ellipsis (what `torch.einsum` does before contracting)

`cplx.einsum` hands `equation` to `torch.einsum` unchanged, so every form torch accepts is accepted: `"ij,jk"` (no `->`: the
output is made of the labels that occur exactly once, sorted) and `"...j,jk->...k"` (`...` stands for the axes of an operand
not covered by its named subscripts; the ellipsis axes of the operands are aligned FROM THE RIGHT and broadcast; in
implicit mode they come first in the output; left out of an explicit output they are summed).  The string is cut into
tokens by the harness (labels = character codes, `...` = `Tok.ell`, spaces dropped); everything after that is modelled:
`elabEq` turns a raw equation plus the operand ranks into an explicit `EinEq`, giving the ellipsis axes fresh labels. -/

/-- a subscript: a named label or the ellipsis `...` -/
inductive Tok where
  | lab (l : Nat)
  | ell
  deriving Repr, DecidableEq

/-- a tokenised equation: the two operand subscripts and the output subscripts when `->` is present -/
structure RawEq where
  a : List Tok
  b : List Tok
  out : Option (List Tok)
  deriving Repr

/-- the named labels of a subscript list, in order -/
def Tok.labels : List Tok → List Nat
  | [] => []
  | .lab l :: ts => l :: Tok.labels ts
  | .ell :: ts => Tok.labels ts

/-- number of `...` in a subscript list -/
def Tok.ellCount : List Tok → Nat
  | [] => 0
  | .lab _ :: ts => Tok.ellCount ts
  | .ell :: ts => Tok.ellCount ts + 1

/-- the number of axes the ellipsis of an operand of rank `r` covers (0 when there is none); `none` when torch rejects the
operand: without ellipsis the number of subscripts must equal the rank, with one ellipsis it must not exceed it, a second
ellipsis is an error -/
def ellCover (ts : List Tok) (r : Nat) : Option Nat :=
  let n := (Tok.labels ts).length
  match Tok.ellCount ts with
  | 0 => if n = r then some 0 else none
  | 1 => if n ≤ r then some (r - n) else none
  | _ => none

/-- the labels given to the ellipsis axes: the equation has `K` of them, `base, …, base+K-1`; an ellipsis that covers
`k ≤ K` axes gets the LAST `k` (alignment from the right) -/
def ellLabels (base K k : Nat) : List Nat := (List.range k).map (fun i => base + (K - k) + i)

/-- subscripts with the ellipsis (covering `k` axes) replaced by its labels -/
def expandSub (base K k : Nat) : List Tok → List Nat
  | [] => []
  | .lab l :: ts => l :: expandSub base K k ts
  | .ell :: ts => ellLabels base K k ++ expandSub base K k ts

/-- insertion into a sorted list -/
def insertSorted (x : Nat) : List Nat → List Nat
  | [] => [x]
  | y :: ys => if x ≤ y then x :: y :: ys else y :: insertSorted x ys

/-- insertion sort -/
def sortNat (l : List Nat) : List Nat := l.foldr insertSorted []

/-- implicit output: the labels that occur exactly once in the operands, in increasing order (torch orders `A-Z` before
`a-z`, as the character codes do) -/
def onceLabels (l : List Nat) : List Nat := sortNat (l.filter (fun x => l.count x == 1))

/-- `torch.einsum`'s treatment of the equation for operands of tensor shapes `sa`, `sb`: an explicit `EinEq` whose ellipsis
axes carry labels larger than every named label, or `RuntimeError` -/
def elabEq (raw : RawEq) (sa sb : List Nat) : Except PyErr EinEq :=
  match ellCover raw.a sa.length, ellCover raw.b sb.length with
  | some ka, some kb =>
    let K := max ka kb
    let named := Tok.labels raw.a ++ Tok.labels raw.b
    let base := (named ++ (match raw.out with | some o => Tok.labels o | none => [])).foldl max 0 + 1
    let a := expandSub base K ka raw.a
    let b := expandSub base K kb raw.b
    match raw.out with
    | none => .ok ⟨a, b, ellLabels base K K ++ onceLabels named⟩
    | some o => if Tok.ellCount o ≤ 1 then .ok ⟨a, b, expandSub base K K o⟩ else .error .RuntimeError
  | _, _ => .error .RuntimeError

/-- an equation no pair of operands satisfies (unknown output label): stands for a string torch rejects -/
def badEq : EinEq := ⟨[], [], [0]⟩

/-! ### products (cplx.py:83-224, 298-317) -/

/-- tensor part of `scalar_mult(x, y)` (cplx.py:98-107):
`re = xr*yr − xi*yi`, `im = xr*yi + xi*yr` with broadcasting `torch.mul` -/
def scalarMult (x y : Tensor α) : Except PyErr (Tensor α) := do
  let xr ← real x
  let yr ← real y
  let rr ← bop (fun a b => a * b) xr yr
  let xi ← imag x
  let yi ← imag y
  let ii ← bop (fun a b => a * b) xi yi
  let ri ← bop (fun a b => a * b) xr yi
  let ir ← bop (fun a b => a * b) xi yr
  cat2 (rr.zip (fun a b => a - b) ii) (ri.zip (fun a b => a + b) ir)

/-- a tensor OBJECT: identity tag, dtype tag, value -/
structure Obj (α : Type) where
  id : Nat
  dtype : DType
  t : Tensor α

/-- `y.to(x)`: `y` itself when the dtypes agree, otherwise a NEW tensor of `x`'s dtype with the same
values (the cast is exact for float32→float64 and for small integers, the only cases exercised) -/
def toLike (y x : Obj α) (fresh : Nat) : Obj α :=
  if y.dtype = x.dtype then y else ⟨fresh, x.dtype, y.t⟩

/-- `(2, *torch.broadcast_shapes(real(x).shape, real(y).shape))` (cplx.py:101): the shape of the product;
`IndexError` from `real`, torch's `RuntimeError` when the shapes do not broadcast -/
def resultShape (x y : Tensor α) : Except PyErr (List Nat) := do
  let xr ← real x
  let yr ← real y
  let r ← broadcastShape xr.shape yr.shape
  pure (2 :: r)

/-- `scalar_mult(x, y, out=None)` (cplx.py:83-107) on objects, in the code's order:
1. `out is x or out is y` on the ORIGINAL objects → `RuntimeError` (whatever the dtypes and shapes);
2. `y = y.to(x)`;
3. without `out`: a new tensor of `x`'s dtype; with `out`: its shape must be `(2, *broadcast_shapes(…))`, else
   `ValueError`;
4. the product is written into `out` (its identity and dtype are the result's). -/
def scalarMultO (x y : Obj α) (out : Option (Obj α)) (freshCast freshOut : Nat) : Except PyErr (Obj α) :=
  match out with
  | none => do
    let y' := toLike y x freshCast
    let r ← scalarMult x.t y'.t
    pure ⟨freshOut, x.dtype, r⟩
  | some o =>
    if o.id = x.id ∨ o.id = y.id then .error .RuntimeError
    else do
      let y' := toLike y x freshCast
      let rs ← resultShape x.t y'.t
      if o.t.shape ≠ rs then .error .ValueError
      else do
        let r ← scalarMult x.t y'.t
        pure ⟨o.id, o.dtype, r⟩

/-! ### storage: strided views of a flat memory (cplx.py:104-109, as fixed by 96aa40c)

`Obj` above distinguishes tensor OBJECTS; it says nothing about where their entries live.  An `out=` buffer may be a
different object that shares storage with an operand (`x[...]`, `x.view_as(x)`, `x.detach()`, `x.data`, overlapping
slices of one workspace) or a non-contiguous view (transposed buffer, column of a workspace, every second element).
The identity test accepts all of these, so the write-back has to be right for them. -/

/-- a strided view: the logical shape and the storage address of every entry, in row-major order of the logical
index (`storage_offset + Σ idx_k * stride_k`; repeated addresses for expanded stride-0 axes) -/
structure View where
  shape : List Nat
  addr : List Nat
  deriving Repr

/-- the tensor a view shows -/
def readView (m : Nat → α) (v : View) : Tensor α := ⟨v.shape, v.addr.map m⟩

/-- `dst.copy_(src)` seen from the storage: the entries are stored one after the other at the addresses of the
destination view -/
def writeList (m : Nat → α) : List Nat → List α → (Nat → α)
  | a :: as, v :: vs => writeList (fun i => if i = a then v else m i) as vs
  | _, _ => m

/-- steps 3-4 of `scalar_mult(x, y, out=o)` (cplx.py:101-109) on views of one memory `m`, i.e. after the identity
test and `y.to(x)` (a cast copy shows the same values): shape test (`ValueError`), then BOTH parts are computed from
the operands' current content into temporaries (`re`, `im`: the two halves of `scalarMult`'s data) and only then
`real(out).copy_(re)`, `imag(out).copy_(im)`.  Returns the memory afterwards and the tensor `out` shows. -/
def scalarMultMem (m : Nat → α) (x y o : View) : Except PyErr ((Nat → α) × Tensor α) := do
  let xt := readView m x
  let yt := readView m y
  let rs ← resultShape xt yt
  if o.shape ≠ rs then .error .ValueError
  else do
    let r ← scalarMult xt yt
    let n := numel (o.shape.drop 1)
    let m1 := writeList m (o.addr.take n) (r.data.take n)
    let m2 := writeList m1 (o.addr.drop n) (r.data.drop n)
    pure (m2, readView m2 o)

/-- `matmul(x, y)` (cplx.py:110-128) -/
def matmul (x y : Tensor α) : Except PyErr (Tensor α) := do
  let xr ← real x
  let yr ← real y
  let rr ← matmulR xr yr
  let xi ← imag x
  let yi ← imag y
  let ii ← matmulR xi yi
  let ri ← matmulR xr yi
  let ir ← matmulR xi yr
  makeComplex (rr.zip (fun a b => a - b) ii) (some (ri.zip (fun a b => a + b) ir))

/-- `inner_prod(x, y)` (cplx.py:131-159): `⟨x|y⟩`; `dim()` counts the complex axis -/
def innerProd (x y : Tensor α) : Except PyErr (Tensor α) :=
  if x.shape.length = 2 ∧ y.shape.length = 2 then do
    let xr ← real x
    let yr ← real y
    let rr ← dotR xr yr
    let xi ← imag x
    let yi ← imag y
    let ii ← dotR xi yi
    let ri ← dotR xr yi
    let ir ← dotR xi yr
    makeComplex (rr.zip (fun a b => a + b) ii) (some (ri.zip (fun a b => a - b) ir))
  else if x.shape.length = 1 ∧ y.shape.length = 1 then do
    let xr ← real x
    let yr ← real y
    let rr ← bop (fun a b => a * b) xr yr
    let xi ← imag x
    let yi ← imag y
    let ii ← bop (fun a b => a * b) xi yi
    let ri ← bop (fun a b => a * b) xr yi
    let ir ← bop (fun a b => a * b) xi yr
    makeComplex (rr.zip (fun a b => a + b) ii) (some (ri.zip (fun a b => a - b) ir))
  else .error .ValueError

/-- `outer_prod(x, y)` (cplx.py:162-185):
`z[0] = ger(xr, yr) − ger(xi, −yi)`, `z[1] = ger(xr, −yi) + ger(xi, yr)` -/
def outerProd (x y : Tensor α) : Except PyErr (Tensor α) :=
  if x.shape.length ≠ 2 ∨ y.shape.length ≠ 2 then .error .ValueError
  else do
    let xr ← real x
    let yr ← real y
    let g1 ← gerR xr yr
    let xi ← imag x
    let yi ← imag y
    let g2 ← gerR xi (yi.map (fun v => -v))
    let g3 ← gerR xr (yi.map (fun v => -v))
    let g4 ← gerR xi yr
    -- `z[0] = …; z[1] = …` into `zeros(2, n, m)`
    cat2 (g1.zip (fun a b => a - b) g2) (g3.zip (fun a b => a + b) g4)

/-- result of `einsum`: a complex tensor, a real tensor, or Python `None` -/
inductive EinRes (α : Type) where
  | cplx (t : Tensor α)
  | re (t : Tensor α)
  | none

/-- `r` of `einsum` (cplx.py:208-211): `einsum(re a, re b).sub_(einsum(im a, im b))` -/
def einsumRe (eq : EinEq) (a b : Tensor α) : Except PyErr (Tensor α) := do
  let ar ← real a
  let br ← real b
  let rr ← einsumR eq ar br
  let ai ← imag a
  let bi ← imag b
  let ii ← einsumR eq ai bi
  pure (rr.zip (fun u v => u - v) ii)

/-- `i` of `einsum` (cplx.py:212-215): `einsum(re a, im b).add_(einsum(im a, re b))` -/
def einsumIm (eq : EinEq) (a b : Tensor α) : Except PyErr (Tensor α) := do
  let ar ← real a
  let bi ← imag b
  let ri ← einsumR eq ar bi
  let ai ← imag a
  let br ← real b
  let ir ← einsumR eq ai br
  pure (ri.zip (fun u v => u + v) ir)

/-- `einsum(equation, a, b)` with both parts: `make_complex(r, i)` -/
def einsumFull (eq : EinEq) (a b : Tensor α) : Except PyErr (Tensor α) := do
  let r ← einsumRe eq a b
  let i ← einsumIm eq a b
  makeComplex r (some i)

/-- `einsum(equation, a, b, real_part, imag_part)` (cplx.py:188-224) -/
def einsum (eq : EinEq) (a b : Tensor α) (realPart imagPart : Bool) : Except PyErr (EinRes α) :=
  match realPart, imagPart with
  | true, true => do
    let z ← einsumFull eq a b
    pure (.cplx z)
  | true, false => do
    let r ← einsumRe eq a b
    pure (.re r)
  | false, true => do
    let i ← einsumIm eq a b
    pure (.re i)
  | false, false => pure .none

/-- `einsum(equation, a, b, real_part, imag_part)` for a tokenised equation string: the equation is elaborated against the
tensor shapes of the operands (the shape of `real(a)` / `imag(a)`: `a.shape` without the complex axis); a string torch
rejects behaves like `badEq`, i.e. `RuntimeError` at the first `torch.einsum` call and nothing at all when no part is
requested -/
def einsumS (raw : RawEq) (a b : Tensor α) (realPart imagPart : Bool) : Except PyErr (EinRes α) :=
  match elabEq raw (a.shape.drop 1) (b.shape.drop 1) with
  | .ok eq => einsum eq a b realPart imagPart
  | .error _ => einsum badEq a b realPart imagPart

/-- `einsum(equation, a, b, real_part, imag_part)` with the OBJECTS a caller hands to the two options documented as `bool`
(cplx.py:209-224): every test of the code is a truth test (`if real_part:`, `if imag_part:`, `if real_part and imag_part:`,
`elif real_part:`, `elif imag_part:`), never an identity test, so `1` / `0`, `numpy.bool_`, 0-dim bool arrays / tensors select the
parts like the singletons -/
def einsumF (raw : RawEq) (a b : Tensor α) (realPart imagPart : PyFlag) : Except PyErr (EinRes α) :=
  einsumS raw a b realPart.truthy imagPart.truthy

/-- `conj(x)` (cplx.py:248-257) -/
def conj (x : Tensor α) : Except PyErr (Tensor α) := do
  let xr ← real x
  let xi ← imag x
  makeComplex xr (some (xi.map (fun v => -v)))

/-- `conjugate(x)` (cplx.py:227-245): `dim() < 3` → `conj`; otherwise conj + swap of the first two
tensor axes -/
def conjugate (x : Tensor α) : Except PyErr (Tensor α) :=
  if x.shape.length < 3 then conj x
  else do
    let xr ← real x
    let tr ← transpose01 xr
    let xi ← imag x
    let ti ← transpose01 xi
    makeComplex tr (some (ti.map (fun v => -v)))

/-- `elementwise_mult(x, y)` (cplx.py:260-262) -/
def elementwiseMult (x y : Tensor α) : Except PyErr (Tensor α) := scalarMult x y

/-- the equation `"ab,cd->acbd"` -/
def kronEq : EinEq := ⟨[0, 1], [2, 3], [0, 2, 1, 3]⟩

/-- `kronecker_prod(x, y)` (cplx.py:298-317) -/
def kroneckerProd (x y : Tensor α) : Except PyErr (Tensor α) :=
  if ¬ (x.shape.length = y.shape.length ∧ y.shape.length = 3) then .error .ValueError
  else do
    let z ← einsumFull kronEq x y
    reshape z [2, x.shape.getD 1 0 * y.shape.getD 1 0, x.shape.getD 2 0 * y.shape.getD 2 0]

/-- `norm_sqr(x) = real(inner_prod(x, x))` (cplx.py:369-378) -/
def normSqr (x : Tensor α) : Except PyErr (Tensor α) := do
  let p ← innerProd x x
  real p

end ring

/-! ### division, modulus, sigmoid (cplx.py:268-301, 326-408)

The formulas are those of the code as it is since fix F17 (/repo commit 7038bfb; the patches are kept in `proposed/F17_*.diff`, the
tags "after F17_…" below name the part of that commit): the modulus is `torch.hypot`,
quotients scale the divisor by its larger component before `|·|²` is formed, `norm` scales by the largest component, the
sigmoid forms `e^{-z}` in the right half plane and `e^{z}` in the left one.  Over ℝ these are the same numbers as the
textbook formulas (theorems `C15_absolute_value`, `C15_inverse`, …); over `Float` no intermediate leaves the finite range
when the result is representable, which the pre-F17 formulas (`|z|²` formed explicitly, `e^z/(1+e^z)`) did for moduli
beyond 1e±154 resp. `Re z > 709.78`. -/
section field
variable {α : Type} [Add α] [Mul α] [Neg α] [Sub α] [Div α] [Zero α] [One α] [Transc α] [LT α] [DecidableLT α]

/- `hypot`, `expC`, `sigC` (one number at a time) are defined in `QV.Model.CplxScalar` (namespace `QV.Cplx`), where the gradient
model shares them. -/

/-- `absolute_value(x) = torch.hypot(real(x), imag(x))` (cplx.py:292-301, after F17_abs) -/
def absoluteValue (x : Tensor α) : Except PyErr (Tensor α) := do
  let xr ← real x
  let xi ← imag x
  pure (xr.zip hypot xi)

/-- `torch.max(real(z).abs(), imag(z).abs())`: the larger component of every entry (cplx.py:283, 375) -/
def cscale (z : Tensor α) : Except PyErr (Tensor α) := do
  let zr ← real z
  let zi ← imag z
  pure (zr.zip (fun a b => Transc.max (Transc.abs a) (Transc.abs b)) zi)

/-- `elementwise_division(x, y)` (cplx.py:268-289, after F17_division): with `scale` the larger component of `y`,
`(x/scale)·conj(y/scale)` divided (broadcast `div_`) by `absolute_value(y/scale).pow_(2)` -/
def elementwiseDivision (x y : Tensor α) : Except PyErr (Tensor α) :=
  if x.shape ≠ y.shape then .error .ValueError
  else do
    let sc ← cscale y
    let y' ← bop (fun a b => a / b) y sc
    let ys ← conj y'
    let ab ← absoluteValue y'
    let sq := ab.map (fun v => v * v)
    let x' ← bop (fun a b => a / b) x sc
    let p ← elementwiseMult x' ys
    bop (fun a b => a / b) p sq

/-- `inverse(z)` (cplx.py:364-380, after F17_division): with `scale` the larger component of `z` and `w = z/scale`,
`conj(w) / real(scalar_mult(w, conj(w))) / scale` -/
def inverse (z : Tensor α) : Except PyErr (Tensor α) := do
  let sc ← cscale z
  let z' ← bop (fun a b => a / b) z sc
  let zs ← conj z'
  let p ← scalarMult z' zs
  let den ← real p
  let q ← bop (fun a b => a / b) zs den
  bop (fun a b => a / b) q sc

/-- `scalar_divide(x, y) = scalar_mult(x, inverse(y))` (cplx.py:348-361) -/
def scalarDivide (x y : Tensor α) : Except PyErr (Tensor α) := do
  let iy ← inverse y
  scalarMult x iy

/-- `x.abs().max()` of a non-empty tensor -/
def maxAbs (l : List α) : α := l.foldl (fun acc v => Transc.max acc (Transc.abs v)) 0

/-- `norm(x)` (cplx.py:395-408, after F17_norm): `scale = x.abs().max()` (1 for the zero tensor),
`norm_sqr(x / scale).sqrt_().mul_(scale)` -/
def norm (x : Tensor α) : Except PyErr (Tensor α) := do
  let m := maxAbs x.data
  let sc := if 0 < m then m else 1
  let n ← normSqr (x.map (fun v => v / sc))
  pure (n.map (fun v => Transc.sqrt v * sc))

/-- `sigmoid(x, y)` (cplx.py:326-345) of two REAL tensors: numpy broadcasting of `x + 1j*y`
(`ValueError` when they do not broadcast), then `[real(out), imag(out)]` -/
def sigmoid (x y : Tensor α) : Except PyErr (Tensor α) :=
  match broadcastShape x.shape y.shape with
  | .error _ => .error .ValueError
  | .ok r =>
    let re := build r (fun idx => (sigC (x.at (bidx x.shape idx), y.at (bidx y.shape idx))).1)
    let im := build r (fun idx => (sigC (x.at (bidx x.shape idx), y.at (bidx y.shape idx))).2)
    cat2 re im

end field
end QV.Cplx
