/-
QV.Model.Observables — model of the built-in observables
  `qucumber/observables/pauli.py`        (flip_spin, SigmaX, SigmaY, SigmaZ)
  `qucumber/observables/interactions.py` (NeighbourInteraction)
  `qucumber/observables/utils.py`        (to_pm1)
  `qucumber/observables/entanglement.py` (swap, SWAP)
and of the importance-sampling interface of the neural states
  `importance_sampling_numerator/denominator` (wavefunction.py:83-87, density_matrix.py:275-279),
  `importance_sampling_weight` (neural_state.py:299-324).

Representation.  A sample is a bit-vector `Fin n → Bool` (the `torch.double` rows of a sample tensor
hold 0.0/1.0; `bit` converts).  A neural state enters only through its importance-sampling interface
`ImpState` (numerator, denominator), which is what the observables call; `ImpState.pure psi` and
`ImpState.mixed rho prob` are the two implementations in the library, generic over the amplitude
function, so the same definitions are instantiated with `Wave.psiPos`, `Wave.psiCplx`, `Density.rho`
by the driver and with arbitrary functions by the theorems.

Every observable is modelled twice:
 * a per-sample function (`sigmaXApply`, …, `swapApply`) — what one row of the result is;
 * a batch run on an explicit heap of sample tensors (`sigmaXRun`, …, `swapRun`) that performs the
   code's `clone()` / in-place `flip_spin` / in-place `swap` / `torch.roll` steps on heap cells, so that
   "the caller's tensor is not modified" is a statement about cell ids.  The driver executes the runs;
   `QV.Props.C08_no_mutation` / `C09_no_mutation` prove run = map of the per-sample function + frame.
-/
import QV.Model.CplxScalar
import QV.Model.Hilbert
import QV.Model.PyFlag
namespace QV

variable {α : Type} [Add α] [Mul α] [Neg α] [Sub α] [Div α] [Zero α] [One α] [Transc α]

/-- a basis state / one row of a sample tensor -/
abbrev Cfg (n : Nat) := Fin n → Bool

/-- `to_pm1(x)`: `x.mul(2.0).sub(1.0)` (observables/utils.py:16-24) -/
def toPm1 (x : α) : α := x * two - 1

/-- `to_01(x)`: `x.add(1.0).div(2.0)` (observables/utils.py:26-33) -/
def to01 (x : α) : α := (x + 1) / two

/-- spin value of a bit in the library's convention `0 ↦ −1, 1 ↦ +1`: `to_pm1` of the 0/1 entry -/
def spin (b : Bool) : α := toPm1 (bit b)

/-! ### the identity strings the built-in observables give themselves (`self.name = …; self.symbol = …` in
pauli.py:46-47, 96-97, 149-150, entanglement.py:54-55, interactions.py:37-40). Names are the keys under which `System`
and `ObservableEvaluator` report an observable. -/

/-- `"{}".format(flag)` for the object handed over as a flag: `format(x, "")` of a `bool` / `numpy.bool_` is
`True` / `False`, of an `int` its decimal; a 0-d numpy array and a 0-d torch tensor format as their ITEM
(`ndarray.__format__`, `Tensor.__format__`), not as `array(True)` / `tensor(True)`. -/
def PyFlag.pyFormat : PyFlag → String
  | .pyBool b => if b then "True" else "False"
  | .pyInt i => toString i
  | .npBool b => if b then "True" else "False"
  | .npArr0 b => if b then "True" else "False"
  | .tensor0 b => if b then "True" else "False"

/-- `"{}".format(c)` / `f"{c}"` for the interaction distance: the decimal numeral for a Python int, a numpy integer, a
0-d numpy array and a 0-d torch tensor alike (the latter two format as their item) -/
def distStr (c : Nat) : String := toString c

/-- the built-in observable classes with the constructor arguments that enter their names -/
inductive Builtin where
  | sigmaX | sigmaY | sigmaZ | swap
  | neighbour (periodic : PyFlag) (c : Nat)

/-- `(class name, name, symbol)` after `__init__`: note that `absolute` (Pauli) and `A` (SWAP) do NOT enter the name —
two such observables given to one `System` collide (known finding F19) — while `periodic_bcs` and `c` do, formatted
from the objects AS PASSED (`periodic_bcs=1` reads `1`, not `True`). -/
def Builtin.names : Builtin → String × String × String
  | .sigmaX => ("SigmaX", "SigmaX", "X")
  | .sigmaY => ("SigmaY", "SigmaY", "Y")
  | .sigmaZ => ("SigmaZ", "SigmaZ", "Z")
  | .swap => ("SWAP", "SWAP", "S")
  | .neighbour p c =>
    ("NeighbourInteraction",
     "NeighbourInteraction(periodic_bcs=" ++ p.pyFormat ++ ", c=" ++ distStr c ++ ")",
     "(Z_i * Z_(i+" ++ distStr c ++ "))")

/-- The importance-sampling interface of `NeuralStateBase` (neural_state.py:266-324):
`numer vp v = importance_sampling_numerator(vp, v)`, `denom v = importance_sampling_denominator(v)`. -/
structure ImpState (α : Type) (n : Nat) where
  numer : Cfg n → Cfg n → C α
  denom : Cfg n → C α

namespace ImpState
variable {n : Nat}

/-- `WaveFunctionBase` (wavefunction.py:83-87): numerator `psi(vp)`, denominator `psi(v)`. -/
def pure (psi : Cfg n → C α) : ImpState α n := ⟨fun vp _ => psi vp, fun v => psi v⟩

/-- `DensityMatrix` (density_matrix.py:275-279): numerator `rho(vp, v, expand=False)` — first argument
the primed configuration —, denominator `make_complex(probability(v))` (imaginary part `zeros_like`). -/
def mixed (rho : Cfg n → Cfg n → C α) (prob : Cfg n → α) : ImpState α n :=
  ⟨fun vp v => rho vp v, fun v => (prob v, 0)⟩

/-- `importance_sampling_weight(vp, v)`: `cplx.elementwise_division(numerator(vp, v), denominator(v))` -/
def weight (S : ImpState α n) (vp v : Cfg n) : C α := C.div (S.numer vp v) (S.denom v)

end ImpState

section perSample
variable {n : Nat}

/-- `flip_spin(i, samples)` on one row: `samples[..., i].sub_(1).abs_()`; on a 0/1 entry `|x − 1|`
is the other bit (`flipEntry_bit` in QV/Lemmas/Observables). All other sites are untouched. -/
def flipSpin (i : Fin n) (σ : Cfg n) : Cfg n := fun j => if j = i then !(σ j) else σ j

/-- the scalar operation `flip_spin` performs on an entry: `x.sub_(1).abs_()` -/
def flipEntry (x : α) : α := Transc.abs (x - 1)

/-- `res.abs_()` if `self.absolute` else `res` -/
def absIf (absolute : Bool) (r : α) : α := if absolute then Transc.abs r else r

/-- `SigmaX.apply` for one sample (pauli.py:50-83):
`numer_sum = Σ_i numerator(flip_i σ, σ)` (accumulated from zero in site order), then
`elementwise_division(numer_sum, denom)`, real part, `.div_(num_sites)`, optional `abs_`. -/
def sigmaXApply (S : ImpState α n) (absolute : Bool) (σ : Cfg n) : α :=
  let numerSum := C.sum n (fun i => S.numer (flipSpin i σ) σ)
  absIf absolute ((C.div numerSum (S.denom σ)).1 / Transc.ofNat n)

/-- `SigmaY.apply` for one sample (pauli.py:100-136): as `SigmaX` but each numerator is multiplied
(`elementwise_mult(numer, coeff)`) by `coeff = make_complex(0, to_pm1(σ_i))`, i.e. `i·s_i` with `s_i`
the spin of the UNFLIPPED sample at the flipped site. -/
def sigmaYApply (S : ImpState α n) (absolute : Bool) (σ : Cfg n) : α :=
  let numerSum := C.sum n (fun i => C.mul (S.numer (flipSpin i σ) σ) (0, spin (σ i)))
  absIf absolute ((C.div numerSum (S.denom σ)).1 / Transc.ofNat n)

/-- `SigmaZ.apply` for one sample (pauli.py:155-171): `to_pm1(samples.mean(1))`, optional `abs_`.
The state is not consulted. -/
def sigmaZApply (absolute : Bool) (σ : Cfg n) : α :=
  absIf absolute (toPm1 (sumFin n (fun i => bit (σ i)) / Transc.ofNat n))

/-- `NeighbourInteraction(periodic_bcs=False, c).apply` for one sample (interactions.py:44-63):
`samples[:, :-c] * samples[:, c:]` in ±1 convention, `.sum(1).div_(L)`.
For `c ≥ 1` Python's slices are columns `0 … L-c-1` and `c … L-1` (both EMPTY when `c ≥ L`), so the
terms are `s_k · s_{c+k}` for `k < L - c` (truncated subtraction = empty slice).
For `c = 0` the first slice `[:, :-0] = [:, :0]` is empty and the second is everything: torch raises a
`RuntimeError` (size mismatch) unless `L ≤ 1`, where broadcasting against the empty slice gives an
empty product. -/
def neighbourOpenApply (c : Nat) (σ : Cfg n) : Except PyErr α :=
  if c = 0 ∧ 2 ≤ n then .error .RuntimeError
  else if c = 0 then .ok ((0 : α) / Transc.ofNat n)
  else .ok (sumFin (n - c) (fun k =>
      (spin (σ ⟨k.val, by have := k.isLt; omega⟩) : α) * spin (σ ⟨c + k.val, by have := k.isLt; omega⟩))
    / Transc.ofNat n)

/-- `NeighbourInteraction(periodic_bcs=True, c).apply` for one sample:
`perm_indices = [(i + c) % L for i in range(L)]`, `samples * samples[:, perm_indices]`, `.sum(1).div_(L)`. -/
def neighbourPeriodicApply (c : Nat) (σ : Cfg n) : α :=
  sumFin n (fun i =>
      (spin (σ i) : α) * spin (σ ⟨(i.val + c) % n, Nat.mod_lt _ (by have := i.isLt; omega)⟩))
    / Transc.ofNat n

/-- `combine σ τ A`: the configuration that takes the sites of region `A` from `σ` and all other sites
from `τ`. -/
def combine (σ τ : Cfg n) (A : Fin n → Bool) : Cfg n := fun j => if A j then σ j else τ j

/-- `swap(s1, s2, A)` on one pair of rows (entanglement.py:21-36):
`_s = s1[:, A].clone(); s1[:, A] = s2[:, A]; s2[:, A] = _s` — region `A` exchanged, the rest kept. -/
def swapRows (A : Fin n → Bool) (s1 s2 : Cfg n) : Cfg n × Cfg n := (combine s2 s1 A, combine s1 s2 A)

/-- `SWAP.apply` for one pair `(s1, s2)` of replica samples (entanglement.py:80-90):
`weight1 = weight(s1', s1)`, `weight2 = weight(s2', s2)` with `(s1', s2') = swap(s1, s2, A)`;
`real(elementwise_mult(weight1, weight2))`. -/
def swapApply (S : ImpState α n) (A : Fin n → Bool) (s1 s2 : Cfg n) : α :=
  let p := swapRows A s1 s2
  (C.mul (S.weight p.1 s1) (S.weight p.2 s2)).1

end perSample

/-! ### Region argument of `SWAP(A)` -/

/-- The region argument `A` of `SWAP` (int / list / np.array / torch.Tensor of site indices) as the list
of integers it denotes; torch advanced indexing `s[:, A]` accepts negative indices `-n ≤ k < 0` (meaning
`n + k`), raises `IndexError` outside `[-n, n)`; repeated indices select the same column again (the
assignment is idempotent). Result: membership predicate of the region. -/
def normRegion (n : Nat) (A : List Int) : Except PyErr (Fin n → Bool) :=
  if A.all (fun k => decide (-(n : Int) ≤ k ∧ k < (n : Int))) then
    .ok (fun j => A.any (fun k => (if k < 0 then k + (n : Int) else k) == (j.val : Int)))
  else .error .IndexError

/-! ### Batch runs on a heap of sample tensors -/

/-- a rank-2 sample tensor: list of rows -/
abbrev Batch (n : Nat) := List (Cfg n)

/-- Heap of sample tensors: `cells id` is the current content of tensor `id`; ids `< next` are allocated.
(`clone()` / `torch.roll` / `to_pm1` allocate a fresh tensor, `sub_`/`abs_`/index assignment write in place.) -/
structure THeap (n : Nat) where
  cells : Nat → Batch n
  next : Nat

namespace THeap
variable {n : Nat}

/-- allocate a fresh tensor with the given content, return its id -/
def alloc (h : THeap n) (b : Batch n) : THeap n × Nat :=
  (⟨fun k => if k = h.next then b else h.cells k, h.next + 1⟩, h.next)

/-- `t.clone()` -/
def clone (h : THeap n) (id : Nat) : THeap n × Nat := h.alloc (h.cells id)

/-- in-place write to tensor `id` -/
def write (h : THeap n) (id : Nat) (b : Batch n) : THeap n :=
  ⟨fun k => if k = id then b else h.cells k, h.next⟩

end THeap

section runs
variable {n : Nat}

/-- `flip_spin(i, t)`: IN PLACE on tensor `t` (`samples[..., i].sub_(1).abs_()`), returns `t` itself. -/
def flipSpinInPlace (h : THeap n) (i : Fin n) (t : Nat) : THeap n :=
  h.write t ((h.cells t).map (flipSpin i))

/-- one iteration of the site loop of `SigmaX.apply` / `SigmaY.apply`:
`samples_ = flip_spin(i, samples.clone())`; `numer = numerator(samples_, samples)` (both tensors READ
FROM THE HEAP at that moment); optional coefficient computed from `samples[..., i]`; `numer_sum.add_`. -/
def pauliStep (S : ImpState α n) (coeff : Option (Cfg n → Fin n → C α)) (sid : Nat)
    (acc : THeap n × List (C α)) (i : Fin n) : THeap n × List (C α) :=
  let cf : List (C α) := (acc.1.cells sid).map (fun σ => match coeff with
    | some c => c σ i
    | none => C.one)
  let hc := acc.1.clone sid
  let hf := flipSpinInPlace hc.1 i hc.2
  let numer := List.zipWith S.numer (hf.cells hc.2) (hf.cells sid)
  let numer' := match coeff with
    | some _ => List.zipWith C.mul numer cf
    | none => numer
  (hf, List.zipWith C.add acc.2 numer')

/-- common body of `SigmaX.apply` / `SigmaY.apply` on the tensor `sid` of heap `h`. -/
def pauliRun (S : ImpState α n) (coeff : Option (Cfg n → Fin n → C α)) (absolute : Bool)
    (h : THeap n) (sid : Nat) : THeap n × List α :=
  let denom := (h.cells sid).map S.denom
  let zeros : List (C α) := denom.map (fun _ => C.zero)
  let r := (List.finRange n).foldl (pauliStep S coeff sid) (h, zeros)
  let quot := List.zipWith C.div r.2 denom
  (r.1, quot.map (fun q => absIf absolute (q.1 / Transc.ofNat n)))

/-- `SigmaX.apply(nn_state, samples)` with `samples` = tensor `sid` -/
def sigmaXRun (S : ImpState α n) (absolute : Bool) (h : THeap n) (sid : Nat) : THeap n × List α :=
  pauliRun S none absolute h sid

/-- `SigmaY.apply(nn_state, samples)`; coefficient `make_complex(0, to_pm1(samples[..., i]))` -/
def sigmaYRun (S : ImpState α n) (absolute : Bool) (h : THeap n) (sid : Nat) : THeap n × List α :=
  pauliRun S (some (fun σ i => (0, spin (σ i)))) absolute h sid

/-- `torch.roll(samples, 1, 0)`: row `i` of the result is row `(i − 1) mod B` of the input, written with
natural numbers as `(i + (B − 1)) % B`. -/
def rollIdx (B : Nat) (i : Fin B) : Fin B :=
  ⟨(i.val + (B - 1)) % B, Nat.mod_lt _ (by have := i.isLt; omega)⟩

/-- `torch.roll(t, 1, 0)` on the list of rows of `t` (a NEW tensor): `out[i] = t[rollIdx B i]`. -/
def roll1 {β : Type} (l : List β) : List β :=
  List.ofFn (fun i : Fin l.length => l[(rollIdx l.length i).val]'(rollIdx l.length i).isLt)

/-- `swap(s1, s2, A)` IN PLACE on tensors `t1`, `t2` (entanglement.py:33-36). -/
def swapInPlace (h : THeap n) (A : Fin n → Bool) (t1 t2 : Nat) : THeap n :=
  let tmp := h.cells t1                                   -- `_s = s1[:, A].clone()` (only region A is used)
  let h1 := h.write t1 (List.zipWith (fun r1 r2 => combine r2 r1 A) (h.cells t1) (h.cells t2))
  h1.write t2 (List.zipWith (fun r2 t => combine t r2 A) (h1.cells t2) tmp)

/-- `SWAP(A).apply(nn_state, samples)` with `samples` = tensor `sid` (entanglement.py:57-90). -/
def swapRun (S : ImpState α n) (A : Fin n → Bool) (h : THeap n) (sid : Nat) : THeap n × List α :=
  let s1 := sid                                            -- `samples1 = samples` (alias)
  let hr := h.alloc (roll1 (h.cells s1))                   -- `samples2 = torch.roll(samples1, 1, 0)`
  let s2 := hr.2
  let hc1 := hr.1.clone s1
  let hc2 := hc1.1.clone s2
  let hs := swapInPlace hc2.1 A hc1.2 hc2.2                -- `swap(samples1.clone(), samples2.clone(), A)`
  let w1 := List.zipWith S.weight (hs.cells hc1.2) (hs.cells s1)
  let w2 := List.zipWith S.weight (hs.cells hc2.2) (hs.cells s2)
  (hs, (List.zipWith C.mul w1 w2).map (fun w => w.1))

/-! ### constructor flags as the OBJECTS the caller passed (hardening round 4)

`SigmaX/Y/Z(absolute=…)` and `NeighbourInteraction(periodic_bcs=…, c)` store the argument as it is (`self.absolute = absolute`,
pauli.py:48/98/151; `self.periodic_bcs = periodic_bcs`, interactions.py:34) and `apply` tests the stored object with
`if self.absolute:` (pauli.py:80/133/168) / `if self.periodic_bcs:` (interactions.py:55) — Python truthiness; the attribute may
also be reassigned between calls. -/

/-- `SigmaX(absolute=flag).apply(nn_state, samples)` -/
def sigmaXRunF (S : ImpState α n) (absolute : PyFlag) (h : THeap n) (sid : Nat) : THeap n × List α :=
  sigmaXRun S absolute.truthy h sid

/-- `SigmaY(absolute=flag).apply(nn_state, samples)` -/
def sigmaYRunF (S : ImpState α n) (absolute : PyFlag) (h : THeap n) (sid : Nat) : THeap n × List α :=
  sigmaYRun S absolute.truthy h sid

/-- `SigmaZ(absolute=flag).apply` for one sample -/
def sigmaZApplyF (absolute : PyFlag) (σ : Cfg n) : α := sigmaZApply absolute.truthy σ

/-- `NeighbourInteraction(periodic_bcs=flag, c).apply` for one sample: `if self.periodic_bcs:` chooses the rolled product,
else the two slices -/
def neighbourApplyF (periodic : PyFlag) (c : Nat) (σ : Cfg n) : Except PyErr α :=
  if periodic.truthy then .ok (neighbourPeriodicApply c σ) else neighbourOpenApply c σ

end runs
end QV
