/-
QV.Model.CallForm — how the arguments of a call `state.fit(a₁, …, a_j, name = v, …)` reach the parameters of
`def fit(self, data, epochs=100, pos_batch_size=100, neg_batch_size=None, k=1, lr=…, …, **kwargs)`
(qucumber/nn_states/positive_wavefunction.py:194-211, complex_wavefunction.py:214-232,
density_matrix.py:333-351; each forwards every parameter BY KEYWORD to `NeuralStateBase.fit`,
neural_state.py:500-517).

Python binds the positional arguments to the parameters in the order in which the signature lists them, then the
keyword arguments by name; a keyword naming a parameter already bound positionally is a `TypeError`
("got multiple values"), more positional arguments than parameters is a `TypeError`, a keyword naming no
parameter is collected by `**kwargs` (ignored by `fit`), a parameter left unbound takes its default, and a
parameter without default left unbound is a `TypeError`.

Hardening round 4: the documented parameter ORDER is part of the interface (positional calls in the documented
order must mean the same as the keyword call); the signatures are model data (`fitParams`).
-/
import QV.Model.Hilbert
namespace QV.CallForm
open QV

/-- an argument value as far as binding is concerned: `None`, a `bool`, an `int`, or any other object (data, bases,
a float, a container, a class) identified by a tag the caller chooses -/
inductive Arg where
  | none
  | bool (b : Bool)
  | int (i : Int)
  | ref (id : Nat)
  deriving DecidableEq, Repr, Inhabited

section
variable {V : Type}

/-- the value a keyword-argument list gives to the name `p` (names in a call are distinct; first occurrence) -/
def kwLookup : List (String × V) → String → Option V
  | [], _ => none
  | (q, v) :: rest, p => if q = p then some v else kwLookup rest p

/-- value of a parameter not bound positionally: the keyword of that name, else the default -/
def kwOrDefault (dflt : String → Option V) (kw : List (String × V)) (p : String) : Option V :=
  match kwLookup kw p with
  | some v => some v
  | none => dflt p

/-- Python's argument binding for a signature `params` (in order, `self` omitted) followed by `**kwargs`:
positional arguments `pos` left to right, then keywords, then defaults. Result: the value of every parameter, in
signature order. -/
def bindParams (dflt : String → Option V) (kw : List (String × V)) : List String → List V → Except PyErr (List (String × V))
  | [], [] => .ok []
  | [], _ :: _ => .error .TypeError
  | p :: ps, v :: vs =>
    match kwLookup kw p with
    | some _ => .error .TypeError
    | none =>
      match bindParams dflt kw ps vs with
      | .error e => .error e
      | .ok r => .ok ((p, v) :: r)
  | p :: ps, [] =>
    match kwOrDefault dflt kw p with
    | none => .error .TypeError
    | some v =>
      match bindParams dflt kw ps [] with
      | .error e => .error e
      | .ok r => .ok ((p, v) :: r)

/-- the value bound to parameter `p` -/
def bound (r : List (String × V)) (p : String) : Option V := kwLookup r p
end

/-- the documented parameter order of `fit` (after `self`): `hasBases = false` for `PositiveWaveFunction.fit`
(no `input_bases` parameter), `true` for `ComplexWaveFunction.fit` / `DensityMatrix.fit` -/
def fitParams (hasBases : Bool) : List String :=
  ["data", "epochs", "pos_batch_size", "neg_batch_size", "k", "lr"]
    ++ (if hasBases then ["input_bases"] else [])
    ++ ["progbar", "starting_epoch", "time", "callbacks", "optimizer", "optimizer_args", "scheduler", "scheduler_args"]

/-- tags of the two defaults that are not `None` / `bool` / `int`: the default learning rate (`1e-3`; `1` for
`DensityMatrix`) and the default optimizer class `torch.optim.SGD` -/
def refDefaultLr : Nat := 0
def refDefaultOptimizer : Nat := 1

/-- the documented defaults; `data` has none -/
def fitDefault : String → Option Arg
  | "epochs" => some (.int 100)
  | "pos_batch_size" => some (.int 100)
  | "neg_batch_size" => some .none
  | "k" => some (.int 1)
  | "lr" => some (.ref refDefaultLr)
  | "input_bases" => some .none
  | "progbar" => some (.bool false)
  | "starting_epoch" => some (.int 1)
  | "time" => some (.bool false)
  | "callbacks" => some .none
  | "optimizer" => some (.ref refDefaultOptimizer)
  | "optimizer_args" => some .none
  | "scheduler" => some .none
  | "scheduler_args" => some .none
  | _ => none

/-- `state.fit(*pos, **kw)` as the subclass signature binds it. `PositiveWaveFunction.fit` then forces
`kwargs["input_bases"] = None` (positive_wavefunction.py:212): whatever the caller wrote there, the base class trains
without bases. -/
def fitBind (hasBases : Bool) (pos : List Arg) (kw : List (String × Arg)) : Except PyErr (List (String × Arg)) :=
  match bindParams fitDefault kw (fitParams hasBases) pos with
  | .error e => .error e
  | .ok r => .ok (if hasBases then r else r ++ [("input_bases", Arg.none)])

/-! ### the `deprecated_kwarg` alias layer (qucumber/utils/__init__.py:48-75)

`@deprecated_kwarg(target_psi="target", target_rho="target")` decorates `fidelity` and `KL`
(qucumber/utils/training_statistics.py:26, 137; the only two uses in the package). Every call `f(*args, **kwargs)` first passes
`kwargs` through `rename` (lines 52-66), then calls the undecorated function with the unchanged positional arguments and the renamed
keywords (lines 68-75), where Python's ordinary binding (`bindParams`) applies. -/
section aliaslayer
variable {V : Type}

/-- `kwargs.pop(alias)` removes the key (a `dict` holds a name at most once; every entry of that name is dropped) -/
def eraseKey (kw : List (String × V)) (a : String) : List (String × V) := kw.filter (fun q => q.1 != a)

/-- one iteration of the loop of `deprecated_kwarg.rename` (utils/__init__.py:53-64):
`if alias in kwargs: if true_name in kwargs: raise TypeError(...); warn; kwargs[true_name] = kwargs.pop(alias)` — the popped value is
re-inserted under the new name at the END of the dict. -/
def renameStep (kw : List (String × V)) (alias trueName : String) : Except PyErr (List (String × V)) :=
  match kwLookup kw alias with
  | none => .ok kw
  | some v =>
    match kwLookup kw trueName with
    | some _ => .error .TypeError
    | none => .ok (eraseKey kw alias ++ [(trueName, v)])

/-- `deprecated_kwarg.rename(function, kwargs)` (utils/__init__.py:52-66): the aliases in the order of the decorator's keyword
arguments (`self.aliases.items()`), each step seeing the dict the previous steps left. -/
def renameKw : List (String × String) → List (String × V) → Except PyErr (List (String × V))
  | [], kw => .ok kw
  | (a, t) :: rest, kw =>
    match renameStep kw a t with
    | .error e => .error e
    | .ok kw' => renameKw rest kw'

/-- `wrapped_f(*args, **kwargs)` (utils/__init__.py:70-73): `kwargs = self.rename(f.__name__, kwargs); return f(*args, **kwargs)` —
rename, then bind the parameters of the undecorated signature `params` + `**kwargs`. A refusal of either stage happens before the
body of `f` runs. -/
def aliasCall (table : List (String × String)) (dflt : String → Option V) (params : List String)
    (pos : List V) (kw : List (String × V)) : Except PyErr (List (String × V)) :=
  match renameKw table kw with
  | .error e => .error e
  | .ok kw' => bindParams dflt kw' params pos

/-- the decorated function's value: the body `f` applied to the bound parameters, or the refusal (the body is not entered) -/
def aliasCallValue {R : Type} (table : List (String × String)) (dflt : String → Option V) (params : List String)
    (f : List (String × V) → R) (pos : List V) (kw : List (String × V)) : Except PyErr R :=
  match aliasCall table dflt params pos kw with
  | .error e => .error e
  | .ok r => .ok (f r)
end aliaslayer

/-- the decorator arguments of `fidelity` and `KL` (training_statistics.py:26, 137), in their written order -/
def metricAliases : List (String × String) := [("target_psi", "target"), ("target_rho", "target")]

/-- `def fidelity(nn_state, target, space=None, **kwargs)` (training_statistics.py:27) /
`def KL(nn_state, target, space=None, bases=None, **kwargs)` (training_statistics.py:138) -/
def metricParams (isKL : Bool) : List String :=
  ["nn_state", "target", "space"] ++ (if isKL then ["bases"] else [])

/-- the defaults of `fidelity` / `KL`: `space=None`, `bases=None`; `nn_state` and `target` have none -/
def metricDefault : String → Option Arg
  | "space" => some .none
  | "bases" => some .none
  | _ => none

/-- `fidelity(*pos, **kw)` (`isKL = false`) / `KL(*pos, **kw)` (`isKL = true`) as the decorated function binds its parameters -/
def metricBind (isKL : Bool) (pos : List Arg) (kw : List (String × Arg)) : Except PyErr (List (String × Arg)) :=
  aliasCall metricAliases metricDefault (metricParams isKL) pos kw

end QV.CallForm
