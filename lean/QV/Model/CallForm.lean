/-
QV.Model.CallForm — how the arguments of a call `state.fit(a₁, …, a_j, name = v, …)` reach the parameters of
`def fit(self, data, epochs=100, pos_batch_size=100, neg_batch_size=None, k=1, lr=…, …, **kwargs)`
(qucumber/nn_states/positive_wavefunction.py:194-211, complex_wavefunction.py:214-232,
density_matrix.py:333-351; each forwards every parameter BY KEYWORD to `NeuralStateBase.fit`,
neural_state.py:500-517).

Python binds the positional arguments to the parameters in the order in which the signature lists them, then the
keyword arguments by name; a keyword naming a parameter already bound positionally is a `TypeError`
("got multiple values"), more positional arguments than parameters is a `TypeError`, a keyword naming no
parameter is collected by `**kwargs` (ignored by `fit`), a parameter left unbound takes its default, and a
parameter without default left unbound is a `TypeError`.

Hardening round 4: the documented parameter ORDER is part of the interface (positional calls in the documented
order must mean the same as the keyword call); the signatures are model data (`fitParams`).
-/
import QV.Model.Hilbert
namespace QV.CallForm
open QV

/-- an argument value as far as binding is concerned: `None`, a `bool`, an `int`, or any other object (data, bases,
a float, a container, a class) identified by a tag the caller chooses -/
inductive Arg where
  | none
  | bool (b : Bool)
  | int (i : Int)
  | ref (id : Nat)
  deriving DecidableEq, Repr, Inhabited

section
variable {V : Type}

/-- the value a keyword-argument list gives to the name `p` (names in a call are distinct; first occurrence) -/
def kwLookup : List (String × V) → String → Option V
  | [], _ => none
  | (q, v) :: rest, p => if q = p then some v else kwLookup rest p

/-- value of a parameter not bound positionally: the keyword of that name, else the default -/
def kwOrDefault (dflt : String → Option V) (kw : List (String × V)) (p : String) : Option V :=
  match kwLookup kw p with
  | some v => some v
  | none => dflt p

/-- Python's argument binding for a signature `params` (in order, `self` omitted) followed by `**kwargs`:
positional arguments `pos` left to right, then keywords, then defaults. Result: the value of every parameter, in
signature order. -/
def bindParams (dflt : String → Option V) (kw : List (String × V)) : List String → List V → Except PyErr (List (String × V))
  | [], [] => .ok []
  | [], _ :: _ => .error .TypeError
  | p :: ps, v :: vs =>
    match kwLookup kw p with
    | some _ => .error .TypeError
    | none =>
      match bindParams dflt kw ps vs with
      | .error e => .error e
      | .ok r => .ok ((p, v) :: r)
  | p :: ps, [] =>
    match kwOrDefault dflt kw p with
    | none => .error .TypeError
    | some v =>
      match bindParams dflt kw ps [] with
      | .error e => .error e
      | .ok r => .ok ((p, v) :: r)

/-- the value bound to parameter `p` -/
def bound (r : List (String × V)) (p : String) : Option V := kwLookup r p
end

/-- the documented parameter order of `fit` (after `self`): `hasBases = false` for `PositiveWaveFunction.fit`
(no `input_bases` parameter), `true` for `ComplexWaveFunction.fit` / `DensityMatrix.fit` -/
def fitParams (hasBases : Bool) : List String :=
  ["data", "epochs", "pos_batch_size", "neg_batch_size", "k", "lr"]
    ++ (if hasBases then ["input_bases"] else [])
    ++ ["progbar", "starting_epoch", "time", "callbacks", "optimizer", "optimizer_args", "scheduler", "scheduler_args"]

/-- tags of the two defaults that are not `None` / `bool` / `int`: the default learning rate (`1e-3`; `1` for
`DensityMatrix`) and the default optimizer class `torch.optim.SGD` -/
def refDefaultLr : Nat := 0
def refDefaultOptimizer : Nat := 1

/-- the documented defaults; `data` has none -/
def fitDefault : String → Option Arg
  | "epochs" => some (.int 100)
  | "pos_batch_size" => some (.int 100)
  | "neg_batch_size" => some .none
  | "k" => some (.int 1)
  | "lr" => some (.ref refDefaultLr)
  | "input_bases" => some .none
  | "progbar" => some (.bool false)
  | "starting_epoch" => some (.int 1)
  | "time" => some (.bool false)
  | "callbacks" => some .none
  | "optimizer" => some (.ref refDefaultOptimizer)
  | "optimizer_args" => some .none
  | "scheduler" => some .none
  | "scheduler_args" => some .none
  | _ => none

/-- `state.fit(*pos, **kw)` as the subclass signature binds it. `PositiveWaveFunction.fit` then forces
`kwargs["input_bases"] = None` (positive_wavefunction.py:212): whatever the caller wrote there, the base class trains
without bases. -/
def fitBind (hasBases : Bool) (pos : List Arg) (kw : List (String × Arg)) : Except PyErr (List (String × Arg)) :=
  match bindParams fitDefault kw (fitParams hasBases) pos with
  | .error e => .error e
  | .ok r => .ok (if hasBases then r else r ++ [("input_bases", Arg.none)])

end QV.CallForm
