/-
QV.Model.Frame — op-level state machine for C14 (seeded reproducibility, read-only evaluation).

This file is import-free.

The model does NOT compute numbers.  It records, for every public operation of QuCumber,
  * which of the three process-global random sources it reads (`torchGen` only — the code
    contains no use of `numpy.random` or of Python's `random`), and HOW MUCH it reads, as the
    ordered list of calls the code makes to torch's random functions with their element counts
    (`Call`), written with the code's own loop structure (epochs × batches × Gibbs steps ×
    layers; `range(0, N, B)` slicing);
  * which parameters it writes (construction, `reinitialize_parameters`, `fit`, `load` only);
  * its result, abstractly: `out = S.out op arch params draws` for an arbitrary but fixed
    family of functions `S : Sem P O` (an uninterpreted parameter of the model; the theorems
    of `QV/Props/C14.lean` hold for every `S`).

Generators are abstract streams: `Gen = (seedOf, pos)`; the `pos`-th value of the stream of
seed `s` is `S.mix s pos` for an arbitrary function `mix` (torch's mt19937/philox is not
modelled; nothing in the theorems depends on what `mix` is).
-/
namespace QV.Frame

/-- Python error kinds distinguished by this model. -/
inductive Err where
  | IndexError | ValueError | ZeroDivisionError | RuntimeError | FileNotFoundError
  deriving DecidableEq, Repr, Inhabited

def Err.toString : Err → String
  | .IndexError => "IndexError" | .ValueError => "ValueError"
  | .ZeroDivisionError => "ZeroDivisionError" | .RuntimeError => "RuntimeError"
  | .FileNotFoundError => "FileNotFoundError"

/-! ### abstract random streams -/

/-- A process-global random generator seen as a position in the stream of its seed. -/
structure Gen where
  seedOf : Nat
  pos : Nat
  deriving DecidableEq, Repr, Inhabited

/-- draw one value: the `pos`-th element of the stream of `seedOf`. -/
def Gen.next (mix : Nat → Nat → Nat) (g : Gen) : Nat × Gen :=
  (mix g.seedOf g.pos, { g with pos := g.pos + 1 })

/-- draw `m` values in order. -/
def Gen.take (mix : Nat → Nat → Nat) : Nat → Gen → List Nat × Gen
  | 0, g => ([], g)
  | m + 1, g =>
    let r := g.next mix
    let rest := Gen.take mix m r.2
    (r.1 :: rest.1, rest.2)

/-- `torch.manual_seed(seed)` applied to a Python int (torch/random.py:32-47: `seed = int(seed)`, then the default
CPU generator's `manual_seed`, which unpacks an unsigned 64-bit word): values in `[-2^63, 2^64)` are accepted and
reduced modulo `2^64` (so `-1` and `2^64 - 1` are the same seed word), everything else raises
(`ValueError: Overflow when unpacking long long`, torch 2.14).  `qucumber.set_random_seed` passes its argument
through unchanged (qucumber/__init__.py:27-38), so this is the set of seeds the library accepts and the only
identification of seeds it may make.  (That torch's mt19937 initialisation then only reads the low 32 bits of
the word is a fact about the STREAM function, see `tokenSem.mix`; the generator state keeps the full word.) -/
def seedWord (s : Int) : Option Nat :=
  if -9223372036854775808 ≤ s ∧ s < 18446744073709551616 then some (s % 18446744073709551616).toNat else none

/-! ### architectures and the calls made to torch's random functions -/

/-- `PositiveWaveFunction` | `ComplexWaveFunction` | `DensityMatrix` -/
inductive Kind where
  | pos | cplx | dens
  deriving DecidableEq, Repr, Inhabited

/-- resolved sizes of the internal RBMs (`a = 0` for the two wavefunction kinds). -/
structure Arch where
  kind : Kind
  n : Nat
  h : Nat
  a : Nat
  deriving DecidableEq, Repr, Inhabited

/-- size defaulting of the constructors.
`BinaryRBM.__init__` (binary_rbm.py:27-30): `int(num_hidden) if num_hidden else num_visible`
(so `None` and `0` both give `n`);
`PurificationRBM.__init__` (purification_rbm.py:41-49): `… if num_hidden is not None else n`,
same for `num_aux` (so `0` stays `0`). -/
def resolveArch (kind : Kind) (n : Nat) (h a : Option Nat) : Arch :=
  match kind with
  | .dens => ⟨.dens, n, h.getD n, a.getD n⟩
  | k => ⟨k, n, (match h with | none => n | some 0 => n | some x => x), 0⟩

/-- which torch function is called -/
inductive CallKind where
  | randn | bernoulli | randperm | randint | rand
  deriving DecidableEq, Repr, Inhabited

/-- one call to a torch random function producing `numel` elements
(`randperm(N)` counts as `N` elements). -/
structure Call where
  kind : CallKind
  numel : Nat
  deriving DecidableEq, Repr, Inhabited

/-- total number of elements requested by a list of calls -/
def callsTotal : List Call → Nat
  | [] => 0
  | c :: cs => c.numel + callsTotal cs

/-- `initialize_parameters` of ONE internal RBM.
binary_rbm.py:48-72: one `torch.randn(h, n)` (biases are `torch.zeros`);
purification_rbm.py:80-127: `torch.randn(h, n)` then `torch.randn(a, n)`. -/
def netInitCalls (A : Arch) : List Call :=
  match A.kind with
  | .dens => [⟨.randn, A.h * A.n⟩, ⟨.randn, A.a * A.n⟩]
  | _ => [⟨.randn, A.h * A.n⟩]

/-- `networks` property: `["rbm_am"]` for the positive state, `["rbm_am", "rbm_ph"]` otherwise. -/
def numNets : Kind → Nat
  | .pos => 1
  | _ => 2

/-- construction / `reinitialize_parameters` (neural_state.py:82-85): every network in
`networks` order runs `initialize_parameters`. -/
def initCalls (A : Arch) : List Call :=
  (List.replicate (numNets A.kind) (netInitCalls A)).flatten

/-- one block-Gibbs step on `rows` chains.
binary_rbm.py:200-226: `sample_h_given_v` (`torch.bernoulli` on rows×h) then `sample_v_given_h` (rows×n);
purification_rbm.py:312-340: `sample_h_given_v`, `sample_a_given_v` (rows×a), `sample_v_given_ha`. -/
def gibbsStepCalls (A : Arch) (rows : Nat) : List Call :=
  match A.kind with
  | .dens => [⟨.bernoulli, rows * A.h⟩, ⟨.bernoulli, rows * A.a⟩, ⟨.bernoulli, rows * A.n⟩]
  | _ => [⟨.bernoulli, rows * A.h⟩, ⟨.bernoulli, rows * A.n⟩]

/-- `gibbs_steps(k, v)`: `for _ in range(k)` of the step above. -/
def gibbsCalls (A : Arch) (k rows : Nat) : List Call :=
  (List.replicate k (gibbsStepCalls A rows)).flatten

/-- number of stochastic units updated per chain and Gibbs step -/
def units (A : Arch) : Nat :=
  match A.kind with
  | .dens => A.h + A.a + A.n
  | _ => A.h + A.n

/-- `NeuralStateBase.sample(k, num_samples, initial_state)` (neural_state.py:107-131):
without `initial_state`, `Bernoulli(0.5).sample((num, n))` (= `torch.bernoulli` on num×n),
then `gibbs_steps(k, ·)`; with an `initial_state` of `rows` rows only the Gibbs steps. -/
def sampleCalls (A : Arch) (k num : Nat) (init : Option Nat) : List Call :=
  match init with
  | none => ⟨.bernoulli, num * A.n⟩ :: gibbsCalls A k num
  | some rows => gibbsCalls A k rows

/-- `ceil(a / b)` for `b > 0` (`math.ceil(N / B)`, `np.ceil(num_samples / num_chains)`). -/
def ceilDiv (a b : Nat) : Nat := (a + b - 1) / b

/-- number of parallel chains in `statistics` (observable.py:171-178, system.py:77-84). -/
def statChains (numSamples numChains : Nat) (init : Option Nat) : Nat :=
  match init with
  | some rows => rows
  | none => if numChains != 0 then min numChains numSamples else numSamples

/-- `ObservableBase.statistics` / `System.statistics` (observable.py:130-221, system.py:32-121):
`num_time_steps = ceil(num_samples / num_chains)` calls of `nn_state.sample`, the first with
`k = burn_in` (drawing the initial state unless one was given), the others with `k = steps`
continuing the chains. `num_samples / 0` and the final `variance / 0` raise `ZeroDivisionError`
before anything was drawn. -/
def statCalls (A : Arch) (numSamples numChains burnIn steps : Nat) (init : Option Nat) :
    List Call × Option Err :=
  let chains := statChains numSamples numChains init
  if chains = 0 ∨ numSamples = 0 then ([], some .ZeroDivisionError)
  else
    (sampleCalls A burnIn chains init
      ++ (List.replicate (ceilDiv numSamples chains - 1) (gibbsCalls A steps chains)).flatten, none)

/-- sizes of `[x[s : s + B] for s in range(0, total, B)]` (neural_state.py:479-487), `B > 0`. -/
def sliceSizes (total B : Nat) : List Nat :=
  if _h : total = 0 ∨ B = 0 then []
  else min B total :: sliceSizes (total - B) B
termination_by total
decreasing_by omega

/-- an `ObservableEvaluator(period, observables, num_samples=…, num_chains=…, burn_in=…, steps=…)` passed to `fit`
in `callbacks=` (observable_evaluator.py:73-90, 185-187): at the end of every epoch `e` with `e % period == 0` it
calls `System(*observables).statistics(nn_state, **sampling_kwargs)`, i.e. draws from torch's generator INSIDE the
epoch loop, between the shuffles of consecutive epochs.  `period = periodPred + 1` and `num_samples = nsPred + 1`
(`epoch % 0` and `num_samples = 0` raise `ZeroDivisionError` in the middle of the training; not modelled). -/
structure EvalCb where
  periodPred : Nat
  nsPred : Nat
  numChains : Nat
  burnIn : Nat
  steps : Nat
  deriving DecidableEq, Repr, Inhabited

def EvalCb.period (cb : EvalCb) : Nat := cb.periodPred + 1
def EvalCb.numSamples (cb : EvalCb) : Nat := cb.nsPred + 1

/-- arguments of `fit` that matter for the frame (neural_state.py:500-660). -/
structure FitCfg where
  /-- number of rows of `data` -/
  N : Nat
  /-- `epochs` (index of the last epoch) -/
  epochs : Nat
  /-- `starting_epoch` -/
  startEpoch : Nat
  /-- `pos_batch_size` -/
  posB : Nat
  /-- `neg_batch_size` (`None`/0 → `pos_batch_size`) -/
  negB : Option Nat
  /-- contrastive-divergence steps -/
  k : Nat
  /-- `none`: no `input_bases`; `some M`: `input_bases` given and `M` rows of the data are
  measured entirely in the reference basis (`extract_refbasis_samples`) -/
  bases : Option Nat
  /-- identifies everything else (data contents, lr, optimizer, …) -/
  arg : Nat
  /-- an evaluator callback that samples during training (`callbacks=[ObservableEvaluator(…)]`), if any -/
  evalCb : Option EvalCb := none
  deriving DecidableEq, Repr, Inhabited

/-- the same `fit` call without its evaluator callback -/
def FitCfg.noEval (c : FitCfg) : FitCfg := { c with evalCb := none }

/-- `neg_batch_size if neg_batch_size else pos_batch_size` (neural_state.py:576) -/
def FitCfg.negB' (c : FitCfg) : Nat :=
  match c.negB with
  | none => c.posB
  | some 0 => c.posB
  | some b => b

/-- number of epochs executed: `range(starting_epoch, epochs + 1)` -/
def FitCfg.numEpochs (c : FitCfg) : Nat := c.epochs + 1 - c.startEpoch

/-- `input_bases` as seen by `NeuralStateBase.fit`: the positive state forces `None`
(positive_wavefunction.py:212). -/
def effBases (A : Arch) (c : FitCfg) : Option Nat :=
  match A.kind with
  | .pos => none
  | _ => c.bases

/-- `_shuffle_data` (neural_state.py:449-498): the random calls, an error if `torch.randint`
is asked for an empty range, and the total length of `shuffled_neg_samples`. -/
def shuffleCalls (N posB negB numBatches : Nat) (bases : Option Nat) :
    List Call × Option Err × Nat :=
  let perm : Call := ⟨.randperm, N⟩
  match bases with
  | none =>
    if negB = posB then ([perm], none, N)
    else if N = 0 then ([perm], some .RuntimeError, 0)
    else ([perm, ⟨.randint, numBatches * negB⟩], none, numBatches * negB)
  | some M =>
    if M = 0 then ([perm], some .RuntimeError, 0)
    else ([perm, ⟨.randint, numBatches * negB⟩], none, numBatches * negB)

/-- the Gibbs chains of one epoch: `zip(pos_batches, neg_batches[, bases])`, each batch calling
`compute_batch_gradients(k, pos, neg)` → `rbm_am.gibbs_steps(k, neg)` (neural_state.py:417-447). -/
def batchCalls (A : Arch) (k N posB negB negTotal : Nat) : List Call :=
  ((List.zip (sliceSizes N posB) (sliceSizes negTotal negB)).map
    (fun p => gibbsCalls A k p.2)).flatten

/-- the random calls of the evaluator callback at the end of epoch `e` (observable_evaluator.py:185-187:
`if epoch % self.period == 0: self.system.statistics(nn_state, **self.sampling_kwargs)`); none without evaluator. -/
def evalCalls (A : Arch) (c : FitCfg) (e : Nat) : List Call :=
  match c.evalCb with
  | none => []
  | some cb =>
    if e % cb.period = 0 then (statCalls A cb.numSamples cb.numChains cb.burnIn cb.steps none).1 else []

/-- all random calls of one `fit`, in order; `some e` if it raises (then no parameter was
written: every raise happens before the first optimizer step).  Epoch `e = starting_epoch + j`: the shuffle,
the Gibbs chains of its batches, then — `callbacks.on_epoch_end` — the evaluator's sampling if one is installed. -/
def fitCalls (A : Arch) (c : FitCfg) : List Call × Option Err :=
  if A.kind ≠ .pos ∧ c.bases = none then ([], some .ValueError)   -- complex_wavefunction.py:233, density_matrix.py:352
  else if c.posB = 0 then ([], some .ZeroDivisionError)            -- ceil(N / pos_batch_size)
  else if c.numEpochs = 0 then ([], none)
  else
    let numBatches := ceilDiv c.N c.posB
    let sh := shuffleCalls c.N c.posB c.negB' numBatches (effBases A c)
    match sh.2.1 with
    | some e => (sh.1, some e)
    | none =>
      let epoch := sh.1 ++ batchCalls A c.k c.N c.posB c.negB' sh.2.2
      (((List.range c.numEpochs).map (fun j => epoch ++ evalCalls A c (c.startEpoch + j))).flatten, none)

/-! ### operations -/

/-- the public operations (and, last four, foreign use of the other two random sources). -/
inductive Op where
  /-- `qucumber.set_random_seed(s, cpu, gpu)` for ANY Python int `s` (qucumber/__init__.py:27-38); on a process
  without CUDA the `gpu` argument has no effect whatever its value -/
  | setSeed (s : Int) (cpu : Bool)
  /-- user code drawing `m` values from torch's global generator (`torch.rand(m)`) -/
  | burn (m : Nat)
  /-- `PositiveWaveFunction(n, h)` / `ComplexWaveFunction(n, h)` / `DensityMatrix(n, h, a)` -/
  | construct (kind : Kind) (n : Nat) (h a : Option Nat)
  /-- `reinitialize_parameters()` -/
  | reinit (slot : Nat)
  /-- `sample(k, num_samples, initial_state, overwrite)`; `init = some rows` if an initial state is given (its row
  count: all the frame needs); `arg` identifies the CONTENT of the initial state and the `overwrite` flag — the value
  returned is a function of that content (neural_state.py:124-131: `gibbs_steps(k, initial_state)`; `k = 0` returns the
  start chains themselves), so two calls that differ only there are different operations -/
  | sample (slot k num : Nat) (init : Option Nat) (arg : Nat)
  /-- `Observable.statistics` / `System.statistics`; `arg` identifies the observables, the content of `initial_state`
  and the `overwrite` flag -/
  | statistics (slot numSamples numChains burnIn steps : Nat) (init : Option Nat) (arg : Nat)
  /-- `fit(data, …)` -/
  | fit (slot : Nat) (cfg : FitCfg)
  /-- `psi`, `probability`, `normalization`, `Observable.apply`, `statistics_from_samples` -/
  | eval (slot arg : Nat)
  /-- `training_statistics.fidelity / KL / NLL` -/
  | metric (slot arg : Nat)
  /-- `unitaries.rotate_psi / rotate_rho / rotate_psi_inner_prod / rotate_rho_probs` -/
  | rotate (slot arg : Nat)
  /-- `gradient`, `positive_phase_gradients`, `compute_exact_gradients`, `rotated_gradient` -/
  | gradient (slot arg : Nat)
  /-- `compute_batch_gradients(k, samples, neg_batch)` with `rows` negative-phase rows -/
  | batchGradient (slot k rows arg : Nat)
  /-- `Observable.sample(nn_state, k, num_samples, initial_state, overwrite)` (observable.py:107-133):
  `nn_state.sample(…)` followed by `apply`; `arg` identifies the observable, the content of `initial_state` and
  the `overwrite` flag -/
  | obsSample (slot k num : Nat) (init : Option Nat) (arg : Nat)
  /-- `save(path)` -/
  | save (slot path : Nat)
  /-- `load(path)` -/
  | load (slot path : Nat)
  /-- `numpy.random.seed(s)` by foreign code -/
  | seedNumpy (s : Nat)
  /-- `m` draws from numpy's global generator by foreign code -/
  | perturbNumpy (m : Nat)
  /-- `random.seed(s)` by foreign code -/
  | seedPy (s : Nat)
  /-- `m` draws from Python's `random` by foreign code -/
  | perturbPy (m : Nat)
  deriving DecidableEq, Repr, Inhabited

/-- the state object an operation addresses -/
def Op.slot? : Op → Option Nat
  | .reinit i => some i
  | .sample i _ _ _ _ => some i
  | .statistics i _ _ _ _ _ _ => some i
  | .fit i _ => some i
  | .eval i _ => some i
  | .metric i _ => some i
  | .rotate i _ => some i
  | .gradient i _ => some i
  | .batchGradient i _ _ _ => some i
  | .obsSample i _ _ _ _ => some i
  | .save i _ => some i
  | .load i _ => some i
  | _ => none

/-- foreign operations on the two other random sources (not library code) -/
def Op.isExternal : Op → Bool
  | .seedNumpy _ | .perturbNumpy _ | .seedPy _ | .perturbPy _ => true
  | _ => false

/-- operations that may write model parameters -/
def Op.writesParams : Op → Bool
  | .construct .. | .reinit _ | .fit .. | .load .. => true
  | _ => false

/-- read-only evaluation: sampling, statistics, evaluation, metrics, rotations, gradients
(their only effect on the process is advancing torch's generator). -/
def Op.isPure : Op → Bool
  | .sample .. | .statistics .. | .eval .. | .metric .. | .rotate .. | .gradient ..
  | .batchGradient .. | .obsSample .. | .burn _ => true
  | _ => false

/-- the random calls an operation on an object of architecture `A` makes, and whether it raises. -/
def Op.plan (op : Op) (A : Arch) : List Call × Option Err :=
  match op with
  | .reinit _ => (initCalls A, none)
  | .sample _ k num init _ => (sampleCalls A k num init, none)
  | .statistics _ ns nc bi stp init _ => statCalls A ns nc bi stp init
  | .fit _ cfg => fitCalls A cfg
  | .batchGradient _ k rows _ => (gibbsCalls A k rows, none)
  | .obsSample _ k num init _ => (sampleCalls A k num init, none)
  | _ => ([], none)

/-! ### semantics -/

/-- The uninterpreted part of the model: the stream function and how values are computed from
(architecture, parameters, consumed draws). -/
structure Sem (P O : Type) where
  /-- `mix seed pos`: the `pos`-th value of the stream of `seed` -/
  mix : Nat → Nat → Nat
  /-- parameters produced by `initialize_parameters` from the normals drawn -/
  init : Arch → List Nat → P
  /-- parameters after `fit` -/
  fit : Arch → FitCfg → P → List Nat → P
  /-- `load` of a file saved from a different architecture (torch copies what fits, then raises) -/
  loadMismatch : Arch → P → Arch → P → P
  /-- the value an operation returns -/
  out : Op → Arch → P → List Nat → O

/-- a state object: its architecture and its parameter tensors (as one value) -/
structure Obj (P : Type) where
  arch : Arch
  params : P

/-- the process: three global generators, the live state objects, the files written. -/
structure St (P : Type) where
  torchGen : Gen
  numpyGen : Gen
  pyGen : Gen
  nextId : Nat
  objs : Nat → Option (Obj P)
  files : Nat → Option (Obj P)

/-- result of one operation -/
inductive Out (O : Type) where
  | none
  | val (o : O)
  | err (e : Err)
  deriving DecidableEq, Repr

/-- function update -/
def upd {α : Type} (f : Nat → Option α) (i : Nat) (v : α) : Nat → Option α :=
  fun j => if j = i then some v else f j

/-- an operation addressed to the existing object `ob` in slot `i`. -/
def slotStep {P O : Type} (S : Sem P O) (st : St P) (op : Op) (i : Nat) (ob : Obj P) : St P × Out O :=
  match op with
  | .save _ path =>
    -- neural_state.py:199-226: `torch.save` of the state dicts; no randomness, no parameter write
    ({ st with files := upd st.files path ob }, .none)
  | .load _ path =>
    -- neural_state.py:228-246: `load_state_dict` for every network
    match st.files path with
    | Option.none => (st, .err .FileNotFoundError)
    | some f =>
      if f.arch = ob.arch then ({ st with objs := upd st.objs i ⟨ob.arch, f.params⟩ }, .none)
      else ({ st with objs := upd st.objs i ⟨ob.arch, S.loadMismatch ob.arch ob.params f.arch f.params⟩ },
            .err .RuntimeError)
  | _ =>
    let pl := op.plan ob.arch
    let d := Gen.take S.mix (callsTotal pl.1) st.torchGen
    let st' := { st with torchGen := d.2 }
    match pl.2 with
    | some e => (st', .err e)
    | Option.none =>
      match op with
      | .reinit _ => ({ st' with objs := upd st.objs i ⟨ob.arch, S.init ob.arch d.1⟩ }, .none)
      | .fit _ cfg => ({ st' with objs := upd st.objs i ⟨ob.arch, S.fit ob.arch cfg ob.params d.1⟩ }, .none)
      | _ => (st', .val (S.out op ob.arch ob.params d.1))

/-- one operation. -/
def step {P O : Type} (S : Sem P O) (st : St P) (op : Op) : St P × Out O :=
  match op with
  | .setSeed s cpu =>
    -- `if cpu: torch.manual_seed(seed)`; the gpu branch is dead on a CPU-only process.  The seed is handed to torch
    -- as it is: accepted iff torch accepts it (`seedWord`), and then the generator restarts at the stream of that word.
    if cpu then
      match seedWord s with
      | some w => ({ st with torchGen := ⟨w, 0⟩ }, .none)
      | Option.none => (st, .err .ValueError)
    else (st, .none)
  | .burn m => ({ st with torchGen := (Gen.take S.mix m st.torchGen).2 }, .none)
  | .seedNumpy s => ({ st with numpyGen := ⟨s, 0⟩ }, .none)
  | .perturbNumpy m => ({ st with numpyGen := (Gen.take S.mix m st.numpyGen).2 }, .none)
  | .seedPy s => ({ st with pyGen := ⟨s, 0⟩ }, .none)
  | .perturbPy m => ({ st with pyGen := (Gen.take S.mix m st.pyGen).2 }, .none)
  | .construct kind n h a =>
    let A := resolveArch kind n h a
    let d := Gen.take S.mix (callsTotal (initCalls A)) st.torchGen
    ({ st with torchGen := d.2, nextId := st.nextId + 1,
               objs := upd st.objs st.nextId ⟨A, S.init A d.1⟩ }, .none)
  | _ =>
    match op.slot? with
    | Option.none => (st, .none)
    | some i =>
      match st.objs i with
      | Option.none => (st, .err .IndexError)
      | some ob => slotStep S st op i ob

/-- a history. Results of the foreign (`isExternal`) operations are not recorded. -/
def run {P O : Type} (S : Sem P O) : St P → List Op → St P × List (Out O)
  | st, [] => (st, [])
  | st, op :: ops =>
    let r := step S st op
    let rr := run S r.1 ops
    (rr.1, if op.isExternal then rr.2 else r.2 :: rr.2)

/-- the calls to torch's random functions the operation makes in state `st`. -/
def stepCalls {P : Type} (st : St P) (op : Op) : List Call :=
  match op with
  | .burn m => [⟨.rand, m⟩]
  | .construct kind n h a => initCalls (resolveArch kind n h a)
  | _ =>
    match op.slot? with
    | Option.none => []
    | some i =>
      match st.objs i with
      | Option.none => []
      | some ob => (op.plan ob.arch).1

/-- elements drawn from torch's generator by the operation in state `st`. -/
def stepDraws {P : Type} (st : St P) (op : Op) : Nat := callsTotal (stepCalls st op)

/-- elements drawn from torch's generator by a whole history. -/
def histDraws {P O : Type} (S : Sem P O) : St P → List Op → Nat
  | _, [] => 0
  | st, op :: ops => stepDraws st op + histDraws S (step S st op).1 ops

/-! ### closed forms for the number of draws (the statements of `C14_draw_count_*`) -/

/-- `B·n` start bits unless an initial state is given, plus `k·B·(h[+a]+n)` Bernoulli values. -/
def sampleDraws (A : Arch) (k num : Nat) (init : Option Nat) : Nat :=
  match init with
  | none => num * A.n + k * (num * units A)
  | some rows => k * (rows * units A)

/-- `h·n [+ a·n]` normals per network. -/
def initDraws (A : Arch) : Nat :=
  match A.kind with
  | .pos => A.h * A.n
  | .cplx => (A.h * A.n) + (A.h * A.n)
  | .dens => (A.h * A.n + A.a * A.n) + (A.h * A.n + A.a * A.n)

/-- statistics: first call as `sample(burn_in)`, then `T - 1` continuations of `steps` Gibbs steps. -/
def statDraws (A : Arch) (numSamples numChains burnIn steps : Nat) (init : Option Nat) : Nat :=
  let chains := statChains numSamples numChains init
  sampleDraws A burnIn chains init + (ceilDiv numSamples chains - 1) * (steps * (chains * units A))

/-- number of epochs `e` in `range(starting_epoch, epochs + 1)` with `e % p == 0` -/
def evalEpochs (c : FitCfg) (p : Nat) : Nat :=
  ((List.range c.numEpochs).filter (fun j => (c.startEpoch + j) % p = 0)).length

/-- draws of the evaluator callback over the whole `fit`: one `statistics` per epoch divisible by the period -/
def evalDraws (A : Arch) (c : FitCfg) : Nat :=
  match c.evalCb with
  | none => 0
  | some cb => evalEpochs c cb.period * statDraws A cb.numSamples cb.numChains cb.burnIn cb.steps none

/-- fit: per epoch one `randperm(N)`, `randint(numBatches·negB)` unless the permutation is shared,
and `k` Gibbs steps on every negative-phase row; plus the evaluator callback's sampling (`evalDraws`). -/
def fitDraws (A : Arch) (c : FitCfg) : Nat :=
  let numBatches := ceilDiv c.N c.posB
  let shared := effBases A c = none ∧ c.negB' = c.posB
  let negTotal := if shared then c.N else numBatches * c.negB'
  c.numEpochs * (c.N + (if shared then 0 else numBatches * c.negB') + c.k * (negTotal * units A))
    + evalDraws A c

/-! ### an executable instance (used by the driver): values are hash tokens -/

def hmix (a b : Nat) : Nat := (a * 1000003 + b * 7919 + 12345) % 18446744073709551557

def hashList (l : List Nat) : Nat := l.foldl hmix 1469598103934665603

def Kind.code : Kind → Nat
  | .pos => 1 | .cplx => 2 | .dens => 3

def Arch.code (A : Arch) : List Nat := [A.kind.code, A.n, A.h, A.a]

def optCode : Option Nat → List Nat
  | none => [0]
  | some x => [1, x]

def EvalCb.code (cb : EvalCb) : List Nat := [cb.periodPred, cb.nsPred, cb.numChains, cb.burnIn, cb.steps]

def FitCfg.code (c : FitCfg) : List Nat :=
  [c.N, c.epochs, c.startEpoch, c.posB, c.k, c.arg] ++ optCode c.negB ++ optCode c.bases
    ++ (match c.evalCb with | none => [0] | some cb => 1 :: cb.code)

/-- injective-enough encoding of an operation WITHOUT its slot (the value an operation returns
does not depend on which Python variable holds the state). -/
def Op.code : Op → List Nat
  | .setSeed s cpu => [1, s.toNat, (-s).toNat, if cpu then 1 else 0]
  | .burn m => [2, m]
  | .construct k n h a => [3, k.code, n] ++ optCode h ++ optCode a
  | .reinit _ => [4]
  | .sample _ k num init arg => [5, k, num, arg] ++ optCode init
  | .statistics _ ns nc bi st init arg => [6, ns, nc, bi, st, arg] ++ optCode init
  | .fit _ c => 7 :: c.code
  | .eval _ arg => [8, arg]
  | .metric _ arg => [9, arg]
  | .rotate _ arg => [10, arg]
  | .gradient _ arg => [11, arg]
  | .batchGradient _ k rows arg => [12, k, rows, arg]
  | .obsSample _ k num init arg => [19, k, num, arg] ++ optCode init
  | .save _ p => [13, p]
  | .load _ p => [14, p]
  | .seedNumpy s => [15, s]
  | .perturbNumpy m => [16, m]
  | .seedPy s => [17, s]
  | .perturbPy m => [18, m]

/-- the token semantics: every value is the hash of what it was computed from.
The stream of a seed word depends on its low 32 bits only: torch's CPU generator initialises its mt19937 engine from
`uint32(seed)` (measured directly on the installed torch by harness/c14.py: `Generator().manual_seed(a)` and
`manual_seed(b)` give the same `torch.rand` stream exactly when `a ≡ b (mod 2^32)`); the theorems hold for every `mix`. -/
def tokenSem : Sem Nat Nat where
  mix := fun s p => hashList [99, s % 4294967296, p]
  init := fun A d => hashList (101 :: A.code ++ d)
  fit := fun A c p d => hashList (102 :: A.code ++ c.code ++ p :: d)
  loadMismatch := fun A p A' p' => hashList (103 :: A.code ++ p :: A'.code ++ [p'])
  out := fun op A p d => hashList (104 :: op.code ++ A.code ++ p :: d)

/-- a fresh process: nothing constructed, nothing saved. -/
def St.fresh (P : Type) (gt gn gp : Gen) : St P :=
  ⟨gt, gn, gp, 0, fun _ => none, fun _ => none⟩

/-! ### attribute forwarding: `state.<name>` for a name the state does not define (extension round 2)

`NeuralStateBase.__getattr__` (qucumber/nn_states/neural_state.py:87-88) and `WaveFunctionBase.__getattr__`
(qucumber/nn_states/wavefunction.py:30-31) are both `return getattr(self.rbm_am, attr)`. Python calls `__getattr__` only after the
normal lookup (instance dict, class MRO: the state's own attributes, properties and methods) has failed; `getattr(self.rbm_am, attr)`
raises `AttributeError` when the RBM has no such attribute either. -/

/-- what a public method of the RBM classes does, as far as C14 is concerned -/
inductive FwdClass where
  /-- computes a value from its arguments and the parameters: no draw, no write -/
  | evaluator
  /-- `gibbs_steps(k, initial_state, overwrite)`: draws (Bernoulli), no write -/
  | gibbs
  /-- `sample_h_given_v` / `sample_v_given_h` / `sample_a_given_v` / `sample_v_given_ha`: one Bernoulli half-step, no write -/
  | halfStep
  /-- `initialize_parameters`: draws AND overwrites the parameters of `rbm_am` -/
  | initParams
  deriving DecidableEq, Repr, Inhabited

/-- the public methods of the class of `rbm_am`: `BinaryRBM` (qucumber/rbm/binary_rbm.py) for `PositiveWaveFunction` /
`ComplexWaveFunction`, `PurificationRBM` (qucumber/rbm/purification_rbm.py) for `DensityMatrix` -/
def rbmMethods : Kind → List (String × FwdClass)
  | .dens => [("effective_energy", .evaluator), ("effective_energy_gradient", .evaluator), ("gamma", .evaluator),
      ("gamma_grad", .evaluator), ("gibbs_steps", .gibbs), ("initialize_parameters", .initParams), ("mixing_term", .evaluator),
      ("partition", .evaluator), ("prob_a_given_v", .evaluator), ("prob_h_given_v", .evaluator), ("prob_v_given_ha", .evaluator),
      ("sample_a_given_v", .halfStep), ("sample_h_given_v", .halfStep), ("sample_v_given_ha", .halfStep)]
  | _ => [("effective_energy", .evaluator), ("effective_energy_gradient", .evaluator), ("gibbs_steps", .gibbs),
      ("initialize_parameters", .initParams), ("partition", .evaluator), ("prob_h_given_v", .evaluator),
      ("prob_v_given_h", .evaluator), ("sample_h_given_v", .halfStep), ("sample_v_given_h", .halfStep)]

/-- first entry of that name -/
def methodLookup : List (String × FwdClass) → String → Option FwdClass
  | [], _ => none
  | (q, c) :: rest, p => if q = p then some c else methodLookup rest p

/-- who answers `state.<name>` -/
inductive Resolved where
  /-- the normal lookup succeeds: the state's own attribute / property / method; `__getattr__` is not called -/
  | own
  /-- `__getattr__`: the bound method `rbm_am.<name>` -/
  | forwarded (c : FwdClass)
  /-- neither the state nor `rbm_am` has it: `getattr(self.rbm_am, attr)` raises `AttributeError` -/
  | attributeError
  deriving DecidableEq, Repr, Inhabited

/-- resolution of the METHOD name `name` on a state of kind `k` whose class (and instance) define the names `own`:
own attribute first, then `rbm_am`'s, `AttributeError` otherwise (neural_state.py:87-88, wavefunction.py:30-31) -/
def resolveMethod (own : String → Bool) (k : Kind) (name : String) : Resolved :=
  if own name then .own
  else match methodLookup (rbmMethods k) name with
    | some c => .forwarded c
    | none => .attributeError

/-- the operation of the frame model a forwarded call `state.<name>(…)` on the object in `slot` is: an `eval` for an evaluator,
`batchGradient` (= `gibbs_steps(k, chains of `rows` rows)`) for `gibbs_steps`; the half-steps and `initialize_parameters` have no
operation of their own (scope note in claims.d/C14.json: reachable only through forwarding; their callers `gibbs_steps` /
`reinitialize_parameters` are operations) -/
def fwdOp (slot arg k rows : Nat) : FwdClass → Option Op
  | .evaluator => some (.eval slot arg)
  | .gibbs => some (.batchGradient slot k rows arg)
  | .halfStep => none
  | .initParams => none

/-- `compute_normalization(space)` (neural_state.py:195-197): `return self.normalization(space)`; `normalization(space)`
(neural_state.py:178-193): `return self.rbm_am.partition(space)` — both are own methods of the state (not forwarded) and denote the
same evaluation as the forwarded `state.partition(space)` -/
def normalizationOp (slot arg : Nat) : Op := .eval slot arg

end QV.Frame
