/-
QV.Model.Prob — finite probabilistic programs and the block-Gibbs samplers of
`qucumber/rbm/binary_rbm.py` (sample_h_given_v, sample_v_given_h, gibbs_steps: lines 165-228),
`qucumber/rbm/purification_rbm.py` (sample_a_given_v, sample_h_given_v, sample_v_given_ha,
gibbs_steps: lines 264-337) and `qucumber/nn_states/neural_state.py` (`sample`: lines 107-131).

Randomness is NOT modelled as a PRNG.  Sampling code is a term of `Prog α β`
(`α` = carrier of the probabilities, `β` = result) with several interpretations of the SAME term:
 * `law`    — probability of each outcome (over any carrier with `+ * - 0 1`: ℝ for the theorems,
              Float for the driver),
 * `expect` — expectation of a test function (same recursion; `law` is `expect` of an indicator),
 * `run`    — replay of a recorded execution: consumes recorded draws, returns the result, the
              probabilities that were presented to the sampler (in order) and the leftover draws,
 * `paths`  — all complete executions (result, probabilities presented, draws made).
Only imports other `QV.Model` files.
-/
import QV.Model.Rbm
import QV.Model.Hilbert
import QV.Model.PyFlag
namespace QV

/-- A finite probabilistic program: return a value, or present probability `p` to the sampler
(one entry of the tensor given to `torch.bernoulli`), receive the drawn bit and continue. -/
inductive Prog (α : Type) (β : Type) where
  | ret : β → Prog α β
  | flip : α → (Bool → Prog α β) → Prog α β

namespace Prog
variable {α β γ : Type}

/-- sequencing: run `m`, feed its result to `f` -/
def bind : Prog α β → (β → Prog α γ) → Prog α γ
  | ret b, f => f b
  | flip p k, f => flip p (fun t => bind (k t) f)

/-- post-process the result -/
def map (f : β → γ) (m : Prog α β) : Prog α γ := bind m (fun b => ret (f b))

section law
variable [Add α] [Mul α] [Sub α] [Zero α] [One α]

/-- `Bernoulli(p)` mass function: `p` at `true` (= 1), `1 - p` at `false` (= 0). -/
def bern (p : α) (t : Bool) : α := if t then p else 1 - p

/-- expectation of `g` under the program -/
def expect : Prog α β → (β → α) → α
  | ret b, g => g b
  | flip p k, g => p * expect (k true) g + (1 - p) * expect (k false) g

/-- probability that the program returns `x` -/
def law [DecidableEq β] : Prog α β → β → α
  | ret b, x => if b = x then 1 else 0
  | flip p k, x => p * law (k true) x + (1 - p) * law (k false) x

/-- probability of a draw script: `Π_i Bern(p_i)(d_i)` over the paired entries -/
def weight : List α → List Bool → α
  | p :: ps, d :: ds => bern p d * weight ps ds
  | _, _ => 1

end law

/-- replay a recorded execution. `run prog draws = some (result, probabilities presented, leftover draws)`;
`none` when the recording is too short. -/
def run : Prog α β → List Bool → Option (β × List α × List Bool)
  | ret b, ds => some (b, [], ds)
  | flip _ _, [] => none
  | flip p k, d :: ds =>
    match run (k d) ds with
    | none => none
    | some (b, ps, rest) => some (b, p :: ps, rest)

/-- all complete executions: (result, probabilities presented, draws made) -/
def paths : Prog α β → List (β × List α × List Bool)
  | ret b => [(b, [], [])]
  | flip p k =>
    ((paths (k true)).map fun x => (x.1, p :: x.2.1, true :: x.2.2))
      ++ ((paths (k false)).map fun x => (x.1, p :: x.2.1, false :: x.2.2))

/-- One `torch.bernoulli(p)` call on a length-`m` probability vector: independent draws, entry `i`
from `p i`, in index order (the order in which the recorder flattens the tensor). -/
def flipVec : (m : Nat) → (Fin m → α) → Prog α (Fin m → Bool)
  | 0, _ => ret (fun i => i.elim0)
  | m + 1, p =>
    flip (p 0) fun t =>
      bind (flipVec m (fun i => p i.succ)) fun rest => ret (fun i => Fin.cases t rest i)

/-- One `torch.bernoulli(p)` call on a `B × m` probability matrix (a batch of `B` chains):
row-major order. -/
def flipMat : (B : Nat) → (m : Nat) → (Fin B → Fin m → α) → Prog α (Fin B → Fin m → Bool)
  | 0, _, _ => ret (fun b => b.elim0)
  | B + 1, m, p =>
    bind (flipVec m (p 0)) fun row =>
      bind (flipMat B m (fun b => p b.succ)) fun rest => ret (fun b => Fin.cases row rest b)

/-- `for _ in range(k): state = step(state)` -/
def iter (step : β → Prog α β) : Nat → β → Prog α β
  | 0, v => ret v
  | k + 1, v => bind (step v) (iter step k)

end Prog

section enc
variable {α : Type} [Zero α] [One α]
/-- a 0/1 state as the `torch.double` vector the code computes with -/
def bvec {n : Nat} (v : Fin n → Bool) : Fin n → α := fun j => bit (v j)
end enc

variable {α : Type} [Add α] [Mul α] [Neg α] [Sub α] [Div α] [Zero α] [One α] [Transc α]

/-- `torch.distributions.Bernoulli(probs=0.5)` -/
def half : α := 1 / two

open Prog

namespace RBM
variable {n h : Nat}

/-- one pass of the loop body of `BinaryRBM.gibbs_steps` for a single chain:
`sample_h_given_v(v, out=h)` then `sample_v_given_h(h, out=v)`; each is
`torch.bernoulli(prob_…(…))`. -/
def gibbsStep (r : RBM α n h) (v : Fin n → Bool) : Prog α (Fin n → Bool) :=
  (flipVec h (r.probH (bvec v))).bind fun hid => flipVec n (r.probV (bvec hid))

/-- `BinaryRBM.gibbs_steps(k, v)` for a single chain (the visible state after `k` passes) -/
def gibbsSteps (r : RBM α n h) (k : Nat) (v : Fin n → Bool) : Prog α (Fin n → Bool) :=
  iter r.gibbsStep k v

/-- loop body for a batch of `B` chains (`initial_state` of shape `B × n`): ONE bernoulli call on the
`B × h` hidden probabilities, then ONE on the `B × n` visible probabilities. -/
def gibbsStepB (r : RBM α n h) {B : Nat} (vs : Fin B → Fin n → Bool) : Prog α (Fin B → Fin n → Bool) :=
  (flipMat B h (fun b => r.probH (bvec (vs b)))).bind fun hs =>
    flipMat B n (fun b => r.probV (bvec (hs b)))

def gibbsStepsB (r : RBM α n h) {B : Nat} (k : Nat) (vs : Fin B → Fin n → Bool) :
    Prog α (Fin B → Fin n → Bool) := iter r.gibbsStepB k vs

/-- shapes of the tensors handed to `torch.bernoulli`, in call order, by `gibbs_steps(k, ·)` on `B` chains -/
def callShapes (_r : RBM α n h) (k B : Nat) : List (Nat × Nat) :=
  (List.range k).flatMap fun _ => [(B, h), (B, n)]

end RBM

namespace PRBM
variable {n h a : Nat}

/-- one pass of the loop body of `PurificationRBM.gibbs_steps`: `sample_h_given_v(v, out=h)`,
`sample_a_given_v(v, out=a)`, `sample_v_given_ha(h, a, out=v)` — in this order. -/
def gibbsStep (r : PRBM α n h a) (v : Fin n → Bool) : Prog α (Fin n → Bool) :=
  (flipVec h (r.probH (bvec v))).bind fun hid =>
    (flipVec a (r.probA (bvec v))).bind fun aux =>
      flipVec n (r.probV (bvec hid) (bvec aux))

def gibbsSteps (r : PRBM α n h a) (k : Nat) (v : Fin n → Bool) : Prog α (Fin n → Bool) :=
  iter r.gibbsStep k v

def gibbsStepB (r : PRBM α n h a) {B : Nat} (vs : Fin B → Fin n → Bool) :
    Prog α (Fin B → Fin n → Bool) :=
  (flipMat B h (fun b => r.probH (bvec (vs b)))).bind fun hs =>
    (flipMat B a (fun b => r.probA (bvec (vs b)))).bind fun as =>
      flipMat B n (fun b => r.probV (bvec (hs b)) (bvec (as b)))

def gibbsStepsB (r : PRBM α n h a) {B : Nat} (k : Nat) (vs : Fin B → Fin n → Bool) :
    Prog α (Fin B → Fin n → Bool) := iter r.gibbsStepB k vs

def callShapes (_r : PRBM α n h a) (k B : Nat) : List (Nat × Nat) :=
  (List.range k).flatMap fun _ => [(B, h), (B, a), (B, n)]

end PRBM

/-- `NeuralStateBase.sample(k, num_samples, initial_state)`, generic in the network's batched
`gibbs_steps` (`steps`): with an initial state run the chains from it; without, first draw a
`num_samples × n` start from fair coins (`Bernoulli(probs=0.5).sample(size)`, which is itself one
`torch.bernoulli` call on a constant-0.5 tensor). -/
def sampleFrom {n B : Nat} (steps : (Fin B → Fin n → Bool) → Prog α (Fin B → Fin n → Bool))
    (init : Option (Fin B → Fin n → Bool)) : Prog α (Fin B → Fin n → Bool) :=
  match init with
  | some vs => steps vs
  | none => (flipMat B n (fun _ _ => half)).bind steps

/-! ### buffers: which tensor object is returned / written -/

/-- a tensor object: identity, whether its dtype/device are those of the RBM parameters
(then `x.to(self.weights)` is `x` itself, otherwise a converted copy), contents -/
structure Buf (σ : Type) where
  id : Nat
  native : Bool
  data : σ
  deriving DecidableEq

/-- what the caller can observe after `gibbs_steps(k, initial_state, overwrite)` -/
structure CallResult (σ : Type) where
  /-- the returned tensor -/
  result : Buf σ
  /-- the caller's `initial_state` object after the call -/
  caller : Buf σ

/-- `v = (initial_state if overwrite else initial_state.clone()).to(self.weights)`; then every
sampling step writes into the object `v` (`out=v`), and `v` is returned.
`fresh`, `fresh+1` are unused object ids (for `clone()` and for the copy made by `.to`). -/
def gibbsCall {σ : Type} (steps : σ → Prog α σ) (fresh : Nat) (overwrite : Bool) (init : Buf σ) :
    Prog α (CallResult σ) :=
  let v0 : Buf σ := if overwrite then init else ⟨fresh, init.native, init.data⟩
  let v : Buf σ := if v0.native then v0 else ⟨fresh + 1, true, v0.data⟩
  (steps v.data).map fun final =>
    let res : Buf σ := { v with data := final }
    ⟨res, if init.id = res.id then { init with data := final } else init⟩

/-- `gibbs_steps(k, initial_state, overwrite)` / `sample(k, num_samples, initial_state, overwrite)` with `overwrite` the OBJECT the
caller passed (documented as `bool`; `1`, `numpy.bool_`, 0-dim bool arrays / tensors occur in practice): `sample` hands it on
untouched (neural_state.py:131) and `gibbs_steps` tests it with `initial_state if overwrite else initial_state.clone()`
(binary_rbm.py:220, purification_rbm.py:327) — Python truthiness. -/
def gibbsCallF {σ : Type} (steps : σ → Prog α σ) (fresh : Nat) (overwrite : PyFlag) (init : Buf σ) :
    Prog α (CallResult σ) :=
  gibbsCall steps fresh overwrite.truthy init

/-! ### the public one-step samplers with their `out=` buffer (extension round 2) -/

/-- what the caller can observe after `sample_…(x, out=out)`: the returned tensor and the caller's `out` object
(`none` when no `out` was passed) after the call -/
structure StepResult (σ : Type) where
  result : Buf σ
  out : Option (Buf σ)

/-- body shared by the five public one-step samplers (binary_rbm.py:170-198 `sample_v_given_h`, `sample_h_given_v`;
purification_rbm.py:261-307 `sample_a_given_v`, `sample_h_given_v`, `sample_v_given_ha`), AS WRITTEN:
```
p = self.prob_…(x, out=out)        # probabilities; written INTO `out` when given (the object `out` is returned), else a new tensor
p = torch.bernoulli(p, out=out)    # draws; written INTO `out` when given (overwriting the probabilities), else another new tensor
return p
```
`probs` = the vector of conditional probabilities the `prob_…` method computes; `fresh`, `fresh+1` unused object ids. -/
def sampleCall {m : Nat} (probs : Fin m → α) (fresh : Nat) (out : Option (Buf (Fin m → α))) :
    Prog α (StepResult (Fin m → α)) :=
  -- line 1: the tensor object holding the probabilities
  let p : Buf (Fin m → α) := match out with
    | some o => { o with data := probs }
    | none => ⟨fresh, true, probs⟩
  -- line 2: `torch.bernoulli(p, out=out)` presents the CONTENTS of `p` to the sampler
  (flipVec m p.data).map fun t =>
    match out with
    | some _ => let o' : Buf (Fin m → α) := { p with data := bvec t }; ⟨o', some o'⟩
    | none => ⟨⟨fresh + 1, true, bvec t⟩, none⟩

namespace RBM
variable {n h : Nat}
/-- `BinaryRBM.sample_h_given_v(v, out=None)` (binary_rbm.py:185-198) -/
def sampleH (r : RBM α n h) (v : Fin n → α) (fresh : Nat) (out : Option (Buf (Fin h → α))) :=
  sampleCall (r.probH v) fresh out
/-- `BinaryRBM.sample_v_given_h(h, out=None)` (binary_rbm.py:170-183) -/
def sampleV (r : RBM α n h) (hid : Fin h → α) (fresh : Nat) (out : Option (Buf (Fin n → α))) :=
  sampleCall (r.probV hid) fresh out

/-- loop body of `BinaryRBM.gibbs_steps` (binary_rbm.py:223-225) on the buffer OBJECTS `h`, `v`:
`self.sample_h_given_v(v, out=h)`; `self.sample_v_given_h(h, out=v)` — the return values are discarded, the second call
reads whatever the first one left IN THE BUFFER `h`. Result: the two buffers after the pass. -/
def gibbsStepBuf (r : RBM α n h) (fresh : Nat) (hb : Buf (Fin h → α)) (vb : Buf (Fin n → α)) :
    Prog α (Buf (Fin h → α) × Buf (Fin n → α)) :=
  (r.sampleH vb.data fresh (some hb)).bind fun rh =>
    let hb' := rh.out.getD hb
    (r.sampleV hb'.data fresh (some vb)).map fun rv => (hb', rv.out.getD vb)
end RBM

namespace PRBM
variable {n h a : Nat}
/-- `PurificationRBM.sample_h_given_v(v, out=None)` (purification_rbm.py:276-289) -/
def sampleH (r : PRBM α n h a) (v : Fin n → α) (fresh : Nat) (out : Option (Buf (Fin h → α))) :=
  sampleCall (r.probH v) fresh out
/-- `PurificationRBM.sample_a_given_v(v, out=None)` (purification_rbm.py:261-274) -/
def sampleA (r : PRBM α n h a) (v : Fin n → α) (fresh : Nat) (out : Option (Buf (Fin a → α))) :=
  sampleCall (r.probA v) fresh out
/-- `PurificationRBM.sample_v_given_ha(h, a, out=None)` (purification_rbm.py:291-307) -/
def sampleV (r : PRBM α n h a) (hid : Fin h → α) (aux : Fin a → α) (fresh : Nat) (out : Option (Buf (Fin n → α))) :=
  sampleCall (r.probV hid aux) fresh out

/-- loop body of `PurificationRBM.gibbs_steps` (purification_rbm.py:333-336) on the buffer objects `h`, `a`, `v`:
`sample_h_given_v(v, out=h)`; `sample_a_given_v(v, out=a)`; `sample_v_given_ha(h, a, out=v)` — return values discarded. -/
def gibbsStepBuf (r : PRBM α n h a) (fresh : Nat) (hb : Buf (Fin h → α)) (ab : Buf (Fin a → α)) (vb : Buf (Fin n → α)) :
    Prog α (Buf (Fin h → α) × Buf (Fin a → α) × Buf (Fin n → α)) :=
  (r.sampleH vb.data fresh (some hb)).bind fun rh =>
    let hb' := rh.out.getD hb
    (r.sampleA vb.data fresh (some ab)).bind fun ra =>
      let ab' := ra.out.getD ab
      (r.sampleV hb'.data ab'.data fresh (some vb)).map fun rv => (hb', ab', rv.out.getD vb)
end PRBM

end QV
