/-
QV.Model.Hilbert — model of `generate_hilbert_space`, `subspace_vector`
(qucumber/nn_states/neural_state.py:133-176) and `_convert_basis_element_to_index`
(qucumber/utils/unitaries.py:184-186).
-/
import QV.Model.Scalar
namespace QV

/-- Python's error kinds the model distinguishes. -/
inductive PyErr where
  | ValueError | TypeError | RuntimeError | ZeroDivisionError | AttributeError | KeyError
  | IndexError | AssertionError
  deriving DecidableEq, Repr, Inhabited

def PyErr.toString : PyErr → String
  | .ValueError => "ValueError" | .TypeError => "TypeError" | .RuntimeError => "RuntimeError"
  | .ZeroDivisionError => "ZeroDivisionError" | .AttributeError => "AttributeError"
  | .KeyError => "KeyError" | .IndexError => "IndexError" | .AssertionError => "AssertionError"

/-- `max_size` property -/
def maxSize : Nat := 20

/-- entry `[k, j]` of `generate_hilbert_space(size)`:
`((dim[:,None] & (1 << arange(size))) > 0)[:, ::-1]` — column `j` after the reversal is
column `size-1-j` before it, i.e. bit `size-1-j` of `k`. -/
def spaceBit (size k : Nat) (j : Fin size) : Bool := Nat.testBit k (size - 1 - j.val)

/-- `size if size else num_visible` (Python truthiness: `None` and `0` both select the default). -/
def effSize (size : Option Nat) (numVisible : Nat) : Nat :=
  match size with
  | none => numVisible
  | some 0 => numVisible
  | some s => s

/-- `generate_hilbert_space(size)`: all `2^size` rows, or `ValueError` beyond `max_size`. -/
def generateHilbertSpace (size : Option Nat) (numVisible : Nat) : Except PyErr (List (List Bool)) :=
  let s := effSize size numVisible
  if s > maxSize then .error .ValueError
  else .ok ((List.range (2 ^ s)).map (fun k => (List.finRange s).map (spaceBit s k)))

/-- `subspace_vector(num, size)` — no size guard in the code. -/
def subspaceVector (num : Nat) (size : Option Nat) (numVisible : Nat) : List Bool :=
  let s := effSize size numVisible
  (List.finRange s).map (spaceBit s num)

/-- `_convert_basis_element_to_index`: `Σ_j state[j] * 2^(n-1-j)` (powers `2 ** (arange(n,0,-1) - 1)`). -/
def basisIndexL : List Bool → Nat
  | [] => 0
  | b :: rest => (if b then 2 ^ rest.length else 0) + basisIndexL rest

/-- function form of the index, for theorems -/
def basisIndex {n : Nat} (σ : Fin n → Bool) : Nat := basisIndexL ((List.finRange n).map σ)

section
variable {α : Type} [Zero α] [One α]
/-- 0/1 encoding of a bit as a scalar (`torch.double` entries of samples). -/
def bit (b : Bool) : α := if b then 1 else 0
/-- row `k` of the Hilbert space as a scalar vector -/
def spaceRow (n k : Nat) : Fin n → α := fun j => bit (spaceBit n k j)
end

end QV
