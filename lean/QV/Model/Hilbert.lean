/-
QV.Model.Hilbert — model of `generate_hilbert_space`, `subspace_vector`
(qucumber/nn_states/neural_state.py:133-176) and `_convert_basis_element_to_index`
(qucumber/utils/unitaries.py:184-186).
-/
import QV.Model.Scalar
namespace QV

/-- Python's error kinds the model distinguishes. -/
inductive PyErr where
  | ValueError | TypeError | RuntimeError | ZeroDivisionError | AttributeError | KeyError
  | IndexError | AssertionError
  deriving DecidableEq, Repr, Inhabited

def PyErr.toString : PyErr → String
  | .ValueError => "ValueError" | .TypeError => "TypeError" | .RuntimeError => "RuntimeError"
  | .ZeroDivisionError => "ZeroDivisionError" | .AttributeError => "AttributeError"
  | .KeyError => "KeyError" | .IndexError => "IndexError" | .AssertionError => "AssertionError"

/-- `max_size` property -/
def maxSize : Nat := 20

/-- entry `[k, j]` of `generate_hilbert_space(size)`:
`((dim[:,None] & (1 << arange(size))) > 0)[:, ::-1]` — column `j` after the reversal is
column `size-1-j` before it, i.e. bit `size-1-j` of `k`. -/
def spaceBit (size k : Nat) (j : Fin size) : Bool := Nat.testBit k (size - 1 - j.val)

/-- `size if size else num_visible` (Python truthiness: `None` and `0` both select the default). -/
def effSize (size : Option Nat) (numVisible : Nat) : Nat :=
  match size with
  | none => numVisible
  | some 0 => numVisible
  | some s => s

/-- one row as the code computes it: `((num & (1 << np.arange(size))) > 0)[::-1]` — mask bit `i` of `num`
for `i = 0 … size-1` (little-endian), then reverse. (`neural_state.py:154` for `subspace_vector`,
`:174` row `num` of the broadcast `dim[:, None] & …` followed by `[:, ::-1]`.)
Integers are unbounded here; numpy uses int64, so the model is faithful for `size ≤ 62`, `num < 2^63`. -/
def maskRow (size num : Nat) : List Bool :=
  ((List.range size).map (fun i => decide (num &&& (1 <<< i) > 0))).reverse

/-- the head of `generate_hilbert_space` (`neural_state.py:169-171`): effective size, or `ValueError`
("Size of the Hilbert space is too large!") when it exceeds `max_size` (strictly). -/
def spaceGuard (size : Option Nat) (numVisible : Nat) : Except PyErr Nat :=
  let s := effSize size numVisible
  if s > maxSize then .error .ValueError else .ok s

/-- `generate_hilbert_space(size)` (`neural_state.py:157-176`): all `2^size` rows (`dim = arange(2**size)`),
or `ValueError` beyond `max_size`. Lemma `maskRow_eq_map_spaceBit`: row `k` is `j ↦ spaceBit s k j`. -/
def generateHilbertSpace (size : Option Nat) (numVisible : Nat) : Except PyErr (List (List Bool)) :=
  match spaceGuard size numVisible with
  | .error e => .error e
  | .ok s => .ok ((List.range (2 ^ s)).map (maskRow s))

/-- `subspace_vector(num, size)` (`neural_state.py:133-155`) — no size guard in the code. -/
def subspaceVector (num : Nat) (size : Option Nat) (numVisible : Nat) : List Bool :=
  maskRow (effSize size numVisible) num

/-- `powers = 2 ** (torch.arange(n, 0, -1) - 1)` (`unitaries.py:185`): entry `j` is `2^((n-j)-1)`. -/
def indexPowers (n : Nat) : List Nat := (List.range n).map (fun j => 2 ^ ((n - j) - 1))

/-- `_convert_basis_element_to_index(states)` for one 0/1 state (`unitaries.py:184-186`):
`torch.matmul(states, powers)`, the dot product with `indexPowers`. -/
def convertBasisElementToIndex (st : List Bool) : Nat :=
  ((st.zip (indexPowers st.length)).map (fun bp => (if bp.1 then 1 else 0) * bp.2)).sum

/-- the batched call form: `matmul` of an `(N, n)` matrix with `powers` is the row-wise map. -/
def convertBasisBatch (sts : List (List Bool)) : List Nat := sts.map convertBasisElementToIndex

/-- recursive (Horner-free) form of the same index: `Σ_j state[j] * 2^(n-1-j)`; equal to
`convertBasisElementToIndex` by `convertBasisElementToIndex_eq` in `QV/Lemmas/Hilbert.lean`. -/
def basisIndexL : List Bool → Nat
  | [] => 0
  | b :: rest => (if b then 2 ^ rest.length else 0) + basisIndexL rest

/-- function form of the index, for theorems -/
def basisIndex {n : Nat} (σ : Fin n → Bool) : Nat := basisIndexL ((List.finRange n).map σ)

section
variable {α : Type} [Zero α] [One α]
/-- 0/1 encoding of a bit as a scalar (`torch.double` entries of samples). -/
def bit (b : Bool) : α := if b then 1 else 0
/-- row `k` of the Hilbert space as a scalar vector -/
def spaceRow (n k : Nat) : Fin n → α := fun j => bit (spaceBit n k j)

/-- a generated 0/1 row (as `generate_hilbert_space` / `subspace_vector` return it) read as the scalar vector
`space[k, :]` that `psi`, `rho`, `probability`, … receive (`torch.double` entries 0.0 / 1.0). -/
def rowVec (n : Nat) (r : List Bool) : Fin n → α := fun j => bit (r.getD j.val false)

/-- `f(space)` for a function that works row by row (`psi(space)`, `amplitude(space)`, `probability(space)`):
position `k` of the produced array is `f(space[k, :])`. -/
def overSpace {β : Type} (n : Nat) (f : (Fin n → α) → β) (rows : List (List Bool)) : List β :=
  rows.map (fun r => f (rowVec n r))

/-- `g(space, space)` with `expand=True` (`rho`, `pi`, `gamma`): entry `[i][j]` is `g(space[i, :], space[j, :])` —
row index from the first argument, column index from the second. -/
def overSpace2 {β : Type} (n : Nat) (g : (Fin n → α) → (Fin n → α) → β) (rows : List (List Bool)) : List (List β) :=
  rows.map (fun r => rows.map (fun r' => g (rowVec n r) (rowVec n r')))
end

end QV
