/-
QV.Model.Store — heap model of the mutable objects behind save / load / autoload (C11) and
construction / reset (C20).

Objects live in an explicit heap so that aliasing, in-place update and "does not modify the
caller's object" are statements about object ids:
  * tensor objects (an `nn.Parameter`'s storage): `ObjId ↦ (shape, token)`; the token stands for the
    bit pattern of the contents (the harness hashes the bytes; token 0 = all zeros; 1,2,3 = the default
    X, Y, Z unitaries of `create_dict()`);
  * network objects (`BinaryRBM` / `PurificationRBM` modules): `ObjId ↦ Net` (sizes + ordered
    parameter name ↦ tensor id, the order of `nn.Module.parameters()` / `state_dict()`);
  * caller-owned metadata dict objects: `ObjId ↦ ordered (key ↦ value)`.
A neural state (`NState`) holds its `networks` as (name, network id) pairs, its `unitary_dict`
(by value) and the size attributes copied in the constructors.  Files are ordered maps key ↦ value
tokens (`torch.save`/`torch.load` are trusted to be a faithful map).

Modelled code (as it now is, i.e. with the F5 and F9 fixes):
  qucumber/nn_states/neural_state.py:82-85 (reinitialize_parameters), 199-226 (save), 228-246 (load),
  positive_wavefunction.py:44-56, 194-240 (ctor, fit, autoload), complex_wavefunction.py:52-82, 216-266,
  density_matrix.py:45-82, 335-384, rbm/binary_rbm.py:26-72, rbm/purification_rbm.py:41-128,
  callbacks/model_saver.py:68-90 (`_save`), utils/unitaries.py:22-61 (`create_dict`).
Import-free.
-/
namespace QV.Store

/-- object identities are natural numbers (a scoped macro rather than an `abbrev`, so that the type is
syntactically `Nat` for `omega`) -/
scoped macro "ObjId" : term => `(Nat)
abbrev Tok := Nat
abbrev Shape := List Nat

/-- Python error kinds distinguished by this model (a local enumeration: `FileNotFoundError`
is not among the kinds of `QV.PyErr`). -/
inductive SErr where
  | ValueError | TypeError | RuntimeError | KeyError | AttributeError | FileNotFoundError
  deriving DecidableEq, Repr, Inhabited

def SErr.toString : SErr → String
  | .ValueError => "ValueError" | .TypeError => "TypeError" | .RuntimeError => "RuntimeError"
  | .KeyError => "KeyError" | .AttributeError => "AttributeError"
  | .FileNotFoundError => "FileNotFoundError"

/-! ### ordered association lists with Python-`dict` semantics -/

/-- `d.get(k)` -/
def aget {κ β : Type} [DecidableEq κ] : List (κ × β) → κ → Option β
  | [], _ => none
  | (k, v) :: r, x => if k = x then some v else aget r x

/-- `d[k] = v` : an existing key keeps its position, a new key is appended. -/
def aset {κ β : Type} [DecidableEq κ] : List (κ × β) → κ → β → List (κ × β)
  | [], x, v => [(x, v)]
  | (k, w) :: r, x, v => if k = x then (k, v) :: r else (k, w) :: aset r x v

/-- `k in d.keys()` -/
def ahas {κ β : Type} [DecidableEq κ] (d : List (κ × β)) (k : κ) : Bool := (aget d k).isSome

/-- `d.update(e)` : entries of `e` set in order. -/
def aupdate {κ β : Type} [DecidableEq κ] (d e : List (κ × β)) : List (κ × β) :=
  e.foldl (fun acc kv => aset acc kv.1 kv.2) d

/-- pointwise update of a partial map on ids -/
def upd {β : Type} (f : Nat → Option β) (i : Nat) (v : β) : Nat → Option β :=
  fun j => if j = i then some v else f j

/-! ### values -/

/-- keys of a Python dict: strings, or something else (an int) that `**metadata` rejects -/
inductive MKey where
  | str (s : String)
  | int (i : Int)
  deriving DecidableEq, Repr, Inhabited

/-- a `state_dict()` snapshot: ordered parameter name ↦ (shape, contents token) -/
abbrev SD := List (String × Shape × Tok)

/-- values that occur in metadata dicts, in files and as a state's `unitary_dict` attribute -/
inductive FVal where
  /-- a network's `state_dict` written to a file -/
  | sd (ps : SD)
  /-- a dictionary of unitaries name ↦ contents token -/
  | ud (d : List (String × Tok))
  /-- a caller-supplied metadata value (opaque token); `mapping` says whether it is a `dict`
  (matters only to `load_state_dict`'s type test) -/
  | mv (mapping : Bool) (tok : Tok)
  deriving DecidableEq, Repr, Inhabited

abbrev MDict := List (MKey × FVal)
/-- what `torch.load` returns -/
abbrev File := List (MKey × FVal)
/-- the file system: path (a small number) ↦ file -/
abbrev Files := Nat → Option File

inductive NetKind where
  | binary | purif
  deriving DecidableEq, Repr, Inhabited

inductive Kind where
  | pos | cplx | dens
  deriving DecidableEq, Repr, Inhabited

/-- an RBM module object: the size attributes and the registered parameters, in registration order -/
structure Net where
  kind : NetKind
  nv : Nat
  nh : Nat
  /-- `num_aux` (0 and unused for a `BinaryRBM`) -/
  na : Nat
  params : List (String × ObjId)
  deriving Repr, Inhabited

structure Heap where
  tens : ObjId → Option (Shape × Tok)
  nets : ObjId → Option Net
  dicts : ObjId → Option MDict
  /-- allocation counter: every id ≥ `next` is unused -/
  next : ObjId

def Heap.empty : Heap := ⟨fun _ => none, fun _ => none, fun _ => none, 0⟩

/-- a `NeuralState` object -/
structure NState where
  kind : Kind
  /-- `self.networks` with the objects the attributes point to -/
  nets : List (String × ObjId)
  /-- `self.unitary_dict` (absent for `PositiveWaveFunction`) -/
  ud : Option FVal
  nv : Nat
  nh : Nat
  na : Option Nat
  deriving Repr, Inhabited

/-! ### tensors -/

/-- the all-zeros contents token -/
def zeroTok : Tok := 0

/-- in-place write of new contents into an existing tensor (`copy_`, optimizer step, `.data[...] = …`):
identity and shape are kept. -/
def Heap.setTok (h : Heap) (id : ObjId) (tok : Tok) : Heap :=
  match h.tens id with
  | some (sh, _) => { h with tens := upd h.tens id (sh, tok) }
  | none => h

/-- read a tensor (shape, token) -/
def Heap.readT (h : Heap) (id : ObjId) : Shape × Tok := (h.tens id).getD ([], 0)

/-- contents of a parameter list as seen through the heap: name ↦ (shape, token).
This is what `torch.save` pickles for a `state_dict()` and what `torch.equal` comparisons see. -/
def viewParams (h : Heap) (ps : List (String × ObjId)) : SD :=
  ps.map (fun p => (p.1, h.readT p.2))

/-- contents of a network object -/
def viewNet (h : Heap) (id : ObjId) : SD :=
  match h.nets id with
  | some net => viewParams h net.params
  | none => []

/-- allocate fresh tensors, one per spec, with consecutive ids starting at `h.next` -/
def allocTensors : Heap → SD → Heap × List (String × ObjId)
  | h, [] => (h, [])
  | h, (nm, sh, t) :: rest =>
    let r := allocTensors { h with tens := upd h.tens h.next (sh, t), next := h.next + 1 } rest
    (r.1, (nm, h.next) :: r.2)

/-- `initialize_parameters` (binary_rbm.py:48-72, purification_rbm.py:81-128): the registered
parameters with their shapes; weights `randn/√n` (contents tokens supplied by `rand`), biases zero. -/
def paramSpecs (k : NetKind) (nv nh na : Nat) (rand : List Tok) : SD :=
  match k with
  | .binary =>
    [("weights", [nh, nv], rand.getD 0 0), ("visible_bias", [nv], zeroTok), ("hidden_bias", [nh], zeroTok)]
  | .purif =>
    [("weights_W", [nh, nv], rand.getD 0 0), ("weights_U", [na, nv], rand.getD 1 0),
     ("visible_bias", [nv], zeroTok), ("hidden_bias", [nh], zeroTok), ("aux_bias", [na], zeroTok)]

/-- `BinaryRBM.__init__`: `int(num_hidden) if num_hidden else num_visible` (truthiness: `None` and 0);
`PurificationRBM.__init__`: `… if num_hidden is not None else num_visible`. -/
def defaultH (k : NetKind) (nv : Nat) (nh : Option Nat) : Nat :=
  match k, nh with
  | _, none => nv
  | .binary, some 0 => nv
  | _, some x => x

/-- `num_aux if num_aux is not None else num_visible` (unused for binary) -/
def defaultA (k : NetKind) (nv : Nat) (na : Option Nat) : Nat :=
  match k with
  | .binary => 0
  | .purif => na.getD nv

/-- `gen_tensor = torch.zeros if zero_weights else torch.randn` (binary_rbm.py:51, purification_rbm.py:87):
with `zero_weights=True` no generator draw is used and every weight matrix is the all-zeros token
(`paramSpecs` reads a missing weight token as `zeroTok`). -/
def weightToks (zeroWeights : Bool) (rand : List Tok) : List Tok :=
  if zeroWeights then [] else rand

/-- allocate a network object whose parameters are fresh tensors with the given contents -/
def allocNet (h : Heap) (k : NetKind) (nv nh na : Nat) (specs : SD) : Heap × ObjId :=
  let r := allocTensors h specs
  ({ r.1 with nets := upd r.1.nets r.1.next ⟨k, nv, nh, na, r.2⟩, next := r.1.next + 1 }, r.1.next)

/-- `BinaryRBM(num_visible, num_hidden)` / `PurificationRBM(num_visible, num_hidden, num_aux)` -/
def newNet (h : Heap) (k : NetKind) (nv : Nat) (nh na : Option Nat) (rand : List Tok) : Heap × ObjId :=
  let H := defaultH k nv nh
  let A := defaultA k nv na
  allocNet h k nv H A (paramSpecs k nv H A rand)

/-- `copy.deepcopy(module)`: a new module object with new parameter objects of equal contents -/
def deepcopyNet (h : Heap) (id : ObjId) : Heap × ObjId :=
  match h.nets id with
  | some net => allocNet h net.kind net.nv net.nh net.na (viewParams h net.params)
  | none => (h, id)

/-- `module.initialize_parameters()`: REPLACES the `nn.Parameter` attributes of the module object by
new ones (shapes from the size attributes); the module object keeps its identity. -/
def initParams (h : Heap) (id : ObjId) (rand : List Tok) : Heap :=
  match h.nets id with
  | some net =>
    let r := allocTensors h (paramSpecs net.kind net.nv net.nh net.na rand)
    { r.1 with nets := upd r.1.nets id { net with params := r.2 } }
  | none => h

/-- in-place write of the given contents tokens into consecutive parameters (missing tokens: untouched) -/
def writeParams (h : Heap) : List (String × ObjId) → List Tok → Heap
  | [], _ => h
  | _, [] => h
  | (_, id) :: ps, t :: ts => writeParams (h.setTok id t) ps ts

/-- external in-place write into every parameter of a network object -/
def writeNet (h : Heap) (id : ObjId) (toks : List Tok) : Heap :=
  match h.nets id with
  | some net => writeParams h net.params toks
  | none => h

/-! ### unitary dictionaries -/

/-- `unitaries.create_dict()` without kwargs: X, Y, Z (tokens 1, 2, 3) -/
def defaultUD : List (String × Tok) := [("X", 1), ("Y", 2), ("Z", 3)]

/-- `unitary_dict if unitary_dict else unitaries.create_dict()` (truthiness: `None` and `{}`) -/
def udOrDefault (ud : Option (List (String × Tok))) : List (String × Tok) :=
  match ud with
  | none => defaultUD
  | some [] => defaultUD
  | some d => d

/-! ### constructors (C20) -/

def netKindOf : Kind → NetKind
  | .dens => .purif
  | _ => .binary

/-- sizes branch of the three constructors (`module is None`): independent fresh networks.
`rand` : one list of weight tokens per network. -/
def constructSizes (h : Heap) (kind : Kind) (nv : Nat) (nh na : Option Nat)
    (ud : Option (List (String × Tok))) (rand : List (List Tok)) : Heap × NState :=
  let k := netKindOf kind
  let H := defaultH k nv nh
  match kind with
  | .pos =>
    let r := newNet h k nv nh na (rand.getD 0 [])
    (r.1, ⟨.pos, [("rbm_am", r.2)], none, nv, H, none⟩)
  | .cplx =>
    let r := newNet h k nv nh na (rand.getD 0 [])
    let s := newNet r.1 k nv nh na (rand.getD 1 [])
    (s.1, ⟨.cplx, [("rbm_am", r.2), ("rbm_ph", s.2)], some (.ud (udOrDefault ud)), nv, H, none⟩)
  | .dens =>
    let r := newNet h k nv nh na (rand.getD 0 [])
    let s := newNet r.1 k nv nh na (rand.getD 1 [])
    (s.1, ⟨.dens, [("rbm_am", r.2), ("rbm_ph", s.2)], some (.ud (udOrDefault ud)), nv, H,
            some (defaultA k nv na)⟩)

/-- `module=` branch: the amplitude network IS the given module object (`module.to(cpu)` returns
`self`); the phase network is `copy.deepcopy(module)` (post-F9). The size attributes are read from
the amplitude network; `DensityMatrix` reads `num_aux`, which a `BinaryRBM` does not have. -/
def constructFrom (h : Heap) (kind : Kind) (mid : ObjId) (ud : Option (List (String × Tok))) :
    Except SErr (Heap × NState) :=
  match h.nets mid with
  | none => .error .AttributeError
  | some m =>
    match kind with
    | .pos => .ok (h, ⟨.pos, [("rbm_am", mid)], none, m.nv, m.nh, none⟩)
    | .cplx =>
      let r := deepcopyNet h mid
      .ok (r.1, ⟨.cplx, [("rbm_am", mid), ("rbm_ph", r.2)], some (.ud (udOrDefault ud)), m.nv, m.nh, none⟩)
    | .dens =>
      let r := deepcopyNet h mid
      match m.kind with
      | .binary => .error .AttributeError
      | .purif =>
        .ok (r.1, ⟨.dens, [("rbm_am", mid), ("rbm_ph", r.2)], some (.ud (udOrDefault ud)), m.nv, m.nh,
                   some m.na⟩)

/-- `reinitialize_parameters`: `for net in self.networks: getattr(self, net).initialize_parameters()` -/
def reinit (h : Heap) : List (String × ObjId) → List (List Tok) → Heap
  | [], _ => h
  | (_, id) :: rest, rand => reinit (initParams h id (rand.headD [])) rest rand.tail

/-- what one `fit` call does to the parameters of one network: the optimizer writes new contents into
every parameter in place.  `frozenZero = true` for the phase network of a `DensityMatrix`: its
`aux_bias` receives a gradient that is identically zero (`QV.PhaseAux`), so a value of exactly zero stays
zero under SGD(+momentum, weight decay, Nesterov) and Adam (theorem `C20_phase_aux_bias_zero`);
a non-zero value may move (weight decay) and takes the supplied token. -/
def trainParams (h : Heap) (frozenZero : Bool) : List (String × ObjId) → List Tok → Heap
  | [], _ => h
  | _, [] => h
  | (nm, id) :: ps, t :: ts =>
    if frozenZero && nm == "aux_bias" && (h.readT id).2 == zeroTok then trainParams h frozenZero ps ts
    else trainParams (h.setTok id t) frozenZero ps ts

def trainNets (h : Heap) (kind : Kind) : List (String × ObjId) → List (List Tok) → Heap
  | [], _ => h
  | (nm, id) :: rest, toks =>
    let h1 := match h.nets id with
      | some net => trainParams h (kind == .dens && nm == "rbm_ph") net.params (toks.headD [])
      | none => h
    trainNets h1 kind rest toks.tail

/-- `fit` (complex_wavefunction.py:232-235, density_matrix.py:351-352, positive_wavefunction.py:210):
complex and mixed states refuse `input_bases=None` with `ValueError` before anything happens; the positive
state overwrites `input_bases` with `None`. -/
def fit (h : Heap) (st : NState) (bases : Bool) (toks : List (List Tok)) : Except SErr Heap :=
  if st.kind != .pos && !bases then .error .ValueError
  else .ok (trainNets h st.kind st.nets toks)

/-! ### save (C11) -/

/-- entries of a dict under construction inside `save`: a `state_dict()` holds REFERENCES to the live
parameters until `torch.save` pickles it. -/
inductive DVal where
  | refs (ps : List (String × ObjId))
  | val (v : FVal)

/-- `torch.save(data, location)`: contents are read at write time -/
def pickle (h : Heap) (data : List (MKey × DVal)) : File :=
  data.map (fun kv => (kv.1, match kv.2 with
    | .refs ps => FVal.sd (viewParams h ps)
    | .val v => v))

def isStrKey : MKey → Bool
  | .str _ => true
  | .int _ => false

/-- `{net: getattr(self, net).state_dict() for net in self.networks}` -/
def stateDicts (h : Heap) (nets : List (String × ObjId)) : List (MKey × DVal) :=
  nets.map (fun p => (MKey.str p.1, DVal.refs (match h.nets p.2 with
    | some net => net.params
    | none => [])))

/-- `dict(metadata) if metadata else {}` : the entries `save` starts from (`None` and `{}` are falsy) -/
def mdEntries (h : Heap) (md : Option ObjId) : MDict :=
  match md with
  | none => []
  | some id => (h.dicts id).getD []

/-- `metadata["unitary_dict"] = self.unitary_dict` when the state has one -/
def saveMeta (st : NState) (e0 : MDict) : MDict :=
  match st.ud with
  | some u => aset e0 (.str "unitary_dict") u
  | none => e0

/-- `NeuralStateBase.save(location, metadata)` in the code's order.  `copyMd = true` is the code as it
is (`dict(metadata) if metadata else {}`); `copyMd = false` is the pre-F5 code, where a non-empty
caller dict is mutated in place (kept only to exhibit the counter-example).
Returns the new file system and heap. -/
def saveWith (copyMd : Bool) (h : Heap) (fs : Files) (st : NState) (md : Option ObjId) (path : Nat) :
    Except SErr (Files × Heap) :=
  -- metadata = dict(metadata) if metadata else {}
  let entries0 := mdEntries h md
  -- the object the following insertion writes into: a local dict, or (pre-F5) the caller's non-empty dict
  let callerObj : Option ObjId := if copyMd || entries0.isEmpty then none else md
  -- if hasattr(self, "unitary_dict"): reserved-key check, then insertion
  if st.ud.isSome && ahas entries0 (.str "unitary_dict") then .error .ValueError
  else
    let entries1 := saveMeta st entries0
    let h1 : Heap := match st.ud, callerObj with
      | some _, some id => { h with dicts := upd h.dicts id entries1 }
      | _, _ => h
    -- for net in self.networks: if net in metadata.keys(): raise ValueError
    if st.nets.any (fun p => ahas entries1 (.str p.1)) then .error .ValueError
    else
      -- data = {net: state_dict()}; data.update(**metadata): keyword names must be strings
      if entries1.any (fun kv => !isStrKey kv.1) then .error .TypeError
      else
        .ok (upd fs path (pickle h1 (aupdate (stateDicts h1 st.nets)
              (entries1.map (fun kv => (kv.1, DVal.val kv.2))))), h1)

/-- `NeuralStateBase.save` as it now is -/
def save := saveWith true

/-- `ModelSaver._save` (model_saver.py:68-90).  `meta`: the callback's `metadata` attribute —
`none` (→ a new `{}` each time), a dict object (THE SAME object is passed on every period), or
a callable (modelled by the entries of the fresh dict it returns). -/
inductive SaverMeta where
  | absent
  | dict (id : ObjId)
  | callable (entries : MDict)

def saverSave (h : Heap) (fs : Files) (st : NState) (sm : SaverMeta) (metadataOnly : Bool) (path : Nat) :
    Except SErr (Files × Heap) :=
  let r : Heap × Option ObjId := match sm with
    | .absent => (h, none)   -- `metadata = {}`: a new empty dict, falsy inside `save`
    | .dict id => (h, some id)
    | .callable es => ({ h with dicts := upd h.dicts h.next es, next := h.next + 1 }, some h.next)
  if metadataOnly then
    let entries : MDict := match r.2 with
      | some id => (r.1.dicts id).getD []
      | none => []
    .ok (upd fs path entries, r.1)
  else save r.1 fs st r.2 path

/-! ### load / autoload (C11) -/

/-- the copy loop of `nn.Module.load_state_dict` (strict): every own parameter whose key is present
with the same shape is overwritten in place (`param.copy_`); a missing key or a shape mismatch is
recorded and reported AFTER all copies have been made. Returns the heap and "no error recorded". -/
def copyParams (h : Heap) (sd : SD) : List (String × ObjId) → Heap × Bool
  | [] => (h, true)
  | (nm, id) :: rest =>
    match aget sd nm, h.tens id with
    | some (sh, tok), some (sh0, _) =>
      if sh = sh0 then copyParams (h.setTok id tok) sd rest
      else ((copyParams h sd rest).1, false)
    | _, _ => ((copyParams h sd rest).1, false)

/-- `module.load_state_dict(value)`: `TypeError` when the value is not a mapping; `RuntimeError` for
missing / unexpected keys or shape mismatches (after the matching parameters have been copied). -/
def loadStateDict (h : Heap) (net : Net) (v : FVal) : Heap × Option SErr :=
  match v with
  | .mv false _ => (h, some .TypeError)
  | .mv true _ => (h, some .RuntimeError)
  | .ud _ => (h, some .RuntimeError)
  | .sd sd =>
    let r := copyParams h sd net.params
    let unexpected := sd.any (fun e => !(ahas net.params e.1))
    (r.1, if r.2 && !unexpected then none else some .RuntimeError)

/-- `for net in self.networks: getattr(self, net).load_state_dict(state_dict[net])` -/
def loadNets (h : Heap) (file : File) : List (String × ObjId) → Heap × Option SErr
  | [] => (h, none)
  | (nm, id) :: rest =>
    match aget file (.str nm) with
    | none => (h, some .KeyError)
    | some v =>
      match h.nets id with
      | none => (h, some .AttributeError)
      | some net =>
        let r := loadStateDict h net v
        match r.2 with
        | some e => (r.1, some e)
        | none => loadNets r.1 file rest

/-- `NeuralStateBase.load(location)`; an error may leave some parameters already overwritten. -/
def load (h : Heap) (fs : Files) (st : NState) (path : Nat) : Heap × NState × Option SErr :=
  match fs path with
  | none => (h, st, some .FileNotFoundError)
  | some file =>
    let r := loadNets h file st.nets
    match r.2 with
    | some e => (r.1, st, some e)
    | none =>
      match st.ud, aget file (.str "unitary_dict") with
      | some _, some u => (r.1, { st with ud := some u }, none)
      | _, _ => (r.1, st, none)

/-- `len(state_dict["rbm_am"][name])` -/
def lenOf (v : FVal) (name : String) : Except SErr Nat :=
  match v with
  | .sd sd =>
    match aget sd name with
    | none => .error .KeyError
    | some (sh, _) =>
      match sh with
      | [] => .error .TypeError
      | d :: _ => .ok d
  | .ud d => if ahas d name then .error .TypeError else .error .KeyError
  | .mv true _ => .error .KeyError
  | .mv false _ => .error .TypeError

/-- the constructor arguments `autoload` reads from the file, evaluated in source order:
`unitary_dict=state_dict["unitary_dict"]` (complex and mixed states only), then the bias lengths of
`rbm_am`.  (A `unitary_dict` entry that is not a dictionary of tensors is outside the modelled domain and
reported as `AttributeError`, which is what a truthy non-dict value produces.) -/
def autoloadArgs (file : File) (kind : Kind) :
    Except SErr (Option (List (String × Tok)) × Nat × Nat × Option Nat) :=
  let udE : Except SErr (Option (List (String × Tok))) :=
    match kind with
    | .pos => .ok none
    | _ =>
      match aget file (.str "unitary_dict") with
      | none => .error .KeyError
      | some (.ud d) => .ok (some d)
      | some _ => .error .AttributeError
  match udE with
  | .error e => .error e
  | .ok ud =>
    match aget file (.str "rbm_am") with
    | none => .error .KeyError
    | some am =>
      match lenOf am "visible_bias" with
      | .error e => .error e
      | .ok nv =>
        match lenOf am "hidden_bias" with
        | .error e => .error e
        | .ok nh =>
          match kind with
          | .dens =>
            match lenOf am "aux_bias" with
            | .error e => .error e
            | .ok na => .ok (ud, nv, nh, some na)
          | _ => .ok (ud, nv, nh, none)

/-- `<Kind>.autoload(location)`: a fresh object is constructed from the arguments read from the file,
then `load` runs on it.  Any error propagates and no object is returned. -/
def autoload (h : Heap) (fs : Files) (kind : Kind) (path : Nat) (rand : List (List Tok)) :
    Except SErr (Heap × NState) :=
  match fs path with
  | none => .error .FileNotFoundError
  | some file =>
    match autoloadArgs file kind with
    | .error e => .error e
    | .ok (ud, nv, nh, na) =>
      let c := constructSizes h kind nv (some nh) na ud rand
      let r := load c.1 fs c.2 path
      match r.2.2 with
      | some e => .error e
      | none => .ok (r.1, r.2.1)

/-! ### the history machine -/

structure World where
  heap : Heap
  /-- the caller's variables holding neural states -/
  states : Nat → Option NState
  /-- the caller's variables holding RBM modules (network ids) -/
  modules : Nat → Option ObjId
  /-- the caller's variables holding metadata dicts -/
  metas : Nat → Option ObjId
  files : Files

def World.empty : World := ⟨Heap.empty, fun _ => none, fun _ => none, fun _ => none, fun _ => none⟩

/-- where `ModelSaver` gets its metadata from, in terms of the caller's variables -/
inductive SaverSrc where
  | absent
  | dict (mdslot : Nat)
  | callable (entries : MDict)

inductive Op where
  | construct (slot : Nat) (kind : Kind) (nv : Nat) (nh na : Option Nat)
      (ud : Option (List (String × Tok))) (rand : List (List Tok))
  /-- `BinaryRBM(nv, nh, zero_weights=zw)` / `PurificationRBM(nv, nh, na, zero_weights=zw)` held by the caller -/
  | mkModule (mslot : Nat) (k : NetKind) (nv : Nat) (nh na : Option Nat) (zw : Bool) (rand : List Tok)
  /-- `module.initialize_parameters()` (`zw = none`: the default `zero_weights=False`, whatever the
  constructor was given — the module does not remember its constructor's flag) or
  `module.initialize_parameters(zero_weights=b)` (`zw = some b`) on a module held by the caller -/
  | initModule (mslot : Nat) (zw : Option Bool) (rand : List Tok)
  | constructFrom (slot : Nat) (kind : Kind) (mslot : Nat) (ud : Option (List (String × Tok)))
  /-- external in-place write into all parameters of one network of a state -/
  | write (slot : Nat) (net : String) (toks : List Tok)
  /-- external in-place write into all parameters of a module held by the caller -/
  | writeModule (mslot : Nat) (toks : List Tok)
  | train (slot : Nat) (bases : Bool) (toks : List (List Tok))
  | reinit (slot : Nat) (rand : List (List Tok))
  /-- `state.unitary_dict[name] = tensor` -/
  | addUnitary (slot : Nat) (name : String) (tok : Tok)
  /-- the caller creates a dict object -/
  | mkMeta (mdslot : Nat) (entries : MDict)
  | save (slot : Nat) (md : Option Nat) (path : Nat)
  | saverSave (slot : Nat) (src : SaverSrc) (metadataOnly : Bool) (path : Nat)
  | load (slot : Nat) (path : Nat)
  | autoload (slot : Nat) (kind : Kind) (path : Nat) (rand : List (List Tok))

/-- the constructor call `Kind(num_visible, num_hidden, num_aux, unitary_dict, gpu, module)` as the caller writes it
(positive_wavefunction.py:44-56, complex_wavefunction.py:66-82, density_matrix.py:64-82): `if module is None` selects
the sizes branch; otherwise the module branch, which never looks at `num_visible` / `num_hidden` / `num_aux`
(whatever the caller passed alongside the module: nothing, the module's own sizes, or other numbers) and draws no
random numbers. `module` : the caller's variable holding the RBM. -/
def ctorOp (slot : Nat) (kind : Kind) (nv : Nat) (nh na : Option Nat) (ud : Option (List (String × Tok)))
    (module : Option Nat) (rand : List (List Tok)) : Op :=
  match module with
  | none => .construct slot kind nv nh na ud rand
  | some mslot => .constructFrom slot kind mslot ud

/-- the error reported for an operation on an unbound caller variable (never generated) -/
def unbound : SErr := .AttributeError

/-- build a dict object from a literal: later duplicates overwrite earlier ones -/
def mkDict (entries : MDict) : MDict := aupdate [] entries

/-- one operation: new world and the error raised, if any -/
def step (w : World) : Op → World × Option SErr
  | .construct slot kind nv nh na ud rand =>
    let r := constructSizes w.heap kind nv nh na ud rand
    ({ w with heap := r.1, states := upd w.states slot r.2 }, none)
  | .mkModule mslot k nv nh na zw rand =>
    let r := newNet w.heap k nv nh na (weightToks zw rand)
    ({ w with heap := r.1, modules := upd w.modules mslot r.2 }, none)
  | .initModule mslot zw rand =>
    match w.modules mslot with
    | none => (w, some unbound)
    | some id => ({ w with heap := initParams w.heap id (weightToks (zw.getD false) rand) }, none)
  | .constructFrom slot kind mslot ud =>
    match w.modules mslot with
    | none => (w, some unbound)
    | some mid =>
      match constructFrom w.heap kind mid ud with
      | .error e => (w, some e)
      | .ok r => ({ w with heap := r.1, states := upd w.states slot r.2 }, none)
  | .write slot net toks =>
    match w.states slot with
    | none => (w, some unbound)
    | some st =>
      match aget st.nets net with
      | none => (w, some unbound)
      | some id => ({ w with heap := writeNet w.heap id toks }, none)
  | .writeModule mslot toks =>
    match w.modules mslot with
    | none => (w, some unbound)
    | some id => ({ w with heap := writeNet w.heap id toks }, none)
  | .train slot bases toks =>
    match w.states slot with
    | none => (w, some unbound)
    | some st =>
      match fit w.heap st bases toks with
      | .error e => (w, some e)
      | .ok h => ({ w with heap := h }, none)
  | .reinit slot rand =>
    match w.states slot with
    | none => (w, some unbound)
    | some st => ({ w with heap := reinit w.heap st.nets rand }, none)
  | .addUnitary slot name tok =>
    match w.states slot with
    | none => (w, some unbound)
    | some st =>
      match st.ud with
      | some (.ud d) => ({ w with states := upd w.states slot { st with ud := some (.ud (aset d name tok)) } }, none)
      | some _ => (w, some .TypeError)
      | none => (w, some .AttributeError)
  | .mkMeta mdslot entries =>
    let h := w.heap
    ({ w with heap := { h with dicts := upd h.dicts h.next (mkDict entries), next := h.next + 1 },
              metas := upd w.metas mdslot h.next }, none)
  | .save slot md path =>
    match w.states slot with
    | none => (w, some unbound)
    | some st =>
      let mdE : Except SErr (Option ObjId) := match md with
        | none => .ok none
        | some s => match w.metas s with
          | none => .error unbound
          | some id => .ok (some id)
      match mdE with
      | .error e => (w, some e)
      | .ok mdId =>
        match save w.heap w.files st mdId path with
        | .error e => (w, some e)
        | .ok r => ({ w with files := r.1, heap := r.2 }, none)
  | .saverSave slot src metadataOnly path =>
    match w.states slot with
    | none => (w, some unbound)
    | some st =>
      let smE : Except SErr SaverMeta := match src with
        | .absent => .ok .absent
        | .callable es => .ok (.callable (mkDict es))
        | .dict s => match w.metas s with
          | none => .error unbound
          | some id => .ok (.dict id)
      match smE with
      | .error e => (w, some e)
      | .ok sm =>
        match saverSave w.heap w.files st sm metadataOnly path with
        | .error e => (w, some e)
        | .ok r => ({ w with files := r.1, heap := r.2 }, none)
  | .load slot path =>
    match w.states slot with
    | none => (w, some unbound)
    | some st =>
      let r := load w.heap w.files st path
      ({ w with heap := r.1, states := upd w.states slot r.2.1 }, r.2.2)
  | .autoload slot kind path rand =>
    match autoload w.heap w.files kind path rand with
    | .error e => (w, some e)
    | .ok r => ({ w with heap := r.1, states := upd w.states slot r.2 }, none)

/-- run a history from a world -/
def run (w : World) : List Op → World
  | [] => w
  | op :: ops => run (step w op).1 ops

/-- the worlds (and errors) after each operation of a history (what the driver prints) -/
def trace (w : World) : List Op → List (World × Option SErr)
  | [] => []
  | op :: ops => let r := step w op; r :: trace r.1 ops

end QV.Store
