/-
QV.Model.ArgConv — the argument-conversion glue in front of three verified cores (extension round 2,
"code inside the model"):

* `create_dict(**kwargs)` keyword conversion (`qucumber/utils/unitaries.py:50-59`):
  `(matrix.clone().detach() if isinstance(matrix, torch.Tensor) else torch.tensor(matrix)).to(dtype=torch.double)`;
* `fit`'s data conversion (`qucumber/nn_states/neural_state.py:575-580`):
  `data.clone().detach().to(device, dtype=torch.double)` for tensors, `torch.tensor(data, device, dtype=torch.double)` otherwise
  (`input_bases` is NOT converted by the code: `fit` keeps the caller's array, proposed/O23);
* `vector_to_grads(vec, parameters)` type / length / dtype branches (`qucumber/utils/gradients_utils.py:31-34, 49`).

Objects live on a heap of storages (`Heap κ`, identity = index, as in `QV.Batching.Heap`): an argument object is a container form
(`Box`: torch tensor / numpy array of an element type, nested Python list with a leaf type, ragged list, something else) plus the
identity of the storage holding its content. The torch primitives used by the glue are modelled one by one with their
allocation behaviour: `torch.tensor(obj[, dtype=])` ALWAYS copies, `t.clone()` copies, `t.to(dtype)` returns `t` ITSELF when the
element type already matches and a converted copy otherwise. Writing content into an element type is `cast : DType → κ → κ`
(for the real instances below: `float32` rounds every entry with `r32`, every other target that is reached — `float64`, the source's
own type — leaves the entries as they are; narrowing to float16 / integer types is never reached by the modelled paths; integers
beyond 2^53 are outside the model: `κ`'s scalars are the doubles).
-/
import QV.Model.Unitaries
import QV.Model.CDStep
import QV.Model.Batching
namespace QV.ArgConv
open QV

/-- element types of tensors / arrays -/
inductive DType where
  | bool | uint8 | int8 | int16 | int32 | int64 | float16 | float32 | float64
  deriving DecidableEq, Repr

/-- the Python type of the leaves of a nested list / tuple -/
inductive PyElem where
  | pyBool | pyInt | pyFloat
  | npScalar (dt : DType)
  deriving DecidableEq, Repr

/-- container form of an argument object -/
inductive Box where
  /-- `torch.Tensor` of the given element type -/
  | tensor (dt : DType)
  /-- `numpy.ndarray` of the given element type -/
  | ndarray (dt : DType)
  /-- rectangular nested list / tuple with leaves of the given Python type -/
  | pyList (e : PyElem)
  /-- nested list whose rows have different lengths: `torch.tensor` raises `ValueError` -/
  | ragged
  /-- `None`, a `str`, a `dict`, …: `torch.tensor` raises (`TypeError` / `RuntimeError`: compared as "refused") -/
  | nonArray
  deriving DecidableEq, Repr

/-- an argument object: its container form and the identity of the storage with its content -/
structure Obj where
  box : Box
  sid : Nat
  deriving DecidableEq, Repr

/-- a torch tensor: storage identity and element type -/
structure TRef where
  sid : Nat
  dt : DType
  deriving DecidableEq, Repr

/-- the storages; a storage's identity is its index -/
structure Heap (κ : Type) where
  cells : List κ

variable {κ : Type}

/-- a NEW storage -/
def Heap.alloc (h : Heap κ) (v : κ) : Heap κ × Nat := (⟨h.cells ++ [v]⟩, h.cells.length)
def Heap.read (h : Heap κ) (sid : Nat) : Option κ := h.cells[sid]?
/-- an in-place write (`obj[...] = v`, `t.copy_(v)`) by whoever holds the storage -/
def Heap.write (h : Heap κ) (sid : Nat) (v : κ) : Heap κ := ⟨h.cells.set sid v⟩

/-- element type of the content as the object holds it (a Python float is a double) -/
def srcDType : Box → Option DType
  | .tensor dt => some dt
  | .ndarray dt => some dt
  | .pyList .pyBool => some .bool
  | .pyList .pyInt => some .int64
  | .pyList .pyFloat => some .float64
  | .pyList (.npScalar dt) => some dt
  | .ragged => none
  | .nonArray => none

/-- the element type `torch.tensor(obj)` INFERS without a `dtype=` argument: the object's own, except that Python floats
become torch's DEFAULT dtype (`torch.get_default_dtype()`: float32 unless the process changed it). -/
def inferDType (defaultDouble : Bool) : Box → Option DType
  | .pyList .pyFloat => some (if defaultDouble then .float64 else .float32)
  | b => srcDType b

section prims
variable (cast : DType → κ → κ)

/-- content `v` held as `src` written into a tensor of type `tgt` (no-op when the types agree) -/
def convTo (src tgt : DType) (v : κ) : κ := if src = tgt then v else cast tgt v

/-- a NEW tensor of type `tgt` filled from the content of storage `sid`, held there as `src` (a dangling identity is not a
Python object: model well-formedness, reported as `RuntimeError`) -/
def copyInto (h : Heap κ) (sid : Nat) (src tgt : DType) : Except PyErr (Heap κ × TRef) :=
  match h.read sid with
  | some v => let (h', s) := h.alloc (convTo cast src tgt v); .ok (h', ⟨s, tgt⟩)
  | none => .error .RuntimeError

/-- `torch.tensor(obj)` / `torch.tensor(obj, dtype=dt)`: ALWAYS a new storage, of the given type or else the inferred one.
`ValueError` for a ragged list, refusal (`TypeError` / `RuntimeError` in torch) for a non-array object. -/
def torchTensor (defaultDouble : Bool) (h : Heap κ) (o : Obj) (dtype : Option DType) : Except PyErr (Heap κ × TRef) :=
  match srcDType o.box, inferDType defaultDouble o.box with
  | some src, some inf => copyInto cast h o.sid src (dtype.getD inf)
  | _, _ => if o.box = .ragged then .error .ValueError else .error .TypeError

/-- `t.clone().detach()`: a new storage with the same content and element type -/
def cloneDetach (h : Heap κ) (t : TRef) : Except PyErr (Heap κ × TRef) :=
  match h.read t.sid with
  | some v => let (h', sid) := h.alloc v; .ok (h', ⟨sid, t.dt⟩)
  | none => .error .RuntimeError

/-- `t.to(dtype=dt)`: `t` ITSELF when it already has that type, else a converted copy -/
def toDType (h : Heap κ) (t : TRef) (dt : DType) : Except PyErr (Heap κ × TRef) :=
  if t.dt = dt then .ok (h, t)
  else match h.read t.sid with
    | some v => let (h', sid) := h.alloc (cast dt v); .ok (h', ⟨sid, dt⟩)
    | none => .error .RuntimeError

/-! ### `create_dict(**kwargs)` (`unitaries.py:50-59`) -/

/-- one value of the dict comprehension:
`(matrix.clone().detach() if isinstance(matrix, torch.Tensor) else torch.tensor(matrix)).to(dtype=torch.double)` —
NO `dtype=` in `torch.tensor`: a nested list of Python floats is first stored in the default dtype. -/
def convertUnitary (defaultDouble : Bool) (h : Heap κ) (o : Obj) : Except PyErr (Heap κ × TRef) :=
  match o.box with
  | .tensor dt => do
    let (h1, t1) ← cloneDetach h ⟨o.sid, dt⟩
    toDType cast h1 t1 .float64
  | _ => do
    let (h1, t1) ← torchTensor cast defaultDouble h o none
    toDType cast h1 t1 .float64

/-- the dict comprehension over `kwargs.items()` (in keyword order; the first failure aborts `create_dict`) -/
def convertAll (defaultDouble : Bool) (h : Heap κ) : List (Char × Obj) → Except PyErr (Heap κ × List (Char × TRef))
  | [] => .ok (h, [])
  | (l, o) :: rest => do
    let (h1, t) ← convertUnitary cast defaultDouble h o
    let (h2, ts) ← convertAll defaultDouble h1 rest
    .ok (h2, (l, t) :: ts)

/-- the three default entries (`unitaries.py:36-48`): new double tensors -/
def allocDefaults (h : Heap κ) : List (Char × κ) → Heap κ × List (Char × TRef)
  | [] => (h, [])
  | (l, v) :: rest =>
    let (h1, sid) := h.alloc v
    let (h2, ts) := allocDefaults h1 rest
    (h2, (l, ⟨sid, .float64⟩) :: ts)

/-- `create_dict(**kwargs)` on the heap: the defaults, then `dictionary.update({name: <converted> …})`; as in
`Unitaries.createDict` the dictionary is an association list whose FIRST entry of a key is the value (a keyword that shares a
default key overrides it). -/
def createDictArg (defaultDouble : Bool) (defaults : List (Char × κ)) (h : Heap κ) (kw : List (Char × Obj)) :
    Except PyErr (Heap κ × List (Char × TRef)) :=
  let (h0, ds) := allocDefaults h defaults
  match convertAll cast defaultDouble h0 kw with
  | .error e => .error e
  | .ok (h1, ts) => .ok (h1, ts ++ ds)

/-! ### `fit`: the caller's data (`neural_state.py:575-580`) -/

/-- `train_samples = data.clone().detach().to(device, dtype=torch.double)` if `isinstance(data, torch.Tensor)` else
`torch.tensor(data, device, dtype=torch.double)` — the target type is given to `torch.tensor`: no intermediate rounding. -/
def fitConvertData (defaultDouble : Bool) (h : Heap κ) (o : Obj) : Except PyErr (Heap κ × TRef) :=
  match o.box with
  | .tensor dt => do
    let (h1, t1) ← cloneDetach h ⟨o.sid, dt⟩
    toDType cast h1 t1 .float64
  | _ => torchTensor cast defaultDouble h o (some .float64)

end prims

/-- writing a list of rows into an element type: row by row -/
def castRows {ρ : Type} (castRow : DType → ρ → ρ) : DType → List ρ → List ρ := fun dt rows => rows.map (castRow dt)

/-- the data preamble of `fit` from the caller's OBJECT on: conversion to `train_samples` (a storage of its own), then
`Batching.prepare` on the rows of that storage. Returns the heap, the identity of `train_samples` and what `prepare` derived. -/
def fitPrepareArg {ρ : Type} (castRow : DType → ρ → ρ) (defaultDouble : Bool) (h : Heap (List ρ)) (o : Obj)
    (bases : Option (List (List String))) (posB : Nat) (negB : Option Nat) :
    Except PyErr (Heap (List ρ) × TRef × Batching.Prep ρ) := do
  let (h1, t) ← fitConvertData (castRows castRow) defaultDouble h o
  match h1.read t.sid with
  | none => .error .RuntimeError
  | some rows =>
    let p ← Batching.prepare rows bases posB negB
    .ok (h1, t, p)

/-! ### scalar instances -/

/-- writing a double into an element type: `float32` rounds (`r32`), the other targets reached by the glue do not -/
def castScalar {α : Type} (r32 : α → α) : DType → α → α
  | .float32 => r32
  | _ => id

/-- the same, entry by entry, on a flat content -/
def castList {α : Type} (r32 : α → α) : DType → List α → List α := fun dt l => l.map (castScalar r32 dt)

/-- a unitary as the flat content of its `[2, 2, 2]` pair tensor (`[re/im][row][col]`) -/
def flatM2 {α : Type} (m : M2 α) : List α :=
  [(m false false).1, (m false true).1, (m true false).1, (m true true).1,
   (m false false).2, (m false true).2, (m true false).2, (m true true).2]

/-- the complex 2×2 matrix a flat `[2, 2, 2]` content denotes (what `unitaries[b]` is used as by `_kron_mult`) -/
def toM2 {α : Type} [Zero α] (l : List α) : M2 α := fun r c =>
  let k := (if r then 2 else 0) + (if c then 1 else 0)
  (l.getD k 0, l.getD (4 + k) 0)

section dict
variable {α : Type} [Add α] [Mul α] [Neg α] [Sub α] [Div α] [Zero α] [One α] [Transc α]

/-- the default entries as flat contents -/
def defaultCells : List (Char × List α) :=
  [('X', flatM2 Unitaries.dX), ('Y', flatM2 Unitaries.dY), ('Z', flatM2 Unitaries.dZ)]

/-- `create_dict(**kwargs)` with unitaries as `[2,2,2]` contents -/
def createDictM2 (r32 : α → α) (defaultDouble : Bool) (h : Heap (List α)) (kw : List (Char × Obj)) :
    Except PyErr (Heap (List α) × List (Char × TRef)) :=
  createDictArg (castList r32) defaultDouble defaultCells h kw

/-- the dictionary a rotation helper sees at a given moment: every key with the matrix its tensor's storage NOW holds -/
def readDict (h : Heap (List α)) (d : List (Char × TRef)) : Unitaries.UDict α :=
  d.map (fun e => (e.1, toM2 ((h.read e.2.sid).getD [])))

end dict

/-! ### `vector_to_grads(vec, parameters)` with its refusals (`gradients_utils.py:21-52`) -/

/-- the `vec` argument: a 1-D tensor of some element type, or any other object -/
inductive VecArg (α : Type) where
  | tensor (dt : DType) (vals : List α)
  | other

/-- the loop over the parameters (all `torch.double`): `vec[pointer : pointer + numel]` never fails but may be SHORT;
`.view(param.size())` raises `RuntimeError` when the slice has fewer than `numel` entries; assigning `.grad` of another element
type than the parameter's raises `RuntimeError`. `acc` = the `.grad`s already assigned (they stay assigned when a later
parameter fails). Returns the assigned gradients and the error, if any. -/
def assignLoop {α : Type} (dt : DType) : List α → List Nat → List (List α) → List (List α) × Option PyErr
  | _, [], acc => (acc, none)
  | vec, k :: ks, acc =>
    let s := vec.take k
    if s.length ≠ k then (acc, some .RuntimeError)
    else if dt ≠ .float64 then (acc, some .RuntimeError)
    else assignLoop dt (vec.drop k) ks (acc ++ [s])

/-- the `.grad`s that `vector_to_grads` has assigned when it returns or raises (a prefix of the parameters) -/
def vectorToGradsAssigned {α : Type} (v : VecArg α) (sizes : List Nat) : List (List α) :=
  match v with
  | .other => []
  | .tensor dt vec => (assignLoop dt vec sizes []).1

/-- `vector_to_grads(vec, parameters)`: `TypeError` for a non-tensor (`:31-34`); otherwise the loop. There is NO check that
the vector is used up: entries beyond the total parameter count are silently ignored. -/
def vectorToGradsE {α : Type} (v : VecArg α) (sizes : List Nat) : Except PyErr (List (List α)) :=
  match v with
  | .other => .error .TypeError
  | .tensor dt vec =>
    match assignLoop dt vec sizes [] with
    | (_, some e) => .error e
    | (gs, none) => .ok gs

end QV.ArgConv
