/-
QV.Model.CplxScalar — complex numbers as real pairs `(re, im)`, the scalar kernel shared by
the state, unitary and observable models (the tensor-level `cplx.py` operations are modelled
in QV.Model.Cplx for C15).  Generic over any carrier with ring operations.
-/
import QV.Model.Scalar
namespace QV

abbrev C (α : Type) := α × α

namespace C
variable {α : Type} [Add α] [Mul α] [Neg α] [Sub α] [Zero α] [One α]

@[inline] def zero : C α := (0, 0)
@[inline] def one : C α := (1, 0)
@[inline] def ofReal (x : α) : C α := (x, 0)
@[inline] def I : C α := (0, 1)
@[inline] def add (x y : C α) : C α := (x.1 + y.1, x.2 + y.2)
@[inline] def sub (x y : C α) : C α := (x.1 - y.1, x.2 - y.2)
@[inline] def neg (x : C α) : C α := (-x.1, -x.2)
/-- `cplx.scalar_mult` on scalars: `(ac − bd, ad + bc)` -/
@[inline] def mul (x y : C α) : C α := (x.1 * y.1 - x.2 * y.2, x.1 * y.2 + x.2 * y.1)
@[inline] def conj (x : C α) : C α := (x.1, -x.2)
@[inline] def smul (s : α) (x : C α) : C α := (s * x.1, s * x.2)
/-- `|z|²` as `real(z · conj z)` -/
@[inline] def normSq (x : C α) : α := x.1 * x.1 + x.2 * x.2

/-- left-fold complex sum over `Fin n` -/
def sum (n : Nat) (f : Fin n → C α) : C α := Fin.foldl n (fun acc i => add acc (f i)) zero
/-- left-fold complex product over `Fin n` -/
def prod (n : Nat) (f : Fin n → C α) : C α := Fin.foldl n (fun acc i => mul acc (f i)) one

variable [Div α]
/-- TEXTBOOK inverse `conj z / real(z · conj z)` (`|z|²` formed explicitly). This is `cplx.inverse` as it was BEFORE
/repo commit 7038bfb (fix F17); the code at HEAD is `invH` below. Kept as the specification `invH` is proved equal to
(`C15_invH_eq`); no model of HEAD's gradient code calls it any more. -/
@[inline] def inv (z : C α) : C α := ((conj z).1 / normSq z, (conj z).2 / normSq z)
/-- TEXTBOOK quotient `x · conj y / |y|²` (numpy's complex quotient in `cplx.sigmoid`; `cplx.elementwise_division` BEFORE
7038bfb). HEAD's `elementwise_division` / `scalar_divide` are `divH` / `sdivH` below (`C15_divH_eq`, `C15_sdivH_eq`). -/
@[inline] def div (x y : C α) : C α := ((mul x (conj y)).1 / normSq y, (mul x (conj y)).2 / normSq y)

end C

/-! ### the scalar kernel of `cplx.py` AT /repo HEAD (after fix F17, commit 7038bfb)

One complex number at a time: these are the functions the tensor-level model `QV.Model.Cplx` applies entrywise
(`C15_inverse_entry`, `C15_elementwise_division_entry`, `C15_absolute_value_entry`, `C15_sigmoid_entry`) and the
functions the gradient model `QV.Model.Grads` calls (`cplxRotComp`: `invH`; `piGrad`: `Cplx.sigC`). -/
namespace Cplx
variable {α : Type} [Add α] [Mul α] [Neg α] [Sub α] [Div α] [Zero α] [One α] [Transc α] [LT α] [DecidableLT α]

/-- `hypot(a, b)` (C99 / `torch.hypot`): `sqrt(a² + b²)` computed without forming `a²` or `b²` at full scale:
`m * sqrt((a/m)² + (b/m)²)` with `m = max |a| |b|`; `hypot(0, 0) = 0` -/
def hypot (a b : α) : α :=
  let m := Transc.max (Transc.abs a) (Transc.abs b)
  if 0 < m then m * Transc.sqrt ((a / m) * (a / m) + (b / m) * (b / m)) else m

/-- numpy's `exp(x + iy)` -/
def expC (z : C α) : C α := (Transc.exp z.1 * Transc.cos z.2, Transc.exp z.1 * Transc.sin z.2)

/-- the logistic function on one complex number as coded after F17_sigmoid (cplx.py:338-342):
`right = Re z > 0`, `ez = exp(-z)` if `right` else `exp(z)`, result `(1 if right else ez) / (1 + ez)`
(complex quotient `C.div`) -/
def sigC (z : C α) : C α :=
  if 0 < z.1 then
    let e := expC (C.neg z)
    C.div C.one (1 + e.1, e.2)
  else
    let e := expC z
    C.div e (1 + e.1, e.2)
end Cplx

namespace C
variable {α : Type} [Add α] [Mul α] [Neg α] [Sub α] [Div α] [Zero α] [One α] [Transc α]

/-- `torch.max(real(z).abs(), imag(z).abs())` of one entry (cplx.py:283, 375): the larger component -/
def scaleH (z : C α) : α := Transc.max (Transc.abs z.1) (Transc.abs z.2)

/-- `cplx.inverse(z)` at HEAD for one entry (cplx.py:364-380): with `scale` the larger component and `w = z/scale`,
`conj(w) / real(scalar_mult(w, conj(w))) / scale` -/
def invH (z : C α) : C α :=
  let s := scaleH z
  let w : C α := (z.1 / s, z.2 / s)
  let ws := conj w
  let den := (mul w ws).1
  (ws.1 / den / s, ws.2 / den / s)

/-- `cplx.scalar_divide(x, y) = scalar_mult(x, inverse(y))` for one entry (cplx.py:348-361) -/
def sdivH (x y : C α) : C α := mul x (invH y)

variable [LT α] [DecidableLT α]

/-- `cplx.absolute_value(z) = torch.hypot(real(z), imag(z))` for one entry (cplx.py:292-301) -/
def absH (z : C α) : α := Cplx.hypot z.1 z.2

/-- `cplx.elementwise_division(x, y)` at HEAD for one entry (cplx.py:268-289): with `scale` the larger component of `y`,
`(x/scale) · conj(y/scale)` divided by `absolute_value(y/scale).pow_(2)` -/
def divH (x y : C α) : C α :=
  let s := scaleH y
  let y' : C α := (y.1 / s, y.2 / s)
  let ab := absH y'
  let p := mul (x.1 / s, x.2 / s) (conj y')
  (p.1 / (ab * ab), p.2 / (ab * ab))

/-- `cplx.sigmoid(x, y)` at HEAD for one entry (cplx.py:326-345) -/
def csigmoidH (x y : α) : C α := Cplx.sigC (x, y)

end C
end QV
