/-
QV.Model.CplxScalar — complex numbers as real pairs `(re, im)`, the scalar kernel shared by
the state, unitary and observable models (the tensor-level `cplx.py` operations are modelled
in QV.Model.Cplx for C15).  Generic over any carrier with ring operations.
-/
import QV.Model.Scalar
namespace QV

abbrev C (α : Type) := α × α

namespace C
variable {α : Type} [Add α] [Mul α] [Neg α] [Sub α] [Zero α] [One α]

@[inline] def zero : C α := (0, 0)
@[inline] def one : C α := (1, 0)
@[inline] def ofReal (x : α) : C α := (x, 0)
@[inline] def I : C α := (0, 1)
@[inline] def add (x y : C α) : C α := (x.1 + y.1, x.2 + y.2)
@[inline] def sub (x y : C α) : C α := (x.1 - y.1, x.2 - y.2)
@[inline] def neg (x : C α) : C α := (-x.1, -x.2)
/-- `cplx.scalar_mult` on scalars: `(ac − bd, ad + bc)` -/
@[inline] def mul (x y : C α) : C α := (x.1 * y.1 - x.2 * y.2, x.1 * y.2 + x.2 * y.1)
@[inline] def conj (x : C α) : C α := (x.1, -x.2)
@[inline] def smul (s : α) (x : C α) : C α := (s * x.1, s * x.2)
/-- `|z|²` as `real(z · conj z)` -/
@[inline] def normSq (x : C α) : α := x.1 * x.1 + x.2 * x.2

/-- left-fold complex sum over `Fin n` -/
def sum (n : Nat) (f : Fin n → C α) : C α := Fin.foldl n (fun acc i => add acc (f i)) zero
/-- left-fold complex product over `Fin n` -/
def prod (n : Nat) (f : Fin n → C α) : C α := Fin.foldl n (fun acc i => mul acc (f i)) one

variable [Div α]
/-- `cplx.inverse`: `conj z / real(z · conj z)` -/
@[inline] def inv (z : C α) : C α := ((conj z).1 / normSq z, (conj z).2 / normSq z)
/-- `cplx.elementwise_division x y`: `x · conj y / |y|²`, with `|y|² = (sqrt(real(y conj y)))²` in the code -/
@[inline] def div (x y : C α) : C α := ((mul x (conj y)).1 / normSq y, (mul x (conj y)).2 / normSq y)

end C
end QV
