/-
QV.Model.Scalar — the numeric interface of the executable model.

The model of QuCumber's numeric code is written ONCE, polymorphically over
 * the ordinary algebraic operation classes (`Add`, `Mul`, `Neg`, `Sub`, `Div`,
   `Zero`, `One`) taken as separate instance arguments, and
 * `Transc α`: a LAW-FREE bundle of the transcendental / order operations the
   code uses (exp, log, sqrt, cos, sin, atan2, max, abs, ofNat).

It is instantiated at `Float` (below; executed by the driver against the real
Python implementation) and at `ℝ` (`QV/Real.lean`; used by the theorems).
Taking the algebraic classes as separate arguments means that at `ℝ` the very
instances Mathlib's lemmas are stated for are used — no instance diamonds.

This file is import-free.
-/
namespace QV

/-- Law-free transcendental / order operations. -/
class Transc (α : Type) where
  exp : α → α
  log : α → α
  sqrt : α → α
  cos : α → α
  sin : α → α
  /-- `atan2 y x` -/
  atan2 : α → α → α
  max : α → α → α
  min : α → α → α
  abs : α → α
  ofNat : Nat → α

instance : Transc Float where
  exp := Float.exp
  log := Float.log
  sqrt := Float.sqrt
  cos := Float.cos
  sin := Float.sin
  atan2 := Float.atan2
  max := fun x y => if x < y then y else x
  min := fun x y => if y < x then y else x
  abs := Float.abs
  ofNat := Float.ofNat

section
variable {α : Type} [Add α] [Mul α] [Neg α] [Sub α] [Div α] [Zero α] [One α] [Transc α]

/-- `1 + 1`, written without numerals so that no `OfNat α 2` is needed. -/
@[inline] def two : α := 1 + 1

/-- Left-fold sum over `Fin n` (the order `torch` sums a contiguous axis in is not
specified; over `ℝ` the order is irrelevant, over `Float` the difference is rounding). -/
def sumFin (n : Nat) (f : Fin n → α) : α := Fin.foldl n (fun acc i => acc + f i) 0

/-- Left-fold product over `Fin n`. -/
def prodFin (n : Nat) (f : Fin n → α) : α := Fin.foldl n (fun acc i => acc * f i) 1

/-- Dot product. -/
def dot (n : Nat) (x y : Fin n → α) : α := sumFin n (fun j => x j * y j)

/-- Numerically stable softplus: `max x 0 + log (1 + exp (-|x|))`.
Over `ℝ` this is `log (1 + exp x)` (lemma `softplus_eq` in `QV/Lemmas`), which is what
`torch.nn.functional.softplus` denotes; torch itself switches to the identity above 20. -/
def softplus (x : α) : α := Transc.max x 0 + Transc.log (1 + Transc.exp (-(Transc.abs x)))

/-- Logistic sigmoid `1 / (1 + exp (-x))`. -/
def sigmoid (x : α) : α := 1 / (1 + Transc.exp (-x))

/-- `clamp_(min=0, max=1)` as coded: `min (max x 0) 1`. -/
def clamp01 (x : α) : α := Transc.min (Transc.max x 0) 1

/-- maximum of a family, starting from a given seed element -/
def maxFin (n : Nat) (f : Fin n → α) (seed : α) : α :=
  Fin.foldl n (fun acc i => Transc.max acc (f i)) seed

/-- Stable `logsumexp` with an explicit shift `m`:  `m + log Σ exp (x i - m)`. -/
def logSumExpShift (n : Nat) (x : Fin n → α) (m : α) : α :=
  m + Transc.log (sumFin n (fun i => Transc.exp (x i - m)))

/-- `torch.logsumexp`: shift by the maximum entry (seeded with entry 0 when there is one). -/
def logSumExp (n : Nat) (x : Fin n → α) : α :=
  match n, x with
  | 0, _ => Transc.log 0
  | (k+1), x => logSumExpShift (k+1) x (maxFin (k+1) x (x 0))

end
end QV
