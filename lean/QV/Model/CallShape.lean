/-
QV.Model.CallShape — the SHAPE side of the public RBM / state methods: functional tensors, torch's
`unsqueeze` / `squeeze_(0)` / broadcasting on them, and the decorator `auto_unsqueeze_args`
(qucumber/utils/__init__.py:20-43) that lets the RBM methods accept 1-D vectors:

    for a in self.arg_indices:            # () -> [1];  prob_v_given_ha: (1, 2)
        if args[a].dim() < 2:
            unsqueeze = True
            args[a] = args[a].unsqueeze(0)
    if unsqueeze:  return f(*args, **kwargs).squeeze_(0)     # removes axis 0 ONLY if its length is 1
    else:          return f(*args, **kwargs)

An argument tensor of shape `(…lead…, n)` is an `FT (Fin n → α)`: leading shape + one ROW per leading
multi-index (so `dim()` of the code is `shape.length + 1`); a result of shape `(…lead…)` is an `FT α`, a result
of shape `(…lead…, h)` an `FT (Fin h → α)`.  Entries at multi-indices outside the shape are never read.
0-dim arguments (`dim() = 0`, which the decorator would also unsqueeze and `matmul` then refuses unless n = 1)
are not representable: an argument has at least its feature axis.
-/
import QV.Model.Cplx
import QV.Model.Rbm
namespace QV

/-- functional tensor: a shape and the entry at every multi-index -/
structure FT (β : Type) where
  shape : List Nat
  get : List Nat → β

namespace FT
variable {β γ δ : Type}

/-- a 0-dim result / a 1-D argument `(n,)` (one row, no leading axes) -/
def scalar (x : β) : FT β := ⟨[], fun _ => x⟩

/-- a `(B, n)` batch with rows `vs 0 … vs (B-1)` -/
def ofRows (B : Nat) (vs : Nat → β) : FT β := ⟨[B], fun idx => vs (idx.headD 0)⟩

/-- a rank-3 batch `(B1, B2, n)` -/
def ofRows2 (B1 B2 : Nat) (vs : Nat → Nat → β) : FT β :=
  ⟨[B1, B2], fun idx => vs (idx.headD 0) (idx.tail.headD 0)⟩

/-- elementwise function of the entries (`.exp()`, `.sum(-1)` of the feature axis, `F.linear(v, W, c)` row by row, …) -/
def map (g : β → γ) (t : FT β) : FT γ := ⟨t.shape, fun idx => g (t.get idx)⟩

/-- `t.unsqueeze(0)` -/
def unsqueeze0 (t : FT β) : FT β := ⟨1 :: t.shape, fun idx => t.get idx.tail⟩

/-- `t.unsqueeze_(k)` on the leading axes: torch raises `IndexError` ("Dimension out of range") when `k` exceeds the
number of axes (e.g. `unsqueeze_(1)` on a 0-dim tensor) -/
def unsqueeze (k : Nat) (t : FT β) : Except PyErr (FT β) :=
  if k ≤ t.shape.length then
    .ok ⟨t.shape.take k ++ 1 :: t.shape.drop k, fun idx => t.get (idx.eraseIdx k)⟩
  else .error .IndexError

/-- `t.squeeze_(0)`: drops axis 0 if (and only if) it has length 1; a no-op otherwise -/
def squeeze0 (t : FT β) : FT β :=
  match t.shape with
  | 1 :: rest => ⟨rest, fun idx => t.get (0 :: idx)⟩
  | _ => t

/-- out-of-place broadcasting binary operation (`x + y`, `(x + y) / 2`, …): torch broadcasting of the leading shapes
(`Cplx.broadcastShape`: right-aligned, size-1 axes expand, `RuntimeError` otherwise) -/
def bzip (g : β → γ → δ) (x : FT β) (y : FT γ) : Except PyErr (FT δ) :=
  match Cplx.broadcastShape x.shape y.shape with
  | .ok s => .ok ⟨s, fun idx => g (x.get (Cplx.bidx x.shape idx)) (y.get (Cplx.bidx y.shape idx))⟩
  | .error e => .error e

/-- IN-PLACE broadcasting operation `x.add_(y)`: as `bzip`, but the result must have the shape of `x`
("output with shape … doesn't match the broadcast shape …": `RuntimeError`) -/
def bzipInplace (g : β → γ → δ) (x : FT β) (y : FT γ) : Except PyErr (FT δ) :=
  match Cplx.broadcastShape x.shape y.shape with
  | .ok s =>
    if s = x.shape then .ok ⟨s, fun idx => g (x.get (Cplx.bidx x.shape idx)) (y.get (Cplx.bidx y.shape idx))⟩
    else .error .RuntimeError
  | .error e => .error e

/-- `bzip` of two method results: either refusal propagates (`amplitude, phase = self.amplitude(v), self.phase(v)` …) -/
def bzipE (g : β → γ → δ) (u : Except PyErr (FT β)) (w : Except PyErr (FT γ)) : Except PyErr (FT δ) :=
  match u, w with
  | .ok x, .ok y => bzip g x y
  | .error e, _ => .error e
  | _, .error e => .error e

/-- `unsqueeze_(k)` under a Python condition (`if expand and v.dim() >= 2: m = m.unsqueeze_(1)`) -/
def unsqueezeIf (c : Bool) (k : Nat) (t : FT β) : Except PyErr (FT β) :=
  if c then t.unsqueeze k else .ok t

end FT

variable {α : Type} [Add α] [Mul α] [Neg α] [Sub α] [Div α] [Zero α] [One α] [Transc α]

/-! ### the decorator -/

/-- one pass of the loop body (utils/__init__.py:33-36) for one decorated position:
`if args[a].dim() < 2: unsqueeze = True; args[a] = args[a].unsqueeze(0)` -/
def unsqArg {n : Nat} (x : FT (Fin n → α)) : FT (Fin n → α) × Bool :=
  if x.shape.length + 1 < 2 then (x.unsqueeze0, true) else (x, false)

/-- `@auto_unsqueeze_args()` (positions `[1]`: the first tensor argument) around `f` -/
def autoUnsqueeze1 {n : Nat} {β : Type} (f : FT (Fin n → α) → Except PyErr (FT β))
    (x : FT (Fin n → α)) : Except PyErr (FT β) :=
  let x' := unsqArg x
  if x'.2 then (f x'.1).map FT.squeeze0 else f x'.1

/-- `@auto_unsqueeze_args(1, 2)` (purification_rbm.py:237) around a two-tensor `f`: ONE flag for both positions — the
result is squeezed as soon as either operand was 1-D -/
def autoUnsqueeze2 {n m : Nat} {β : Type} (f : FT (Fin n → α) → FT (Fin m → α) → Except PyErr (FT β))
    (x : FT (Fin n → α)) (y : FT (Fin m → α)) : Except PyErr (FT β) :=
  let x' := unsqArg x
  let y' := unsqArg y
  if x'.2 || y'.2 then (f x'.1 y'.1).map FT.squeeze0 else f x'.1 y'.1

/-! ### decorated `BinaryRBM` methods -/
namespace RBM
variable {n h : Nat}

/-- `BinaryRBM.effective_energy(v)` (binary_rbm.py:74-96): `matmul(v, b)` and `softplus(F.linear(v, W, c)).sum(-1)` act on
the last axis of a tensor of any rank ≥ 2 (the undecorated body; row by row it is `RBM.effEnergy`) -/
def effectiveEnergyBody (r : RBM α n h) (v : FT (Fin n → α)) : Except PyErr (FT α) := .ok (v.map r.effEnergy)

/-- `BinaryRBM.effective_energy` as the caller sees it (decorated) -/
def effectiveEnergy (r : RBM α n h) : FT (Fin n → α) → Except PyErr (FT α) := autoUnsqueeze1 r.effectiveEnergyBody

/-- `BinaryRBM.prob_h_given_v(v)` (binary_rbm.py:149-168), decorated; `out=None` -/
def probHGivenV (r : RBM α n h) : FT (Fin n → α) → Except PyErr (FT (Fin h → α)) :=
  autoUnsqueeze1 (fun v => .ok (v.map r.probH))

/-- `BinaryRBM.prob_v_given_h(h)` (binary_rbm.py:128-147), decorated; `out=None` -/
def probVGivenH (r : RBM α n h) : FT (Fin h → α) → Except PyErr (FT (Fin n → α)) :=
  autoUnsqueeze1 (fun hd => .ok (hd.map r.probV))

end RBM

/-! ### decorated `PurificationRBM` methods -/
namespace PRBM
variable {n h a : Nat}

/-- body of `PurificationRBM.effective_energy(v, a)` (purification_rbm.py:145-158). `a=None`: the traced energy row by row.
Otherwise `a = a.unsqueeze(0) if a.dim() < 2 else a`; `vis_term` has the leading shape of `v`, `aux_term = matmul(a, d)` that
of `a`, `mix_term = einsum("...v,av,...a->...")` their broadcast, and `vis_term + aux_term + mix_term` broadcasts again. -/
def effectiveEnergyBody (r : PRBM α n h a) (aux : Option (FT (Fin a → α))) (v : FT (Fin n → α)) :
    Except PyErr (FT α) :=
  match aux with
  | none => .ok (v.map r.effEnergy)
  | some ax => FT.bzip (fun vrow arow => r.effEnergyAux vrow arow) v (unsqArg ax).1

/-- `PurificationRBM.effective_energy(v, a=None)` as the caller sees it (only `v` is a decorated position) -/
def effectiveEnergy (r : PRBM α n h a) (v : FT (Fin n → α)) (aux : Option (FT (Fin a → α))) :
    Except PyErr (FT α) :=
  autoUnsqueeze1 (r.effectiveEnergyBody aux) v

/-- `PurificationRBM.prob_h_given_v` (purification_rbm.py:196-215), decorated -/
def probHGivenV (r : PRBM α n h a) : FT (Fin n → α) → Except PyErr (FT (Fin h → α)) :=
  autoUnsqueeze1 (fun v => .ok (v.map r.probH))

/-- `PurificationRBM.prob_a_given_v` (purification_rbm.py:217-235), decorated -/
def probAGivenV (r : PRBM α n h a) : FT (Fin n → α) → Except PyErr (FT (Fin a → α)) :=
  autoUnsqueeze1 (fun v => .ok (v.map r.probA))

/-- body of `prob_v_given_ha(h, a)` (purification_rbm.py:253-259): `matmul(h, W).add_(b).add_(matmul(a, U)).sigmoid_().clamp_()` —
the second `add_` is IN PLACE on a tensor with the leading shape of `h`, so `a` may broadcast to `h` but not the other way -/
def probVGivenHABody (r : PRBM α n h a) (hd : FT (Fin h → α)) (ax : FT (Fin a → α)) :
    Except PyErr (FT (Fin n → α)) :=
  FT.bzipInplace (fun hrow arow => r.probV hrow arow) hd ax

/-- `prob_v_given_ha` as the caller sees it: `@auto_unsqueeze_args(1, 2)` -/
def probVGivenHA (r : PRBM α n h a) : FT (Fin h → α) → FT (Fin a → α) → Except PyErr (FT (Fin n → α)) :=
  autoUnsqueeze2 r.probVGivenHABody

end PRBM
end QV
