/-
QV.Model.Grads — model of the training-gradient code:
`NeuralStateBase.gradient / positive_phase_gradients / compute_exact_gradients / compute_batch_gradients`
(qucumber/nn_states/neural_state.py:326-447), `ComplexWaveFunction.rotated_gradient / am_grads / ph_grads`
(complex_wavefunction.py:162-211), `DensityMatrix.rotated_gradient / am_grads / ph_grads / pi_grad`
(density_matrix.py:159-243, 281-330), `PurificationRBM.gamma_grad` (purification_rbm.py:398-451).

Gradients are RBM-shaped (or PRBM-shaped) records; `RBM.flatten` gives the `parameters()` layout.
A sample is a bit-vector with its basis string (`List Char`, one letter per site); the dictionary is a
function `Char → M2 α` (lookup of a missing letter is not modelled).
-/
import QV.Model.States
import QV.Model.Unitaries
namespace QV

variable {α : Type} [Add α] [Mul α] [Neg α] [Sub α] [Div α] [Zero α] [One α] [Transc α]

/-- a measured sample: outcome bits and the basis string -/
structure Sample (n : Nat) where
  σ : Fin n → Bool
  basis : List Char

namespace Sample
variable {n : Nat}
/-- letter at site `j` (`'Z'` beyond the string; the harness always sends `n` letters) -/
def letter (s : Sample n) (j : Fin n) : Char := s.basis.getD j.val 'Z'
/-- `basis != "Z"` per site -/
def rot (s : Sample n) (j : Fin n) : Bool := s.letter j != 'Z'
/-- `rot_sites.size == 0` -/
def allZ (s : Sample n) : Bool := (List.finRange n).all (fun j => !(s.rot j))
/-- the outcome as a 0/1 scalar vector -/
def vis (s : Sample n) : Fin n → α := fun j => bit (s.σ j)
end Sample

/-- 0/1 scalar vector of a bit-vector -/
def visOf {n : Nat} (τ : Fin n → Bool) : Fin n → α := fun j => bit (τ j)

namespace Grads
variable {n h a : Nat}

/-! ### positive wavefunction -/

/-- `PositiveWaveFunction.gradient(samples)`: `effective_energy_gradient(samples)` summed over the batch -/
def gradientPos (am : RBM α n h) {B : Nat} (vs : Fin B → Fin n → α) : RBM α n h := am.effEnergyGrad vs

/-- `positive_phase_gradients`: gradient divided by the batch size -/
def positivePhasePos (am : RBM α n h) {B : Nat} (vs : Fin B → Fin n → α) : RBM α n h :=
  (gradientPos am vs).sdiv (Transc.ofNat B)

/-- exact negative phase `Σ_σ p(σ) ∇E(σ)` with `p = exp(-E)/Σ exp(-E)` over the whole space
(`probs = probability(space, 1); Z = probs.sum(); probs /= Z; mv(all_grads.t(), probs)`) -/
def negPhaseExact (am : RBM α n h) : RBM α n h :=
  let w : Fin (2 ^ n) → α := fun k => Transc.exp (-(am.effEnergy (spaceRow n k.val)))
  let Z := sumFin (2 ^ n) w
  { W := fun i j => sumFin (2 ^ n) (fun k => (am.effEnergyGrad1 (spaceRow n k.val)).W i j * (w k / Z))
    b := fun j => sumFin (2 ^ n) (fun k => (am.effEnergyGrad1 (spaceRow n k.val)).b j * (w k / Z))
    c := fun i => sumFin (2 ^ n) (fun k => (am.effEnergyGrad1 (spaceRow n k.val)).c i * (w k / Z)) }

/-- `compute_exact_gradients` of the positive state (`compute_exact_grads` is an alias) -/
def exactGradientsPos (am : RBM α n h) {B : Nat} (vs : Fin B → Fin n → α) : RBM α n h :=
  (positivePhasePos am vs).sub (negPhaseExact am)

/-! ### complex wavefunction -/

/-- `Upsi_v[τ]` of `rotate_psi_inner_prod(include_extras=True)` as a function on ALL basis states
(zero for states that are not expansions of `σ`): `Ut_τ · ψ(τ)` -/
def cplxCoef (am ph : RBM α n h) (dict : Char → M2 α) (s : Sample n) (τ : Fin n → Bool) : C α :=
  if Unitaries.agreesOff n s.rot s.σ τ then
    C.mul (Unitaries.rotCoeff n (fun j => dict (s.letter j)) s.rot s.σ τ) (Wave.psiCplx am ph (visOf τ))
  else C.zero

/-- `Upsi` -/
def cplxUpsi (am ph : RBM α n h) (dict : Char → M2 α) (s : Sample n) : C α :=
  C.sum (2 ^ n) (fun k => cplxCoef am ph dict s (fun j => spaceBit n k.val j))

/-- one component of `rotated_gradient`: `Re[ inv(Upsi) · Σ_τ Upsi_v[τ] · g(τ) ]` where the raw gradient entry is
`g τ` (amplitude network, real) or `i · g τ` (phase network). `inv` is `cplx.inverse` AS CODED AT HEAD (`C.invH`: operand
scaled by its larger component, complex_wavefunction.py:178 / cplx.py:364-380); over ℝ it is the textbook inverse wherever
`Upsi ≠ 0` (`C15_invH_eq`, `C03_rot_comp_textbook`). -/
def cplxRotComp (am ph : RBM α n h) (dict : Char → M2 α) (s : Sample n) (isPhase : Bool)
    (g : (Fin n → Bool) → α) : α :=
  (C.mul (C.invH (cplxUpsi am ph dict s))
    (C.sum (2 ^ n) (fun k =>
      let τ : Fin n → Bool := fun j => spaceBit n k.val j
      C.mul (cplxCoef am ph dict s τ) (if isPhase then (0, g τ) else (g τ, 0))))).1

/-- per-sample gradient pair (amplitude network, phase network) of the complex state -/
def cplxGrad1 (am ph : RBM α n h) (dict : Char → M2 α) (s : Sample n) : RBM α n h × RBM α n h :=
  if s.allZ then (am.effEnergyGrad1 s.vis, RBM.zero)
  else
    ({ W := fun i j => cplxRotComp am ph dict s false (fun τ => (am.effEnergyGrad1 (visOf τ)).W i j)
       b := fun j => cplxRotComp am ph dict s false (fun τ => (am.effEnergyGrad1 (visOf τ)).b j)
       c := fun i => cplxRotComp am ph dict s false (fun τ => (am.effEnergyGrad1 (visOf τ)).c i) },
     { W := fun i j => cplxRotComp am ph dict s true (fun τ => (ph.effEnergyGrad1 (visOf τ)).W i j)
       b := fun j => cplxRotComp am ph dict s true (fun τ => (ph.effEnergyGrad1 (visOf τ)).b j)
       c := fun i => cplxRotComp am ph dict s true (fun τ => (ph.effEnergyGrad1 (visOf τ)).c i) })

/-- sum of a list of RBM-shaped records, in order -/
def sumRBM (l : List (RBM α n h)) : RBM α n h := l.foldl RBM.add RBM.zero
def sumPRBM (l : List (PRBM α n h a)) : PRBM α n h a := l.foldl PRBM.add PRBM.zero

/-- the distinct basis strings of a batch (`np.unique(bases, axis=0)`; numpy returns them sorted, which only
affects the order of accumulation) -/
def uniqueBases (D : List (Sample n)) : List (List Char) := (D.map (·.basis)).foldr List.insert []

/-- `NeuralStateBase.gradient(samples, bases)` for the complex state: for each unique basis, the gradient of
the rows measured in it (all-Z groups through the fast path), accumulated. -/
def gradientCplx (am ph : RBM α n h) (dict : Char → M2 α) (D : List (Sample n)) : RBM α n h × RBM α n h :=
  let groups := (uniqueBases D).map (fun u => D.filter (fun s => s.basis == u))
  (sumRBM (groups.map (fun g => sumRBM (g.map (fun s => (cplxGrad1 am ph dict s).1)))),
   sumRBM (groups.map (fun g => sumRBM (g.map (fun s => (cplxGrad1 am ph dict s).2)))))

def positivePhaseCplx (am ph : RBM α n h) (dict : Char → M2 α) (D : List (Sample n)) : RBM α n h × RBM α n h :=
  let g := gradientCplx am ph dict D
  (g.1.sdiv (Transc.ofNat D.length), g.2.sdiv (Transc.ofNat D.length))

def exactGradientsCplx (am ph : RBM α n h) (dict : Char → M2 α) (D : List (Sample n)) : RBM α n h × RBM α n h :=
  let g := positivePhaseCplx am ph dict D
  (g.1.sub (negPhaseExact am), g.2)

/-! ### density matrix -/

/-- TEXTBOOK complex logistic function `e^z / (1 + e^z)` (`cplx.sigmoid` BEFORE /repo commit 7038bfb). HEAD's
`cplx.sigmoid` is `C.csigmoidH` (= `Cplx.sigC`, overflow-free branch form), which `piGrad` / `piGradNoExpand` call; over ℝ
the two are equal for every argument (`C15_csigmoidH_eq`). Kept as the specification. -/
def csigmoid (x y : α) : C α :=
  let ez : C α := (Transc.exp x * Transc.cos y, Transc.exp x * Transc.sin y)
  C.div ez (C.add C.one ez)

/-- `gamma_grad(v, vp, eta)` entry for one pair (real; returned as a complex record with zero imaginary part) -/
def gammaGrad (r : PRBM α n h a) (sgn : α) (v vp : Fin n → α) : PRBM α n h a where
  W := fun i j => (1 / two) * (r.probH v i * v j + sgn * (r.probH vp i * vp j))
  U := fun _ _ => 0
  b := fun j => (1 / two) * (v j + sgn * vp j)
  c := fun i => (1 / two) * (r.probH v i + sgn * r.probH vp i)
  d := fun _ => 0

/-- complex PRBM-shaped record as a pair (real part, imaginary part) -/
abbrev CPRBM (α : Type) (n h a : Nat) := PRBM α n h a × PRBM α n h a

section
variable [LT α] [DecidableLT α]
/-- `pi_grad(v, vp, phase, expand=True)` entry for one pair; `sig` is `cplx.sigmoid` as coded at HEAD (`C.csigmoidH`,
density_matrix.py:195 / cplx.py:326-345) -/
def piGrad (am ph : PRBM α n h a) (phase : Bool) (v vp : Fin n → α) : CPRBM α n h a :=
  let sig : Fin a → C α := fun k => C.csigmoidH (Density.piArgRe am v vp k) (Density.piArgIm ph v vp k)
  let sig' : Fin a → C α := fun k => if phase then C.mul (sig k) C.I else sig k
  let temp : Fin n → α := fun j => if phase then v j - vp j else v j + vp j
  ({ W := fun _ _ => 0, U := fun k j => (1 / two) * ((sig' k).1 * temp j), b := fun _ => 0, c := fun _ => 0,
     d := fun k => if phase then 0 else (sig k).1 },
   { W := fun _ _ => 0, U := fun k j => (1 / two) * ((sig' k).2 * temp j), b := fun _ => 0, c := fun _ => 0,
     d := fun k => if phase then 0 else (sig k).2 })

/-- `pi_grad(v, vp, phase, expand=False)` — the DEFAULT value of `expand` (density_matrix.py:191-193) — for one pair:
the arguments of the complex sigmoid are `rbm_am.mixing_term(v + vp)` and `rbm_ph.mixing_term(v - vp)`; the latter ADDS the
phase network's auxiliary bias `d_μ`, which `pi` and the `expand=True` branch never use. The training code never takes this
branch (`am_grads` / `ph_grads` pass `expand=True`); modelled as the code computes it, compared at auxiliary level. -/
def piGradNoExpand (am ph : PRBM α n h a) (phase : Bool) (v vp : Fin n → α) : CPRBM α n h a :=
  let sig : Fin a → C α := fun k =>
    C.csigmoidH (am.mixingTerm (fun j => v j + vp j) k) (ph.mixingTerm (fun j => v j - vp j) k)
  let sig' : Fin a → C α := fun k => if phase then C.mul (sig k) C.I else sig k
  let temp : Fin n → α := fun j => if phase then v j - vp j else v j + vp j
  ({ W := fun _ _ => 0, U := fun k j => (1 / two) * ((sig' k).1 * temp j), b := fun _ => 0, c := fun _ => 0,
     d := fun k => if phase then 0 else (sig k).1 },
   { W := fun _ _ => 0, U := fun k j => (1 / two) * ((sig' k).2 * temp j), b := fun _ => 0, c := fun _ => 0,
     d := fun k => if phase then 0 else (sig k).2 })

/-- `am_grads(v)[τ1, τ2]` = `gamma_grad(+1) + pi_grad(phase=False)` -/
def dmAmGrads (am ph : PRBM α n h a) (v vp : Fin n → α) : CPRBM α n h a :=
  let p := piGrad am ph false v vp
  ((gammaGrad am 1 v vp).add p.1, p.2)

/-- `ph_grads(v)[τ1, τ2]` = `i · gamma_grad(−1) + pi_grad(phase=True)` -/
def dmPhGrads (am ph : PRBM α n h a) (v vp : Fin n → α) : CPRBM α n h a :=
  let p := piGrad am ph true v vp
  (p.1, (gammaGrad ph (-1) v vp).add p.2)

/-- `UrhoU_v[τ1, τ2]`: `Ut_τ1 · conj(Ut_τ2) · ρ(τ1, τ2)` (zero outside the expansions of `σ`) -/
def dmCoef (am ph : PRBM α n h a) (dict : Char → M2 α) (s : Sample n) (τ1 τ2 : Fin n → Bool) : C α :=
  if Unitaries.agreesOff n s.rot s.σ τ1 && Unitaries.agreesOff n s.rot s.σ τ2 then
    let us := fun j => dict (s.letter j)
    C.mul (C.mul (Unitaries.rotCoeff n us s.rot s.σ τ1) (C.conj (Unitaries.rotCoeff n us s.rot s.σ τ2)))
      (Density.rho am ph (visOf τ1) (visOf τ2))
  else C.zero

/-- `UrhoU` (rotated unnormalised probability of the sample) -/
def dmUrhoU (am ph : PRBM α n h a) (dict : Char → M2 α) (s : Sample n) : α :=
  sumFin (2 ^ n) (fun k => sumFin (2 ^ n) (fun l =>
    (dmCoef am ph dict s (fun j => spaceBit n k.val j) (fun j => spaceBit n l.val j)).1))

/-- one component of `DensityMatrix.rotated_gradient`:
`−(Σ_{τ1,τ2} Re[UrhoU_v[τ1,τ2] · g[τ1,τ2]]) / (UrhoU + ε)` -/
def dmRotComp (am ph : PRBM α n h a) (dict : Char → M2 α) (eps : α) (s : Sample n)
    (g : (Fin n → Bool) → (Fin n → Bool) → C α) : α :=
  (-(sumFin (2 ^ n) (fun k => sumFin (2 ^ n) (fun l =>
      let τ1 : Fin n → Bool := fun j => spaceBit n k.val j
      let τ2 : Fin n → Bool := fun j => spaceBit n l.val j
      (C.mul (dmCoef am ph dict s τ1 τ2) (g τ1 τ2)).1)))) * (1 / (dmUrhoU am ph dict s + eps))

/-- per-sample gradient pair of the mixed state; `eps` is the code's `1e-8` -/
def dmGrad1 (am ph : PRBM α n h a) (dict : Char → M2 α) (eps : α) (s : Sample n) : PRBM α n h a × PRBM α n h a :=
  if s.allZ then (am.effEnergyGrad1 s.vis, PRBM.zero)
  else
    let ga := fun τ1 τ2 => dmAmGrads am ph (visOf τ1) (visOf τ2)
    let gp := fun τ1 τ2 => dmPhGrads am ph (visOf τ1) (visOf τ2)
    let comp := fun (g : (Fin n → Bool) → (Fin n → Bool) → CPRBM α n h a) (sel : PRBM α n h a → α) =>
      dmRotComp am ph dict eps s (fun τ1 τ2 => (sel (g τ1 τ2).1, sel (g τ1 τ2).2))
    ({ W := fun i j => comp ga (fun r => r.W i j), U := fun k j => comp ga (fun r => r.U k j),
       b := fun j => comp ga (fun r => r.b j), c := fun i => comp ga (fun r => r.c i), d := fun k => comp ga (fun r => r.d k) },
     { W := fun i j => comp gp (fun r => r.W i j), U := fun k j => comp gp (fun r => r.U k j),
       b := fun j => comp gp (fun r => r.b j), c := fun i => comp gp (fun r => r.c i), d := fun k => comp gp (fun r => r.d k) })

def gradientDM (am ph : PRBM α n h a) (dict : Char → M2 α) (eps : α) (D : List (Sample n)) :
    PRBM α n h a × PRBM α n h a :=
  let groups := (uniqueBases D).map (fun u => D.filter (fun s => s.basis == u))
  (sumPRBM (groups.map (fun g => sumPRBM (g.map (fun s => (dmGrad1 am ph dict eps s).1)))),
   sumPRBM (groups.map (fun g => sumPRBM (g.map (fun s => (dmGrad1 am ph dict eps s).2)))))

def positivePhaseDM (am ph : PRBM α n h a) (dict : Char → M2 α) (eps : α) (D : List (Sample n)) :
    PRBM α n h a × PRBM α n h a :=
  let g := gradientDM am ph dict eps D
  (g.1.sdiv (Transc.ofNat D.length), g.2.sdiv (Transc.ofNat D.length))

/-- exact negative phase for the purification RBM (aux-traced effective energy) -/
def negPhaseExactDM (am : PRBM α n h a) : PRBM α n h a :=
  let w : Fin (2 ^ n) → α := fun k => Transc.exp (-(am.effEnergy (spaceRow n k.val)))
  let Z := sumFin (2 ^ n) w
  let avg := fun (sel : PRBM α n h a → α) =>
    sumFin (2 ^ n) (fun k => sel (am.effEnergyGrad1 (spaceRow n k.val)) * (w k / Z))
  { W := fun i j => avg (fun r => r.W i j), U := fun k j => avg (fun r => r.U k j), b := fun j => avg (fun r => r.b j),
    c := fun i => avg (fun r => r.c i), d := fun k => avg (fun r => r.d k) }

def exactGradientsDM (am ph : PRBM α n h a) (dict : Char → M2 α) (eps : α) (D : List (Sample n)) :
    PRBM α n h a × PRBM α n h a :=
  let g := positivePhaseDM am ph dict eps D
  (g.1.sub (negPhaseExactDM am), g.2)

end

/-! ### contrastive-divergence batch gradient (C06) -/

/-- `compute_batch_gradients`: positive phase minus `effective_energy_gradient(v_k) / |neg batch|`
(amplitude network only); `vk` are the chain end states. -/
def batchGradAm (posPhaseAm : RBM α n h) (am : RBM α n h) {M : Nat} (vk : Fin M → Fin n → α) : RBM α n h :=
  posPhaseAm.sub ((am.effEnergyGrad vk).sdiv (Transc.ofNat M))
def batchGradAmDM (posPhaseAm : PRBM α n h a) (am : PRBM α n h a) {M : Nat} (vk : Fin M → Fin n → α) : PRBM α n h a :=
  posPhaseAm.sub ((am.effEnergyGrad vk).sdiv (Transc.ofNat M))

/-- plain SGD: `p ← p − lr · grad` -/
def sgdStep (lr : α) (p g : RBM α n h) : RBM α n h := p.sub (RBM.smul lr g)
def sgdStepDM (lr : α) (p g : PRBM α n h a) : PRBM α n h a := p.sub (PRBM.smul lr g)

end Grads
end QV
