/-
QV.Model.Callbacks — model of the periodic callbacks of `qucumber/callbacks`:
`MetricEvaluator` (metric_evaluator.py), `ObservableEvaluator` + `ObservableStatistics`
(observable_evaluator.py), `ModelSaver` (model_saver.py), `Logger` (logger.py), as state machines over
the stream of events that `fit` dispatches to a callback (neural_state.py:595-636, callback.py).

Conventions
* `W` is an opaque token for "the world at the moment an event is dispatched" (the NeuralState being
  trained as the callback sees it).  Metric functions, `System.statistics`, the metadata callable, the
  message generator and the parameter snapshot are ENVIRONMENT FUNCTIONS of that token; the values they
  produce are tokens of a type `V` / `M` / `P` / `Msg`.
* Python dicts are insertion-ordered association lists (`Dict`); a Python dict has distinct keys, the
  theorems assume that invariant (`Nodup` of the key list) where a lookup is involved.
* Error cases are `Except PyErr`; after an exception the state of the callback is not modelled (the
  exception propagates out of `fit`).
* `verbose` printing: the plain state machines (`onEpochEnd`, `step`, `run`) are the callbacks with `verbose` not the
  singleton `True`; the section "verbose printing" below models the `if self.verbose is True:` branches and the ORDER OF
  EFFECTS (history appended, header printed, values formatted, line printed, CSV row written) with the state that is left
  behind when `{v:.6f}` raises (`onEpochEndV`, `runV`, `Effects`).
* Not modelled: pre-existing content of a log file opened in append
  mode (the model's `log` is the list of rows THIS object appended).
* Names are arbitrary strings.  Subscripting (`ev[name]`, `stats[name]`) calls `__getattr__` directly and is
  modelled as the function it is (`getItem`, `obsStatGet`); ATTRIBUTE syntax (`ev.name`, `getattr(ev, name)`)
  goes through Python's normal lookup first (`pyGetattr`): a name the object already has as an attribute,
  property or method (`period`, `last`, `log`, `epochs`, `data`, …) yields that attribute and `__getattr__` is
  not called.

This file is import-free (only QV.Model.*).
-/
import QV.Model.Hilbert
import QV.Model.PyFlag

namespace QV.Cb

/-! ### events, Python integer modulo, Python list indexing, dicts -/

/-- The events `fit` dispatches (`CallbackBase` methods, callback.py:19-78), each carrying the world token
at dispatch time. The model's own minimal event-stream type (C12 models how `fit` produces streams). -/
inductive Ev (W : Type) where
  | trainStart (w : W)
  | epochStart (e : Int) (w : W)
  | batchStart (e : Int) (b : Nat) (w : W)
  | batchEnd (e : Int) (b : Nat) (w : W)
  | epochEnd (e : Int) (w : W)
  | trainEnd (w : W)

/-- Python `a % b` on ints: floor-modulo, `ZeroDivisionError` for `b == 0`. -/
def pyMod (a b : Int) : Except PyErr Int :=
  if b = 0 then .error .ZeroDivisionError else .ok (Int.fmod a b)

/-- `epoch % self.period == 0` — the guard of every periodic callback
(metric_evaluator.py:128, observable_evaluator.py:183, model_saver.py:90, logger.py:48, early_stopping.py:146). -/
def gate (epoch period : Int) : Except PyErr Bool :=
  match pyMod epoch period with
  | .ok r => .ok (r == 0)
  | .error e => .error e

/-- Python `l[i]` for a list: negative indices count from the end, out of range is `IndexError`. -/
def pyIndex {α : Type} (l : List α) (i : Int) : Except PyErr α :=
  let n : Int := l.length
  let j : Int := if i < 0 then i + n else i
  if j < 0 then .error .IndexError
  else match l[j.toNat]? with
    | some x => .ok x
    | none => .error .IndexError

/-- insertion-ordered association list = Python dict -/
abbrev Dict (K V : Type) := List (K × V)

/-- `d.keys()` -/
def Dict.keys {K V : Type} (d : Dict K V) : List K := d.map Prod.fst

/-- `d[k]` (`KeyError` when absent) -/
def Dict.getItem {K V : Type} [BEq K] (d : Dict K V) (k : K) : Except PyErr V :=
  match d.lookup k with
  | some v => .ok v
  | none => .error .KeyError

/-- `d[k] = v`: overwrite in place (position kept) or append -/
def Dict.set {K V : Type} [BEq K] (d : Dict K V) (k : K) (v : V) : Dict K V :=
  if d.keys.contains k then d.map (fun kv => if kv.1 == k then (k, v) else kv) else d ++ [(k, v)]

/-- `{k: v for (k, v) in pairs}` — later values win, first position kept -/
def Dict.ofPairs {K V : Type} [BEq K] (l : List (K × V)) : Dict K V :=
  l.foldl (fun d kv => d.set kv.1 kv.2) []

/-- map over a list with a function that may raise (list comprehension with a raising body) -/
def mapE {α β : Type} (f : α → Except PyErr β) : List α → Except PyErr (List β)
  | [] => .ok []
  | a :: rest =>
    match f a with
    | .error e => .error e
    | .ok b =>
      match mapE f rest with
      | .error e => .error e
      | .ok bs => .ok (b :: bs)

/-- run a state machine over an event stream (stops at the first exception) -/
def runWith {S E : Type} (step : S → E → Except PyErr S) : S → List E → Except PyErr S
  | s, [] => .ok s
  | s, ev :: rest =>
    match step s ev with
    | .ok s' => runWith step s' rest
    | .error e => .error e

/-! ### attribute syntax on an object whose class defines `__getattr__` -/

/-- what `obj.name` evaluates to: an attribute found by Python's normal lookup (instance dict, class attributes,
properties, methods — represented by its name), or the value produced by `__getattr__(name)` -/
inductive AttrResult (R : Type) where
  | own (name : String)
  | dynamic (r : R)
  deriving Repr, DecidableEq

/-- Python attribute lookup on an instance of a class that defines `__getattr__` (and not `__getattribute__`):
`__getattr__` is consulted ONLY when the normal lookup fails; `own` lists the names the normal lookup resolves. -/
def pyGetattr {R : Type} (own : List String) (dyn : String → Except PyErr R) (name : String) :
    Except PyErr (AttrResult R) :=
  if own.contains name then .ok (.own name)
  else match dyn name with
    | .ok r => .ok (.dynamic r)
    | .error e => .error e

/-! ### CSV log (csv.DictWriter) -/

/-- column keys of the CSV logs: `"epoch"`, a metric name, or `obs_name + "_" + stat_name`.
(The model keeps the pair structured; the rendered header text is `Field.text`. Assumption recorded in
notes/C17.md: the concatenation is injective on the pairs that occur — true for the four statistic
names `mean, variance, std_error, num_samples`.) -/
inductive Field where
  | epoch
  | name (n : String)
  | stat (obs : String) (stat : String)
  deriving DecidableEq, Repr

/-- header text of a column -/
def Field.text : Field → String
  | .epoch => "epoch"
  | .name n => n
  | .stat o s => o ++ "_" ++ s

/-- a cell of a CSV row -/
inductive Cell (V : Type) where
  | text (s : String)
  | int (i : Int)
  | val (v : V)
  | blank
  deriving DecidableEq, Repr

/-- `csv.DictWriter(fieldnames=fields, extrasaction=…).writerow(row)`:
keys of `row` outside `fields` raise `ValueError` unless `extrasaction="ignore"`;
the written cells are `row.get(field, "")` in field order. -/
def dictWriterRow {V : Type} (fields : List Field) (row : Dict Field (Cell V)) (ignoreExtras : Bool) :
    Except PyErr (List (Cell V)) :=
  if !ignoreExtras && row.keys.any (fun k => !fields.contains k) then .error .ValueError
  else .ok (fields.map (fun f => (row.lookup f).getD .blank))

/-- `writer.writeheader()` -/
def headerRow {V : Type} (fields : List Field) : List (Cell V) := fields.map (fun f => .text f.text)

/-! ### the state shared by both evaluators -/

/-- `past_values`, `last`, and the rows this object appended to its log file.
`X` is the per-name value (`V` for metrics, a statistics dict for observables). -/
structure EvalState (X V : Type) where
  /-- `self.past_values : list[(epoch, dict)]` -/
  past : List (Int × Dict String X)
  /-- `self.last : dict` -/
  last : Dict String X
  /-- rows appended to `self.log` by this object (header first) -/
  log : List (List (Cell V))

namespace EvalState
variable {X V : Type}

/-- `__len__` (metric_evaluator.py:72-77, observable_evaluator.py:113-118) -/
def len (s : EvalState X V) : Nat := s.past.length

/-- `epochs` property (metric_evaluator.py:99-105, observable_evaluator.py:146-152) -/
def epochs (s : EvalState X V) : List Int := s.past.map Prod.fst

/-- `__getattr__`/`__getitem__` (metric_evaluator.py:79-97; observable_evaluator.py:120-144 before wrapping in
`ObservableStatistics`): `[values[name] for _, values in past_values]`, `KeyError → AttributeError`.
With an empty history every name yields the empty array. -/
def getItem (s : EvalState X V) (name : String) : Except PyErr (List X) :=
  match mapE (fun (rec : Int × Dict String X) => rec.2.getItem name) s.past with
  | .ok xs => .ok xs
  | .error _ => .error .AttributeError

/-- `get_value(name, index=None)` (metric_evaluator.py:113-125, observable_evaluator.py:163-180):
`self.past_values[index if index is not None else -1][-1][name]` -/
def getValue (s : EvalState X V) (name : String) (index : Option Int) : Except PyErr X :=
  let idx : Int := match index with | some i => i | none => -1
  match pyIndex s.past idx with
  | .error e => .error e
  | .ok rec => rec.2.getItem name

/-- `ev.name` / `getattr(ev, name)` (attribute syntax) for an evaluator whose normal lookup resolves the names `own` -/
def getAttr (own : List String) (s : EvalState X V) (name : String) : Except PyErr (AttrResult (List X)) :=
  pyGetattr own s.getItem name

/-- `clear_history()` (metric_evaluator.py:107-111, observable_evaluator.py:158-161): the log file is untouched -/
def clearHistory (s : EvalState X V) : EvalState X V := { s with past := [], last := [] }

end EvalState

/-! ### MetricEvaluator -/

/-- constructor arguments of `MetricEvaluator` (metric_evaluator.py:56-70); `metrics` is the dict
name ↦ metric function (applied to the world token), `log` is `log is not None`. -/
structure MetricEvaluator (W V : Type) where
  period : Int
  metrics : Dict String (W → V)
  log : Bool

namespace MetricEvaluator
variable {W V : Type}

/-- `names` property (metric_evaluator.py:99-105) -/
def names (c : MetricEvaluator W V) : List String := c.metrics.keys

/-- `self.csv_fields = ["epoch"] + list(self.metrics.keys())` (metric_evaluator.py:65) -/
def csvFields (c : MetricEvaluator W V) : List Field := .epoch :: c.names.map .name

/-- state after `__init__` (metric_evaluator.py:56-70): empty history, header written iff a log is given -/
def init (c : MetricEvaluator W V) : EvalState V V :=
  { past := [], last := [], log := if c.log then [headerRow c.csvFields] else [] }

/-- the dict `metric_vals_for_epoch` built by the loop metric_evaluator.py:129-132 -/
def evalAll (c : MetricEvaluator W V) (w : W) : Dict String V := c.metrics.map (fun nf => (nf.1, nf.2 w))

/-- `writer.writerow(dict(epoch=epoch, **self.last))` (metric_evaluator.py:141-146);
`dict(epoch=…, **last)` is a `TypeError` when a metric is itself called "epoch". -/
def logRow (c : MetricEvaluator W V) (e : Int) (last : Dict String V) : Except PyErr (List (Cell V)) :=
  if last.keys.contains "epoch" then .error .TypeError
  else dictWriterRow c.csvFields ((Field.epoch, Cell.int e) :: last.map (fun nv => (Field.name nv.1, Cell.val nv.2))) false

/-- `on_epoch_end` (metric_evaluator.py:127-146): gate; evaluate every metric in dict order; `last` := copy;
append `(epoch, values)`; then append the CSV row built from `last`. -/
def onEpochEnd (c : MetricEvaluator W V) (s : EvalState V V) (e : Int) (w : W) : Except PyErr (EvalState V V) :=
  match gate e c.period with
  | .error err => .error err
  | .ok false => .ok s
  | .ok true =>
    let vals := c.evalAll w
    let s1 : EvalState V V := { s with last := vals, past := s.past ++ [(e, vals)] }
    if c.log then
      match c.logRow e s1.last with
      | .error err => .error err
      | .ok row => .ok { s1 with log := s1.log ++ [row] }
    else .ok s1

/-- dispatch of one event: only `on_epoch_end` is overridden -/
def step (c : MetricEvaluator W V) (s : EvalState V V) : Ev W → Except PyErr (EvalState V V)
  | .epochEnd e w => c.onEpochEnd s e w
  | _ => .ok s

/-- the callback driven through an event stream -/
def run (c : MetricEvaluator W V) : EvalState V V → List (Ev W) → Except PyErr (EvalState V V) := runWith c.step

end MetricEvaluator

/-! ### ObservableEvaluator and ObservableStatistics -/

/-- the three statistics that get a CSV column (observable_evaluator.py:104-108) -/
def csvStats : List String := ["mean", "variance", "std_error"]

/-- constructor arguments of `ObservableEvaluator` (observable_evaluator.py:94-111).
`obsNames` are the names of the observables passed, in order; `statistics w` is what
`self.system.statistics(nn_state, **sampling_kwargs)` returns at world `w`
(a dict observable ↦ dict statistic ↦ value). -/
structure ObservableEvaluator (W V : Type) where
  period : Int
  obsNames : List String
  statistics : W → Dict String (Dict String V)
  log : Bool

namespace ObservableEvaluator
variable {W V : Type}

/-- `names`: `list(self.system.observables.keys())` where `System.__init__` builds
`{obs.name: obs for obs in observables}` (system.py:28-29) — duplicates collapse onto the first position -/
def names (c : ObservableEvaluator W V) : List String := (Dict.ofPairs (c.obsNames.map (fun n => (n, ())))).keys

/-- `csv_fields` (observable_evaluator.py:103-108) -/
def csvFields (c : ObservableEvaluator W V) : List Field :=
  .epoch :: c.names.flatMap (fun o => csvStats.map (fun st => Field.stat o st))

/-- state after `__init__` -/
def init (c : ObservableEvaluator W V) : EvalState (Dict String V) V :=
  { past := [], last := [], log := if c.log then [headerRow c.csvFields] else [] }

/-- the `row` dict of observable_evaluator.py:202-206: `{"epoch": epoch}` then
`row[obs_name + "_" + stat_name] = stat` for every statistic of every observable in `last` -/
def rowDict (e : Int) (last : Dict String (Dict String V)) : Dict Field (Cell V) :=
  last.foldl (fun row od => od.2.foldl (fun row sv => row.set (Field.stat od.1 sv.1) (Cell.val sv.2)) row)
    [(Field.epoch, Cell.int e)]

/-- `on_epoch_end` (observable_evaluator.py:182-214): gate; `obs_vals = system.statistics(…)`; `last` := copy;
append; CSV row with `extrasaction="ignore"` (so `num_samples` is dropped). -/
def onEpochEnd (c : ObservableEvaluator W V) (s : EvalState (Dict String V) V) (e : Int) (w : W) :
    Except PyErr (EvalState (Dict String V) V) :=
  match gate e c.period with
  | .error err => .error err
  | .ok false => .ok s
  | .ok true =>
    let vals := c.statistics w
    let s1 : EvalState (Dict String V) V := { s with last := vals, past := s.past ++ [(e, vals)] }
    if c.log then
      match dictWriterRow c.csvFields (rowDict e s1.last) true with
      | .error err => .error err
      | .ok row => .ok { s1 with log := s1.log ++ [row] }
    else .ok s1

def step (c : ObservableEvaluator W V) (s : EvalState (Dict String V) V) :
    Ev W → Except PyErr (EvalState (Dict String V) V)
  | .epochEnd e w => c.onEpochEnd s e w
  | _ => .ok s

def run (c : ObservableEvaluator W V) :
    EvalState (Dict String V) V → List (Ev W) → Except PyErr (EvalState (Dict String V) V) := runWith c.step

end ObservableEvaluator

/-! ### verbose printing (metric_evaluator.py:139-141, observable_evaluator.py:191-202)

`if self.verbose is True:` is an IDENTITY test (a truthy `1` / `numpy.True_` prints nothing). The printed line formats
every value with `{v:.6f}`, which RAISES for a value that is not a real number (a `str`, `None`, a tensor with more than
one element, a list): at that moment the record is already appended to `past_values` and `last` is set, the epoch header is
already on stdout, the CSV row is NOT yet written, and the exception propagates out of `on_epoch_end` (later callbacks of
the list and the rest of `fit` do not run). -/

/-- everything one call (or a run) has DONE when it returns or raises: the callback's state as it is then, the chunks
written to stdout in order, and the exception that propagates (if any) -/
structure Effects (S : Type) where
  state : S
  out : List String
  err : Option PyErr

/-- forget the partial effects: the result as the plain state machines report it -/
def Effects.toExcept {S : Type} (r : Effects S) : Except PyErr S :=
  match r.err with
  | none => .ok r.state
  | some e => .error e

/-- `sep.join(parts)` -/
def joinWith (sep : String) : List String → String
  | [] => ""
  | [a] => a
  | a :: rest => a ++ sep ++ joinWith sep rest

/-- one item `f"{k}{mid}{v:.6f}"` of the joined line -/
def fmtItem {V : Type} (fmt : V → Except PyErr String) (mid : String) (kv : String × V) : Except PyErr String :=
  match fmt kv.2 with
  | .ok t => .ok (kv.1 ++ mid ++ t)
  | .error e => .error e

/-- `"\t".join(f"{k}{mid}{v:.6f}" for k, v in d.items())`: the generator is consumed left to right, the first value whose
formatting raises aborts the join. `fmt v` is Python's `format(v, ".6f")` (the text, or the exception). -/
def fmtJoin {V : Type} (fmt : V → Except PyErr String) (mid : String) (d : Dict String V) : Except PyErr String :=
  match mapE (fmtItem fmt mid) d with
  | .ok parts => .ok (joinWith "\t" parts)
  | .error e => .error e

namespace MetricEvaluator
variable {W V : Type}

/-- `on_epoch_end` of a `MetricEvaluator(…, verbose=verbose)` as coded (metric_evaluator.py:129-146), effect by effect:
gate; evaluate; `last`/`past_values` updated; `if self.verbose is True:` print `Epoch: e\t` (no newline), then the joined
`name = value` line (raises if a value cannot be formatted); then the CSV row. -/
def onEpochEndV (c : MetricEvaluator W V) (verbose : PyFlag) (fmt : V → Except PyErr String)
    (s : EvalState V V) (e : Int) (w : W) : Effects (EvalState V V) :=
  match gate e c.period with
  | .error err => ⟨s, [], some err⟩
  | .ok false => ⟨s, [], none⟩
  | .ok true =>
    let vals := c.evalAll w
    let s1 : EvalState V V := { s with last := vals, past := s.past ++ [(e, vals)] }
    let hdr := "Epoch: " ++ toString e ++ "\t"
    let pr : List String × Option PyErr :=
      if verbose.isTrueSingleton then
        match fmtJoin fmt " = " s1.last with
        | .error err => ([hdr], some err)
        | .ok line => ([hdr, line ++ "\n"], none)
      else ([], none)
    match pr.2 with
    | some err => ⟨s1, pr.1, some err⟩
    | none =>
      if c.log then
        match c.logRow e s1.last with
        | .error err => ⟨s1, pr.1, some err⟩
        | .ok row => ⟨{ s1 with log := s1.log ++ [row] }, pr.1, none⟩
      else ⟨s1, pr.1, none⟩

/-- the verbose callback driven through an event stream: effects accumulate, the first exception ends the run -/
def runV (c : MetricEvaluator W V) (verbose : PyFlag) (fmt : V → Except PyErr String) :
    EvalState V V → List (Ev W) → Effects (EvalState V V)
  | s, [] => ⟨s, [], none⟩
  | s, .epochEnd e w :: rest =>
    let r := c.onEpochEndV verbose fmt s e w
    match r.err with
    | some err => ⟨r.state, r.out, some err⟩
    | none => let r2 := runV c verbose fmt r.state rest; ⟨r2.state, r.out ++ r2.out, r2.err⟩
  | s, _ :: rest => runV c verbose fmt s rest

end MetricEvaluator

namespace ObservableEvaluator
variable {W V : Type}

/-- one entry of `partially_formatted` rendered: `"  {k}:\n    " + "\t".join(f"{s}: {sv:.6f}" …)` -/
def verboseItem (fmt : V → Except PyErr String) (od : String × Dict String V) : Except PyErr String :=
  match fmtJoin fmt ": " od.2 with
  | .ok t => .ok ("  " ++ od.1 ++ ":\n    " ++ t)
  | .error e => .error e

/-- the text printed by observable_evaluator.py:192-202 after the header: per observable
`"  {k}:\n    " + "\t".join(f"{s}: {sv:.6f}" …)`, joined by newlines; observables are formatted in dict order and the
first failure aborts before anything but the header is printed. -/
def verboseBody (fmt : V → Except PyErr String) (last : Dict String (Dict String V)) : Except PyErr String :=
  match mapE (verboseItem fmt) last with
  | .ok parts => .ok (joinWith "\n" parts)
  | .error e => .error e

/-- `on_epoch_end` of an `ObservableEvaluator(…, verbose=verbose)` as coded (observable_evaluator.py:184-214). -/
def onEpochEndV (c : ObservableEvaluator W V) (verbose : PyFlag) (fmt : V → Except PyErr String)
    (s : EvalState (Dict String V) V) (e : Int) (w : W) : Effects (EvalState (Dict String V) V) :=
  match gate e c.period with
  | .error err => ⟨s, [], some err⟩
  | .ok false => ⟨s, [], none⟩
  | .ok true =>
    let vals := c.statistics w
    let s1 : EvalState (Dict String V) V := { s with last := vals, past := s.past ++ [(e, vals)] }
    let hdr := "Epoch: " ++ toString e ++ "\n"
    let pr : List String × Option PyErr :=
      if verbose.isTrueSingleton then
        match verboseBody fmt s1.last with
        | .error err => ([hdr], some err)
        | .ok body => ([hdr, body ++ "\n"], none)
      else ([], none)
    match pr.2 with
    | some err => ⟨s1, pr.1, some err⟩
    | none =>
      if c.log then
        match dictWriterRow c.csvFields (rowDict e s1.last) true with
        | .error err => ⟨s1, pr.1, some err⟩
        | .ok row => ⟨{ s1 with log := s1.log ++ [row] }, pr.1, none⟩
      else ⟨s1, pr.1, none⟩

def runV (c : ObservableEvaluator W V) (verbose : PyFlag) (fmt : V → Except PyErr String) :
    EvalState (Dict String V) V → List (Ev W) → Effects (EvalState (Dict String V) V)
  | s, [] => ⟨s, [], none⟩
  | s, .epochEnd e w :: rest =>
    let r := c.onEpochEndV verbose fmt s e w
    match r.err with
    | some err => ⟨r.state, r.out, some err⟩
    | none => let r2 := runV c verbose fmt r.state rest; ⟨r2.state, r.out ++ r2.out, r2.err⟩
  | s, _ :: rest => runV c verbose fmt s rest

end ObservableEvaluator

/-- `statistic[:-1] if statistic.endswith("s") else statistic` (observable_evaluator.py:44) -/
def stripPlural (statistic : String) : String :=
  let cs := statistic.toList
  if cs.getLast? == some 's' then String.ofList cs.dropLast else statistic

/-- `ObservableStatistics.__getattr__`/`__getitem__` (observable_evaluator.py:33-58) on `data`
(the list of statistics dicts of one observable):
singular form first if the FIRST dict has it, else the name as given; `KeyError → AttributeError`. -/
def obsStatGet {V : Type} (data : List (Dict String V)) (statistic : String) : Except PyErr (List V) :=
  let stat := stripPlural statistic
  let useStat : Bool := match data with
    | [] => false
    | d0 :: _ => d0.keys.contains stat
  let key := if useStat then stat else statistic
  match mapE (fun (d : Dict String V) => d.getItem key) data with
  | .ok xs => .ok xs
  | .error _ => .error .AttributeError

/-- `stats.statistic` / `getattr(stats, statistic)` on an `ObservableStatistics` (own names: `data`, dunders) -/
def obsStatGetAttr {V : Type} (own : List String) (data : List (Dict String V)) (statistic : String) :
    Except PyErr (AttrResult (List V)) :=
  pyGetattr own (obsStatGet data) statistic

/-- `evaluator[observable][statistic]` -/
def obsSeries {V : Type} (s : EvalState (Dict String V) V) (observable statistic : String) : Except PyErr (List V) :=
  match s.getItem observable with
  | .error e => .error e
  | .ok data => obsStatGet data statistic

/-! ### ModelSaver -/

/-- what fills the blank of `file_name`: the word "initial" or the epoch -/
inductive FileArg where
  | initial
  | epoch (e : Int)
  deriving DecidableEq, Repr

/-- the `metadata` argument (model_saver.py:68-74): callable / dict / None.
(Anything else leaves the local `metadata` unbound — an `UnboundLocalError`; not representable here.) -/
inductive MetaSpec (W M : Type) where
  | callable (f : W → Int → M)
  | dict (d : M)
  | none

/-- what a written file contains: `nn_state.save(path, metadata)` stores the networks' parameters plus the
metadata (C11); `torch.save(metadata, path)` stores exactly the metadata. -/
inductive FileBody (P M : Type) where
  | full (params : P) (md : M)
  | metaOnly (md : M)
  deriving DecidableEq, Repr

/-- constructor arguments of `ModelSaver` (model_saver.py:47-66) plus the environment:
`file_name = pre + "{}" + post` (a format string with one blank), `emptyMd` is `{}`,
`params w` the parameter snapshot at `w`, `reserved md` says whether `NeuralStateBase.save` refuses the
metadata (a key equal to a network name or `unitary_dict`, neural_state.py:212-222 → `ValueError`). -/
structure ModelSaver (W P M : Type) where
  period : Int
  pre : String
  post : String
  saveInitial : Bool
  metadata : MetaSpec W M
  metadataOnly : Bool
  emptyMd : M
  params : W → P
  reserved : M → Bool

namespace ModelSaver
variable {W P M : Type}

/-- `self.file_name.format(x)` for `x = "initial"` or the epoch -/
def fileName (c : ModelSaver W P M) : FileArg → String
  | .initial => c.pre ++ "initial" ++ c.post
  | .epoch e => c.pre ++ toString e ++ c.post

/-- the metadata selected in `_save` (model_saver.py:69-74) -/
def mdFor (c : ModelSaver W P M) (w : W) (e : Int) : M :=
  match c.metadata with
  | .callable f => f w e
  | .dict d => d
  | .none => c.emptyMd

/-- `_save` (model_saver.py:68-79): one write `(file argument, body)` appended to the write log -/
def save (c : ModelSaver W P M) (writes : List (FileArg × FileBody P M)) (w : W) (e : Int) (arg : FileArg) :
    Except PyErr (List (FileArg × FileBody P M)) :=
  let md := c.mdFor w e
  if c.metadataOnly then .ok (writes ++ [(arg, .metaOnly md)])
  else if c.reserved md then .error .ValueError
  else .ok (writes ++ [(arg, .full (c.params w) md)])

/-- `on_train_start` (model_saver.py:81-84) and `on_epoch_end` (model_saver.py:86-89) -/
def step (c : ModelSaver W P M) (writes : List (FileArg × FileBody P M)) :
    Ev W → Except PyErr (List (FileArg × FileBody P M))
  | .trainStart w => if c.saveInitial then c.save writes w 0 .initial else .ok writes
  | .epochEnd e w =>
    match gate e c.period with
    | .error err => .error err
    | .ok false => .ok writes
    | .ok true => c.save writes w e (.epoch e)
  | _ => .ok writes

def run (c : ModelSaver W P M) :
    List (FileArg × FileBody P M) → List (Ev W) → Except PyErr (List (FileArg × FileBody P M)) := runWith c.step

/-- the content of the file for `arg` after a sequence of writes: the LAST write to that name -/
def readBack (writes : List (FileArg × FileBody P M)) (arg : FileArg) : Option (FileBody P M) :=
  writes.reverse.lookup arg

end ModelSaver

/-! ### Logger -/

/-- `Logger` (logger.py:35-49): `msgGen w e` is `self.msg_gen(nn_state, epoch, **kwargs)`; the state is the
list of messages handed to `logger_fn`. -/
structure Logger (W Msg : Type) where
  period : Int
  msgGen : W → Int → Msg

/-- `Logger._default_msg_gen` (logger.py:42-44) with `kwargsRepr = str(kwargs)` -/
def defaultMsg (kwargsRepr : String) (e : Int) : String := "Epoch " ++ toString e ++ ": " ++ kwargsRepr

namespace Logger
variable {W Msg : Type}

def step (c : Logger W Msg) (out : List Msg) : Ev W → Except PyErr (List Msg)
  | .epochEnd e w =>
    match gate e c.period with
    | .error err => .error err
    | .ok false => .ok out
    | .ok true => .ok (out ++ [c.msgGen w e])
  | _ => .ok out

def run (c : Logger W Msg) : List Msg → List (Ev W) → Except PyErr (List Msg) := runWith c.step

end Logger

/-! ### Logger: constructor fallback and the `logger_fn` branches (extension round 2) -/

/-- what the caller passes as `msg_gen` to `Logger.__init__` (logger.py:37-41) -/
inductive MsgGenArg (W : Type) where
  /-- not passed / `None` -/
  | omitted
  /-- a callable: `f w e` is `msg_gen(nn_state, epoch, **kwargs)` -/
  | callable (f : W → Int → String)
  /-- any object with `callable(obj) == False` (a string, a number, a dict, …) -/
  | nonCallable

/-- what the caller passes as `logger_fn` -/
inductive LoggerFnArg where
  /-- not passed: the builtin `print` (one line on stdout per message) -/
  | print
  /-- a callable receiving the message -/
  | callable
  /-- an object that is not callable (`None`, a string, …): nothing is checked in `__init__`; CALLING it raises `TypeError` -/
  | nonCallable
  deriving DecidableEq, Repr

/-- `Logger.__init__` (logger.py:37-41): `self.msg_gen = msg_gen if callable(msg_gen) else self._default_msg_gen` — a
non-callable `msg_gen` is silently replaced by the default generator, exactly like an omitted one;
`kwargsRepr = str(msg_gen_kwargs)`. -/
def Logger.new {W : Type} (period : Int) (msgGen : MsgGenArg W) (kwargsRepr : String) : Logger W String :=
  ⟨period, match msgGen with
    | .callable f => f
    | .omitted => fun _ e => defaultMsg kwargsRepr e
    | .nonCallable => fun _ e => defaultMsg kwargsRepr e⟩

/-- what a run of a `Logger` leaves behind: the messages handed to a callable `logger_fn`, and the texts given to `print`
(each appears on stdout followed by a newline), both in order -/
structure LogOut where
  handed : List String
  printed : List String
  deriving DecidableEq, Repr

/-- `Logger.on_epoch_end` (logger.py:47-49) with the three kinds of `logger_fn`:
`if epoch % self.period == 0: self.logger_fn(self.msg_gen(nn_state, epoch, **kwargs))` — the message is generated first, then the
call of a non-callable object raises `TypeError` (only at an epoch that passes the gate). -/
def Logger.stepFn {W : Type} (c : Logger W String) (fn : LoggerFnArg) (s : LogOut) : Ev W → Except PyErr LogOut
  | .epochEnd e w =>
    match gate e c.period with
    | .error err => .error err
    | .ok false => .ok s
    | .ok true =>
      let m := c.msgGen w e
      match fn with
      | .print => .ok { s with printed := s.printed ++ [m] }
      | .callable => .ok { s with handed := s.handed ++ [m] }
      | .nonCallable => .error .TypeError
  | _ => .ok s

def Logger.runFn {W : Type} (c : Logger W String) (fn : LoggerFnArg) : LogOut → List (Ev W) → Except PyErr LogOut :=
  runWith (c.stepFn fn)

/-! ### a callback list (CallbackList dispatch in list order, callback.py / fit) -/

/-- one of the four periodic callbacks -/
inductive Callback (W V P M Msg : Type) where
  | metric (c : MetricEvaluator W V)
  | observable (c : ObservableEvaluator W V)
  | saver (c : ModelSaver W P M)
  | logger (c : Logger W Msg)

/-- the state of one callback -/
inductive CbState (V P M Msg : Type) where
  | metric (s : EvalState V V)
  | observable (s : EvalState (Dict String V) V)
  | saver (writes : List (FileArg × FileBody P M))
  | logger (out : List Msg)

variable {W V P M Msg : Type}

/-- one event delivered to one callback (a state of the wrong sort is a `TypeError`; never happens for the
states produced by `Callback.init`) -/
def Callback.step : Callback W V P M Msg → CbState V P M Msg → Ev W → Except PyErr (CbState V P M Msg)
  | .metric c, .metric s, ev => (c.step s ev).map .metric
  | .observable c, .observable s, ev => (c.step s ev).map .observable
  | .saver c, .saver s, ev => (c.step s ev).map .saver
  | .logger c, .logger s, ev => (c.step s ev).map .logger
  | _, _, _ => .error .TypeError

/-- state after construction -/
def Callback.init : Callback W V P M Msg → CbState V P M Msg
  | .metric c => .metric c.init
  | .observable c => .observable c.init
  | .saver _ => .saver []
  | .logger _ => .logger []

/-- one callback alone over a stream -/
def Callback.run (c : Callback W V P M Msg) : CbState V P M Msg → List (Ev W) → Except PyErr (CbState V P M Msg) :=
  runWith c.step

/-- `CallbackList.on_<event>`: every callback, in list order -/
def stepAll (ev : Ev W) : List (Callback W V P M Msg × CbState V P M Msg) →
    Except PyErr (List (Callback W V P M Msg × CbState V P M Msg))
  | [] => .ok []
  | (c, s) :: rest =>
    match c.step s ev with
    | .error e => .error e
    | .ok s' =>
      match stepAll ev rest with
      | .error e => .error e
      | .ok rest' => .ok ((c, s') :: rest')

/-- a whole callback list driven through an event stream -/
def runAll : List (Callback W V P M Msg × CbState V P M Msg) → List (Ev W) →
    Except PyErr (List (Callback W V P M Msg × CbState V P M Msg)) :=
  runWith (fun cs ev => stepAll ev cs)

end QV.Cb
