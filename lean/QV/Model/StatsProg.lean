/-
QV.Model.StatsProg — the sampling loop of `ObservableBase.statistics` / `System.statistics`
(qucumber/observables/observable.py:200-220, system.py:91-114) with the randomness of the sampler made explicit.

`QV.Model.Stats.draws` models the loop over an arbitrary RECORDED sampler (`Env.samp i call` = the tensor the `i`-th call
returned).  Here the `i`-th call `nn_state.sample(k=…, num_samples=c, initial_state=chains, overwrite=True)` is the
probabilistic program `sampleK k chains` of `QV.Model.Prob` (for an RBM state `sampleFrom (r.gibbsStepsB k) (some chains)`,
which is `r.gibbsStepsB k chains`), and the loop is a `Prog` returning the list of chain states in call order:
same recursion, same `k` schedule (`gibbsK`), same threading (`chains` is rebound to what the call returned).
`recEnv` turns one outcome of that program into the recorded sampler that `draws` / `obsStatistics` read.
Only imports other `QV.Model` files.
-/
import QV.Model.Stats
import QV.Model.Prob
namespace QV
namespace Stats
open Prog

variable {α σ : Type}

/-- the sampler calls of `for i in range(num_time_steps)` from iteration `i` on, `rem` iterations left, starting from the
chain states `chains` (a user-provided or previously returned tensor): iteration `i` runs
`chains = nn_state.sample(k = burn_in if i == 0 else steps, initial_state=chains, overwrite=True)` and the per-draw
statistics are taken on the returned `chains`.  Result: the returned states, in call order. -/
def drawsProg (sampleK : Nat → σ → Prog α σ) (burnIn steps : Nat) : (rem i : Nat) → σ → Prog α (List σ)
  | 0, _, _ => ret []
  | rem + 1, i, chains =>
    (sampleK (gibbsK burnIn steps i) chains).bind fun st =>
      (drawsProg sampleK burnIn steps rem (i + 1) st).map fun rest => st :: rest

/-- the recorded sampler of one execution: call number `i` returned `sts[i]` (`dflt` beyond the recording);
`clone` keeps the contents, every state has `c` rows. -/
def recEnv (c : Nat) (sts : List σ) (dflt : σ) : Env σ :=
  ⟨fun i _ => sts.getD i dflt, fun s => s, fun _ => c⟩

end Stats
end QV
