/-
QV.Model.LambdaCb — `LambdaCallback` (qucumber/callbacks/lambda_callback.py:58-97): validation of the six
handler arguments in `__init__`, the default no-op handler, and what a dispatched event invokes on such an
object; `CallbackBase` (qucumber/callbacks/callback.py:19-77): every `on_*` a subclass does not override is `pass`.

A callable is modelled by an identity and the number of parameters `inspect.signature(fn).parameters` reports
for it (every positional, defaulted, keyword-only, `*args` and `**kwargs` parameter counts one; for a bound
method `self` is not counted; for a `functools.partial` the positionally bound parameters are removed).
What the function does when it runs is not modelled here (its only feedback into `fit` is `Req`).
-/
import QV.Model.Train
namespace QV.Train

/-- the six handler slots of a callback (`CallbackBase.on_*`) -/
inductive Slot where
  | trainStart | trainEnd | epochStart | epochEnd | batchStart | batchEnd
  deriving DecidableEq, Repr, Inhabited

/-- `num_params` passed to `_validate_function` for each slot (lambda_callback.py:84-96); it is the number of
arguments `CallbackList.on_*` passes (callback_list.py:60-82): `(rbm)`, `(rbm, epoch)`, `(rbm, epoch, batch)` -/
def Slot.numParams : Slot → Nat
  | .trainStart => 1 | .trainEnd => 1
  | .epochStart => 2 | .epochEnd => 2
  | .batchStart => 3 | .batchEnd => 3

/-- position of the slot in the order `__init__` validates its arguments (lambda_callback.py:84-96) -/
def Slot.idx : Slot → Nat
  | .trainStart => 0 | .trainEnd => 1 | .epochStart => 2 | .epochEnd => 3 | .batchStart => 4 | .batchEnd => 5

/-- the attribute name (`on_train_start`, …) — used in the error messages -/
def Slot.name : Slot → String
  | .trainStart => "on_train_start" | .trainEnd => "on_train_end"
  | .epochStart => "on_epoch_start" | .epochEnd => "on_epoch_end"
  | .batchStart => "on_batch_start" | .batchEnd => "on_batch_end"

/-- the slot `CallbackList` dispatches an event to (callback_list.py:60-82) -/
def Event.slot : Event → Slot
  | .trainStart => .trainStart
  | .trainEnd => .trainEnd
  | .epochStart _ => .epochStart
  | .epochEnd _ => .epochEnd
  | .batchStart _ _ => .batchStart
  | .batchEnd _ _ => .batchEnd

/-- one constructor argument of `LambdaCallback` as Python sees it -/
inductive FnArg where
  /-- `None` (the default) -/
  | none
  /-- a callable with identity `id` for which `len(inspect.signature(fn).parameters) = nparams` -/
  | fn (id : Nat) (nparams : Nat)
  /-- neither `None` nor callable (a string, a number, a list, …) -/
  | notCallable
  deriving DecidableEq, Repr, Inhabited

/-- what sits in a handler slot of a callback object -/
inductive Handler where
  /-- `lambda *args: None` (lambda_callback.py:70) / the inherited `pass` method (callback.py) -/
  | noop
  /-- the user's function `id` -/
  | user (id : Nat)
  deriving DecidableEq, Repr, Inhabited

/-- `LambdaCallback._validate_function(fn, num_params, name)` (lambda_callback.py:58-72): a callable must
have exactly `num_params` parameters (else `ValueError`); `None` becomes the no-op; anything else `TypeError`. -/
def validateFunction (fn : FnArg) (numParams : Nat) : Except PyErr Handler :=
  match fn with
  | .fn id k => if k == numParams then .ok (.user id) else .error .ValueError
  | .none => .ok .noop
  | .notCallable => .error .TypeError

/-- the six handlers of a callback object -/
structure CbObj where
  onTrainStart : Handler
  onTrainEnd : Handler
  onEpochStart : Handler
  onEpochEnd : Handler
  onBatchStart : Handler
  onBatchEnd : Handler
  deriving DecidableEq, Repr, Inhabited

/-- attribute lookup `cb.on_<slot>` -/
def CbObj.get (o : CbObj) : Slot → Handler
  | .trainStart => o.onTrainStart | .trainEnd => o.onTrainEnd
  | .epochStart => o.onEpochStart | .epochEnd => o.onEpochEnd
  | .batchStart => o.onBatchStart | .batchEnd => o.onBatchEnd

/-- one line `self.on_X = self._validate_function(on_X, k, "on_X")`; the exception carries the slot name -/
def validateSlot (a : Slot → FnArg) (s : Slot) : Except (PyErr × Slot) Handler :=
  match validateFunction (a s) s.numParams with
  | .ok h => .ok h
  | .error e => .error (e, s)

/-- `LambdaCallback.__init__` (lambda_callback.py:74-97): the six arguments are validated in this order;
the first failure propagates (no object is constructed). -/
def lambdaInit (a : Slot → FnArg) : Except (PyErr × Slot) CbObj := do
  let h0 ← validateSlot a .trainStart
  let h1 ← validateSlot a .trainEnd
  let h2 ← validateSlot a .epochStart
  let h3 ← validateSlot a .epochEnd
  let h4 ← validateSlot a .batchStart
  let h5 ← validateSlot a .batchEnd
  return { onTrainStart := h0, onTrainEnd := h1, onEpochStart := h2, onEpochEnd := h3,
           onBatchStart := h4, onBatchEnd := h5 }

/-- a `CallbackBase` subclass: the methods it overrides (`some id`) run user code, the others are the
inherited `pass` (callback.py:19-77) -/
def subclassObj (ov : Slot → Option Nat) : CbObj :=
  let h (s : Slot) : Handler := match ov s with | some id => .user id | none => .noop
  { onTrainStart := h .trainStart, onTrainEnd := h .trainEnd, onEpochStart := h .epochStart,
    onEpochEnd := h .epochEnd, onBatchStart := h .batchStart, onBatchEnd := h .batchEnd }

/-- the callback objects of a run: identity ↦ object -/
abbrev Table := Nat → CbObj

/-- does callback `i` run user code for `ev`? -/
def Table.active (T : Table) (i : Nat) (ev : Event) : Bool :=
  match (T i).get ev.slot with
  | .user _ => true
  | .noop => false

/-- `cb.on_<ev>(rbm, …)` on callback `i`: the user function that runs (with the callback identity and the
event, which fixes the arguments `(rbm[, epoch[, batch]])`), or nothing for a no-op handler -/
def Table.invoke (T : Table) (p : Nat × Event) : Option (Nat × Nat × Event) :=
  match (T p.1).get p.2.slot with
  | .user f => some (f, p.1, p.2)
  | .noop => none

/-- user functions invoked during a run, in program order -/
def userCalls (T : Table) (l : List Entry) : List (Nat × Nat × Event) :=
  l.filterMap fun
    | .call i ev _ _ => T.invoke (i, ev)
    | _ => none

/-- the log as user code can observe it: invocations of no-op handlers leave no trace -/
def observe (T : Table) (l : List Entry) : List Entry :=
  l.filter fun
    | .call i ev _ _ => T.active i ev
    | _ => true

/-- the requests that can actually be made: only a handler that runs user code can set the flag -/
def Req.via (T : Table) (R : Req) : Req :=
  { cb := fun i ev => T.active i ev && R.cb i ev, mid := R.mid }

end QV.Train
