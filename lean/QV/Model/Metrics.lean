/-
QV.Model.Metrics — model of `qucumber/utils/training_statistics.py`
(`fidelity`, `NLL`, `_single_basis_KL`, `KL`) together with the pieces of
`torch.distributions.utils` (`clamp_probs`, `probs_to_logits`) and `qucumber/utils/cplx.py`
(`inner_prod`, `absolute_value`) they call.

Conventions.
* A neural state enters as the functions the code calls on it:
  `psi σ` = `nn_state.psi(σ)` (unnormalised), `rho σ σ'` = `nn_state.rho(σ, σ')` (unnormalised),
  `prob σ` = `nn_state.probability(σ, Z)` (ALREADY divided by `Z`), and `Z = nn_state.normalization(space)`.
  The driver instantiates them with `QV.Wave.*` / `QV.Density.*` (C01/C02 models).
* `space` is the generated Hilbert space: row `k` is `row n k` (`spaceBit`, C19), vectors and matrices over it
  are indexed by `k : Nat` (`k < 2^n`).
* A basis is a row of `n` letters (`Vector Char n`, as the `(N, n)` character array `sample_bases`, or a basis
  string); the unitary dictionary is a function `dict : Char → M2 α` (a missing key — `KeyError` — is outside
  the model's domain).  `rotOf` tests the LETTER against `'Z'` exactly as the code does.
* `ε` (`torch.finfo(float64).eps = 2⁻⁵²`) is a parameter `eps` instantiated by the driver.
* `np.linalg.eigvals` is EXTERNAL: `fidelityMixed` takes its result `eig` as an argument; `fidProd` is the matrix
  it is applied to.
* Every public function returns `Except PyErr (Res α)`: the value and the Python KIND of the returned object,
  computed by following the kinds through the statements of the code (`Kind.arith`, `Kind.item`).
-/
import QV.Model.CplxScalar
import QV.Model.Hilbert
import QV.Model.Unitaries
namespace QV
namespace Metrics

/-- the Python type of a returned number: `float`, `numpy.float64`, `torch.Tensor` (0-dim) -/
inductive Kind where
  | pyfloat | npfloat | tensor
  deriving DecidableEq, Repr, Inhabited

def Kind.toString : Kind → String
  | .pyfloat => "float" | .npfloat => "float64" | .tensor => "Tensor"

/-- kind of `a ∘ b` for a binary arithmetic operator (also the augmented forms `+=`, `-=`, `/=`):
a tensor operand wins, then a numpy scalar, else a Python float. -/
def Kind.arith : Kind → Kind → Kind
  | .tensor, _ => .tensor
  | _, .tensor => .tensor
  | .npfloat, _ => .npfloat
  | _, .npfloat => .npfloat
  | .pyfloat, .pyfloat => .pyfloat

/-- `.item()`: defined on tensors and numpy scalars (gives a Python float); a Python float has no such
attribute. -/
def Kind.item : Kind → Except PyErr Kind
  | .tensor => .ok .pyfloat
  | .npfloat => .ok .pyfloat
  | .pyfloat => .error .AttributeError

/-- a returned number with its Python kind -/
structure Res (α : Type) where
  kind : Kind
  val : α

/-- a basis: one dictionary letter per site -/
abbrev Basis (n : Nat) := Vector Char n

/-- `[unitaries[b] for b in basis]` -/
def usOf {α : Type} {n : Nat} (dict : Char → M2 α) (b : Basis n) : Fin n → M2 α := fun s => dict (b.get s)

/-- `basis != "Z"` per site (`np.where(basis != "Z")`) -/
def rotOf {n : Nat} (b : Basis n) : Fin n → Bool := fun s => b.get s != 'Z'

/-- `rot_sites.size != 0` -/
def anyRot {n : Nat} (b : Basis n) : Bool := (List.finRange n).any (rotOf b)

/-- row `k` of `generate_hilbert_space()` as a bit-vector -/
def row (n k : Nat) : Fin n → Bool := fun j => spaceBit n k j

/-! ### KL target plumbing (training_statistics.py:166-175 and the `target[basis]` look-ups) -/

/-- the `target` argument of `KL`: one tensor, or a dict basis ↦ tensor (insertion order) -/
inductive Target (V : Type) (n : Nat) where
  | once (t : V)
  | dict (entries : List (Basis n × V))

/-- where the target of one basis comes from: rotate the single target, or the dict entry as given -/
inductive TargetSrc (V : Type) where
  | rotate (t : V)
  | given (tr : V)

/-- what `KL` is going to loop over -/
inductive Plan (V : Type) (n : Nat) where
  | noBases (t : V)
  | list (items : List (Basis n × TargetSrc V))

/-- `set(bases) == set(target.keys())` -/
def sameSet {n : Nat} (xs ys : List (Basis n)) : Bool :=
  xs.all (fun x => ys.contains x) && ys.all (fun y => xs.contains y)

/-- lines 166-175: a dict target supplies `bases` when none are given, otherwise the key set must equal the
set of bases (`AssertionError`); each loop iteration then looks `target[basis]` up (`KeyError`). -/
def resolve {V : Type} {n : Nat} (target : Target V n) (bases : Option (List (Basis n))) :
    Except PyErr (Plan V n) :=
  match target with
  | .once t =>
    match bases with
    | none => .ok (.noBases t)
    | some bs => .ok (.list (bs.map (fun b => (b, .rotate t))))
  | .dict entries =>
    let keys := entries.map (·.1)
    let look : List (Basis n) → Except PyErr (Plan V n) := fun bs => do
      let items ← bs.mapM (fun b => match entries.lookup b with
        | some v => Except.ok (b, TargetSrc.given v)
        | none => Except.error PyErr.KeyError)
      return .list items
    match bases with
    | none => look keys
    | some bs => if sameSet bs keys then look bs else .error .AssertionError

section
variable {α : Type} [Add α] [Mul α] [Neg α] [Sub α] [Div α] [Zero α] [One α] [Transc α]

/-! ### torch.distributions.utils -/

/-- `clamp_probs`: `probs.clamp(min=eps, max=1 - eps)` -/
def clampProbs (eps x : α) : α := Transc.min (Transc.max x eps) (1 - eps)

/-- `probs_to_logits(probs)` with `is_binary=False`: `log(clamp_probs(probs))` -/
def probsToLogits (eps x : α) : α := Transc.log (clampProbs eps x)

/-! ### cplx.py -/

/-- `cplx.absolute_value`: `real(x * conj(x)).sqrt()` -/
def absVal (z : C α) : α := Transc.sqrt ((C.mul z (C.conj z)).1)

/-- `cplx.absolute_value(x) ** 2` / `.pow_(2)` -/
def absSq (z : C α) : α := absVal z * absVal z

/-- `cplx.inner_prod(x, y)` for two complex vectors of length `N`:
`(Re x·Re y + Im x·Im y,  Re x·Im y − Im x·Re y)` = `Σ conj(x_k) y_k`. -/
def innerProd (N : Nat) (x y : Nat → C α) : C α :=
  (sumFin N (fun k => (x k.val).1 * (y k.val).1) + sumFin N (fun k => (x k.val).2 * (y k.val).2),
   sumFin N (fun k => (x k.val).1 * (y k.val).2) - sumFin N (fun k => (x k.val).2 * (y k.val).1))

/-- left-fold sum of a list (`torch.sum`, `np.sum`: order of accumulation matters for rounding only) -/
def sumList (xs : List α) : α := xs.foldl (fun acc x => acc + x) 0

/-! ### fidelity (training_statistics.py:26-76) -/

/-- wavefunction branch, value: `psi = nn_state.psi(space) / Z.sqrt()`, `F = inner_prod(target, psi)`,
`absolute_value(F).pow_(2)`. -/
def fidelityPure (N : Nat) (target psi : Nat → C α) (Z : α) : α :=
  let s : α := Transc.sqrt Z
  absSq (innerProd N target (fun k => ((psi k).1 / s, (psi k).2 / s)))

/-- wavefunction branch with kind: `....pow_(2).item()` -/
def fidelityPureRes (N : Nat) (target psi : Nat → C α) (Z : α) : Except PyErr (Res α) := do
  let k ← Kind.item .tensor
  return ⟨k, fidelityPure N target psi Z⟩

/-- `np.matmul(target_, rho_rbm_)` with `rho_rbm_ = rho(space, space) / Z`: the argument of the external
`np.linalg.eigvals`. -/
def fidProd (N : Nat) (target rho : Nat → Nat → C α) (Z : α) : Nat → Nat → C α :=
  fun i j => C.sum N (fun k => C.mul (target i k.val) ((rho k.val j).1 / Z, (rho k.val j).2 / Z))

/-- density-matrix branch, value, GIVEN the eigenvalues `eig` returned by `np.linalg.eigvals(prod)`:
`.real`, `np.abs`, `np.sqrt`, `np.sum`, `** 2`. -/
def fidelityMixed (eig : List (C α)) : α :=
  let tr := sumList (eig.map (fun l => Transc.sqrt (Transc.abs l.1)))
  tr * tr

/-- density-matrix branch with kind: `np.sum(...)` is a numpy scalar, `trace ** 2` stays one -/
def fidelityMixedRes (eig : List (C α)) : Except PyErr (Res α) :=
  .ok ⟨Kind.arith .npfloat .pyfloat, fidelityMixed eig⟩

/-! ### KL (training_statistics.py:131-221) -/

/-- `_single_basis_KL(target_probs, nn_probs)` on vectors of length `N` -/
def singleBasisKL (eps : α) (N : Nat) (t p : Nat → α) : α :=
  sumFin N (fun k => t k.val * probsToLogits eps (t k.val))
    - sumFin N (fun k => t k.val * probsToLogits eps (p k.val))

/-- `KL = 0.0; for it in items: KL += f(it); KL /= float(len(items)); return KL.item()`.
An empty list leaves `KL` a Python float and `0.0 / 0.0` raises. -/
def klMean {β : Type} (f : β → α) (items : List β) : Except PyErr (Res α) :=
  let tot : α := items.foldl (fun acc it => acc + f it) 0
  let kAcc : Kind := items.foldl (fun k _ => Kind.arith k .tensor) .pyfloat
  if items.length == 0 then .error .ZeroDivisionError
  else do
    let k ← Kind.item (Kind.arith kAcc .pyfloat)
    return ⟨k, tot / Transc.ofNat items.length⟩

/-- `bases is None` branch: `KL = 0.0; KL += _single_basis_KL(...); return KL.item()` -/
def klNone (eps : α) (N : Nat) (t p : Nat → α) : Except PyErr (Res α) := do
  let k ← Kind.item (Kind.arith .pyfloat .tensor)
  return ⟨k, 0 + singleBasisKL eps N t p⟩

/-- target Born probabilities of a wavefunction target in one basis (lines 190-199):
`|rotate_psi(basis, psi=target)|²`, or `|target[basis]|²` for a dict target -/
def targetProbsPure (n : Nat) (dict : Char → M2 α) (b : Basis n) : TargetSrc (Nat → C α) → Nat → α
  | .rotate t => fun k => absSq (Unitaries.rotatePsi n (usOf dict b) t k)
  | .given tr => fun k => absSq (tr k)

/-- model Born probabilities of a wavefunction state in one basis (lines 197-198):
`|rotate_psi(basis)|² / Z` -/
def nnProbsPure (n : Nat) (dict : Char → M2 α) (psi : (Fin n → Bool) → C α) (Z : α) (b : Basis n) : Nat → α :=
  fun k => absSq (Unitaries.rotatePsi n (usOf dict b) (fun k' => psi (row n k')) k) / Z

/-- the default dictionary `create_dict()` as a lookup by basis letter (the property's alphabet is `X`, `Y`, `Z`) -/
def defaultDict (c : Char) : M2 α :=
  if c == 'X' then Unitaries.dX else if c == 'Y' then Unitaries.dY else Unitaries.dZ

/-- `_unitaries_of(nn_state)` (unitaries.py, after `fix:` 4aa6393 for F10) with no explicit `unitaries` argument:
the state's own `unitary_dict`, or `create_dict()` for a state that carries none (`dict = none`:
`PositiveWaveFunction`). Before the fix the `none` case raised `AttributeError`. -/
def effDict (dict : Option (Char → M2 α)) : Char → M2 α :=
  match dict with
  | some d => d
  | none => defaultDict

@[simp] theorem effDict_some (d : Char → M2 α) : effDict (some d) = d := rfl

/-- the lookup `unitaries[b]` in a Python `dict(str, tensor)` (association list `Unitaries.UDict`, the first entry of a key
is its value) as a total function of the letter (`rotate_psi` unitaries.py:125, `rotate_rho` :156, `_rotate_basis_state`
:173). A letter that is not a key (`KeyError` in the code: glue outside the property's quantifier) reads as `dZ`, which is
what `Unitaries.siteUs` returns on its `ok` path too. -/
def dictFn (d : Unitaries.UDict α) : Char → M2 α := fun c => (d.lookup c).getD Unitaries.dZ

/-- the `unitary_dict` of a `ComplexWaveFunction` / `DensityMatrix` constructed with
`unitary_dict=create_dict(**kw)` (complex_wavefunction.py:80, density_matrix.py:80; `Unitaries.createDict`: the user's
entries override the defaults `X`, `Y`, `Z`), as the letter lookup `KL` / `NLL` perform through `rotate_psi`,
`rotate_rho_probs`, `rotate_psi_inner_prod`. `userDict []` is the default dictionary. -/
def userDict (kw : Unitaries.UDict α) : Char → M2 α := dictFn (Unitaries.createDict kw)

/-- `KL` for a `WaveFunctionBase` state.  `dict = none` models a state WITHOUT a `unitary_dict` attribute
(`PositiveWaveFunction`): `rotate_psi(nn_state, basis, …)` then rotates with the default dictionary (`effDict`). -/
def klPure (eps : α) (n : Nat) (dict : Option (Char → M2 α)) (psi : (Fin n → Bool) → C α)
    (prob : (Fin n → Bool) → α) (Z : α)
    (target : Target (Nat → C α) n) (bases : Option (List (Basis n))) : Except PyErr (Res α) := do
  match (← resolve target bases) with
  | .noBases t => klNone eps (2 ^ n) (fun k => absSq (t k)) (fun k => prob (row n k))
  | .list items =>
    klMean (fun (it : Basis n × TargetSrc (Nat → C α)) =>
      singleBasisKL eps (2 ^ n) (targetProbsPure n (effDict dict) it.1 it.2) (nnProbsPure n (effDict dict) psi Z it.1)) items

/-- an explicit density matrix over `space`, as a function of two basis states
(`rho[:, idx.unsqueeze(1), idx.unsqueeze(0)]` with `idx = _convert_basis_element_to_index(v)`) -/
def matAt (n : Nat) (T : Nat → Nat → C α) : (Fin n → Bool) → (Fin n → Bool) → C α :=
  fun σ σ' => T (basisIndex σ) (basisIndex σ')

/-- target Born probabilities of a density-matrix target in one basis (lines 206-212):
`rotate_rho_probs(basis, space, rho=target)`, or `diagonal(real(target[basis]))` -/
def targetProbsMixed (n : Nat) (dict : Char → M2 α) (b : Basis n) : TargetSrc (Nat → Nat → C α) → Nat → α
  | .rotate T => fun k => Unitaries.rotateRhoProbs n (usOf dict b) (rotOf b) (matAt n T) (row n k)
  | .given Tr => fun k => (Tr k k).1

/-- model Born probabilities of a density-matrix state in one basis (lines 214-215):
`rotate_rho_probs(basis, space) / Z` -/
def nnProbsMixed (n : Nat) (dict : Char → M2 α) (rho : (Fin n → Bool) → (Fin n → Bool) → C α) (Z : α)
    (b : Basis n) : Nat → α :=
  fun k => Unitaries.rotateRhoProbs n (usOf dict b) (rotOf b) rho (row n k) / Z

/-- `KL` for a `DensityMatrix` state (`bases is None`: `torch.diagonal(cplx.real(target))`) -/
def klMixed (eps : α) (n : Nat) (dict : Char → M2 α) (rho : (Fin n → Bool) → (Fin n → Bool) → C α)
    (prob : (Fin n → Bool) → α) (Z : α)
    (target : Target (Nat → Nat → C α) n) (bases : Option (List (Basis n))) : Except PyErr (Res α) := do
  match (← resolve target bases) with
  | .noBases T => klNone eps (2 ^ n) (fun k => (T k k).1) (fun k => prob (row n k))
  | .list items =>
    klMean (fun (it : Basis n × TargetSrc (Nat → Nat → C α)) =>
      singleBasisKL eps (2 ^ n) (targetProbsMixed n dict it.1 it.2) (nnProbsMixed n dict rho Z it.1)) items

/-! ### NLL (training_statistics.py:79-128) -/

/-- `sample_bases is None`: `-torch.mean(probs_to_logits(nn_state.probability(samples, Z))).item()` -/
def nllNone (eps : α) {n : Nat} (prob : (Fin n → Bool) → α) (samples : List (Fin n → Bool)) :
    Except PyErr (Res α) := do
  let k ← Kind.item .tensor
  return ⟨k, -(sumList (samples.map (fun σ => probsToLogits eps (prob σ))) / Transc.ofNat samples.length)⟩

/-- insertion into a list kept in lexicographic order of the letter rows -/
def orderedInsert {n : Nat} (k : Basis n) : List (Basis n) → List (Basis n)
  | [] => [k]
  | x :: xs => if k.toList < x.toList then k :: x :: xs else x :: orderedInsert k xs

/-- `np.unique(sample_bases, axis=0)`: the distinct rows in sorted order -/
def uniqueSorted {n : Nat} (ks : List (Basis n)) : List (Basis n) :=
  ks.foldl (fun acc k => if acc.contains k then acc else orderedInsert k acc) []

/-- probability a wavefunction state assigns to sample `σ` of a group measured in basis `b` (lines 113-124):
rotated groups `|rotate_psi_inner_prod|² / Z`, all-`Z` groups `probability(σ, Z)` -/
def sampleProbPure (n : Nat) (dict : Char → M2 α) (psi : (Fin n → Bool) → C α)
    (prob : (Fin n → Bool) → α) (Z : α) (b : Basis n) (σ : Fin n → Bool) : α :=
  if anyRot b then absSq (Unitaries.rotatePsiInnerProd n (usOf dict b) (rotOf b) psi σ) / Z
  else prob σ

/-- the same for a density-matrix state: `rotate_rho_probs / Z` -/
def sampleProbMixed (n : Nat) (dict : Char → M2 α) (rho : (Fin n → Bool) → (Fin n → Bool) → C α)
    (prob : (Fin n → Bool) → α) (Z : α) (b : Basis n) (σ : Fin n → Bool) : α :=
  if anyRot b then Unitaries.rotateRhoProbs n (usOf dict b) (rotOf b) rho σ / Z
  else prob σ

/-- `sample_bases` given (lines 104-128), for either state type through `p b σ`:
`NLL_ = 0.0; for basis in unique: NLL_ -= torch.sum(logits of that group); return (NLL_ / float(N)).item()`.
No group at all (`N = 0`) leaves `NLL_` a Python float and `0.0 / 0.0` raises. -/
def nllBases (eps : α) {n : Nat} (p : Basis n → (Fin n → Bool) → α)
    (samples : List (Basis n × (Fin n → Bool))) : Except PyErr (Res α) :=
  let keys := uniqueSorted (samples.map (·.1))
  let tot : α := keys.foldl (fun acc key =>
      acc - sumList ((samples.filter (fun s => s.1 == key)).map (fun s => probsToLogits eps (p key s.2)))) 0
  let kAcc : Kind := keys.foldl (fun k _ => Kind.arith k .tensor) .pyfloat
  if samples.length == 0 then .error .ZeroDivisionError
  else do
    let k ← Kind.item (Kind.arith kAcc .pyfloat)
    return ⟨k, tot / Transc.ofNat samples.length⟩

/-- `NLL` for a wavefunction state.  `dict = none` (no `unitary_dict` attribute, `PositiveWaveFunction`):
a group with a rotated site calls `rotate_psi_inner_prod` → `_rotate_basis_state` → `_unitaries_of`, which falls
back to the default dictionary (`effDict`); with all-`Z` groups only, the dictionary is never touched. -/
def nllPure (eps : α) (n : Nat) (dict : Option (Char → M2 α)) (psi : (Fin n → Bool) → C α)
    (prob : (Fin n → Bool) → α) (Z : α)
    (samples : List (Fin n → Bool)) (sampleBases : Option (List (Basis n))) : Except PyErr (Res α) :=
  match sampleBases with
  | none => nllNone eps prob samples
  | some bs =>
    if bs.length != samples.length then .error .IndexError  -- boolean mask `indices == i` of the wrong length
    else nllBases eps (sampleProbPure n (effDict dict) psi prob Z) (bs.zip samples)

/-- `NLL` for a density-matrix state -/
def nllMixed (eps : α) (n : Nat) (dict : Char → M2 α) (rho : (Fin n → Bool) → (Fin n → Bool) → C α)
    (prob : (Fin n → Bool) → α) (Z : α)
    (samples : List (Fin n → Bool)) (sampleBases : Option (List (Basis n))) : Except PyErr (Res α) :=
  match sampleBases with
  | none => nllNone eps prob samples
  | some bs =>
    if bs.length != samples.length then .error .IndexError
    else nllBases eps (sampleProbMixed n dict rho prob Z) (bs.zip samples)

end
end Metrics
end QV
