/-
QV.Model.DataLoad — model of `qucumber/utils/data.py`:
`load_data` (22-57), `load_data_DM` (60-113), `extract_refbasis_samples` (116-133), together with the
part of `np.loadtxt(path, dtype=…, ndmin=…)` those loaders rely on (default `comments='#'`,
`delimiter=None`): lines → comment stripped → whitespace-separated tokens → rows, blank lines skipped,
"number of columns changed" `ValueError`, and `_ensure_ndmin_ndarray` (squeeze of one-row / one-column
tables for `ndmin=0`; `ndmin=1` for `bases_path`; NO squeeze for `ndmin=2`).

The loaders are modelled as they are since fix F18 (`proposed/F18_loadtxt_ndmin.diff`, applied in /repo e29340c): the samples
file and the `tr_bases_path` file are read with `ndmin=2` (always 2-D, shape `(N, n)` also for `N = 1` or `n = 1`);
the target files keep the default `ndmin=0` (a target has `2^n ≥ 2` rows and `≥ 2` columns) and `bases_path`
keeps `ndmin=1` (the word form of tutorial 3: one basis word per line gives a 1-D array of words).

A file is its content as a `List Char` (text mode; the driver converts `String.toList`).
Tokens are `List Char`.  The decimal → float64 parser of numpy is NOT modelled: it is the parameter
`parse : Token → Option ν` (`none` = "could not convert string" `ValueError`); the harness passes the
parsed values of all tokens of a file along with the text.  What IS modelled is that
`dtype="float32"` rounds that double to single precision (`round`, instantiated by the driver with
`roundF32 = Float32.toFloat ∘ Float.toFloat32`; numpy parses to double first and then casts — checked on
a double-rounding witness in `harness/c19.py`) and that `torch.tensor(…, dtype=torch.double)` widens it
back exactly.

Import-free apart from `QV.Model.Hilbert` (for `PyErr`).
-/
import QV.Model.Hilbert
namespace QV
namespace DataLoad

abbrev Token := List Char

/-- characters separating fields when `delimiter=None` (numpy's tokenizer: `Py_UNICODE_ISSPACE`),
ASCII part: space, `\t`, `\x0b`, `\x0c`, `\x1c`–`\x1f`.  (`\n`, `\r` are line ends, see `isNl`;
the non-ASCII Unicode spaces `\x85`, `\xa0`, ` `, … also separate in numpy and are NOT modelled —
files are ASCII here.) -/
def isWs (c : Char) : Bool :=
  c == ' ' || c == '\t' || c == '\x0b' || c == '\x0c' || c == '\x1c' || c == '\x1d' || c == '\x1e' || c == '\x1f'

/-- line terminators of a text-mode file (universal newlines: `\n`, `\r`, `\r\n`; the empty line a `\r\n`
produces here is dropped with the other blank lines). -/
def isNl (c : Char) : Bool := c == '\n' || c == '\r'

/-- `comments='#'`: everything from the first `#` of a line on is ignored. -/
def stripComment (l : List Char) : List Char := l.takeWhile (fun c => !(c == '#'))

/-- `delimiter=None`: fields are maximal runs of non-whitespace. -/
def splitWs (l : List Char) : List Token := (l.splitOnP isWs).filter (fun t => !t.isEmpty)

/-- the tokens of one line -/
def parseLine (l : List Char) : List Token := splitWs (stripComment l)

/-- all non-blank rows of a file, in order (blank / comment-only lines are skipped). -/
def tokenize (cs : List Char) : List (List Token) :=
  ((cs.splitOnP isNl).map parseLine).filter (fun r => !r.isEmpty)

/-- numpy array results of rank ≤ 2 (shape `()`, `(len,)`, `(N, m)`). The empty file gives `vec []`
(shape `(0,)`). The column count of an empty `mat` is not tracked. -/
inductive Arr (τ : Type) where
  | scalar (x : τ)
  | vec (xs : List τ)
  | mat (rows : List (List τ))
  deriving Repr, DecidableEq

def Arr.map {τ υ : Type} (f : τ → υ) : Arr τ → Arr υ
  | .scalar x => .scalar (f x)
  | .vec xs => .vec (xs.map f)
  | .mat rows => .mat (rows.map (·.map f))

/-- `a.shape` -/
def Arr.shape {τ : Type} : Arr τ → List Nat
  | .scalar _ => []
  | .vec xs => [xs.length]
  | .mat rows => [rows.length, (rows.headD []).length]

/-- `_ensure_ndmin_ndarray(arr, ndmin)` applied to a rectangular `(N, m)` table with `N, m ≥ 1`:
`np.squeeze` when `ndim (= 2) > ndmin`, then `np.atleast_1d` when `ndmin = 1` left a 0-d array. -/
def squeeze {τ : Type} (ndmin1 : Bool) : List (List τ) → Arr τ
  | [[x]] => if ndmin1 then .vec [x] else .scalar x
  | [row] => .vec row
  | rows => if rows.all (fun r => r.length == 1) then .vec rows.flatten else .mat rows

/-- shape logic of `np.loadtxt` on the token rows: empty file → shape `(0,)` (numpy only warns);
a row whose length differs from the first row's → `ValueError`; otherwise `squeeze`. -/
def shapeTable {τ : Type} (ndmin1 : Bool) (rows : List (List τ)) : Except PyErr (Arr τ) :=
  match rows with
  | [] => .ok (.vec [])
  | r0 :: rest =>
    if rest.all (fun r => r.length == r0.length) then .ok (squeeze ndmin1 (r0 :: rest))
    else .error .ValueError

/-- `np.loadtxt(path, dtype=str, ndmin=…)` -/
def loadtxtStr (ndmin1 : Bool) (cs : List Char) : Except PyErr (Arr Token) :=
  shapeTable ndmin1 (tokenize cs)

/-- shape logic of `np.loadtxt(…, ndmin=2)` on the token rows: `_ensure_ndmin_ndarray` does not squeeze
(`ndim (= 2) > ndmin` is false), so an `N × m` table keeps its shape `(N, m)` for every `N, m ≥ 1`; the empty file
gives shape `(0, 1)` (`mat []`, the column count of an empty `mat` is not tracked); ragged → `ValueError`. -/
def shapeTable2 {τ : Type} (rows : List (List τ)) : Except PyErr (Arr τ) :=
  match rows with
  | [] => .ok (.mat [])
  | r0 :: rest =>
    if rest.all (fun r => r.length == r0.length) then .ok (.mat (r0 :: rest))
    else .error .ValueError

/-- `np.loadtxt(path, dtype=str, ndmin=2)` (`tr_bases_path` after F18) -/
def loadtxtStr2 (cs : List Char) : Except PyErr (Arr Token) :=
  shapeTable2 (tokenize cs)

/-- convert every token of a row; `none` = numpy's "could not convert string … to float32" -/
def convertRow {ν : Type} (parse : Token → Option ν) (round : ν → ν) : List Token → Except PyErr (List ν)
  | [] => .ok []
  | t :: ts =>
    match parse t with
    | none => .error .ValueError
    | some v =>
      match convertRow parse round ts with
      | .error e => .error e
      | .ok vs => .ok (round v :: vs)

def convertRows {ν : Type} (parse : Token → Option ν) (round : ν → ν) :
    List (List Token) → Except PyErr (List (List ν))
  | [] => .ok []
  | r :: rs =>
    match convertRow parse round r with
    | .error e => .error e
    | .ok v =>
      match convertRows parse round rs with
      | .error e => .error e
      | .ok vs => .ok (v :: vs)

/-- `torch.tensor(np.loadtxt(path, dtype="float32"), dtype=torch.double)`: every token parsed (`parse`),
rounded to single precision (`round`), widened back (exact); both failure kinds are `ValueError`.
Rows are converted as they are read, so a bad token in an earlier row is reported before a later
column-count change; both are `ValueError`, which is all the model distinguishes. -/
def loadtxtNum {ν : Type} (parse : Token → Option ν) (round : ν → ν) (cs : List Char) : Except PyErr (Arr ν) :=
  match convertRows parse round (tokenize cs) with
  | .error e => .error e
  | .ok rows => shapeTable false rows

/-- `torch.tensor(np.loadtxt(path, dtype="float32", ndmin=2), dtype=torch.double)` (the samples file after F18):
as `loadtxtNum`, without the squeeze. -/
def loadtxtNum2 {ν : Type} (parse : Token → Option ν) (round : ν → ν) (cs : List Char) : Except PyErr (Arr ν) :=
  match convertRows parse round (tokenize cs) with
  | .error e => .error e
  | .ok rows => shapeTable2 rows

/-- single-precision rounding of a double, as a double -/
def roundF32 (x : Float) : Float := x.toFloat32.toFloat

/-- one entry of the list the loaders return -/
inductive Item (ν : Type) where
  /-- a real tensor (`samples`) -/
  | num (a : Arr ν)
  /-- a real-pair complex tensor of shape `(2, …)`: `target_psi` / `cplx.make_complex(re, im)` -/
  | cplx (re im : Arr ν)
  /-- a numpy string array (`tr_bases`, `bases`) -/
  | str (a : Arr Token)
  deriving Repr, DecidableEq

/-- `target_psi[0] = data[:, 0]; target_psi[1] = data[:, 1]` (`data.py:44-47`): needs a 2-D table
(`len()` of a 0-d array is a `TypeError`, `[:, 0]` on a 1-D array an `IndexError`); a 2-D table out of
`squeeze` has ≥ 2 columns; columns beyond the second are ignored. -/
def psiColumns {ν : Type} [Inhabited ν] : Arr ν → Except PyErr (Item ν)
  | .scalar _ => .error .TypeError
  | .vec _ => .error .IndexError
  | .mat rows => .ok (.cplx (.vec (rows.map (fun r => r.getD 0 default))) (.vec (rows.map (fun r => r.getD 1 default))))

/-- an optional string table: `if path is not None: data.append(np.loadtxt(path, dtype=str[, ndmin=1]))` -/
def optStr {ν : Type} (ndmin1 : Bool) : Option (List Char) → Except PyErr (List (Item ν))
  | none => .ok []
  | some f =>
    match loadtxtStr ndmin1 f with
    | .error e => .error e
    | .ok a => .ok [Item.str a]

/-- the per-sample bases table: `if tr_bases_path is not None: data.append(np.loadtxt(path, dtype=str, ndmin=2))` -/
def optStr2 {ν : Type} : Option (List Char) → Except PyErr (List (Item ν))
  | none => .ok []
  | some f =>
    match loadtxtStr2 f with
    | .error e => .error e
    | .ok a => .ok [Item.str a]

/-- optional trailing string tables shared by both loaders (`data.py:50-56`, `106-111`):
`tr_bases_path` with `ndmin=2` (F18), then `bases_path` with `ndmin=1`. -/
def loadBases {ν : Type} (trBases bases : Option (List Char)) : Except PyErr (List (Item ν)) :=
  match optStr2 trBases with
  | .error e => .error e
  | .ok l1 =>
    match optStr true bases with
    | .error e => .error e
    | .ok l2 => .ok (l1 ++ l2)

/-- `if tr_psi_path is not None: …` (`data.py:43-48`) -/
def optPsi {ν : Type} [Inhabited ν] (parse : Token → Option ν) (round : ν → ν) :
    Option (List Char) → Except PyErr (List (Item ν))
  | none => .ok []
  | some f =>
    match loadtxtNum parse round f with
    | .error e => .error e
    | .ok t =>
      match psiColumns t with
      | .error e => .error e
      | .ok it => .ok [it]

/-- `load_data(tr_samples_path, tr_psi_path, tr_bases_path, bases_path)`: `[samples, target_psi?, tr_bases?, bases?]`
in this order, files read in this order (so the first failing file determines the error). The samples are read
with `ndmin=2` (F18), the target with the default `ndmin=0`. -/
def loadData {ν : Type} [Inhabited ν] (parse : Token → Option ν) (round : ν → ν)
    (samples : List Char) (psi trBases bases : Option (List Char)) : Except PyErr (List (Item ν)) :=
  match loadtxtNum2 parse round samples with
  | .error e => .error e
  | .ok s =>
    match optPsi parse round psi with
    | .error e => .error e
    | .ok lp =>
      match loadBases trBases bases with
      | .error e => .error e
      | .ok lb => .ok (Item.num s :: lp ++ lb)

/-- an optional numeric table (`mtx_real`, `mtx_imag`) -/
def optNum {ν : Type} (parse : Token → Option ν) (round : ν → ν) :
    Option (List Char) → Except PyErr (Option (Arr ν))
  | none => .ok none
  | some f =>
    match loadtxtNum parse round f with
    | .error e => .error e
    | .ok a => .ok (some a)

/-- `data.py:100-104`: neither part → nothing appended; exactly one →
`ValueError("Must provide a real and imaginary part of target matrix!")`; both →
`cplx.make_complex(re, im)` = `torch.cat((re.unsqueeze(0), im.unsqueeze(0)))`, a `RuntimeError` when the shapes differ. -/
def combineDM {ν : Type} : Option (Arr ν) → Option (Arr ν) → Except PyErr (List (Item ν))
  | none, none => .ok []
  | some re, some im => if re.shape == im.shape then .ok [Item.cplx re im] else .error .RuntimeError
  | _, _ => .error .ValueError

/-- `load_data_DM(tr_samples_path, tr_mtx_real_path, tr_mtx_imag_path, tr_bases_path, bases_path)`:
`[samples, make_complex(real, imag)?, tr_bases?, bases?]`. Real part read first, then the imaginary part,
then the both-or-neither test, then the bases files. -/
def loadDataDM {ν : Type} (parse : Token → Option ν) (round : ν → ν)
    (samples : List Char) (mtxReal mtxImag trBases bases : Option (List Char)) : Except PyErr (List (Item ν)) :=
  match loadtxtNum2 parse round samples with
  | .error e => .error e
  | .ok s =>
    match optNum parse round mtxReal with
    | .error e => .error e
    | .ok re? =>
      match optNum parse round mtxImag with
      | .error e => .error e
      | .ok im? =>
        match combineDM re? im? with
        | .error e => .error e
        | .ok lm =>
          match loadBases trBases bases with
          | .error e => .error e
          | .ok lb => .ok (Item.num s :: lm ++ lb)

/-- the basis letter `"Z"` -/
def zTok : Token := ['Z']

/-- `(train_bases == "Z").all(dim=1)` for one row: every entry is exactly the string `"Z"`. -/
def rowAllZ (r : List Token) : Bool := r.all (fun t => t == zTok)

/-- boolean-mask indexing `x[idx]` along axis 0 (mask and data of equal length). -/
def maskSelect {τ : Type} : List τ → List Bool → List τ
  | x :: xs, b :: bs => if b then x :: maskSelect xs bs else maskSelect xs bs
  | _, _ => []

/-- `extract_refbasis_samples(train_samples, train_bases)` (`data.py:116-133`):
`idx = (train_bases == "Z").all(dim=1)` needs a 2-D bases array (`IndexError` "Dimension out of range"
otherwise); `train_samples[idx]` needs `len(idx) == train_samples.shape[0]` (`IndexError` otherwise, also for
a 0-d `train_samples`). -/
def extractRefbasis {τ : Type} (samples : Arr τ) (bases : Arr Token) : Except PyErr (Arr τ) :=
  match bases with
  | .mat brows =>
    let idx := brows.map rowAllZ
    match samples with
    | .mat rows => if rows.length == idx.length then .ok (.mat (maskSelect rows idx)) else .error .IndexError
    | .vec xs => if xs.length == idx.length then .ok (.vec (maskSelect xs idx)) else .error .IndexError
    | .scalar _ => .error .IndexError
  | _ => .error .IndexError

/-- the harness' file writer (specification side of the round trip): tokens of a row separated by one
space, every row terminated by `\n`. -/
def printTable (rows : List (List Token)) : List Char :=
  (rows.map (fun r => [' '].intercalate r ++ ['\n'])).flatten

end DataLoad
end QV
