/-
QV.Model.InitLaw — the VALUES written by `initialize_parameters` (rbm/binary_rbm.py:48-72,
rbm/purification_rbm.py:81-128) and by the two RBM constructors (binary_rbm.py:27-40,
purification_rbm.py:41-73) as a function of the standard-normal draws that `torch.randn` returns.

`QV.Model.Store` treats the contents of a weight matrix as one opaque token; here the contents are
modelled entry by entry: `torch.randn(rows, cols)` fills a contiguous `rows × cols` tensor in row-major
order with the NEXT `rows * cols` draws of the generator stream, the tensor is divided by
`np.sqrt(num_visible)`, `weights_W` is generated before `weights_U`, the biases are `torch.zeros`, and
`zero_weights=True` replaces `torch.randn` by `torch.zeros` (no draw is consumed).

Import-free (only other model files); polymorphic in the scalar: `Float` in the driver, `ℝ` in the theorems.
Sizes are naturals (`int(num_visible)` of a negative number makes `torch.randn` raise: not modelled).
-/
import QV.Model.Scalar
import QV.Model.Store

namespace QV.InitLaw
open QV.Store (NetKind defaultH defaultA)

/-- the `nn.Parameter`s registered by `initialize_parameters`, in registration order
(`weights`/`weights_W`, [`weights_U`,] `visible_bias`, `hidden_bias`[, `aux_bias`]); matrices as lists of rows.
`U` and `d` are `none` for a `BinaryRBM`. -/
structure Params (α : Type) where
  W : List (List α)
  U : Option (List (List α))
  b : List α
  c : List α
  d : Option (List α)
  deriving Repr

section
variable {α : Type} [Div α] [Zero α] [Transc α]

/-- `np.sqrt(self.num_visible)` (binary_rbm.py:60, purification_rbm.py:97,110) -/
def scale (nv : Nat) : α := Transc.sqrt (Transc.ofNat nv)

/-- a `rows × cols` tensor given entry by entry, as its list of rows (row-major = the order of a contiguous tensor) -/
def tab2 (rows cols : Nat) (f : Nat → Nat → α) : List (List α) :=
  (List.range rows).map (fun i => (List.range cols).map (f i))

/-- `gen_tensor(rows, cols, dtype=torch.double) / np.sqrt(self.num_visible)` with
`gen_tensor = torch.zeros if zero_weights else torch.randn` (binary_rbm.py:51-61, purification_rbm.py:87-98):
`torch.randn` hands out the draws `pos, pos+1, …` of the stream in row-major order and advances the stream by
`rows * cols`; `torch.zeros` consumes nothing.  Result: the matrix and the new stream position. -/
def genMatrix (zeroWeights : Bool) (draws : Nat → α) (pos rows cols nv : Nat) : List (List α) × Nat :=
  if zeroWeights then
    (tab2 rows cols (fun _ _ => (0 : α) / scale nv), pos)
  else
    (tab2 rows cols (fun i j => draws (pos + (i * cols + j)) / scale nv), pos + rows * cols)

/-- `torch.zeros(n, dtype=torch.double)` -/
def zerosVec (n : Nat) : List α := List.replicate n 0

/-- `initialize_parameters(zero_weights)` of a module with size attributes `nv, nh, na`
(binary_rbm.py:48-72: W, b, c;  purification_rbm.py:81-128: W, then U, then b, c, d). -/
def initParams (k : NetKind) (nv nh na : Nat) (zeroWeights : Bool) (draws : Nat → α) (pos : Nat) : Params α × Nat :=
  match k with
  | .binary =>
    let w := genMatrix zeroWeights draws pos nh nv nv
    (⟨w.1, none, zerosVec nv, zerosVec nh, none⟩, w.2)
  | .purif =>
    let w := genMatrix zeroWeights draws pos nh nv nv
    let u := genMatrix zeroWeights draws w.2 na nv nv
    (⟨w.1, some u.1, zerosVec nv, zerosVec nh, some (zerosVec na)⟩, u.2)

/-- resolved size attributes `(num_visible, num_hidden, num_aux)` of
`BinaryRBM(num_visible, num_hidden=None)` (`int(num_hidden) if num_hidden else num_visible`: `None` and `0`) and
`PurificationRBM(num_visible, num_hidden=None, num_aux=None)` (`… is not None else num_visible`, both);
`num_aux` of a `BinaryRBM` does not exist (0 here). -/
def ctorSizes (k : NetKind) (nv : Nat) (nh na : Option Nat) : Nat × Nat × Nat :=
  (nv, defaultH k nv nh, defaultA k nv na)

/-- the constructors: resolve the sizes, then `self.initialize_parameters(zero_weights=zero_weights)`. -/
def construct (k : NetKind) (nv : Nat) (nh na : Option Nat) (zeroWeights : Bool) (draws : Nat → α) (pos : Nat) :
    Params α × Nat :=
  let s := ctorSizes k nv nh na
  initParams k s.1 s.2.1 s.2.2 zeroWeights draws pos

end
end QV.InitLaw
