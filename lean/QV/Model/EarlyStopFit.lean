/-
QV.Model.EarlyStopFit — the stop requests of `QV.Train.fit` (QV/Model/Train.lean: a fixed oracle `Req`, "which
callback sets `nn_state.stop_training = True` while which event is dispatched") DERIVED from an evaluator and an
`EarlyStopping` configuration (QV/Model/EarlyStop.lean), the world tokens of the epochs and the evaluator's earlier
history: the answer to "does the stopper set the flag while `on_epoch_end(e)` is dispatched" is computed from the
evaluations the evaluator holds at that moment (qucumber/callbacks/early_stopping.py:149-154 on top of
metric_evaluator.py / observable_evaluator.py `on_epoch_end`; list order of `callbacks.on_epoch_end`,
callback_list.py:60-82; the epoch loop neural_state.py:598-634).  An `EarlyStopping` acts in `on_epoch_end` only
(every other handler is the no-op inherited from `CallbackBase`, callback.py), so the derived oracle is `false` for the
five other events and between the events of a batch.

Import-free (only QV.Model.*).
-/
import QV.Model.EarlyStop
import QV.Model.Train

namespace QV.Cb

section
variable {W α : Type} [Sub α] [Div α] [Zero α] [BEq α] [LT α] [DecidableLT α] [Transc α]

/-- the evaluator after its `on_epoch_end` has been dispatched for the epochs `eps` in turn (`wof e` = world token of
epoch `e`: the state of the model at the end of that epoch) -/
def evalAfter (ev : AnyEval W α) (wof : Int → W) : List Int → Except PyErr (AnyEval W α)
  | [] => .ok ev
  | e :: rest =>
    match ev.onEpochEnd e (wof e) with
    | .error err => .error err
    | .ok ev' => evalAfter ev' wof rest

/-- does `EarlyStopping.on_epoch_end(nn_state, e)` set `nn_state.stop_training = True` when the evaluator holds `ev`?
(early_stopping.py:149-154 entered with the flag clear; an exception sets nothing) -/
def stopperAsks (es : EarlyStopping α) (ev : AnyEval W α) (e : Int) : Bool :=
  match es.onEpochEnd ev ⟨false, none⟩ e with
  | .ok st => st.stop
  | .error _ => false

/-- does the stopper set the flag during the dispatch of `on_epoch_end(e)` to the list `[evaluator, stopper]`
(`evalFirst`: it sees this epoch's evaluation) or `[stopper, evaluator]` (it does not), the evaluator holding `ev`
BEFORE the dispatch? -/
def asksAt (es : EarlyStopping α) (evalFirst : Bool) (ev : AnyEval W α) (e : Int) (w : W) : Bool :=
  if evalFirst then
    match ev.onEpochEnd e w with
    | .ok ev' => stopperAsks es ev' e
    | .error _ => false
  else stopperAsks es ev e

/-- THE DERIVED STOP REQUEST of epoch `e` in a `fit(starting_epoch = start, …)` whose evaluator holds `ev₀` on entry:
the evaluator's history at the end of epoch `e` is `ev₀` advanced through the epoch-ends `start … e-1` (every epoch
before `e` ran to its end, otherwise `e` is not reached), then the stopper is asked. -/
def stopAsk (es : EarlyStopping α) (evalFirst : Bool) (ev₀ : AnyEval W α) (wof : Int → W) (start e : Int) : Bool :=
  match evalAfter ev₀ wof (Train.epochRange start (e - 1)) with
  | .ok ev => asksAt es evalFirst ev e (wof e)
  | .error _ => false

/-- the request oracle of `QV.Train.fit` for a callback list in which the stopper has identity `stId`:
only the stopper asks, only while an `on_epoch_end` is dispatched, and then according to `stopAsk`. -/
def stopperReq (stId : Nat) (es : EarlyStopping α) (evalFirst : Bool) (ev₀ : AnyEval W α) (wof : Int → W)
    (start : Int) : Train.Req where
  cb := fun i ev =>
    match ev with
    | .epochEnd e => i == stId && stopAsk es evalFirst ev₀ wof start e
    | _ => false
  mid := fun _ _ => false

/-! ### several stop sources -/

/-- does the source set the flag in its `on_epoch_end(e)` when the evaluator holds `ev` (entered with the flag clear)? -/
def srcAsks (src : StopSrc α) (ev : AnyEval W α) (e : Int) : Bool :=
  match src.onEpochEnd ev false none e with
  | .ok st => st.stop
  | .error _ => false

/-- does some source of the list set the flag in its `on_epoch_end(e)`, the evaluator holding `ev`? -/
def srcsAsk (l : List (StopSrc α)) (ev : AnyEval W α) (e : Int) : Bool := l.any (fun src => srcAsks src ev e)

/-- THE DERIVED STOP REQUEST of epoch `e` for the callback list `before ++ [evaluator] ++ after` (`fit` entered at `start`,
the evaluator holding `ev₀`): some source before the evaluator asks on the history of the epoch-ends `start … e-1`, or some
source after it asks on that history extended by this epoch's evaluation. -/
def multiAsk (before after : List (StopSrc α)) (ev₀ : AnyEval W α) (wof : Int → W) (start e : Int) : Bool :=
  match evalAfter ev₀ wof (Train.epochRange start (e - 1)) with
  | .error _ => false
  | .ok evb =>
    srcsAsk before evb e ||
      (match evb.onEpochEnd e (wof e) with
       | .error _ => false
       | .ok eva => srcsAsk after eva e)

/-- the request oracle of `QV.Train.fit` for the callback list `before ++ [evaluator] ++ after`, the identity of a
callback being its POSITION in that list: a source before the evaluator is asked on the history without this epoch's
evaluation, one after it with it; the evaluator itself never asks. -/
def multiReq (before after : List (StopSrc α)) (ev₀ : AnyEval W α) (wof : Int → W) (start : Int) : Train.Req where
  cb := fun i ev =>
    match ev with
    | .epochEnd e =>
      match evalAfter ev₀ wof (Train.epochRange start (e - 1)) with
      | .error _ => false
      | .ok evb =>
        if i < before.length then
          match before[i]? with
          | some src => srcAsks src evb e
          | none => false
        else
          match evb.onEpochEnd e (wof e) with
          | .error _ => false
          | .ok eva =>
            match after[i - before.length - 1]? with
            | some src => decide (before.length < i) && srcAsks src eva e
            | none => false
    | _ => false
  mid := fun _ _ => false

end

end QV.Cb
