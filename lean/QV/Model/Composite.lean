/-
QV.Model.Composite — model of composite observables, qucumber/observables/observable.py:
 * operator overloads `__neg__ __add__ __sub__ __mul__ __radd__ __rsub__ __rmul__`   (lines 57-78)
 * `SumObservable.__init__/apply`                                                     (lines 256-287)
 * `ProdObservable.__init__/apply`                                                    (lines 290-319)
 * `statistics_from_samples` of a composite                                           (lines 223-249)
together with the part of Python's binary-operator dispatch that decides WHICH overload runs.

`Expr` is what a user writes; `build` evaluates it the way Python does (operands left to right, then the
operator), producing either a Python scalar or a built observable object (`Arg`), or the exception raised.
Purely algebraic: only ring-operation classes are needed, so the same definitions run over `Int` and `Float`.
-/
import QV.Model.Hilbert
import QV.Model.Stats
namespace QV
namespace Composite

/-- The Python type of a scalar operand, as far as the code can tell them apart:
`bool`, `int`, `float`, a `float` subclass such as `numpy.float64`, and anything that is neither
`float`/`int` nor an observable (`None`, `str`, `complex`, a tensor, a numpy array, a numpy scalar that is not a
`float` subclass such as `numpy.int64` / `numpy.float32`, a `Fraction`, …). -/
inductive Kind where
  | bool | int | float | npfloat | bad
  deriving DecidableEq, Repr, Inhabited

namespace Kind
/-- `isinstance(x, (float, int))` — `bool` is a subclass of `int`, `numpy.float64` of `float`. -/
def numeric : Kind → Bool
  | .bad => false
  | _ => true

/-- type of the result of Python `+ - *` on two numeric scalars. -/
def arith (a b : Kind) : Kind :=
  if a = .npfloat ∨ b = .npfloat then .npfloat
  else if a = .float ∨ b = .float then .float
  else .int

/-- type of `-x` for a numeric scalar (`-True` is the `int` `-1`). -/
def negK : Kind → Kind
  | .bool => .int
  | k => k

/-- A scalar standing on the LEFT of an observable reaches the reflected method (`__radd__`, …) after the scalar's
own method returned `NotImplemented`. `ObservableBase.__array_ufunc__ = None` makes numpy scalars (and arrays) do
exactly that, so `numpy.float64(c) + obs` hands the numpy scalar ITSELF to `__radd__`, like `obs + numpy.float64(c)`
hands it to `__add__`. (Before that fix numpy treated the observable as an object-array element and re-dispatched
with a converted Python `float`/`int` — accepting `numpy.int64`/`numpy.float32` on the left only, and turning
`ndarray ∘ obs` into an object array of composites.) -/
def reflected : Kind → Kind
  | k => k
end Kind

/-- A user-written expression over leaf observables `leaf i` and scalar literals. -/
inductive Expr (α : Type) where
  | leaf (i : Nat)
  | const (k : Kind) (c : α)
  | neg (e : Expr α)
  | add (a b : Expr α)
  | sub (a b : Expr α)
  | mul (a b : Expr α)
  deriving Repr, Inhabited

mutual
/-- A built observable object: a leaf, `SumObservable(left, right)`, or `ProdObservable` with
`self.left` = the scalar and `self.right` = the observable. -/
inductive Obs (α : Type) where
  | leaf (i : Nat)
  | sum (l r : Arg α)
  | prod (k : Kind) (c : α) (o : Obs α)
/-- A Python value that can be an operand: a scalar of some kind, or an observable. -/
inductive Arg (α : Type) where
  | scal (k : Kind) (c : α)
  | obs (o : Obs α)
end

section build
variable {α : Type} [Add α] [Mul α] [Neg α] [Sub α] [Zero α] [One α]

/-- `isinstance(x, (float, int, ObservableBase))` -/
def argOk : Arg α → Bool
  | .scal k _ => k.numeric
  | .obs _ => true

/-- `SumObservable.__init__(o1, o2)` (observable.py:257-263): two `isinstance` checks, then store. -/
def mkSum (o1 o2 : Arg α) : Except PyErr (Obs α) :=
  if !argOk o1 then .error .TypeError
  else if !argOk o2 then .error .TypeError
  else .ok (.sum o1 o2)

/-- `ProdObservable.__init__(o1, o2)` (observable.py:291-305): the same two checks, then the scalar goes to
`self.left` and the observable to `self.right`; anything else is a `ValueError`. -/
def mkProd (o1 o2 : Arg α) : Except PyErr (Obs α) :=
  if !argOk o1 then .error .TypeError
  else if !argOk o2 then .error .TypeError
  else
    match o1, o2 with
    | .scal k c, .obs o => .ok (.prod k c o)
    | .obs o, .scal k c => .ok (.prod k c o)
    | _, _ => .error .ValueError

/-- `ObservableBase.__neg__`: `ProdObservable(self, -1)` -/
def Obs.neg (self : Obs α) : Except PyErr (Obs α) := mkProd (.obs self) (.scal .int (-1))

/-- Python unary minus on any operand value: a numeric scalar is negated by Python itself, `None`/`str` raise
`TypeError`, an observable runs `__neg__`. -/
def pyNeg : Arg α → Except PyErr (Arg α)
  | .scal k c => if k.numeric then .ok (.scal k.negK (-c)) else .error .TypeError
  | .obs o => match o.neg with
    | .ok r => .ok (.obs r)
    | .error e => .error e

/-- `__add__`: `SumObservable(self, other)` -/
def Obs.add (self : Obs α) (other : Arg α) : Except PyErr (Obs α) := mkSum (.obs self) other
/-- `__sub__`: `SumObservable(self, -other)` — `-other` is evaluated first (and may itself raise). -/
def Obs.sub (self : Obs α) (other : Arg α) : Except PyErr (Obs α) :=
  match pyNeg other with
  | .error e => .error e
  | .ok n => mkSum (.obs self) n
/-- `__mul__`: `ProdObservable(self, other)` -/
def Obs.mul (self : Obs α) (other : Arg α) : Except PyErr (Obs α) := mkProd (.obs self) other
/-- `__radd__`: `SumObservable(other, self)` -/
def Obs.radd (self : Obs α) (other : Arg α) : Except PyErr (Obs α) := mkSum other (.obs self)
/-- `__rsub__`: `SumObservable(other, -self)` -/
def Obs.rsub (self : Obs α) (other : Arg α) : Except PyErr (Obs α) :=
  match self.neg with
  | .error e => .error e
  | .ok n => mkSum other (.obs n)
/-- `__rmul__`: `ProdObservable(other, self)` -/
def Obs.rmul (self : Obs α) (other : Arg α) : Except PyErr (Obs α) := mkProd other (.obs self)

/-- the observable returned by an overload, as a Python value (exceptions propagate) -/
def liftObs (r : Except PyErr (Obs α)) : Except PyErr (Arg α) :=
  match r with
  | .ok o => .ok (.obs o)
  | .error e => .error e

/-- Python `a + b`: observable on the left → `a.__add__(b)`; scalar (or `None`, …) on the left and observable on
the right → the left type's `__add__` does not handle it, so `b.__radd__(a)`; two scalars → plain Python
arithmetic (`TypeError` for a non-numeric one), never reaching the library. -/
def pyAdd : Arg α → Arg α → Except PyErr (Arg α)
  | .obs a, b => liftObs (a.add b)
  | .scal k c, .obs b => liftObs (b.radd (.scal k.reflected c))
  | .scal k c, .scal k' c' =>
    if k.numeric && k'.numeric then .ok (.scal (k.arith k') (c + c')) else .error .TypeError

/-- Python `a - b` (`__sub__` / `__rsub__` / scalar arithmetic). -/
def pySub : Arg α → Arg α → Except PyErr (Arg α)
  | .obs a, b => liftObs (a.sub b)
  | .scal k c, .obs b => liftObs (b.rsub (.scal k.reflected c))
  | .scal k c, .scal k' c' =>
    if k.numeric && k'.numeric then .ok (.scal (k.arith k') (c - c')) else .error .TypeError

/-- Python `a * b` (`__mul__` / `__rmul__` / scalar arithmetic). -/
def pyMul : Arg α → Arg α → Except PyErr (Arg α)
  | .obs a, b => liftObs (a.mul b)
  | .scal k c, .obs b => liftObs (b.rmul (.scal k.reflected c))
  | .scal k c, .scal k' c' =>
    if k.numeric && k'.numeric then .ok (.scal (k.arith k') (c * c')) else .error .TypeError

/-- Evaluate the user's expression as Python does: left operand, right operand, then the operator. -/
def build : Expr α → Except PyErr (Arg α)
  | .leaf i => .ok (.obs (.leaf i))
  | .const k c => .ok (.scal k c)
  | .neg e =>
    match build e with
    | .error err => .error err
    | .ok v => pyNeg v
  | .add a b =>
    match build a with
    | .error err => .error err
    | .ok va => match build b with
      | .error err => .error err
      | .ok vb => pyAdd va vb
  | .sub a b =>
    match build a with
    | .error err => .error err
    | .ok va => match build b with
      | .error err => .error err
      | .ok vb => pySub va vb
  | .mul a b =>
    match build a with
    | .error err => .error err
    | .ok va => match build b with
      | .error err => .error err
      | .ok vb => pyMul va vb

/-- `result += side` when `side` is a scalar (`isinstance(side, (float, int))`), else unchanged. -/
def Arg.addScal (acc : α) : Arg α → α
  | .scal _ c => acc + c
  | .obs _ => acc

mutual
/-- `apply` of a built observable at ONE sample whose leaf values are `vals i`
(`SumObservable.apply`: `result = 0.0; += left scalar; += right scalar; + left.apply; + right.apply`;
`ProdObservable.apply`: `self.left * self.right.apply(...)`). -/
def Obs.apply (vals : Nat → α) : Obs α → α
  | .leaf i => vals i
  | .sum l r => Arg.addObs vals (Arg.addObs vals (Arg.addScal (Arg.addScal 0 l) r) l) r
  | .prod _ c o => c * Obs.apply vals o
/-- `result = result + side.apply(nn_state, samples)` when `side` is an observable, else unchanged. -/
def Arg.addObs (vals : Nat → α) (acc : α) : Arg α → α
  | .scal _ _ => acc
  | .obs o => acc + Obs.apply vals o
end

/-- `apply` on a batch: one value per sample (`batch[s] i` = value of leaf `i` at sample `s`). -/
def Obs.applyBatch (o : Obs α) (batch : List (Nat → α)) : List α := batch.map (fun vals => o.apply vals)

/-- The arithmetic expression itself, evaluated on the per-sample leaf values (the specification side of C16). -/
def eval (vals : Nat → α) : Expr α → α
  | .leaf i => vals i
  | .const _ c => c
  | .neg e => -(eval vals e)
  | .add a b => eval vals a + eval vals b
  | .sub a b => eval vals a - eval vals b
  | .mul a b => eval vals a * eval vals b

/-- `eval` on a batch -/
def evalBatch (e : Expr α) (batch : List (Nat → α)) : List α := batch.map (fun vals => eval vals e)

end build

/-! ### names and symbols (observable.py:38-57 `name` / `symbol`, 59-63 `__str__` / `__repr__`, 65-68 `__neg__`,
274-281 and 315-322 the `name=` / `symbol=` arguments of the two constructors)

Names are the keys of `System.observables` / of the dictionaries `System.statistics` returns (C13), the CSV columns and
attribute names of `ObservableEvaluator` (C17), and the subject of known finding F19 (same-name merge). -/
section names
variable {α : Type} [Add α] [Mul α] [Neg α] [Sub α] [Zero α] [One α]

/-- Python's OWN rendering of a scalar operand: `repr(x)` (used for names) and `str(x)` (used for symbols) of a
`bool` / `int` / `float` / `numpy.float64` with value `c`. The interpreter's, not the library's: a parameter of the
model (the driver instantiates it for integer-valued scalars: `True`, `-3`, `2.0`, `np.float64(2.0)` / `2.0`). -/
structure Render (α : Type) where
  repr : Kind → α → String
  str : Kind → α → String

/-- `repr(c)` (`nm = true`) or `str(c)` (`nm = false`) of a scalar -/
def Render.text (R : Render α) (nm : Bool) (k : Kind) (c : α) : String := if nm then R.repr k c else R.str k c

/-- The identity attributes of an observable object: its class name and the class-level defaults `_name = None`,
`_symbol = None` possibly overwritten through the setters (observable.py:25-26, 45-47, 56-57). -/
structure Ident where
  className : String
  name : Option String
  symbol : Option String
  deriving Repr, DecidableEq

/-- `name` property (observable.py:38-43): `self.__class__.__name__` while `_name is None`, else `_name`. -/
def Ident.getName (i : Ident) : String :=
  match i.name with
  | none => i.className
  | some s => s

/-- `symbol` property (observable.py:49-54): the class name while `_symbol is None`. -/
def Ident.getSymbol (i : Ident) : String :=
  match i.symbol with
  | none => i.className
  | some s => s

/-- `obj.name = new_name` (observable.py:45-47); `None` re-installs the class-name default. -/
def Ident.setName (i : Ident) (s : Option String) : Ident := { i with name := s }
/-- `obj.symbol = new_symbol` (observable.py:56-57) -/
def Ident.setSymbol (i : Ident) (s : Option String) : Ident := { i with symbol := s }

/-- an observable object together with what its `name` and `symbol` properties return -/
structure NObs (α : Type) where
  o : Obs α
  name : String
  symbol : String

/-- a Python operand value with its identity strings -/
inductive NArg (α : Type) where
  | scal (k : Kind) (c : α)
  | obs (n : NObs α)

/-- the operand without the strings (what `build` produces) -/
def NArg.arg : NArg α → Arg α
  | .scal k c => .scal k c
  | .obs n => .obs n.o

/-- `repr(x)` (`nm = true`; `ObservableBase.__repr__` returns `self.name`) / `str(x)` (`nm = false`; `__str__`
returns `self.symbol`) of an operand (observable.py:59-63). -/
def NArg.text (R : Render α) (nm : Bool) : NArg α → String
  | .scal k c => R.text nm k c
  | .obs n => if nm then n.name else n.symbol

/-- `"(" + f(left) + op + f(right) + ")"` unless the caller gave the string (observable.py:274-281, 315-322) -/
def label (R : Render α) (nm : Bool) (op : String) (l r : NArg α) (given : Option String) : String :=
  match given with
  | some s => s
  | none => "(" ++ l.text R nm ++ op ++ r.text R nm ++ ")"

/-- `SumObservable.__init__(o1, o2, name=None, symbol=None)` (observable.py:265-281) -/
def mkSumN (R : Render α) (o1 o2 : NArg α) (name symbol : Option String) : Except PyErr (NObs α) :=
  if !argOk o1.arg then .error .TypeError
  else if !argOk o2.arg then .error .TypeError
  else .ok ⟨.sum o1.arg o2.arg, label R true " + " o1 o2 name, label R false " + " o1 o2 symbol⟩

/-- `ProdObservable.__init__(o1, o2, name=None, symbol=None)` (observable.py:299-322): the strings are built from
`self.left` (the scalar) and `self.right` (the observable), whichever order the caller used. -/
def mkProdN (R : Render α) (o1 o2 : NArg α) (name symbol : Option String) : Except PyErr (NObs α) :=
  if !argOk o1.arg then .error .TypeError
  else if !argOk o2.arg then .error .TypeError
  else
    match o1, o2 with
    | .scal k c, .obs n =>
      .ok ⟨.prod k c n.o, label R true " * " (.scal k c) (.obs n) name, label R false " * " (.scal k c) (.obs n) symbol⟩
    | .obs n, .scal k c =>
      .ok ⟨.prod k c n.o, label R true " * " (.scal k c) (.obs n) name, label R false " * " (.scal k c) (.obs n) symbol⟩
    | _, _ => .error .ValueError

/-- `__neg__` (observable.py:65-68): `ProdObservable(self, -1, name="-" + self.name, symbol="-" + self.symbol)` -/
def NObs.neg (R : Render α) (self : NObs α) : Except PyErr (NObs α) :=
  mkProdN R (.obs self) (.scal .int (-1)) (some ("-" ++ self.name)) (some ("-" ++ self.symbol))

/-- lift a constructor result to an operand value -/
def liftN (r : Except PyErr (NObs α)) : Except PyErr (NArg α) :=
  match r with
  | .ok n => .ok (.obs n)
  | .error e => .error e

/-- Python unary minus on an operand carrying its strings (cf. `pyNeg`) -/
def pyNegN (R : Render α) : NArg α → Except PyErr (NArg α)
  | .scal k c => if k.numeric then .ok (.scal k.negK (-c)) else .error .TypeError
  | .obs n => liftN (n.neg R)

/-- Python `a + b` (`__add__` / `__radd__`, cf. `pyAdd`) -/
def pyAddN (R : Render α) : NArg α → NArg α → Except PyErr (NArg α)
  | .obs a, b => liftN (mkSumN R (.obs a) b none none)
  | .scal k c, .obs b => liftN (mkSumN R (.scal k.reflected c) (.obs b) none none)
  | .scal k c, .scal k' c' =>
    if k.numeric && k'.numeric then .ok (.scal (k.arith k') (c + c')) else .error .TypeError

/-- Python `a - b` (`__sub__`: `SumObservable(self, -other)`; `__rsub__`: `SumObservable(other, -self)`, cf. `pySub`) -/
def pySubN (R : Render α) : NArg α → NArg α → Except PyErr (NArg α)
  | .obs a, b =>
    match pyNegN R b with
    | .error e => .error e
    | .ok nb => liftN (mkSumN R (.obs a) nb none none)
  | .scal k c, .obs b =>
    match b.neg R with
    | .error e => .error e
    | .ok nb => liftN (mkSumN R (.scal k.reflected c) (.obs nb) none none)
  | .scal k c, .scal k' c' =>
    if k.numeric && k'.numeric then .ok (.scal (k.arith k') (c - c')) else .error .TypeError

/-- Python `a * b` (`__mul__` / `__rmul__`, cf. `pyMul`) -/
def pyMulN (R : Render α) : NArg α → NArg α → Except PyErr (NArg α)
  | .obs a, b => liftN (mkProdN R (.obs a) b none none)
  | .scal k c, .obs b => liftN (mkProdN R (.scal k.reflected c) (.obs b) none none)
  | .scal k c, .scal k' c' =>
    if k.numeric && k'.numeric then .ok (.scal (k.arith k') (c * c')) else .error .TypeError

/-- `build` with the identity strings: leaf `i` is an object whose attributes are `ids i`. -/
def buildN (R : Render α) (ids : Nat → Ident) : Expr α → Except PyErr (NArg α)
  | .leaf i => .ok (.obs ⟨.leaf i, (ids i).getName, (ids i).getSymbol⟩)
  | .const k c => .ok (.scal k c)
  | .neg e =>
    match buildN R ids e with
    | .error err => .error err
    | .ok v => pyNegN R v
  | .add a b =>
    match buildN R ids a with
    | .error err => .error err
    | .ok va => match buildN R ids b with
      | .error err => .error err
      | .ok vb => pyAddN R va vb
  | .sub a b =>
    match buildN R ids a with
    | .error err => .error err
    | .ok va => match buildN R ids b with
      | .error err => .error err
      | .ok vb => pySubN R va vb
  | .mul a b =>
    match buildN R ids a with
    | .error err => .error err
    | .ok va => match buildN R ids b with
      | .error err => .error err
      | .ok vb => pyMulN R va vb

/-- does the expression denote a scalar (no leaf in it)? -/
def Expr.isScalar : Expr α → Bool
  | .leaf _ => false
  | .const _ _ => true
  | .neg e => e.isScalar
  | .add a b => a.isScalar && b.isScalar
  | .sub a b => a.isScalar && b.isScalar
  | .mul a b => a.isScalar && b.isScalar

/-- Python's rendering of the number a scalar sub-expression evaluates to (the interpreter folds `2 + 3` before the
library sees it); `""` if the sub-expression is refused. -/
def scalText (R : Render α) (nm : Bool) (e : Expr α) : String :=
  match build e with
  | .ok (.scal k c) => R.text nm k c
  | _ => ""

/-- THE SPECIFICATION of names (`nm = true`) and symbols (`nm = false`) as a function of the expression tree:
a scalar sub-expression reads as Python prints its value; a leaf reads as its `name` / `symbol`; `-e` reads `-E`;
`a + b` reads `(A + B)`; `a - b` reads `(A + -B)` (the negated number when `b` is a scalar); a product reads
`(c * E)` with the scalar first whichever side it was written on. -/
def exprText (R : Render α) (ids : Nat → Ident) (nm : Bool) : Expr α → String
  | .leaf i => if nm then (ids i).getName else (ids i).getSymbol
  | .const k c => R.text nm k c
  | .neg e => if e.isScalar then scalText R nm (.neg e) else "-" ++ exprText R ids nm e
  | .add a b =>
    if a.isScalar && b.isScalar then scalText R nm (.add a b)
    else "(" ++ exprText R ids nm a ++ " + " ++ exprText R ids nm b ++ ")"
  | .sub a b =>
    if a.isScalar && b.isScalar then scalText R nm (.sub a b)
    else "(" ++ exprText R ids nm a ++ " + " ++
      (if b.isScalar then scalText R nm (.neg b) else "-" ++ exprText R ids nm b) ++ ")"
  | .mul a b =>
    if a.isScalar && b.isScalar then scalText R nm (.mul a b)
    else if a.isScalar then "(" ++ exprText R ids nm a ++ " * " ++ exprText R ids nm b ++ ")"
    else "(" ++ exprText R ids nm b ++ " * " ++ exprText R ids nm a ++ ")"

end names

section stats
variable {α : Type} [Add α] [Mul α] [Neg α] [Sub α] [Div α] [Zero α] [One α] [Transc α]

/-- `statistics_from_samples` of a built observable: the shared `Stats.fromSamples` of its per-sample values. -/
def Obs.statisticsFromSamples (o : Obs α) (batch : List (Nat → α)) : Except PyErr (Stats.Stat α) :=
  Stats.fromSamples (o.applyBatch batch)

/-- `statistics(nn_state, num_samples, …)` of a built observable: the shared `Stats.obsStatistics` (chunked draws
merged by `_update_statistics`) of its per-sample values on every drawn chain state; `leaves st` are the per-chain
leaf values on the chain states `st`. -/
def Obs.statistics {σ : Type} (o : Obs α) (env : Stats.Env σ) (leaves : σ → List (Nat → α)) (a : Stats.Args σ) :
    Except PyErr (Stats.Stat α × List (Stats.SampleCall σ)) :=
  Stats.obsStatistics env (fun st => o.applyBatch (leaves st)) a

end stats
end Composite
end QV
