/-
QV.Model.Composite — model of composite observables, qucumber/observables/observable.py:
 * operator overloads `__neg__ __add__ __sub__ __mul__ __radd__ __rsub__ __rmul__`   (lines 57-78)
 * `SumObservable.__init__/apply`                                                     (lines 256-287)
 * `ProdObservable.__init__/apply`                                                    (lines 290-319)
 * `statistics_from_samples` of a composite                                           (lines 223-249)
together with the part of Python's binary-operator dispatch that decides WHICH overload runs.

`Expr` is what a user writes; `build` evaluates it the way Python does (operands left to right, then the
operator), producing either a Python scalar or a built observable object (`Arg`), or the exception raised.
Purely algebraic: only ring-operation classes are needed, so the same definitions run over `Int` and `Float`.
-/
import QV.Model.Hilbert
import QV.Model.Stats
namespace QV
namespace Composite

/-- The Python type of a scalar operand, as far as the code can tell them apart:
`bool`, `int`, `float`, a `float` subclass such as `numpy.float64`, and anything that is neither
`float`/`int` nor an observable (`None`, `str`, `complex`, a tensor, a numpy array, a numpy scalar that is not a
`float` subclass such as `numpy.int64` / `numpy.float32`, a `Fraction`, …). -/
inductive Kind where
  | bool | int | float | npfloat | bad
  deriving DecidableEq, Repr, Inhabited

namespace Kind
/-- `isinstance(x, (float, int))` — `bool` is a subclass of `int`, `numpy.float64` of `float`. -/
def numeric : Kind → Bool
  | .bad => false
  | _ => true

/-- type of the result of Python `+ - *` on two numeric scalars. -/
def arith (a b : Kind) : Kind :=
  if a = .npfloat ∨ b = .npfloat then .npfloat
  else if a = .float ∨ b = .float then .float
  else .int

/-- type of `-x` for a numeric scalar (`-True` is the `int` `-1`). -/
def negK : Kind → Kind
  | .bool => .int
  | k => k

/-- A scalar standing on the LEFT of an observable reaches the reflected method (`__radd__`, …) after the scalar's
own method returned `NotImplemented`. `ObservableBase.__array_ufunc__ = None` makes numpy scalars (and arrays) do
exactly that, so `numpy.float64(c) + obs` hands the numpy scalar ITSELF to `__radd__`, like `obs + numpy.float64(c)`
hands it to `__add__`. (Before that fix numpy treated the observable as an object-array element and re-dispatched
with a converted Python `float`/`int` — accepting `numpy.int64`/`numpy.float32` on the left only, and turning
`ndarray ∘ obs` into an object array of composites.) -/
def reflected : Kind → Kind
  | k => k
end Kind

/-- A user-written expression over leaf observables `leaf i` and scalar literals. -/
inductive Expr (α : Type) where
  | leaf (i : Nat)
  | const (k : Kind) (c : α)
  | neg (e : Expr α)
  | add (a b : Expr α)
  | sub (a b : Expr α)
  | mul (a b : Expr α)
  deriving Repr, Inhabited

mutual
/-- A built observable object: a leaf, `SumObservable(left, right)`, or `ProdObservable` with
`self.left` = the scalar and `self.right` = the observable. -/
inductive Obs (α : Type) where
  | leaf (i : Nat)
  | sum (l r : Arg α)
  | prod (k : Kind) (c : α) (o : Obs α)
/-- A Python value that can be an operand: a scalar of some kind, or an observable. -/
inductive Arg (α : Type) where
  | scal (k : Kind) (c : α)
  | obs (o : Obs α)
end

section build
variable {α : Type} [Add α] [Mul α] [Neg α] [Sub α] [Zero α] [One α]

/-- `isinstance(x, (float, int, ObservableBase))` -/
def argOk : Arg α → Bool
  | .scal k _ => k.numeric
  | .obs _ => true

/-- `SumObservable.__init__(o1, o2)` (observable.py:257-263): two `isinstance` checks, then store. -/
def mkSum (o1 o2 : Arg α) : Except PyErr (Obs α) :=
  if !argOk o1 then .error .TypeError
  else if !argOk o2 then .error .TypeError
  else .ok (.sum o1 o2)

/-- `ProdObservable.__init__(o1, o2)` (observable.py:291-305): the same two checks, then the scalar goes to
`self.left` and the observable to `self.right`; anything else is a `ValueError`. -/
def mkProd (o1 o2 : Arg α) : Except PyErr (Obs α) :=
  if !argOk o1 then .error .TypeError
  else if !argOk o2 then .error .TypeError
  else
    match o1, o2 with
    | .scal k c, .obs o => .ok (.prod k c o)
    | .obs o, .scal k c => .ok (.prod k c o)
    | _, _ => .error .ValueError

/-- `ObservableBase.__neg__`: `ProdObservable(self, -1)` -/
def Obs.neg (self : Obs α) : Except PyErr (Obs α) := mkProd (.obs self) (.scal .int (-1))

/-- Python unary minus on any operand value: a numeric scalar is negated by Python itself, `None`/`str` raise
`TypeError`, an observable runs `__neg__`. -/
def pyNeg : Arg α → Except PyErr (Arg α)
  | .scal k c => if k.numeric then .ok (.scal k.negK (-c)) else .error .TypeError
  | .obs o => match o.neg with
    | .ok r => .ok (.obs r)
    | .error e => .error e

/-- `__add__`: `SumObservable(self, other)` -/
def Obs.add (self : Obs α) (other : Arg α) : Except PyErr (Obs α) := mkSum (.obs self) other
/-- `__sub__`: `SumObservable(self, -other)` — `-other` is evaluated first (and may itself raise). -/
def Obs.sub (self : Obs α) (other : Arg α) : Except PyErr (Obs α) :=
  match pyNeg other with
  | .error e => .error e
  | .ok n => mkSum (.obs self) n
/-- `__mul__`: `ProdObservable(self, other)` -/
def Obs.mul (self : Obs α) (other : Arg α) : Except PyErr (Obs α) := mkProd (.obs self) other
/-- `__radd__`: `SumObservable(other, self)` -/
def Obs.radd (self : Obs α) (other : Arg α) : Except PyErr (Obs α) := mkSum other (.obs self)
/-- `__rsub__`: `SumObservable(other, -self)` -/
def Obs.rsub (self : Obs α) (other : Arg α) : Except PyErr (Obs α) :=
  match self.neg with
  | .error e => .error e
  | .ok n => mkSum other (.obs n)
/-- `__rmul__`: `ProdObservable(other, self)` -/
def Obs.rmul (self : Obs α) (other : Arg α) : Except PyErr (Obs α) := mkProd other (.obs self)

/-- the observable returned by an overload, as a Python value (exceptions propagate) -/
def liftObs (r : Except PyErr (Obs α)) : Except PyErr (Arg α) :=
  match r with
  | .ok o => .ok (.obs o)
  | .error e => .error e

/-- Python `a + b`: observable on the left → `a.__add__(b)`; scalar (or `None`, …) on the left and observable on
the right → the left type's `__add__` does not handle it, so `b.__radd__(a)`; two scalars → plain Python
arithmetic (`TypeError` for a non-numeric one), never reaching the library. -/
def pyAdd : Arg α → Arg α → Except PyErr (Arg α)
  | .obs a, b => liftObs (a.add b)
  | .scal k c, .obs b => liftObs (b.radd (.scal k.reflected c))
  | .scal k c, .scal k' c' =>
    if k.numeric && k'.numeric then .ok (.scal (k.arith k') (c + c')) else .error .TypeError

/-- Python `a - b` (`__sub__` / `__rsub__` / scalar arithmetic). -/
def pySub : Arg α → Arg α → Except PyErr (Arg α)
  | .obs a, b => liftObs (a.sub b)
  | .scal k c, .obs b => liftObs (b.rsub (.scal k.reflected c))
  | .scal k c, .scal k' c' =>
    if k.numeric && k'.numeric then .ok (.scal (k.arith k') (c - c')) else .error .TypeError

/-- Python `a * b` (`__mul__` / `__rmul__` / scalar arithmetic). -/
def pyMul : Arg α → Arg α → Except PyErr (Arg α)
  | .obs a, b => liftObs (a.mul b)
  | .scal k c, .obs b => liftObs (b.rmul (.scal k.reflected c))
  | .scal k c, .scal k' c' =>
    if k.numeric && k'.numeric then .ok (.scal (k.arith k') (c * c')) else .error .TypeError

/-- Evaluate the user's expression as Python does: left operand, right operand, then the operator. -/
def build : Expr α → Except PyErr (Arg α)
  | .leaf i => .ok (.obs (.leaf i))
  | .const k c => .ok (.scal k c)
  | .neg e =>
    match build e with
    | .error err => .error err
    | .ok v => pyNeg v
  | .add a b =>
    match build a with
    | .error err => .error err
    | .ok va => match build b with
      | .error err => .error err
      | .ok vb => pyAdd va vb
  | .sub a b =>
    match build a with
    | .error err => .error err
    | .ok va => match build b with
      | .error err => .error err
      | .ok vb => pySub va vb
  | .mul a b =>
    match build a with
    | .error err => .error err
    | .ok va => match build b with
      | .error err => .error err
      | .ok vb => pyMul va vb

/-- `result += side` when `side` is a scalar (`isinstance(side, (float, int))`), else unchanged. -/
def Arg.addScal (acc : α) : Arg α → α
  | .scal _ c => acc + c
  | .obs _ => acc

mutual
/-- `apply` of a built observable at ONE sample whose leaf values are `vals i`
(`SumObservable.apply`: `result = 0.0; += left scalar; += right scalar; + left.apply; + right.apply`;
`ProdObservable.apply`: `self.left * self.right.apply(...)`). -/
def Obs.apply (vals : Nat → α) : Obs α → α
  | .leaf i => vals i
  | .sum l r => Arg.addObs vals (Arg.addObs vals (Arg.addScal (Arg.addScal 0 l) r) l) r
  | .prod _ c o => c * Obs.apply vals o
/-- `result = result + side.apply(nn_state, samples)` when `side` is an observable, else unchanged. -/
def Arg.addObs (vals : Nat → α) (acc : α) : Arg α → α
  | .scal _ _ => acc
  | .obs o => acc + Obs.apply vals o
end

/-- `apply` on a batch: one value per sample (`batch[s] i` = value of leaf `i` at sample `s`). -/
def Obs.applyBatch (o : Obs α) (batch : List (Nat → α)) : List α := batch.map (fun vals => o.apply vals)

/-- The arithmetic expression itself, evaluated on the per-sample leaf values (the specification side of C16). -/
def eval (vals : Nat → α) : Expr α → α
  | .leaf i => vals i
  | .const _ c => c
  | .neg e => -(eval vals e)
  | .add a b => eval vals a + eval vals b
  | .sub a b => eval vals a - eval vals b
  | .mul a b => eval vals a * eval vals b

/-- `eval` on a batch -/
def evalBatch (e : Expr α) (batch : List (Nat → α)) : List α := batch.map (fun vals => eval vals e)

end build

section stats
variable {α : Type} [Add α] [Mul α] [Neg α] [Sub α] [Div α] [Zero α] [One α] [Transc α]

/-- `statistics_from_samples` of a built observable: the shared `Stats.fromSamples` of its per-sample values. -/
def Obs.statisticsFromSamples (o : Obs α) (batch : List (Nat → α)) : Except PyErr (Stats.Stat α) :=
  Stats.fromSamples (o.applyBatch batch)

/-- `statistics(nn_state, num_samples, …)` of a built observable: the shared `Stats.obsStatistics` (chunked draws
merged by `_update_statistics`) of its per-sample values on every drawn chain state; `leaves st` are the per-chain
leaf values on the chain states `st`. -/
def Obs.statistics {σ : Type} (o : Obs α) (env : Stats.Env σ) (leaves : σ → List (Nat → α)) (a : Stats.Args σ) :
    Except PyErr (Stats.Stat α × List (Stats.SampleCall σ)) :=
  Stats.obsStatistics env (fun st => o.applyBatch (leaves st)) a

end stats
end Composite
end QV
