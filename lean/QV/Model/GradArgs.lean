/-
QV.Model.GradArgs — extension round 2 for C03: the code AROUND the per-pair / per-sample gradient formulas.

(1) `NeuralStateBase.gradient(samples, bases)` ARGUMENT NORMALISATION (qucumber/nn_states/neural_state.py:339-356):

        if bases is None:  grad[0] = self.rbm_am.effective_energy_gradient(samples)
        else:
            if samples.dim() < 2:
                samples = samples.unsqueeze(0)
                bases = np.array(list(bases)).reshape(1, -1)
            bases = np.asarray(bases)
            if bases.ndim == 1:                                    # fix F22 (commit bfb5532): list[str]
                bases = np.array([list(b) for b in bases]).reshape(len(bases), -1)
            unique_bases, indices = np.unique(bases, axis=0, return_inverse=True)
            … for each unique row: samples[indices == i, :]       # boolean mask: one row of `bases` per sample
              rot_sites = np.where(basis != "Z")[0]  →  rotated_gradient(basis, …)   # looks the letters up in the dictionary

(2) batch LAYOUT of `PurificationRBM.gamma_grad` (purification_rbm.py:398-451) and `DensityMatrix.pi_grad`
(density_matrix.py:160-244): `unsqueezed`, the `expand` axes, `batch_sizes`, the `.view(*batch_sizes, -1)` of the matrix
blocks, the order of `torch.cat([W, U, b, c, d], dim=-1)`, the `unsqueezed and not expand` squeeze.
-/
import QV.Model.Grads
import QV.Model.CallShape
namespace QV
namespace Grads

/-! ### (1) call forms of `bases` -/

/-- one ENTRY of a numpy string array (`'<U1'` for letters, longer for whole basis strings) -/
abbrev Letter := List Char

/-- the forms of the `bases` argument of `gradient` that are distinguished by the code -/
inductive BasesArg where
  /-- `bases=None` -/
  | none
  /-- one Python `str` (the basis of a 1-D sample) -/
  | str (s : List Char)
  /-- `list` / `tuple` / 1-D `ndarray` of strings (one basis string per sample; for a 1-D sample: one LETTER per entry) -/
  | seq1 (l : List Letter)
  /-- list of lists / 2-D `ndarray` of strings (one letter per entry) -/
  | seq2 (l : List (List Letter))

/-- the `samples` argument: a 1-D tensor `(n,)` or a 2-D tensor `(B, n)` -/
inductive SamplesArg (n : Nat) where
  | one (σ : Fin n → Bool)
  | batch (σs : List (Fin n → Bool))

namespace SamplesArg
variable {n : Nat}
/-- `samples.dim() < 2` -/
def isOne : SamplesArg n → Bool
  | .one _ => true
  | .batch _ => false
/-- the rows after `samples.unsqueeze(0)` -/
def rows : SamplesArg n → List (Fin n → Bool)
  | .one σ => [σ]
  | .batch σs => σs
end SamplesArg

/-- a string as a row of one-letter entries (`list(b)`) -/
def lettersOf (s : List Char) : List Letter := s.map (fun c => [c])

/-- `np.array(rows)` of a list of lists: `ValueError` ("inhomogeneous shape") when the rows have different lengths -/
def rect (rows : List (List Letter)) : Except PyErr (List (List Letter)) :=
  match rows with
  | [] => .ok []
  | r :: rs => if rs.all (fun x => x.length == r.length) then .ok (r :: rs) else .error .ValueError

/-- lines 347-354: the 2-D array of entries that `np.unique(bases, axis=0)` receives.
1-D sample: `np.array(list(bases)).reshape(1, -1)` — ONE row whatever the nesting (`list(None)`: `TypeError`).
Batch: a 0-d array (a `str`, `None`) makes `np.unique(…, axis=0)` raise; a 1-D array is expanded string by string
(`reshape(0, -1)` of an empty one and ragged strings: `ValueError`); a 2-D array is taken as it is. -/
def toArray (b : BasesArg) (oneD : Bool) : Except PyErr (List (List Letter)) :=
  if oneD then
    match b with
    | .none => .error .TypeError
    | .str s => .ok [lettersOf s]
    | .seq1 l => .ok [l]
    | .seq2 l => match rect l with
      | .ok r => .ok [r.flatten]
      | .error e => .error e
  else
    match b with
    | .none => .error .ValueError
    | .str _ => .error .ValueError
    | .seq1 [] => .error .ValueError
    | .seq1 (s :: l) => rect ((s :: l).map lettersOf)
    | .seq2 [] => .error .ValueError
    | .seq2 (r :: l) => rect (r :: l)

/-- `unitaries[letter]` succeeds: the entry is a one-letter string that is a key of the dictionary -/
def isKey (keys : List Char) (e : Letter) : Bool :=
  match e with
  | [c] => keys.contains c
  | _ => false

/-- one row of the array is usable for `k` remaining sites: every entry is the string `"Z"` (never looked up) or is a
dictionary key (`KeyError` otherwise) at a site that exists (`IndexError` from `states[:, rot_sites]` otherwise).
Rows SHORTER than the number of sites are accepted by the code (the missing sites are treated as `Z`). -/
def rowOk (keys : List Char) : Nat → List Letter → Bool
  | _, [] => true
  | k, e :: es => (e == ['Z'] || (decide (0 < k) && isKey keys e)) && rowOk keys (k - 1) es

/-- `normBases bases (samples.dim() < 2) nSamples nSites keys`: the per-sample rows of letters the grouping loop works on,
or the refusal: array construction (`toArray`), one row per sample (`samples[indices == i, :]` with a mask of the wrong
length: `IndexError`), every rotated entry a dictionary key at an existing site. `None` is the all-`Z` assignment. -/
def normBases (b : BasesArg) (oneD : Bool) (nSamples nSites : Nat) (keys : List Char) :
    Except PyErr (List (List Letter)) :=
  match b with
  | .none => .ok (List.replicate nSamples (List.replicate nSites ['Z']))
  | b =>
    match toArray b oneD with
    | .error e => .error e
    | .ok arr =>
      if arr.length ≠ nSamples then .error .IndexError
      else if arr.all (rowOk keys nSites) then .ok arr else .error .KeyError

/-- a sample with its row of the normalised array -/
def toSample {n : Nat} (σ : Fin n → Bool) (row : List Letter) : Sample n := ⟨σ, row.map (fun e => e.headD 'Z')⟩

/-- `gradient(samples, bases)` with the arguments AS THE CALLER PASSES THEM, generic in the state type:
`noBases` is the `bases is None` branch (`[effective_energy_gradient(samples), zeros]`), `core` the grouped accumulation on
normalised samples (`gradientCplx am ph dict` / `gradientDM am ph dict eps`). -/
def gradientArgs {n : Nat} {γ : Type} (keys : List Char) (noBases : List (Fin n → Bool) → γ)
    (core : List (Sample n) → γ) (samples : SamplesArg n) (bases : BasesArg) : Except PyErr γ :=
  match bases with
  | .none => .ok (noBases samples.rows)
  | b =>
    match normBases b samples.isOne samples.rows.length n keys with
    | .error e => .error e
    | .ok arr => .ok (core (List.zipWith toSample samples.rows arr))

variable {α : Type} [Add α] [Mul α] [Neg α] [Sub α] [Div α] [Zero α] [One α] [Transc α]
variable {n h a : Nat}

/-- `ComplexWaveFunction.gradient(samples, bases)` -/
def gradientCplxArgs (am ph : RBM α n h) (dict : Char → M2 α) (keys : List Char)
    (samples : SamplesArg n) (bases : BasesArg) : Except PyErr (RBM α n h × RBM α n h) :=
  gradientArgs keys (fun σs => (gradientPos am (fun b : Fin σs.length => visOf (σs.get b)), RBM.zero))
    (gradientCplx am ph dict) samples bases

section
variable [LT α] [DecidableLT α]
/-- `DensityMatrix.gradient(samples, bases)` -/
def gradientDMArgs (am ph : PRBM α n h a) (dict : Char → M2 α) (eps : α) (keys : List Char)
    (samples : SamplesArg n) (bases : BasesArg) : Except PyErr (PRBM α n h a × PRBM α n h a) :=
  gradientArgs keys (fun σs => (am.effEnergyGrad (fun b : Fin σs.length => visOf (σs.get b)), PRBM.zero))
    (gradientDM am ph dict eps) samples bases
end

/-! ### (2) batch layout of `gamma_grad` / `pi_grad` -/

/-- a visible-state argument: a 1-D tensor `(n,)` (`batch = none`) or a 2-D tensor `(B, n)` -/
structure RowsArg (α : Type) (n : Nat) where
  batch : Option Nat
  row : Nat → Fin n → α

namespace RowsArg
/-- `v.dim() < 2` -/
def isOne (v : RowsArg α n) : Bool := v.batch.isNone
/-- `v.shape[0]` after `v.unsqueeze(0) if v.dim() < 2 else v` -/
def B (v : RowsArg α n) : Nat := v.batch.getD 1
end RowsArg

/-- entry `q` of `torch.cat([W.view(-1), U.view(-1), b, c, d], dim=-1)` for one batch index: the row-major `view(-1)`
of the `(h, n)` block `W` has entry `q` at `[q / n, q % n]`, the `(a, n)` block `U` follows at offset `h·n`, then the
three bias blocks. Positions past the end are never read (`0`). -/
def catEntry (g : PRBM α n h a) (q : Nat) : α :=
  if hW : q < h * n then
    g.W ⟨q / n, Nat.div_lt_of_lt_mul (by rw [Nat.mul_comm n h]; exact hW)⟩
      ⟨q % n, Nat.mod_lt _ (Nat.pos_of_ne_zero (by intro h0; subst h0; simp at hW))⟩
  else if hU : q - h * n < a * n then
    g.U ⟨(q - h * n) / n, Nat.div_lt_of_lt_mul (by rw [Nat.mul_comm n a]; exact hU)⟩
      ⟨(q - h * n) % n, Nat.mod_lt _ (Nat.pos_of_ne_zero (by intro h0; subst h0; simp at hU))⟩
  else if hb : q - h * n - a * n < n then g.b ⟨q - h * n - a * n, hb⟩
  else if hc : q - h * n - a * n - n < h then g.c ⟨q - h * n - a * n - n, hc⟩
  else if hd : q - h * n - a * n - n - h < a then g.d ⟨q - h * n - a * n - n - h, hd⟩
  else 0

/-- number of entries of one flat record: `num_pars` of the PurificationRBM -/
def numPars (n h a : Nat) : Nat := h * n + a * n + n + h + a

/-- the layout both functions share. `entry i j` is the record of the pair (row `i` of `v`, row `j` of `vp`).
`expand`: axes `(B, B', P)` from `x.unsqueeze(1) ∘ y.unsqueeze(0)`. Not `expand`: `batch_sizes = v.shape[:-1] = (B,)`; the
elementwise `v ∘ vp` broadcasts a one-row `vp` and pairs row `i` with row `i` otherwise; any other pair of batch sizes
ends in a `RuntimeError` (broadcast, or `torch.cat` of blocks with different leading sizes). `unsqueezed and not expand`:
`squeeze_(0)` of every block, which removes the batch axis only when it has length 1. -/
def layoutT (expand : Bool) (v vp : RowsArg α n) (entry : Nat → Nat → PRBM α n h a) : Except PyErr (FT α) :=
  let unsqueezed := v.isOne || vp.isOne
  if expand then
    .ok ⟨[v.B, vp.B, numPars n h a], fun idx => catEntry (entry (idx.getD 0 0) (idx.getD 1 0)) (idx.getD 2 0)⟩
  else if vp.B = v.B ∨ vp.B = 1 then
    let t : FT α := ⟨[v.B, numPars n h a],
      fun idx => catEntry (entry (idx.getD 0 0) (if vp.B = 1 then 0 else idx.getD 0 0)) (idx.getD 1 0)⟩
    .ok (if unsqueezed then t.squeeze0 else t)
  else .error .RuntimeError

/-- `PurificationRBM.gamma_grad(v, vp, eta, expand)`: the REAL part of the returned complex tensor (the imaginary part is
`zeros_like`), `sgn = np.sign(eta)` -/
def gammaGradT (r : PRBM α n h a) (sgn : α) (expand : Bool) (v vp : RowsArg α n) : Except PyErr (FT α) :=
  layoutT expand v vp (fun i j => gammaGrad r sgn (v.row i) (vp.row j))

/-- entry `r` of the row-major `view(-1)` of the `(a, n)` block `U` of a record -/
def uEntry (g : PRBM α n h a) (r : Nat) : α :=
  if hr : r < a * n then
    g.U ⟨r / n, Nat.div_lt_of_lt_mul (by rw [Nat.mul_comm n a]; exact hr)⟩
      ⟨r % n, Nat.mod_lt _ (Nat.pos_of_ne_zero (by intro h0; subst h0; simp at hr))⟩
  else 0

/-- `pi_grad(v, vp, phase=True, expand=False)` with ONE row in `v` and `B' ≠ 1` rows in `vp`, as coded: with `phase` every
block except `U` is a `zeros_like(…).expand(1, …)`, so nothing stops `U_grad.view(1, -1)` from flattening the `(B', a, n)`
tensor of the broadcast pairs `(v_0, vp_j)` into ONE row: the call is ACCEPTED and returns shape `(1, h·n + B'·a·n + n + h + a)`
(not a per-pair layout; no caller in the library does this). -/
def piGradOddT [LT α] [DecidableLT α] (am ph : PRBM α n h a) (v vp : RowsArg α n) (sel : CPRBM α n h a → PRBM α n h a) : FT α :=
  let t : FT α := ⟨[1, h * n + vp.B * (a * n) + n + h + a], fun idx =>
    let q := idx.getD 1 0
    if q < h * n then 0
    else if q - h * n < vp.B * (a * n) then
      uEntry (sel (piGradNoExpand am ph true (v.row 0) (vp.row ((q - h * n) / (a * n))))) ((q - h * n) % (a * n))
    else 0⟩
  if v.isOne || vp.isOne then t.squeeze0 else t

section
variable [LT α] [DecidableLT α]
/-- `DensityMatrix.pi_grad(v, vp, phase, expand)`: (real part, imaginary part) of the returned complex tensor; the
`expand=False` branch evaluates the sigmoid at `mixing_term(v ± vp)` (`piGradNoExpand`). Where the common layout is refused
(`expand=False`, batch sizes that neither agree nor broadcast onto `v`'s) the call with `phase=True` and a one-row `v` still
goes through (`piGradOddT`); every other such call ends in the `RuntimeError` of the broadcast / of `torch.cat`. -/
def piGradT (am ph : PRBM α n h a) (phase expand : Bool) (v vp : RowsArg α n) : Except PyErr (FT α × FT α) :=
  let f := fun i j => if expand then piGrad am ph phase (v.row i) (vp.row j) else piGradNoExpand am ph phase (v.row i) (vp.row j)
  match layoutT expand v vp (fun i j => (f i j).1), layoutT expand v vp (fun i j => (f i j).2) with
  | .ok re, .ok im => .ok (re, im)
  | .error e, _ =>
    if phase && v.B == 1 then .ok (piGradOddT am ph v vp Prod.fst, piGradOddT am ph v vp Prod.snd) else .error e
  | _, .error e => .error e
end

end Grads
end QV
