/-
QV.Model.CDStep — model of one training step (C06):
`compute_batch_gradients` (neural_state.py:417-447), `vector_to_grads` (utils/gradients_utils.py:20-52),
the inner loop of `fit` (neural_state.py:611-634) with plain SGD.
-/
import QV.Model.Grads
namespace QV
namespace CDStep

variable {α : Type}

/-- `vector_to_grads(vec, parameters)`: walk the parameters in `parameters()` order, giving each the next
`numel` entries of the flat vector (`pointer += num_param`). -/
def vectorToGrads (vec : List α) : List Nat → List (List α)
  | [] => []
  | k :: ks => vec.take k :: vectorToGrads (vec.drop k) ks

/-- `.view(param.size())` of a slice for a 2-D parameter with `cols` columns: entry `(i, j)` is `slice[i*cols + j]` -/
def viewEntry [Inhabited α] (slice : List α) (cols i j : Nat) : α := slice.getD (i * cols + j) default

variable [Add α] [Mul α] [Neg α] [Sub α] [Div α] [Zero α] [One α] [Transc α]
variable {n h a : Nat}

/-- numel of the parameters of a BinaryRBM in `parameters()` order: weights, visible_bias, hidden_bias -/
def rbmSizes (n h : Nat) : List Nat := [h * n, n, h]
/-- PurificationRBM: weights_W, weights_U, visible_bias, hidden_bias, aux_bias -/
def prbmSizes (n h a : Nat) : List Nat := [h * n, a * n, n, h, a]

/-- what the optimizer sees for one network after `vector_to_grads`: one flat list per parameter -/
def rbmParamGrads (g : RBM α n h) : List (List α) := vectorToGrads g.flatten (rbmSizes n h)
def prbmParamGrads (g : PRBM α n h a) : List (List α) := vectorToGrads g.flatten (prbmSizes n h a)

/-- one full step for the positive state: gradient handed to the optimizer and the parameters after plain SGD -/
def stepPos (lr : α) (am : RBM α n h) {B M : Nat} (pos : Fin B → Fin n → α) (vk : Fin M → Fin n → α) :
    RBM α n h × RBM α n h :=
  let g := Grads.batchGradAm (Grads.positivePhasePos am pos) am vk
  (g, Grads.sgdStep lr am g)

/-- complex state: amplitude network gets positive phase minus the CD negative phase, the phase network the
positive phase only -/
def stepCplx (lr : α) (am ph : RBM α n h) (dict : Char → M2 α) (D : List (Sample n)) {M : Nat}
    (vk : Fin M → Fin n → α) : (RBM α n h × RBM α n h) × (RBM α n h × RBM α n h) :=
  let pp := Grads.positivePhaseCplx am ph dict D
  let ga := Grads.batchGradAm pp.1 am vk
  ((ga, pp.2), (Grads.sgdStep lr am ga, Grads.sgdStep lr ph pp.2))

def stepDM (lr eps : α) (am ph : PRBM α n h a) (dict : Char → M2 α) (D : List (Sample n)) {M : Nat}
    (vk : Fin M → Fin n → α) : (PRBM α n h a × PRBM α n h a) × (PRBM α n h a × PRBM α n h a) :=
  let pp := Grads.positivePhaseDM am ph dict eps D
  let ga := Grads.batchGradAmDM pp.1 am vk
  ((ga, pp.2), (Grads.sgdStepDM lr am ga, Grads.sgdStepDM lr ph pp.2))

/-- a whole run with plain SGD: the parameters at batch `t` are the result of all earlier updates -/
def runPos (lr : α) (am0 : RBM α n h) (batches : List ((Σ B : Nat, Fin B → Fin n → α) × (Σ M : Nat, Fin M → Fin n → α))) :
    RBM α n h :=
  batches.foldl (fun am b => (stepPos lr am b.1.2 b.2.2).2) am0

end CDStep
end QV
