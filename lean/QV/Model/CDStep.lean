/-
QV.Model.CDStep — model of one training step (C06):
`compute_batch_gradients` (neural_state.py:417-447), `vector_to_grads` (utils/gradients_utils.py:20-52),
the inner loop of `fit` (neural_state.py:611-634) with plain SGD.

Gap-closing round: the chain of `compute_batch_gradients` as a probabilistic program STARTED FROM THE NEGATIVE
BATCH (`vk = self.rbm_am.gibbs_steps(k, neg_batch)`, neural_state.py:441; `gibbsStepsB` of QV.Model.Prob),
whole runs for the complex and the mixed state with a per-batch learning rate, and the epoch structure of `fit`
with a learning-rate scheduler stepped after every epoch (neural_state.py:601-641).
-/
import QV.Model.Grads
import QV.Model.Prob
namespace QV
namespace CDStep

variable {α : Type}

/-- `vector_to_grads(vec, parameters)`: walk the parameters in `parameters()` order, giving each the next
`numel` entries of the flat vector (`pointer += num_param`). -/
def vectorToGrads (vec : List α) : List Nat → List (List α)
  | [] => []
  | k :: ks => vec.take k :: vectorToGrads (vec.drop k) ks

/-- `.view(param.size())` of a slice for a 2-D parameter with `cols` columns: entry `(i, j)` is `slice[i*cols + j]` -/
def viewEntry [Inhabited α] (slice : List α) (cols i j : Nat) : α := slice.getD (i * cols + j) default

variable [Add α] [Mul α] [Neg α] [Sub α] [Div α] [Zero α] [One α] [Transc α] [LT α] [DecidableLT α]
variable {n h a : Nat}

/-- numel of the parameters of a BinaryRBM in `parameters()` order: weights, visible_bias, hidden_bias -/
def rbmSizes (n h : Nat) : List Nat := [h * n, n, h]
/-- PurificationRBM: weights_W, weights_U, visible_bias, hidden_bias, aux_bias -/
def prbmSizes (n h a : Nat) : List Nat := [h * n, a * n, n, h, a]

/-- what the optimizer sees for one network after `vector_to_grads`: one flat list per parameter -/
def rbmParamGrads (g : RBM α n h) : List (List α) := vectorToGrads g.flatten (rbmSizes n h)
def prbmParamGrads (g : PRBM α n h a) : List (List α) := vectorToGrads g.flatten (prbmSizes n h a)

/-- one full step for the positive state: gradient handed to the optimizer and the parameters after plain SGD -/
def stepPos (lr : α) (am : RBM α n h) {B M : Nat} (pos : Fin B → Fin n → α) (vk : Fin M → Fin n → α) :
    RBM α n h × RBM α n h :=
  let g := Grads.batchGradAm (Grads.positivePhasePos am pos) am vk
  (g, Grads.sgdStep lr am g)

/-- complex state: amplitude network gets positive phase minus the CD negative phase, the phase network the
positive phase only -/
def stepCplx (lr : α) (am ph : RBM α n h) (dict : Char → M2 α) (D : List (Sample n)) {M : Nat}
    (vk : Fin M → Fin n → α) : (RBM α n h × RBM α n h) × (RBM α n h × RBM α n h) :=
  let pp := Grads.positivePhaseCplx am ph dict D
  let ga := Grads.batchGradAm pp.1 am vk
  ((ga, pp.2), (Grads.sgdStep lr am ga, Grads.sgdStep lr ph pp.2))

def stepDM (lr eps : α) (am ph : PRBM α n h a) (dict : Char → M2 α) (D : List (Sample n)) {M : Nat}
    (vk : Fin M → Fin n → α) : (PRBM α n h a × PRBM α n h a) × (PRBM α n h a × PRBM α n h a) :=
  let pp := Grads.positivePhaseDM am ph dict eps D
  let ga := Grads.batchGradAmDM pp.1 am vk
  ((ga, pp.2), (Grads.sgdStepDM lr am ga, Grads.sgdStepDM lr ph pp.2))

/-- a whole run with plain SGD: the parameters at batch `t` are the result of all earlier updates -/
def runPos (lr : α) (am0 : RBM α n h) (batches : List ((Σ B : Nat, Fin B → Fin n → α) × (Σ M : Nat, Fin M → Fin n → α))) :
    RBM α n h :=
  batches.foldl (fun am b => (stepPos lr am b.1.2 b.2.2).2) am0

/-! ### the negative phase as a program: `vk = self.rbm_am.gibbs_steps(k, neg_batch)` -/

/-- a batch of 0/1 chain states as the `torch.double` rows the gradient code computes with -/
def bmat {M : Nat} (vs : Fin M → Fin n → Bool) : Fin M → Fin n → α := fun m => bvec (vs m)

/-- the amplitude gradient of `compute_batch_gradients(k, samples_batch, neg_batch, …)` as a program: the chain is
`rbm_am.gibbs_steps(k, neg_batch)` — `k` block-Gibbs passes over the whole negative batch, started from the rows of
`neg_batch` (not from the positive batch, not from a persistent buffer) — and the result is
`positive phase − effective_energy_gradient(vk) / neg_batch.shape[0]`. Returns the chain end states too. -/
def cdGradAm (posPhaseAm am : RBM α n h) (k : Nat) {M : Nat} (neg : Fin M → Fin n → Bool) :
    Prog α ((Fin M → Fin n → Bool) × RBM α n h) :=
  (am.gibbsStepsB k neg).map fun vk => (vk, Grads.batchGradAm posPhaseAm am (bmat vk))

/-- the same for the purification RBM of a `DensityMatrix` (`PurificationRBM.gibbs_steps`) -/
def cdGradAmDM (posPhaseAm am : PRBM α n h a) (k : Nat) {M : Nat} (neg : Fin M → Fin n → Bool) :
    Prog α ((Fin M → Fin n → Bool) × PRBM α n h a) :=
  (am.gibbsStepsB k neg).map fun vk => (vk, Grads.batchGradAmDM posPhaseAm am (bmat vk))

/-- one full training step of the positive state from (parameters, positive batch, NEGATIVE batch, k): chain end
states, gradient handed to the optimizer, parameters after plain SGD -/
def cdStepPos (lr : α) (am : RBM α n h) (k : Nat) {B M : Nat} (pos : Fin B → Fin n → α)
    (neg : Fin M → Fin n → Bool) : Prog α ((Fin M → Fin n → Bool) × (RBM α n h × RBM α n h)) :=
  (cdGradAm (Grads.positivePhasePos am pos) am k neg).map fun r => (r.1, (r.2, Grads.sgdStep lr am r.2))

def cdStepCplx (lr : α) (am ph : RBM α n h) (dict : Char → M2 α) (D : List (Sample n)) (k : Nat) {M : Nat}
    (neg : Fin M → Fin n → Bool) :
    Prog α ((Fin M → Fin n → Bool) × ((RBM α n h × RBM α n h) × (RBM α n h × RBM α n h))) :=
  let pp := Grads.positivePhaseCplx am ph dict D
  (cdGradAm pp.1 am k neg).map fun r =>
    (r.1, ((r.2, pp.2), (Grads.sgdStep lr am r.2, Grads.sgdStep lr ph pp.2)))

def cdStepDM (lr eps : α) (am ph : PRBM α n h a) (dict : Char → M2 α) (D : List (Sample n)) (k : Nat) {M : Nat}
    (neg : Fin M → Fin n → Bool) :
    Prog α ((Fin M → Fin n → Bool) × ((PRBM α n h a × PRBM α n h a) × (PRBM α n h a × PRBM α n h a))) :=
  let pp := Grads.positivePhaseDM am ph dict eps D
  (cdGradAmDM pp.1 am k neg).map fun r =>
    (r.1, ((r.2, pp.2), (Grads.sgdStepDM lr am r.2, Grads.sgdStepDM lr ph pp.2)))

/-! ### whole runs: the parameters at batch `t` are the result of all earlier updates -/

/-- the inner loops of `fit` as a fold: `optimizer.step()` maps the parameters and one batch to the new parameters -/
def foldRun {P β : Type} (step : P → β → P) (p0 : P) (bs : List β) : P := bs.foldl step p0

/-- the parameters after every batch, in order (what a recording optimizer sees after each `step()`) -/
def foldTrace {P β : Type} (step : P → β → P) : P → List β → List P
  | _, [] => []
  | p, b :: bs => let p' := step p b; p' :: foldTrace step p' bs

/-- a positive-state batch: positive rows and chain end states -/
abbrev PosBatch (α : Type) (n : Nat) := (Σ B : Nat, Fin B → Fin n → α) × (Σ M : Nat, Fin M → Fin n → α)
/-- a batch with bases: samples (outcome + basis string) and chain end states -/
abbrev SmpBatch (α : Type) (n : Nat) := List (Sample n) × (Σ M : Nat, Fin M → Fin n → α)

/-- one `optimizer.step()` of plain SGD with the learning rate in force for that batch -/
def updPos (p : RBM α n h) (b : α × PosBatch α n) : RBM α n h := (stepPos b.1 p b.2.1.2 b.2.2.2).2
def updCplx (dict : Char → M2 α) (p : RBM α n h × RBM α n h) (b : α × SmpBatch α n) : RBM α n h × RBM α n h :=
  (stepCplx b.1 p.1 p.2 dict b.2.1 b.2.2.2).2
def updDM (dict : Char → M2 α) (eps : α) (p : PRBM α n h a × PRBM α n h a) (b : α × SmpBatch α n) :
    PRBM α n h a × PRBM α n h a :=
  (stepDM b.1 eps p.1 p.2 dict b.2.1 b.2.2.2).2

/-- a whole run of the complex state with plain SGD at a fixed learning rate -/
def runCplx (lr : α) (dict : Char → M2 α) (am0 ph0 : RBM α n h) (batches : List (SmpBatch α n)) :
    RBM α n h × RBM α n h :=
  foldRun (updCplx dict) (am0, ph0) (batches.map fun b => (lr, b))

/-- a whole run of the mixed state with plain SGD at a fixed learning rate -/
def runDM (lr eps : α) (dict : Char → M2 α) (am0 ph0 : PRBM α n h a) (batches : List (SmpBatch α n)) :
    PRBM α n h a × PRBM α n h a :=
  foldRun (updDM dict eps) (am0, ph0) (batches.map fun b => (lr, b))

/-! ### epochs and the learning-rate scheduler (`scheduler.step()` after the batch loop of every epoch) -/

/-- learning rate in force after `e` calls of `scheduler.step()`; `next e lr` is what the `e`-th call (0-based)
does to the optimizer's learning rate -/
def lrAfter (next : Nat → α → α) (lr0 : α) : Nat → α
  | 0 => lr0
  | e + 1 => next e (lrAfter next lr0 e)

/-- the epoch loop of `fit`: every batch of an epoch is processed with the learning rate currently in the optimizer;
AFTER the epoch's last batch the scheduler is stepped once (`e` counts the scheduler steps made so far). -/
def tagEpochs {β : Type} (next : Nat → α → α) : α → Nat → List (List β) → List (α × β)
  | _, _, [] => []
  | lr, e, bs :: rest => bs.map (fun b => (lr, b)) ++ tagEpochs next (next e lr) (e + 1) rest

/-- the learning rate LEFT IN THE OPTIMIZER when `fit` returns (hardening round 4): the same epoch loop as `tagEpochs` — every epoch that
was entered, also one cut short by a stop request (fewer batches, possibly none), is followed by one `scheduler.step()`
(neural_state.py:629-630 sits after the batch loop, outside the `if self.stop_training: break` of the batches). -/
def lrEnd {β : Type} (next : Nat → α → α) : α → Nat → List (List β) → α
  | lr, _, [] => lr
  | lr, e, _ :: rest => lrEnd next (next e lr) (e + 1) rest

/-- number of `scheduler.step()` calls of a `fit` call that entered the given epochs (= `scheduler.last_epoch` afterwards) -/
def schedSteps {β : Type} : List (List β) → Nat
  | [] => 0
  | _ :: rest => schedSteps rest + 1

/-- no scheduler (`scheduler=None`) -/
def noSched : Nat → α → α := fun _ lr => lr

/-- `torch.optim.lr_scheduler.StepLR(step_size, gamma).step()` in its recursive ("chainable") form: the `e`-th call
sets `last_epoch = e + 1` and multiplies the learning rate by `gamma` iff `step_size` divides `last_epoch`. -/
def stepLRNext (gamma : α) (stepSize : Nat) : Nat → α → α :=
  fun e lr => if (e + 1) % stepSize = 0 then lr * gamma else lr

/-- whole `fit` calls: parameters after every batch of every epoch -/
def fitTracePos (next : Nat → α → α) (lr0 : α) (am0 : RBM α n h) (epochs : List (List (PosBatch α n))) :
    List (RBM α n h) :=
  foldTrace updPos am0 (tagEpochs next lr0 0 epochs)
def fitTraceCplx (next : Nat → α → α) (lr0 : α) (dict : Char → M2 α) (am0 ph0 : RBM α n h)
    (epochs : List (List (SmpBatch α n))) : List (RBM α n h × RBM α n h) :=
  foldTrace (updCplx dict) (am0, ph0) (tagEpochs next lr0 0 epochs)
def fitTraceDM (next : Nat → α → α) (lr0 eps : α) (dict : Char → M2 α) (am0 ph0 : PRBM α n h a)
    (epochs : List (List (SmpBatch α n))) : List (PRBM α n h a × PRBM α n h a) :=
  foldTrace (updDM dict eps) (am0, ph0) (tagEpochs next lr0 0 epochs)

end CDStep
end QV
