/-
QV.Model.Density — the call forms of `PurificationRBM.gamma` (qucumber/rbm/purification_rbm.py:352-396),
`DensityMatrix.pi` (qucumber/nn_states/density_matrix.py:114-158) and `DensityMatrix.rho`
(density_matrix.py:246-274).  The element-wise definitions (`PRBM.gamma`, `Density.pi`, `Density.rho`,
`Density.rhoDiag`) live in `Rbm.lean` / `States.lean`; this file adds what the code does with the
SHAPE of its arguments:

 * both arguments 1-D: `gamma` runs a different branch (`torch.dot(v + sign*vp, b)` …), `pi` broadcasts
   nothing; the result is a scalar (complex pair of scalars);
 * `expand=False`, both arguments `(B, n)`: element `[i]` pairs row `i` of `v` with row `i` of `vp`;
 * `expand=True`, arguments `(B, n)` and `(B', n)`: `v`-terms get `unsqueeze_(1)`, `vp`-terms `unsqueeze_(0)`,
   so element `[i, j]` pairs row `i` of `v` with row `j` of `vp`;
 * `rho(v, expand=False)` with `vp=None`: `make_complex(probability(v))` row by row.
Mixed ranks (one argument 1-D, the other 2-D) are OUTSIDE the property's call forms; they are modelled by
outcome class / result shape (`rhoOutcome`) and, where the code returns a value, element by element
(`rhoVecBatch`, `rhoBatchVec`); likewise a foreign argument dtype (`ArgDtype.other`). For unequal batch sizes
with `expand=False` only the outcome class (torch broadcasting: error unless one of them is 1) is modelled
(`pairedBatch`).
-/
import QV.Model.States
import QV.Model.PyFlag
import QV.Model.CallShape
namespace QV

variable {α : Type} [Add α] [Mul α] [Neg α] [Sub α] [Div α] [Zero α] [One α] [Transc α]

namespace PRBM
variable {n h a : Nat}

/-- `gamma(v, vp, eta)` when both arguments are 1-D (purification_rbm.py:376-381, 396):
`temp = dot(v + sign*vp, b); temp += Σ softplus(W v + c); temp += sign * Σ softplus(W vp + c); 0.5*temp`. -/
def gammaVec (r : PRBM α n h a) (sgn : α) (v vp : Fin n → α) : α :=
  (1 / two) * (dot n (fun j => v j + sgn * vp j) r.b
      + sumFin h (fun i => softplus (r.preactH v i))
      + sgn * sumFin h (fun i => softplus (r.preactH vp i)))

/-- `gamma(v, vp, eta, expand=False)` on two `(B, n)` batches: `0.5 * (temp1 + sign*temp2)` row by row. -/
def gammaPaired (r : PRBM α n h a) (sgn : α) {B : Nat} (vs vps : Fin B → Fin n → α) : Fin B → α :=
  fun i => r.gamma sgn (vs i) (vps i)

/-- `gamma(v, vp, eta, expand=True)`: `0.5 * (temp1.unsqueeze_(1) + sign*temp2.unsqueeze_(0))`. -/
def gammaMatrix (r : PRBM α n h a) (sgn : α) {B B' : Nat} (vs : Fin B → Fin n → α)
    (vps : Fin B' → Fin n → α) : Fin B → Fin B' → α :=
  fun i j => r.gamma sgn (vs i) (vps j)

end PRBM

namespace Density
variable {n h a : Nat}

/-- `pi(v, vp, expand=False)` on two `(B, n)` batches -/
def piPaired (am ph : PRBM α n h a) {B : Nat} (vs vps : Fin B → Fin n → α) : Fin B → CPair α :=
  fun i => pi am ph (vs i) (vps i)

/-- `pi(v, vp, expand=True)`: `m.unsqueeze_(1)` for `v`, `mp.unsqueeze_(0)` for `vp` -/
def piMatrix (am ph : PRBM α n h a) {B B' : Nat} (vs : Fin B → Fin n → α)
    (vps : Fin B' → Fin n → α) : Fin B → Fin B' → CPair α :=
  fun i j => pi am ph (vs i) (vps j)

/-- `rho(v, vp)` with both arguments 1-D: the same formula with `gamma`'s 1-D branch. -/
def rhoVec (am ph : PRBM α n h a) (v vp : Fin n → α) : CPair α :=
  let p := pi am ph v vp
  let amp := Transc.exp (am.gammaVec 1 v vp + p.1)
  let phs := ph.gammaVec (-1) v vp + p.2
  (amp * Transc.cos phs, amp * Transc.sin phs)

/-- `rho(v, vp, expand=False)` on two `(B, n)` batches: entry `[i]` -/
def rhoPaired (am ph : PRBM α n h a) {B : Nat} (vs vps : Fin B → Fin n → α) : Fin B → CPair α :=
  fun i => rho am ph (vs i) (vps i)

/-- batch size of the result of an `expand=False` call on `(B, n)` and `(B', n)` operands: the element-wise
`m_am + mp_am`, `temp1 + sign*temp2` follow torch broadcasting, so unequal sizes raise `RuntimeError` unless one is 1. -/
def pairedBatch (B B' : Nat) : Except PyErr Nat :=
  if B = B' then .ok B else if B = 1 then .ok B' else if B' = 1 then .ok B else .error .RuntimeError

/-- `rho(v, vp, expand=True)`: entry `[i, j]` (row index from `v`, column index from `vp`) -/
def rhoMatrix (am ph : PRBM α n h a) {B B' : Nat} (vs : Fin B → Fin n → α)
    (vps : Fin B' → Fin n → α) : Fin B → Fin B' → CPair α :=
  fun i j => rho am ph (vs i) (vps j)

/-- `rho(v, expand=False)` with `vp=None` on a `(B, n)` batch: `make_complex(probability(v))` -/
def rhoDiagBatch (am : PRBM α n h a) {B : Nat} (vs : Fin B → Fin n → α) : Fin B → CPair α :=
  fun i => rhoDiag am (vs i)

/-- `rho(space, space)` for the generated Hilbert space: the full matrix the property talks about. -/
def rhoFull (am ph : PRBM α n h a) : Fin (2 ^ n) → Fin (2 ^ n) → CPair α :=
  rhoMatrix am ph (fun k => spaceRow n k.val) (fun k => spaceRow n k.val)

/-! ### argument ranks and dtypes (audit items C02-2, C02-3): outcome classes -/

/-- rank of an argument of `rho`: a 1-D vector `(n,)` or a batch `(B, n)` -/
inductive ArgRank where
  | vec
  | batch (B : Nat)
  deriving DecidableEq, Repr

/-- dtype of the argument tensors: the parameters' dtype (`torch.double`, what `generate_hilbert_space` returns) or
anything else (`float32`, `int64`, …) -/
inductive ArgDtype where
  | double
  | other
  deriving DecidableEq, Repr

/-- shape (after the leading real/imaginary axis of size 2) or exception class of `rho(v, vp, expand)` with both
arguments given, by rank (density_matrix.py:265-274, purification_rbm.py:376-396, density_matrix.py:134-145):
* both 1-D: a scalar (`gamma`'s `v.dim() < 2 and vp.dim() < 2` branch; `expand` ignored);
* both batches: `expand=True` → `(B, B')`, `expand=False` → torch broadcasting of `(B,)` with `(B',)` (`pairedBatch`);
* `v` 1-D, `vp` a batch: `pi` copes (`if expand and v.dim() >= 2`), but `gamma` runs its batched branch where
  `temp1 = matmul(v, b) + …` is 0-dim and `temp1.unsqueeze_(1)` raises `IndexError` when `expand=True`;
  `expand=False`: `temp1 + sign*temp2` broadcasts the scalar → `(B',)`;
* `v` a batch, `vp` 1-D: `temp1.unsqueeze_(1)` is `(B,1)`, `temp2.unsqueeze_(0)` is `(1,)` → `(B, 1)` when `expand=True`,
  `(B,)` when `expand=False`. -/
def rhoRankOutcome (v vp : ArgRank) (expand : Bool) : Except PyErr (List Nat) :=
  match v, vp with
  | .vec, .vec => .ok []
  | .batch B, .batch B' =>
    if expand then .ok [B, B'] else
      match pairedBatch B B' with
      | .ok b => .ok [b]
      | .error e => .error e
  | .vec, .batch B' => if expand then .error .IndexError else .ok [B']
  | .batch B, .vec => if expand then .ok [B, 1] else .ok [B]

/-- `rho(v, vp=…, expand=…)` by rank AND dtype. `vp = none` is `vp=None`: with `expand=False` the call returns
`make_complex(probability(v))` and `probability` casts its argument (`v.to(self.rbm_am.weights_W)`, neural_state.py:104) —
any dtype is accepted, the result has the rank of `v`; otherwise `vp = v`. Every other form feeds the argument to
`F.linear(v, weights_U, …)` against double parameters: a foreign dtype raises `RuntimeError` (before any shape is looked at:
`pi` is evaluated first). -/
def rhoOutcome (v : ArgRank) (vp : Option ArgRank) (expand : Bool) (dt : ArgDtype) : Except PyErr (List Nat) :=
  match vp, expand with
  | none, false => match v with | .vec => .ok [] | .batch B => .ok [B]
  | _, _ =>
    match dt with
    | .other => .error .RuntimeError
    | .double => rhoRankOutcome v (vp.getD v) expand

/-- `rho(v, vps, expand=False)` with `v` 1-D and `vps` a `(B', n)` batch: entry `[j]` pairs `v` with row `j`. -/
def rhoVecBatch (am ph : PRBM α n h a) {B' : Nat} (v : Fin n → α) (vps : Fin B' → Fin n → α) : Fin B' → CPair α :=
  fun j => rho am ph v (vps j)

/-- `rho(vs, vp, expand)` with `vs` a `(B, n)` batch and `vp` 1-D: entry `[i]` (`expand=False`) / `[i, 0]` (`expand=True`)
pairs row `i` with `vp`. -/
def rhoBatchVec (am ph : PRBM α n h a) {B : Nat} (vs : Fin B → Fin n → α) (vp : Fin n → α) : Fin B → CPair α :=
  fun i => rho am ph (vs i) vp

/-! ### the `expand` argument as the OBJECT the caller passed (hardening round 4)

`expand` is documented as `bool`; callers also pass `1` / `0`, `numpy.bool_` values (a flag read from a numpy array, the result
of a numpy comparison) and 0-dim bool tensors.  `rho` hands the SAME object to `pi`, `gamma(eta=+1)` and `gamma(eta=-1)`; each
of them tests it on its own (`if expand:` purification_rbm.py:391, `if expand and v.dim() >= 2` density_matrix.py:137-140), so
the three factors have a common layout only if the three tests agree. -/

/-- layout of a result on `(B, n)` batches: `[i, j]` pairs row `i` of `v` with row `j` of `vp` (`matrix`), `[i]` pairs row `i`
with row `i` (`paired`), `[i]` = `make_complex(probability(v_i))` (`diag`, the `vp=None` short-cut) -/
inductive CallForm where
  | matrix
  | paired
  | diag
  deriving DecidableEq, Repr

/-- `PurificationRBM.gamma(v, vp, eta, expand)` on batches: `if expand:` (purification_rbm.py:391) — truthiness -/
def gammaForm (expand : PyFlag) : CallForm := if expand.truthy then .matrix else .paired

/-- `DensityMatrix.pi(v, vp, expand)` on batches: `if expand and v.dim() >= 2` (density_matrix.py:137, 140) — truthiness -/
def piForm (expand : PyFlag) : CallForm := if expand.truthy then .matrix else .paired

/-- layout of `rho(v, vp, expand)` on batches (density_matrix.py:265-274): `if expand is False and vp is None` is an IDENTITY
test with the singleton `False` (so `expand=0` / `np.False_` with `vp=None` do NOT take the short-cut: `vp = v` and the paired
form is evaluated); otherwise the common layout of `pi`, `gamma(+1)`, `gamma(-1)`, or `none` when they disagree (torch would
silently broadcast a vector against a matrix). -/
def rhoForm (expand : PyFlag) (vpNone : Bool) : Option CallForm :=
  if expand.isFalseSingleton && vpNone then some .diag
  else if piForm expand = gammaForm expand then some (piForm expand) else none

/-- value of a `rho` call on two `(B, n)` batches, by layout -/
inductive RhoOut (α : Type) (B : Nat) where
  | matrix (m : Fin B → Fin B → CPair α)
  | vector (p : Fin B → CPair α)

/-- `rho(vs, vps, expand)` with `expand` the object passed and `vps = none` for `vp=None` -/
def rhoFlagged (am ph : PRBM α n h a) (expand : PyFlag) {B : Nat} (vs : Fin B → Fin n → α)
    (vps : Option (Fin B → Fin n → α)) : Option (RhoOut α B) :=
  match rhoForm expand vps.isNone with
  | some .diag => some (.vector (rhoDiagBatch am vs))
  | some .matrix => some (.matrix (rhoMatrix am ph vs (vps.getD vs)))
  | some .paired => some (.vector (rhoPaired am ph vs (vps.getD vs)))
  | none => none

end Density

/-! ### `gamma` / `pi` / `rho` AS WRITTEN, on tensors (extension round 2): the rank tests, `unsqueeze_`s and broadcasting of
the code, from which the result shape, the refusals and the pairing of rows follow (they are theorems, `C02_call_forms_*`,
no longer definitions).  Arguments are `FT (Fin n → α)` (`QV.Model.CallShape`): `dim()` of the code = `shape.length + 1`. -/

namespace PRBM
variable {n h a : Nat}

/-- `PurificationRBM.gamma(v, vp, eta, expand)` (purification_rbm.py:375-396), `sgn = np.sign(eta)`:
```
if v.dim() < 2 and vp.dim() < 2:   temp = dot(v + sign*vp, b); temp += Σ softplus(W v + c); temp += sign * Σ softplus(W vp + c)
else:
    temp1 = matmul(v, b) + softplus(linear(v, W, c)).sum(-1);   temp2 = … vp …
    if expand: temp = temp1.unsqueeze_(1) + (sign * temp2.unsqueeze_(0))
    else:      temp = temp1 + (sign * temp2)
return 0.5 * temp
``` -/
def gammaCall (r : PRBM α n h a) (sgn : α) (v vp : FT (Fin n → α)) (expand : Bool) : Except PyErr (FT α) :=
  if v.shape.length + 1 < 2 ∧ vp.shape.length + 1 < 2 then
    .ok (FT.scalar (r.gammaVec sgn (v.get []) (vp.get [])))
  else
    let temp1 := v.map r.visTerm
    let temp2 := vp.map r.visTerm
    let temp :=
      if expand then
        match temp1.unsqueeze 1, temp2.unsqueeze 0 with
        | .ok t1, .ok t2 => FT.bzip (fun x y => x + sgn * y) t1 t2
        | .error e, _ => .error e
        | _, .error e => .error e
      else FT.bzip (fun x y => x + sgn * y) temp1 temp2
    temp.map (FT.map fun t => (1 / two) * t)

end PRBM

namespace Density
variable {n h a : Nat}

/-- `DensityMatrix.pi(v, vp, expand)` (density_matrix.py:132-158):
```
m_am = linear(v, U_am, d_am); mp_am = linear(vp, U_am, d_am); m_ph = linear(v, U_ph); mp_ph = linear(vp, U_ph)
if expand and v.dim() >= 2:  m_am = m_am.unsqueeze_(1);  m_ph = m_ph.unsqueeze_(1)
if expand and vp.dim() >= 2: mp_am = mp_am.unsqueeze_(0); mp_ph = mp_ph.unsqueeze_(0)
exp_arg = (m_am + mp_am) / 2;  phase = (m_ph - mp_ph) / 2
real = (1 + 2 e^x cos y + e^{2x}).sqrt().log().sum(-1);  imag = atan2(e^x sin y, 1 + e^x cos y).sum(-1)
``` -/
def piCall (am ph : PRBM α n h a) (v vp : FT (Fin n → α)) (expand : Bool) : Except PyErr (FT (CPair α)) :=
  let mAm := v.map (fun row k => am.preactA row k)
  let mpAm := vp.map (fun row k => am.preactA row k)
  let mPh := v.map (fun row (k : Fin a) => sumFin n (fun j => row j * ph.U k j))
  let mpPh := vp.map (fun row (k : Fin a) => sumFin n (fun j => row j * ph.U k j))
  let cv := expand && decide (2 ≤ v.shape.length + 1)
  let cvp := expand && decide (2 ≤ vp.shape.length + 1)
  match mAm.unsqueezeIf cv 1, mPh.unsqueezeIf cv 1, mpAm.unsqueezeIf cvp 0, mpPh.unsqueezeIf cvp 0 with
  | .ok mAm', .ok mPh', .ok mpAm', .ok mpPh' =>
    match FT.bzip (fun x y (k : Fin a) => (x k + y k) / two) mAm' mpAm',
          FT.bzip (fun x y (k : Fin a) => (x k - y k) / two) mPh' mpPh' with
    | .ok expArg, .ok phase =>
      FT.bzip (fun x y => (sumFin a (fun k => piRe1 (x k) (y k)), sumFin a (fun k => piIm1 (x k) (y k)))) expArg phase
    | .error e, _ => .error e
    | _, .error e => .error e
  | .error e, _, _, _ => .error e
  | _, .error e, _, _ => .error e
  | _, _, .error e, _ => .error e
  | _, _, _, .error e => .error e

/-- `DensityMatrix.rho(v, vp=None, expand=True)` (density_matrix.py:265-274), `expand` a Python `bool`:
```
if expand is False and vp is None: return make_complex(self.probability(v))
elif vp is None: vp = v
pi_ = self.pi(v, vp, expand=expand)
amp = (rbm_am.gamma(v, vp, eta=+1, expand=expand) + real(pi_)).exp()
phase = rbm_ph.gamma(v, vp, eta=-1, expand=expand) + imag(pi_)
return make_complex(amp * phase.cos(), amp * phase.sin())
``` -/
def rhoCall (am ph : PRBM α n h a) (v : FT (Fin n → α)) (vp : Option (FT (Fin n → α))) (expand : Bool) :
    Except PyErr (FT (CPair α)) :=
  if expand = false ∧ vp.isNone then .ok (v.map (rhoDiag am))
  else
    let vp' := vp.getD v
    match piCall am ph v vp' expand with
    | .error e => .error e
    | .ok p =>
      match am.gammaCall 1 v vp' expand with
      | .error e => .error e
      | .ok g1 =>
        match FT.bzip (fun g (q : CPair α) => Transc.exp (g + q.1)) g1 p with
        | .error e => .error e
        | .ok amp =>
          match ph.gammaCall (-1) v vp' expand with
          | .error e => .error e
          | .ok g2 =>
            match FT.bzip (fun g (q : CPair α) => g + q.2) g2 p with
            | .error e => .error e
            | .ok phs => FT.bzip (fun x f => (x * Transc.cos f, x * Transc.sin f)) amp phs

/-- rank class of a tensor argument of rank ≤ 2 (`ArgRank` of `rhoRankOutcome`) -/
def rankOf {β : Type} (t : FT β) : ArgRank :=
  match t.shape with
  | [] => .vec
  | B :: _ => .batch B

end Density
end QV
