/-
QV.Model.Batching — how `fit` turns the user's data into per-epoch batches:
`NeuralStateBase._shuffle_data` (qucumber/nn_states/neural_state.py:449-498), the data-related
preamble of `fit` (neural_state.py:568-597: `neg_batch_size` default, clone of the data,
`extract_refbasis_samples`, `num_batches`), and `extract_refbasis_samples`
(qucumber/utils/data.py:115-133).

Rows of the sample tensor are opaque values of a type `ρ`; a basis row is a `List String`
(one letter per site). `torch.randperm` / `torch.randint` results are *inputs* (`perm`, `negIdx`,
recorded by the harness); the requests made to `torch.randint` are outputs.
-/
import QV.Model.Hilbert
namespace QV.Batching
open QV

section
variable {α : Type}

/-- `xs[i]` for one (non-negative) index; `IndexError` when out of bounds -/
def getRow (xs : List α) (i : Nat) : Except PyErr α :=
  match xs[i]? with
  | some x => .ok x
  | none => .error .IndexError

/-- advanced indexing `xs[idx]` with an integer index tensor (`IndexError` when out of bounds) -/
def takeRows (xs : List α) : List Nat → Except PyErr (List α)
  | [] => .ok []
  | i :: rest =>
    match getRow xs i with
    | .error e => .error e
    | .ok x =>
      match takeRows xs rest with
      | .error e => .error e
      | .ok r => .ok (x :: r)

/-- `range(0, len, B)` for `B ≥ 1`: `0, B, 2B, …` below `len` — there are `⌈len / B⌉` of them -/
def batchStarts (len B : Nat) : List Nat := (List.range ((len + B - 1) / B)).map (fun j => j * B)

/-- `[xs[st : st + B] for st in range(0, len(xs), B)]` (neural_state.py:480-488);
`range()` raises `ValueError` for step 0 -/
def sliceBatches (B : Nat) (xs : List α) : Except PyErr (List (List α)) :=
  if B = 0 then .error .ValueError
  else .ok ((batchStarts xs.length B).map (fun st => (xs.drop st).take B))
end

/-- one element of the zipped `data_iterator` handed to `compute_batch_gradients(k, *batch)` -/
structure Batch (ρ : Type) where
  pos : List ρ
  neg : List ρ
  bases : Option (List (List String))
  deriving Repr

/-- result of `_shuffle_data`: the zipped batches and the `torch.randint(high, size=(size,))` request, if one was made -/
structure ShuffleOut (ρ : Type) where
  batches : List (Batch ρ)
  randint : Option (Nat × Nat)

/-- `zip(pos_batches, neg_batches)` — truncates to the shorter list -/
def zip2 {ρ : Type} : List (List ρ) → List (List ρ) → List (Batch ρ)
  | p :: ps, n :: ns => { pos := p, neg := n, bases := none } :: zip2 ps ns
  | _, _ => []

/-- `zip(pos_batches, neg_batches, pos_batches_bases)` — truncates to the shortest list -/
def zip3 {ρ : Type} : List (List ρ) → List (List ρ) → List (List (List String)) → List (Batch ρ)
  | p :: ps, n :: ns, b :: bs => { pos := p, neg := n, bases := some b } :: zip3 ps ns bs
  | _, _, _ => []

/-- `torch.randint(high, size=(size,))`: raises `RuntimeError` ("from >= to") when `high = 0`; otherwise the
recorded result `negIdx` is used -/
def randintReq (high : Nat) : Except PyErr Unit := if high = 0 then .error .RuntimeError else .ok ()

/-- `_shuffle_data(pos_batch_size, neg_batch_size, num_batches, train_samples, input_bases, z_samples)`
(neural_state.py:449-498), statement by statement. -/
def shuffleData {ρ : Type} (perm negIdx : List Nat) (posB negB numBatches : Nat)
    (samples : List ρ) (bases : Option (List (List String))) (zSamples : List ρ) :
    Except PyErr (ShuffleOut ρ) := do
  -- pos_batch_perm = torch.randperm(N); shuffled_pos_samples = train_samples[pos_batch_perm]
  let shuffledPos ← takeRows samples perm
  match bases with
  | none =>
    -- neg_batch_perm = pos_batch_perm | torch.randint(N, size=(num_batches * neg_batch_size,))
    let (negPerm, req) ← (if negB = posB then pure (perm, none)
      else do
        randintReq samples.length
        pure (negIdx, some (samples.length, numBatches * negB)) : Except PyErr (List Nat × Option (Nat × Nat)))
    let shuffledNeg ← takeRows samples negPerm
    let posBatches ← sliceBatches posB shuffledPos
    let negBatches ← sliceBatches negB shuffledNeg
    return { batches := zip2 posBatches negBatches, randint := req }
  | some bs =>
    -- neg_batch_perm = torch.randint(len(z_samples), size=(num_batches * neg_batch_size,))
    randintReq zSamples.length
    let shuffledNeg ← takeRows zSamples negIdx
    let posBatches ← sliceBatches posB shuffledPos
    let negBatches ← sliceBatches negB shuffledNeg
    -- shuffled_pos_bases = input_bases[pos_batch_perm]; slices over range(0, len(train_samples), pos_batch_size)
    let shuffledBases ← takeRows bs perm
    let basesBatches := (batchStarts samples.length posB).map (fun st => (shuffledBases.drop st).take posB)
    return { batches := zip3 posBatches negBatches basesBatches,
             randint := some (zSamples.length, numBatches * negB) }

/-- `neg_batch_size if neg_batch_size else pos_batch_size` (neural_state.py:568): `None` and `0` select the default -/
def effNegB (negB : Option Nat) (posB : Nat) : Nat :=
  match negB with
  | none => posB
  | some 0 => posB
  | some k => k

/-- `ceil(train_samples.shape[0] / pos_batch_size)` (neural_state.py:597); `ZeroDivisionError` for batch size 0 -/
def numBatches (N posB : Nat) : Except PyErr Nat :=
  if posB = 0 then .error .ZeroDivisionError else .ok ((N + posB - 1) / posB)

/-- is a basis row entirely the reference basis: `(train_bases == "Z").all(dim=1)` -/
def allZ (row : List String) : Bool := row.all (fun s => s == "Z")

/-- `extract_refbasis_samples(train_samples, train_bases)` (data.py:115-133): boolean-mask indexing keeps, in
order, the rows whose basis is all `Z`; a mask of the wrong length is an `IndexError`. -/
def extractRefbasis {ρ : Type} (samples : List ρ) (bases : List (List String)) : Except PyErr (List ρ) :=
  if bases.length ≠ samples.length then .error .IndexError
  else .ok ((samples.zip bases).filterMap (fun p => if allZ p.2 then some p.1 else none))

/-- what `fit` derives from its data arguments before the epoch loop (neural_state.py:568-597) -/
structure Prep (ρ : Type) where
  negB : Nat
  /-- `train_samples`: a copy (`data.clone()` / `torch.tensor(data)`) of the caller's data -/
  train : List ρ
  zSamples : List ρ
  numBatches : Nat

/-- the data preamble of `fit` -/
def prepare {ρ : Type} (data : List ρ) (bases : Option (List (List String))) (posB : Nat) (negB : Option Nat) :
    Except PyErr (Prep ρ) := do
  let nB := effNegB negB posB
  let train := data
  let z ← (match bases with
    | some bs => extractRefbasis train bs
    | none => pure [])
  let nb ← numBatches train.length posB
  return { negB := nB, train := train, zSamples := z, numBatches := nb }

/-- the batches of one epoch of `fit(data, pos_batch_size, neg_batch_size, input_bases)`, given that epoch's
`randperm` / `randint` results -/
def epochBatches {ρ : Type} (data : List ρ) (bases : Option (List (List String))) (posB : Nat) (negB : Option Nat)
    (perm negIdx : List Nat) : Except PyErr (ShuffleOut ρ) := do
  let p ← prepare data bases posB negB
  shuffleData perm negIdx posB p.negB p.numBatches p.train bases p.zSamples

/-! ### Object identities: which tensors are read, which are created (for the frame statement) -/

/-- a heap object: a sample tensor or a bases array -/
inductive Val (ρ : Type) where
  | samples (rows : List ρ)
  | bases (rows : List (List String))

/-- object store; an object's identity is its index -/
structure Heap (ρ : Type) where
  objs : List (Val ρ)

/-- allocate a new object, returning its identity -/
def Heap.alloc {ρ : Type} (h : Heap ρ) (v : Val ρ) : Heap ρ × Nat := (⟨h.objs ++ [v]⟩, h.objs.length)

def Heap.samplesAt {ρ : Type} (h : Heap ρ) (id : Nat) : Except PyErr (List ρ) :=
  match h.objs[id]? with
  | some (.samples r) => .ok r
  | _ => .error .TypeError

def Heap.basesAt {ρ : Type} (h : Heap ρ) (id : Nat) : Except PyErr (List (List String)) :=
  match h.objs[id]? with
  | some (.bases r) => .ok r
  | _ => .error .TypeError

/-- a slice `t[start : start+len]` is a *view*: it shares the storage of object `storage` -/
structure View where
  storage : Nat
  start : Nat
  len : Nat
  deriving Repr, DecidableEq

/-- a batch as object references -/
structure BatchRef where
  pos : View
  neg : View
  bases : Option View
  deriving Repr

def viewsOf (storage len B : Nat) : List View :=
  (batchStarts len B).map (fun st => { storage := storage, start := st, len := B })

def zipRef2 : List View → List View → List BatchRef
  | p :: ps, n :: ns => { pos := p, neg := n, bases := none } :: zipRef2 ps ns
  | _, _ => []

def zipRef3 : List View → List View → List View → List BatchRef
  | p :: ps, n :: ns, b :: bs => { pos := p, neg := n, bases := some b } :: zipRef3 ps ns bs
  | _, _, _ => []

/-- `fit`'s data flow for the preamble and one epoch on the heap: `data.clone()` allocates `train_samples`;
`extract_refbasis_samples`, `train_samples[perm]`, `…[neg_perm]`, `input_bases[perm]` allocate new objects
(advanced indexing copies); batches are views of those. Nothing is ever written to an existing object. -/
def epochOnHeap {ρ : Type} (h : Heap ρ) (dataId : Nat) (basesId : Option Nat) (posB : Nat) (negB : Option Nat)
    (perm negIdx : List Nat) : Except PyErr (Heap ρ × List BatchRef) := do
  if posB = 0 then throw .ZeroDivisionError
  let data ← h.samplesAt dataId
  let nB := effNegB negB posB
  let (h1, _trainId) := h.alloc (.samples data)   -- train_samples = data.clone(): same contents, new object
  match basesId with
  | none =>
    let shuffledPos ← takeRows data perm
    let (h2, posId) := h1.alloc (.samples shuffledPos)
    let negPerm := if nB = posB then perm else negIdx
    if nB ≠ posB then randintReq data.length
    let shuffledNeg ← takeRows data negPerm
    let (h3, negId) := h2.alloc (.samples shuffledNeg)
    return (h3, zipRef2 (viewsOf posId shuffledPos.length posB) (viewsOf negId shuffledNeg.length nB))
  | some bid =>
    let bs ← h.basesAt bid
    let z ← extractRefbasis data bs
    let (h2, _zId) := h1.alloc (.samples z)
    let shuffledPos ← takeRows data perm
    let (h3, posId) := h2.alloc (.samples shuffledPos)
    randintReq z.length
    let shuffledNeg ← takeRows z negIdx
    let (h4, negId) := h3.alloc (.samples shuffledNeg)
    let shuffledBases ← takeRows bs perm
    let (h5, sbId) := h4.alloc (.bases shuffledBases)
    return (h5, zipRef3 (viewsOf posId shuffledPos.length posB) (viewsOf negId shuffledNeg.length nB)
      (viewsOf sbId data.length posB))

end QV.Batching
