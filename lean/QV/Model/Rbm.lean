/-
QV.Model.Rbm — model of `qucumber/rbm/binary_rbm.py` (BinaryRBM) and
`qucumber/rbm/purification_rbm.py` (PurificationRBM): energies, conditionals,
partition function, gradients in the layout of `nn.Module.parameters()`.
Import-free apart from `Scalar`.
-/
import QV.Model.Scalar
namespace QV

variable {α : Type} [Add α] [Mul α] [Neg α] [Sub α] [Div α] [Zero α] [One α] [Transc α]

/-- Parameters of a `BinaryRBM`: `weights` (num_hidden × num_visible), `visible_bias`, `hidden_bias`. -/
structure RBM (α : Type) (n h : Nat) where
  W : Fin h → Fin n → α
  b : Fin n → α
  c : Fin h → α

namespace RBM
variable {n h : Nat}

/-- `F.linear(v, weights, hidden_bias)[i]` -/
def preact (r : RBM α n h) (v : Fin n → α) (i : Fin h) : α :=
  sumFin n (fun j => v j * r.W i j) + r.c i

/-- `BinaryRBM.effective_energy` for one visible state. -/
def effEnergy (r : RBM α n h) (v : Fin n → α) : α :=
  -(dot n v r.b + sumFin h (fun i => softplus (r.preact v i)))

/-- `BinaryRBM.prob_h_given_v` -/
def probH (r : RBM α n h) (v : Fin n → α) (i : Fin h) : α :=
  clamp01 (sigmoid (r.preact v i))

/-- `BinaryRBM.prob_v_given_h` : `sigmoid(h · W + b)` -/
def probV (r : RBM α n h) (hid : Fin h → α) (j : Fin n) : α :=
  clamp01 (sigmoid (sumFin h (fun i => hid i * r.W i j) + r.b j))

/-- `BinaryRBM.partition(space)` : `exp(logsumexp(-E(space)))`. -/
def partition (r : RBM α n h) {N : Nat} (space : Fin N → Fin n → α) : α :=
  Transc.exp (logSumExp N (fun k => -(r.effEnergy (space k))))

/-- per-sample effective-energy gradient (`reduce=False` row), as an RBM-shaped record -/
def effEnergyGrad1 (r : RBM α n h) (v : Fin n → α) : RBM α n h where
  W := fun i j => -(r.probH v i * v j)
  b := fun j => -(v j)
  c := fun i => -(r.probH v i)

/-- pointwise operations on RBM-shaped records (gradients) -/
def zero : RBM α n h := ⟨fun _ _ => 0, fun _ => 0, fun _ => 0⟩
def add (x y : RBM α n h) : RBM α n h :=
  ⟨fun i j => x.W i j + y.W i j, fun j => x.b j + y.b j, fun i => x.c i + y.c i⟩
def sub (x y : RBM α n h) : RBM α n h :=
  ⟨fun i j => x.W i j - y.W i j, fun j => x.b j - y.b j, fun i => x.c i - y.c i⟩
def smul (s : α) (x : RBM α n h) : RBM α n h :=
  ⟨fun i j => s * x.W i j, fun j => s * x.b j, fun i => s * x.c i⟩
def sdiv (x : RBM α n h) (s : α) : RBM α n h :=
  ⟨fun i j => x.W i j / s, fun j => x.b j / s, fun i => x.c i / s⟩

/-- `effective_energy_gradient(v, reduce=True)` over a batch: sum of the per-sample records. -/
def effEnergyGrad (r : RBM α n h) {B : Nat} (vs : Fin B → Fin n → α) : RBM α n h where
  W := fun i j => -(sumFin B (fun s => r.probH (vs s) i * vs s j))
  b := fun j => -(sumFin B (fun s => vs s j))
  c := fun i => -(sumFin B (fun s => r.probH (vs s) i))

/-- flat layout of `parameters_to_vector([W, b, c])`: `W` row-major, then `b`, then `c`. -/
def flatten (x : RBM α n h) : List α :=
  (List.finRange h).flatMap (fun i => (List.finRange n).map (fun j => x.W i j))
    ++ (List.finRange n).map x.b ++ (List.finRange h).map x.c

end RBM

/-- Parameters of a `PurificationRBM`. -/
structure PRBM (α : Type) (n h a : Nat) where
  W : Fin h → Fin n → α
  U : Fin a → Fin n → α
  b : Fin n → α
  c : Fin h → α
  d : Fin a → α

namespace PRBM
variable {n h a : Nat}

def preactH (r : PRBM α n h a) (v : Fin n → α) (i : Fin h) : α :=
  sumFin n (fun j => v j * r.W i j) + r.c i
def preactA (r : PRBM α n h a) (v : Fin n → α) (k : Fin a) : α :=
  sumFin n (fun j => v j * r.U k j) + r.d k

/-- the visible part shared by `effective_energy` and `gamma`:
`v·b + Σ_i softplus(W_i·v + c_i)` -/
def visTerm (r : PRBM α n h a) (v : Fin n → α) : α :=
  dot n v r.b + sumFin h (fun i => softplus (r.preactH v i))

/-- `PurificationRBM.effective_energy(v)` with the auxiliary units traced out. -/
def effEnergy (r : PRBM α n h a) (v : Fin n → α) : α :=
  -(r.visTerm v + sumFin a (fun k => softplus (r.preactA v k)))

/-- `PurificationRBM.effective_energy(v, a)` for an explicit auxiliary configuration. -/
def effEnergyAux (r : PRBM α n h a) (v : Fin n → α) (aux : Fin a → α) : α :=
  -(r.visTerm v + dot a aux r.d
      + sumFin a (fun k => sumFin n (fun j => v j * r.U k j * aux k)))

def probH (r : PRBM α n h a) (v : Fin n → α) (i : Fin h) : α := clamp01 (sigmoid (r.preactH v i))
def probA (r : PRBM α n h a) (v : Fin n → α) (k : Fin a) : α := clamp01 (sigmoid (r.preactA v k))
/-- `prob_v_given_ha`: `sigmoid(h·W + b + a·U)` -/
def probV (r : PRBM α n h a) (hid : Fin h → α) (aux : Fin a → α) (j : Fin n) : α :=
  clamp01 (sigmoid (sumFin h (fun i => hid i * r.W i j) + r.b j + sumFin a (fun k => aux k * r.U k j)))

def partition (r : PRBM α n h a) {N : Nat} (space : Fin N → Fin n → α) : α :=
  Transc.exp (logSumExp N (fun k => -(r.effEnergy (space k))))

/-- `gamma(v, vp, eta)` with `sgn = np.sign(eta)`: `0.5 * (visTerm v + sgn * visTerm vp)`. -/
def gamma (r : PRBM α n h a) (sgn : α) (v vp : Fin n → α) : α :=
  (1 / two) * (r.visTerm v + sgn * r.visTerm vp)

/-- `mixing_term(v)` : `F.linear(v, 0.5*U, d)` -/
def mixingTerm (r : PRBM α n h a) (v : Fin n → α) (k : Fin a) : α :=
  sumFin n (fun j => v j * ((1 / two) * r.U k j)) + r.d k

def zero : PRBM α n h a := ⟨fun _ _ => 0, fun _ _ => 0, fun _ => 0, fun _ => 0, fun _ => 0⟩
def add (x y : PRBM α n h a) : PRBM α n h a :=
  ⟨fun i j => x.W i j + y.W i j, fun k j => x.U k j + y.U k j, fun j => x.b j + y.b j,
   fun i => x.c i + y.c i, fun k => x.d k + y.d k⟩
def sub (x y : PRBM α n h a) : PRBM α n h a :=
  ⟨fun i j => x.W i j - y.W i j, fun k j => x.U k j - y.U k j, fun j => x.b j - y.b j,
   fun i => x.c i - y.c i, fun k => x.d k - y.d k⟩
def smul (s : α) (x : PRBM α n h a) : PRBM α n h a :=
  ⟨fun i j => s * x.W i j, fun k j => s * x.U k j, fun j => s * x.b j,
   fun i => s * x.c i, fun k => s * x.d k⟩
def sdiv (x : PRBM α n h a) (s : α) : PRBM α n h a :=
  ⟨fun i j => x.W i j / s, fun k j => x.U k j / s, fun j => x.b j / s,
   fun i => x.c i / s, fun k => x.d k / s⟩

def effEnergyGrad1 (r : PRBM α n h a) (v : Fin n → α) : PRBM α n h a where
  W := fun i j => -(r.probH v i * v j)
  U := fun k j => -(r.probA v k * v j)
  b := fun j => -(v j)
  c := fun i => -(r.probH v i)
  d := fun k => -(r.probA v k)

def effEnergyGrad (r : PRBM α n h a) {B : Nat} (vs : Fin B → Fin n → α) : PRBM α n h a where
  W := fun i j => -(sumFin B (fun s => r.probH (vs s) i * vs s j))
  U := fun k j => -(sumFin B (fun s => r.probA (vs s) k * vs s j))
  b := fun j => -(sumFin B (fun s => vs s j))
  c := fun i => -(sumFin B (fun s => r.probH (vs s) i))
  d := fun k => -(sumFin B (fun s => r.probA (vs s) k))

/-- flat layout of `parameters_to_vector([W, U, b, c, d])`. -/
def flatten (x : PRBM α n h a) : List α :=
  (List.finRange h).flatMap (fun i => (List.finRange n).map (fun j => x.W i j))
    ++ (List.finRange a).flatMap (fun k => (List.finRange n).map (fun j => x.U k j))
    ++ (List.finRange n).map x.b ++ (List.finRange h).map x.c ++ (List.finRange a).map x.d

end PRBM
end QV
