/-
QV.Lemmas.Frame — helper lemmas and specification predicates for C14 (QV.Model.Frame).

 * counting lemmas: the ordered call lists of the model sum to the closed forms;
 * `Agree b`: two process states agree on everything the library can read
   (torch generator, object table from slot `b` on, files) — numpy's and Python's
   generators are NOT part of it;
 * unwinding lemmas: every non-foreign operation preserves `Agree b` and yields equal
   results; every foreign operation leaves everything but its own generator unchanged.
-/
import Mathlib.Tactic.Ring
import QV.Model.Frame

namespace QV.Frame

/-! ### generators -/

theorem take_snd (mix : Nat → Nat → Nat) (m : Nat) (g : Gen) :
    (Gen.take mix m g).2 = ⟨g.seedOf, g.pos + m⟩ := by
  induction m generalizing g with
  | zero => simp [Gen.take]
  | succ m ih =>
    simp only [Gen.take, Gen.next, ih]
    congr 1
    omega

theorem take_fst (mix : Nat → Nat → Nat) (m : Nat) (g : Gen) :
    (Gen.take mix m g).1 = (List.range m).map (fun i => mix g.seedOf (g.pos + i)) := by
  induction m generalizing g with
  | zero => simp [Gen.take]
  | succ m ih =>
    simp only [Gen.take, Gen.next, ih, List.range_succ_eq_map, List.map_cons, List.map_map]
    simp only [Nat.add_zero, List.cons.injEq, true_and]
    apply List.map_congr_left
    intro i _
    simp only [Function.comp]
    congr 1
    omega

/-- the draws depend on the stream function only through the stream of the current seed -/
theorem take_congr (mix mix' : Nat → Nat → Nat) (m : Nat) (g : Gen)
    (h : ∀ i, mix g.seedOf i = mix' g.seedOf i) : Gen.take mix m g = Gen.take mix' m g := by
  apply Prod.ext
  · rw [take_fst, take_fst]
    apply List.map_congr_left
    intro i _
    exact h _
  · rw [take_snd, take_snd]

/-! ### counting -/

theorem callsTotal_append (a b : List Call) : callsTotal (a ++ b) = callsTotal a + callsTotal b := by
  induction a with
  | nil => simp [callsTotal]
  | cons c cs ih => simp [callsTotal, ih]; omega

theorem callsTotal_replicate_flatten (k : Nat) (l : List Call) :
    callsTotal (List.replicate k l).flatten = k * callsTotal l := by
  induction k with
  | zero => simp [callsTotal]
  | succ k ih =>
    rw [List.replicate_succ, List.flatten_cons, callsTotal_append, ih]
    ring

theorem callsTotal_gibbsStep (A : Arch) (rows : Nat) :
    callsTotal (gibbsStepCalls A rows) = rows * units A := by
  unfold gibbsStepCalls units
  cases A.kind <;> simp [callsTotal] <;> ring

theorem callsTotal_gibbs (A : Arch) (k rows : Nat) :
    callsTotal (gibbsCalls A k rows) = k * (rows * units A) := by
  unfold gibbsCalls
  rw [callsTotal_replicate_flatten, callsTotal_gibbsStep]

theorem callsTotal_init (A : Arch) : callsTotal (initCalls A) = initDraws A := by
  unfold initCalls initDraws netInitCalls numNets
  cases A.kind <;> simp [callsTotal, List.replicate]
  omega

theorem callsTotal_sample (A : Arch) (k num : Nat) (init : Option Nat) :
    callsTotal (sampleCalls A k num init) = sampleDraws A k num init := by
  unfold sampleCalls sampleDraws
  cases init <;> simp [callsTotal, callsTotal_gibbs]

theorem callsTotal_stat (A : Arch) (ns nc bi stp : Nat) (init : Option Nat)
    (hok : (statCalls A ns nc bi stp init).2 = none) :
    callsTotal (statCalls A ns nc bi stp init).1 = statDraws A ns nc bi stp init := by
  unfold statCalls at hok ⊢
  unfold statDraws
  by_cases hz : statChains ns nc init = 0 ∨ ns = 0
  · simp [hz] at hok
  · simp only [hz, if_false]
    rw [callsTotal_append, callsTotal_replicate_flatten, callsTotal_sample, callsTotal_gibbs]

/-! ### batch slicing -/

theorem sliceSizes_zero (B : Nat) : sliceSizes 0 B = [] := by
  rw [sliceSizes]; simp

theorem sliceSizes_pos {T B : Nat} (hT : 0 < T) (hB : 0 < B) :
    sliceSizes T B = min B T :: sliceSizes (T - B) B := by
  rw [sliceSizes]
  have : ¬ (T = 0 ∨ B = 0) := by omega
  simp [this]

def listSum : List Nat → Nat
  | [] => 0
  | x :: xs => x + listSum xs

/-- the batches partition the data: their sizes add up to the number of rows -/
theorem sliceSizes_sum (T B : Nat) (hB : 0 < B) : listSum (sliceSizes T B) = T := by
  induction T using Nat.strong_induction_on with
  | _ T ih =>
    by_cases hT : T = 0
    · subst hT; simp [sliceSizes_zero, listSum]
    · rw [sliceSizes_pos (by omega) hB, listSum, ih (T - B) (by omega)]
      omega

/-- `len([... for s in range(0, T, B)]) = ceil(T / B)` -/
theorem sliceSizes_length (T B : Nat) (hB : 0 < B) : (sliceSizes T B).length = ceilDiv T B := by
  induction T using Nat.strong_induction_on with
  | _ T ih =>
    by_cases hT : T = 0
    · subst hT
      simp only [sliceSizes_zero, List.length_nil, ceilDiv]
      exact (Nat.div_eq_of_lt (by omega)).symm
    · rw [sliceSizes_pos (by omega) hB, List.length_cons, ih (T - B) (by omega)]
      unfold ceilDiv
      by_cases hle : B ≤ T
      · have e : T + B - 1 = (T - B + B - 1) + B := by omega
        rw [e, Nat.add_div_right _ hB]
      · have e1 : T - B + B - 1 = B - 1 := by omega
        rw [e1, Nat.div_eq_of_lt (by omega)]
        have : (T + B - 1) / B = 1 := by
          apply Nat.div_eq_of_lt_le <;> omega
        omega

theorem sliceSizes_mul (m B : Nat) (hB : 0 < B) : sliceSizes (m * B) B = List.replicate m B := by
  induction m with
  | zero => simp [sliceSizes_zero]
  | succ m ih =>
    have hpos : 0 < (m + 1) * B := Nat.mul_pos (by omega) hB
    rw [sliceSizes_pos hpos hB]
    have e : (m + 1) * B - B = m * B := by rw [Nat.succ_mul]; omega
    have hmin : min B ((m + 1) * B) = B := by
      apply Nat.min_eq_left
      rw [Nat.succ_mul]; omega
    rw [e, ih, hmin, List.replicate_succ]

theorem callsTotal_map_gibbs_flatten (A : Arch) (k : Nat) (l : List Nat) :
    callsTotal ((l.map (fun r => gibbsCalls A k r)).flatten) = k * (listSum l * units A) := by
  induction l with
  | nil => simp [callsTotal, listSum]
  | cons x xs ih =>
    rw [List.map_cons, List.flatten_cons, callsTotal_append, ih, callsTotal_gibbs, listSum]
    ring

theorem listSum_replicate (m B : Nat) : listSum (List.replicate m B) = m * B := by
  induction m with
  | zero => simp [listSum]
  | succ m ih => rw [List.replicate_succ, listSum, ih]; ring

theorem zip_map_snd_of_length_eq {α β : Type} (l₁ : List α) (l₂ : List β)
    (h : l₁.length = l₂.length) : (List.zip l₁ l₂).map Prod.snd = l₂ := by
  induction l₁ generalizing l₂ with
  | nil => cases l₂ <;> simp_all
  | cons a as ih =>
    cases l₂ with
    | nil => simp at h
    | cons b bs => simp [ih bs (by simpa using h)]

/-- the Gibbs draws of one epoch: `k` steps on every negative-phase row, when positive and
negative batch lists have the same length (always the case for the lists `_shuffle_data` builds). -/
theorem callsTotal_batch (A : Arch) (k N posB negB negTotal : Nat)
    (hlen : (sliceSizes N posB).length = (sliceSizes negTotal negB).length) (hB : 0 < negB) :
    callsTotal (batchCalls A k N posB negB negTotal) = k * (negTotal * units A) := by
  unfold batchCalls
  have : (List.zip (sliceSizes N posB) (sliceSizes negTotal negB)).map (fun p => gibbsCalls A k p.2)
      = ((List.zip (sliceSizes N posB) (sliceSizes negTotal negB)).map Prod.snd).map
          (fun r => gibbsCalls A k r) := by
    rw [List.map_map]; rfl
  rw [this, zip_map_snd_of_length_eq _ _ hlen, callsTotal_map_gibbs_flatten, sliceSizes_sum _ _ hB]

theorem negB'_pos (c : FitCfg) (h : 0 < c.posB) : 0 < c.negB' := by
  unfold FitCfg.negB'
  cases hn : c.negB with
  | none => simpa
  | some b =>
    cases b with
    | zero => simpa
    | succ b => simp

theorem ceilDiv_mul (m B : Nat) (hB : 0 < B) : ceilDiv (m * B) B = m := by
  rw [← sliceSizes_length _ _ hB, sliceSizes_mul _ _ hB, List.length_replicate]

/-- `n` epochs, each = the same training calls followed by that epoch's evaluator calls -/
theorem callsTotal_epochs (epoch : List Call) (g : Nat → List Call) (n : Nat) :
    callsTotal (((List.range n).map (fun j => epoch ++ g j)).flatten)
      = n * callsTotal epoch + callsTotal (((List.range n).map g).flatten) := by
  induction n with
  | zero => simp [callsTotal]
  | succ n ih =>
    rw [List.range_succ, List.map_append, List.map_append, List.flatten_append, List.flatten_append,
      callsTotal_append, callsTotal_append, ih]
    simp only [List.map_cons, List.map_nil, List.flatten_cons, List.flatten_nil, List.append_nil, callsTotal_append]
    ring

/-- calls made only in the iterations selected by `P` -/
theorem callsTotal_selected (P : Nat → Bool) (L : List Call) (n : Nat) :
    callsTotal (((List.range n).map (fun j => if P j then L else [])).flatten)
      = ((List.range n).filter P).length * callsTotal L := by
  induction n with
  | zero => simp [callsTotal]
  | succ n ih =>
    rw [List.range_succ, List.map_append, List.flatten_append, callsTotal_append, ih, List.filter_append,
      List.length_append]
    cases h : P n <;> simp [h, callsTotal] <;> ring

theorem evalCb_stat_ok (A : Arch) (cb : EvalCb) :
    (statCalls A cb.numSamples cb.numChains cb.burnIn cb.steps none).2 = none := by
  unfold statCalls
  have hc : ¬ (statChains cb.numSamples cb.numChains none = 0 ∨ cb.numSamples = 0) := by
    unfold statChains EvalCb.numSamples
    simp only []
    split
    · rename_i h
      have : cb.numChains ≠ 0 := by simpa using h
      omega
    · omega
  rw [if_neg hc]

/-- the evaluator callback's draws over all epochs of a `fit` -/
theorem callsTotal_evalCalls (A : Arch) (c : FitCfg) :
    callsTotal (((List.range c.numEpochs).map (fun j => evalCalls A c (c.startEpoch + j))).flatten) = evalDraws A c := by
  unfold evalCalls evalDraws
  cases c.evalCb with
  | none =>
    have := callsTotal_selected (fun _ => false) [] c.numEpochs
    simpa [callsTotal] using this
  | some cb =>
    simp only []
    have := callsTotal_selected (fun j => decide ((c.startEpoch + j) % cb.period = 0))
      (statCalls A cb.numSamples cb.numChains cb.burnIn cb.steps none).1 c.numEpochs
    simp only [decide_eq_true_eq] at this
    rw [this, callsTotal_stat _ _ _ _ _ _ (evalCb_stat_ok A cb)]
    rfl

/-- **closed form of the number of torch draws of a completed `fit`.** -/
theorem callsTotal_fit (A : Arch) (c : FitCfg) (hok : (fitCalls A c).2 = none) :
    callsTotal (fitCalls A c).1 = fitDraws A c := by
  unfold fitCalls at hok ⊢
  unfold fitDraws
  by_cases h1 : A.kind ≠ .pos ∧ c.bases = none
  · simp [h1] at hok
  simp only [h1, if_false] at hok ⊢
  by_cases h2 : c.posB = 0
  · simp [h2] at hok
  simp only [h2, if_false] at hok ⊢
  have hpos : 0 < c.posB := Nat.pos_of_ne_zero h2
  have hneg := negB'_pos c hpos
  by_cases h3 : c.numEpochs = 0
  · have := callsTotal_evalCalls A c
    simp only [h3, List.range_zero, List.map_nil, List.flatten_nil, callsTotal] at this
    simp [h3, callsTotal, ← this]
  simp only [h3, if_false] at hok ⊢
  -- the shuffle
  unfold shuffleCalls at hok ⊢
  cases hb : effBases A c with
  | none =>
    simp only [hb] at hok ⊢
    by_cases hs : c.negB' = c.posB
    · simp only [hs, if_true, true_and] at hok ⊢
      rw [callsTotal_epochs, callsTotal_evalCalls, callsTotal_append, callsTotal_batch _ _ _ _ _ _ rfl hpos]
      simp [callsTotal]
    · simp only [hs, if_false, and_false] at hok ⊢
      by_cases hN : c.N = 0
      · simp [hN] at hok
      · simp only [hN, if_false] at hok ⊢
        rw [callsTotal_epochs, callsTotal_evalCalls, callsTotal_append, callsTotal_batch]
        · simp [callsTotal]
        · rw [sliceSizes_length _ _ hpos, sliceSizes_length _ _ hneg, ceilDiv_mul _ _ hneg]
        · exact hneg
  | some M =>
    simp only [hb] at hok ⊢
    by_cases hM : M = 0
    · simp [hM] at hok
    · simp only [hM, if_false] at hok ⊢
      have hne : ¬ ((some M : Option Nat) = none ∧ c.negB' = c.posB) := by simp
      simp only [hne, if_false]
      rw [callsTotal_epochs, callsTotal_evalCalls, callsTotal_append, callsTotal_batch]
      · simp [callsTotal]
      · rw [sliceSizes_length _ _ hpos, sliceSizes_length _ _ hneg, ceilDiv_mul _ _ hneg]
      · exact hneg

/-! ### agreement of process states, unwinding -/

/-- Two process states agree on everything library code can read: torch's generator, the
object table from slot `b` on, the files. numpy's and Python's generators are NOT compared. -/
structure Agree {P : Type} (b : Nat) (s₁ s₂ : St P) : Prop where
  torch : s₁.torchGen = s₂.torchGen
  nextId : s₁.nextId = s₂.nextId
  objs : ∀ i, b ≤ i → s₁.objs i = s₂.objs i
  files : ∀ p, s₁.files p = s₂.files p

theorem Agree.refl {P : Type} (b : Nat) (s : St P) : Agree b s s :=
  ⟨rfl, rfl, fun _ _ => rfl, fun _ => rfl⟩

theorem Agree.symm {P : Type} {b : Nat} {s₁ s₂ : St P} (h : Agree b s₁ s₂) : Agree b s₂ s₁ :=
  ⟨h.torch.symm, h.nextId.symm, fun i hi => (h.objs i hi).symm, fun p => (h.files p).symm⟩

theorem Agree.trans {P : Type} {b : Nat} {s₁ s₂ s₃ : St P} (h : Agree b s₁ s₂) (h' : Agree b s₂ s₃) :
    Agree b s₁ s₃ :=
  ⟨h.torch.trans h'.torch, h.nextId.trans h'.nextId, fun i hi => (h.objs i hi).trans (h'.objs i hi),
   fun p => (h.files p).trans (h'.files p)⟩

/-- every slot the history addresses is `≥ b` -/
def ClosedAbove (b : Nat) (ops : List Op) : Prop := ∀ op ∈ ops, ∀ i, op.slot? = some i → b ≤ i

/-- the library part of a history: foreign numpy / `random` operations removed -/
def lib (ops : List Op) : List Op := ops.filter (fun o => !o.isExternal)

theorem upd_agree {α : Type} {f g : Nat → Option α} {b : Nat} (i : Nat) (v : α)
    (h : ∀ j, b ≤ j → f j = g j) : ∀ j, b ≤ j → upd f i v j = upd g i v j := by
  intro j hj
  unfold upd
  split
  · rfl
  · exact h j hj

theorem upd_agree' {α : Type} {f g : Nat → Option α} (i : Nat) (v : α)
    (h : ∀ j, f j = g j) : ∀ j, upd f i v j = upd g i v j := by
  intro j
  unfold upd
  split
  · rfl
  · exact h j

theorem slotStep_agree {P O : Type} (S : Sem P O) {b : Nat} {s₁ s₂ : St P} (hA : Agree b s₁ s₂)
    (op : Op) (i : Nat) (ob : Obj P) :
    Agree b (slotStep S s₁ op i ob).1 (slotStep S s₂ op i ob).1
      ∧ (slotStep S s₁ op i ob).2 = (slotStep S s₂ op i ob).2 := by
  obtain ⟨ht, hn, ho, hf⟩ := hA
  cases op <;> simp only [slotStep, Op.plan, ht, hf] <;> (try split) <;> (try split) <;>
    refine ⟨⟨?_, ?_, ?_, ?_⟩, ?_⟩ <;>
    first | trivial | rfl | assumption | exact upd_agree _ _ ho | exact upd_agree' _ _ hf

theorem Agree.mono {P : Type} {b : Nat} {s₁ s₂ : St P} (h : Agree 0 s₁ s₂) : Agree b s₁ s₂ :=
  ⟨h.torch, h.nextId, fun i _ => h.objs i (Nat.zero_le _), h.files⟩

theorem slot_none_of_external (op : Op) (h : op.isExternal = true) : op.slot? = none := by
  cases op <;> simp_all [Op.isExternal, Op.slot?]

/-- **unwinding, library step**: a non-foreign operation maps agreeing states to agreeing
states and returns the same result. -/
theorem step_agree {P O : Type} (S : Sem P O) {b : Nat} {s₁ s₂ : St P} (hA : Agree b s₁ s₂)
    (op : Op) (hcl : ∀ i, op.slot? = some i → b ≤ i) (hext : op.isExternal = false) :
    Agree b (step S s₁ op).1 (step S s₂ op).1 ∧ (step S s₁ op).2 = (step S s₂ op).2 := by
  have ht := hA.torch
  have hn := hA.nextId
  cases op
  case setSeed s cpu =>
    cases cpu
    · exact ⟨hA, rfl⟩
    · simp only [step, if_true]
      cases seedWord s
      · exact ⟨hA, rfl⟩
      · exact ⟨⟨rfl, hn, hA.objs, hA.files⟩, rfl⟩
  case burn m =>
    refine ⟨⟨?_, hn, hA.objs, hA.files⟩, rfl⟩
    simp only [step, ht]
  case construct k n h a =>
    refine ⟨⟨?_, ?_, ?_, hA.files⟩, rfl⟩
    · simp only [step, ht]
    · simp only [step, hn]
    · simp only [step, ht, hn]
      exact upd_agree _ _ hA.objs
  case seedNumpy => simp [Op.isExternal] at hext
  case perturbNumpy => simp [Op.isExternal] at hext
  case seedPy => simp [Op.isExternal] at hext
  case perturbPy => simp [Op.isExternal] at hext
  all_goals
    have ho := hA.objs _ (hcl _ rfl)
    simp only [step, Op.slot?, ho]
    split
    · exact ⟨hA, rfl⟩
    · exact slotStep_agree S hA _ _ _

/-- **unwinding, foreign step**: numpy / `random` operations change nothing the library reads. -/
theorem step_ext {P O : Type} (S : Sem P O) (s : St P) (op : Op) (hext : op.isExternal = true) :
    Agree 0 (step S s op).1 s := by
  cases op <;> simp [Op.isExternal] at hext <;> exact ⟨rfl, rfl, fun _ _ => rfl, fun _ => rfl⟩

theorem run_cons {P O : Type} (S : Sem P O) (st : St P) (op : Op) (ops : List Op) :
    run S st (op :: ops) = ((run S (step S st op).1 ops).1,
      if op.isExternal then (run S (step S st op).1 ops).2
      else (step S st op).2 :: (run S (step S st op).1 ops).2) := rfl

theorem ClosedAbove.tail {b : Nat} {op : Op} {ops : List Op} (h : ClosedAbove b (op :: ops)) :
    ClosedAbove b ops := fun o ho => h o (List.mem_cons_of_mem _ ho)

theorem ClosedAbove.head {b : Nat} {op : Op} {ops : List Op} (h : ClosedAbove b (op :: ops)) :
    ∀ i, op.slot? = some i → b ≤ i := h op (List.mem_cons_self)

/-- a history and its library part lead to agreeing states and the same recorded results -/
theorem run_lib {P O : Type} (S : Sem P O) {b : Nat} (ops : List Op) :
    ∀ {s₁ s₂ : St P}, Agree b s₁ s₂ → ClosedAbove b ops →
      Agree b (run S s₁ ops).1 (run S s₂ (lib ops)).1 ∧ (run S s₁ ops).2 = (run S s₂ (lib ops)).2 := by
  induction ops with
  | nil => intro s₁ s₂ hA _; exact ⟨hA, rfl⟩
  | cons op ops ih =>
    intro s₁ s₂ hA hcl
    by_cases hext : op.isExternal = true
    · have hl : lib (op :: ops) = lib ops := by simp [lib, hext]
      rw [hl, run_cons]
      simp only [hext, if_true]
      exact ih (((step_ext S s₁ op hext).mono).trans hA) hcl.tail
    · have hext' : op.isExternal = false := by simpa using hext
      have hl : lib (op :: ops) = op :: lib ops := by simp [lib, hext']
      rw [hl, run_cons, run_cons]
      simp only [hext', Bool.false_eq_true, if_false]
      obtain ⟨h1, h2⟩ := step_agree S hA op hcl.head hext'
      obtain ⟨h3, h4⟩ := ih h1 hcl.tail
      exact ⟨h3, by rw [h2, h4]⟩

theorem lib_idem (ops : List Op) : lib (lib ops) = lib ops := by
  simp [lib, List.filter_filter]

theorem closedAbove_of_lib {b : Nat} {ops : List Op} (h : ClosedAbove b (lib ops)) : ClosedAbove b ops := by
  intro op hop i hi
  by_cases hext : op.isExternal = true
  · rw [slot_none_of_external op hext] at hi; cases hi
  · exact h op (by simp [lib, hop, hext]) i hi

theorem closedAbove_lib {b : Nat} {ops : List Op} (h : ClosedAbove b ops) : ClosedAbove b (lib ops) := by
  intro op hop
  exact h op (List.mem_filter.mp hop).1

/-- **noninterference for whole histories**: agreeing start states, histories with the same
library part (the foreign numpy / `random` operations may be completely different and
differently interleaved) ⇒ agreeing final states and the same results. -/
theorem run_agree {P O : Type} (S : Sem P O) {b : Nat} {s₁ s₂ : St P} (hA : Agree b s₁ s₂)
    (ops₁ ops₂ : List Op) (hlib : lib ops₁ = lib ops₂) (hcl : ClosedAbove b ops₁) :
    Agree b (run S s₁ ops₁).1 (run S s₂ ops₂).1 ∧ (run S s₁ ops₁).2 = (run S s₂ ops₂).2 := by
  have hcl2 : ClosedAbove b ops₂ := closedAbove_of_lib (hlib ▸ closedAbove_lib hcl)
  obtain ⟨a1, a2⟩ := run_lib S ops₁ hA hcl
  obtain ⟨b1, b2⟩ := run_lib S ops₂ (Agree.refl b s₂) hcl2
  rw [hlib] at a1 a2
  exact ⟨a1.trans b1.symm, a2.trans b2.symm⟩

/-! ### dependence on the stream function -/

/-- the same semantics with another stream function -/
def Sem.withMix {P O : Type} (S : Sem P O) (mix' : Nat → Nat → Nat) : Sem P O := { S with mix := mix' }

/-- the two stream functions give the same stream for seed `s` -/
def StreamEq (mix mix' : Nat → Nat → Nat) (s : Nat) : Prop := ∀ i, mix s i = mix' s i

theorem step_withMix {P O : Type} (S : Sem P O) (mix' : Nat → Nat → Nat) (s : St P) (op : Op)
    (h : StreamEq S.mix mix' s.torchGen.seedOf) (hext : op.isExternal = false) :
    step (S.withMix mix') s op = step S s op := by
  have key : ∀ m, Gen.take mix' m s.torchGen = Gen.take S.mix m s.torchGen :=
    fun m => (take_congr _ _ m _ h).symm
  cases op <;> simp [Op.isExternal] at hext <;>
    simp only [step, slotStep, Sem.withMix, key, Op.slot?]

theorem step_seedOf {P O : Type} (S : Sem P O) (s : St P) (op : Op) :
    (step S s op).1.torchGen.seedOf
      = (match op with | .setSeed s' true => (seedWord s').getD s.torchGen.seedOf | _ => s.torchGen.seedOf) := by
  cases op
  case setSeed s' cpu =>
    cases cpu
    · rfl
    · simp only [step, if_true]
      cases seedWord s' <;> rfl
  case burn m => simp [step, take_snd]
  case construct => simp [step, take_snd]
  case seedNumpy => rfl
  case perturbNumpy => rfl
  case seedPy => rfl
  case perturbPy => rfl
  all_goals
    simp only [step, Op.slot?]
    split
    · rfl
    · simp only [slotStep]
      repeat' split
      all_goals simp [take_snd]

theorem run_withMix {P O : Type} (S : Sem P O) (mix' : Nat → Nat → Nat) (ops : List Op) :
    ∀ (st : St P), StreamEq S.mix mix' st.torchGen.seedOf →
      (∀ op ∈ ops, ∀ s' w, op = .setSeed s' true → seedWord s' = some w → StreamEq S.mix mix' w) →
      (∀ op ∈ ops, op.isExternal = false) →
      run (S.withMix mix') st ops = run S st ops := by
  induction ops with
  | nil => intros; rfl
  | cons op ops ih =>
    intro st h0 hseeds hne
    have hstep := step_withMix S mix' st op h0 (hne op List.mem_cons_self)
    rw [run_cons, run_cons, hstep]
    have hnext : StreamEq S.mix mix' (step S st op).1.torchGen.seedOf := by
      rw [step_seedOf]
      split
      · rename_i s'
        cases hw : seedWord s' with
        | none => exact h0
        | some w => exact hseeds _ List.mem_cons_self _ _ rfl hw
      · exact h0
    rw [ih _ hnext (fun o ho => hseeds o (List.mem_cons_of_mem _ ho))
      (fun o ho => hne o (List.mem_cons_of_mem _ ho))]

/-! ### what each operation touches -/

/-- operations outside {construct, reinit, fit, load} leave the whole object table unchanged -/
theorem step_objs_of_not_writes {P O : Type} (S : Sem P O) (s : St P) (op : Op)
    (h : op.writesParams = false) :
    (step S s op).1.objs = s.objs ∧ (step S s op).1.nextId = s.nextId := by
  cases op <;> simp [Op.writesParams] at h
  case setSeed s' cpu =>
    cases cpu
    · exact ⟨rfl, rfl⟩
    · simp only [step, if_true]
      cases seedWord s' <;> exact ⟨rfl, rfl⟩
  case burn => exact ⟨rfl, rfl⟩
  case seedNumpy => exact ⟨rfl, rfl⟩
  case perturbNumpy => exact ⟨rfl, rfl⟩
  case seedPy => exact ⟨rfl, rfl⟩
  case perturbPy => exact ⟨rfl, rfl⟩
  all_goals
    simp only [step, Op.slot?]
    split
    · exact ⟨rfl, rfl⟩
    · simp only [slotStep]
      repeat' split
      all_goals first | exact ⟨rfl, rfl⟩ | simp

/-- every operation other than an effective `set_random_seed` advances torch's generator by
exactly the number of elements of the calls it makes, and keeps the seed -/
theorem step_torchGen {P O : Type} (S : Sem P O) (s : St P) (op : Op)
    (h : ∀ s', op ≠ .setSeed s' true) :
    (step S s op).1.torchGen = ⟨s.torchGen.seedOf, s.torchGen.pos + stepDraws s op⟩ := by
  cases op
  case setSeed s' cpu =>
    cases cpu
    · rfl
    · exact absurd rfl (h s')
  case burn m => simp [step, take_snd, stepDraws, stepCalls, callsTotal]
  case construct => simp [step, take_snd, stepDraws, stepCalls]
  case seedNumpy => rfl
  case perturbNumpy => rfl
  case seedPy => rfl
  case perturbPy => rfl
  all_goals
    simp only [step, Op.slot?, stepDraws, stepCalls]
    split
    · simp [callsTotal]
    · simp only [slotStep]
      repeat' split
      all_goals simp [take_snd, Op.plan, callsTotal]

/-- a read-only operation does to the process exactly what drawing the same number of values
from torch's generator does — nothing else -/
theorem step_pure {P O : Type} (S : Sem P O) (s : St P) (op : Op) (h : op.isPure = true) :
    (step S s op).1 = (step S s (.burn (stepDraws s op))).1 := by
  cases op <;> simp [Op.isPure] at h
  case burn m => simp [step, stepDraws, stepCalls, callsTotal]
  all_goals
    simp only [step, Op.slot?, stepDraws, stepCalls]
    split
    · simp [callsTotal, Gen.take]
    · simp only [slotStep]
      repeat' split
      all_goals simp_all [Op.plan, callsTotal, Gen.take]

theorem step_nextId_le {P O : Type} (S : Sem P O) (s : St P) (op : Op) :
    s.nextId ≤ (step S s op).1.nextId := by
  by_cases h : op.writesParams = false
  · rw [(step_objs_of_not_writes S s op h).2]
  · cases op <;> simp [Op.writesParams] at h
    case construct => simp [step]
    all_goals
      simp only [step, Op.slot?]
      split
      · exact Nat.le_refl _
      · simp only [slotStep]
        repeat' split
        all_goals exact Nat.le_refl _

/-- an operation changes at most the object it addresses (a construction: the fresh slot) -/
theorem step_objs_other {P O : Type} (S : Sem P O) (s : St P) (op : Op) (j : Nat)
    (hj : op.slot? ≠ some j) (hlt : j < s.nextId) : (step S s op).1.objs j = s.objs j := by
  by_cases h : op.writesParams = false
  · rw [(step_objs_of_not_writes S s op h).1]
  · cases op <;> simp [Op.writesParams] at h
    case construct =>
      simp only [step, upd]
      have : j ≠ s.nextId := by omega
      simp [this]
    all_goals
      simp only [Op.slot?, ne_eq, Option.some.injEq] at hj
      simp only [step, Op.slot?]
      split
      · rfl
      · simp only [slotStep]
        repeat' split
        all_goals simp [upd, Ne.symm hj]

/-- library operations (and foreign torch draws) never touch numpy's or Python's generator -/
theorem step_other_gens {P O : Type} (S : Sem P O) (s : St P) (op : Op) (h : op.isExternal = false) :
    (step S s op).1.numpyGen = s.numpyGen ∧ (step S s op).1.pyGen = s.pyGen := by
  cases op <;> simp [Op.isExternal] at h
  case setSeed s' cpu =>
    cases cpu
    · exact ⟨rfl, rfl⟩
    · simp only [step, if_true]
      cases seedWord s' <;> exact ⟨rfl, rfl⟩
  case burn => exact ⟨rfl, rfl⟩
  case construct => exact ⟨rfl, rfl⟩
  all_goals
    simp only [step, Op.slot?]
    split
    · exact ⟨rfl, rfl⟩
    · simp only [slotStep]
      repeat' split
      all_goals first | exact ⟨rfl, rfl⟩ | simp

theorem run_append {P O : Type} (S : Sem P O) (a b : List Op) :
    ∀ st : St P, run S st (a ++ b)
      = ((run S (run S st a).1 b).1, (run S st a).2 ++ (run S (run S st a).1 b).2) := by
  induction a with
  | nil => intro st; rfl
  | cons op ops ih =>
    intro st
    rw [List.cons_append, run_cons, run_cons, ih]
    by_cases h : op.isExternal = true <;> simp [h]

/-- the history with every read-only operation replaced by "draw as many values from torch's
generator as that operation draws" -/
def skeleton {P O : Type} (S : Sem P O) : St P → List Op → List Op
  | _, [] => []
  | st, op :: ops =>
    (if op.isPure then Op.burn (stepDraws st op) else op) :: skeleton S (step S st op).1 ops

theorem run_skeleton {P O : Type} (S : Sem P O) (ops : List Op) :
    ∀ st : St P, (run S st (skeleton S st ops)).1 = (run S st ops).1 := by
  induction ops with
  | nil => intro st; rfl
  | cons op ops ih =>
    intro st
    by_cases h : op.isPure = true
    · simp only [skeleton, h, if_true, run_cons]
      rw [← step_pure S st op h]
      exact ih _
    · simp only [skeleton, h, run_cons]
      exact ih _

/-! ### the seeding call: accepted seeds, and dependence of a run on the seed word's STREAM only -/

theorem step_setSeed_ok {P O : Type} (S : Sem P O) (st : St P) (s : Int) (w : Nat) (h : seedWord s = some w) :
    step S st (.setSeed s true) = ({ st with torchGen := ⟨w, 0⟩ }, .none) := by
  simp only [step, if_true, h]

theorem step_setSeed_rejected {P O : Type} (S : Sem P O) (st : St P) (s : Int) (h : seedWord s = none) :
    step S st (.setSeed s true) = (st, .err .ValueError) := by
  simp only [step, if_true, h]

/-- the same process with torch's generator carrying another seed word at the same position -/
def relabel {P : Type} (b : Nat) (st : St P) : St P := { st with torchGen := ⟨b, st.torchGen.pos⟩ }

theorem take_relabel (mix : Nat → Nat → Nat) (m : Nat) (g : Gen) (b : Nat)
    (h : ∀ i, mix g.seedOf i = mix b i) :
    Gen.take mix m ⟨b, g.pos⟩ = ((Gen.take mix m g).1, ⟨b, (Gen.take mix m g).2.pos⟩) := by
  apply Prod.ext
  · simp only [take_fst, h]
  · simp only [take_snd]

/-- one operation on a process whose generator carries a seed word with the same stream: same result; the processes
stay relabelings of each other, or become EQUAL when the operation is an accepted seeding -/
theorem step_relabel {P O : Type} (S : Sem P O) (st : St P) (b : Nat)
    (h : ∀ i, S.mix st.torchGen.seedOf i = S.mix b i) (op : Op) :
    (step S (relabel b st) op).2 = (step S st op).2 ∧
      ((step S (relabel b st) op).1 = relabel b (step S st op).1 ∧ (step S st op).1.torchGen.seedOf = st.torchGen.seedOf
        ∨ (step S (relabel b st) op).1 = (step S st op).1) := by
  have key : ∀ m, Gen.take S.mix m (relabel b st).torchGen
      = ((Gen.take S.mix m st.torchGen).1, ⟨b, (Gen.take S.mix m st.torchGen).2.pos⟩) :=
    fun m => take_relabel S.mix m st.torchGen b h
  cases op
  case setSeed s cpu =>
    cases cpu
    · exact ⟨rfl, Or.inl ⟨rfl, rfl⟩⟩
    · simp only [step, if_true]
      cases seedWord s
      · exact ⟨rfl, Or.inl ⟨rfl, rfl⟩⟩
      · exact ⟨rfl, Or.inr rfl⟩
  case burn m =>
    refine ⟨rfl, Or.inl ⟨?_, by simp [step, take_snd]⟩⟩
    simp only [step, key]; rfl
  case construct k n hh a =>
    refine ⟨rfl, Or.inl ⟨?_, by simp [step, take_snd]⟩⟩
    simp only [step, key]; rfl
  case seedNumpy => exact ⟨rfl, Or.inl ⟨rfl, rfl⟩⟩
  case perturbNumpy => exact ⟨rfl, Or.inl ⟨rfl, rfl⟩⟩
  case seedPy => exact ⟨rfl, Or.inl ⟨rfl, rfl⟩⟩
  case perturbPy => exact ⟨rfl, Or.inl ⟨rfl, rfl⟩⟩
  all_goals
    have hobjs : (relabel b st).objs = st.objs := rfl
    have hfiles : (relabel b st).files = st.files := rfl
    simp only [step, Op.slot?, hobjs]
    split
    · exact ⟨rfl, Or.inl ⟨rfl, rfl⟩⟩
    · simp only [slotStep, key, hfiles, hobjs]
      repeat' split
      all_goals first
        | exact ⟨rfl, Or.inl ⟨rfl, rfl⟩⟩
        | exact ⟨rfl, Or.inl ⟨rfl, by simp [take_snd]⟩⟩
        | (refine ⟨?_, Or.inl ⟨?_, ?_⟩⟩ <;> first | trivial | rfl | simp [relabel])

theorem run_relabel {P O : Type} (S : Sem P O) (ops : List Op) :
    ∀ (st : St P) (b : Nat), (∀ i, S.mix st.torchGen.seedOf i = S.mix b i) →
      (run S (relabel b st) ops).2 = (run S st ops).2 := by
  induction ops with
  | nil => intros; rfl
  | cons op ops ih =>
    intro st b h
    obtain ⟨h1, h2⟩ := step_relabel S st b h op
    rw [run_cons, run_cons, h1]
    have : (run S (step S (relabel b st) op).1 ops).2 = (run S (step S st op).1 ops).2 := by
      rcases h2 with ⟨h2, h3⟩ | h2
      · rw [h2]; exact ih _ b (by rw [h3]; exact h)
      · rw [h2]
    rw [this]

end QV.Frame
