/-
QV.Lemmas.Index — the big-endian index of a bit-vector (site 0 = most significant bit) as a digit sum,
and the index arithmetic used by the stages of `_kron_mult`.
-/
import Mathlib.Algebra.BigOperators.Fin
import Mathlib.Data.Fintype.BigOperators
import Mathlib.Tactic.Ring
import Mathlib.Tactic.Linarith
import QV.Model.Hilbert

namespace QV
open Finset

/-- `idxOf σ = Σ_j σ_j · 2^(n-1-j)` -/
def idxOf {n : ℕ} (σ : Fin n → Bool) : ℕ := ∑ j : Fin n, if σ j then 2 ^ (n - 1 - j.val) else 0

theorem idxOf_succ {n : ℕ} (σ : Fin (n + 1) → Bool) :
    idxOf σ = (if σ 0 then 2 ^ n else 0) + idxOf (fun j : Fin n => σ j.succ) := by
  unfold idxOf
  rw [Fin.sum_univ_succ]
  congr 1
  refine Finset.sum_congr rfl (fun j _ => ?_)
  have : n + 1 - 1 - (j.succ : Fin (n+1)).val = n - 1 - j.val := by simp; omega
  rw [this]

theorem idxOf_lt {n : ℕ} (σ : Fin n → Bool) : idxOf σ < 2 ^ n := by
  induction n with
  | zero => simp [idxOf]
  | succ k ih =>
    rw [idxOf_succ]
    have := ih (fun j => σ j.succ)
    split <;> omega

/-- the stride test of `_kron_mult`'s stage for site `s` reads bit `σ s` -/
theorem idxOf_div_mod {n : ℕ} (σ : Fin n → Bool) (s : Fin n) :
    (idxOf σ / 2 ^ (n - 1 - s.val)) % 2 = if σ s then 1 else 0 := by
  induction n with
  | zero => exact s.elim0
  | succ k ih =>
    rw [idxOf_succ]
    have hlt := idxOf_lt (fun j : Fin k => σ j.succ)
    refine Fin.cases ?_ (fun j => ?_) s
    · -- site 0: stride 2^k
      simp only [Fin.val_zero, Nat.add_sub_cancel, Nat.sub_zero]
      by_cases h0 : σ 0
      · simp only [h0, if_true]
        rw [Nat.add_comm, Nat.add_div_right _ (by positivity), Nat.div_eq_of_lt hlt]
      · simp only [h0, Bool.false_eq_true, if_false, Nat.zero_add]
        rw [Nat.div_eq_of_lt hlt]
    · -- site j+1: stride 2^(k-1-j) divides 2^k an even number of times
      have hj := ih (fun j : Fin k => σ j.succ) j
      have hexp : k + 1 - 1 - (j.succ : Fin (k+1)).val = k - 1 - j.val := by simp; omega
      rw [hexp]
      have hjk : j.val < k := j.isLt
      have hsplit : (2 : ℕ) ^ k = 2 ^ (k - 1 - j.val) * (2 * 2 ^ j.val) := by
        rw [← pow_succ', ← pow_add]; congr 1; omega
      by_cases h0 : σ 0
      · simp only [h0, if_true]
        rw [hsplit, Nat.mul_add_div (by positivity), Nat.add_mod, Nat.mul_mod_right, zero_add, Nat.mod_mod]
        exact hj
      · simp only [h0, Bool.false_eq_true, if_false, Nat.zero_add]
        exact hj

/-- toggling site `s` moves the index by the stride `2^(n-1-s)` -/
theorem idxOf_update {n : ℕ} (σ : Fin n → Bool) (s : Fin n) (t : Bool) :
    idxOf (Function.update σ s t) + (if σ s then 2 ^ (n - 1 - s.val) else 0)
      = idxOf σ + (if t then 2 ^ (n - 1 - s.val) else 0) := by
  unfold idxOf
  rw [← Finset.add_sum_erase univ _ (mem_univ s), ← Finset.add_sum_erase univ (fun j => if σ j then _ else _) (mem_univ s)]
  have : ∑ x ∈ univ.erase s, (if Function.update σ s t x then 2 ^ (n - 1 - x.val) else 0)
       = ∑ x ∈ univ.erase s, (if σ x then 2 ^ (n - 1 - x.val) else 0) := by
    refine Finset.sum_congr rfl (fun x hx => ?_)
    rw [Function.update_of_ne (Finset.ne_of_mem_erase hx)]
  rw [this, Function.update_self]
  ring

theorem idxOf_update_false {n : ℕ} (σ : Fin n → Bool) (s : Fin n) :
    idxOf (Function.update σ s false) = if σ s then idxOf σ - 2 ^ (n - 1 - s.val) else idxOf σ := by
  have := idxOf_update σ s false
  by_cases h : σ s <;> simp [h] at this ⊢ <;> omega

theorem idxOf_update_true {n : ℕ} (σ : Fin n → Bool) (s : Fin n) :
    idxOf (Function.update σ s true) = idxOf (Function.update σ s false) + 2 ^ (n - 1 - s.val) := by
  have h1 := idxOf_update σ s true
  have h2 := idxOf_update σ s false
  by_cases h : σ s <;> simp [h] at h1 h2 ⊢ <;> omega

end QV
