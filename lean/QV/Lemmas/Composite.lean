/-
QV.Lemmas.Composite — helper lemmas for C16: the value of a Python operand at one sample, and what each
constructor / overload / operator of the model does to it over a commutative ring.
-/
import Mathlib.Algebra.Ring.Defs
import Mathlib.Tactic.Ring
import QV.Model.Composite

namespace QV.Composite

variable {R : Type} [CommRing R]

/-- the number an operand stands for at one sample: the scalar itself, or the observable's `apply` value -/
def Arg.value (vals : Nat → R) : Arg R → R
  | .scal _ c => c
  | .obs o => o.apply vals

/-- is the operand an observable object? -/
def Arg.isObs {α : Type} : Arg α → Bool
  | .scal _ _ => false
  | .obs _ => true

@[simp] theorem value_scal (vals : Nat → R) (k : Kind) (c : R) : (Arg.scal k c).value vals = c := rfl
@[simp] theorem value_obs (vals : Nat → R) (o : Obs R) : (Arg.obs o).value vals = o.apply vals := rfl

theorem apply_sum (vals : Nat → R) (l r : Arg R) :
    (Obs.sum l r).apply vals = l.value vals + r.value vals := by
  cases l <;> cases r <;> (simp [Obs.apply, Arg.addObs, Arg.addScal]; try ring)

theorem apply_prod (vals : Nat → R) (k : Kind) (c : R) (o : Obs R) :
    (Obs.prod k c o).apply vals = c * o.apply vals := by
  simp [Obs.apply]

theorem mkSum_value (vals : Nat → R) {a b : Arg R} {o : Obs R} (h : mkSum a b = .ok o) :
    o.apply vals = a.value vals + b.value vals := by
  unfold mkSum at h
  split at h <;> try contradiction
  split at h <;> try contradiction
  cases h
  exact apply_sum vals a b

theorem mkProd_value (vals : Nat → R) {a b : Arg R} {o : Obs R} (h : mkProd a b = .ok o) :
    o.apply vals = a.value vals * b.value vals := by
  unfold mkProd at h
  split at h <;> try contradiction
  split at h <;> try contradiction
  split at h
  · cases h; simp [apply_prod]
  · cases h; simp [apply_prod, mul_comm]
  · contradiction

theorem neg_value (vals : Nat → R) {s o : Obs R} (h : s.neg = .ok o) : o.apply vals = -(s.apply vals) := by
  have := mkProd_value vals h
  simpa using this

omit [CommRing R] in
theorem liftObs_ok {r : Except PyErr (Obs R)} {v : Arg R} (h : liftObs r = .ok v) :
    ∃ o, r = .ok o ∧ v = .obs o := by
  cases r with
  | error e => simp [liftObs] at h
  | ok o => exact ⟨o, rfl, by simpa [liftObs] using h.symm⟩

theorem pyNeg_value (vals : Nat → R) {a v : Arg R} (h : pyNeg a = .ok v) : v.value vals = -(a.value vals) := by
  cases a with
  | scal k c =>
    simp only [pyNeg] at h
    split at h
    · cases h; rfl
    · contradiction
  | obs o =>
    simp only [pyNeg] at h
    split at h
    · rename_i r hr; cases h; simpa using neg_value vals hr
    · contradiction

theorem pyAdd_value (vals : Nat → R) {a b v : Arg R} (h : pyAdd a b = .ok v) :
    v.value vals = a.value vals + b.value vals := by
  cases a with
  | obs oa =>
    obtain ⟨o, ho, rfl⟩ := liftObs_ok (by simpa [pyAdd] using h)
    simpa using mkSum_value vals ho
  | scal k c =>
    cases b with
    | obs ob =>
      obtain ⟨o, ho, rfl⟩ := liftObs_ok (by simpa [pyAdd] using h)
      simpa using mkSum_value vals ho
    | scal k' c' =>
      simp only [pyAdd] at h
      split at h
      · cases h; rfl
      · contradiction

theorem pySub_value (vals : Nat → R) {a b v : Arg R} (h : pySub a b = .ok v) :
    v.value vals = a.value vals - b.value vals := by
  cases a with
  | obs oa =>
    obtain ⟨o, ho, rfl⟩ := liftObs_ok (by simpa [pySub] using h)
    simp only [Obs.sub] at ho
    split at ho
    · contradiction
    · rename_i n hn
      have h1 := mkSum_value vals ho
      have h2 := pyNeg_value vals hn
      simp only [value_obs] at h1 ⊢
      rw [h1, h2]; ring
  | scal k c =>
    cases b with
    | obs ob =>
      obtain ⟨o, ho, rfl⟩ := liftObs_ok (by simpa [pySub] using h)
      simp only [Obs.rsub] at ho
      split at ho
      · contradiction
      · rename_i n hn
        have h1 := mkSum_value vals ho
        have h2 := neg_value vals hn
        simp only [value_obs, value_scal] at h1 ⊢
        rw [h1, h2]; ring
    | scal k' c' =>
      simp only [pySub] at h
      split at h
      · cases h; rfl
      · contradiction

theorem pyMul_value (vals : Nat → R) {a b v : Arg R} (h : pyMul a b = .ok v) :
    v.value vals = a.value vals * b.value vals := by
  cases a with
  | obs oa =>
    obtain ⟨o, ho, rfl⟩ := liftObs_ok (by simpa [pyMul] using h)
    simpa using mkProd_value vals ho
  | scal k c =>
    cases b with
    | obs ob =>
      obtain ⟨o, ho, rfl⟩ := liftObs_ok (by simpa [pyMul] using h)
      simpa using mkProd_value vals ho
    | scal k' c' =>
      simp only [pyMul] at h
      split at h
      · cases h; rfl
      · contradiction

end QV.Composite

/-! ### what each Python operator does to the *kind* of its operands (no ring needed) -/

namespace QV.Composite
section shape
set_option linter.unusedSectionVars false
variable {α : Type} [Add α] [Mul α] [Neg α] [Sub α] [Zero α] [One α]

theorem pyNeg_char (v : Arg α) :
    if argOk v then ∃ w, pyNeg v = .ok w ∧ w.isObs = v.isObs ∧ argOk w = true
    else pyNeg v = .error .TypeError := by
  cases v with
  | scal k c => cases k <;> simp [argOk, pyNeg, Kind.numeric, Kind.negK, Arg.isObs]
  | obs o => simp [argOk, pyNeg, Obs.neg, mkProd, Kind.numeric, Arg.isObs]

theorem pyAdd_char (va vb : Arg α) :
    if argOk va && argOk vb then ∃ v, pyAdd va vb = .ok v ∧ v.isObs = (va.isObs || vb.isObs) ∧ argOk v = true
    else pyAdd va vb = .error .TypeError := by
  cases va with
  | scal k c =>
    cases vb with
    | scal k' c' =>
      cases k <;> cases k' <;> simp [argOk, pyAdd, Kind.numeric, Kind.arith, Arg.isObs]
    | obs o =>
      cases k <;> simp [argOk, pyAdd, liftObs, Obs.radd, mkSum, Kind.numeric, Kind.reflected, Arg.isObs]
  | obs o =>
    cases vb with
    | scal k' c' => cases k' <;> simp [argOk, pyAdd, liftObs, Obs.add, mkSum, Kind.numeric, Arg.isObs]
    | obs o' => simp [argOk, pyAdd, liftObs, Obs.add, mkSum, Arg.isObs]

theorem pySub_char (va vb : Arg α) :
    if argOk va && argOk vb then ∃ v, pySub va vb = .ok v ∧ v.isObs = (va.isObs || vb.isObs) ∧ argOk v = true
    else pySub va vb = .error .TypeError := by
  cases va with
  | scal k c =>
    cases vb with
    | scal k' c' =>
      cases k <;> cases k' <;> simp [argOk, pySub, Kind.numeric, Kind.arith, Arg.isObs]
    | obs o =>
      cases k <;> simp [argOk, pySub, liftObs, Obs.rsub, Obs.neg, mkProd, mkSum, Kind.numeric, Kind.reflected,
        Arg.isObs]
  | obs o =>
    cases vb with
    | scal k' c' =>
      cases k' <;> simp [argOk, pySub, liftObs, Obs.sub, pyNeg, mkSum, Kind.numeric, Kind.negK, Arg.isObs]
    | obs o' => simp [argOk, pySub, liftObs, Obs.sub, pyNeg, Obs.neg, mkProd, mkSum, Kind.numeric, Arg.isObs]

theorem pyMul_char (va vb : Arg α) :
    if argOk va && argOk vb then
      (if va.isObs && vb.isObs then pyMul va vb = .error .ValueError
       else ∃ v, pyMul va vb = .ok v ∧ v.isObs = (va.isObs || vb.isObs) ∧ argOk v = true)
    else pyMul va vb = .error .TypeError := by
  cases va with
  | scal k c =>
    cases vb with
    | scal k' c' =>
      cases k <;> cases k' <;> simp [argOk, pyMul, Kind.numeric, Kind.arith, Arg.isObs]
    | obs o =>
      cases k <;> simp [argOk, pyMul, liftObs, Obs.rmul, mkProd, Kind.numeric, Kind.reflected, Arg.isObs]
  | obs o =>
    cases vb with
    | scal k' c' => cases k' <;> simp [argOk, pyMul, liftObs, Obs.mul, mkProd, Kind.numeric, Arg.isObs]
    | obs o' => simp [argOk, pyMul, liftObs, Obs.mul, mkProd, Arg.isObs]

end shape
end QV.Composite
