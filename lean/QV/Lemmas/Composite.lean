/-
QV.Lemmas.Composite — helper lemmas for C16: the value of a Python operand at one sample, and what each
constructor / overload / operator of the model does to it over a commutative ring.
-/
import Mathlib.Algebra.Ring.Defs
import Mathlib.Tactic.Ring
import QV.Model.Composite

namespace QV.Composite

variable {R : Type} [CommRing R]

/-- the number an operand stands for at one sample: the scalar itself, or the observable's `apply` value -/
def Arg.value (vals : Nat → R) : Arg R → R
  | .scal _ c => c
  | .obs o => o.apply vals

/-- is the operand an observable object? -/
def Arg.isObs {α : Type} : Arg α → Bool
  | .scal _ _ => false
  | .obs _ => true

@[simp] theorem value_scal (vals : Nat → R) (k : Kind) (c : R) : (Arg.scal k c).value vals = c := rfl
@[simp] theorem value_obs (vals : Nat → R) (o : Obs R) : (Arg.obs o).value vals = o.apply vals := rfl

theorem apply_sum (vals : Nat → R) (l r : Arg R) :
    (Obs.sum l r).apply vals = l.value vals + r.value vals := by
  cases l <;> cases r <;> (simp [Obs.apply, Arg.addObs, Arg.addScal]; try ring)

theorem apply_prod (vals : Nat → R) (k : Kind) (c : R) (o : Obs R) :
    (Obs.prod k c o).apply vals = c * o.apply vals := by
  simp [Obs.apply]

theorem mkSum_value (vals : Nat → R) {a b : Arg R} {o : Obs R} (h : mkSum a b = .ok o) :
    o.apply vals = a.value vals + b.value vals := by
  unfold mkSum at h
  split at h <;> try contradiction
  split at h <;> try contradiction
  cases h
  exact apply_sum vals a b

theorem mkProd_value (vals : Nat → R) {a b : Arg R} {o : Obs R} (h : mkProd a b = .ok o) :
    o.apply vals = a.value vals * b.value vals := by
  unfold mkProd at h
  split at h <;> try contradiction
  split at h <;> try contradiction
  split at h
  · cases h; simp [apply_prod]
  · cases h; simp [apply_prod, mul_comm]
  · contradiction

theorem neg_value (vals : Nat → R) {s o : Obs R} (h : s.neg = .ok o) : o.apply vals = -(s.apply vals) := by
  have := mkProd_value vals h
  simpa using this

omit [CommRing R] in
theorem liftObs_ok {r : Except PyErr (Obs R)} {v : Arg R} (h : liftObs r = .ok v) :
    ∃ o, r = .ok o ∧ v = .obs o := by
  cases r with
  | error e => simp [liftObs] at h
  | ok o => exact ⟨o, rfl, by simpa [liftObs] using h.symm⟩

theorem pyNeg_value (vals : Nat → R) {a v : Arg R} (h : pyNeg a = .ok v) : v.value vals = -(a.value vals) := by
  cases a with
  | scal k c =>
    simp only [pyNeg] at h
    split at h
    · cases h; rfl
    · contradiction
  | obs o =>
    simp only [pyNeg] at h
    split at h
    · rename_i r hr; cases h; simpa using neg_value vals hr
    · contradiction

theorem pyAdd_value (vals : Nat → R) {a b v : Arg R} (h : pyAdd a b = .ok v) :
    v.value vals = a.value vals + b.value vals := by
  cases a with
  | obs oa =>
    obtain ⟨o, ho, rfl⟩ := liftObs_ok (by simpa [pyAdd] using h)
    simpa using mkSum_value vals ho
  | scal k c =>
    cases b with
    | obs ob =>
      obtain ⟨o, ho, rfl⟩ := liftObs_ok (by simpa [pyAdd] using h)
      simpa using mkSum_value vals ho
    | scal k' c' =>
      simp only [pyAdd] at h
      split at h
      · cases h; rfl
      · contradiction

theorem pySub_value (vals : Nat → R) {a b v : Arg R} (h : pySub a b = .ok v) :
    v.value vals = a.value vals - b.value vals := by
  cases a with
  | obs oa =>
    obtain ⟨o, ho, rfl⟩ := liftObs_ok (by simpa [pySub] using h)
    simp only [Obs.sub] at ho
    split at ho
    · contradiction
    · rename_i n hn
      have h1 := mkSum_value vals ho
      have h2 := pyNeg_value vals hn
      simp only [value_obs] at h1 ⊢
      rw [h1, h2]; ring
  | scal k c =>
    cases b with
    | obs ob =>
      obtain ⟨o, ho, rfl⟩ := liftObs_ok (by simpa [pySub] using h)
      simp only [Obs.rsub] at ho
      split at ho
      · contradiction
      · rename_i n hn
        have h1 := mkSum_value vals ho
        have h2 := neg_value vals hn
        simp only [value_obs, value_scal] at h1 ⊢
        rw [h1, h2]; ring
    | scal k' c' =>
      simp only [pySub] at h
      split at h
      · cases h; rfl
      · contradiction

theorem pyMul_value (vals : Nat → R) {a b v : Arg R} (h : pyMul a b = .ok v) :
    v.value vals = a.value vals * b.value vals := by
  cases a with
  | obs oa =>
    obtain ⟨o, ho, rfl⟩ := liftObs_ok (by simpa [pyMul] using h)
    simpa using mkProd_value vals ho
  | scal k c =>
    cases b with
    | obs ob =>
      obtain ⟨o, ho, rfl⟩ := liftObs_ok (by simpa [pyMul] using h)
      simpa using mkProd_value vals ho
    | scal k' c' =>
      simp only [pyMul] at h
      split at h
      · cases h; rfl
      · contradiction

end QV.Composite

/-! ### what each Python operator does to the *kind* of its operands (no ring needed) -/

namespace QV.Composite
section shape
set_option linter.unusedSectionVars false
variable {α : Type} [Add α] [Mul α] [Neg α] [Sub α] [Zero α] [One α]

theorem pyNeg_char (v : Arg α) :
    if argOk v then ∃ w, pyNeg v = .ok w ∧ w.isObs = v.isObs ∧ argOk w = true
    else pyNeg v = .error .TypeError := by
  cases v with
  | scal k c => cases k <;> simp [argOk, pyNeg, Kind.numeric, Kind.negK, Arg.isObs]
  | obs o => simp [argOk, pyNeg, Obs.neg, mkProd, Kind.numeric, Arg.isObs]

theorem pyAdd_char (va vb : Arg α) :
    if argOk va && argOk vb then ∃ v, pyAdd va vb = .ok v ∧ v.isObs = (va.isObs || vb.isObs) ∧ argOk v = true
    else pyAdd va vb = .error .TypeError := by
  cases va with
  | scal k c =>
    cases vb with
    | scal k' c' =>
      cases k <;> cases k' <;> simp [argOk, pyAdd, Kind.numeric, Kind.arith, Arg.isObs]
    | obs o =>
      cases k <;> simp [argOk, pyAdd, liftObs, Obs.radd, mkSum, Kind.numeric, Kind.reflected, Arg.isObs]
  | obs o =>
    cases vb with
    | scal k' c' => cases k' <;> simp [argOk, pyAdd, liftObs, Obs.add, mkSum, Kind.numeric, Arg.isObs]
    | obs o' => simp [argOk, pyAdd, liftObs, Obs.add, mkSum, Arg.isObs]

theorem pySub_char (va vb : Arg α) :
    if argOk va && argOk vb then ∃ v, pySub va vb = .ok v ∧ v.isObs = (va.isObs || vb.isObs) ∧ argOk v = true
    else pySub va vb = .error .TypeError := by
  cases va with
  | scal k c =>
    cases vb with
    | scal k' c' =>
      cases k <;> cases k' <;> simp [argOk, pySub, Kind.numeric, Kind.arith, Arg.isObs]
    | obs o =>
      cases k <;> simp [argOk, pySub, liftObs, Obs.rsub, Obs.neg, mkProd, mkSum, Kind.numeric, Kind.reflected,
        Arg.isObs]
  | obs o =>
    cases vb with
    | scal k' c' =>
      cases k' <;> simp [argOk, pySub, liftObs, Obs.sub, pyNeg, mkSum, Kind.numeric, Kind.negK, Arg.isObs]
    | obs o' => simp [argOk, pySub, liftObs, Obs.sub, pyNeg, Obs.neg, mkProd, mkSum, Kind.numeric, Arg.isObs]

theorem pyMul_char (va vb : Arg α) :
    if argOk va && argOk vb then
      (if va.isObs && vb.isObs then pyMul va vb = .error .ValueError
       else ∃ v, pyMul va vb = .ok v ∧ v.isObs = (va.isObs || vb.isObs) ∧ argOk v = true)
    else pyMul va vb = .error .TypeError := by
  cases va with
  | scal k c =>
    cases vb with
    | scal k' c' =>
      cases k <;> cases k' <;> simp [argOk, pyMul, Kind.numeric, Kind.arith, Arg.isObs]
    | obs o =>
      cases k <;> simp [argOk, pyMul, liftObs, Obs.rmul, mkProd, Kind.numeric, Kind.reflected, Arg.isObs]
  | obs o =>
    cases vb with
    | scal k' c' => cases k' <;> simp [argOk, pyMul, liftObs, Obs.mul, mkProd, Kind.numeric, Arg.isObs]
    | obs o' => simp [argOk, pyMul, liftObs, Obs.mul, mkProd, Arg.isObs]

end shape

/-! ### names and symbols: the builder with strings (`buildN`) simulates `build` and produces the specified text -/
section names
set_option linter.unusedSectionVars false
variable {α : Type} [Add α] [Mul α] [Neg α] [Sub α] [Zero α] [One α]

/-- is the operand a scalar? -/
def NArg.isScal : NArg α → Bool
  | .scal _ _ => true
  | .obs _ => false

/-- text of the negated operand: Python's rendering of `-c`, or `"-"` in front of the observable's string -/
def negText (R : Render α) (nm : Bool) : NArg α → String
  | .scal k c => R.text nm k.negK (-c)
  | .obs n => "-" ++ (if nm then n.name else n.symbol)

theorem pyNegN_spec (R : Render α) (v : NArg α) :
    match pyNegN R v with
    | .ok w => pyNeg v.arg = .ok w.arg ∧ w.isScal = v.isScal ∧ (∀ nm, w.text R nm = negText R nm v) ∧
        (∀ k c, v = .scal k c → k.numeric = true)
    | .error err => pyNeg v.arg = .error err := by
  cases v with
  | scal k c => cases k <;> simp [pyNegN, pyNeg, NArg.arg, NArg.isScal, NArg.text, negText, Kind.numeric]
  | obs n =>
    simp only [pyNegN, NObs.neg, mkProdN, NArg.arg, argOk, Kind.numeric, liftN, pyNeg, Obs.neg, mkProd, label,
      NArg.isScal, NArg.text, negText]
    refine ⟨by simp, by simp, ?_, by simp⟩
    intro nm; cases nm <;> simp

theorem pyAddN_spec (R : Render α) (va vb : NArg α) :
    match pyAddN R va vb with
    | .ok v => pyAdd va.arg vb.arg = .ok v.arg ∧ v.isScal = (va.isScal && vb.isScal) ∧
        (∀ nm, v.isScal = false → v.text R nm = "(" ++ va.text R nm ++ " + " ++ vb.text R nm ++ ")")
    | .error err => pyAdd va.arg vb.arg = .error err := by
  cases va with
  | scal k c =>
    cases vb with
    | scal k' c' =>
      cases k <;> cases k' <;> simp [pyAddN, pyAdd, NArg.arg, NArg.isScal, Kind.numeric]
    | obs n =>
      cases k <;> simp [pyAddN, pyAdd, NArg.arg, NArg.isScal, Kind.numeric, Kind.reflected, mkSumN, liftN, liftObs,
        Obs.radd, mkSum, argOk, label, NArg.text]
  | obs n =>
    cases vb with
    | scal k' c' =>
      cases k' <;> simp [pyAddN, pyAdd, NArg.arg, NArg.isScal, Kind.numeric, mkSumN, liftN, liftObs,
        Obs.add, mkSum, argOk, label, NArg.text]
    | obs n' =>
      simp [pyAddN, pyAdd, NArg.arg, NArg.isScal, mkSumN, liftN, liftObs, Obs.add, mkSum, argOk, label, NArg.text]

theorem pySubN_spec (R : Render α) (va vb : NArg α) :
    match pySubN R va vb with
    | .ok v => pySub va.arg vb.arg = .ok v.arg ∧ v.isScal = (va.isScal && vb.isScal) ∧
        (∀ nm, v.isScal = false → v.text R nm = "(" ++ va.text R nm ++ " + " ++ negText R nm vb ++ ")") ∧
        (v.isScal = false → ∀ k c, vb = .scal k c → k.numeric = true)
    | .error err => pySub va.arg vb.arg = .error err := by
  cases va with
  | scal k c =>
    cases vb with
    | scal k' c' =>
      cases k <;> cases k' <;> simp [pySubN, pySub, NArg.arg, NArg.isScal, Kind.numeric]
    | obs n =>
      cases k <;> simp [pySubN, pySub, NArg.arg, NArg.isScal, Kind.numeric, Kind.reflected, mkSumN, liftN, liftObs,
        Obs.rsub, Obs.neg, NObs.neg, mkProdN, mkProd, mkSum, argOk, label, NArg.text, negText]
  | obs n =>
    cases vb with
    | scal k' c' =>
      cases k' <;> simp [pySubN, pySub, pyNegN, pyNeg, NArg.arg, NArg.isScal, Kind.numeric, Kind.negK, mkSumN, liftN,
        liftObs, Obs.sub, mkSum, argOk, label, NArg.text, negText]
    | obs n' =>
      simp [pySubN, pySub, pyNegN, pyNeg, NArg.arg, NArg.isScal, mkSumN, liftN, liftObs, Obs.sub, Obs.neg, NObs.neg,
        mkProdN, mkProd, mkSum, argOk, Kind.numeric, label, NArg.text, negText]

theorem pyMulN_spec (R : Render α) (va vb : NArg α) :
    match pyMulN R va vb with
    | .ok v => pyMul va.arg vb.arg = .ok v.arg ∧ v.isScal = (va.isScal && vb.isScal) ∧
        (∀ nm, v.isScal = false → v.text R nm =
          if va.isScal then "(" ++ va.text R nm ++ " * " ++ vb.text R nm ++ ")"
          else "(" ++ vb.text R nm ++ " * " ++ va.text R nm ++ ")")
    | .error err => pyMul va.arg vb.arg = .error err := by
  cases va with
  | scal k c =>
    cases vb with
    | scal k' c' =>
      cases k <;> cases k' <;> simp [pyMulN, pyMul, NArg.arg, NArg.isScal, Kind.numeric]
    | obs n =>
      cases k <;> simp [pyMulN, pyMul, NArg.arg, NArg.isScal, Kind.numeric, Kind.reflected, mkProdN, liftN, liftObs,
        Obs.rmul, mkProd, argOk, label, NArg.text]
  | obs n =>
    cases vb with
    | scal k' c' =>
      cases k' <;> simp [pyMulN, pyMul, NArg.arg, NArg.isScal, Kind.numeric, mkProdN, liftN, liftObs,
        Obs.mul, mkProd, argOk, label, NArg.text]
    | obs n' =>
      simp [pyMulN, pyMul, NArg.arg, mkProdN, liftN, liftObs, Obs.mul, mkProd, argOk]

/-- a scalar expression reads as Python prints its value -/
theorem exprText_scalar (R : Render α) (ids : Nat → Ident) (nm : Bool) (e : Expr α) (h : e.isScalar = true) :
    exprText R ids nm e = scalText R nm e := by
  cases e with
  | leaf i => simp [Expr.isScalar] at h
  | const k c => simp [exprText, scalText, build]
  | neg a => simp only [Expr.isScalar] at h; simp [exprText, h]
  | add a b => simp only [Expr.isScalar] at h; simp [exprText, h]
  | sub a b => simp only [Expr.isScalar] at h; simp [exprText, h]
  | mul a b => simp only [Expr.isScalar] at h; simp [exprText, h]

end names

end QV.Composite
