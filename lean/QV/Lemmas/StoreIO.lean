/-
QV.Lemmas.StoreIO — helper lemmas for C11: what `save` writes (closed form as an append), what
`load_state_dict` / `load` / `autoload` read back on well-formed heaps.
-/
import QV.Lemmas.Store

namespace QV.Store

/-! ### `dict.update` with fresh keys appends -/
section
variable {κ β : Type} [DecidableEq κ]

theorem aset_fresh (d : List (κ × β)) (k : κ) (v : β) (hk : k ∉ keys d) : aset d k v = d ++ [(k, v)] := by
  induction d with
  | nil => rfl
  | cons a r ih =>
    obtain ⟨k0, w⟩ := a
    simp only [keys, List.map_cons, List.mem_cons, not_or] at hk
    have h0 : ¬ k0 = k := fun e => hk.1 e.symm
    simp only [aset, h0, if_false, List.cons_append]
    rw [ih hk.2]

theorem aupdate_fresh (d e : List (κ × β)) (hd : ∀ k ∈ keys e, k ∉ keys d) (he : (keys e).Nodup) :
    aupdate d e = d ++ e := by
  unfold aupdate
  induction e generalizing d with
  | nil => simp
  | cons a r ih =>
    obtain ⟨k, v⟩ := a
    simp only [keys, List.map_cons, List.nodup_cons] at he
    simp only [List.foldl_cons]
    have hk : k ∉ keys d := hd k (by simp [keys])
    rw [aset_fresh d k v hk, ih]
    · simp
    · intro k' hk' hm
      simp only [keys, List.map_append, List.map_cons, List.map_nil, List.mem_append, List.mem_singleton] at hm
      rcases hm with hm | hm
      · exact hd k' (by simp only [keys, List.map_cons, List.mem_cons]; exact Or.inr hk') hm
      · subst hm; exact he.1 hk'
    · exact he.2
end

/-! ### what `save` writes -/

theorem pickle_append (h : Heap) (a b : List (MKey × DVal)) : pickle h (a ++ b) = pickle h a ++ pickle h b := by
  simp [pickle]

theorem pickle_vals (h : Heap) (e : MDict) : pickle h (e.map (fun kv => (kv.1, DVal.val kv.2))) = e := by
  simp [pickle, List.map_map, Function.comp_def]

theorem pickle_stateDicts (h : Heap) (nets : List (String × Nat)) :
    pickle h (stateDicts h nets) = nets.map (fun p => (MKey.str p.1, FVal.sd (viewNet h p.2))) := by
  simp only [pickle, stateDicts, List.map_map]
  apply List.map_congr_left
  intro p _
  simp only [Function.comp_def, viewNet]
  cases h.nets p.2 <;> simp [viewParams]

theorem keys_stateDicts (h : Heap) (nets : List (String × Nat)) :
    keys (stateDicts h nets) = nets.map (fun p => MKey.str p.1) := by
  simp [keys, stateDicts, List.map_map, Function.comp_def]

/-- `saveMeta` appends the unitary dict when the key is not yet there -/
theorem saveMeta_eq (st : NState) (e0 : MDict) (hk : st.ud.isSome → MKey.str "unitary_dict" ∉ keys e0) :
    saveMeta st e0 = e0 ++ (match st.ud with
      | some u => [(MKey.str "unitary_dict", u)]
      | none => []) := by
  unfold saveMeta
  cases hu : st.ud with
  | none => simp
  | some u => exact aset_fresh e0 _ u (hk (by simp [hu]))

/-- the file written by a successful `save` is: the networks' state dicts, then the metadata -/
theorem savedFile_eq (h : Heap) (st : NState) (e0 : MDict)
    (hn : (keys (saveMeta st e0)).Nodup)
    (hd : ∀ k ∈ keys (saveMeta st e0), k ∉ st.nets.map (fun p => MKey.str p.1)) :
    savedFile h st e0 = st.nets.map (fun p => (MKey.str p.1, FVal.sd (viewNet h p.2))) ++ saveMeta st e0 := by
  unfold savedFile
  rw [aupdate_fresh]
  · rw [pickle_append, pickle_stateDicts, pickle_vals]
  · intro k hk
    rw [keys_stateDicts]
    rw [keys_map_val] at hk
    exact hd k hk
  · rw [keys_map_val]; exact hn

/-! ### `load_state_dict` on a well-formed network -/

/-- every own parameter finds an entry of its own shape: all are copied and no error is recorded -/
theorem copyParams_view (h : Heap) (sd : SD) (ps : List (String × Nat))
    (hnd : (ids ps).Nodup) (hal : ∀ x ∈ ids ps, (h.tens x).isSome)
    (hent : ∀ p ∈ ps, ∃ e, aget sd p.1 = some e ∧ e.1 = (h.readT p.2).1) :
    (copyParams h sd ps).2 = true ∧
    viewParams (copyParams h sd ps).1 ps = ps.map (fun p => (p.1, (aget sd p.1).getD ([], 0))) := by
  induction ps generalizing h with
  | nil => simp [copyParams, viewParams]
  | cons p r ih =>
    obtain ⟨nm, id⟩ := p
    simp only [ids, List.map_cons, List.nodup_cons] at hnd
    obtain ⟨e, he, hsh⟩ := hent (nm, id) (by simp)
    obtain ⟨sh, tok⟩ := e
    have hsome := hal id (by simp [ids])
    cases ht : h.tens id with
    | none => simp [ht] at hsome
    | some x =>
      obtain ⟨sh0, tok0⟩ := x
      have hsh' : sh = sh0 := by simpa [Heap.readT, ht] using hsh
      subst hsh'
      have t := touches_setTok h id tok
      have ih' := ih (h.setTok id tok) hnd.2
        (fun x hx => by rw [t.isSome]; exact hal x (by simp only [ids, List.map_cons, List.mem_cons]; exact Or.inr hx))
        (fun p hp => by
          obtain ⟨e, he, hs⟩ := hent p (List.mem_cons_of_mem _ hp)
          exact ⟨e, he, by rw [t.readT_shape]; exact hs⟩)
      simp only [copyParams, he, ht, if_true]
      refine ⟨ih'.1, ?_⟩
      simp only [viewParams, List.map_cons] at ih' ⊢
      rw [ih'.2]
      congr 1
      have t2 := touches_copyParams (h.setTok id tok) sd r
      have hid : id ∉ ids r := hnd.1
      rw [t2.readT_frame id hid, readT_setTok_same h id tok (by simp [ht])]
      simp [he, Heap.readT, ht]

/-- looking every name of an association list up in itself returns the list, when names are distinct -/
theorem map_aget_self {β : Type} (sd : List (String × β)) (d : β) (hn : (keys sd).Nodup) :
    sd.map (fun e => (e.1, (aget sd e.1).getD d)) = sd := by
  have key : ∀ e ∈ sd, aget sd e.1 = some e.2 := fun e he => aget_of_mem_nodup sd e.1 e.2 he hn
  conv => rhs; rw [← List.map_id sd]
  apply List.map_congr_left
  intro e he
  simp [key e he]

theorem map_fst_of_shapesOf {sd sd' : SD} (h : shapesOf sd = shapesOf sd') : sd.map Prod.fst = sd'.map Prod.fst := by
  have := congrArg (List.map Prod.fst) h
  simpa [shapesOf, List.map_map, Function.comp_def] using this

theorem names_viewParams (h : Heap) (ps : List (String × Nat)) : (viewParams h ps).map Prod.fst = ps.map Prod.fst := by
  simp [viewParams, List.map_map, Function.comp_def]

theorem paramSpecs_names_nodup (k : NetKind) (nv nh na : Nat) (rand : List Tok) :
    ((paramSpecs k nv nh na rand).map Prod.fst).Nodup := by
  cases k <;> simp [paramSpecs]

/-- parameter names of a network object of a well-formed heap are distinct -/
theorem HeapWF.names_nodup {h : Heap} (wf : HeapWF h) (i : Nat) (net : Net) (hn : h.nets i = some net) :
    (net.params.map Prod.fst).Nodup := by
  have := map_fst_of_shapesOf (wf.shapes i net hn)
  rw [names_viewParams] at this
  rw [this]; exact paramSpecs_names_nodup _ _ _ _ _

/-- pointwise consequence of equal name/shape lists -/
theorem shapesOf_entry {sd : SD} {h : Heap} {ps : List (String × Nat)}
    (hs : shapesOf sd = shapesOf (viewParams h ps)) (hn : (keys sd).Nodup) :
    ∀ p ∈ ps, ∃ e, aget sd p.1 = some e ∧ e.1 = (h.readT p.2).1 := by
  induction ps generalizing sd with
  | nil => intro p hp; simp at hp
  | cons q r ih =>
    cases sd with
    | nil => simp [shapesOf, viewParams] at hs
    | cons e0 sr =>
      obtain ⟨nm0, sh0, tok0⟩ := e0
      simp only [shapesOf, viewParams, List.map_cons, List.cons.injEq, Prod.mk.injEq] at hs
      obtain ⟨⟨hnm, hsh⟩, hrest⟩ := hs
      simp only [keys, List.map_cons, List.nodup_cons] at hn
      intro p hp
      rcases List.mem_cons.1 hp with hp | hp
      · subst hp
        exact ⟨(sh0, tok0), by simp [aget_cons, hnm], hsh⟩
      · obtain ⟨e, he, hes⟩ := ih (sd := sr) hrest hn.2 p hp
        refine ⟨e, ?_, hes⟩
        have hne : nm0 ≠ p.1 := by
          intro heq
          have : p.1 ∈ List.map Prod.fst sr := List.mem_map.2 ⟨(p.1, e), aget_mem sr p.1 e he, rfl⟩
          exact hn.1 (heq ▸ this)
        simp [aget_cons, hne, he]

/-- `load_state_dict` of a `state_dict` with this network's names and shapes succeeds and makes the
network's contents equal to it -/
theorem loadStateDict_ok {h : Heap} (wf : HeapWF h) (i : Nat) (net : Net) (hn : h.nets i = some net) (sd : SD)
    (hs : shapesOf sd = shapesOf (viewParams h net.params)) :
    (loadStateDict h net (.sd sd)).2 = none ∧ viewParams (loadStateDict h net (.sd sd)).1 net.params = sd := by
  have hnames : sd.map Prod.fst = net.params.map Prod.fst := by
    rw [map_fst_of_shapesOf hs, names_viewParams]
  have hkn : (keys sd).Nodup := by
    unfold keys; rw [hnames]; exact wf.names_nodup i net hn
  obtain ⟨c1, c2⟩ := copyParams_view h sd net.params (wf.nodup i net hn) (wf.alloc i net hn)
    (shapesOf_entry hs hkn)
  have hun : (sd.any fun e => !ahas net.params e.1) = false := by
    rw [List.any_eq_false]
    intro e he
    have : e.1 ∈ keys net.params := by
      unfold keys; rw [← hnames]; exact List.mem_map.2 ⟨e, he, rfl⟩
    simp [(ahas_iff net.params e.1).2 this]
  simp only [loadStateDict, c1, hun, Bool.not_false, Bool.and_self, if_true, true_and]
  rw [c2]
  have : net.params.map (fun p => (p.1, (aget sd p.1).getD ([], 0)))
      = sd.map (fun e => (e.1, (aget sd e.1).getD ([], 0))) := by
    have e1 : net.params.map (fun p => (p.1, (aget sd p.1).getD ([], 0)))
        = (net.params.map Prod.fst).map (fun n => (n, (aget sd n).getD ([], 0))) := by
      simp [List.map_map, Function.comp_def]
    have e2 : sd.map (fun e => (e.1, (aget sd e.1).getD ([], 0)))
        = (sd.map Prod.fst).map (fun n => (n, (aget sd n).getD ([], 0))) := by
      simp [List.map_map, Function.comp_def]
    rw [e1, e2, hnames]
  rw [this]
  exact map_aget_self sd _ hkn

theorem viewNet_touches_disj {h h' : Heap} {S : List Nat} (a : Touches h h' S) (id : Nat)
    (hd : ∀ net, h.nets id = some net → ∀ x ∈ ids net.params, x ∉ S) : viewNet h' id = viewNet h id := by
  unfold viewNet
  rw [a.nets]
  cases hn : h.nets id with
  | none => rfl
  | some net => exact viewParams_frame a net.params (hd net hn)

/-- in a well-formed heap, the parameter tensors of a network are disjoint from those of any list of
other networks -/
theorem HeapWF.disj_netsIds {h : Heap} (wf : HeapWF h) (id : Nat) (net : Net) (hn : h.nets id = some net)
    (nets : List (String × Nat)) (hid : id ∉ ids nets) : ∀ x ∈ ids net.params, x ∉ netsIds h nets := by
  intro x hx hm
  simp only [netsIds, List.mem_flatMap] at hm
  obtain ⟨p, hp, hxp⟩ := hm
  cases hn2 : h.nets p.2 with
  | none => simp [hn2] at hxp
  | some n2 =>
    simp only [hn2] at hxp
    have hne : id ≠ p.2 := fun e => hid (e ▸ List.mem_map.2 ⟨p, hp, rfl⟩)
    exact wf.disj id p.2 net n2 hn hn2 hne x hx hxp

/-- the file entry of every network of the list is a `state_dict` with that network's names and shapes -/
def Compatible (h : Heap) (file : File) (nets : List (String × Nat)) : Prop :=
  ∀ p ∈ nets, ∃ sd, aget file (.str p.1) = some (.sd sd) ∧ shapesOf sd = shapesOf (viewNet h p.2)

theorem Compatible.touches {h h' : Heap} {S : List Nat} (a : Touches h h' S) {file : File}
    {nets : List (String × Nat)} (c : Compatible h file nets) : Compatible h' file nets := by
  intro p hp
  obtain ⟨sd, h1, h2⟩ := c p hp
  refine ⟨sd, h1, ?_⟩
  rw [h2]
  unfold viewNet
  rw [a.nets]
  cases h.nets p.2 with
  | none => rfl
  | some net => exact (shapesOf_viewParams_touches a net.params).symm

/-- loading all networks of a state from a compatible file succeeds; afterwards every network's contents
equal its file entry -/
theorem loadNets_ok {h : Heap} (wf : HeapWF h) (file : File) (nets : List (String × Nat))
    (hex : ∀ p ∈ nets, (h.nets p.2).isSome) (hnd : (ids nets).Nodup) (hc : Compatible h file nets) :
    (loadNets h file nets).2 = none ∧
    ∀ p ∈ nets, aget file (.str p.1) = some (.sd (viewNet (loadNets h file nets).1 p.2)) := by
  induction nets generalizing h with
  | nil => simp [loadNets]
  | cons q r ih =>
    obtain ⟨nm, id⟩ := q
    obtain ⟨sd, hsd, hsh⟩ := hc (nm, id) (by simp)
    have hsome := hex (nm, id) (by simp)
    cases hn : h.nets id with
    | none => simp [hn] at hsome
    | some net =>
      simp only [viewNet, hn] at hsh
      obtain ⟨l1, l2⟩ := loadStateDict_ok wf id net hn sd hsh
      have t1 := touches_loadStateDict h net (.sd sd)
      simp only [ids, List.map_cons, List.nodup_cons] at hnd
      have wf1 := wf.touches t1
      have ih' := ih wf1 (fun p hp => by rw [t1.nets]; exact hex p (List.mem_cons_of_mem _ hp)) hnd.2
        (Compatible.touches t1 (fun p hp => hc p (List.mem_cons_of_mem _ hp)))
      simp only [loadNets, hsd, hn, l1]
      refine ⟨ih'.1, ?_⟩
      intro p hp
      rcases List.mem_cons.1 hp with hp | hp
      · subst hp
        have t2 := touches_loadNets (loadStateDict h net (.sd sd)).1 file r
        have hn1 : (loadStateDict h net (.sd sd)).1.nets id = some net := by rw [t1.nets]; exact hn
        rw [viewNet_touches_disj t2 id (fun n hn' x hx => by
          rw [hn1] at hn'; cases hn'
          exact wf1.disj_netsIds id net hn1 r hnd.1 x hx)]
        simp only [viewNet, hn1, l2]
        exact hsd
      · exact ih'.2 p hp


/-- `load` from a compatible file succeeds; afterwards every network's contents equal its file entry and
the unitary dict is the file's (when the state has one and the file has the key); nothing else changes -/
theorem load_ok {h : Heap} (wf : HeapWF h) (fs : Files) (st : NState) (path : Nat) (file : File)
    (hf : fs path = some file) (ok : StateOK h st) (hc : Compatible h file st.nets) :
    (load h fs st path).2.2 = none ∧
    (∀ p ∈ st.nets, aget file (.str p.1) = some (.sd (viewNet (load h fs st path).1 p.2))) ∧
    (load h fs st path).2.1 = { st with ud := match st.ud, aget file (.str "unitary_dict") with
      | some _, some u => some u
      | _, _ => st.ud } := by
  obtain ⟨l1, l2⟩ := loadNets_ok wf file st.nets ok.nets ok.idsNodup hc
  unfold load
  simp only [hf, l1]
  cases hu : st.ud with
  | none => exact ⟨rfl, l2, by simp [← hu]⟩
  | some u0 =>
    cases hg : aget file (.str "unitary_dict") with
    | none => exact ⟨rfl, l2, by simp [← hu]⟩
    | some u => exact ⟨rfl, l2, rfl⟩

/-- tensor ids of a network object -/
def netIds (h : Heap) (id : Nat) : List Nat :=
  match h.nets id with
  | some net => ids net.params
  | none => []

/-- an allocation leaves the existing network objects and their contents alone -/
theorem allocNet_old {h : Heap} (wf : HeapWF h) (k : NetKind) (nv nh na : Nat) (specs : SD) (i : Nat)
    (hi : (h.nets i).isSome) :
    (allocNet h k nv nh na specs).1.nets i = h.nets i ∧
    viewNet (allocNet h k nv nh na specs).1 i = viewNet h i := by
  obtain ⟨hid, _, _, hold, hten, _⟩ := allocNet_spec h k nv nh na specs
  have hlt := wf.net_lt i hi
  have e1 := hold i (by omega)
  refine ⟨e1, ?_⟩
  unfold viewNet
  rw [e1]
  cases hn : h.nets i with
  | none => rfl
  | some net =>
    unfold viewParams
    apply List.map_congr_left
    intro p hp
    have := wf.alloc i net hn p.2 (List.mem_map.2 ⟨p, hp, rfl⟩)
    simp [Heap.readT, hten p.2 (wf.lt_of_isSome p.2 this)]

/-- the new network object of an allocation -/
theorem allocNet_new (h : Heap) (k : NetKind) (nv nh na : Nat) (specs : SD) :
    ∃ ps, (allocNet h k nv nh na specs).1.nets (allocNet h k nv nh na specs).2 = some ⟨k, nv, nh, na, ps⟩ ∧
      viewNet (allocNet h k nv nh na specs).1 (allocNet h k nv nh na specs).2 = specs ∧
      (∀ x ∈ ids ps, h.next ≤ x) ∧ h.next ≤ (allocNet h k nv nh na specs).2 := by
  obtain ⟨hid, _, ⟨ps, hn, hv, hm⟩, _⟩ := allocNet_spec h k nv nh na specs
  refine ⟨ps, hn, ?_, fun x hx => ((hm x).1 hx).1, by omega⟩
  simp only [viewNet, hn]; exact hv


/-- re-initialising one network object leaves the other network objects and their contents alone -/
theorem initParams_old {h : Heap} (wf : HeapWF h) (id : Nat) (rand : List Tok) (i : Nat) (hne : i ≠ id) :
    (initParams h id rand).nets i = h.nets i ∧ viewNet (initParams h id rand) i = viewNet h i := by
  cases hn : h.nets id with
  | none => simp [initParams, hn]
  | some net =>
    obtain ⟨_, _, hold, hten, _⟩ := initParams_spec h id rand net hn
    have e1 := hold i hne
    refine ⟨e1, ?_⟩
    unfold viewNet
    rw [e1]
    cases hn2 : h.nets i with
    | none => rfl
    | some n2 =>
      unfold viewParams
      apply List.map_congr_left
      intro p hp
      have := wf.alloc i n2 hn2 p.2 (List.mem_map.2 ⟨p, hp, rfl⟩)
      simp [Heap.readT, hten p.2 (wf.lt_of_isSome p.2 this)]

/-- the re-initialised network object: same object and size attributes, fresh parameter tensors whose
contents are the initial values for those sizes -/
theorem initParams_new (h : Heap) (id : Nat) (rand : List Tok) (net : Net) (hn : h.nets id = some net) :
    ∃ ps, (initParams h id rand).nets id = some { net with params := ps } ∧
      viewNet (initParams h id rand) id = paramSpecs net.kind net.nv net.nh net.na rand ∧
      (∀ x ∈ ids ps, h.next ≤ x) ∧ h.next ≤ (initParams h id rand).next := by
  obtain ⟨hnx, ⟨ps, hnew, hv, hm⟩, _⟩ := initParams_spec h id rand net hn
  refine ⟨ps, hnew, ?_, fun x hx => ((hm x).1 hx).1, by omega⟩
  simp only [viewNet, hnew]; exact hv

/-- `reinitialize_parameters` on pairwise different network objects: every network of the list keeps its
identity and size attributes and gets fresh parameters holding the initial values (weights from the
generator, zero biases); entry `j` of `rand` feeds network `j`. -/
theorem reinit_spec {h : Heap} (wf : HeapWF h) (nets : List (String × Nat)) (rand : List (List Tok))
    (hex : ∀ p ∈ nets, (h.nets p.2).isSome) (hnd : (ids nets).Nodup) :
    ∀ j p, nets[j]? = some p → ∃ net ps, h.nets p.2 = some net ∧
      (reinit h nets rand).nets p.2 = some { net with params := ps } ∧
      viewNet (reinit h nets rand) p.2 = paramSpecs net.kind net.nv net.nh net.na (rand.getD j []) ∧
      (∀ x ∈ ids ps, h.next ≤ x) := by
  induction nets generalizing h rand with
  | nil => intro j p hp; simp at hp
  | cons q r ih =>
    obtain ⟨nm, id⟩ := q
    simp only [ids, List.map_cons, List.nodup_cons] at hnd
    have hsome := hex (nm, id) (by simp)
    cases hn : h.nets id with
    | none => simp [hn] at hsome
    | some net =>
      have wf1 := wf.initParams id (rand.headD [])
      have g1 := netsGrow_initParams h id (rand.headD [])
      obtain ⟨ps, n1, n2, n3, n4⟩ := initParams_new h id (rand.headD []) net hn
      have ih' := ih wf1 rand.tail (fun p hp => g1 _ (hex p (List.mem_cons_of_mem _ hp))) hnd.2
      -- the remaining re-initialisations never touch network `id`
      have later : ∀ (h0 : Heap) (l : List (String × Nat)) (rd : List (List Tok)), HeapWF h0 → id ∉ ids l →
          (reinit h0 l rd).nets id = h0.nets id ∧ viewNet (reinit h0 l rd) id = viewNet h0 id := by
        intro h0 l
        induction l generalizing h0 with
        | nil => intro rd _ _; exact ⟨rfl, rfl⟩
        | cons q2 l2 ih2 =>
          intro rd w0 hnot
          obtain ⟨nm2, id2⟩ := q2
          simp only [ids, List.map_cons, List.mem_cons, not_or] at hnot
          simp only [reinit]
          obtain ⟨a, b⟩ := ih2 (initParams h0 id2 (rd.headD [])) rd.tail (w0.initParams id2 _) hnot.2
          obtain ⟨c, d⟩ := initParams_old w0 id2 (rd.headD []) id hnot.1
          exact ⟨a.trans c, b.trans d⟩
      intro j p hp
      cases j with
      | zero =>
        simp only [List.getElem?_cons_zero, Option.some.injEq] at hp
        subst hp
        obtain ⟨l1, l2⟩ := later (initParams h id (rand.headD [])) r rand.tail wf1 hnd.1
        refine ⟨net, ps, hn, ?_, ?_, n3⟩
        · simp only [reinit]; rw [l1, n1]
        · simp only [reinit]; rw [l2, n2]
          cases rand <;> rfl
      | succ j' =>
        simp only [List.getElem?_cons_succ] at hp
        obtain ⟨net', ps', m1, m2, m3, m4⟩ := ih' j' p hp
        have hpne : p.2 ≠ id := by
          intro e
          have : p ∈ r := List.mem_of_getElem? hp
          exact hnd.1 (e ▸ List.mem_map.2 ⟨p, this, rfl⟩)
        obtain ⟨o1, _⟩ := initParams_old wf id (rand.headD []) p.2 hpne
        refine ⟨net', ps', by rw [← o1]; exact m1, ?_, ?_, fun x hx => by have := m4 x hx; omega⟩
        · simp only [reinit]; exact m2
        · simp only [reinit]; rw [m3]
          cases rand <;> simp


/-! ### lookups in appended / mapped association lists -/
section
variable {κ β : Type} [DecidableEq κ]

theorem aget_append (a b : List (κ × β)) (k : κ) :
    aget (a ++ b) k = match aget a k with
      | some v => some v
      | none => aget b k := by
  induction a with
  | nil => simp
  | cons e r ih =>
    obtain ⟨k0, v0⟩ := e
    by_cases hk : k0 = k
    · simp [aget_cons, hk]
    · simp [aget_cons, hk, ih]

theorem mem_keys_aset (d : List (κ × β)) (k x : κ) (v : β) : x ∈ keys (aset d k v) ↔ x ∈ keys d ∨ x = k := by
  rw [keys_aset]
  by_cases hm : k ∈ keys d
  · simp only [hm, if_true]
    constructor
    · exact Or.inl
    · rintro (h | h)
      · exact h
      · subst h; exact hm
  · simp [hm]
end

theorem aget_nets_map (nets : List (String × Nat)) (f : Nat → FVal) (p : String × Nat) (hp : p ∈ nets)
    (hn : (keys nets).Nodup) :
    aget (nets.map (fun q => (MKey.str q.1, f q.2))) (.str p.1) = some (f p.2) := by
  induction nets with
  | nil => simp at hp
  | cons q r ih =>
    simp only [keys, List.map_cons, List.nodup_cons] at hn
    rcases List.mem_cons.1 hp with h | h
    · subst h; simp [aget_cons]
    · have hne : q.1 ≠ p.1 := by
        intro e
        exact hn.1 (e ▸ List.mem_map.2 ⟨p, h, rfl⟩)
      have hne' : ¬ MKey.str q.1 = MKey.str p.1 := fun e => hne (by injection e)
      simp only [List.map_cons, aget_cons, hne', if_false]
      exact ih h hn.2

theorem aget_nets_map_none (nets : List (String × Nat)) (f : Nat → FVal) (k : MKey)
    (hk : k ∉ nets.map (fun q => MKey.str q.1)) :
    aget (nets.map (fun q => (MKey.str q.1, f q.2))) k = none := by
  rw [aget_none_iff]
  simpa [keys, List.map_map, Function.comp_def] using hk

/-- names of `self.networks` per state type -/
def netNames : Kind → List String
  | .pos => ["rbm_am"]
  | _ => ["rbm_am", "rbm_ph"]


/-- an entry of a `state_dict` with given names and shapes -/
theorem aget_of_shapesOf (sd : SD) (L : List (String × Shape)) (hs : shapesOf sd = L)
    (hn : (L.map Prod.fst).Nodup) (nm : String) (sh : Shape) (hm : (nm, sh) ∈ L) :
    ∃ tok, aget sd nm = some (sh, tok) := by
  induction sd generalizing L with
  | nil => simp [shapesOf] at hs; subst hs; simp at hm
  | cons e r ih =>
    obtain ⟨n0, s0, t0⟩ := e
    cases L with
    | nil => simp [shapesOf] at hs
    | cons l0 Lr =>
      simp only [shapesOf, List.map_cons, List.cons.injEq] at hs
      obtain ⟨h0, hr⟩ := hs
      simp only [List.map_cons, List.nodup_cons] at hn
      rcases List.mem_cons.1 hm with h1 | h1
      · subst h1
        simp only [Prod.mk.injEq] at h0
        exact ⟨t0, by simp [aget_cons, h0.1, h0.2]⟩
      · obtain ⟨tok, ht⟩ := ih Lr hr hn.2 h1
        have hne : n0 ≠ nm := by
          intro e
          have : nm ∈ Lr.map Prod.fst := List.mem_map.2 ⟨(nm, sh), h1, rfl⟩
          rw [← h0] at hn
          exact hn.1 (by simpa [e] using this)
        exact ⟨tok, by simp [aget_cons, hne, ht]⟩

/-- the bias lengths `autoload` reads from a `state_dict` of a network of sizes `(nv, nh, na)` -/
theorem lenOf_of_shapes (k : NetKind) (nv nh na : Nat) (sd : SD)
    (hs : shapesOf sd = shapesOf (paramSpecs k nv nh na [])) :
    lenOf (.sd sd) "visible_bias" = .ok nv ∧ lenOf (.sd sd) "hidden_bias" = .ok nh ∧
    (k = .purif → lenOf (.sd sd) "aux_bias" = .ok na) := by
  have hn : ((shapesOf (paramSpecs k nv nh na [])).map Prod.fst).Nodup := by
    cases k <;> simp [shapesOf, paramSpecs]
  have get := aget_of_shapesOf sd _ hs hn
  refine ⟨?_, ?_, ?_⟩
  · obtain ⟨t, ht⟩ := get "visible_bias" [nv] (by cases k <;> simp [shapesOf, paramSpecs])
    simp [lenOf, ht]
  · obtain ⟨t, ht⟩ := get "hidden_bias" [nh] (by cases k <;> simp [shapesOf, paramSpecs])
    simp [lenOf, ht]
  · intro hk
    subst hk
    obtain ⟨t, ht⟩ := get "aux_bias" [na] (by simp [shapesOf, paramSpecs])
    simp [lenOf, ht]

end QV.Store
