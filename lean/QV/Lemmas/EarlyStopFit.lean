/-
QV.Lemmas.EarlyStopFit — helper lemmas tying the epoch loop of QV.Model.EarlyStop (`fitLoop`) to the request oracle
`stopperReq` of QV.Model.EarlyStopFit and to the closed form of `QV.Train.fit` (QV.Lemmas.Train).  No Mathlib needed.
-/
import QV.Model.EarlyStopFit
import QV.Lemmas.Train

namespace QV.Cb
open QV.Train

/-- `epochRange a b = l ++ e :: r` pins down `l`: the epochs before `e` are `a … e-1` -/
theorem epochRange_split (b : Int) : ∀ (l : List Int) (a e : Int) (r : List Int), epochRange a b = l ++ e :: r →
    l = epochRange a (e - 1) ∧ a ≤ e ∧ e ≤ b ∧ r = epochRange (e + 1) b := by
  intro l
  induction l with
  | nil =>
    intro a e r h
    rw [epochRange_rec a b] at h
    split at h
    · simp at h
    · simp only [List.nil_append, List.cons.injEq] at h
      obtain ⟨h1, h2⟩ := h
      subst h1
      refine ⟨?_, Int.le_refl _, by omega, h2.symm⟩
      rw [epochRange_rec, if_pos (by omega)]
  | cons x l ih =>
    intro a e r h
    rw [epochRange_rec a b] at h
    split at h
    · simp at h
    · simp only [List.cons_append, List.cons.injEq] at h
      obtain ⟨h1, h2⟩ := h
      subst h1
      obtain ⟨g1, g2, g3, g4⟩ := ih (a + 1) e r h2
      refine ⟨?_, by omega, g3, g4⟩
      rw [epochRange_rec a (e - 1), if_neg (by omega), ← g1]

/-- the epochs up to and including `e`: `l ++ [e] = epochRange a e` -/
theorem epochRange_split_snoc {a b e : Int} {l r : List Int} (h : epochRange a b = l ++ e :: r) :
    l ++ [e] = epochRange a e := by
  obtain ⟨h1, h2, _, _⟩ := epochRange_split b l a e r h
  rw [epochRange_snoc a e h2, h1]

/-- `any` over the positions of `l₁ ++ [·] ++ l₂`, the middle position contributing nothing -/
theorem any_range_split {β : Type} (l₁ l₂ : List β) (g₁ g₂ : β → Bool) :
    (List.range (l₁.length + 1 + l₂.length)).any (fun i =>
      if i < l₁.length then
        match l₁[i]? with
        | some x => g₁ x
        | none => false
      else
        match l₂[i - l₁.length - 1]? with
        | some x => decide (l₁.length < i) && g₂ x
        | none => false) = (l₁.any g₁ || l₂.any g₂) := by
  rw [Bool.eq_iff_iff]
  simp only [List.any_eq_true, List.mem_range, Bool.or_eq_true]
  constructor
  · rintro ⟨i, hi, h⟩
    by_cases hlt : i < l₁.length
    · rw [if_pos hlt, List.getElem?_eq_getElem hlt] at h
      exact Or.inl ⟨l₁[i], List.getElem_mem hlt, h⟩
    · rw [if_neg hlt] at h
      cases hx : l₂[i - l₁.length - 1]? with
      | none => rw [hx] at h; simp at h
      | some x =>
        rw [hx] at h
        simp only [Bool.and_eq_true, decide_eq_true_eq] at h
        exact Or.inr ⟨x, List.mem_of_getElem? hx, h.2⟩
  · rintro (⟨x, hx, hg⟩ | ⟨x, hx, hg⟩)
    · obtain ⟨i, hi, rfl⟩ := List.getElem_of_mem hx
      refine ⟨i, by omega, ?_⟩
      rw [if_pos hi, List.getElem?_eq_getElem hi]
      exact hg
    · obtain ⟨j, hj, rfl⟩ := List.getElem_of_mem hx
      refine ⟨l₁.length + 1 + j, by omega, ?_⟩
      rw [if_neg (by omega)]
      have : l₁.length + 1 + j - l₁.length - 1 = j := by omega
      rw [this, List.getElem?_eq_getElem hj]
      simp only [Bool.and_eq_true, decide_eq_true_eq]
      exact ⟨by omega, hg⟩

section
variable {W α : Type} [Sub α] [Div α] [Zero α] [BEq α] [LT α] [DecidableLT α] [Transc α]

omit [Sub α] [Div α] [Zero α] [BEq α] [LT α] [DecidableLT α] [Transc α] in
theorem evalAfter_append (ev : AnyEval W α) (wof : Int → W) (l₁ l₂ : List Int) :
    evalAfter ev wof (l₁ ++ l₂) =
      match evalAfter ev wof l₁ with
      | .error err => .error err
      | .ok ev' => evalAfter ev' wof l₂ := by
  induction l₁ generalizing ev with
  | nil => simp [evalAfter]
  | cons e rest ih =>
    simp only [List.cons_append, evalAfter]
    cases ev.onEpochEnd e (wof e) with
    | error err => rfl
    | ok ev' => exact ih ev'

omit [Sub α] [Div α] [Zero α] [BEq α] [LT α] [DecidableLT α] [Transc α] in
theorem evalAfter_snoc {ev ev₁ ev₂ : AnyEval W α} {wof : Int → W} {l : List Int} {e : Int}
    (h1 : evalAfter ev wof l = .ok ev₁) (h2 : ev₁.onEpochEnd e (wof e) = .ok ev₂) :
    evalAfter ev wof (l ++ [e]) = .ok ev₂ := by
  rw [evalAfter_append, h1]
  simp [evalAfter, h2]

/-- what a returning `EarlyStopping.on_epoch_end` does to the flag and to `last_epoch`, in terms of `stopperAsks` -/
theorem stopper_onEpochEnd_asks (es : EarlyStopping α) (ev : AnyEval W α) (st st' : StopState) (e : Int)
    (h : es.onEpochEnd ev st e = .ok st') :
    st'.stop = (st.stop || stopperAsks es ev e) ∧
    st'.lastEpoch = (if stopperAsks es ev e then some e else st.lastEpoch) := by
  unfold stopperAsks
  unfold EarlyStopping.onEpochEnd at h ⊢
  cases hg : gate e es.period with
  | error err => rw [hg] at h; simp at h
  | ok g =>
    rw [hg] at h
    cases g with
    | false =>
      simp only [Except.ok.injEq] at h
      subst h; simp
    | true =>
      simp only at h ⊢
      by_cases hl : (ev.len : Int) > es.patience
      · simp only [hl, if_true] at h ⊢
        cases hd : es.deviation ev with
        | error err => rw [hd] at h; simp at h
        | ok d =>
          rw [hd] at h
          cases d with
          | none =>
            simp only [Except.ok.injEq] at h
            subst h; simp
          | some d =>
            simp only at h ⊢
            by_cases hb : belowTol d.x es.tolerance = true
            · simp only [hb, if_true, Except.ok.injEq] at h ⊢
              subst h; simp
            · have hb' : belowTol d.x es.tolerance = false := by simpa using hb
              simp only [hb', Bool.false_eq_true, if_false, Except.ok.injEq] at h ⊢
              subst h; simp
      · simp only [hl, if_false, Except.ok.injEq] at h ⊢
        subst h; simp

/-- a returning dispatch of `on_epoch_end` to evaluator and stopper (either order), in terms of `asksAt` -/
theorem epochEndBoth_asks (es : EarlyStopping α) (evalFirst : Bool) (s s' : FitState W α) (e : Int) (w : W)
    (h : epochEndBoth es evalFirst s e w = .ok s') :
    s.ev.onEpochEnd e w = .ok s'.ev ∧ s'.fired = s.fired ++ [e] ∧
    s'.st.stop = (s.st.stop || asksAt es evalFirst s.ev e w) ∧
    s'.st.lastEpoch = (if asksAt es evalFirst s.ev e w then some e else s.st.lastEpoch) := by
  unfold epochEndBoth at h
  unfold asksAt
  cases evalFirst with
  | true =>
    simp only [if_true] at h ⊢
    cases hev : s.ev.onEpochEnd e w with
    | error err => rw [hev] at h; simp at h
    | ok ev' =>
      rw [hev] at h
      simp only at h ⊢
      cases hst : es.onEpochEnd ev' s.st e with
      | error err => rw [hst] at h; simp at h
      | ok st' =>
        rw [hst] at h
        simp only [Except.ok.injEq] at h
        subst h
        obtain ⟨g1, g2⟩ := stopper_onEpochEnd_asks es ev' s.st st' e hst
        exact ⟨rfl, rfl, g1, g2⟩
  | false =>
    simp only [Bool.false_eq_true, if_false] at h ⊢
    cases hst : es.onEpochEnd s.ev s.st e with
    | error err => rw [hst] at h; simp at h
    | ok st' =>
      rw [hst] at h
      simp only at h
      cases hev : s.ev.onEpochEnd e w with
      | error err => rw [hev] at h; simp at h
      | ok ev' =>
        rw [hev] at h
        simp only [Except.ok.injEq] at h
        subst h
        obtain ⟨g1, g2⟩ := stopper_onEpochEnd_asks es s.ev s.st st' e hst
        exact ⟨rfl, rfl, g1, g2⟩

/-- **the loop of QV.Model.EarlyStop in terms of the derived request `stopAsk`**: a returning run over the epochs `a … b`
(entered with the flag clear, the evaluator having seen `start … a-1`) either stops at the FIRST epoch `e` at which the
derived request holds (`epochRange a b = pre ++ e :: post`, no request in `pre`, fired `pre ++ [e]`, `last_epoch = e`) or no
request holds in `a … b` and every epoch-end fired, flag clear, `last_epoch` untouched. -/
theorem fitLoop_stopAsk (es : EarlyStopping α) (evalFirst : Bool) (ev₀ : AnyEval W α) (wof : Int → W) (start b : Int) :
    ∀ (n : Nat) (a : Int) (ev : AnyEval W α) (last : Option Int) (fired : List Int) (r : FitState W α),
      (b + 1 - a).toNat = n → start ≤ a →
      evalAfter ev₀ wof (epochRange start (a - 1)) = .ok ev →
      fitLoop es evalFirst ⟨ev, ⟨false, last⟩, fired⟩ ((epochRange a b).map (fun e => (e, wof e))) = .ok r →
      (∃ pre e post, epochRange a b = pre ++ e :: post ∧ stopAsk es evalFirst ev₀ wof start e = true ∧
          (∀ e' ∈ pre, stopAsk es evalFirst ev₀ wof start e' = false) ∧
          r.st = ⟨true, some e⟩ ∧ r.fired = fired ++ (pre ++ [e]) ∧
          evalAfter ev₀ wof (epochRange start e) = .ok r.ev) ∨
      ((∀ e' ∈ epochRange a b, stopAsk es evalFirst ev₀ wof start e' = false) ∧
          r.st = ⟨false, last⟩ ∧ r.fired = fired ++ epochRange a b ∧
          evalAfter ev₀ wof (epochRange start (max b (a - 1))) = .ok r.ev) := by
  intro n
  induction n with
  | zero =>
    intro a ev last fired r hn _ hev h
    rw [epochRange_rec, if_pos (by omega)] at h ⊢
    simp only [List.map_nil, fitLoop, Except.ok.injEq] at h
    subst h
    refine Or.inr ⟨by simp, rfl, by simp, ?_⟩
    have : max b (a - 1) = a - 1 := by omega
    rw [this]; exact hev
  | succ n ih =>
    intro a ev last fired r hn hsa hev h
    have hrec : epochRange a b = a :: epochRange (a + 1) b := by
      rw [epochRange_rec a b, if_neg (by omega)]
    rw [hrec] at h ⊢
    simp only [List.map_cons, fitLoop] at h
    cases hb : epochEndBoth es evalFirst ⟨ev, ⟨false, last⟩, fired⟩ a (wof a) with
    | error err => rw [hb] at h; simp at h
    | ok s' =>
      rw [hb] at h
      simp only at h
      obtain ⟨g1, g2, g3, g4⟩ := epochEndBoth_asks es evalFirst _ s' a (wof a) hb
      simp only [Bool.false_or] at g1 g2 g3 g4
      have hask : stopAsk es evalFirst ev₀ wof start a = asksAt es evalFirst ev a (wof a) := by
        unfold stopAsk; rw [hev]
      have hev' : evalAfter ev₀ wof (epochRange start a) = .ok s'.ev := by
        rw [epochRange_snoc start a hsa]
        exact evalAfter_snoc hev g1
      by_cases hs : s'.st.stop = true
      · rw [if_pos hs] at h
        simp only [Except.ok.injEq] at h
        subst h
        have ha : asksAt es evalFirst ev a (wof a) = true := by rw [← g3]; exact hs
        refine Or.inl ⟨[], a, epochRange (a + 1) b, rfl, by rw [hask, ha], by simp, ?_, by simpa using g2, hev'⟩
        rw [ha] at g4
        cases hst : s'.st with
        | mk sp le =>
          rw [hst] at hs g4
          simp only at hs g4
          simp only [if_true] at g4
          rw [hs, g4]
      · rw [if_neg hs] at h
        have hs' : s'.st.stop = false := by simpa using hs
        have ha : asksAt es evalFirst ev a (wof a) = false := by rw [← g3]; exact hs'
        have hst : s'.st = ⟨false, last⟩ := by
          rw [ha] at g4
          cases hst : s'.st with
          | mk sp le =>
            rw [hst] at hs' g4
            simp only at hs' g4
            simp only [Bool.false_eq_true, if_false] at g4
            rw [hs', g4]
        have hs'eq : s' = ⟨s'.ev, ⟨false, last⟩, fired ++ [a]⟩ := by
          cases s' with
          | mk ev1 st1 f1 =>
            simp only at hst g2
            rw [hst, g2]
        rw [hs'eq] at h
        have hev'' : evalAfter ev₀ wof (epochRange start (a + 1 - 1)) = .ok s'.ev := by
          have : a + 1 - 1 = a := by omega
          rw [this]; exact hev'
        rcases ih (a + 1) s'.ev last (fired ++ [a]) r (by omega) (by omega) hev'' h with
          ⟨pre, e, post, hsplit, he, hpre, hrst, hrf, hre⟩ | ⟨hnone, hrst, hrf, hre⟩
        · refine Or.inl ⟨a :: pre, e, post, by rw [hsplit]; rfl, he, ?_, hrst, by simp [hrf], hre⟩
          intro e' he'
          rcases List.mem_cons.mp he' with h1 | h1
          · rw [h1, hask, ha]
          · exact hpre e' h1
        · refine Or.inr ⟨?_, hrst, by simp [hrf], ?_⟩
          · intro e' he'
            rcases List.mem_cons.mp he' with h1 | h1
            · rw [h1, hask, ha]
            · exact hnone e' h1
          · have : max b (a + 1 - 1) = max b (a - 1) := by omega
            rw [← this]; exact hre

/-! ### several stop sources -/

theorem src_onEpochEnd_asks (src : StopSrc α) (ev : AnyEval W α) (stop : Bool) (last : Option Int) (e : Int) (st : StopState)
    (h : src.onEpochEnd ev stop last e = .ok st) : st.stop = (stop || srcAsks src ev e) := by
  cases src with
  | stopper es =>
    have h1 : es.onEpochEnd ev ⟨stop, last⟩ e = .ok st := h
    have := (stopper_onEpochEnd_asks es ev ⟨stop, last⟩ st e h1).1
    rw [this]
    rfl
  | request eps =>
    simp only [StopSrc.onEpochEnd, Except.ok.injEq] at h
    subst h
    simp [srcAsks, StopSrc.onEpochEnd]

theorem srcsEpochEnd_asks (ev : AnyEval W α) (e : Int) :
    ∀ (l l' : List (StopSrc α × Option Int)) (stop stop' : Bool), srcsEpochEnd ev e l stop = .ok (l', stop') →
      stop' = (stop || srcsAsk (l.map Prod.fst) ev e) ∧ l'.map Prod.fst = l.map Prod.fst := by
  intro l
  induction l with
  | nil =>
    intro l' stop stop' h
    simp only [srcsEpochEnd, Except.ok.injEq, Prod.mk.injEq] at h
    obtain ⟨h1, h2⟩ := h
    subst h1 h2
    simp [srcsAsk]
  | cons x rest ih =>
    intro l' stop stop' h
    obtain ⟨src, last⟩ := x
    simp only [srcsEpochEnd] at h
    cases h1 : src.onEpochEnd ev stop last e with
    | error err => rw [h1] at h; simp at h
    | ok st =>
      rw [h1] at h
      simp only at h
      cases h2 : srcsEpochEnd ev e rest st.stop with
      | error err => rw [h2] at h; simp at h
      | ok pr =>
        obtain ⟨rest', stop2⟩ := pr
        rw [h2] at h
        simp only [Except.ok.injEq, Prod.mk.injEq] at h
        obtain ⟨g1, g2⟩ := h
        subst g1 g2
        obtain ⟨i1, i2⟩ := ih rest' st.stop stop2 h2
        have := src_onEpochEnd_asks src ev stop last e st h1
        refine ⟨?_, by simp [i2]⟩
        rw [i1, this]
        simp [srcsAsk, Bool.or_assoc]

theorem epochEndMulti_asks (s s' : MultiState W α) (e : Int) (w : W) (h : epochEndMulti s e w = .ok s') :
    s.ev.onEpochEnd e w = .ok s'.ev ∧ s'.fired = s.fired ++ [e] ∧
    s'.before.map Prod.fst = s.before.map Prod.fst ∧ s'.after.map Prod.fst = s.after.map Prod.fst ∧
    s'.stop = (s.stop || srcsAsk (s.before.map Prod.fst) s.ev e || srcsAsk (s.after.map Prod.fst) s'.ev e) := by
  unfold epochEndMulti at h
  cases h1 : srcsEpochEnd s.ev e s.before s.stop with
  | error err => rw [h1] at h; simp at h
  | ok pr =>
    obtain ⟨before', stop1⟩ := pr
    rw [h1] at h
    simp only at h
    cases h2 : s.ev.onEpochEnd e w with
    | error err => rw [h2] at h; simp at h
    | ok ev' =>
      rw [h2] at h
      simp only at h
      cases h3 : srcsEpochEnd ev' e s.after stop1 with
      | error err => rw [h3] at h; simp at h
      | ok pr2 =>
        obtain ⟨after', stop2⟩ := pr2
        rw [h3] at h
        simp only [Except.ok.injEq] at h
        subst h
        obtain ⟨a1, a2⟩ := srcsEpochEnd_asks s.ev e _ _ _ _ h1
        obtain ⟨b1, b2⟩ := srcsEpochEnd_asks ev' e _ _ _ _ h3
        exact ⟨rfl, rfl, a2, b2, by rw [b1, a1]⟩

/-- the loop with several stop sources in terms of the derived request `multiAsk` (cf. `fitLoop_stopAsk`) -/
theorem fitLoopMulti_ask (before after : List (StopSrc α)) (ev₀ : AnyEval W α) (wof : Int → W) (start b : Int) :
    ∀ (n : Nat) (a : Int) (s r : MultiState W α),
      (b + 1 - a).toNat = n → start ≤ a → s.stop = false →
      s.before.map Prod.fst = before → s.after.map Prod.fst = after →
      evalAfter ev₀ wof (epochRange start (a - 1)) = .ok s.ev →
      fitLoopMulti s ((epochRange a b).map (fun e => (e, wof e))) = .ok r →
      (∃ pre e post, epochRange a b = pre ++ e :: post ∧ multiAsk before after ev₀ wof start e = true ∧
          (∀ e' ∈ pre, multiAsk before after ev₀ wof start e' = false) ∧
          r.stop = true ∧ r.fired = s.fired ++ (pre ++ [e])) ∨
      ((∀ e' ∈ epochRange a b, multiAsk before after ev₀ wof start e' = false) ∧
          r.stop = false ∧ r.fired = s.fired ++ epochRange a b) := by
  intro n
  induction n with
  | zero =>
    intro a s r hn _ hs _ _ _ h
    rw [epochRange_rec, if_pos (by omega)] at h ⊢
    simp only [List.map_nil, fitLoopMulti, Except.ok.injEq] at h
    subst h
    exact Or.inr ⟨by simp, hs, by simp⟩
  | succ n ih =>
    intro a s r hn hsa hs hbf haf hev h
    have hrec : epochRange a b = a :: epochRange (a + 1) b := by
      rw [epochRange_rec a b, if_neg (by omega)]
    rw [hrec] at h ⊢
    simp only [List.map_cons, fitLoopMulti] at h
    cases hb : epochEndMulti s a (wof a) with
    | error err => rw [hb] at h; simp at h
    | ok s' =>
      rw [hb] at h
      simp only at h
      obtain ⟨g1, g2, g3, g4, g5⟩ := epochEndMulti_asks s s' a (wof a) hb
      have hask : multiAsk before after ev₀ wof start a = s'.stop := by
        unfold multiAsk
        rw [hev]
        simp only [g1]
        rw [g5, hs, hbf, haf]
        simp
      have hev' : evalAfter ev₀ wof (epochRange start (a + 1 - 1)) = .ok s'.ev := by
        have : a + 1 - 1 = a := by omega
        rw [this, epochRange_snoc start a hsa]
        exact evalAfter_snoc hev g1
      by_cases hst : s'.stop = true
      · rw [if_pos hst] at h
        simp only [Except.ok.injEq] at h
        subst h
        exact Or.inl ⟨[], a, epochRange (a + 1) b, rfl, by rw [hask, hst], by simp, hst, by simpa using g2⟩
      · rw [if_neg hst] at h
        have hst' : s'.stop = false := by simpa using hst
        rcases ih (a + 1) s' r (by omega) (by omega) hst' (by rw [g3, hbf]) (by rw [g4, haf]) hev' h with
          ⟨pre, e, post, hsplit, he, hpre, hrs, hrf⟩ | ⟨hnone, hrs, hrf⟩
        · refine Or.inl ⟨a :: pre, e, post, by rw [hsplit]; rfl, he, ?_, hrs, by rw [hrf, g2]; simp⟩
          intro e' he'
          rcases List.mem_cons.mp he' with h1 | h1
          · rw [h1, hask, hst']
          · exact hpre e' h1
        · refine Or.inr ⟨?_, hrs, by rw [hrf, g2]; simp⟩
          intro e' he'
          rcases List.mem_cons.mp he' with h1 | h1
          · rw [h1, hask, hst']
          · exact hnone e' h1

/-! ### the request oracle on the side of `QV.Train.fit` -/

variable (stId : Nat) (es : EarlyStopping α) (evalFirst : Bool) (ev₀ : AnyEval W α) (wof : Int → W)

theorem stopperReq_reqEv (c : Cfg) (hst : stId ∈ c.cbs) (ev : Event) :
    reqEv c (stopperReq stId es evalFirst ev₀ wof c.start) ev =
      match ev with
      | .epochEnd e => stopAsk es evalFirst ev₀ wof c.start e
      | _ => false := by
  unfold reqEv stopperReq
  cases ev with
  | epochEnd e =>
    simp only
    cases ha : stopAsk es evalFirst ev₀ wof c.start e with
    | false => simp
    | true =>
      simp only [Bool.and_true, List.any_eq_true, beq_iff_eq]
      exact ⟨stId, hst, rfl⟩
  | _ => simp

theorem multiReq_reqEv (before after : List (StopSrc α)) (c : Cfg)
    (hc : c.cbs = List.range (before.length + 1 + after.length)) (ev : Event) :
    reqEv c (multiReq before after ev₀ wof c.start) ev =
      match ev with
      | .epochEnd e => multiAsk before after ev₀ wof c.start e
      | _ => false := by
  unfold reqEv multiReq
  cases ev with
  | epochEnd e =>
    simp only [multiAsk]
    cases h1 : evalAfter ev₀ wof (epochRange c.start (e - 1)) with
    | error err => simp
    | ok evb =>
      simp only
      cases h2 : evb.onEpochEnd e (wof e) with
      | error err =>
        simp only [Bool.or_false]
        have := any_range_split before ([] : List (StopSrc α)) (fun src => srcAsks src evb e) (fun _ => false)
        simp only [List.length_nil, Nat.add_zero, List.any_nil, Bool.or_false] at this
        rw [hc]
        unfold srcsAsk
        rw [← this]
        rw [Bool.eq_iff_iff]
        simp only [List.any_eq_true, List.mem_range]
        constructor
        · rintro ⟨i, hi, h⟩
          by_cases hlt : i < before.length
          · exact ⟨i, by omega, by simpa [hlt] using h⟩
          · simp [hlt] at h
        · rintro ⟨i, hi, h⟩
          by_cases hlt : i < before.length
          · exact ⟨i, by omega, by simpa [hlt] using h⟩
          · simp [hlt] at h
      | ok eva =>
        simp only
        rw [hc]
        unfold srcsAsk
        refine Eq.trans ?_ (any_range_split before after (fun src => srcAsks src evb e) (fun src => srcAsks src eva e))
        congr 1
        funext i
        by_cases hlt : i < before.length
        · simp only [hlt, if_true]; cases before[i]? <;> rfl
        · simp only [hlt, if_false]; cases after[i - before.length - 1]? <;> rfl
  | _ => simp

theorem stopperReq_mid (c : Cfg) (e : Int) (b : Nat) :
    (stopperReq stId es evalFirst ev₀ wof c.start).mid e b = false := rfl

end

end QV.Cb
