/-
Helper lemmas for QV.Model.ArgConv (argument-conversion glue of create_dict / fit / vector_to_grads).
-/
import QV.Model.ArgConv
import Mathlib.Data.List.Basic
import Mathlib.Data.List.Infix
import Mathlib.Data.List.Forall2
import Mathlib.Tactic.Ring

namespace QV.ArgConv
open QV

variable {κ : Type}

/-- `t` is a tensor whose storage did not exist in `h`, holds `v` in `h'`, and `h'` only EXTENDS `h` -/
structure Fresh (h h' : Heap κ) (t : TRef) (v : κ) : Prop where
  ext : h.cells <+: h'.cells
  fresh : h.cells.length ≤ t.sid
  val : h'.read t.sid = some v

theorem read_of_prefix {h h' : Heap κ} (hp : h.cells <+: h'.cells) {i : Nat} (hi : i < h.cells.length) :
    h'.read i = h.read i := by
  obtain ⟨t, ht⟩ := hp
  simp only [Heap.read, ← ht, List.getElem?_append_left hi]

theorem read_some_lt {h : Heap κ} {i : Nat} {v : κ} (hv : h.read i = some v) : i < h.cells.length := by
  simp only [Heap.read] at hv
  exact (List.getElem?_eq_some_iff.mp hv).1

theorem alloc_fresh (h : Heap κ) (v : κ) : Fresh h (h.alloc v).1 ⟨(h.alloc v).2, .float64⟩ v :=
  ⟨List.prefix_append _ _, Nat.le_refl _, by simp [Heap.alloc, Heap.read]⟩

theorem alloc_read_new (h : Heap κ) (v : κ) : (h.alloc v).1.read (h.alloc v).2 = some v := by
  simp [Heap.alloc, Heap.read]

theorem alloc_prefix (h : Heap κ) (v : κ) : h.cells <+: (h.alloc v).1.cells := List.prefix_append _ _

theorem alloc_length (h : Heap κ) (v : κ) : (h.alloc v).1.cells.length = h.cells.length + 1 := by
  simp [Heap.alloc]

/-- a caller's in-place write to a storage that existed before does not reach a fresh tensor -/
theorem write_read_ne (h : Heap κ) {i j : Nat} (hij : i ≠ j) (v : κ) : (h.write i v).read j = h.read j := by
  simp [Heap.write, Heap.read, List.getElem?_set_ne hij]

theorem cloneDetach_spec {h0 h : Heap κ} (hp : h0.cells <+: h.cells) {t : TRef} {v : κ} (hv : h.read t.sid = some v) :
    ∃ h' t', cloneDetach h t = .ok (h', t') ∧ Fresh h0 h' t' v ∧ t'.dt = t.dt ∧ h.cells <+: h'.cells := by
  refine ⟨(h.alloc v).1, ⟨(h.alloc v).2, t.dt⟩, by simp [cloneDetach, hv], ⟨hp.trans (alloc_prefix _ _), ?_, alloc_read_new _ _⟩,
    rfl, alloc_prefix _ _⟩
  exact hp.length_le

theorem toDType_spec (cast : DType → κ → κ) {h0 h : Heap κ} {t : TRef} {v : κ} (hf : Fresh h0 h t v) (dt : DType) :
    ∃ h' t', toDType cast h t dt = .ok (h', t') ∧ Fresh h0 h' t' (if t.dt = dt then v else cast dt v) ∧ t'.dt = dt
      ∧ h.cells <+: h'.cells := by
  by_cases hd : t.dt = dt
  · exact ⟨h, t, by simp [toDType, hd], by simpa [hd] using hf, hd, List.prefix_refl _⟩
  · refine ⟨(h.alloc (cast dt v)).1, ⟨(h.alloc (cast dt v)).2, dt⟩, by simp [toDType, hd, hf.val], ?_, rfl, alloc_prefix _ _⟩
    simp only [hd, if_false]
    exact ⟨hf.ext.trans (alloc_prefix _ _), hf.ext.length_le, alloc_read_new _ _⟩

theorem torchTensor_spec (cast : DType → κ → κ) (dd : Bool) {h0 h : Heap κ} (hp : h0.cells <+: h.cells) {o : Obj} {src inf : DType}
    (hsrc : srcDType o.box = some src) (hinf : inferDType dd o.box = some inf) {v : κ} (hv : h.read o.sid = some v)
    (dtype : Option DType) :
    ∃ h' t', torchTensor cast dd h o dtype = .ok (h', t') ∧ Fresh h0 h' t' (convTo cast src (dtype.getD inf) v)
      ∧ t'.dt = dtype.getD inf ∧ h.cells <+: h'.cells := by
  let w := convTo cast src (dtype.getD inf) v
  refine ⟨(h.alloc w).1, ⟨(h.alloc w).2, dtype.getD inf⟩, ?_, ⟨hp.trans (alloc_prefix _ _), hp.length_le, alloc_read_new _ _⟩,
    rfl, alloc_prefix _ _⟩
  simp [torchTensor, hsrc, hinf, copyInto, hv, w]

/-- the form that loses precision in `create_dict`: a nested list of Python floats while torch's default dtype is float32 -/
def lossy (dd : Bool) (b : Box) : Bool := b == .pyList .pyFloat && !dd

/-- what `create_dict` stores for content `v` given in form `b` -/
def storedU (cast : DType → κ → κ) (dd : Bool) (b : Box) (v : κ) : κ := if lossy dd b then cast .float32 v else v

theorem inferDType_eq_src {dd : Bool} {b : Box} (hl : lossy dd b = false) : inferDType dd b = srcDType b := by
  cases b with
  | pyList e => cases e <;> first | rfl | (cases dd <;> simp_all [lossy, inferDType, srcDType])
  | _ => rfl

theorem convertUnitary_spec (cast : DType → κ → κ) (hc : ∀ v, cast .float64 v = v) (dd : Bool) {h0 h : Heap κ}
    (hp : h0.cells <+: h.cells) {o : Obj} {src : DType} (hsrc : srcDType o.box = some src) {v : κ} (hv : h.read o.sid = some v) :
    ∃ h' t', convertUnitary cast dd h o = .ok (h', t') ∧ Fresh h0 h' t' (storedU cast dd o.box v) ∧ t'.dt = .float64
      ∧ h.cells <+: h'.cells := by
  have tens : ∀ dt, o.box = .tensor dt → ∃ h' t', convertUnitary cast dd h o = .ok (h', t') ∧ Fresh h0 h' t' (storedU cast dd o.box v)
      ∧ t'.dt = .float64 ∧ h.cells <+: h'.cells := by
    intro dt hb
    obtain ⟨h1, t1, e1, f1, d1, p1⟩ := cloneDetach_spec hp (t := ⟨o.sid, dt⟩) hv
    obtain ⟨h2, t2, e2, f2, d2, p2⟩ := toDType_spec cast f1 .float64
    refine ⟨h2, t2, by simp [convertUnitary, hb, e1, e2, bind, Except.bind], ?_, d2, p1.trans p2⟩
    have : storedU cast dd o.box v = v := by simp [storedU, lossy, hb]
    rw [this]
    by_cases hd : t1.dt = DType.float64
    · simpa [hd] using f2
    · simpa [hd, hc] using f2
  have other : (∀ dt, o.box ≠ .tensor dt) → ∃ h' t', convertUnitary cast dd h o = .ok (h', t') ∧
      Fresh h0 h' t' (storedU cast dd o.box v) ∧ t'.dt = .float64 ∧ h.cells <+: h'.cells := by
    intro hb
    have hinf : ∃ inf, inferDType dd o.box = some inf := by
      cases hbx : o.box with
      | pyList e => cases e <;> simp [inferDType, srcDType]
      | ragged => simp [hbx, srcDType] at hsrc
      | nonArray => simp [hbx, srcDType] at hsrc
      | tensor d => exact absurd hbx (hb d)
      | ndarray d => simp [inferDType, srcDType]
    obtain ⟨inf, hinf⟩ := hinf
    obtain ⟨h1, t1, e1, f1, d1, p1⟩ := torchTensor_spec cast dd hp hsrc hinf hv none
    obtain ⟨h2, t2, e2, f2, d2, p2⟩ := toDType_spec cast f1 .float64
    have hcu : convertUnitary cast dd h o = .ok (h2, t2) := by
      cases hbx : o.box with
      | tensor d => exact absurd hbx (hb d)
      | _ => simp [convertUnitary, hbx] at e1 ⊢; simp [e1, e2, bind, Except.bind]
    refine ⟨h2, t2, hcu, ?_, d2, p1.trans p2⟩
    simp only [Option.getD_none] at f2 d1
    by_cases hl : lossy dd o.box = true
    · -- list of Python floats under default float32: src = float64, inferred = float32
      have hb' : o.box = .pyList .pyFloat ∧ dd = false := by simpa [lossy] using hl
      have hs : src = .float64 := by simpa [hb'.1, srcDType] using hsrc.symm
      have hi : inf = .float32 := by simpa [hb'.1, hb'.2, inferDType] using hinf.symm
      have : storedU cast dd o.box v = cast .float32 v := by simp [storedU, hl]
      rw [this]
      simpa [d1, hi, hs, convTo, hc] using f2
    · have hl' : lossy dd o.box = false := by simpa using hl
      have : inf = src := by
        have := inferDType_eq_src hl'; rw [hinf, hsrc] at this; exact Option.some.inj this
      have hst : storedU cast dd o.box v = v := by simp [storedU, hl']
      rw [hst]
      by_cases hd : t1.dt = DType.float64
      · simpa [hd, this, convTo] using f2
      · simpa [hd, this, convTo, hc] using f2
  by_cases hb : ∃ dt, o.box = .tensor dt
  · obtain ⟨dt, hb⟩ := hb; exact tens dt hb
  · exact other (fun dt hbx => hb ⟨dt, hbx⟩)

/-- what `convertAll` / `create_dict` guarantees for every keyword, relative to the heap `h0` of the caller:
same key; a tensor of type double in a storage that did not exist in `h0`; holding what the caller's object held, as stored -/
def EntryOK (cast : DType → κ → κ) (dd : Bool) (h0 hfin : Heap κ) (e : Char × Obj) (r : Char × TRef) : Prop :=
  r.1 = e.1 ∧ h0.cells.length ≤ r.2.sid ∧ r.2.dt = .float64 ∧
    ∃ v, h0.read e.2.sid = some v ∧ hfin.read r.2.sid = some (storedU cast dd e.2.box v)

/-- every keyword is an array-like object that exists in the caller's heap -/
def Accepted (h0 : Heap κ) (kw : List (Char × Obj)) : Prop :=
  ∀ e ∈ kw, (srcDType e.2.box).isSome ∧ e.2.sid < h0.cells.length

theorem EntryOK.mono {cast : DType → κ → κ} {dd : Bool} {h0 h1 h2 : Heap κ} (hp : h1.cells <+: h2.cells) {e : Char × Obj}
    {r : Char × TRef} (hr : EntryOK cast dd h0 h1 e r) : EntryOK cast dd h0 h2 e r := by
  obtain ⟨a, b, c, v, hv, hw⟩ := hr
  exact ⟨a, b, c, v, hv, by rw [read_of_prefix hp (read_some_lt hw)]; exact hw⟩

theorem convertAll_spec (cast : DType → κ → κ) (hc : ∀ v, cast .float64 v = v) (dd : Bool) (h0 : Heap κ) :
    ∀ (kw : List (Char × Obj)) (h : Heap κ), h0.cells <+: h.cells → Accepted h0 kw →
    ∃ h' ts, convertAll cast dd h kw = .ok (h', ts) ∧ h.cells <+: h'.cells ∧ List.Forall₂ (EntryOK cast dd h0 h') kw ts := by
  intro kw
  induction kw with
  | nil => intro h _ _; exact ⟨h, [], rfl, List.prefix_refl _, List.Forall₂.nil⟩
  | cons e rest ih =>
    intro h hp hacc
    obtain ⟨l, o⟩ := e
    have ha := hacc (l, o) (List.mem_cons_self ..)
    obtain ⟨src, hsrc⟩ := Option.isSome_iff_exists.mp ha.1
    have hv0 : ∃ v, h0.read o.sid = some v := ⟨h0.cells[o.sid]'ha.2, by simp [Heap.read, ha.2]⟩
    obtain ⟨v, hv0⟩ := hv0
    have hv : h.read o.sid = some v := by rw [read_of_prefix hp ha.2]; exact hv0
    obtain ⟨h1, t, e1, f1, d1, p1⟩ := convertUnitary_spec cast hc dd hp hsrc hv
    obtain ⟨h2, ts, e2, p2, f2⟩ := ih h1 (hp.trans p1) (fun e he => hacc e (List.mem_cons_of_mem _ he))
    refine ⟨h2, (l, t) :: ts, by simp [convertAll, e1, e2, bind, Except.bind], p1.trans p2, List.Forall₂.cons ?_ f2⟩
    exact EntryOK.mono p2 ⟨rfl, f1.fresh, d1, v, hv0, f1.val⟩

theorem allocDefaults_spec (h : Heap κ) (ds : List (Char × κ)) :
    h.cells <+: (allocDefaults h ds).1.cells ∧
    List.Forall₂ (fun (e : Char × κ) (r : Char × TRef) => r.1 = e.1 ∧ h.cells.length ≤ r.2.sid ∧ r.2.dt = .float64 ∧
      (allocDefaults h ds).1.read r.2.sid = some e.2) ds (allocDefaults h ds).2 := by
  induction ds generalizing h with
  | nil => exact ⟨List.prefix_refl _, List.Forall₂.nil⟩
  | cons e rest ih =>
    obtain ⟨l, v⟩ := e
    obtain ⟨p, f⟩ := ih (h.alloc v).1
    refine ⟨(alloc_prefix h v).trans p, List.Forall₂.cons ⟨rfl, Nat.le_refl _, rfl, ?_⟩ ?_⟩
    · show (allocDefaults (h.alloc v).1 rest).1.read (h.alloc v).2 = some v
      rw [read_of_prefix p (by simp [Heap.alloc])]; exact alloc_read_new _ _
    · refine List.Forall₂.imp ?_ f
      intro a b hab
      exact ⟨hab.1, by have := alloc_length h v; omega, hab.2.2.1, hab.2.2.2⟩

theorem toM2_flatM2 {α : Type} [Zero α] (m : M2 α) : toM2 (flatM2 m) = m := by
  funext r c
  cases r <;> cases c <;> rfl

theorem forall₂_map_eq {A B C : Type} {R : A → B → Prop} {f : B → C} {g : A → C} {l₁ : List A} {l₂ : List B}
    (h : List.Forall₂ R l₁ l₂) (hfg : ∀ a b, a ∈ l₁ → R a b → f b = g a) : l₂.map f = l₁.map g := by
  induction h with
  | nil => rfl
  | cons hab _ ih =>
    simp only [List.map_cons]
    rw [hfg _ _ (List.mem_cons_self ..) hab, ih (fun a b ha => hfg a b (List.mem_cons_of_mem _ ha))]

theorem forall₂_right {A B : Type} {R : A → B → Prop} {l₁ : List A} {l₂ : List B} (h : List.Forall₂ R l₁ l₂) {b : B}
    (hb : b ∈ l₂) : ∃ a ∈ l₁, R a b := by
  induction h with
  | nil => cases hb
  | cons hab _ ih =>
    rcases List.mem_cons.mp hb with rfl | hb
    · exact ⟨_, List.mem_cons_self .., hab⟩
    · obtain ⟨a, ha, r⟩ := ih hb
      exact ⟨a, List.mem_cons_of_mem _ ha, r⟩

/-- a default entry of the finished dictionary: a double tensor in a storage of its own, holding the default content -/
def DefaultOK (h0 hfin : Heap κ) (e : Char × κ) (r : Char × TRef) : Prop :=
  r.1 = e.1 ∧ h0.cells.length ≤ r.2.sid ∧ r.2.dt = .float64 ∧ hfin.read r.2.sid = some e.2

theorem createDictArg_spec (cast : DType → κ → κ) (hc : ∀ v, cast .float64 v = v) (dd : Bool) (defaults : List (Char × κ))
    (h : Heap κ) (kw : List (Char × Obj)) (hacc : Accepted h kw) :
    ∃ h' ts ds, createDictArg cast dd defaults h kw = .ok (h', ts ++ ds) ∧ h.cells <+: h'.cells ∧
      List.Forall₂ (EntryOK cast dd h h') kw ts ∧ List.Forall₂ (DefaultOK h h') defaults ds := by
  obtain ⟨p0, f0⟩ := allocDefaults_spec h defaults
  obtain ⟨h1, ts, e1, p1, f1⟩ := convertAll_spec cast hc dd h kw (allocDefaults h defaults).1 p0 hacc
  refine ⟨h1, ts, (allocDefaults h defaults).2, by simp [createDictArg, e1], p0.trans p1, f1, List.Forall₂.imp ?_ f0⟩
  intro a b hab
  exact ⟨hab.1, hab.2.1, hab.2.2.1, by rw [read_of_prefix p1 (read_some_lt hab.2.2.2)]; exact hab.2.2.2⟩

/-- a refused keyword makes the whole call fail (nothing is returned) -/
theorem convertUnitary_refused (cast : DType → κ → κ) (dd : Bool) (h : Heap κ) (o : Obj) (hb : srcDType o.box = none) :
    ∃ e, convertUnitary cast dd h o = .error e := by
  cases hbx : o.box with
  | tensor d => simp [hbx, srcDType] at hb
  | ndarray d => simp [hbx, srcDType] at hb
  | pyList e => cases e <;> simp [hbx, srcDType] at hb
  | ragged => exact ⟨.ValueError, by simp [convertUnitary, hbx, torchTensor, srcDType, bind, Except.bind]⟩
  | nonArray => exact ⟨.TypeError, by simp [convertUnitary, hbx, torchTensor, srcDType, bind, Except.bind]⟩

/-! ### `fit`'s data conversion -/

theorem fitConvertData_spec (cast : DType → κ → κ) (hc : ∀ v, cast .float64 v = v) (dd : Bool) {h : Heap κ} {o : Obj} {src : DType}
    (hsrc : srcDType o.box = some src) {v : κ} (hv : h.read o.sid = some v) :
    ∃ h' t', fitConvertData cast dd h o = .ok (h', t') ∧ Fresh h h' t' v ∧ t'.dt = .float64 := by
  by_cases hb : ∃ dt, o.box = .tensor dt
  · obtain ⟨dt, hb⟩ := hb
    obtain ⟨h1, t1, e1, f1, d1, p1⟩ := cloneDetach_spec (List.prefix_refl h.cells) (t := ⟨o.sid, dt⟩) hv
    obtain ⟨h2, t2, e2, f2, d2, p2⟩ := toDType_spec cast f1 .float64
    refine ⟨h2, t2, by simp [fitConvertData, hb, e1, e2, bind, Except.bind], ?_, d2⟩
    by_cases hd : t1.dt = DType.float64
    · simpa [hd] using f2
    · simpa [hd, hc] using f2
  · have hinf : ∃ inf, inferDType dd o.box = some inf := by
      cases hbx : o.box with
      | pyList e => cases e <;> simp [inferDType, srcDType]
      | ragged => simp [hbx, srcDType] at hsrc
      | nonArray => simp [hbx, srcDType] at hsrc
      | tensor d => exact absurd ⟨d, hbx⟩ hb
      | ndarray d => simp [inferDType, srcDType]
    obtain ⟨inf, hinf⟩ := hinf
    obtain ⟨h1, t1, e1, f1, d1, p1⟩ := torchTensor_spec cast dd (List.prefix_refl h.cells) hsrc hinf hv (some .float64)
    have hcu : fitConvertData cast dd h o = .ok (h1, t1) := by
      cases hbx : o.box with
      | tensor d => exact absurd ⟨d, hbx⟩ hb
      | _ => simp [fitConvertData, hbx] at e1 ⊢; simp [e1]
    refine ⟨h1, t1, hcu, ?_, by simpa using d1⟩
    simp only [Option.getD_some, convTo] at f1
    by_cases hs : src = DType.float64
    · simpa [hs] using f1
    · simpa [hs, hc] using f1

theorem fitConvertData_refused (cast : DType → κ → κ) (dd : Bool) (h : Heap κ) (o : Obj) (hb : srcDType o.box = none) :
    ∃ e, fitConvertData cast dd h o = .error e := by
  cases hbx : o.box with
  | tensor d => simp [hbx, srcDType] at hb
  | ndarray d => simp [hbx, srcDType] at hb
  | pyList e => cases e <;> simp [hbx, srcDType] at hb
  | ragged => exact ⟨.ValueError, by simp [fitConvertData, hbx, torchTensor, srcDType]⟩
  | nonArray => exact ⟨.TypeError, by simp [fitConvertData, hbx, torchTensor, srcDType]⟩

/-! ### `vector_to_grads` -/

theorem assignLoop_ok {α : Type} (vec : List α) (sizes : List Nat) (acc : List (List α)) (h : sizes.sum ≤ vec.length) :
    assignLoop .float64 vec sizes acc = (acc ++ CDStep.vectorToGrads vec sizes, none) := by
  induction sizes generalizing vec acc with
  | nil => simp [assignLoop, CDStep.vectorToGrads]
  | cons k ks ih =>
    simp only [List.sum_cons] at h
    have hl : (vec.take k).length = k := by simp; omega
    rw [assignLoop]
    simp only [hl, ne_eq, not_true_eq_false, if_false]
    rw [ih _ _ (by simp; omega)]
    simp [CDStep.vectorToGrads]

theorem assignLoop_short {α : Type} (dt : DType) (vec : List α) (sizes : List Nat) (acc : List (List α))
    (h : ¬ sizes.sum ≤ vec.length) : (assignLoop dt vec sizes acc).2 = some .RuntimeError := by
  induction sizes generalizing vec acc with
  | nil => simp at h
  | cons k ks ih =>
    simp only [List.sum_cons] at h
    rw [assignLoop]
    by_cases hl : (vec.take k).length = k
    · by_cases hd : dt = .float64
      · simp only [hl, ne_eq, not_true_eq_false, if_false, hd]
        subst hd
        exact ih _ _ (by simp at hl ⊢; omega)
      · simp [hl, hd]
    · have : vec.length < k := by simp at hl; omega
      simp [this]

theorem assignLoop_other {α : Type} {dt : DType} (hd : dt ≠ .float64) (vec : List α) (k : Nat) (ks : List Nat) (acc : List (List α)) :
    (assignLoop dt vec (k :: ks) acc).2 = some .RuntimeError := by
  rw [assignLoop]
  by_cases hl : (vec.take k).length = k <;> simp [hl, hd]

theorem vectorToGrads_append {α : Type} (v tail : List α) (sizes : List Nat) (h : sizes.sum ≤ v.length) :
    CDStep.vectorToGrads (v ++ tail) sizes = CDStep.vectorToGrads v sizes := by
  induction sizes generalizing v with
  | nil => rfl
  | cons k ks ih =>
    simp only [List.sum_cons] at h
    have hk : k ≤ v.length := by omega
    simp only [CDStep.vectorToGrads, List.take_append_of_le_length hk, List.drop_append_of_le_length hk]
    rw [ih]; simp; omega

theorem vectorToGrads_flatten {α : Type} (v : List α) (sizes : List Nat) (h : sizes.sum ≤ v.length) :
    (CDStep.vectorToGrads v sizes).flatten = v.take sizes.sum ∧ (CDStep.vectorToGrads v sizes).map List.length = sizes := by
  induction sizes generalizing v with
  | nil => simp [CDStep.vectorToGrads]
  | cons k ks ih =>
    simp only [List.sum_cons] at h
    have hk : k ≤ v.length := by omega
    obtain ⟨a, b⟩ := ih (v.drop k) (by simp; omega)
    refine ⟨?_, by simp [CDStep.vectorToGrads, b, hk]⟩
    simp only [CDStep.vectorToGrads, List.flatten_cons, a, List.sum_cons]
    rw [List.take_add]

end QV.ArgConv
