/-
QV.Lemmas.DMGrad — derivative of the density-matrix elements and of the rotated Born probability of the mixed
state along differentiable parameter curves (amplitude and phase PurificationRBMs).
-/
import Mathlib.Analysis.SpecialFunctions.ExpDeriv
import Mathlib.Analysis.SpecialFunctions.Log.Deriv
import Mathlib.Analysis.Calculus.Deriv.Prod
import QV.Lemmas.Deriv
import QV.Lemmas.GradLin
import QV.Lemmas.Cplx
import QV.Lemmas.CplxGrad
import QV.Lemmas.Density

namespace QV
open Finset Grads Density Complex

variable {n h a : ℕ}

theorem PRBM.hasDerivAt_visTerm (r : ℝ → PRBM ℝ n h a) (dr : PRBM ℝ n h a) (t : ℝ) (hr : PRBM.CurveAt r dr t)
    (v : Fin n → ℝ) :
    HasDerivAt (fun s => (r s).visTerm v)
      ((∑ j, v j * dr.b j) + ∑ i, sigmoid ((r t).preactH v i) * ((∑ j, v j * dr.W i j) + dr.c i)) t := by
  have h1 : HasDerivAt (fun s => ∑ j, v j * (r s).b j) (∑ j, v j * dr.b j) t :=
    HasDerivAt.fun_sum (fun j _ => (hr.b j).const_mul (v j))
  have h2 : HasDerivAt (fun s => ∑ i, (softplus ((r s).preactH v i) : ℝ))
      (∑ i, sigmoid ((r t).preactH v i) * ((∑ j, v j * dr.W i j) + dr.c i)) t :=
    HasDerivAt.fun_sum (fun i _ => hasDerivAt_softplus_comp _ _ _ (PRBM.hasDerivAt_preactH r dr t hr v i))
  have hfun : (fun s => (r s).visTerm v)
      = fun s => (∑ j, v j * (r s).b j) + ∑ i, (softplus ((r s).preactH v i) : ℝ) := by
    funext s; simp [PRBM.visTerm]
  rw [hfun]
  exact h1.add h2

/-- `gamma_grad` is the gradient of `gamma` (both signs) -/
theorem PRBM.hasDerivAt_gamma (r : ℝ → PRBM ℝ n h a) (dr : PRBM ℝ n h a) (t : ℝ) (hr : PRBM.CurveAt r dr t)
    (sgn : ℝ) (v vp : Fin n → ℝ) :
    HasDerivAt (fun s => (r s).gamma sgn v vp) ((gammaGrad (r t) sgn v vp).pair dr) t := by
  have hd : HasDerivAt (fun s => (1 / two : ℝ) * ((r s).visTerm v + sgn * (r s).visTerm vp))
      ((1 / two : ℝ) * (((∑ j, v j * dr.b j) + ∑ i, sigmoid ((r t).preactH v i) * ((∑ j, v j * dr.W i j) + dr.c i))
        + sgn * ((∑ j, vp j * dr.b j) + ∑ i, sigmoid ((r t).preactH vp i) * ((∑ j, vp j * dr.W i j) + dr.c i)))) t :=
    ((PRBM.hasDerivAt_visTerm r dr t hr v).add ((PRBM.hasDerivAt_visTerm r dr t hr vp).const_mul sgn)).const_mul _
  have hfun : (fun s => (r s).gamma sgn v vp)
      = fun s => (1 / two : ℝ) * ((r s).visTerm v + sgn * (r s).visTerm vp) := by
    funext s; rfl
  rw [hfun]
  refine hd.congr_deriv ?_
  simp only [PRBM.pair, gammaGrad, PRBM.probH, clamp01_sigmoid, two_eq, zero_mul, Finset.sum_const_zero, add_zero]
  simp only [mul_add, add_mul, Finset.sum_add_distrib, Finset.mul_sum, Finset.sum_mul]
  ring_nf

theorem hasDerivAt_piArgRe (r : ℝ → PRBM ℝ n h a) (dr : PRBM ℝ n h a) (t : ℝ) (hr : PRBM.CurveAt r dr t)
    (v vp : Fin n → ℝ) (k : Fin a) :
    HasDerivAt (fun s => piArgRe (r s) v vp k) ((∑ j, (v j + vp j) * dr.U k j) / 2 + dr.d k) t := by
  have hd := ((PRBM.hasDerivAt_preactA r dr t hr v k).add (PRBM.hasDerivAt_preactA r dr t hr vp k)).div_const (2 : ℝ)
  have hfun : (fun s => piArgRe (r s) v vp k) = fun s => ((r s).preactA v k + (r s).preactA vp k) / 2 := by
    funext s; simp [piArgRe]
  rw [hfun]
  refine hd.congr_deriv ?_
  simp only [add_mul, Finset.sum_add_distrib]
  ring

theorem hasDerivAt_piArgIm (r : ℝ → PRBM ℝ n h a) (dr : PRBM ℝ n h a) (t : ℝ) (hr : PRBM.CurveAt r dr t)
    (v vp : Fin n → ℝ) (k : Fin a) :
    HasDerivAt (fun s => piArgIm (r s) v vp k) ((∑ j, (v j - vp j) * dr.U k j) / 2) t := by
  have h1 : HasDerivAt (fun s => ∑ j, v j * (r s).U k j) (∑ j, v j * dr.U k j) t :=
    HasDerivAt.fun_sum (fun j _ => (hr.U k j).const_mul (v j))
  have h2 : HasDerivAt (fun s => ∑ j, vp j * (r s).U k j) (∑ j, vp j * dr.U k j) t :=
    HasDerivAt.fun_sum (fun j _ => (hr.U k j).const_mul (vp j))
  have hd := (h1.sub h2).div_const (2 : ℝ)
  have hfun : (fun s => piArgIm (r s) v vp k) = fun s => ((∑ j, v j * (r s).U k j) - ∑ j, vp j * (r s).U k j) / 2 := by
    funext s; simp [piArgIm]
  rw [hfun]
  refine hd.congr_deriv ?_
  simp only [sub_mul, Finset.sum_sub_distrib]

end QV
