/-
QV.Lemmas.DMGrad — derivative of the density-matrix elements and of the rotated Born probability of the mixed
state along differentiable parameter curves (amplitude and phase PurificationRBMs).
-/
import Mathlib.Analysis.SpecialFunctions.ExpDeriv
import Mathlib.Analysis.SpecialFunctions.Log.Deriv
import Mathlib.Analysis.Calculus.Deriv.Prod
import QV.Lemmas.Deriv
import QV.Lemmas.GradLin
import QV.Lemmas.Cplx
import QV.Lemmas.CplxGrad
import QV.Lemmas.Density

namespace QV
open Finset Grads Density Complex

variable {n h a : ℕ}

theorem PRBM.hasDerivAt_visTerm (r : ℝ → PRBM ℝ n h a) (dr : PRBM ℝ n h a) (t : ℝ) (hr : PRBM.CurveAt r dr t)
    (v : Fin n → ℝ) :
    HasDerivAt (fun s => (r s).visTerm v)
      ((∑ j, v j * dr.b j) + ∑ i, sigmoid ((r t).preactH v i) * ((∑ j, v j * dr.W i j) + dr.c i)) t := by
  have h1 : HasDerivAt (fun s => ∑ j, v j * (r s).b j) (∑ j, v j * dr.b j) t :=
    HasDerivAt.fun_sum (fun j _ => (hr.b j).const_mul (v j))
  have h2 : HasDerivAt (fun s => ∑ i, (softplus ((r s).preactH v i) : ℝ))
      (∑ i, sigmoid ((r t).preactH v i) * ((∑ j, v j * dr.W i j) + dr.c i)) t :=
    HasDerivAt.fun_sum (fun i _ => hasDerivAt_softplus_comp _ _ _ (PRBM.hasDerivAt_preactH r dr t hr v i))
  have hfun : (fun s => (r s).visTerm v)
      = fun s => (∑ j, v j * (r s).b j) + ∑ i, (softplus ((r s).preactH v i) : ℝ) := by
    funext s; simp [PRBM.visTerm]
  rw [hfun]
  exact h1.add h2

/-- `gamma_grad` is the gradient of `gamma` (both signs) -/
theorem PRBM.hasDerivAt_gamma (r : ℝ → PRBM ℝ n h a) (dr : PRBM ℝ n h a) (t : ℝ) (hr : PRBM.CurveAt r dr t)
    (sgn : ℝ) (v vp : Fin n → ℝ) :
    HasDerivAt (fun s => (r s).gamma sgn v vp) ((gammaGrad (r t) sgn v vp).pair dr) t := by
  have hd : HasDerivAt (fun s => (1 / two : ℝ) * ((r s).visTerm v + sgn * (r s).visTerm vp))
      ((1 / two : ℝ) * (((∑ j, v j * dr.b j) + ∑ i, sigmoid ((r t).preactH v i) * ((∑ j, v j * dr.W i j) + dr.c i))
        + sgn * ((∑ j, vp j * dr.b j) + ∑ i, sigmoid ((r t).preactH vp i) * ((∑ j, vp j * dr.W i j) + dr.c i)))) t :=
    ((PRBM.hasDerivAt_visTerm r dr t hr v).add ((PRBM.hasDerivAt_visTerm r dr t hr vp).const_mul sgn)).const_mul _
  have hfun : (fun s => (r s).gamma sgn v vp)
      = fun s => (1 / two : ℝ) * ((r s).visTerm v + sgn * (r s).visTerm vp) := by
    funext s; rfl
  rw [hfun]
  refine hd.congr_deriv ?_
  simp only [PRBM.pair, gammaGrad, PRBM.probH, clamp01_sigmoid, two_eq, zero_mul, Finset.sum_const_zero, add_zero]
  simp only [mul_add, add_mul, Finset.sum_add_distrib, Finset.mul_sum, Finset.sum_mul]
  ring_nf

theorem hasDerivAt_piArgRe (r : ℝ → PRBM ℝ n h a) (dr : PRBM ℝ n h a) (t : ℝ) (hr : PRBM.CurveAt r dr t)
    (v vp : Fin n → ℝ) (k : Fin a) :
    HasDerivAt (fun s => piArgRe (r s) v vp k) ((∑ j, (v j + vp j) * dr.U k j) / 2 + dr.d k) t := by
  have hd := ((PRBM.hasDerivAt_preactA r dr t hr v k).add (PRBM.hasDerivAt_preactA r dr t hr vp k)).div_const (2 : ℝ)
  have hfun : (fun s => piArgRe (r s) v vp k) = fun s => ((r s).preactA v k + (r s).preactA vp k) / 2 := by
    funext s; simp [piArgRe]
  rw [hfun]
  refine hd.congr_deriv ?_
  simp only [add_mul, Finset.sum_add_distrib]
  ring

theorem hasDerivAt_piArgIm (r : ℝ → PRBM ℝ n h a) (dr : PRBM ℝ n h a) (t : ℝ) (hr : PRBM.CurveAt r dr t)
    (v vp : Fin n → ℝ) (k : Fin a) :
    HasDerivAt (fun s => piArgIm (r s) v vp k) ((∑ j, (v j - vp j) * dr.U k j) / 2) t := by
  have h1 : HasDerivAt (fun s => ∑ j, v j * (r s).U k j) (∑ j, v j * dr.U k j) t :=
    HasDerivAt.fun_sum (fun j _ => (hr.U k j).const_mul (v j))
  have h2 : HasDerivAt (fun s => ∑ j, vp j * (r s).U k j) (∑ j, vp j * dr.U k j) t :=
    HasDerivAt.fun_sum (fun j _ => (hr.U k j).const_mul (vp j))
  have hd := (h1.sub h2).div_const (2 : ℝ)
  have hfun : (fun s => piArgIm (r s) v vp k) = fun s => ((∑ j, v j * (r s).U k j) - ∑ j, vp j * (r s).U k j) / 2 := by
    funext s; simp [piArgIm]
  rw [hfun]
  refine hd.congr_deriv ?_
  simp only [sub_mul, Finset.sum_sub_distrib]

/-! ### the density-matrix element in product form and its derivative -/

/-- `z_k = x_k + i y_k` -/
noncomputable def zArg (am ph : PRBM ℝ n h a) (v vp : Fin n → ℝ) (k : Fin a) : ℂ :=
  ((piArgRe am v vp k : ℝ) : ℂ) + ((piArgIm ph v vp k : ℝ) : ℂ) * I

/-- `ρ(v,v') = exp(Γ⁺ + iΓ⁻) Π_k (1 + e^{z_k})` -/
noncomputable def rhoProd (am ph : PRBM ℝ n h a) (v vp : Fin n → ℝ) : ℂ :=
  Complex.exp (((am.gamma 1 v vp : ℝ) : ℂ) + ((ph.gamma (-1) v vp : ℝ) : ℂ) * I) * ∏ k, (1 + Complex.exp (zArg am ph v vp k))

theorem toC_rho_eq_rhoProd (am ph : PRBM ℝ n h a) (v vp : Fin n → ℝ)
    (hz : ∀ k, (1 : ℂ) + Complex.exp (zArg am ph v vp k) ≠ 0) :
    toC (rho am ph v vp) = rhoProd am ph v vp :=
  rho_complex_eq am ph v vp hz

/-- complex sigmoid `e^z/(1+e^z)` -/
noncomputable def sigC (z : ℂ) : ℂ := Complex.exp z / (1 + Complex.exp z)

theorem hasDerivAt_rhoProd (ram rph : ℝ → PRBM ℝ n h a) (dam dph : PRBM ℝ n h a) (t : ℝ)
    (ha : PRBM.CurveAt ram dam t) (hp : PRBM.CurveAt rph dph t) (v vp : Fin n → ℝ)
    (hz : ∀ k, (1 : ℂ) + Complex.exp (zArg (ram t) (rph t) v vp k) ≠ 0) :
    HasDerivAt (fun s => rhoProd (ram s) (rph s) v vp)
      (rhoProd (ram t) (rph t) v vp *
        ((((gammaGrad (ram t) 1 v vp).pair dam : ℝ) : ℂ) + (((gammaGrad (rph t) (-1) v vp).pair dph : ℝ) : ℂ) * I
          + ∑ k, sigC (zArg (ram t) (rph t) v vp k)
              * ((((∑ j, (v j + vp j) * dam.U k j) / 2 + dam.d k : ℝ) : ℂ)
                 + (((∑ j, (v j - vp j) * dph.U k j) / 2 : ℝ) : ℂ) * I))) t := by
  classical
  -- the exponential prefactor
  have hg : HasDerivAt (fun s => (((ram s).gamma 1 v vp : ℝ) : ℂ) + (((rph s).gamma (-1) v vp : ℝ) : ℂ) * I)
      ((((gammaGrad (ram t) 1 v vp).pair dam : ℝ) : ℂ) + (((gammaGrad (rph t) (-1) v vp).pair dph : ℝ) : ℂ) * I) t :=
    (PRBM.hasDerivAt_gamma ram dam t ha 1 v vp).ofReal_comp.add
      ((PRBM.hasDerivAt_gamma rph dph t hp (-1) v vp).ofReal_comp.mul_const I)
  have h0 := hg.cexp
  -- the factors
  have hzk : ∀ k, HasDerivAt (fun s => zArg (ram s) (rph s) v vp k)
      ((((∑ j, (v j + vp j) * dam.U k j) / 2 + dam.d k : ℝ) : ℂ) + (((∑ j, (v j - vp j) * dph.U k j) / 2 : ℝ) : ℂ) * I) t :=
    fun k => (hasDerivAt_piArgRe ram dam t ha v vp k).ofReal_comp.add
      ((hasDerivAt_piArgIm rph dph t hp v vp k).ofReal_comp.mul_const I)
  have hfk : ∀ k ∈ (univ : Finset (Fin a)), HasDerivAt (fun s => 1 + Complex.exp (zArg (ram s) (rph s) v vp k))
      (Complex.exp (zArg (ram t) (rph t) v vp k) *
        ((((∑ j, (v j + vp j) * dam.U k j) / 2 + dam.d k : ℝ) : ℂ) + (((∑ j, (v j - vp j) * dph.U k j) / 2 : ℝ) : ℂ) * I)) t :=
    fun k _ => ((hzk k).cexp).const_add 1
  have hprod := HasDerivAt.fun_finsetProd hfk
  have hall := h0.mul hprod
  unfold rhoProd
  refine hall.congr_deriv ?_
  have hterm : ∀ k, (∏ j ∈ univ.erase k, (1 + Complex.exp (zArg (ram t) (rph t) v vp j)))
      * (Complex.exp (zArg (ram t) (rph t) v vp k) *
        ((((∑ j, (v j + vp j) * dam.U k j) / 2 + dam.d k : ℝ) : ℂ) + (((∑ j, (v j - vp j) * dph.U k j) / 2 : ℝ) : ℂ) * I))
      = (∏ j, (1 + Complex.exp (zArg (ram t) (rph t) v vp j))) * (sigC (zArg (ram t) (rph t) v vp k) *
        ((((∑ j, (v j + vp j) * dam.U k j) / 2 + dam.d k : ℝ) : ℂ) + (((∑ j, (v j - vp j) * dph.U k j) / 2 : ℝ) : ℂ) * I)) := by
    intro k
    rw [← Finset.mul_prod_erase univ _ (mem_univ k)]
    unfold sigC
    field_simp [hz k]
  simp only [smul_eq_mul, hterm]
  rw [← Finset.mul_sum]
  ring

/-! ### the model's `am_grads` / `ph_grads` entries pair to the logarithmic derivative of `ρ` -/

/-- complex value of a complex gradient record paired with a real direction -/
noncomputable def pairC (g : CPRBM ℝ n h a) (d : PRBM ℝ n h a) : ℂ := ⟨g.1.pair d, g.2.pair d⟩

theorem toC_csigmoid (x y : ℝ) (hz : (1 : ℂ) + Complex.exp ((x : ℂ) + (y : ℂ) * I) ≠ 0) :
    toC (csigmoid x y) = sigC ((x : ℂ) + (y : ℂ) * I) := by
  have hez : toC ((Transc.exp x * Transc.cos y, Transc.exp x * Transc.sin y) : C ℝ) = Complex.exp ((x : ℂ) + (y : ℂ) * I) := by
    apply Complex.ext <;> simp [Complex.exp_re, Complex.exp_im]
  unfold csigmoid sigC
  rw [toC_div _ _ (by rw [toC_add, toC_one, hez]; exact hz), toC_add, toC_one, hez]

theorem pairC_dmAmGrads (am ph dam : PRBM ℝ n h a) (v vp : Fin n → ℝ)
    (hz : ∀ k, (1 : ℂ) + Complex.exp (zArg am ph v vp k) ≠ 0) :
    pairC (dmAmGrads am ph v vp) dam
      = (((gammaGrad am 1 v vp).pair dam : ℝ) : ℂ)
        + ∑ k, sigC (zArg am ph v vp k) * (((∑ j, (v j + vp j) * dam.U k j) / 2 + dam.d k : ℝ) : ℂ) := by
  have hs : ∀ k, toC (csigmoid (piArgRe am v vp k) (piArgIm ph v vp k)) = sigC (zArg am ph v vp k) :=
    fun k => toC_csigmoid _ _ (hz k)
  have hre : ∀ k, (csigmoid (piArgRe am v vp k) (piArgIm ph v vp k)).1 = (sigC (zArg am ph v vp k)).re := by
    intro k; rw [← hs k]; rfl
  have him : ∀ k, (csigmoid (piArgRe am v vp k) (piArgIm ph v vp k)).2 = (sigC (zArg am ph v vp k)).im := by
    intro k; rw [← hs k]; rfl
  apply Complex.ext
  · simp only [pairC, dmAmGrads, piGrad, PRBM.pair_add, Complex.add_re, Complex.ofReal_re, Complex.re_sum,
      Complex.mul_re, Complex.ofReal_im, mul_zero, sub_zero, Bool.false_eq_true, if_false]
    congr 1
    simp only [PRBM.pair, zero_mul, Finset.sum_const_zero, zero_add, add_zero, two_eq, hre]
    rw [← Finset.sum_add_distrib]
    refine Finset.sum_congr rfl (fun k _ => ?_)
    rw [mul_add, Finset.sum_div, Finset.mul_sum]
    congr 1
    refine Finset.sum_congr rfl (fun j _ => ?_)
    ring
  · simp only [pairC, dmAmGrads, piGrad, Complex.add_im, Complex.ofReal_im, Complex.im_sum,
      Complex.mul_im, Complex.ofReal_re, mul_zero, add_zero, zero_add, Bool.false_eq_true, if_false]
    simp only [PRBM.pair, zero_mul, Finset.sum_const_zero, zero_add, add_zero, two_eq, him]
    rw [← Finset.sum_add_distrib]
    refine Finset.sum_congr rfl (fun k _ => ?_)
    rw [mul_add, Finset.sum_div, Finset.mul_sum]
    congr 1
    refine Finset.sum_congr rfl (fun j _ => ?_)
    ring

end QV
