/-
QV.Lemmas.DMGrad — derivative of the density-matrix elements and of the rotated Born probability of the mixed
state along differentiable parameter curves (amplitude and phase PurificationRBMs).
-/
import Mathlib.Analysis.SpecialFunctions.ExpDeriv
import Mathlib.Analysis.SpecialFunctions.Log.Deriv
import Mathlib.Analysis.Calculus.Deriv.Prod
import QV.Lemmas.Deriv
import QV.Lemmas.GradLin
import QV.Lemmas.Cplx
import QV.Lemmas.CplxGrad
import QV.Lemmas.Density

namespace QV
open Finset Grads Density Complex

variable {n h a : ℕ}

theorem PRBM.hasDerivAt_visTerm (r : ℝ → PRBM ℝ n h a) (dr : PRBM ℝ n h a) (t : ℝ) (hr : PRBM.CurveAt r dr t)
    (v : Fin n → ℝ) :
    HasDerivAt (fun s => (r s).visTerm v)
      ((∑ j, v j * dr.b j) + ∑ i, sigmoid ((r t).preactH v i) * ((∑ j, v j * dr.W i j) + dr.c i)) t := by
  have h1 : HasDerivAt (fun s => ∑ j, v j * (r s).b j) (∑ j, v j * dr.b j) t :=
    HasDerivAt.fun_sum (fun j _ => (hr.b j).const_mul (v j))
  have h2 : HasDerivAt (fun s => ∑ i, (softplus ((r s).preactH v i) : ℝ))
      (∑ i, sigmoid ((r t).preactH v i) * ((∑ j, v j * dr.W i j) + dr.c i)) t :=
    HasDerivAt.fun_sum (fun i _ => hasDerivAt_softplus_comp _ _ _ (PRBM.hasDerivAt_preactH r dr t hr v i))
  have hfun : (fun s => (r s).visTerm v)
      = fun s => (∑ j, v j * (r s).b j) + ∑ i, (softplus ((r s).preactH v i) : ℝ) := by
    funext s; simp [PRBM.visTerm]
  rw [hfun]
  exact h1.add h2

/-- `gamma_grad` is the gradient of `gamma` (both signs) -/
theorem PRBM.hasDerivAt_gamma (r : ℝ → PRBM ℝ n h a) (dr : PRBM ℝ n h a) (t : ℝ) (hr : PRBM.CurveAt r dr t)
    (sgn : ℝ) (v vp : Fin n → ℝ) :
    HasDerivAt (fun s => (r s).gamma sgn v vp) ((gammaGrad (r t) sgn v vp).pair dr) t := by
  have hd : HasDerivAt (fun s => (1 / two : ℝ) * ((r s).visTerm v + sgn * (r s).visTerm vp))
      ((1 / two : ℝ) * (((∑ j, v j * dr.b j) + ∑ i, sigmoid ((r t).preactH v i) * ((∑ j, v j * dr.W i j) + dr.c i))
        + sgn * ((∑ j, vp j * dr.b j) + ∑ i, sigmoid ((r t).preactH vp i) * ((∑ j, vp j * dr.W i j) + dr.c i)))) t :=
    ((PRBM.hasDerivAt_visTerm r dr t hr v).add ((PRBM.hasDerivAt_visTerm r dr t hr vp).const_mul sgn)).const_mul _
  have hfun : (fun s => (r s).gamma sgn v vp)
      = fun s => (1 / two : ℝ) * ((r s).visTerm v + sgn * (r s).visTerm vp) := by
    funext s; rfl
  rw [hfun]
  refine hd.congr_deriv ?_
  simp only [PRBM.pair, gammaGrad, PRBM.probH, clamp01_sigmoid, two_eq, zero_mul, Finset.sum_const_zero, add_zero]
  simp only [mul_add, add_mul, Finset.sum_add_distrib, Finset.mul_sum, Finset.sum_mul]
  ring_nf

theorem hasDerivAt_piArgRe (r : ℝ → PRBM ℝ n h a) (dr : PRBM ℝ n h a) (t : ℝ) (hr : PRBM.CurveAt r dr t)
    (v vp : Fin n → ℝ) (k : Fin a) :
    HasDerivAt (fun s => piArgRe (r s) v vp k) ((∑ j, (v j + vp j) * dr.U k j) / 2 + dr.d k) t := by
  have hd := ((PRBM.hasDerivAt_preactA r dr t hr v k).add (PRBM.hasDerivAt_preactA r dr t hr vp k)).div_const (2 : ℝ)
  have hfun : (fun s => piArgRe (r s) v vp k) = fun s => ((r s).preactA v k + (r s).preactA vp k) / 2 := by
    funext s; simp [piArgRe]
  rw [hfun]
  refine hd.congr_deriv ?_
  simp only [add_mul, Finset.sum_add_distrib]
  ring

theorem hasDerivAt_piArgIm (r : ℝ → PRBM ℝ n h a) (dr : PRBM ℝ n h a) (t : ℝ) (hr : PRBM.CurveAt r dr t)
    (v vp : Fin n → ℝ) (k : Fin a) :
    HasDerivAt (fun s => piArgIm (r s) v vp k) ((∑ j, (v j - vp j) * dr.U k j) / 2) t := by
  have h1 : HasDerivAt (fun s => ∑ j, v j * (r s).U k j) (∑ j, v j * dr.U k j) t :=
    HasDerivAt.fun_sum (fun j _ => (hr.U k j).const_mul (v j))
  have h2 : HasDerivAt (fun s => ∑ j, vp j * (r s).U k j) (∑ j, vp j * dr.U k j) t :=
    HasDerivAt.fun_sum (fun j _ => (hr.U k j).const_mul (vp j))
  have hd := (h1.sub h2).div_const (2 : ℝ)
  have hfun : (fun s => piArgIm (r s) v vp k) = fun s => ((∑ j, v j * (r s).U k j) - ∑ j, vp j * (r s).U k j) / 2 := by
    funext s; simp [piArgIm]
  rw [hfun]
  refine hd.congr_deriv ?_
  simp only [sub_mul, Finset.sum_sub_distrib]

/-! ### the density-matrix element in product form and its derivative -/

/-- `z_k = x_k + i y_k` -/
noncomputable def zArg (am ph : PRBM ℝ n h a) (v vp : Fin n → ℝ) (k : Fin a) : ℂ :=
  ((piArgRe am v vp k : ℝ) : ℂ) + ((piArgIm ph v vp k : ℝ) : ℂ) * I

/-- `ρ(v,v') = exp(Γ⁺ + iΓ⁻) Π_k (1 + e^{z_k})` -/
noncomputable def rhoProd (am ph : PRBM ℝ n h a) (v vp : Fin n → ℝ) : ℂ :=
  Complex.exp (((am.gamma 1 v vp : ℝ) : ℂ) + ((ph.gamma (-1) v vp : ℝ) : ℂ) * I) * ∏ k, (1 + Complex.exp (zArg am ph v vp k))

theorem toC_rho_eq_rhoProd (am ph : PRBM ℝ n h a) (v vp : Fin n → ℝ)
    (hz : ∀ k, (1 : ℂ) + Complex.exp (zArg am ph v vp k) ≠ 0) :
    toC (rho am ph v vp) = rhoProd am ph v vp :=
  rho_complex_eq am ph v vp hz

/-- complex sigmoid `e^z/(1+e^z)` -/
noncomputable def sigC (z : ℂ) : ℂ := Complex.exp z / (1 + Complex.exp z)

theorem hasDerivAt_rhoProd (ram rph : ℝ → PRBM ℝ n h a) (dam dph : PRBM ℝ n h a) (t : ℝ)
    (ha : PRBM.CurveAt ram dam t) (hp : PRBM.CurveAt rph dph t) (v vp : Fin n → ℝ)
    (hz : ∀ k, (1 : ℂ) + Complex.exp (zArg (ram t) (rph t) v vp k) ≠ 0) :
    HasDerivAt (fun s => rhoProd (ram s) (rph s) v vp)
      (rhoProd (ram t) (rph t) v vp *
        ((((gammaGrad (ram t) 1 v vp).pair dam : ℝ) : ℂ) + (((gammaGrad (rph t) (-1) v vp).pair dph : ℝ) : ℂ) * I
          + ∑ k, sigC (zArg (ram t) (rph t) v vp k)
              * ((((∑ j, (v j + vp j) * dam.U k j) / 2 + dam.d k : ℝ) : ℂ)
                 + (((∑ j, (v j - vp j) * dph.U k j) / 2 : ℝ) : ℂ) * I))) t := by
  classical
  -- the exponential prefactor
  have hg : HasDerivAt (fun s => (((ram s).gamma 1 v vp : ℝ) : ℂ) + (((rph s).gamma (-1) v vp : ℝ) : ℂ) * I)
      ((((gammaGrad (ram t) 1 v vp).pair dam : ℝ) : ℂ) + (((gammaGrad (rph t) (-1) v vp).pair dph : ℝ) : ℂ) * I) t :=
    (PRBM.hasDerivAt_gamma ram dam t ha 1 v vp).ofReal_comp.add
      ((PRBM.hasDerivAt_gamma rph dph t hp (-1) v vp).ofReal_comp.mul_const I)
  have h0 := hg.cexp
  -- the factors
  have hzk : ∀ k, HasDerivAt (fun s => zArg (ram s) (rph s) v vp k)
      ((((∑ j, (v j + vp j) * dam.U k j) / 2 + dam.d k : ℝ) : ℂ) + (((∑ j, (v j - vp j) * dph.U k j) / 2 : ℝ) : ℂ) * I) t :=
    fun k => (hasDerivAt_piArgRe ram dam t ha v vp k).ofReal_comp.add
      ((hasDerivAt_piArgIm rph dph t hp v vp k).ofReal_comp.mul_const I)
  have hfk : ∀ k ∈ (univ : Finset (Fin a)), HasDerivAt (fun s => 1 + Complex.exp (zArg (ram s) (rph s) v vp k))
      (Complex.exp (zArg (ram t) (rph t) v vp k) *
        ((((∑ j, (v j + vp j) * dam.U k j) / 2 + dam.d k : ℝ) : ℂ) + (((∑ j, (v j - vp j) * dph.U k j) / 2 : ℝ) : ℂ) * I)) t :=
    fun k _ => ((hzk k).cexp).const_add 1
  have hprod := HasDerivAt.fun_finsetProd hfk
  have hall := h0.mul hprod
  unfold rhoProd
  refine hall.congr_deriv ?_
  have hterm : ∀ k, (∏ j ∈ univ.erase k, (1 + Complex.exp (zArg (ram t) (rph t) v vp j)))
      * (Complex.exp (zArg (ram t) (rph t) v vp k) *
        ((((∑ j, (v j + vp j) * dam.U k j) / 2 + dam.d k : ℝ) : ℂ) + (((∑ j, (v j - vp j) * dph.U k j) / 2 : ℝ) : ℂ) * I))
      = (∏ j, (1 + Complex.exp (zArg (ram t) (rph t) v vp j))) * (sigC (zArg (ram t) (rph t) v vp k) *
        ((((∑ j, (v j + vp j) * dam.U k j) / 2 + dam.d k : ℝ) : ℂ) + (((∑ j, (v j - vp j) * dph.U k j) / 2 : ℝ) : ℂ) * I)) := by
    intro k
    rw [← Finset.mul_prod_erase univ _ (mem_univ k)]
    unfold sigC
    field_simp [hz k]
  simp only [smul_eq_mul, hterm]
  rw [← Finset.mul_sum]
  ring

/-! ### the model's `am_grads` / `ph_grads` entries pair to the logarithmic derivative of `ρ` -/

/-- complex value of a complex gradient record paired with a real direction -/
noncomputable def pairC (g : CPRBM ℝ n h a) (d : PRBM ℝ n h a) : ℂ := ⟨g.1.pair d, g.2.pair d⟩

theorem toC_csigmoid (x y : ℝ) (hz : (1 : ℂ) + Complex.exp ((x : ℂ) + (y : ℂ) * I) ≠ 0) :
    toC (csigmoid x y) = sigC ((x : ℂ) + (y : ℂ) * I) := by
  have hez : toC ((Transc.exp x * Transc.cos y, Transc.exp x * Transc.sin y) : C ℝ) = Complex.exp ((x : ℂ) + (y : ℂ) * I) := by
    apply Complex.ext <;> simp [Complex.exp_re, Complex.exp_im]
  unfold csigmoid sigC
  rw [toC_div _ _ (by rw [toC_add, toC_one, hez]; exact hz), toC_add, toC_one, hez]

/-- `pi_grad` (either flag) pairs to `Σ_k s'_k · R_k` with `s'_k` the (possibly `i`-multiplied) complex sigmoid -/
theorem pairC_piGrad (am ph d : PRBM ℝ n h a) (phase : Bool) (v vp : Fin n → ℝ) :
    pairC (piGrad am ph phase v vp) d
      = ∑ k, toC (if phase then C.mul (csigmoid (piArgRe am v vp k) (piArgIm ph v vp k)) C.I
                  else csigmoid (piArgRe am v vp k) (piArgIm ph v vp k))
          * (((∑ j, (if phase then v j - vp j else v j + vp j) * d.U k j) / 2 + (if phase then 0 else d.d k) : ℝ) : ℂ) := by
  apply Complex.ext
  · simp only [pairC, piGrad, C.csigmoidH_eq, PRBM.pair, zero_mul, Finset.sum_const_zero, zero_add, add_zero, two_eq,
      Complex.re_sum, Complex.mul_re, Complex.ofReal_re, Complex.ofReal_im, mul_zero, sub_zero, toC_re]
    cases phase
    · simp only [Bool.false_eq_true, if_false]
      rw [← Finset.sum_add_distrib]
      refine Finset.sum_congr rfl (fun k _ => ?_)
      rw [mul_add, Finset.sum_div, Finset.mul_sum]
      congr 1
      refine Finset.sum_congr rfl (fun j _ => by ring)
    · simp only [if_true, zero_mul, Finset.sum_const_zero, add_zero]
      refine Finset.sum_congr rfl (fun k _ => ?_)
      rw [Finset.sum_div, Finset.mul_sum]
      refine Finset.sum_congr rfl (fun j _ => by ring)
  · simp only [pairC, piGrad, C.csigmoidH_eq, PRBM.pair, zero_mul, Finset.sum_const_zero, zero_add, add_zero, two_eq,
      Complex.im_sum, Complex.mul_im, Complex.ofReal_re, Complex.ofReal_im, mul_zero, add_zero, toC_im]
    cases phase
    · simp only [Bool.false_eq_true, if_false]
      rw [← Finset.sum_add_distrib]
      refine Finset.sum_congr rfl (fun k _ => ?_)
      rw [mul_add, Finset.sum_div, Finset.mul_sum]
      congr 1
      refine Finset.sum_congr rfl (fun j _ => by ring)
    · simp only [if_true, zero_mul, Finset.sum_const_zero, add_zero]
      refine Finset.sum_congr rfl (fun k _ => ?_)
      rw [Finset.sum_div, Finset.mul_sum]
      refine Finset.sum_congr rfl (fun j _ => by ring)

theorem pairC_dmAmGrads (am ph dam : PRBM ℝ n h a) (v vp : Fin n → ℝ)
    (hz : ∀ k, (1 : ℂ) + Complex.exp (zArg am ph v vp k) ≠ 0) :
    pairC (dmAmGrads am ph v vp) dam
      = (((gammaGrad am 1 v vp).pair dam : ℝ) : ℂ)
        + ∑ k, sigC (zArg am ph v vp k) * (((∑ j, (v j + vp j) * dam.U k j) / 2 + dam.d k : ℝ) : ℂ) := by
  have hs : ∀ k, toC (csigmoid (piArgRe am v vp k) (piArgIm ph v vp k)) = sigC (zArg am ph v vp k) :=
    fun k => toC_csigmoid _ _ (hz k)
  have hp := pairC_piGrad am ph dam false v vp
  simp only [Bool.false_eq_true, if_false, hs] at hp
  rw [← hp]
  apply Complex.ext
  · simp [pairC, dmAmGrads, PRBM.pair_add]
  · simp [pairC, dmAmGrads]

theorem pairC_dmPhGrads (am ph dph : PRBM ℝ n h a) (v vp : Fin n → ℝ)
    (hz : ∀ k, (1 : ℂ) + Complex.exp (zArg am ph v vp k) ≠ 0) :
    pairC (dmPhGrads am ph v vp) dph
      = (((gammaGrad ph (-1) v vp).pair dph : ℝ) : ℂ) * I
        + ∑ k, sigC (zArg am ph v vp k) * ((((∑ j, (v j - vp j) * dph.U k j) / 2 : ℝ) : ℂ) * I) := by
  have hs : ∀ k, toC (C.mul (csigmoid (piArgRe am v vp k) (piArgIm ph v vp k)) C.I) = sigC (zArg am ph v vp k) * I := by
    intro k; rw [toC_mul, toC_I, toC_csigmoid _ _ (hz k)]; rfl
  have hp := pairC_piGrad am ph dph true v vp
  simp only [if_true, hs, add_zero] at hp
  have hsum : (∑ k, sigC (zArg am ph v vp k) * ((((∑ j, (v j - vp j) * dph.U k j) / 2 : ℝ) : ℂ) * I))
      = pairC (piGrad am ph true v vp) dph := by
    rw [hp]; refine Finset.sum_congr rfl (fun k _ => by ring)
  rw [hsum]
  apply Complex.ext
  · simp [pairC, dmPhGrads]
  · simp [pairC, dmPhGrads, PRBM.pair_add]

/-- `ρ(v,v')` of the model is differentiable along parameter curves (where the guard holds), with logarithmic
derivative the pairing of the model's `am_grads` / `ph_grads` entries with the velocities. -/
theorem hasDerivAt_toC_rho (ram rph : ℝ → PRBM ℝ n h a) (dam dph : PRBM ℝ n h a) (t : ℝ)
    (ha : PRBM.CurveAt ram dam t) (hp : PRBM.CurveAt rph dph t) (v vp : Fin n → ℝ)
    (hz : ∀ k, (1 : ℂ) + Complex.exp (zArg (ram t) (rph t) v vp k) ≠ 0) :
    HasDerivAt (fun s => toC (rho (ram s) (rph s) v vp))
      (toC (rho (ram t) (rph t) v vp) *
        (pairC (dmAmGrads (ram t) (rph t) v vp) dam + pairC (dmPhGrads (ram t) (rph t) v vp) dph)) t := by
  -- the guard holds in a neighbourhood of t
  have hcont : ∀ k, ContinuousAt (fun s => (1 : ℂ) + Complex.exp (zArg (ram s) (rph s) v vp k)) t := by
    intro k
    have hzk : HasDerivAt (fun s => zArg (ram s) (rph s) v vp k)
        ((((∑ j, (v j + vp j) * dam.U k j) / 2 + dam.d k : ℝ) : ℂ) + (((∑ j, (v j - vp j) * dph.U k j) / 2 : ℝ) : ℂ) * I) t :=
      (hasDerivAt_piArgRe ram dam t ha v vp k).ofReal_comp.add
        ((hasDerivAt_piArgIm rph dph t hp v vp k).ofReal_comp.mul_const I)
    exact ((hzk.cexp).const_add 1).continuousAt
  have hev : ∀ᶠ s in nhds t, ∀ k, (1 : ℂ) + Complex.exp (zArg (ram s) (rph s) v vp k) ≠ 0 := by
    rw [Filter.eventually_all]
    exact fun k => (hcont k).eventually_ne (hz k)
  have heq : (fun s => toC (rho (ram s) (rph s) v vp)) =ᶠ[nhds t] fun s => rhoProd (ram s) (rph s) v vp :=
    hev.mono (fun s hs => toC_rho_eq_rhoProd _ _ _ _ hs)
  have hd := (hasDerivAt_rhoProd ram rph dam dph t ha hp v vp hz).congr_of_eventuallyEq heq
  refine hd.congr_deriv ?_
  rw [toC_rho_eq_rhoProd _ _ _ _ hz, pairC_dmAmGrads _ _ _ _ _ hz, pairC_dmPhGrads _ _ _ _ _ hz]
  congr 1
  simp only [mul_add, Finset.sum_add_distrib]
  ring

/-! ### the rotated Born probability of one sample and the model's `DensityMatrix.rotated_gradient` -/

open Unitaries

theorem PRBM.ext' {x y : PRBM ℝ n h a} (hW : x.W = y.W) (hU : x.U = y.U) (hb : x.b = y.b) (hc : x.c = y.c)
    (hd : x.d = y.d) : x = y := by
  cases x; cases y; simp_all

/-- parameter-independent part of `UrhoU_v[τ1,τ2]`: `[τ1, τ2 expansions of σ] · Ut_τ1 · conj(Ut_τ2)` -/
noncomputable def dmC (dict : Char → M2 ℝ) (smp : Sample n) (τ1 τ2 : Fin n → Bool) : ℂ :=
  if (agreesOff n smp.rot smp.σ τ1 && agreesOff n smp.rot smp.σ τ2) = true then
    toC (rotCoeff n (fun j => dict (smp.letter j)) smp.rot smp.σ τ1)
      * (starRingEnd ℂ) (toC (rotCoeff n (fun j => dict (smp.letter j)) smp.rot smp.σ τ2))
  else 0

theorem toC_dmCoef (am ph : PRBM ℝ n h a) (dict : Char → M2 ℝ) (smp : Sample n) (τ1 τ2 : Fin n → Bool) :
    toC (dmCoef am ph dict smp τ1 τ2) = dmC dict smp τ1 τ2 * toC (rho am ph (visOf τ1) (visOf τ2)) := by
  unfold dmCoef dmC
  split <;> simp

/-- pair index over the generated space -/
abbrev PairIx (n : ℕ) := Fin (2 ^ n) × Fin (2 ^ n)
/-- the two basis states of a pair index -/
def pairSt (x : PairIx n) : (Fin n → Bool) × (Fin n → Bool) :=
  (fun j => spaceBit n x.1.val j, fun j => spaceBit n x.2.val j)

theorem dmUrhoU_eq (am ph : PRBM ℝ n h a) (dict : Char → M2 ℝ) (smp : Sample n) :
    dmUrhoU am ph dict smp
      = ∑ x : PairIx n, (dmC dict smp (pairSt x).1 (pairSt x).2
          * toC (rho am ph (visOf (pairSt x).1) (visOf (pairSt x).2))).re := by
  unfold dmUrhoU
  simp only [sumFin_eq]
  rw [Fintype.sum_prod_type]
  refine Finset.sum_congr rfl (fun k _ => Finset.sum_congr rfl (fun l _ => ?_))
  rw [← toC_dmCoef]; rfl

/-- the guard for every pair of basis states -/
def NZall (am ph : PRBM ℝ n h a) : Prop :=
  ∀ (τ1 τ2 : Fin n → Bool) (k : Fin a), (1 : ℂ) + Complex.exp (zArg am ph (visOf τ1) (visOf τ2) k) ≠ 0

theorem hasDerivAt_dmUrhoU (ram rph : ℝ → PRBM ℝ n h a) (dam dph : PRBM ℝ n h a) (t : ℝ)
    (ha : PRBM.CurveAt ram dam t) (hp : PRBM.CurveAt rph dph t) (dict : Char → M2 ℝ) (smp : Sample n)
    (hz : NZall (ram t) (rph t)) :
    HasDerivAt (fun s => dmUrhoU (ram s) (rph s) dict smp)
      (∑ x : PairIx n, (toC (dmCoef (ram t) (rph t) dict smp (pairSt x).1 (pairSt x).2)
          * (pairC (dmAmGrads (ram t) (rph t) (visOf (pairSt x).1) (visOf (pairSt x).2)) dam
             + pairC (dmPhGrads (ram t) (rph t) (visOf (pairSt x).1) (visOf (pairSt x).2)) dph)).re) t := by
  have hfun : (fun s => dmUrhoU (ram s) (rph s) dict smp)
      = fun s => ∑ x : PairIx n, (dmC dict smp (pairSt x).1 (pairSt x).2
          * toC (rho (ram s) (rph s) (visOf (pairSt x).1) (visOf (pairSt x).2))).re := by
    funext s; exact dmUrhoU_eq _ _ _ _
  rw [hfun]
  refine (HasDerivAt.fun_sum (fun x _ => re_hasDerivAt
    ((hasDerivAt_toC_rho ram rph dam dph t ha hp (visOf (pairSt x).1) (visOf (pairSt x).2)
      (hz (pairSt x).1 (pairSt x).2)).const_mul (dmC dict smp (pairSt x).1 (pairSt x).2)))).congr_deriv ?_
  refine Finset.sum_congr rfl (fun x _ => ?_)
  rw [toC_dmCoef, mul_assoc]

/-- `dmRotComp` is a real-linear functional of the raw gradient entries (real and imaginary parts) -/
theorem dmRotComp_split (am ph : PRBM ℝ n h a) (dict : Char → M2 ℝ) (eps : ℝ) (smp : Sample n)
    (g : (Fin n → Bool) → (Fin n → Bool) → C ℝ) :
    dmRotComp am ph dict eps smp g
      = (∑ x : PairIx n, (g (pairSt x).1 (pairSt x).2).1
            * (-((dmCoef am ph dict smp (pairSt x).1 (pairSt x).2).1) * (1 / (dmUrhoU am ph dict smp + eps))))
        + ∑ x : PairIx n, (g (pairSt x).1 (pairSt x).2).2
            * ((dmCoef am ph dict smp (pairSt x).1 (pairSt x).2).2 * (1 / (dmUrhoU am ph dict smp + eps))) := by
  unfold dmRotComp
  simp only [sumFin_eq]
  rw [Fintype.sum_prod_type, Fintype.sum_prod_type, neg_mul, Finset.sum_mul, ← Finset.sum_neg_distrib, ← Finset.sum_add_distrib]
  refine Finset.sum_congr rfl (fun k _ => ?_)
  rw [Finset.sum_mul, ← Finset.sum_neg_distrib, ← Finset.sum_add_distrib]
  refine Finset.sum_congr rfl (fun l _ => ?_)
  simp only [C.mul, pairSt]
  ring

/-- pairing of the model's per-sample gradient (rotated branch) of either network -/
theorem pair_dmRot (am ph d : PRBM ℝ n h a) (dict : Char → M2 ℝ) (eps : ℝ) (smp : Sample n)
    (g : (Fin n → Bool) → (Fin n → Bool) → CPRBM ℝ n h a) :
    PRBM.pair
      { W := fun i j => dmRotComp am ph dict eps smp (fun τ1 τ2 => ((g τ1 τ2).1.W i j, (g τ1 τ2).2.W i j))
        U := fun k j => dmRotComp am ph dict eps smp (fun τ1 τ2 => ((g τ1 τ2).1.U k j, (g τ1 τ2).2.U k j))
        b := fun j => dmRotComp am ph dict eps smp (fun τ1 τ2 => ((g τ1 τ2).1.b j, (g τ1 τ2).2.b j))
        c := fun i => dmRotComp am ph dict eps smp (fun τ1 τ2 => ((g τ1 τ2).1.c i, (g τ1 τ2).2.c i))
        d := fun k => dmRotComp am ph dict eps smp (fun τ1 τ2 => ((g τ1 τ2).1.d k, (g τ1 τ2).2.d k)) } d
      = -(∑ x : PairIx n, (toC (dmCoef am ph dict smp (pairSt x).1 (pairSt x).2)
            * pairC (g (pairSt x).1 (pairSt x).2) d).re) / (dmUrhoU am ph dict smp + eps) := by
  set wr : PairIx n → ℝ := fun x => -((dmCoef am ph dict smp (pairSt x).1 (pairSt x).2).1) * (1 / (dmUrhoU am ph dict smp + eps))
  set wi : PairIx n → ℝ := fun x => (dmCoef am ph dict smp (pairSt x).1 (pairSt x).2).2 * (1 / (dmUrhoU am ph dict smp + eps))
  have hrec : (⟨fun i j => dmRotComp am ph dict eps smp (fun τ1 τ2 => ((g τ1 τ2).1.W i j, (g τ1 τ2).2.W i j)),
        fun k j => dmRotComp am ph dict eps smp (fun τ1 τ2 => ((g τ1 τ2).1.U k j, (g τ1 τ2).2.U k j)),
        fun j => dmRotComp am ph dict eps smp (fun τ1 τ2 => ((g τ1 τ2).1.b j, (g τ1 τ2).2.b j)),
        fun i => dmRotComp am ph dict eps smp (fun τ1 τ2 => ((g τ1 τ2).1.c i, (g τ1 τ2).2.c i)),
        fun k => dmRotComp am ph dict eps smp (fun τ1 τ2 => ((g τ1 τ2).1.d k, (g τ1 τ2).2.d k))⟩ : PRBM ℝ n h a)
      = PRBM.add
          ⟨fun i j => ∑ x, ((g (pairSt x).1 (pairSt x).2).1).W i j * wr x, fun k j => ∑ x, ((g (pairSt x).1 (pairSt x).2).1).U k j * wr x,
           fun j => ∑ x, ((g (pairSt x).1 (pairSt x).2).1).b j * wr x, fun i => ∑ x, ((g (pairSt x).1 (pairSt x).2).1).c i * wr x,
           fun k => ∑ x, ((g (pairSt x).1 (pairSt x).2).1).d k * wr x⟩
          ⟨fun i j => ∑ x, ((g (pairSt x).1 (pairSt x).2).2).W i j * wi x, fun k j => ∑ x, ((g (pairSt x).1 (pairSt x).2).2).U k j * wi x,
           fun j => ∑ x, ((g (pairSt x).1 (pairSt x).2).2).b j * wi x, fun i => ∑ x, ((g (pairSt x).1 (pairSt x).2).2).c i * wi x,
           fun k => ∑ x, ((g (pairSt x).1 (pairSt x).2).2).d k * wi x⟩ := by
    apply PRBM.ext' <;> (simp only [PRBM.add]; funext _) <;> first
      | exact dmRotComp_split _ _ _ _ _ _
      | (funext _; exact dmRotComp_split _ _ _ _ _ _)
  rw [hrec, PRBM.pair_add,
    PRBM.pair_weighted (fun x : PairIx n => (g (pairSt x).1 (pairSt x).2).1) wr d,
    PRBM.pair_weighted (fun x : PairIx n => (g (pairSt x).1 (pairSt x).2).2) wi d,
    ← Finset.sum_add_distrib, neg_div, Finset.sum_div, ← Finset.sum_neg_distrib]
  refine Finset.sum_congr rfl (fun x _ => ?_)
  simp only [wr, wi, pairC, Complex.mul_re, toC_re, toC_im]
  ring

end QV
