/-
QV.Lemmas.DataLoad — the table tokenizer of `QV.Model.DataLoad` inverts the table printer; shape
(squeeze) facts of the `np.loadtxt` model; boolean-mask selection as an index filter.
-/
import Mathlib.Data.List.Basic
import Mathlib.Data.List.FinRange
import QV.Model.DataLoad

namespace QV.DataLoad

/-- a token the writer may emit: non-empty, no field separator, no line end, no comment character -/
def GoodTok (t : Token) : Prop := t ≠ [] ∧ ∀ c ∈ t, isWs c = false ∧ isNl c = false ∧ c ≠ '#'

/-- a printable table row: at least one token, all of them good -/
def GoodRow (r : List Token) : Prop := r ≠ [] ∧ ∀ t ∈ r, GoodTok t

theorem stripComment_eq_self {l : List Char} (h : ∀ c ∈ l, c ≠ '#') : stripComment l = l := by
  induction l with
  | nil => simp [stripComment]
  | cons a l ih =>
    have ha : a ≠ '#' := h a (by simp)
    have := ih (fun x hx => h x (by simp [hx]))
    simp only [stripComment] at this ⊢
    simp [ha, this]

theorem stripComment_append_hash {l : List Char} (c : List Char) (h : ∀ x ∈ l, x ≠ '#') :
    stripComment (l ++ '#' :: c) = l := by
  induction l with
  | nil => simp [stripComment]
  | cons a l ih =>
    have ha : a ≠ '#' := h a (by simp)
    have := ih (fun x hx => h x (by simp [hx]))
    simp only [stripComment] at this ⊢
    simp [ha, this]

theorem splitWs_append_ws (a b : List Char) {c : Char} (hc : isWs c = true) :
    splitWs (a ++ c :: b) = splitWs a ++ splitWs b := by
  simp [splitWs, List.splitOnP_append_cons a b hc]

theorem splitWs_tok {t : Token} (ht : t ≠ []) (h : ∀ c ∈ t, isWs c = false) : splitWs t = [t] := by
  simp [splitWs, List.splitOnP_eq_singleton h, ht]

theorem splitWs_nil : splitWs [] = [] := by simp [splitWs]

theorem splitWs_intercalate (toks : List Token) (h : ∀ t ∈ toks, GoodTok t) :
    splitWs ([' '].intercalate toks) = toks := by
  induction toks with
  | nil => simp [splitWs_nil]
  | cons t ts ih =>
    have ht := h t (by simp)
    have hts : ∀ t' ∈ ts, GoodTok t' := fun t' ht' => h t' (by simp [ht'])
    have h1 : splitWs t = [t] := splitWs_tok ht.1 (fun c hc => (ht.2 c hc).1)
    cases ts with
    | nil => simpa using h1
    | cons t' ts' =>
      rw [List.intercalate_cons_cons, List.append_assoc, List.singleton_append,
        splitWs_append_ws _ _ (by decide), h1, ih hts]
      rfl

/-- the tokens of a printed row are the row -/
theorem parseLine_row {r : List Token} (h : ∀ t ∈ r, GoodTok t) :
    parseLine ([' '].intercalate r) = r := by
  have hc : ∀ c ∈ [' '].intercalate r, c ≠ '#' := by
    intro c hc
    induction r with
    | nil => simp at hc
    | cons t ts ih =>
      cases ts with
      | nil =>
        simp only [List.intercalate_singleton] at hc
        exact ((h t (by simp)).2 c hc).2.2
      | cons t' ts' =>
        rw [List.intercalate_cons_cons] at hc
        simp only [List.mem_append, List.mem_singleton] at hc
        rcases hc with (hc | hc) | hc
        · exact ((h t (by simp)).2 c hc).2.2
        · subst hc; decide
        · exact ih (fun x hx => h x (by simp [hx])) hc
  rw [parseLine, stripComment_eq_self hc, splitWs_intercalate r h]

/-- a trailing comment on a line is ignored -/
theorem parseLine_comment {l : List Char} (c : List Char) (h : ∀ x ∈ l, x ≠ '#') :
    parseLine (l ++ '#' :: c) = parseLine l := by
  rw [parseLine, parseLine, stripComment_append_hash c h, stripComment_eq_self h]

/-- the tokenizer works line by line: a first line `l` (no line end inside) contributes its tokens as a
row, unless it has none (blank / comment-only), and the rest of the file is processed the same way. -/
theorem tokenize_append_nl (l rest : List Char) {c : Char} (hc : isNl c = true)
    (h : ∀ x ∈ l, isNl x = false) :
    tokenize (l ++ c :: rest) = (if (parseLine l).isEmpty then [] else [parseLine l]) ++ tokenize rest := by
  unfold tokenize
  rw [List.splitOnP_append_cons_of_forall_mem h c hc rest, List.map_cons, List.filter_cons]
  cases (parseLine l).isEmpty <;> simp

theorem tokenize_nil : tokenize [] = [] := by
  simp [tokenize, parseLine, stripComment, splitWs]

theorem intercalate_no_nl {r : List Token} (h : ∀ t ∈ r, GoodTok t) :
    ∀ c ∈ [' '].intercalate r, isNl c = false := by
  intro c hc
  induction r with
  | nil => simp at hc
  | cons t ts ih =>
    cases ts with
    | nil =>
      simp only [List.intercalate_singleton] at hc
      exact ((h t (by simp)).2 c hc).2.1
    | cons t' ts' =>
      rw [List.intercalate_cons_cons] at hc
      simp only [List.mem_append, List.mem_singleton] at hc
      rcases hc with (hc | hc) | hc
      · exact ((h t (by simp)).2 c hc).2.1
      · subst hc; decide
      · exact ih (fun x hx => h x (by simp [hx])) hc

/-- **round trip**: reading back a printed table gives the token rows -/
theorem tokenize_printTable (rows : List (List Token)) (h : ∀ r ∈ rows, GoodRow r) :
    tokenize (printTable rows) = rows := by
  induction rows with
  | nil => simp [printTable, tokenize_nil]
  | cons r rs ih =>
    have hr := h r (by simp)
    have ih' := ih (fun x hx => h x (by simp [hx]))
    simp only [printTable] at ih' ⊢
    rw [List.map_cons, List.flatten_cons, List.append_assoc, List.singleton_append,
      tokenize_append_nl _ _ (by decide) (intercalate_no_nl hr.2), parseLine_row hr.2, ih']
    cases r with
    | nil => exact absurd rfl hr.1
    | cons _ _ => simp

/-! ### shapes -/

theorem shapeTable_mat {τ : Type} (b : Bool) (rows : List (List τ)) (m : Nat) (hN : 2 ≤ rows.length)
    (hm : 2 ≤ m) (hrect : ∀ r ∈ rows, r.length = m) : shapeTable b rows = .ok (.mat rows) := by
  match rows, hN with
  | r0 :: r1 :: rs, _ =>
    have h0 : r0.length = m := hrect r0 (by simp)
    have hall : (r1 :: rs).all (fun r => r.length == r0.length) = true := by
      rw [List.all_eq_true]; intro r hr; simp [hrect r (by simp [hr]), h0]
    have hnot : (r0 :: r1 :: rs).all (fun r => r.length == 1) = false := by
      simp only [List.all_cons, h0]
      have : (m == 1) = false := by simp; omega
      simp [this]
    simp only [shapeTable, hall, if_true, squeeze, hnot]
    simp

theorem shapeTable_one_row {τ : Type} (b : Bool) (r : List τ) (h : 2 ≤ r.length) :
    shapeTable b [r] = .ok (.vec r) := by
  match r, h with
  | x :: y :: zs, _ => simp [shapeTable, squeeze]

theorem shapeTable_one_col {τ : Type} (b : Bool) (rows : List (List τ)) (hN : 2 ≤ rows.length)
    (hcol : ∀ r ∈ rows, r.length = 1) : shapeTable b rows = .ok (.vec rows.flatten) := by
  match rows, hN with
  | r0 :: r1 :: rs, _ =>
    have h0 : r0.length = 1 := hcol r0 (by simp)
    have hall : (r1 :: rs).all (fun r => r.length == r0.length) = true := by
      rw [List.all_eq_true]; intro r hr; simp [hcol r (by simp [hr]), h0]
    have hone : (r0 :: r1 :: rs).all (fun r => r.length == 1) = true := by
      rw [List.all_eq_true]; intro r hr; simp [hcol r hr]
    simp only [shapeTable, hall, if_true, squeeze, hone]

theorem shapeTable_single {τ : Type} (b : Bool) (x : τ) :
    shapeTable b [[x]] = .ok (if b then .vec [x] else .scalar x) := by
  simp [shapeTable, squeeze]

theorem shapeTable_ragged {τ : Type} (b : Bool) (r0 : List τ) (rest : List (List τ))
    (h : ∃ r ∈ rest, r.length ≠ r0.length) : shapeTable b (r0 :: rest) = .error .ValueError := by
  obtain ⟨r, hr, hne⟩ := h
  have : rest.all (fun r => r.length == r0.length) = false := by
    rw [List.all_eq_false]; exact ⟨r, hr, by simpa using hne⟩
  simp [shapeTable, this]

/-! ### number conversion -/

theorem convertRow_ok {ν : Type} (parse : Token → Option ν) (round : ν → ν) (val : Token → ν)
    (r : List Token) (h : ∀ t ∈ r, parse t = some (val t)) :
    convertRow parse round r = .ok (r.map (fun t => round (val t))) := by
  induction r with
  | nil => rfl
  | cons t ts ih =>
    simp [convertRow, h t (by simp), ih (fun x hx => h x (by simp [hx]))]

theorem convertRows_ok {ν : Type} (parse : Token → Option ν) (round : ν → ν) (val : Token → ν)
    (rows : List (List Token)) (h : ∀ r ∈ rows, ∀ t ∈ r, parse t = some (val t)) :
    convertRows parse round rows = .ok (rows.map (fun r => r.map (fun t => round (val t)))) := by
  induction rows with
  | nil => rfl
  | cons r rs ih =>
    simp [convertRows, convertRow_ok parse round val r (h r (by simp)),
      ih (fun x hx => h x (by simp [hx]))]

theorem convertRows_bad {ν : Type} (parse : Token → Option ν) (round : ν → ν)
    (rows : List (List Token)) (h : ∃ r ∈ rows, ∃ t ∈ r, parse t = none) :
    convertRows parse round rows = .error .ValueError := by
  have hrow : ∀ r : List Token, (∃ t ∈ r, parse t = none) → convertRow parse round r = .error .ValueError := by
    intro r
    induction r with
    | nil => simp
    | cons t ts ih =>
      intro hx
      simp only [convertRow]
      cases hp : parse t with
      | none => rfl
      | some v =>
        have : ∃ t' ∈ ts, parse t' = none := by
          obtain ⟨t', ht', hn⟩ := hx
          simp only [List.mem_cons] at ht'
          rcases ht' with rfl | ht'
          · rw [hp] at hn; cases hn
          · exact ⟨t', ht', hn⟩
        simp [ih this]
  have herr : ∀ (r : List Token) e, convertRow parse round r = .error e → e = .ValueError := by
    intro r
    induction r with
    | nil => intro e h; cases h
    | cons t ts ih =>
      intro e he
      simp only [convertRow] at he
      cases hp : parse t with
      | none => rw [hp] at he; cases he; rfl
      | some v =>
        rw [hp] at he
        cases hc : convertRow parse round ts with
        | error e' => rw [hc] at he; cases he; exact ih _ hc
        | ok vs => rw [hc] at he; cases he
  induction rows with
  | nil => simp at h
  | cons r rs ih =>
    simp only [convertRows]
    cases hc : convertRow parse round r with
    | error e => rw [herr r e hc]
    | ok v =>
      have : ∃ r' ∈ rs, ∃ t ∈ r', parse t = none := by
        obtain ⟨r', hr', hx⟩ := h
        simp only [List.mem_cons] at hr'
        rcases hr' with rfl | hr'
        · rw [hrow r' hx] at hc; cases hc
        · exact ⟨r', hr', hx⟩
      simp [ih this]

/-- an `N × m` table of good tokens with `N, m ≥ 2` -/
def BigTable (rows : List (List Token)) : Prop :=
  (∀ r ∈ rows, GoodRow r) ∧ 2 ≤ rows.length ∧ ∃ m, 2 ≤ m ∧ ∀ r ∈ rows, r.length = m

theorem loadtxtNum_big {ν : Type} (parse : Token → Option ν) (round : ν → ν) (val : Token → ν)
    (rows : List (List Token)) (h : BigTable rows) (hp : ∀ r ∈ rows, ∀ t ∈ r, parse t = some (val t)) :
    loadtxtNum parse round (printTable rows)
      = .ok (.mat (rows.map (fun r => r.map (fun t => round (val t))))) := by
  obtain ⟨hg, hN, m, hm, hrect⟩ := h
  rw [loadtxtNum, tokenize_printTable rows hg, convertRows_ok parse round val rows hp]
  exact shapeTable_mat false _ m (by simpa using hN) hm (by
    intro r hr; obtain ⟨r', hr', rfl⟩ := List.mem_map.1 hr; simpa using hrect r' hr')

/-! ### `ndmin=2`: no squeeze (F18) -/

/-- a rectangular table of writable tokens: any number `N ≥ 0` of rows, each of `m` good tokens
(`m ≥ 1` as soon as there is a row, by `GoodRow`) -/
def RectTable (rows : List (List Token)) (m : Nat) : Prop :=
  (∀ r ∈ rows, GoodRow r) ∧ ∀ r ∈ rows, r.length = m

theorem BigTable.rect {rows : List (List Token)} (h : BigTable rows) : ∃ m, RectTable rows m := by
  obtain ⟨hg, _, m, _, hrect⟩ := h
  exact ⟨m, hg, hrect⟩

theorem shapeTable2_rect {τ : Type} (rows : List (List τ)) (m : Nat) (hrect : ∀ r ∈ rows, r.length = m) :
    shapeTable2 rows = .ok (.mat rows) := by
  cases rows with
  | nil => rfl
  | cons r0 rest =>
    have h0 : r0.length = m := hrect r0 (by simp)
    have hall : rest.all (fun r => r.length == r0.length) = true := by
      rw [List.all_eq_true]; intro r hr; simp [hrect r (by simp [hr]), h0]
    simp [shapeTable2, hall]

theorem shapeTable2_ragged {τ : Type} (r0 : List τ) (rest : List (List τ))
    (h : ∃ r ∈ rest, r.length ≠ r0.length) : shapeTable2 (r0 :: rest) = .error .ValueError := by
  obtain ⟨r, hr, hne⟩ := h
  have : rest.all (fun r => r.length == r0.length) = false := by
    rw [List.all_eq_false]; exact ⟨r, hr, by simpa using hne⟩
  simp [shapeTable2, this]

theorem loadtxtStr2_rect (rows : List (List Token)) (m : Nat) (h : RectTable rows m) :
    loadtxtStr2 (printTable rows) = .ok (.mat rows) := by
  rw [loadtxtStr2, tokenize_printTable rows h.1, shapeTable2_rect rows m h.2]

theorem loadtxtNum2_rect {ν : Type} (parse : Token → Option ν) (round : ν → ν) (val : Token → ν)
    (rows : List (List Token)) (m : Nat) (h : RectTable rows m)
    (hp : ∀ r ∈ rows, ∀ t ∈ r, parse t = some (val t)) :
    loadtxtNum2 parse round (printTable rows)
      = .ok (.mat (rows.map (fun r => r.map (fun t => round (val t))))) := by
  rw [loadtxtNum2, tokenize_printTable rows h.1, convertRows_ok parse round val rows hp]
  exact shapeTable2_rect _ m (by
    intro r hr; obtain ⟨r', hr', rfl⟩ := List.mem_map.1 hr; simpa using h.2 r' hr')

/-- the list of bases as written in a `bases_path` file (read with `ndmin=1`): a one-column file (one basis
word per line — the form used by tutorial 3) or a one-row file is the 1-D list of its tokens; any other
table is the 2-D table. -/
def basesAsWritten {τ : Type} (T : List (List τ)) (m : Nat) : Arr τ :=
  if T.length ≤ 1 ∨ m ≤ 1 then .vec T.flatten else .mat T

theorem shapeTable_true_rect {τ : Type} (rows : List (List τ)) (m : Nat) (hne : ∀ r ∈ rows, r ≠ [])
    (hrect : ∀ r ∈ rows, r.length = m) : shapeTable true rows = .ok (basesAsWritten rows m) := by
  match rows with
  | [] => simp [shapeTable, basesAsWritten]
  | [r] =>
    have hr : r.length = m := hrect r (by simp)
    match r, hne r (by simp) with
    | [x], _ => simp [shapeTable, squeeze, basesAsWritten]
    | x :: y :: zs, _ => simp [shapeTable, squeeze, basesAsWritten]
  | r0 :: r1 :: rs =>
    have h0 : r0.length = m := hrect r0 (by simp)
    have hall : (r1 :: rs).all (fun r => r.length == r0.length) = true := by
      rw [List.all_eq_true]; intro r hr; simp [hrect r (by simp [hr]), h0]
    by_cases hm : m = 1
    · have hone : (r0 :: r1 :: rs).all (fun r => r.length == 1) = true := by
        rw [List.all_eq_true]; intro r hr; simp [hrect r hr, hm]
      simp only [shapeTable, hall, if_true, squeeze, hone, basesAsWritten, hm]
      simp
    · have hm2 : ¬ m ≤ 1 := by
        have : r0 ≠ [] := hne r0 (by simp)
        have : 0 < r0.length := List.length_pos_of_ne_nil this
        omega
      have hnot : (r0 :: r1 :: rs).all (fun r => r.length == 1) = false := by
        simp only [List.all_cons, h0]
        have : (m == 1) = false := by simpa using hm
        simp [this]
      simp only [shapeTable, hall, if_true, squeeze, hnot, basesAsWritten]
      simp [hm2]

theorem loadtxtStr_true_rect (rows : List (List Token)) (m : Nat) (h : RectTable rows m) :
    loadtxtStr true (printTable rows) = .ok (basesAsWritten rows m) := by
  rw [loadtxtStr, tokenize_printTable rows h.1, shapeTable_true_rect rows m (fun r hr => (h.1 r hr).1) h.2]

/-! ### boolean-mask selection -/

theorem maskSelect_eq_filter {τ : Type} (xs : List τ) (bs : List Bool) (h : xs.length = bs.length) :
    maskSelect xs bs = ((xs.zip bs).filter (fun p => p.2)).map Prod.fst := by
  induction xs generalizing bs with
  | nil => cases bs <;> simp [maskSelect]
  | cons x xs ih =>
    cases bs with
    | nil => simp at h
    | cons b bs =>
      have := ih bs (by simpa using h)
      cases b <;> simp [maskSelect, this]

theorem maskSelect_sublist {τ : Type} (xs : List τ) (bs : List Bool) : (maskSelect xs bs).Sublist xs := by
  induction xs generalizing bs with
  | nil => cases bs <;> simp [maskSelect]
  | cons x xs ih =>
    cases bs with
    | nil => simp [maskSelect]
    | cons b bs =>
      cases b
      · simpa [maskSelect] using (ih bs).cons x
      · simpa [maskSelect] using (ih bs).cons_cons x

/-- selection by a mask computed row-wise from a parallel list: exactly the positions whose partner
satisfies the test, in increasing order -/
theorem maskSelect_map_eq_finRange {τ υ : Type} (xs : List τ) (ys : List υ) (p : υ → Bool)
    (h : xs.length = ys.length) :
    maskSelect xs (ys.map p)
      = ((List.finRange xs.length).filter (fun i => p (ys[i.val]'(h ▸ i.isLt)))).map (fun i => xs[i.val]) := by
  induction xs generalizing ys with
  | nil => cases ys <;> simp [maskSelect]
  | cons x xs ih =>
    cases ys with
    | nil => simp at h
    | cons y ys =>
      have hl : xs.length = ys.length := by simpa using h
      have := ih ys hl
      simp only [List.map_cons, List.length_cons, List.finRange_succ, List.filter_cons, Fin.val_zero,
        List.getElem_cons_zero, List.filter_map]
      cases hp : p y
      · simp [maskSelect, this, Function.comp_def]
      · simp [maskSelect, this, Function.comp_def]

theorem maskSelect_length {τ : Type} (xs : List τ) (bs : List Bool) (h : xs.length = bs.length) :
    (maskSelect xs bs).length = bs.count true := by
  induction xs generalizing bs with
  | nil => cases bs <;> simp_all [maskSelect]
  | cons x xs ih =>
    cases bs with
    | nil => simp at h
    | cons b bs =>
      have := ih bs (by simpa using h)
      cases b <;> simp [maskSelect, this]

end QV.DataLoad
