/-
QV.Lemmas.Density — helper lemmas for C02: closed forms of the PurificationRBM model over ℝ, the
per-auxiliary-unit identity `exp(log|z| + i·arg z) = z` for `z = 1 + e^{x+iy}`, the factorisation of a
sum over auxiliary configurations, and the polar form of `Density.rho`.
-/
import Mathlib.Analysis.SpecialFunctions.Complex.Arg
import Mathlib.Analysis.SpecialFunctions.Sqrt
import Mathlib.Analysis.SpecialFunctions.Trigonometric.Basic
import Mathlib.Analysis.Complex.Trigonometric
import Mathlib.Algebra.BigOperators.Ring.Finset
import Mathlib.Data.Fintype.BigOperators
import QV.Model.Density
import QV.Lemmas.Basic

namespace QV
open Finset Complex

variable {n h a : ℕ}

theorem PRBM.preactH_eq (r : PRBM ℝ n h a) (v : Fin n → ℝ) (i : Fin h) :
    r.preactH v i = (∑ j, v j * r.W i j) + r.c i := by simp [PRBM.preactH]

theorem PRBM.preactA_eq (r : PRBM ℝ n h a) (v : Fin n → ℝ) (k : Fin a) :
    r.preactA v k = (∑ j, v j * r.U k j) + r.d k := by simp [PRBM.preactA]

theorem PRBM.visTerm_eq (r : PRBM ℝ n h a) (v : Fin n → ℝ) :
    r.visTerm v = ∑ j, v j * r.b j + ∑ i, Real.log (1 + Real.exp (r.preactH v i)) := by
  simp [PRBM.visTerm]

theorem PRBM.neg_effEnergy_eq (r : PRBM ℝ n h a) (v : Fin n → ℝ) :
    -(r.effEnergy v) = r.visTerm v + ∑ k, Real.log (1 + Real.exp (r.preactA v k)) := by
  simp [PRBM.effEnergy]

theorem PRBM.gamma_eq (r : PRBM ℝ n h a) (s : ℝ) (v vp : Fin n → ℝ) :
    r.gamma s v vp = (r.visTerm v + s * r.visTerm vp) / 2 := by
  simp [PRBM.gamma]; ring

/-- the 1-D branch of `gamma` computes the same real number as the batched branch -/
theorem PRBM.gammaVec_eq_gamma (r : PRBM ℝ n h a) (s : ℝ) (v vp : Fin n → ℝ) :
    r.gammaVec s v vp = r.gamma s v vp := by
  simp only [PRBM.gammaVec, PRBM.gamma, PRBM.visTerm, dot_eq, sumFin_eq]
  have : ∑ j, (v j + s * vp j) * r.b j = ∑ j, v j * r.b j + s * ∑ j, vp j * r.b j := by
    rw [Finset.mul_sum, ← Finset.sum_add_distrib]
    exact Finset.sum_congr rfl (fun j _ => by ring)
  rw [this]; ring

namespace Density

/-- `1 + e^{x+iy}` in Cartesian form -/
theorem one_add_cexp (x y : ℝ) :
    (1 : ℂ) + Complex.exp ((x : ℂ) + (y : ℂ) * I)
      = ⟨1 + Real.exp x * Real.cos y, Real.exp x * Real.sin y⟩ := by
  apply Complex.ext <;> simp [Complex.exp_re, Complex.exp_im]

/-- the radicand of `pi`'s real part is `|1 + e^{x+iy}|²` -/
theorem radicand_eq_normSq (x y : ℝ) :
    1 + 2 * Real.exp x * Real.cos y + Real.exp (2 * x)
      = Complex.normSq ((1 : ℂ) + Complex.exp ((x : ℂ) + (y : ℂ) * I)) := by
  rw [one_add_cexp, Complex.normSq_mk]
  have h2 : Real.exp (2 * x) = Real.exp x * Real.exp x := by rw [← Real.exp_add]; ring_nf
  have hs := Real.sin_sq_add_cos_sq y
  rw [h2]
  nlinarith [hs, Real.exp_pos x]

theorem piRe1_eq (x y : ℝ) :
    piRe1 x y = Real.log ‖(1 : ℂ) + Complex.exp ((x : ℂ) + (y : ℂ) * I)‖ := by
  simp only [piRe1, transc_log, transc_sqrt, transc_exp, transc_cos, two_eq]
  rw [radicand_eq_normSq, Complex.norm_def]

theorem piIm1_eq (x y : ℝ) :
    piIm1 x y = Complex.arg ((1 : ℂ) + Complex.exp ((x : ℂ) + (y : ℂ) * I)) := by
  simp only [piIm1, transc_atan2, transc_exp, transc_cos, transc_sin]
  rw [one_add_cexp]

/-- per-auxiliary-unit identity: `exp(Re Π_k + i Im Π_k) = 1 + e^{x+iy}` unless the right side is 0 -/
theorem pi_unit (x y : ℝ) (hz : (1 : ℂ) + Complex.exp ((x : ℂ) + (y : ℂ) * I) ≠ 0) :
    Complex.exp (((piRe1 x y : ℝ) : ℂ) + ((piIm1 x y : ℝ) : ℂ) * I)
      = 1 + Complex.exp ((x : ℂ) + (y : ℂ) * I) := by
  rw [piRe1_eq, piIm1_eq, Complex.exp_add, ← Complex.ofReal_exp,
    Real.exp_log (norm_pos_iff.mpr hz)]
  exact Complex.norm_mul_exp_arg_mul_I _

theorem piRe1_zero (x : ℝ) : piRe1 x 0 = Real.log (1 + Real.exp x) := by
  rw [piRe1_eq]
  have : (1 : ℂ) + Complex.exp ((x : ℂ) + ((0 : ℝ) : ℂ) * I) = ((1 + Real.exp x : ℝ) : ℂ) := by
    simp
  rw [this, Complex.norm_real, Real.norm_of_nonneg (by positivity)]

theorem piIm1_zero (x : ℝ) : piIm1 x 0 = 0 := by
  rw [piIm1_eq]
  have : (1 : ℂ) + Complex.exp ((x : ℂ) + ((0 : ℝ) : ℂ) * I) = ((1 + Real.exp x : ℝ) : ℂ) := by
    simp
  rw [this]
  exact Complex.arg_ofReal_of_nonneg (by positivity)

theorem piArgIm_self (ph : PRBM ℝ n h a) (v : Fin n → ℝ) (k : Fin a) : piArgIm ph v v k = 0 := by
  simp [piArgIm]

theorem piArgRe_self (am : PRBM ℝ n h a) (v : Fin n → ℝ) (k : Fin a) :
    piArgRe am v v k = am.preactA v k := by
  simp [piArgRe]

/-- a complex pair `(r cos θ, r sin θ)` is `r e^{iθ}` -/
theorem polar_mk (r θ : ℝ) :
    (⟨Real.exp r * Real.cos θ, Real.exp r * Real.sin θ⟩ : ℂ) = Complex.exp ((r : ℂ) + (θ : ℂ) * I) := by
  apply Complex.ext <;> simp [Complex.exp_re, Complex.exp_im]

/-- `Σ_{aux ∈ 𝔹ᵃ} exp(c + Σ_k aux_k z_k) = e^c ∏_k (1 + e^{z_k})` -/
theorem sum_aux_exp (c : ℂ) (z : Fin a → ℂ) :
    ∑ aux : Fin a → Bool, Complex.exp (c + ∑ k, if aux k then z k else 0)
      = Complex.exp c * ∏ k, (1 + Complex.exp (z k)) := by
  have h1 : ∀ k, (1 : ℂ) + Complex.exp (z k) = ∑ t : Bool, Complex.exp (if t then z k else 0) := by
    intro k; rw [Fintype.sum_bool]; simp [add_comm]
  simp_rw [h1]
  rw [Fintype.prod_sum, Finset.mul_sum]
  refine Finset.sum_congr rfl (fun aux _ => ?_)
  rw [Complex.exp_add, Complex.exp_sum]

/-- polar form of the model's `rho` as a complex number, under the guard for every auxiliary unit -/
theorem rho_complex_eq (am ph : PRBM ℝ n h a) (v vp : Fin n → ℝ)
    (hz : ∀ k, (1 : ℂ) + Complex.exp (((piArgRe am v vp k : ℝ) : ℂ) + ((piArgIm ph v vp k : ℝ) : ℂ) * I) ≠ 0) :
    (⟨(rho am ph v vp).1, (rho am ph v vp).2⟩ : ℂ)
      = Complex.exp (((am.gamma 1 v vp : ℝ) : ℂ) + ((ph.gamma (-1) v vp : ℝ) : ℂ) * I)
        * ∏ k, (1 + Complex.exp (((piArgRe am v vp k : ℝ) : ℂ) + ((piArgIm ph v vp k : ℝ) : ℂ) * I)) := by
  simp only [rho, pi, transc_exp, transc_cos, transc_sin, sumFin_eq]
  rw [polar_mk]
  simp_rw [← fun k => pi_unit _ _ (hz k)]
  rw [← Complex.exp_sum, ← Complex.exp_add]
  congr 1
  push_cast
  rw [Finset.sum_add_distrib, ← Finset.sum_mul]
  ring

end Density
end QV
